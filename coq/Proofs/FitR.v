(* Theorems about Model.Fit at the real instance: parameters, averaged knots, collocation rows,
   interpolation conditions, normal equations and least squares. *)
From Coq Require Import List Reals Lra Lia Arith Bool.
From NV Require Import Scalar.Ops Model.Common Model.Basis Model.Knots Model.Eval Model.LinAlg Model.Fit
  Proofs.Boehm Proofs.BasisR Proofs.KnotsR Proofs.EvalR Proofs.LinAlgSums Proofs.LinAlgR Proofs.LinAlgSolve.
Import ListNotations.
Open Scope R_scope.

Lemma sumR_sumf n f : sumR 0 n f = sumf f n.
Proof. induction n as [|n IH]; [reflexivity|]. rewrite sumr_S, IH. reflexivity. Qed.
Lemma sumr_le a n f g : (forall i, (a <= i < a + n)%nat -> f i <= g i) -> sumR a n f <= sumR a n g.
Proof.
  revert a. induction n as [|n IH]; intros a H; [rewrite !sumr_0; lra|].
  rewrite !sumr_cons. assert (f a <= g a) by (apply H; lia).
  assert (sumR (S a) n f <= sumR (S a) n g) by (apply IH; intros; apply H; lia). lra.
Qed.
Lemma sumr_const a n c : sumR a n (fun _ => c) = INR n * c.
Proof.
  revert a. induction n as [|n IH]; intros a; [rewrite sumr_0; cbn; lra|].
  rewrite sumr_cons, IH, S_INR. lra.
Qed.

Lemma nth_repeat_lt' {A} (x d : A) : forall m k, (k < m)%nat -> nth k (repeat x m) d = x.
Proof. induction m as [|m IH]; intros [|k] H; cbn; try lia; [reflexivity|apply IH; lia]. Qed.

(* ------------------------------------------------------------------ parameters (Eqs 9.4 - 9.6) *)
Lemma sumT_firstn_S (l : list R) : forall i, (i < length l)%nat ->
  sumT Rops (firstn (S i) l) = sumT Rops (firstn i l) + nth i l 0.
Proof.
  induction l as [|x l IH]; intros i Hi; [cbn in Hi; lia|].
  destruct i as [|i].
  - cbn [firstn sumT nth]. rsimp. lra.
  - change (firstn (S (S i)) (x :: l)) with (x :: firstn (S i) l). change (firstn (S i) (x :: l)) with (x :: firstn i l).
    cbn [sumT nth]. rsimp. rewrite IH by (cbn in Hi; lia). lra.
Qed.
Lemma sumT_firstn_nonneg (l : list R) : (forall x, In x l -> 0 <= x) -> forall i, 0 <= sumT Rops (firstn i l).
Proof.
  intros H. induction l as [|x l IH]; intros [|i]; cbn [firstn sumT]; rsimp; try lra.
  assert (0 <= x) by (apply H; left; reflexivity).
  assert (0 <= sumT Rops (firstn i l)) by (apply IH; intros; apply H; right; assumption). lra.
Qed.

(* [G] first 0, last 1, non-decreasing (strictly increasing when every chord is positive) *)
Theorem params_spec (cds : list R) : (forall x, In x cds -> 0 <= x) -> 0 < sumT Rops cds ->
  exists uk, compute_params_curve Rops cds = Ok uk /\ length uk = S (length cds) /\
    nth 0 uk 0 = 0 /\ nth (length cds) uk 0 = 1 /\
    (forall i, (i < length cds)%nat -> nth i uk 0 <= nth (S i) uk 0) /\
    ((forall x, In x cds -> 0 < x) -> forall i, (i < length cds)%nat -> nth i uk 0 < nth (S i) uk 0) /\
    (forall i, (i <= length cds)%nat -> nth i uk 0 = sumT Rops (firstn i cds) / sumT Rops cds).
Proof.
  intros Hpos Hd. unfold compute_params_curve. rewrite isz_false by lra.
  set (d := sumT Rops cds) in *.
  set (uk := map (fun i => odiv Rops (sumT Rops (firstn i cds)) d) (seq 0 (S (length cds)))).
  assert (Hn : forall i, (i <= length cds)%nat -> nth i uk 0 = sumT Rops (firstn i cds) / d).
  { intros i Hi. unfold uk. rewrite nth_map_seq by lia. reflexivity. }
  exists uk. split; [reflexivity|]. split; [unfold uk; rewrite map_length, seq_length; reflexivity|].
  split; [rewrite Hn by lia; cbn [firstn sumT]; rsimp; unfold Rdiv; lra|].
  split; [rewrite Hn by lia; rewrite firstn_all; fold d; field; lra|].
  split; [|split; [|exact Hn]].
  - intros i Hi. rewrite !Hn by lia. rewrite sumT_firstn_S by exact Hi.
    assert (0 <= nth i cds 0) by (apply Hpos, nth_In, Hi).
    unfold Rdiv. apply Rmult_le_compat_r; [left; apply Rinv_0_lt_compat; lra|lra].
  - intros Hs i Hi. rewrite !Hn by lia. rewrite sumT_firstn_S by exact Hi.
    assert (0 < nth i cds 0) by (apply Hs, nth_In, Hi).
    unfold Rdiv. apply Rmult_lt_compat_r; [apply Rinv_0_lt_compat; lra|lra].
Qed.

(* ------------------------------------------------------------------ averaged knot vector (Eq 9.8) *)
Section AvgKnots.
Variables (p n : nat) (uk : list R).
Hypothesis Hp : (1 <= p < n)%nat.
Hypothesis HL : length uk = n.
Hypothesis H0 : nth 0 uk 0 = 0.
Hypothesis H1 : nth (n - 1) uk 0 = 1.
Hypothesis Hmono : forall i, (S i < n)%nat -> nth i uk 0 <= nth (S i) uk 0.

Lemma uk_mono i j : (i <= j < n)%nat -> nth i uk 0 <= nth j uk 0.
Proof.
  intros [Hij Hj]. induction j as [|j IH]; [replace i with 0%nat by lia; lra|].
  destruct (Nat.eq_dec i (S j)) as [->|Hne]; [lra|].
  apply Rle_trans with (nth j uk 0); [apply IH; lia|apply Hmono; lia].
Qed.
Lemma uk_range i : (i < n)%nat -> 0 <= nth i uk 0 <= 1.
Proof.
  intros Hi. assert (A := uk_mono 0 i ltac:(lia)). assert (B := uk_mono i (n - 1) ltac:(lia)).
  rewrite H0 in A. rewrite H1 in B. lra.
Qed.

Definition avgk (i : nat) : R := 1 / INR p * sumR (S i) p (fun j => nth j uk 0).
Definition kvf (i : nat) : R := if Nat.leb i p then 0 else if Nat.ltb i n then avgk (i - S p) else 1.
Lemma INRp : 0 < INR p. Proof. apply lt_0_INR. lia. Qed.
Lemma avgk_range i : (i + p < n)%nat -> 0 <= avgk i <= 1.
Proof.
  intros Hi. unfold avgk. pose proof INRp as Hq.
  assert (A : 0 <= sumR (S i) p (fun j => nth j uk 0)) by (apply sumr_nonneg; intros j Hj; apply uk_range; lia).
  assert (B : sumR (S i) p (fun j => nth j uk 0) <= sumR (S i) p (fun _ => 1)) by (apply sumr_le; intros j Hj; apply uk_range; lia).
  rewrite sumr_const in B. split.
  - apply Rmult_le_pos; [unfold Rdiv; rewrite Rmult_1_l; left; apply Rinv_0_lt_compat; exact Hq|exact A].
  - apply Rle_trans with (1 / INR p * (INR p * 1)); [apply Rmult_le_compat_l; [unfold Rdiv; rewrite Rmult_1_l; left; apply Rinv_0_lt_compat; exact Hq|exact B]|].
    right. field. lra.
Qed.
Lemma avgk_mono i : (S i + p < n)%nat -> avgk i <= avgk (S i).
Proof.
  intros Hi. unfold avgk. pose proof INRp as Hq.
  apply Rmult_le_compat_l; [unfold Rdiv; rewrite Rmult_1_l; left; apply Rinv_0_lt_compat; exact Hq|].
  rewrite (sumr_shift (S i)). apply sumr_le. intros j Hj. apply Hmono. lia.
Qed.
Lemma kv_nth i : (i < n + p + 1)%nat -> nth i (compute_knot_vector Rops p n uk) 0 = kvf i.
Proof.
  intros Hi. unfold compute_knot_vector, kvf.
  destruct (Nat.leb_spec i p) as [H|H].
  - rewrite app_nth1 by (rewrite repeat_length; lia). apply nth_repeat.
  - rewrite app_nth2 by (rewrite repeat_length; lia). rewrite repeat_length.
    destruct (Nat.ltb_spec i n) as [H'|H'].
    + rewrite app_nth1 by (rewrite map_length, seq_length; lia).
      rewrite nth_map_seq by lia. unfold avgk. rewrite ofnat_INR. reflexivity.
    + rewrite app_nth2 by (rewrite map_length, seq_length; lia). rewrite map_length, seq_length. apply nth_repeat_lt'. lia.
Qed.
Lemma kv_length : length (compute_knot_vector Rops p n uk) = (n + p + 1)%nat.
Proof. unfold compute_knot_vector. rewrite !app_length, !repeat_length, map_length, seq_length. lia. Qed.
Lemma kvf_step i : (S i < n + p + 1)%nat -> kvf i <= kvf (S i).
Proof.
  intros Hi. unfold kvf.
  destruct (Nat.leb_spec i p), (Nat.leb_spec (S i) p), (Nat.ltb_spec i n), (Nat.ltb_spec (S i) n); try lia; try lra.
  all: try (replace (S i - S p)%nat with (S (i - S p)) by lia; apply avgk_mono; lia).
  all: try (pose proof (avgk_range (S i - S p) ltac:(lia)); lra).
  all: try (pose proof (avgk_range (i - S p) ltac:(lia)); lra).
Qed.
End AvgKnots.

Lemma pairwise_nondecr (l : list R) : forall f, (forall i, (S i < length (f :: l))%nat -> nth i (f :: l) 0 <= nth (S i) (f :: l) 0) -> nondecr f l.
Proof.
  induction l as [|x l IH]; intros f H; cbn [nondecr]; [exact I|].
  split; [apply (H 0%nat); cbn; lia|]. apply IH. intros i Hi. apply (H (S i)). cbn in *. lia.
Qed.

(* [G] the averaged knot vector is a valid clamped knot vector for (p, n): accepted by knotvector.check *)
Theorem averaged_knots_valid p n (uk : list R) : (1 <= p < n)%nat -> length uk = n ->
  nth 0 uk 0 = 0 -> nth (n - 1) uk 0 = 1 -> (forall i, (S i < n)%nat -> nth i uk 0 <= nth (S i) uk 0) ->
  let kv := compute_knot_vector Rops p n uk in
  length kv = (n + p + 1)%nat /\ check Rops p kv n = Ok true /\
  (forall i, (i <= p)%nat -> nth i kv 0 = 0) /\ (forall i, (n <= i < n + p + 1)%nat -> nth i kv 0 = 1) /\
  (forall i, (S i < n + p + 1)%nat -> nth i kv 0 <= nth (S i) kv 0).
Proof.
  intros Hp HL H0 H1 Hm kv.
  assert (HLk : length kv = (n + p + 1)%nat) by (apply kv_length; assumption).
  assert (Hpair : forall i, (S i < n + p + 1)%nat -> nth i kv 0 <= nth (S i) kv 0).
  { intros i Hi. unfold kv. rewrite !kv_nth by (first [assumption | lia]). apply kvf_step; assumption. }
  split; [exact HLk|]. split.
  - destruct kv as [|f U] eqn:E; [cbn in HLk; lia|]. apply check_spec. split; [rewrite HLk; lia|].
    apply pairwise_nondecr. intros i Hi. apply Hpair. rewrite <- HLk. exact Hi.
  - split; [|split; [|exact Hpair]].
    + intros i Hi. unfold kv. rewrite kv_nth by (first [assumption | lia]). unfold kvf. destruct (Nat.leb_spec i p); [reflexivity|lia].
    + intros i Hi. unfold kv. rewrite kv_nth by (first [assumption | lia]). unfold kvf.
      destruct (Nat.leb_spec i p); [lia|]. destruct (Nat.ltb_spec i n); [lia|reflexivity].
Qed.

(* ------------------------------------------------------------------ collocation rows *)
Lemma firstn_repeat' {A} (x : A) : forall k n, (k <= n)%nat -> firstn k (repeat x n) = repeat x k.
Proof. induction k as [|k IH]; intros [|n] H; cbn; try reflexivity; try lia. rewrite IH by lia. reflexivity. Qed.
Lemma skipn_repeat' {A} (x : A) : forall k n, skipn k (repeat x n) = repeat x (n - k).
Proof. induction k as [|k IH]; intros [|n]; cbn; try reflexivity. apply IH. Qed.

Section Row.
Variables (p n : nat) (kv : list R) (u : R).
Let span := find_span_linear Rops p kv n u.
Let Ns := basis_function Rops p kv span u.
Hypothesis Hspan : (p <= span < n)%nat.

Lemma coeff_row_eq : coeff_row Rops p kv n u = repeat 0 (span - p) ++ Ns ++ repeat 0 (n - S span).
Proof. unfold coeff_row. fold span. fold Ns. rewrite firstn_repeat' by lia. rewrite skipn_repeat'. reflexivity. Qed.
Lemma Ns_length : length Ns = S p.
Proof. apply bf_length. Qed.
Lemma coeff_row_length : length (coeff_row Rops p kv n u) = n.
Proof. rewrite coeff_row_eq, !app_length, !repeat_length, Ns_length. lia. Qed.
Lemma coeff_row_nth j : (j < n)%nat ->
  nth j (coeff_row Rops p kv n u) 0 = if andb (Nat.leb (span - p) j) (Nat.leb j span) then nth (j - (span - p)) Ns 0 else 0.
Proof.
  intros Hj. rewrite coeff_row_eq.
  destruct (Nat.leb_spec (span - p) j) as [H1|H1]; cbn [andb].
  - rewrite app_nth2 by (rewrite repeat_length; lia). rewrite repeat_length.
    destruct (Nat.leb_spec j span) as [H2|H2].
    + apply app_nth1. rewrite Ns_length. lia.
    + rewrite app_nth2 by (rewrite Ns_length; lia). apply nth_repeat.
  - rewrite app_nth1 by (rewrite repeat_length; lia). apply nth_repeat.
Qed.
(* [G] a collocation row applied to a column of control points is the B-spline sum over the active window *)
Lemma coeff_row_dot (f : nat -> R) :
  sumR 0 n (fun j => nth j (coeff_row Rops p kv n u) 0 * f j) = sumf (fun k => nth k Ns 0 * f (span - p + k)%nat) (S p).
Proof.
  rewrite <- sumR_sumf.
  replace n with ((span - p) + (S p + (n - S span)))%nat at 1 by lia.
  rewrite sumr_split, sumr_split. cbn [Nat.add].
  rewrite (sumr_zero 0 (span - p)).
  2:{ intros j Hj. rewrite coeff_row_nth by lia. destruct (Nat.leb_spec (span - p) j); [lia|]. cbn [andb]. ring. }
  rewrite (sumr_zero (span - p + S p)).
  2:{ intros j Hj. rewrite coeff_row_nth by lia. destruct (Nat.leb_spec j span); [lia|]. rewrite Bool.andb_false_r. ring. }
  rewrite (sumr_shift0 (span - p)). rewrite Rplus_0_l, Rplus_0_r. apply sumr_ext. intros k Hk.
  rewrite coeff_row_nth by lia.
  destruct (Nat.leb_spec (span - p) (span - p + k)); [|lia]. destruct (Nat.leb_spec (span - p + k) span); [|lia]. cbn [andb].
  replace (span - p + k - (span - p))%nat with k by lia. reflexivity.
Qed.
End Row.

(* ------------------------------------------------------------------ interpolation conditions *)
Section Interp.
Variables (p n dim : nat) (kv params : list R) (pts : list (list R)).
Hypothesis Hn : (0 < n)%nat.
Hypothesis Hpts : rect n dim pts.
Hypothesis Hspans : forall i, (i < n)%nat -> (p <= find_span_linear Rops p kv n (nth i params 0%R) < n)%nat.
Let A := build_coeff_matrix Rops p kv params n.
Hypothesis Hpiv : forall i, (i < n)%nat -> g2 (snd (doolittle Rops A)) i i <> 0.

Lemma A_length : length A = n.
Proof. unfold A, build_coeff_matrix. rewrite map_length, seq_length. reflexivity. Qed.
Lemma A_row i : (i < n)%nat -> nth i A [] = coeff_row Rops p kv n (nth i params 0).
Proof. intros Hi. unfold A, build_coeff_matrix. rewrite nth_map_seq by exact Hi. reflexivity. Qed.
Lemma A_square : is_square A = true.
Proof.
  unfold is_square. apply forallb_forall. intros row Hin. destruct (In_nth _ _ [] Hin) as [i [Hi <-]].
  rewrite A_length in *. rewrite A_row by exact Hi. rewrite coeff_row_length by (apply Hspans, Hi). apply Nat.eqb_refl.
Qed.

(* [G] given non-zero pivots: the solved control points reproduce every data point at its parameter,
   where the curve point is the one the evaluator model computes (Model.Eval.curve_point) *)
Theorem interp_1d_conditions :
  exists P, interp_1d Rops p kv params pts = Ok P /\ rect n dim P /\
    forall i d, (i < n)%nat -> (d < dim)%nat -> nth d (curve_point Rops dim p kv P (nth i params 0)) 0 = g2 pts i d.
Proof.
  assert (HLp : length pts = n) by apply Hpts.
  destruct (lu_solve_correct A pts dim) as (P & EP & RP & HP); rewrite ?A_length; try assumption; [apply A_square|].
  rewrite A_length in RP, HP.
  exists P. split; [unfold interp_1d; rewrite HLp; exact EP|]. split; [exact RP|].
  intros i d Hi Hd. assert (HLP : length P = n) by apply RP.
  unfold curve_point. rewrite HLP.
  assert (Hwf : wf_net P dim). { intros k Hk. apply (rect_nth n dim); [exact RP|lia]. }
  pose proof (Hspans i Hi) as Hs.
  destruct (curve_point_at_sum dim p P (find_span_linear Rops p kv n (nth i params 0))
              (basis_function Rops p kv (find_span_linear Rops p kv n (nth i params 0)) (nth i params 0)) Hwf) as [_ Hsum]; try lia.
  rewrite Hsum by exact Hd. rewrite <- (HP i d Hi Hd).
  rewrite <- (coeff_row_dot p n kv (nth i params 0) Hs (fun j => coord P j d)).
  apply sumr_ext. intros j Hj. unfold get2 at 1. rewrite A_row by exact Hi. reflexivity.
Qed.
End Interp.

(* ------------------------------------------------------------------ least squares: normal equations minimise *)
(* [G] pure algebra: if (N^T N) P = N^T R then |N P - R|^2 <= |N P' - R|^2 for every P' *)
Theorem normal_equations_minimise (Nf : nat -> nat -> R) (Rf P P' : nat -> R) (m n : nat) :
  (forall j, (j < n)%nat -> sumR 0 m (fun i => Nf i j * sumR 0 n (fun k => Nf i k * P k)) = sumR 0 m (fun i => Nf i j * Rf i)) ->
  sumR 0 m (fun i => (sumR 0 n (fun k => Nf i k * P k) - Rf i) * (sumR 0 n (fun k => Nf i k * P k) - Rf i))
  <= sumR 0 m (fun i => (sumR 0 n (fun k => Nf i k * P' k) - Rf i) * (sumR 0 n (fun k => Nf i k * P' k) - Rf i)).
Proof.
  intros Hne.
  set (e := fun i => sumR 0 n (fun k => Nf i k * P k) - Rf i).
  set (dl := fun i => sumR 0 n (fun k => Nf i k * (P' k - P k))).
  assert (Hdl : forall i, dl i = sumR 0 n (fun k => Nf i k * P' k) - sumR 0 n (fun k => Nf i k * P k)).
  { intros i. unfold dl. rewrite <- sumr_minus. apply sumr_ext. intros k _. ring. }
  assert (Hsplit : forall i, sumR 0 n (fun k => Nf i k * P' k) - Rf i = e i + dl i).
  { intros i. rewrite Hdl. unfold e. ring. }
  assert (Hcross : sumR 0 m (fun i => e i * dl i) = 0).
  { rewrite (sumr_ext 0 m (fun i => e i * dl i) (fun i => sumR 0 n (fun k => (P' k - P k) * (Nf i k * e i)))).
    2:{ intros i _. unfold dl. rewrite <- sumr_scale. apply sumr_ext. intros k _. ring. }
    rewrite sumr_swap. apply sumr_zero. intros k Hk. rewrite sumr_scale.
    assert (Z : sumR 0 m (fun i => Nf i k * e i) = 0).
    { rewrite (sumr_ext 0 m (fun i => Nf i k * e i) (fun i => Nf i k * sumR 0 n (fun k0 => Nf i k0 * P k0) - Nf i k * Rf i)).
      2:{ intros i _. unfold e. ring. }
      rewrite sumr_minus. rewrite Hne by lia. ring. }
    rewrite Z. ring. }
  rewrite (sumr_ext 0 m (fun i => (sumR 0 n (fun k => Nf i k * P' k) - Rf i) * (sumR 0 n (fun k => Nf i k * P' k) - Rf i))
             (fun i => (e i * e i + dl i * dl i) + 2 * (e i * dl i))).
  2:{ intros i _. rewrite Hsplit. ring. }
  rewrite sumr_plus, sumr_plus, sumr_scale, Hcross.
  assert (0 <= sumR 0 m (fun i => dl i * dl i)) by (apply sumr_nonneg; intros; nra).
  change (sumR 0 m (fun i => e i * e i) <= sumR 0 m (fun i => e i * e i) + sumR 0 m (fun i => dl i * dl i) + 2 * 0). lra.
Qed.

(* ------------------------------------------------------------------ interpolate_curve: the whole chain *)
Lemma rect_map_seq (f : nat -> nat -> R) a r b c :
  rect r c (map (fun i => map (fun j => f i j) (seq b c)) (seq a r)).
Proof.
  split; [rewrite map_length, seq_length; reflexivity|].
  intros row Hin. apply in_map_iff in Hin. destruct Hin as [i [<- _]]. rewrite map_length, seq_length. reflexivity.
Qed.
Lemma get2_map_seq' (f : nat -> nat -> R) a r b c i j : (i < r)%nat -> (j < c)%nat ->
  g2 (map (fun i => map (fun j => f i j) (seq b c)) (seq a r)) i j = f (a + i)%nat (b + j)%nat.
Proof.
  intros Hi Hj. unfold get2. rewrite (nth_map_seq (fun i => map (fun j => f i j) (seq b c))) by exact Hi.
  rewrite (nth_map_seq (f (a + i)%nat)) by exact Hj. reflexivity.
Qed.
Lemma rect_square n m : rect n n m -> is_square m = true.
Proof.
  intros [H1 H2]. unfold is_square. apply forallb_forall. intros r Hr. rewrite H1. apply Nat.eqb_eq, H2, Hr.
Qed.

(* [G] chords >= 0 with positive sum, 1 <= p < n, non-zero pivots: the returned curve passes through every
   data point at its parameter *)
Theorem interpolate_curve_correct (pts : list (list R)) (p dim : nat) (cds : list R) :
  let n := length pts in
  length cds = (n - 1)%nat -> (1 <= p < n)%nat -> rect n dim pts ->
  (forall x, In x cds -> 0 <= x) -> 0 < sumT Rops cds ->
  (forall uk, compute_params_curve Rops cds = Ok uk -> forall i, (i < n)%nat ->
      g2 (snd (doolittle Rops (build_coeff_matrix Rops p (compute_knot_vector Rops p n uk) uk n))) i i <> 0) ->
  exists uk P, compute_params_curve Rops cds = Ok uk /\
    interpolate_curve Rops pts p cds = Ok (P, compute_knot_vector Rops p n uk) /\ rect n dim P /\
    nth 0 uk 0 = 0 /\ nth (n - 1) uk 0 = 1 /\
    forall k d, (k < n)%nat -> (d < dim)%nat ->
      nth d (curve_point Rops dim p (compute_knot_vector Rops p n uk) P (nth k uk 0)) 0 = g2 pts k d.
Proof.
  intros n Hc Hp Hpts Hpos Hsum Hpiv.
  destruct (params_spec cds Hpos Hsum) as (uk & Euk & Luk & U0 & U1 & Umono & _ & Uval).
  assert (HLn : S (length cds) = n) by lia. rewrite HLn in Luk.
  replace (length cds) with (n - 1)%nat in U1, Umono, Uval by lia.
  set (kv := compute_knot_vector Rops p n uk).
  destruct (averaged_knots_valid p n uk Hp Luk U0 U1) as (Lkv & _ & Kz & _ & _).
  { intros i Hi. apply Umono. lia. }
  fold kv in Lkv, Kz.
  assert (Hspans : forall i, (i < n)%nat -> (p <= find_span_linear Rops p kv n (nth i uk 0%R) < n)%nat).
  { intros i Hi. apply (find_span_linear_spec kv (nth i uk 0) p n); [lia|lia|].
    unfold kn. cbn [o0 Rops]. rewrite Kz by lia. rewrite Uval by lia.
    apply Rmult_le_pos; [apply sumT_firstn_nonneg, Hpos|left; apply Rinv_0_lt_compat; exact Hsum]. }
  destruct (interp_1d_conditions p n dim kv uk pts ltac:(lia) Hpts Hspans (Hpiv uk Euk)) as (P & EP & RP & HP).
  exists uk, P. split; [exact Euk|]. split.
  - unfold interpolate_curve. rewrite Euk. cbn [res_bind]. fold n. fold kv. rewrite EP. reflexivity.
  - split; [exact RP|]. split; [exact U0|]. split; [exact U1|]. exact HP.
Qed.

(* ------------------------------------------------------------------ least squares approximation *)
Section Approx.
Variables (p c dim : nat) (kv params : list R) (pts : list (list R)).
Let r := length pts.
Hypothesis Hr : (3 <= r)%nat.
Hypothesis Hc : (3 <= c)%nat.
Hypothesis Hpts : rect r dim pts.
Let Nm := approx_N Rops p c kv params r.
Let Rk := approx_Rk Rops p c kv params pts.
Let NtN := mmul Rops (transpose Rops Nm) Nm.
Hypothesis Hpiv : forall i, (i < c - 2)%nat -> g2 (snd (doolittle Rops NtN)) i i <> 0.

Lemma Nm_rect : rect (r - 2) (c - 2) Nm.
Proof. unfold Nm, approx_N. apply (rect_map_seq (fun i j => basis_function_one Rops p kv j (nth i params 0))). Qed.
Lemma Nm_entry i j : (i < r - 2)%nat -> (j < c - 2)%nat -> g2 Nm i j = basis_function_one Rops p kv (S j) (nth (S i) params 0).
Proof. intros Hi Hj. unfold Nm, approx_N. rewrite (get2_map_seq' (fun i j => basis_function_one Rops p kv j (nth i params 0))) by assumption. reflexivity. Qed.
Lemma Nt_rect : rect (c - 2) (r - 2) (transpose Rops Nm).
Proof. apply transpose_rect; [apply Nm_rect|lia]. Qed.
Lemma NtN_rect : rect (c - 2) (c - 2) NtN.
Proof.
  pose proof (mmul_rect (transpose Rops Nm) Nm) as H. destruct Nt_rect as [H1 _]. rewrite H1 in H.
  rewrite (rect_hd (r - 2) (c - 2) Nm Nm_rect ltac:(lia)) in H. exact H.
Qed.
Lemma NtN_entry j k : (j < c - 2)%nat -> (k < c - 2)%nat -> g2 NtN j k = sumR 0 (r - 2) (fun i => g2 Nm i j * g2 Nm i k).
Proof.
  intros Hj Hk. unfold NtN. destruct Nt_rect as [H1 _]. destruct Nm_rect as [H2 _].
  rewrite mmul_entry by (rewrite ?H1, ?(rect_hd (r - 2) (c - 2) Nm Nm_rect); lia). rewrite H2.
  apply sumr_ext. intros i Hi. rewrite (transpose_entry (r - 2) (c - 2)) by (try apply Nm_rect; lia). reflexivity.
Qed.
Lemma Rk_length : length Rk = (r - 2)%nat.
Proof. unfold Rk, approx_Rk. rewrite map_length, seq_length. reflexivity. Qed.

(* [G] given non-zero pivots of N^T N: end control points are the end data points and every coordinate of the
   interior control points minimises the summed squared residual  sum_i (sum_k N_ik x_k - Rk_i)^2 *)
Theorem approx_1d_least_squares :
  exists X, approx_1d Rops p c kv params pts = Ok ([nth 0 pts []] ++ X ++ [nth (r - 1) pts []]) /\ rect (c - 2) dim X /\
    (forall j d, (j < c - 2)%nat -> (d < dim)%nat ->
       sumR 0 (r - 2) (fun i => g2 Nm i j * sumR 0 (c - 2) (fun k => g2 Nm i k * g2 X k d)) = sumR 0 (r - 2) (fun i => g2 Nm i j * g2 Rk i d)) /\
    forall d (X' : nat -> R), (d < dim)%nat ->
      sumR 0 (r - 2) (fun i => (sumR 0 (c - 2) (fun k => g2 Nm i k * g2 X k d) - g2 Rk i d) * (sumR 0 (c - 2) (fun k => g2 Nm i k * g2 X k d) - g2 Rk i d))
      <= sumR 0 (r - 2) (fun i => (sumR 0 (c - 2) (fun k => g2 Nm i k * X' k) - g2 Rk i d) * (sumR 0 (c - 2) (fun k => g2 Nm i k * X' k) - g2 Rk i d)).
Proof.
  set (vecR := approx_R Rops p c dim kv params Rk).
  assert (HvR : rect (c - 2) dim vecR).
  { unfold vecR, approx_R. apply (rect_map_seq (fun j d => sumR 0 (length Rk) (fun idx => g2 Rk idx d * basis_function_one Rops p kv j (nth (S idx) params 0)))). }
  assert (HvRe : forall j d, (j < c - 2)%nat -> (d < dim)%nat -> g2 vecR j d = sumR 0 (r - 2) (fun i => g2 Nm i j * g2 Rk i d)).
  { intros j d Hj Hd. unfold vecR, approx_R.
    rewrite (get2_map_seq' (fun j d => sumR 0 (length Rk) (fun idx => g2 Rk idx d * basis_function_one Rops p kv j (nth (S idx) params 0)))) by assumption.
    rewrite Rk_length. apply sumr_ext. intros i Hi. rewrite Nm_entry by lia. cbn [Nat.add]. ring. }
  assert (Hsq : is_square NtN = true) by (apply (rect_square (c - 2)), NtN_rect).
  assert (HLN : length NtN = (c - 2)%nat) by apply NtN_rect.
  destruct (lu_solve_correct NtN vecR dim) as (X & EX & RX & HX); rewrite ?HLN; try assumption; try lia.
  rewrite HLN in RX, HX.
  assert (Hne : forall j d, (j < c - 2)%nat -> (d < dim)%nat ->
       sumR 0 (r - 2) (fun i => g2 Nm i j * sumR 0 (c - 2) (fun k => g2 Nm i k * g2 X k d)) = sumR 0 (r - 2) (fun i => g2 Nm i j * g2 Rk i d)).
  { intros j d Hj Hd. rewrite <- HvRe by assumption. rewrite <- (HX j d Hj Hd).
    rewrite (sumr_ext 0 (r - 2) _ (fun i => sumR 0 (c - 2) (fun k => g2 Nm i j * g2 Nm i k * g2 X k d))).
    2:{ intros i _. rewrite <- sumr_scale. apply sumr_ext. intros k _. ring. }
    rewrite sumr_swap. apply sumr_ext. intros k Hk. rewrite NtN_entry by lia. rewrite sumr_scale_r. reflexivity. }
  exists X. split; [|split; [exact RX|split; [exact Hne|]]].
  - unfold approx_1d. fold r. fold Nm.
    assert (Hdim : length (hd [] pts) = dim) by (apply (rect_hd r dim); [exact Hpts|lia]). rewrite Hdim.
    assert (HNne : Nm <> []). { intros E. destruct Nm_rect as [H _]. rewrite E in H. cbn in H. lia. }
    assert (ET : matrix_transpose Rops Nm = Ok (transpose Rops Nm)).
    { unfold matrix_transpose. destruct Nm as [|r0 N'] eqn:EN; [contradiction|].
      assert (G : forallb (fun r1 => Nat.leb (length r0) (length r1)) (r0 :: N') = true).
      { apply forallb_forall. intros r1 Hin. apply Nat.leb_le. destruct Nm_rect as [_ H2]. rewrite EN in H2.
        rewrite (H2 r0 ltac:(left; reflexivity)), (H2 r1 Hin). lia. }
      rewrite G. reflexivity. }
    rewrite ET. cbn [res_bind].
    assert (EM : matrix_multiply Rops (transpose Rops Nm) Nm = Ok NtN).
    { apply (matrix_multiply_spec (transpose Rops Nm) Nm (hd [] (transpose Rops Nm))); [reflexivity| |exact HNne|].
      - intros E. destruct Nt_rect as [H _]. rewrite E in H. cbn in H. lia.
      - rewrite (rect_hd (c - 2) (r - 2) _ Nt_rect) by lia. destruct Nm_rect as [H _]. lia. }
    rewrite EM. cbn [res_bind]. fold Rk. fold vecR.
    unfold lu_solve in EX. destruct vecR as [|v0 v'] eqn:EV; [destruct HvR as [H _]; cbn in H; lia|].
    unfold lu_decomposition in *. rewrite Hsq in *. cbn [res_bind] in *. rewrite EX. cbn [res_bind].
    replace (Nat.pred r) with (r - 1)%nat by lia. reflexivity.
  - intros d X' Hd.
    apply (normal_equations_minimise (g2 Nm) (fun i => g2 Rk i d) (fun k => g2 X k d) X' (r - 2) (c - 2)).
    intros j Hj. apply Hne; assumption.
Qed.
End Approx.

(* [G] approximate_curve: the whole chain from the chords *)
Theorem approximate_curve_correct (pts : list (list R)) (p c dim : nat) (cds : list R) :
  let r := length pts in
  (3 <= r)%nat -> (3 <= c)%nat -> rect r dim pts -> (forall x, In x cds -> 0 <= x) -> 0 < sumT Rops cds ->
  (forall uk, compute_params_curve Rops cds = Ok uk -> forall i, (i < c - 2)%nat ->
     let Nm := approx_N Rops p c (compute_knot_vector2 Rops p r c uk) uk r in
     g2 (snd (doolittle Rops (mmul Rops (transpose Rops Nm) Nm))) i i <> 0) ->
  exists uk X, compute_params_curve Rops cds = Ok uk /\
    approximate_curve Rops pts p c cds = Ok ([nth 0 pts []] ++ X ++ [nth (r - 1) pts []], compute_knot_vector2 Rops p r c uk) /\
    rect (c - 2) dim X /\
    let kv := compute_knot_vector2 Rops p r c uk in
    let Nm := approx_N Rops p c kv uk r in let Rk := approx_Rk Rops p c kv uk pts in
    forall d (X' : nat -> R), (d < dim)%nat ->
      sumR 0 (r - 2) (fun i => (sumR 0 (c - 2) (fun k => g2 Nm i k * g2 X k d) - g2 Rk i d) * (sumR 0 (c - 2) (fun k => g2 Nm i k * g2 X k d) - g2 Rk i d))
      <= sumR 0 (r - 2) (fun i => (sumR 0 (c - 2) (fun k => g2 Nm i k * X' k) - g2 Rk i d) * (sumR 0 (c - 2) (fun k => g2 Nm i k * X' k) - g2 Rk i d)).
Proof.
  intros r Hr Hc Hpts Hpos Hsum Hpiv.
  destruct (params_spec cds Hpos Hsum) as (uk & Euk & _).
  destruct (approx_1d_least_squares p c dim (compute_knot_vector2 Rops p r c uk) uk pts Hr Hc Hpts (Hpiv uk Euk)) as (X & EX & RX & _ & HLS).
  exists uk, X. split; [exact Euk|]. split; [|split; [exact RX|exact HLS]].
  unfold approximate_curve. rewrite Euk. cbn [res_bind]. fold r. rewrite EX. reflexivity.
Qed.
