(* The algebraic derivative formulas of the B-spline basis functions (The NURBS Book, Eq. 2.7 and
   Eq. 2.9) are the true, limit-based derivatives of the Cox-de Boor functions inside every non-empty
   knot span: all degrees, all non-decreasing knot sequences (any multiplicities), all orders.

   Analytic derivative = the standard library's [derivable_pt_lim] (Ranalysis1).
   Assumptions reported by Print Assumptions (at the end): only the standard real-number ones
   (ClassicalDedekindReals.sig_forall_dec, FunctionalExtensionality.functional_extensionality_dep).

   Route: on the span [U k, U (S k)) the function N U p i coincides with a polynomial piece [Nk p i]
   (same Cox-de Boor recursion, base case the Kronecker delta i = k).  The polynomial piece is
   differentiable everywhere with the product-rule derivative [D]; the identity [D = F] (F = Eq. 2.7 on
   the pieces) is proved by induction on the degree with the 0/0 := 0 convention handled by case splits;
   higher orders follow term-wise (Eq. 2.9 is linear in the lower-degree derivatives); a local-extension
   lemma transfers everything from the pieces to N on the open span. *)
From Coq Require Import Reals Lra Lia Arith Bool.
From NV Require Import Proofs.Boehm.
Open Scope R_scope.

(* ------------------------------------------------------------------------------------------------ *)
(* Derivative rules in lambda form, and locality of derivable_pt_lim                                 *)
(* ------------------------------------------------------------------------------------------------ *)
Section Rules.

Lemma dl_eq (f : R -> R) x l l' : l = l' -> derivable_pt_lim f x l -> derivable_pt_lim f x l'.
Proof. intros ->. exact (fun H => H). Qed.

(* (a) locality: the derivative at x only depends on the function on an open interval around x *)
Lemma dl_local (g f : R -> R) a b x l :
  a < x < b -> (forall y, a < y < b -> g y = f y) ->
  derivable_pt_lim g x l -> derivable_pt_lim f x l.
Proof.
  intros Hx Hfg Hg eps Heps. destruct (Hg eps Heps) as [delta Hd].
  assert (Hm : 0 < Rmin delta (Rmin (x - a) (b - x))).
  { apply Rmin_pos; [apply cond_pos | apply Rmin_pos; lra]. }
  exists (mkposreal _ Hm). intros h Hh Hlt. cbn [pos] in Hlt.
  assert (H1 : Rabs h < delta) by (eapply Rlt_le_trans; [exact Hlt | apply Rmin_l]).
  assert (H2 : Rabs h < x - a).
  { eapply Rlt_le_trans; [exact Hlt|]. eapply Rle_trans; [apply Rmin_r | apply Rmin_l]. }
  assert (H3 : Rabs h < b - x).
  { eapply Rlt_le_trans; [exact Hlt|]. eapply Rle_trans; [apply Rmin_r | apply Rmin_r]. }
  apply Rabs_def2 in H2. apply Rabs_def2 in H3.
  rewrite <- (Hfg (x + h)) by lra. rewrite <- (Hfg x) by lra.
  apply Hd; assumption.
Qed.

Lemma dl_ext (g f : R -> R) x l :
  (forall y, g y = f y) -> derivable_pt_lim g x l -> derivable_pt_lim f x l.
Proof.
  intros E Hg eps Heps. destruct (Hg eps Heps) as [delta Hd]. exists delta. intros h Hh Hlt.
  rewrite <- !E. apply Hd; assumption.
Qed.

Lemma dl_const c x : derivable_pt_lim (fun _ => c) x 0.
Proof. exact (derivable_pt_lim_const c x). Qed.

Lemma dl_plus f g x l1 l2 :
  derivable_pt_lim f x l1 -> derivable_pt_lim g x l2 -> derivable_pt_lim (fun y => f y + g y) x (l1 + l2).
Proof. exact (derivable_pt_lim_plus f g x l1 l2). Qed.

Lemma dl_minus f g x l1 l2 :
  derivable_pt_lim f x l1 -> derivable_pt_lim g x l2 -> derivable_pt_lim (fun y => f y - g y) x (l1 - l2).
Proof. exact (derivable_pt_lim_minus f g x l1 l2). Qed.

Lemma dl_mult f g x l1 l2 :
  derivable_pt_lim f x l1 -> derivable_pt_lim g x l2 ->
  derivable_pt_lim (fun y => f y * g y) x (l1 * g x + f x * l2).
Proof. exact (derivable_pt_lim_mult f g x l1 l2). Qed.

Lemma dl_scal c f x l : derivable_pt_lim f x l -> derivable_pt_lim (fun y => c * f y) x (c * l).
Proof. exact (derivable_pt_lim_scal f c x l). Qed.

Lemma dl_mulc c f x l : derivable_pt_lim f x l -> derivable_pt_lim (fun y => f y * c) x (l * c).
Proof.
  intros H. apply (dl_ext (fun y => c * f y)); [intros; ring|].
  apply dl_eq with (c * l); [ring|]. apply dl_scal, H.
Qed.

Lemma dl_divc c f x l : derivable_pt_lim f x l -> derivable_pt_lim (fun y => f y / c) x (l / c).
Proof. intros H. exact (dl_mulc (/ c) f x l H). Qed.

(* affine factors; c plays the role of 1/denominator, so nothing is assumed about it (it may be /0 = 0) *)
Lemma dl_affine_up a c x : derivable_pt_lim (fun y => (y - a) * c) x c.
Proof.
  intros eps Heps. exists (mkposreal 1 Rlt_0_1). intros h Hh _.
  replace (((x + h - a) * c - (x - a) * c) / h - c) with 0 by (field; exact Hh).
  rewrite Rabs_R0. exact Heps.
Qed.

Lemma dl_affine_down b c x : derivable_pt_lim (fun y => (b - y) * c) x (- c).
Proof.
  intros eps Heps. exists (mkposreal 1 Rlt_0_1). intros h Hh _.
  replace (((b - (x + h)) * c - (b - x) * c) / h - - c) with 0 by (field; exact Hh).
  rewrite Rabs_R0. exact Heps.
Qed.

(* one-sided (right) derivative, explicit epsilon-delta *)
Definition right_derivable_pt_lim (f : R -> R) (x l : R) : Prop :=
  forall eps : R, 0 < eps ->
  exists delta : R, 0 < delta /\
    forall h : R, 0 < h -> h < delta -> Rabs ((f (x + h) - f x) / h - l) < eps.

Lemma dl_local_right (g f : R -> R) b x l :
  x < b -> (forall y, x <= y < b -> g y = f y) ->
  derivable_pt_lim g x l -> right_derivable_pt_lim f x l.
Proof.
  intros Hx Hfg Hg eps Heps. destruct (Hg eps Heps) as [delta Hd].
  exists (Rmin delta (b - x)). split.
  { apply Rmin_pos; [apply cond_pos | lra]. }
  intros h Hh Hlt.
  assert (H1 : h < delta) by (eapply Rlt_le_trans; [exact Hlt | apply Rmin_l]).
  assert (H2 : h < b - x) by (eapply Rlt_le_trans; [exact Hlt | apply Rmin_r]).
  rewrite <- (Hfg (x + h)) by lra. rewrite <- (Hfg x) by lra.
  apply Hd; [lra|]. rewrite Rabs_pos_eq; lra.
Qed.

(* a two-sided derivative is in particular a right derivative *)
Lemma dl_right_of_two_sided f x l : derivable_pt_lim f x l -> right_derivable_pt_lim f x l.
Proof.
  intros H. apply (dl_local_right f f (x + 1)); [lra | reflexivity | exact H].
Qed.

End Rules.

(* ------------------------------------------------------------------------------------------------ *)
(* Pure algebra behind Eq. 2.7: the induction step, with every 1/denominator possibly 1/0 = 0        *)
(* u0 = U i, u1 = U (i+1), u2 = U (i+2), t1 = U (i+q+1), t2 = U (i+q+2), t3 = U (i+q+3);             *)
(* a, b, c the three degree-q pieces, s = q+1.                                                       *)
(* ------------------------------------------------------------------------------------------------ *)
Lemma alg_step u0 u1 u2 t1 t2 t3 x a b c s :
  (t2 - u0 = 0 -> t2 - u1 = 0) -> (t3 - u1 = 0 -> t2 - u1 = 0) ->
  (/ (t2 - u0) * ((x - u0) / (t1 - u0) * a + (t2 - x) / (t2 - u1) * b)
   + (x - u0) / (t2 - u0) * (s * (a / (t1 - u0) - b / (t2 - u1))))
  + (- / (t3 - u1) * ((x - u1) / (t2 - u1) * b + (t3 - x) / (t3 - u2) * c)
     + (t3 - x) / (t3 - u1) * (s * (b / (t2 - u1) - c / (t3 - u2))))
  = (s + 1) * (((x - u0) / (t1 - u0) * a + (t2 - x) / (t2 - u1) * b) / (t2 - u0)
               - ((x - u1) / (t2 - u1) * b + (t3 - x) / (t3 - u2) * c) / (t3 - u1)).
Proof.
  intros H1 H2. unfold Rdiv.
  destruct (Req_dec (t2 - u0) 0) as [Z1|Z1]; destruct (Req_dec (t3 - u1) 0) as [Z2|Z2].
  - rewrite Z1, Z2, Rinv_0. ring.
  - rewrite (H1 Z1), Z1, Rinv_0. ring.
  - rewrite (H2 Z2), Z2, Rinv_0. ring.
  - set (i1 := / (t1 - u0)). set (i2 := / (t2 - u1)). set (i3 := / (t3 - u2)).
    field. split; assumption.
Qed.

(* ------------------------------------------------------------------------------------------------ *)
Section DerivAnalytic.
Variable U : nat -> R.
Hypothesis Usorted : forall i, U i <= U (S i).
Variable k : nat.   (* the knot span [U k, U (S k)) under consideration *)

Let Um i j : (i <= j)%nat -> U i <= U j.
Proof. apply U_mono; exact Usorted. Qed.

(* 1. the algebraic derivative spec: k'-th derivative by Eq. 2.9 (Eq. 2.7 for k' = 1); x/0 = 0 *)
Fixpoint dN (j p i : nat) (u : R) : R :=
  match j with
  | O => N U p i u
  | S j' =>
    match p with
    | O => 0
    | S q => INR (S q) * (dN j' q i u / (U (i + S q) - U i)
                         - dN j' q (S i) u / (U (i + S q + 1) - U (S i)))
    end
  end.

Lemma dN_0 p i u : dN 0 p i u = N U p i u.
Proof. reflexivity. Qed.
Lemma dN_S0 j i u : dN (S j) 0 i u = 0.
Proof. reflexivity. Qed.
Lemma dN_SS j q i u :
  dN (S j) (S q) i u
  = INR (S q) * (dN j q i u / (U (i + S q) - U i) - dN j q (S i) u / (U (i + S q + 1) - U (S i))).
Proof. reflexivity. Qed.

(* (b) the polynomial piece of N on span k *)
Fixpoint Nk (p i : nat) (x : R) : R :=
  match p with
  | O => if (i =? k)%nat then 1 else 0
  | S q => (x - U i) / (U (i + S q) - U i) * Nk q i x
         + (U (i + S q + 1) - x) / (U (i + S q + 1) - U (S i)) * Nk q (S i) x
  end.

Lemma Nk_eq_N p : forall i x, U k <= x < U (S k) -> N U p i x = Nk p i x.
Proof.
  induction p as [|q IH]; intros i x Hx; cbn [N Nk].
  - unfold ind. destruct (Nat.eqb_spec i k) as [E|E].
    + subst i. destruct (Rle_dec (U k) x); destruct (Rlt_dec x (U (S k))); lra.
    + destruct (lt_dec i k) as [L|L].
      * pose proof (Um (S i) k ltac:(lia)).
        destruct (Rle_dec (U i) x); destruct (Rlt_dec x (U (S i))); lra.
      * pose proof (Um (S k) i ltac:(lia)).
        destruct (Rle_dec (U i) x); destruct (Rlt_dec x (U (S i))); lra.
  - rewrite !IH by assumption. reflexivity.
Qed.

Lemma Nk_support p : forall i x, (k < i \/ i + p < k)%nat -> Nk p i x = 0.
Proof.
  induction p as [|q IH]; intros i x H; cbn [Nk].
  - destruct (Nat.eqb_spec i k); [lia|reflexivity].
  - rewrite (IH i x), (IH (S i) x) by lia. ring.
Qed.

(* a vanishing denominator kills the piece it divides (not needed below: the algebra already goes
   through with 1/0 = 0; recorded because it is the reason the 0/0 := 0 convention is harmless) *)
Lemma Nk_zero_den q i x : U k < U (S k) -> U (i + S q) - U i = 0 -> Nk q i x = 0.
Proof.
  intros Hk Hz. apply Nk_support.
  destruct (le_lt_dec i k) as [L1|L1]; [|left; lia].
  destruct (le_lt_dec k (i + q)) as [L2|L2]; [|right; lia].
  exfalso. pose proof (Um i k ltac:(lia)). pose proof (Um (S k) (i + S q) ltac:(lia)). lra.
Qed.

(* (c) formal derivative of the piece by the product rule *)
Fixpoint D (p i : nat) (x : R) : R :=
  match p with
  | O => 0
  | S q => (/ (U (i + S q) - U i) * Nk q i x + (x - U i) / (U (i + S q) - U i) * D q i x)
         + (- / (U (i + S q + 1) - U (S i)) * Nk q (S i) x
            + (U (i + S q + 1) - x) / (U (i + S q + 1) - U (S i)) * D q (S i) x)
  end.

Lemma D_S q i x :
  D (S q) i x
  = (/ (U (i + S q) - U i) * Nk q i x + (x - U i) / (U (i + S q) - U i) * D q i x)
    + (- / (U (i + S q + 1) - U (S i)) * Nk q (S i) x
       + (U (i + S q + 1) - x) / (U (i + S q + 1) - U (S i)) * D q (S i) x).
Proof. reflexivity. Qed.

Lemma Nk_deriv p : forall i x, derivable_pt_lim (Nk p i) x (D p i x).
Proof.
  induction p as [|q IH]; intros i x.
  - apply (dl_ext (fun _ => if (i =? k)%nat then 1 else 0)); [reflexivity|]. apply dl_const.
  - apply (dl_ext (fun y => (y - U i) * / (U (i + S q) - U i) * Nk q i y
                          + (U (i + S q + 1) - y) * / (U (i + S q + 1) - U (S i)) * Nk q (S i) y));
      [reflexivity|].
    cbn [D]. apply dl_plus.
    + apply (dl_mult (fun y => (y - U i) * / (U (i + S q) - U i)) (Nk q i)).
      * apply dl_affine_up.
      * apply IH.
    + apply (dl_mult (fun y => (U (i + S q + 1) - y) * / (U (i + S q + 1) - U (S i))) (Nk q (S i))).
      * apply dl_affine_down.
      * apply IH.
Qed.

(* (d) Eq. 2.7 on the pieces, and the key identity D = F *)
Definition F (p i : nat) (x : R) : R :=
  match p with
  | O => 0
  | S q => INR (S q) * (Nk q i x / (U (i + S q) - U i) - Nk q (S i) x / (U (i + S q + 1) - U (S i)))
  end.

Lemma D_eq_F p : forall i x, D p i x = F p i x.
Proof.
  induction p as [|q IH]; intros i x; [reflexivity|].
  destruct q as [|q].
  - cbn [D F Nk INR]. unfold Rdiv. ring.
  - rewrite D_S, !IH. unfold F at 3. rewrite (S_INR (S q)). unfold F. cbn [Nk].
    replace (i + S (S q))%nat with (i + S q + 1)%nat by lia.
    replace (S i + S q)%nat with (i + S q + 1)%nat by lia.
    apply alg_step.
    + pose proof (Um i (S i) ltac:(lia)). pose proof (Um (S i) (i + S q + 1) ltac:(lia)). lra.
    + pose proof (Um (S i) (i + S q + 1) ltac:(lia)).
      pose proof (Um (i + S q + 1) (i + S q + 1 + 1) ltac:(lia)). lra.
Qed.

(* (e) all orders on the pieces *)
Fixpoint dNk (j p i : nat) (x : R) : R :=
  match j with
  | O => Nk p i x
  | S j' =>
    match p with
    | O => 0
    | S q => INR (S q) * (dNk j' q i x / (U (i + S q) - U i)
                         - dNk j' q (S i) x / (U (i + S q + 1) - U (S i)))
    end
  end.

Lemma dNk_SS j q i x :
  dNk (S j) (S q) i x
  = INR (S q) * (dNk j q i x / (U (i + S q) - U i) - dNk j q (S i) x / (U (i + S q + 1) - U (S i))).
Proof. reflexivity. Qed.

Lemma dNk_1 p i x : dNk 1 p i x = F p i x.
Proof. destruct p; reflexivity. Qed.

Lemma dNk_deriv j : forall p i x, derivable_pt_lim (dNk j p i) x (dNk (S j) p i x).
Proof.
  induction j as [|j IH]; intros p i x.
  - apply (dl_ext (Nk p i)); [reflexivity|].
    apply dl_eq with (D p i x); [rewrite D_eq_F; symmetry; apply dNk_1|]. apply Nk_deriv.
  - destruct p as [|q].
    + apply (dl_ext (fun _ => 0)); [reflexivity|]. apply dl_const.
    + apply (dl_ext (fun y => INR (S q) * (dNk j q i y / (U (i + S q) - U i)
                                          - dNk j q (S i) y / (U (i + S q + 1) - U (S i)))));
        [reflexivity|].
      rewrite dNk_SS. apply dl_scal. apply dl_minus; apply dl_divc; apply IH.
Qed.

Lemma dN_eq_dNk j : forall p i x, U k <= x < U (S k) -> dN j p i x = dNk j p i x.
Proof.
  induction j as [|j IH]; intros p i x Hx.
  - apply Nk_eq_N, Hx.
  - destruct p as [|q]; [reflexivity|]. rewrite dN_SS, dNk_SS, !IH by assumption. reflexivity.
Qed.

(* ------------------------------------------------------------------------------------------------ *)
(* Main theorems                                                                                     *)
(* ------------------------------------------------------------------------------------------------ *)

(* 3. Eq. 2.9: inside the span each algebraic derivative is the analytic derivative of the previous *)
Theorem dN_is_kth_derivative j p i u :
  U k < u < U (S k) -> derivable_pt_lim (fun x => dN j p i x) u (dN (S j) p i u).
Proof.
  intros Hu.
  apply (dl_local (dNk j p i) _ (U k) (U (S k))); [exact Hu| |].
  - intros y Hy. symmetry. apply dN_eq_dNk. lra.
  - rewrite dN_eq_dNk by lra. apply dNk_deriv.
Qed.

(* 2. Eq. 2.7: the first algebraic derivative is the analytic derivative of N *)
Theorem dN1_is_derivative p i u :
  U k < u < U (S k) -> derivable_pt_lim (fun x => N U p i x) u (dN 1 p i u).
Proof. exact (dN_is_kth_derivative 0 p i u). Qed.

(* Eq. 2.7 spelled out *)
Corollary Eq_2_7 q i u :
  U k < u < U (S k) ->
  derivable_pt_lim (fun x => N U (S q) i x) u
    (INR (S q) * (N U q i u / (U (i + S q) - U i) - N U q (S i) u / (U (i + S q + 1) - U (S i)))).
Proof. exact (dN1_is_derivative (S q) i u). Qed.

(* iterated form: g is a j-th derivative of f on the open interval (a,b) *)
Fixpoint kth_deriv_on (a b : R) (j : nat) (f g : R -> R) : Prop :=
  match j with
  | O => forall x, a < x < b -> g x = f x
  | S j' => exists g', kth_deriv_on a b j' f g' /\ forall x, a < x < b -> derivable_pt_lim g' x (g x)
  end.

Theorem dN_iterated j p i :
  kth_deriv_on (U k) (U (S k)) j (fun x => N U p i x) (fun x => dN j p i x).
Proof.
  induction j as [|j IH]; cbn [kth_deriv_on].
  - intros x _. reflexivity.
  - exists (fun x => dN j p i x). split; [exact IH|]. intros x Hx. apply dN_is_kth_derivative, Hx.
Qed.

(* 4. curves: term-wise differentiation of sum_i N_{i,p}^{(j)}(x) P_i *)
Lemma sumf_deriv (f f' : nat -> R -> R) (P : nat -> R) x n :
  (forall i, derivable_pt_lim (f i) x (f' i x)) ->
  derivable_pt_lim (fun y => sumf (fun i => f i y * P i) n) x (sumf (fun i => f' i x * P i) n).
Proof.
  intros H. induction n as [|n IHn]; cbn [sumf].
  - apply dl_const.
  - apply dl_plus; [exact IHn|]. apply dl_mulc, H.
Qed.

Theorem curve_dN_is_kth_derivative j p (P : nat -> R) n u :
  U k < u < U (S k) ->
  derivable_pt_lim (fun x => sumf (fun i => dN j p i x * P i) n) u
                   (sumf (fun i => dN (S j) p i u * P i) n).
Proof.
  intros Hu. apply (sumf_deriv (fun i x => dN j p i x) (fun i x => dN (S j) p i x)).
  intros i. apply dN_is_kth_derivative, Hu.
Qed.

(* 5. right derivatives on the half-open span, in particular at the knot u = U k *)
Theorem dN_right_derivative j p i u :
  U k <= u < U (S k) -> right_derivable_pt_lim (fun x => dN j p i x) u (dN (S j) p i u).
Proof.
  intros Hu.
  apply (dl_local_right (dNk j p i) _ (U (S k))); [lra| |].
  - intros y Hy. symmetry. apply dN_eq_dNk. lra.
  - rewrite dN_eq_dNk by lra. apply dNk_deriv.
Qed.

Corollary dN_right_derivative_at_knot j p i :
  U k < U (S k) -> right_derivable_pt_lim (fun x => dN j p i x) (U k) (dN (S j) p i (U k)).
Proof. intros Hk. apply dN_right_derivative. lra. Qed.

Theorem curve_dN_right_derivative j p (P : nat -> R) n u :
  U k <= u < U (S k) ->
  right_derivable_pt_lim (fun x => sumf (fun i => dN j p i x * P i) n) u
                         (sumf (fun i => dN (S j) p i u * P i) n).
Proof.
  intros Hu.
  apply (dl_local_right (fun x => sumf (fun i => dNk j p i x * P i) n) _ (U (S k))); [lra| |].
  - intros y Hy. apply sumf_ext. intros i _. rewrite dN_eq_dNk by lra. reflexivity.
  - apply dl_eq with (sumf (fun i => dNk (S j) p i u * P i) n).
    + apply sumf_ext. intros i _. rewrite dN_eq_dNk by lra. reflexivity.
    + apply (sumf_deriv (dNk j p) (dNk (S j) p)). intros i. apply dNk_deriv.
Qed.

End DerivAnalytic.

(* sanity (non-vacuity): uniform knots U i = i, degree 1, span k = 1: N_{0,1} falls with slope -1,
   N_{1,1} rises with slope +1 on (1,2), and the hypotheses of the theorems are satisfiable *)
Example dN_sanity u : 1 < u < 2 ->
  dN INR 1 1 0 u = -1 /\ dN INR 1 1 1 u = 1 /\ dN INR 2 1 0 u = 0
  /\ derivable_pt_lim (fun x => N INR 1 0 x) u (-1).
Proof.
  intros Hu.
  assert (E : dN INR 1 1 0 u = -1).
  { cbn [dN N Nat.add INR]. unfold ind.
    destruct (Rle_dec 0 u); destruct (Rlt_dec u 1); destruct (Rle_dec 1 u); destruct (Rlt_dec u (1 + 1));
      try lra; field. }
  repeat split.
  - exact E.
  - cbn [dN N Nat.add INR]. unfold ind.
    destruct (Rle_dec 1 u); destruct (Rlt_dec u (1 + 1)); destruct (Rle_dec (1 + 1) u);
      destruct (Rlt_dec u (1 + 1 + 1)); try lra; field.
  - cbn [dN Nat.add INR]. unfold Rdiv. ring.
  - rewrite <- E. apply (dN1_is_derivative INR) with (k := 1%nat).
    + intros i. rewrite S_INR. lra.
    + cbn [INR]. lra.
Qed.

Print Assumptions dN1_is_derivative.
Print Assumptions dN_is_kth_derivative.
Print Assumptions dN_iterated.
Print Assumptions curve_dN_is_kth_derivative.
Print Assumptions dN_right_derivative.
Print Assumptions curve_dN_right_derivative.
