(* Window locality of A2.3: basis_function_ders depends on the knot vector only through the
   differences left j = u - U[span+1-j], right j = U[span+j] - u for 1 <= j <= p. *)
From Coq Require Import List Reals Lra Lia Arith Bool.
From NV Require Import Scalar.Ops Model.Common Model.Basis Proofs.EvalR.
Import ListNotations.
Open Scope R_scope.

Section Local.
Variables (U U' : list R) (span span' : nat) (u : R) (p : nat).
Hypothesis Hl : forall j, (1 <= j <= p)%nat -> Basis.left Rops U span u j = Basis.left Rops U' span' u j.
Hypothesis Hr : forall j, (1 <= j <= p)%nat -> Basis.right Rops U span u j = Basis.right Rops U' span' u j.

Lemma ndu_table_local : ndu_table Rops p U span u = ndu_table Rops p U' span' u.
Proof.
  unfold ndu_table. apply fold_left_ext_in. intros ndu j Hj. apply in_seq in Hj.
  assert (E : forall st,
     fold_left (fun (st : list (list R) * R) r => let '(nd, saved) := st in
          let d := oadd Rops (Basis.right Rops U span u (S r)) (Basis.left Rops U span u (j - r)) in
          let nd1 := set2 nd j r d in
          let temp := odiv Rops (get2 Rops nd1 r (Nat.pred j)) d in
          let nd2 := set2 nd1 r j (oadd Rops saved (omul Rops (Basis.right Rops U span u (S r)) temp)) in
          (nd2, omul Rops (Basis.left Rops U span u (j - r)) temp)) (seq 0 j) st =
     fold_left (fun (st : list (list R) * R) r => let '(nd, saved) := st in
          let d := oadd Rops (Basis.right Rops U' span' u (S r)) (Basis.left Rops U' span' u (j - r)) in
          let nd1 := set2 nd j r d in
          let temp := odiv Rops (get2 Rops nd1 r (Nat.pred j)) d in
          let nd2 := set2 nd1 r j (oadd Rops saved (omul Rops (Basis.right Rops U' span' u (S r)) temp)) in
          (nd2, omul Rops (Basis.left Rops U' span' u (j - r)) temp)) (seq 0 j) st).
  { intros st. apply fold_left_ext_in. intros [nd saved] r Hr'. apply in_seq in Hr'.
    rewrite (Hr (S r)) by lia. rewrite (Hl (j - r)%nat) by lia. reflexivity. }
  rewrite E. reflexivity.
Qed.

Theorem basis_function_ders_local order :
  basis_function_ders Rops p U span u order = basis_function_ders Rops p U' span' u order.
Proof. unfold basis_function_ders. rewrite ndu_table_local. reflexivity. Qed.
End Local.

(* the window of 2p+2 knots around the span, re-based at span' = p *)
Definition window (U : list R) (span p : nat) : list R := map (fun i => kn Rops U (span - p + i)) (seq 0 (2 * p + 2)).

Lemma window_nth U span p i : (i < 2 * p + 2)%nat -> kn Rops (window U span p) i = kn Rops U (span - p + i).
Proof.
  intros Hi. unfold window, kn at 1.
  match goal with |- context [map ?g _] => set (f := g) end.
  rewrite (nth_indep _ (o0 Rops) (f 0%nat)) by (rewrite map_length, seq_length; exact Hi).
  rewrite map_nth, seq_nth by exact Hi. reflexivity.
Qed.

Theorem basis_function_ders_window U span u p order : (p <= span)%nat ->
  basis_function_ders Rops p U span u order = basis_function_ders Rops p (window U span p) p u order.
Proof.
  intros Hp. apply basis_function_ders_local; intros j Hj; unfold Basis.left, Basis.right; rsimp.
  - rewrite window_nth by lia. do 2 f_equal. lia.
  - rewrite window_nth by lia. do 2 f_equal. lia.
Qed.
