(* Splitting at the first interior knot (the step of decompose_curve) with exact knot comparison (tol = 0):
   multiplicity and span of the knot, the refined knot vector, and the left piece is a Bezier piece
   (knot vector p+1 zeros, p+1 ones; p+1 control points). *)
From Coq Require Import List Reals Lra Lia Arith Bool ZArith.
From NV Require Import Scalar.Ops Model.Common Model.Basis Model.Knots Model.KnotIns Model.InsertKnot Model.Split
  Proofs.BasisR Proofs.KnotsR Proofs.KnotInsR Proofs.SplitR.
Import ListNotations.
Open Scope R_scope.

(* ---------------------------------------------------------------- multiplicity with tol = 0 is the exact count *)
Lemma mult_pred0 (x k : R) : oleb Rops (oabs Rops (osub Rops x k)) 0 = true <-> k = x.
Proof.
  unfold oabs, oneg. rsimp. unfold Rleb.
  destruct (Rle_dec 0 (x - k)) as [H|H].
  - destruct (Rle_dec (x - k) 0); split; intros E; try discriminate; try reflexivity; lra.
  - destruct (Rle_dec (0 - (x - k)) 0); split; intros E; try discriminate; try reflexivity; lra.
Qed.

Lemma filter_none {A} (f : A -> bool) d : forall l, (forall i, (i < length l)%nat -> f (nth i l d) = false) -> filter f l = [].
Proof.
  induction l as [|a l IH]; intros H; [reflexivity|]. cbn [filter].
  pose proof (H 0%nat ltac:(cbn; lia)) as H0. cbn [nth] in H0. rewrite H0. apply IH. intros i Hi. apply (H (S i)). cbn. lia.
Qed.

Lemma filter_count_range {A} (f : A -> bool) d : forall l lo e,
  (forall i, (i < length l)%nat -> (f (nth i l d) = true <-> (lo <= i <= e)%nat)) -> (e < length l)%nat -> (lo <= e)%nat ->
  length (filter f l) = (S e - lo)%nat.
Proof.
  induction l as [|a l IH]; intros lo e H He Hle; [cbn in He; lia|].
  cbn [filter]. destruct lo as [|lo].
  - assert (Ha : f a = true) by (apply (H 0%nat); cbn; lia). rewrite Ha. cbn [length].
    destruct e as [|e].
    + rewrite (filter_none f d l); [reflexivity|].
      intros i Hi. specialize (H (S i)). cbn in H. destruct (f (nth i l d)); [|reflexivity].
      assert (0 <= S i <= 0)%nat by (apply H; [lia|reflexivity]). lia.
    + rewrite (IH 0%nat e); [lia| |cbn in He; lia|lia].
      intros i Hi. specialize (H (S i)). cbn in H. rewrite H by lia. lia.
  - assert (Ha : f a = false).
    { destruct (f a) eqn:E; [|reflexivity]. assert (S lo <= 0 <= e)%nat by (apply (H 0%nat); [cbn; lia|exact E]). lia. }
    rewrite Ha. destruct e as [|e]; [lia|].
    rewrite (IH lo e); [lia| |cbn in He; lia|lia].
    intros i Hi. specialize (H (S i)). cbn in H. rewrite H by lia. lia.
Qed.

(* a run of copies of x at indices lo..e of a sorted list, strictly smaller knots before, strictly larger after *)
Section Run.
Variables (U : list R) (x : R) (lo e : nat).
Hypothesis Usorted : sortedR U.
Hypothesis Hlo : (1 <= lo <= e)%nat.
Hypothesis He : (S e < length U)%nat.
Hypothesis Hrun : forall i, (lo <= i <= e)%nat -> knR U i = x.
Hypothesis Hbefore : knR U (lo - 1) < x.
Hypothesis Hafter : x < knR U (S e).

Lemma run_iff i : (i < length U)%nat -> (knR U i = x <-> (lo <= i <= e)%nat).
Proof.
  intros Hi. split; [|apply Hrun].
  intros E. destruct (Nat.lt_ge_cases i lo) as [H1|H1].
  - assert (knR U i <= knR U (lo - 1)) by (apply Usorted; lia). lra.
  - destruct (Nat.le_gt_cases i e) as [H2|H2]; [lia|].
    assert (knR U (S e) <= knR U i) by (apply Usorted; lia). lra.
Qed.

Lemma mult0_run : find_multiplicity Rops 0 x U = (S e - lo)%nat.
Proof.
  unfold find_multiplicity. apply (filter_count_range _ 0); try lia.
  intros i Hi. change (nth i U 0) with (knR U i). rewrite <- run_iff by exact Hi. apply mult_pred0.
Qed.

Lemma span_run p n : (p < n)%nat -> (n < length U)%nat -> (p <= e < n)%nat -> knR U p <= x ->
  find_span_linear Rops p U n x = e.
Proof.
  intros Hpn Hn Hpe Hp.
  pose proof (find_span_linear_spec U x p n Hpn Hn Hp) as H. cbv zeta in H.
  set (k := find_span_linear Rops p U n x) in *. destruct H as (H1 & H2 & H3).
  assert (Hlt : x < knR U (S k)).
  { destruct H3 as [H3|[H3 H4]]; [exact H3|]. exfalso.
    assert (knR U (S e) <= knR U n) by (apply Usorted; lia). lra. }
  destruct (Nat.lt_trichotomy k e) as [Hk|[Hk|Hk]]; [|exact Hk|].
  - exfalso. assert (knR U (S k) <= knR U e) by (apply Usorted; lia). rewrite (Hrun e) in H by lia. lra.
  - exfalso. assert (knR U (S e) <= knR U k) by (apply Usorted; lia). lra.
Qed.
End Run.

(* ---------------------------------------------------------------- sorted lists and knotvector.check *)
Lemma nondecr_of_sorted : forall (l : list R) (f : R),
  (forall i j, (i <= j < length (f :: l))%nat -> nth i (f :: l) 0 <= nth j (f :: l) 0) -> nondecr f l.
Proof.
  induction l as [|b l IH]; intros f H; cbn [nondecr]; [exact I|]. split.
  - apply (H 0%nat 1%nat). cbn. lia.
  - apply IH. intros i j Hij. apply (H (S i) (S j)). cbn in *. lia.
Qed.

Lemma set_kv_sorted p (kv : list R) n :
  length kv = S (p + n) -> (forall i j, (i <= j < length kv)%nat -> nth i kv 0 <= nth j kv 0) ->
  set_kv Rops p kv n = normalize Rops kv.
Proof.
  intros HL HS. destruct kv as [|f l]; [cbn in HL; lia|].
  unfold set_kv. assert (E : check Rops p (f :: l) n = Ok true).
  { apply check_spec. split; [exact HL|]. apply nondecr_of_sorted. exact HS. }
  rewrite E. reflexivity.
Qed.

Section FirstSplit.
Variables (c : @curve R) (e : nat).
Let p := c_p c.
Let U := c_U c.
Let P := c_P c.
Let n := length P.
Let knot := knR U (S p).
Let a0 := knR U 0.
Hypothesis Hp : (1 <= p)%nat.
Hypothesis Hlen : length U = S (p + n).
Hypothesis Usorted : sortedR U.
Hypothesis Hclamp : forall i, (i <= p)%nat -> knR U i = a0.
Hypothesis He : (S p <= e <= 2 * p)%nat.
Hypothesis Hen : (e < n)%nat.
Hypothesis Hrun : forall i, (S p <= i <= e)%nat -> knR U i = knot.
Hypothesis Hstart : a0 < knot.
Hypothesis Hafter : knot < knR U (S e).

Let s := (e - p)%nat.
Let r := (2 * p - e)%nat.
Let U' := knot_insertion_kv U knot e r.

Lemma fs_mult : find_multiplicity Rops 0 knot U = s.
Proof.
  assert (Hb : knR U (S p - 1) < knot) by (replace (S p - 1)%nat with p by lia; rewrite Hclamp by lia; exact Hstart).
  unfold s. rewrite (mult0_run U knot (S p) e Usorted ltac:(lia) ltac:(rewrite Hlen; lia) Hrun Hb Hafter). lia.
Qed.

Lemma fs_span : find_span_linear Rops p U n knot = e.
Proof.
  apply (span_run U knot (S p) e Usorted ltac:(lia) ltac:(rewrite Hlen; lia) Hrun Hafter p n); try lia.
  rewrite Hclamp by lia. lra.
Qed.

Lemma fs_not_end : at_domain_end Rops p U knot = false.
Proof.
  destruct (at_domain_end Rops p U knot) eqn:E; [|reflexivity]. exfalso.
  apply at_domain_end_spec in E. destruct E as [E|E].
  - rewrite Hclamp in E by lia. lra.
  - rewrite Hlen in E. replace (S (p + n) - S p)%nat with n in E by lia.
    assert (knR U (S e) <= knR U n) by (apply Usorted; lia). lra.
Qed.

(* the curve refined by insert_knot(check_num=False) *)
Let tc := fst (insert_knot_curve Rops 0 false c [Some knot] [Z.of_nat r]).

Lemma fs_tc : c_p tc = p /\ c_U tc = U' /\ length (c_P tc) = (n + r)%nat.
Proof.
  unfold tc, insert_knot_curve. cbn [andb]. unfold parat, numat. cbn [nth]. rewrite Nat2Z.id.
  unfold dir_prep. destruct (Nat.eqb_spec r 0) as [E|E].
  - cbn [fst]. fold p U P. repeat split; [|fold n; lia].
    unfold U'. rewrite E. unfold knot_insertion_kv. cbn [repeat app]. symmetry. apply firstn_skipn.
  - cbn [andb]. fold p U P n. rewrite fs_mult, fs_span. cbn [fst c_p c_U c_P]. repeat split.
    destruct (knot_insertion_frame Rops p U P knot r s e) as [HL _]; unfold s, r, n in *; try lia.
Qed.

Lemma U'_len : length U' = (S (p + n) + r)%nat.
Proof. unfold U'. rewrite kv_length, Hlen. reflexivity. Qed.

Lemma U'_nth i : knR U' i = if Nat.leb i e then knR U i else if Nat.leb i (2 * p) then knot else knR U (i - r).
Proof.
  unfold U', kn. rewrite kv_nth by (rewrite Hlen; lia).
  replace (e + r)%nat with (2 * p)%nat by (unfold r; lia). reflexivity.
Qed.

Lemma U'_sorted : sortedR U'.
Proof.
  intros i j Hij. rewrite U'_len in Hij. rewrite !U'_nth.
  assert (Hek : knR U e = knot) by (apply Hrun; lia).
  destruct (Nat.leb_spec i e) as [Hi|Hi].
  - destruct (Nat.leb_spec j e) as [Hj|Hj]; [apply Usorted; lia|].
    destruct (Nat.leb_spec j (2 * p)) as [Hj2|Hj2].
    + rewrite <- Hek. apply Usorted. lia.
    + apply Usorted. unfold r. lia.
  - destruct (Nat.leb_spec j e) as [Hj|Hj]; [lia|].
    destruct (Nat.leb_spec i (2 * p)) as [Hi2|Hi2].
    + destruct (Nat.leb_spec j (2 * p)) as [Hj2|Hj2]; [lra|].
      assert (knR U (S e) <= knR U (j - r)) by (apply Usorted; unfold r; lia). lra.
    + destruct (Nat.leb_spec j (2 * p)) as [Hj2|Hj2]; [lia|]. apply Usorted. unfold r. lia.
Qed.

Lemma fs_span' : find_span_linear Rops p U' (n + r) knot = (2 * p)%nat.
Proof.
  apply (span_run U' knot (S p) (2 * p)).
  - exact U'_sorted.
  - lia.
  - rewrite U'_len. unfold r. lia.
  - intros i Hi. rewrite U'_nth. destruct (Nat.leb_spec i e); [apply Hrun; lia|].
    destruct (Nat.leb_spec i (2 * p)); [reflexivity|lia].
  - rewrite U'_nth. destruct (Nat.leb_spec (S (2 * p)) e); [lia|].
    destruct (Nat.leb_spec (S (2 * p)) (2 * p)); [lia|].
    replace (S (2 * p) - r)%nat with (S e) by (unfold r; lia). exact Hafter.
  - unfold r. lia.
  - rewrite U'_len. lia.
  - unfold r. lia.
  - rewrite U'_nth. destruct (Nat.leb_spec p e); [|lia]. rewrite Hclamp by lia. lra.
Qed.

Let kv1 := firstn (S (2 * p)) U' ++ [knot].
Let kv2 := repeat knot (S p) ++ skipn (S (2 * p)) U'.

Lemma kv1_eq : kv1 = repeat a0 (S p) ++ repeat knot (S p).
Proof.
  assert (HL1 : length (firstn (S (2 * p)) U') = S (2 * p)) by (rewrite firstn_length, U'_len; unfold r; lia).
  apply nth_ext with (d := 0) (d' := 0).
  - unfold kv1. rewrite !app_length, HL1, !repeat_length. cbn [length]. lia.
  - intros i Hi. unfold kv1 in *. rewrite app_length, HL1 in Hi. cbn [length] in Hi.
    destruct (Nat.lt_ge_cases i (S (2 * p))) as [H1|H1].
    + rewrite app_nth1 by (rewrite HL1; exact H1). rewrite nth_firstn_lt by exact H1.
      change (nth i U' 0) with (knR U' i). rewrite U'_nth.
      destruct (Nat.le_gt_cases i p) as [H2|H2].
      * rewrite app_nth1 by (rewrite repeat_length; lia). rewrite nth_repeat_lt by lia.
        destruct (Nat.leb_spec i e); [|lia]. apply Hclamp. exact H2.
      * rewrite app_nth2 by (rewrite repeat_length; lia). rewrite repeat_length. rewrite nth_repeat_lt by lia.
        destruct (Nat.leb_spec i e); [apply Hrun; lia|]. destruct (Nat.leb_spec i (2 * p)); [reflexivity|lia].
    + assert (i = S (2 * p)) by lia. subst i.
      rewrite app_nth2 by (rewrite HL1; lia). rewrite HL1, Nat.sub_diag. cbn [nth].
      rewrite app_nth2 by (rewrite repeat_length; lia). rewrite repeat_length. rewrite nth_repeat_lt by lia. reflexivity.
Qed.

Lemma kv1_normalized : normalize Rops kv1 = Ok (repeat 0 (S p) ++ repeat 1 (S p)).
Proof.
  rewrite kv1_eq. cbn [repeat app]. rewrite normalize_affine. f_equal.
  assert (Hlast : last (a0 :: repeat a0 p ++ knot :: repeat knot p) a0 = knot).
  { change (a0 :: repeat a0 p ++ knot :: repeat knot p) with ((a0 :: repeat a0 p) ++ repeat knot (S p)).
    replace (repeat knot (S p)) with (repeat knot p ++ [knot]).
    - rewrite app_assoc. apply last_last.
    - symmetry. cbn [repeat]. apply repeat_cons. }
  rewrite Hlast.
  change (a0 :: repeat a0 p ++ knot :: repeat knot p) with (repeat a0 (S p) ++ repeat knot (S p)).
  rewrite map_app, !map_repeat_gen. rsimp.
  replace ((a0 - a0) / (knot - a0)) with 0 by (field; lra).
  replace ((knot - a0) / (knot - a0)) with 1 by (field; lra). reflexivity.
Qed.

Lemma kv2_len : length kv2 = S (p + (n + r - p)).
Proof. unfold kv2. rewrite app_length, repeat_length, skipn_length, U'_len. unfold r. lia. Qed.

Lemma kv2_nth i : nth i kv2 0 = if Nat.leb i p then knot else knR U' (i + p).
Proof.
  unfold kv2. destruct (Nat.leb_spec i p).
  - rewrite app_nth1 by (rewrite repeat_length; lia). apply nth_repeat_lt. lia.
  - rewrite app_nth2 by (rewrite repeat_length; lia). rewrite repeat_length, nth_skipn_add. unfold kn. f_equal. lia.
Qed.

Lemma kv2_sorted : forall i j, (i <= j < length kv2)%nat -> nth i kv2 0 <= nth j kv2 0.
Proof.
  intros i j Hij. rewrite kv2_len in Hij. rewrite !kv2_nth.
  destruct (Nat.leb_spec i p) as [Hi|Hi]; destruct (Nat.leb_spec j p) as [Hj|Hj]; try lra; try lia.
  - rewrite U'_nth. destruct (Nat.leb_spec (j + p) e); [lia|]. destruct (Nat.leb_spec (j + p) (2 * p)); [lia|].
    assert (knR U (S e) <= knR U (j + p - r)) by (apply Usorted; unfold r; lia). lra.
  - apply U'_sorted. rewrite U'_len. unfold r. lia.
Qed.

(* the decomposition step: splitting at the first interior knot succeeds, the left piece is a Bezier piece *)
Theorem split_first_knot_bezier :
  exists K2, normalize Rops kv2 = Ok K2 /\
  split_curve Rops 0 c knot =
    Ok (mkC p (repeat 0 (S p) ++ repeat 1 (S p)) (firstn (S p) (c_P tc)), mkC p K2 (skipn p (c_P tc))) /\
  length (firstn (S p) (c_P tc)) = S p /\ length K2 = S (p + length (skipn p (c_P tc))).
Proof.
  destruct fs_tc as (Tp & TU & TL).
  assert (Hn2 : exists K2, normalize Rops kv2 = Ok K2).
  { unfold kv2. cbn [repeat app]. eexists. apply normalize_affine. }
  destruct Hn2 as (K2 & HK2). exists K2. split; [exact HK2|].
  assert (HP1 : length (firstn (S p) (c_P tc)) = S p) by (rewrite firstn_length, TL; unfold r; lia).
  assert (HP2 : length (skipn p (c_P tc)) = (n + r - p)%nat) by (rewrite skipn_length, TL; reflexivity).
  split; [|split; [exact HP1|]].
  - unfold split_curve. fold p U P. rewrite fs_not_end. cbv zeta.
    unfold split_ks. fold n. rewrite fs_span, fs_mult. replace (p - s)%nat with r by (unfold s, r; lia). fold tc.
    unfold split_knots. rewrite TU, TL, fs_span'. cbn [fst snd]. fold kv1 kv2.
    replace (e - p + 1 + r)%nat with (S p) by (unfold r; lia).
    replace (S p - 1)%nat with p by lia.
    rewrite set_kv_sorted.
    + rewrite kv1_normalized. cbn [res_bind]. rewrite set_kv_sorted.
      * rewrite HK2. cbn [res_bind]. reflexivity.
      * rewrite HP2. apply kv2_len.
      * exact kv2_sorted.
    + rewrite HP1, kv1_eq, app_length, !repeat_length. lia.
    + rewrite kv1_eq. intros i j Hij. rewrite app_length, !repeat_length in Hij.
      destruct (Nat.le_gt_cases j p).
      * rewrite !app_nth1 by (rewrite repeat_length; lia). rewrite !nth_repeat_lt by lia. lra.
      * rewrite (app_nth2 _ _ _ (n := j)) by (rewrite repeat_length; lia). rewrite repeat_length. rewrite (nth_repeat_lt knot) by lia.
        destruct (Nat.le_gt_cases i p).
        -- rewrite app_nth1 by (rewrite repeat_length; lia). rewrite nth_repeat_lt by lia. lra.
        -- rewrite app_nth2 by (rewrite repeat_length; lia). rewrite repeat_length, nth_repeat_lt by lia. lra.
  - rewrite HP2. destruct (normalize_map _ _ HK2) as (f & _ & ->). rewrite map_length. apply kv2_len.
Qed.
End FirstSplit.

(* readable corollary: the step of decompose_curve (exact knot comparison) never rejects and cuts off a Bezier piece *)
Corollary decompose_step_bezier (c : @curve R) (e : nat) :
  let p := c_p c in let U := c_U c in let knot := knR U (S p) in
  (1 <= p)%nat -> length U = S (p + length (c_P c)) -> sortedR U ->
  (forall i, (i <= p)%nat -> knR U i = knR U 0) ->
  (S p <= e <= 2 * p)%nat -> (e < length (c_P c))%nat ->
  (forall i, (S p <= i <= e)%nat -> knR U i = knot) ->
  knR U 0 < knot -> knot < knR U (S e) ->
  exists c1 c2, split_curve Rops 0 c knot = Ok (c1, c2) /\
    c_p c1 = p /\ c_U c1 = repeat 0 (S p) ++ repeat 1 (S p) /\ length (c_P c1) = S p /\
    c_p c2 = p /\ length (c_U c2) = S (p + length (c_P c2)).
Proof.
  intros p U knot H1 H2 H3 H4 H5 H6 H7 H8 H9.
  destruct (split_first_knot_bezier c e H1 H2 H3 H4 H5 H6 H7 H8 H9) as (K2 & _ & Hs & HL1 & HL2).
  eexists. eexists. split; [exact Hs|]. cbn [c_p c_U c_P]. repeat split; assumption.
Qed.
