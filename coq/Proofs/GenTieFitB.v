(* Ties: generated fitting._build_coeff_matrix and the numerical part of fitting.interpolate_curve (Gen/FittingB.v) = Model/Fit.v
   (build_coeff_matrix, interpolate_curve).  interpolate_curve composes compute_params_curve_tie, compute_knot_vector_tie (GenTieFit.v),
   build_coeff_matrix_tie and lu_solve_tie (GenTieLUSolve.v); it needs sum_laws K (through compute_params_curve, compute_knot_vector,
   lu_solve: left sums vs right sums).  _build_coeff_matrix itself uses no law. *)
From Coq Require Import List ZArith Arith Bool Lia QArith.
From NV Require Import Scalar.Ops Model.Common Model.Basis Model.LinAlg Model.Fit
  Gen.Prelude Gen.PreludeExt Gen.PreludeExt2 Gen.LinalgInternal Gen.Linalg Gen.Helpers Gen.Fitting Gen.FittingB
  Proofs.GenTieLib Proofs.GenTieLib2 Proofs.GenTieSpan Proofs.GenTieBasis Proofs.GenTieSums Proofs.GenTieLUSolve Proofs.GenTieFit
  Proofs.GenTieEvalLib.
Import ListNotations.
Local Open Scope nat_scope.

(* a[lo:hi] = v with 0 <= lo <= hi <= len(a) *)
Lemma zslice_set_nat {A} (l v : list A) (a b : nat) : a <= b <= length l ->
  zslice_set l (Z.of_nat a) (Z.of_nat b) v = firstn a l ++ v ++ skipn b l.
Proof.
  intros H. unfold zslice_set, zclamp.
  destruct (Z.ltb_spec (Z.of_nat a) 0); [lia|]. destruct (Z.ltb_spec (Z.of_nat b) 0); [lia|].
  rewrite !Nat2Z.id. rewrite (Nat.min_r (length l) a), (Nat.min_r (length l) b) by lia. rewrite Nat.max_r by lia. reflexivity.
Qed.

Section Tie.
Context {T : Type} (K : ops T).
Notation "0" := (o0 K).

(* wf: degree < number of data points n (every span is then a column index), n <= len(params), n + degree <= len(knotvector)
   (basis_function reads knotvector[span + degree]) *)
Theorem build_coeff_matrix_tie (p : nat) (kv params : list T) (pts : list (list T)) :
  p < length pts -> length pts <= length params -> length pts + p <= length kv ->
  FittingB._build_coeff_matrix K (Z.of_nat p) kv params pts = GOk (Fit.build_coeff_matrix K p kv params (length pts)).
Proof.
  intros Hp Hpar Hkv. unfold FittingB._build_coeff_matrix, Fit.build_coeff_matrix. unfold zlen.
  set (n := length pts) in *.
  rewrite !map_const_zrange, !Nat2Z.id, zrange_0_nat, (gfor_map Z.of_nat).
  set (M0 := repeat (repeat 0 n) n).
  rewrite (gfor_fill [] _ (fun i => coeff_row K p kv n (nth i params 0)) M0 n).
  - cbn [gbind]. rewrite skipn_all2 by (unfold M0; rewrite repeat_length; lia). now rewrite app_nil_r.
  - unfold M0. rewrite repeat_length. lia.
  - intros i M' Hi LM' Hrest. unfold M0 in LM'. rewrite repeat_length in LM'.
    rewrite (znth_nat params i 0) by lia. cbn [gbind].
    rewrite (find_span_linear_tie K p kv n) by lia. cbn [gbind].
    pose proof (find_span_linear_bounds K p kv n (nth i params 0) Hp) as Hb.
    set (span := Basis.find_span_linear K p kv n (nth i params 0)) in *.
    rewrite (basis_function_tie K p kv span) by lia. cbn [gbind].
    rewrite (znth_nat M' i []) by lia. cbn [gbind].
    rewrite zset_nat by lia. f_equal. f_equal.
    rewrite Hrest by lia. unfold M0. rewrite nth_repeat_lt by lia.
    replace (Z.of_nat span - Z.of_nat p)%Z with (Z.of_nat (span - p)) by lia.
    replace (Z.of_nat span + 1)%Z with (Z.of_nat (S span)) by lia.
    rewrite zslice_set_nat by (rewrite repeat_length; lia).
    unfold coeff_row. fold span. reflexivity.
Qed.

Lemma bcm_square (p : nat) (kv params : list T) (n : nat) : p < n -> is_square (Fit.build_coeff_matrix K p kv params n) = true.
Proof.
  intros Hp. unfold is_square, Fit.build_coeff_matrix. rewrite map_length, seq_length.
  apply forallb_forall. intros r Hr. apply in_map_iff in Hr. destruct Hr as (i & <- & _). apply Nat.eqb_eq.
  unfold coeff_row. pose proof (find_span_linear_bounds K p kv n (nth i params 0) Hp) as Hb.
  rewrite !app_length, firstn_length, skipn_length, repeat_length, bf_length. lia.
Qed.
End Tie.

Section TieSums.
Context {T : Type} (K : ops T) (LW : sum_laws K).
Notation "0" := (o0 K).

Lemma ckv_length (p n : nat) (uk : list T) : p < n -> length (Fit.compute_knot_vector K p n uk) = n + p + 1.
Proof.
  intros H. unfold Fit.compute_knot_vector. rewrite !app_length, !repeat_length, map_length, seq_length. lia.
Qed.

Lemma cpc_length (cds uk : list T) : Fit.compute_params_curve K cds = Ok uk -> length uk = S (length cds).
Proof.
  unfold Fit.compute_params_curve. cbv zeta. destruct (isz K _); [discriminate|]. intros E. injection E as E. rewrite <- E.
  cbn [length]. now rewrite map_length, seq_length.
Qed.

(* the chord lengths the model takes as inputs, computed with the (total) distance function dm *)
Definition chords_of (dm : list T -> list T -> T) (pts : list (list T)) : list T :=
  map (fun i => dm (nth (S i) pts []) (nth i pts [])) (seq O (length pts - 1)).

(* The numerical part of interpolate_curve (centripetal = False): parameters -> knot vector -> collocation matrix -> lu_solve.
   dist = linalg.point_distance is uninterpreted (any total function, dm = its value).
   wf: a first point, degree < number of points, no point shorter than the first;
   solvability: the LU factors of the collocation matrix have no zero on their diagonals (lu_solve_tie's condition; where it fails
   Python raises ZeroDivisionError and the model crashes, which is not tied - as for lu_solve itself).
   ZeroDivisionError of compute_params_curve (all chords sum to 0) <-> Crash. *)
Theorem interpolate_curve_tie (pts : list (list T)) (p : nat) (dist : list T -> list T -> gres T) (dm : list T -> list T -> T) :
  (forall a b, dist a b = GOk (dm a b)) -> pts <> [] -> p < length pts ->
  (forall r, In r pts -> length (hd [] pts) <= length r) ->
  (forall uk L U, Fit.compute_params_curve K (chords_of dm pts) = Ok uk ->
     LinAlg.lu_decomposition K (Fit.build_coeff_matrix K p (Fit.compute_knot_vector K p (length pts) uk) uk (length pts)) = Ok (L, U) ->
     forall i, i < length pts -> i < length (nth i L []) /\ oeqb K (get2 K L i i) 0 = false
                               /\ length pts <= length (nth i U []) /\ oeqb K (get2 K U i i) 0 = false) ->
  FittingB.interpolate_curve__centripetal_false K pts (Z.of_nat p) dist =
  res_to_gres (fun Pkv => mk_curvedata (Z.of_nat p) (fst Pkv) (snd Pkv)) ValueError ZeroDivisionError
    (Fit.interpolate_curve K pts p (chords_of dm pts)).
Proof.
  intros Hdist Hne Hp Hrows Hsolv.
  unfold FittingB.interpolate_curve__centripetal_false, Fit.interpolate_curve.
  rewrite (compute_params_curve_tie K LW pts dist dm Hdist Hne). fold (chords_of dm pts).
  destruct (Fit.compute_params_curve K (chords_of dm pts)) as [uk| |] eqn:Euk; cbn [res_to_gres gbind res_bind]; try reflexivity.
  - assert (Luk : length uk = length pts).
    { rewrite (cpc_length _ _ Euk). unfold chords_of. rewrite map_length, seq_length.
      destruct pts; [congruence|simpl; lia]. }
    unfold zlen. rewrite (compute_knot_vector_tie K LW p (length pts) uk) by lia. cbn [gbind].
    set (kv := Fit.compute_knot_vector K p (length pts) uk) in *.
    rewrite (build_coeff_matrix_tie K p kv uk pts) by (try lia; unfold kv; rewrite ckv_length; lia). cbn [gbind].
    set (A := Fit.build_coeff_matrix K p kv uk (length pts)) in *.
    unfold interp_1d. fold A.
    assert (HLU : exists L U, LinAlg.lu_decomposition K A = Ok (L, U)).
    { assert (Hs : is_square A = true) by (apply bcm_square; exact Hp).
      unfold LinAlg.lu_decomposition. rewrite Hs.
      exists (fst (LinAlg.doolittle K A)), (snd (LinAlg.doolittle K A)). now rewrite <- surjective_pairing. }
    destruct HLU as (L & U & HLU).
    destruct (lu_solve_tie K LW A pts L U Hne Hrows HLU (Hsolv uk L U eq_refl HLU)) as (Etie & x & Ex).
    rewrite Etie, Ex. reflexivity.
Qed.
End TieSums.

Require Import Reals Qabs.
Definition build_coeff_matrix_tie_R := @build_coeff_matrix_tie R Rops.
Definition build_coeff_matrix_tie_Q := @build_coeff_matrix_tie Q Qops.
Definition interpolate_curve_tie_R := @interpolate_curve_tie _ Rops Rops_sum_laws.
Definition interpolate_curve_tie_Q := @interpolate_curve_tie _ Qops Qops_sum_laws.

(* ---- examples ---- *)
Local Open Scope Q_scope.
Definition exKV : list Q := [0; 0; 0; 0; 1 # 4; 1 # 2; 1 # 2; 3 # 4; 1; 1; 1; 1].
Definition exPar : list Q := [0; 1 # 8; 3 # 10; 1 # 2; 5 # 8; 3 # 4; 7 # 8; 1].
Definition exPts8 : list (list Q) := map (fun i => [inject_Z (Z.of_nat i); 0]) (seq 0 8).
(* the collocation matrix of degree 3 at 8 parameters (a repeated interior knot); rows 1 .. 3 as geomdl computes them *)
Example build_coeff_matrix_ex :
  FittingB._build_coeff_matrix Qops 3 exKV exPar exPts8 = GOk (Fit.build_coeff_matrix Qops 3 exKV exPar 8)
  /\ firstn 3 (skipn 1 (Fit.build_coeff_matrix Qops 3 exKV exPar 8)) =
     [[1 # 8; 19 # 32; 1 # 4; 1 # 32; 0; 0; 0; 0]; [0; 16 # 125; 56 # 125; 21 # 50; 1 # 250; 0; 0; 0]; [0; 0; 0; 1 # 2; 1 # 2; 0; 0; 0]].
Proof. split; vm_compute; reflexivity. Qed.
(* interpolation of 5 points with dm = |x1 - x0| on the first coordinate (unit chords), degree 2: the values geomdl returns when
   linalg.point_distance is replaced by that function *)
Definition exDm (a b : list Q) : Q := Qabs (nth 0 a 0 - nth 0 b 0).
Definition exIP : list (list Q) := [[0; 0]; [1; 1]; [2; 0]; [3; 2]; [4; 1]].
Example interpolate_curve_ex :
  FittingB.interpolate_curve__centripetal_false Qops exIP 2 (fun a b => GOk (exDm a b)) =
    GOk (mk_curvedata 2 [[0; 0]; [3 # 4; 66 # 35]; [2; -13 # 20]; [13 # 4; 116 # 35]; [4; 1]] [0; 0; 0; 3 # 8; 5 # 8; 1; 1; 1])
  /\ Fit.interpolate_curve Qops exIP 2 (chords_of exDm exIP) =
    Ok ([[0; 0]; [3 # 4; 66 # 35]; [2; -13 # 20]; [13 # 4; 116 # 35]; [4; 1]], [0; 0; 0; 3 # 8; 5 # 8; 1; 1; 1]).
Proof. split; vm_compute; reflexivity. Qed.
(* all points equal: the chords sum to 0: ZeroDivisionError <-> Crash *)
Example interpolate_curve_zero_ex :
  FittingB.interpolate_curve__centripetal_false Qops [[1; 1]; [1; 1]; [1; 1]] 1 (fun a b => GOk (exDm a b)) = GErr ZeroDivisionError
  /\ Fit.interpolate_curve Qops [[1; 1]; [1; 1]; [1; 1]] 1 (chords_of exDm [[1; 1]; [1; 1]; [1; 1]]) = Crash.
Proof. split; vm_compute; reflexivity. Qed.
