(* Ties: generated linalg.linspace, knotvector.generate / normalize / check  =  Model/Knots.v, for every scalar instance. *)
From Coq Require Import List ZArith Arith Bool Lia QArith.
From NV Require Import Scalar.Ops Model.Common Model.Knots Gen.Prelude Gen.Linalg Gen.Knotvector Proofs.GenTieLib.
Import ListNotations.
Local Open Scope nat_scope.

(* the literal 10e-8 of linalg.linspace, which the model takes as an argument *)
Definition lit_10e_8 {T} (K : ops T) : T := olit K 1 10000000.

Section Tie.
Context {T : Type} (K : ops T).

(* linalg.linspace: no well-formedness condition at all (num may be any integer) *)
Theorem linspace_tie (start stop : T) (num decimals : Z) :
  Linalg.linspace K start stop num decimals = GOk (Knots.linspace K (lit_10e_8 K) start stop (Z.to_nat num)).
Proof.
  unfold Linalg.linspace, Knots.linspace, lit_10e_8.
  destruct (oleb K _ _); auto.
  destruct (Z.ltb_spec 1 num); destruct (Nat.ltb_spec 1 (Z.to_nat num)); try lia; auto.
  f_equal. rewrite zrange_0, map_map. apply map_ext. intros x. unfold fround.
  rewrite ofZ_of_nat. rewrite (ofZ_nonneg K (num - 1)) by lia.
  repeat f_equal. lia.
Qed.

(* knotvector.generate: ValueError exactly when the model rejects *)
Theorem generate_tie (p n : nat) (clamped : bool) :
  Knotvector.generate K (Z.of_nat p) (Z.of_nat n) clamped =
  res_to_gres (fun x => x) ValueError IndexError (Knots.generate K (lit_10e_8 K) p n clamped).
Proof.
  unfold Knotvector.generate, Knots.generate.
  destruct (Z.eqb_spec (Z.of_nat p) 0); destruct (Nat.eqb_spec p 0); try lia; cbn [orb res_to_gres]; auto.
  destruct (Z.eqb_spec (Z.of_nat n) 0); destruct (Nat.eqb_spec n 0); try lia; cbn [orb res_to_gres]; auto.
  destruct clamped; cbn [negb gbind]; rewrite linspace_tie; cbn [gbind]; rewrite !map_const_zrange; rewrite ?Nat2Z.id.
  - rewrite <- app_assoc. do 4 f_equal. lia.
  - change (Z.to_nat 0) with O. cbn [repeat app]. rewrite !app_nil_r. do 2 f_equal. lia.
Qed.

(* knotvector.normalize (the rounding to `decimals` digits is the identity: fround) *)
Theorem normalize_tie (U : list T) (decimals : Z) :
  Knotvector.normalize K U decimals = res_to_gres (fun x => x) ValueError IndexError (Knots.normalize K U).
Proof.
  unfold Knotvector.normalize, Knots.normalize.
  destruct U as [|f r]; [reflexivity|].
  unfold zlen. destruct (Z.eqb_spec (Z.of_nat (length (f :: r))) 0) as [E|E]; [simpl in E; lia|].
  cbn [orb gtry gbind].
  rewrite znth_0. cbn [gbind].
  rewrite (znth_last (f :: r) f) by congruence. cbn [gbind res_to_gres].
  reflexivity.
Qed.

Lemma check_loop (l : list T) (prev : T) :
  gfor_ret l (fun knot prev_knot => if oltb K knot prev_knot then GOk (GRet false) else GOk (GCont knot)) prev =
  GOk (if nondecreasing K prev l then GCont (last l prev) else GRet false).
Proof.
  revert prev; induction l as [|k r IH]; intros prev; simpl; auto.
  destruct (oltb K k prev); simpl; auto.
  rewrite IH. destruct (nondecreasing K k r); auto.
  f_equal. f_equal. destruct r; auto. apply last_cons_indep.
Qed.

(* knotvector.check *)
Theorem check_tie (p : nat) (U : list T) (n : nat) :
  Knotvector.check K (Z.of_nat p) U (Z.of_nat n) = res_to_gres (fun x => x) ValueError IndexError (Knots.check K p U n).
Proof.
  unfold Knotvector.check, Knots.check.
  destruct U as [|f r]; [reflexivity|].
  unfold zlen. destruct (Z.eqb_spec (Z.of_nat (length (f :: r))) 0) as [E|E]; [simpl in E; lia|].
  cbn [orb gtry gbind res_to_gres].
  destruct (Z.eqb_spec (Z.of_nat (length (f :: r))) (Z.of_nat p + Z.of_nat n + 1));
    destruct (Nat.eqb_spec (length (f :: r)) (Datatypes.S (p + n))); try lia; cbn [negb andb]; auto.
  rewrite znth_0. cbn [gbind].
  rewrite check_loop. cbn [gbind].
  destruct (nondecreasing K f (f :: r)); reflexivity.
Qed.
End Tie.

(* ---- the two instances used by the property theorems (Rops) and by the correspondence check (Qops) ---- *)
Definition linspace_tie_R := @linspace_tie _ Rops.
Definition linspace_tie_Q := @linspace_tie _ Qops.
Definition generate_tie_R := @generate_tie _ Rops.
Definition generate_tie_Q := @generate_tie _ Qops.
Definition normalize_tie_R := @normalize_tie _ Rops.
Definition normalize_tie_Q := @normalize_tie _ Qops.
Definition check_tie_R := @check_tie _ Rops.
Definition check_tie_Q := @check_tie _ Qops.

(* ---- non-vacuity: both sides evaluated at Qops ---- *)
Local Open Scope Q_scope.
Example linspace_ex :
  Linalg.linspace Qops (1#4) 2 5 18 = GOk (Knots.linspace Qops (lit_10e_8 Qops) (1#4) 2 5)
  /\ Knots.linspace Qops (lit_10e_8 Qops) (1#4) 2 5 = [1#4; 11#16; 9#8; 25#16; 2]%Q.
Proof. split; vm_compute; reflexivity. Qed.
Example generate_ex :
  Knotvector.generate Qops 3 7 true = GOk [0; 0; 0; 0; 1#4; 1#2; 3#4; 1; 1; 1; 1]%Q
  /\ Knots.generate Qops (lit_10e_8 Qops) 3 7 true = Ok [0; 0; 0; 0; 1#4; 1#2; 3#4; 1; 1; 1; 1]%Q
  /\ Knotvector.generate Qops 0 7 true = GErr ValueError /\ Knots.generate Qops (lit_10e_8 Qops) 0 7 true = Rejected.
Proof. repeat split; vm_compute; reflexivity. Qed.
Example normalize_ex :
  Knotvector.normalize Qops [1; 1; 2; 2; 4; 4]%Q 18 = GOk [0; 0; 1#3; 1#3; 1; 1]%Q
  /\ Knots.normalize Qops [1; 1; 2; 2; 4; 4]%Q = Ok [0; 0; 1#3; 1#3; 1; 1]%Q
  /\ Knotvector.normalize Qops [] 18 = GErr ValueError.
Proof. repeat split; vm_compute; reflexivity. Qed.
Example check_ex :
  Knotvector.check Qops 3 [0; 0; 0; 0; 1#4; 1#2; 1#2; 3#4; 1; 1; 1; 1]%Q 8 = GOk true
  /\ Knots.check Qops 3 [0; 0; 0; 0; 1#4; 1#2; 1#2; 3#4; 1; 1; 1; 1]%Q 8 = Ok true
  /\ Knotvector.check Qops 3 [0; 0; 0; 0; 1#2; 1#4; 1#2; 3#4; 1; 1; 1; 1]%Q 8 = GOk false
  /\ Knotvector.check Qops 3 [0; 0; 0; 0; 1#4; 1#2; 1#2; 3#4; 1; 1; 1; 1]%Q 7 = GOk false
  /\ Knotvector.check Qops 3 [] 7 = GErr ValueError.
Proof. repeat split; vm_compute; reflexivity. Qed.
