(* Ties: generated evaluators.CurveEvaluator.evaluate / CurveEvaluatorRational.evaluate  =  Model/Eval.v
   (curve_evalpts, project), for every scalar instance.  No law of the scalar operations is used. *)
From Coq Require Import List ZArith Arith Bool Lia QArith.
From NV Require Import Scalar.Ops Model.Common Model.Basis Model.Knots Model.Eval
  Gen.Prelude Gen.PreludeExt Gen.Linalg Gen.Helpers Gen.Evaluators
  Proofs.GenTieLib Proofs.GenTieLib2 Proofs.GenTieKnots Proofs.GenTieSpan Proofs.GenTieBasis Proofs.GenTieEvalLib.
Import ListNotations.
Local Open Scope nat_scope.

Section Tie.
Context {T : Type} (K : ops T).

(* the evaluator's `dimension`: datadict['dimension'] + 1 if datadict['rational'] else datadict['dimension'] *)
Definition eval_dim (dd : geomdata T) : Z :=
  if geomdata_rational dd then (geomdata_dimension dd + 1)%Z else geomdata_dimension dd.

(* datadict of a curve (Curve.data in abstract.py): degree = (p,), knotvector = (U,), size = (len(P),), sample_size = (n,),
   control_points = P.  Only the first components are read; the other keys are arbitrary. *)
Definition curve_dd (dd : geomdata T) (p : nat) (U : list T) (P : list (list T)) : Prop :=
  hd_error (geomdata_degree dd) = Some (Z.of_nat p) /\ hd_error (geomdata_knotvector dd) = Some U /\
  hd_error (geomdata_size dd) = Some (Z.of_nat (length P)) /\ geomdata_control_points dd = P.

Lemma znth_hd {A} (l : list A) x : hd_error l = Some x -> znth l 0 = GOk x.
Proof. destruct l; simpl; intros H; inversion H. reflexivity. Qed.

(* one sample: the loops of A3.1 for the parameter number idx *)
Lemma curve_point_loop (dimension : Z) (p : nat) (P : list (list T)) (spans : list nat) (basis : list (list T)) (idx : nat) :
  idx < length spans -> idx < length basis -> length (nth idx basis []) = S p ->
  p <= nth idx spans 0 < length P ->
  gfor (zrange 0 (Z.of_nat p + 1) 1) (fun i crvpt =>
      do v_8 <- znth (map Z.of_nat spans) (Z.of_nat idx) ;;
      do v_9 <- znth P ((v_8 - Z.of_nat p) + i) ;;
      do v_12 <- gmapM (fun '(crv_p, ctl_p) => do v_10 <- znth basis (Z.of_nat idx) ;; do v_11 <- znth v_10 i ;; GOk (oadd K crv_p (omul K v_11 ctl_p))) (combine crvpt v_9) ;;
      let crvpt := v_12 in
      GOk crvpt) (map (fun _ => (o0 K)) (zrange 0 dimension 1))
  = GOk (curve_point_at K (Z.to_nat dimension) p P (nth idx spans 0) (nth idx basis [])).
Proof.
  intros Hs Hb Hrow Hsp.
  replace (Z.of_nat p + 1)%Z with (Z.of_nat (S p)) by lia.
  rewrite zrange_0_nat, gfor_map, zeros_vzero. unfold curve_point_at.
  apply gfor_pure. intros i acc Hi. apply in_seq in Hi.
  rewrite (znth_nat (map Z.of_nat spans) idx (Z.of_nat 0)) by (now rewrite map_length).
  rewrite map_nth. cbn [gbind].
  replace (Z.of_nat (nth idx spans 0%nat) - Z.of_nat p + Z.of_nat i)%Z with (Z.of_nat (nth idx spans 0 - p + i)) by lia.
  rewrite (znth_nat P _ []) by lia. cbn [gbind].
  rewrite (gmapM_axpy2 K basis (Z.of_nat idx) (Z.of_nat i) (nth idx basis []) (nth i (nth idx basis []) (o0 K))).
  - reflexivity.
  - now apply znth_nat.
  - apply znth_nat. lia.
Qed.

(* helpers.find_spans + helpers.basis_functions on the sample parameters, for a span function that agrees with the model's *)
Lemma spans_basis (func : Z -> list T -> Z -> T -> gres Z) (p : nat) (U : list T) (n : nat) (knots : list T) :
  p < n -> n + p <= length U ->
  (forall u, func (Z.of_nat p) U (Z.of_nat n) u = GOk (Z.of_nat (Basis.find_span_linear K p U n u))) ->
  let spans := map (Basis.find_span_linear K p U n) knots in
  Helpers.find_spans K (Z.of_nat p) U (Z.of_nat n) knots func = GOk (map Z.of_nat spans) /\
  Helpers.basis_functions K (Z.of_nat p) U (map Z.of_nat spans) knots = GOk (Basis.basis_functions K p U spans knots).
Proof.
  intros Hp Hl Hf spans. split.
  - rewrite (find_spans_tie_gen K func (Basis.find_span_linear K p U n)) by (intros; apply Hf).
    unfold spans. now rewrite map_map.
  - apply basis_functions_tie. intros sp Hin. apply in_map_iff in Hin. destruct Hin as (u & <- & _).
    pose proof (find_span_linear_bounds K p U n u Hp). lia.
Qed.

Lemma nth_basis_functions (p : nat) (U : list T) (f : T -> nat) (knots : list T) (idx : nat) :
  idx < length knots ->
  nth idx (Basis.basis_functions K p U (map f knots) knots) [] =
  Basis.basis_function K p U (f (nth idx knots (o0 K))) (nth idx knots (o0 K)).
Proof.
  intros H. unfold Basis.basis_functions.
  rewrite (nth_map_lt _ _ idx (0, o0 K)) by (rewrite combine_length, map_length; lia).
  rewrite combine_nth by (now rewrite map_length). cbn [fst snd].
  now rewrite (nth_map_lt f knots idx (o0 K)).
Qed.

Lemma basis_functions_length (p : nat) (U : list T) (f : T -> nat) (knots : list T) :
  length (Basis.basis_functions K p U (map f knots) knots) = length knots.
Proof. unfold Basis.basis_functions. rewrite map_length, combine_length, map_length. lia. Qed.

(* wf: degree < number of control points (so that every span is a control point index) and
   len(ctrlpts) + degree <= len(knotvector) (basis_function reads knot_vector[span + degree]); the sample size is any integer *)
Theorem CurveEvaluator_evaluate_tie_gen (func : Z -> list T -> Z -> T -> gres Z) (dd : geomdata T)
    (p : nat) (U : list T) (P : list (list T)) (n : Z) (start stop : T) :
  curve_dd dd p U P -> hd_error (geomdata_sample_size dd) = Some n ->
  p < length P -> length P + p <= length U ->
  (forall u, func (Z.of_nat p) U (Z.of_nat (length P)) u = GOk (Z.of_nat (Basis.find_span_linear K p U (length P) u))) ->
  Evaluators.CurveEvaluator_evaluate K func dd start stop =
  GOk (curve_evalpts K (lit_10e_8 K) (Z.to_nat (eval_dim dd)) p U P start stop (Z.to_nat n)).
Proof.
  intros (Hd & Hk & Hs & Hc) Hn Hp Hl Hf.
  unfold Evaluators.CurveEvaluator_evaluate. cbv zeta.
  rewrite (znth_hd _ _ Hd), (znth_hd _ _ Hk), (znth_hd _ _ Hs), (znth_hd _ _ Hn). cbn [gbind].
  rewrite Hc, linspace_tie. cbn [gbind].
  unfold curve_evalpts. set (knots := Knots.linspace K (lit_10e_8 K) start stop (Z.to_nat n)).
  destruct (spans_basis func p U (length P) knots Hp Hl Hf) as [E1 E2]. cbv zeta in E1, E2.
  rewrite E1. cbn [gbind]. rewrite E2. cbn [gbind].
  fold (eval_dim dd).
  set (spans := map (Basis.find_span_linear K p U (length P)) knots).
  set (basis := Basis.basis_functions K p U spans knots).
  rewrite zlen_nat, zrange_0_nat, gfor_map.
  rewrite (gfor_append_gen _ _ (fun idx => curve_point_at K (Z.to_nat (eval_dim dd)) p P (nth idx spans 0) (nth idx basis []))).
  - cbn [gbind app]. f_equal. rewrite <- (map_nth_seq (curve_point K (Z.to_nat (eval_dim dd)) p U P) knots (o0 K)).
    apply map_seq_ext. intros i Hi. unfold curve_point, basis, spans.
    rewrite nth_basis_functions by lia. now rewrite (nth_map_lt _ knots i (o0 K)) by lia.
  - intros idx acc Hin. apply in_seq in Hin.
    rewrite curve_point_loop; [reflexivity| | | |].
    + unfold spans. rewrite map_length. lia.
    + unfold basis, spans. rewrite basis_functions_length. lia.
    + unfold basis, spans. rewrite nth_basis_functions by lia. apply bf_length.
    + unfold spans. rewrite (nth_map_lt _ knots idx (o0 K)) by lia. apply find_span_linear_bounds. exact Hp.
Qed.

(* with the default span function helpers.find_span_linear *)
Theorem CurveEvaluator_evaluate_tie (dd : geomdata T) (p : nat) (U : list T) (P : list (list T)) (n : Z) (start stop : T) :
  curve_dd dd p U P -> hd_error (geomdata_sample_size dd) = Some n ->
  p < length P -> length P + p <= length U ->
  Evaluators.CurveEvaluator_evaluate K (Helpers.find_span_linear K) dd start stop =
  GOk (curve_evalpts K (lit_10e_8 K) (Z.to_nat (eval_dim dd)) p U P start stop (Z.to_nat n)).
Proof.
  intros Hdd Hn Hp Hl. apply CurveEvaluator_evaluate_tie_gen; auto.
  intros u. apply find_span_linear_tie. lia.
Qed.

(* ---- rational curves: the weighted points are divided by their last coordinate ---- *)
Lemma fold_axpy_length (c : nat -> T) (pt : nat -> list T) (d : nat) : forall l acc,
  length acc = d -> (forall i, In i l -> length (pt i) = d) ->
  length (fold_left (fun acc i => axpy K (c i) (pt i) acc) l acc) = d.
Proof.
  induction l; simpl; intros acc Ha Hp; auto.
  apply IHl; auto. rewrite axpy_length, Ha, Hp by auto. apply Nat.min_id.
Qed.

(* the projection loop of the three rational evaluators *)
Lemma project_loop (dimension : Z) (pts : list (list T)) :
  (forall pt, In pt pts -> Z.of_nat (length pt) = dimension /\ pt <> []) ->
  gfor pts (fun pt eval_points =>
    do cpt <- gmapM (fun c => do v_2 <- znth pt (-1) ;; GOk (odiv K c v_2)) (zslice pt 0 (dimension - 1)) ;;
    let eval_points := eval_points ++ [cpt] in
    GOk eval_points) [] = GOk (map (project K) pts).
Proof.
  intros H. rewrite (gfor_append_gen _ _ (project K)); [reflexivity|].
  intros pt acc Hin. destruct (H pt Hin) as [Hl Hne]. rewrite (project_gen K pt dimension Hl Hne). reflexivity.
Qed.

Lemma curve_point_length (dim p : nat) (U : list T) (P : list (list T)) (u : T) :
  p < length P -> (forall pt, In pt P -> length pt = dim) -> length (curve_point K dim p U P u) = dim.
Proof.
  intros Hp HP. unfold curve_point, curve_point_at.
  apply fold_axpy_length.
  - unfold vzero. apply repeat_length.
  - intros i Hi. apply in_seq in Hi. apply HP. unfold pt_at. apply nth_In.
    pose proof (find_span_linear_bounds K p U (length P) u Hp). lia.
Qed.

(* wf in addition: every (weighted) control point has exactly `dimension` >= 1 coordinates *)
Theorem CurveEvaluatorRational_evaluate_tie_gen (func : Z -> list T -> Z -> T -> gres Z) (dd : geomdata T)
    (p : nat) (U : list T) (P : list (list T)) (n : Z) (start stop : T) :
  curve_dd dd p U P -> hd_error (geomdata_sample_size dd) = Some n ->
  p < length P -> length P + p <= length U ->
  (1 <= eval_dim dd)%Z -> (forall pt, In pt P -> Z.of_nat (length pt) = eval_dim dd) ->
  (forall u, func (Z.of_nat p) U (Z.of_nat (length P)) u = GOk (Z.of_nat (Basis.find_span_linear K p U (length P) u))) ->
  Evaluators.CurveEvaluatorRational_evaluate K func dd start stop =
  GOk (map (project K) (curve_evalpts K (lit_10e_8 K) (Z.to_nat (eval_dim dd)) p U P start stop (Z.to_nat n))).
Proof.
  intros Hdd Hn Hp Hl Hdim HP Hf.
  unfold Evaluators.CurveEvaluatorRational_evaluate. cbv zeta.
  rewrite (CurveEvaluator_evaluate_tie_gen func dd p U P n start stop) by auto. cbn [gbind].
  fold (eval_dim dd). rewrite project_loop; [reflexivity|].
  intros pt Hin. unfold curve_evalpts in Hin. apply in_map_iff in Hin. destruct Hin as (u & <- & _).
  assert (L : length (curve_point K (Z.to_nat (eval_dim dd)) p U P u) = Z.to_nat (eval_dim dd)).
  { apply curve_point_length; auto. intros pt Hpt. specialize (HP pt Hpt). lia. }
  split; [lia|]. intros E. rewrite E in L. simpl in L. lia.
Qed.

Theorem CurveEvaluatorRational_evaluate_tie (dd : geomdata T) (p : nat) (U : list T) (P : list (list T)) (n : Z) (start stop : T) :
  curve_dd dd p U P -> hd_error (geomdata_sample_size dd) = Some n ->
  p < length P -> length P + p <= length U ->
  (1 <= eval_dim dd)%Z -> (forall pt, In pt P -> Z.of_nat (length pt) = eval_dim dd) ->
  Evaluators.CurveEvaluatorRational_evaluate K (Helpers.find_span_linear K) dd start stop =
  GOk (map (project K) (curve_evalpts K (lit_10e_8 K) (Z.to_nat (eval_dim dd)) p U P start stop (Z.to_nat n))).
Proof.
  intros Hdd Hn Hp Hl Hdim HP. apply CurveEvaluatorRational_evaluate_tie_gen; auto.
  intros u. apply find_span_linear_tie. lia.
Qed.
End Tie.

Definition CurveEvaluator_evaluate_tie_R := @CurveEvaluator_evaluate_tie _ Rops.
Definition CurveEvaluator_evaluate_tie_Q := @CurveEvaluator_evaluate_tie _ Qops.
Definition CurveEvaluatorRational_evaluate_tie_R := @CurveEvaluatorRational_evaluate_tie _ Rops.
Definition CurveEvaluatorRational_evaluate_tie_Q := @CurveEvaluatorRational_evaluate_tie _ Qops.

(* ---- non-vacuity (degree 3, a repeated interior knot, 8 weighted control points in the plane, 5 samples; the values are
   what geomdl returns for this curve) ---- *)
Local Open Scope Q_scope.
Definition exU : list Q := [0; 0; 0; 0; 1#4; 1#2; 1#2; 3#4; 1; 1; 1; 1].
Definition exP : list (list Q) := [[0; 0; 1]; [1; 2; 1]; [4; 4; 2]; [3; 0; 1]; [4; -1; 1]; [10; 2; 2]; [6; 3; 1]; [7; 0; 1]].
Definition exdd (rat : bool) : geomdata Q :=
  mk_geomdata rat (if rat then 2 else 3)%Z 1%Z [5%Z] 18%Z [3%Z] [exU] [8%Z] exP.
Example CurveEvaluator_evaluate_ex :
  Evaluators.CurveEvaluator_evaluate Qops (Helpers.find_span_linear Qops) (exdd false) 0 1 =
    GOk (curve_evalpts Qops (lit_10e_8 Qops) 3 3 exU exP 0 1 5)
  /\ curve_evalpts Qops (lit_10e_8 Qops) 3 3 exU exP 0 1 5 =
     [[0; 0; 1]; [3; 5#2; 3#2]; [7#2; -1#2; 1]; [15#2; 3#2; 3#2]; [7; 0; 1]]
  /\ curve_dd (exdd false) 3 exU exP /\ (3 < length exP /\ length exP + 3 <= length exU)%nat.
Proof.
  split; [vm_compute; reflexivity|]. split; [vm_compute; reflexivity|].
  split; [unfold curve_dd; repeat split|unfold exP, exU; simpl; lia].
Qed.
Example CurveEvaluatorRational_evaluate_ex :
  Evaluators.CurveEvaluatorRational_evaluate Qops (Helpers.find_span_linear Qops) (exdd true) 0 1 =
    GOk (map (project Qops) (curve_evalpts Qops (lit_10e_8 Qops) 3 3 exU exP 0 1 5))
  /\ map (project Qops) (curve_evalpts Qops (lit_10e_8 Qops) 3 3 exU exP 0 1 5) =
     [[0; 0]; [2; 5#3]; [7#2; -1#2]; [5; 1]; [7; 0]]
  /\ eval_dim (exdd true) = 3%Z.
Proof. split; [vm_compute; reflexivity|]. split; vm_compute; reflexivity. Qed.
