(* Generic lemmas for the third round of ties (geomdl/evaluators.py): loops whose body is a pure function of the state,
   the accumulation steps  acc[:] = [a + (c * b) for a, b in zip(acc, pt)]  with c read from a table, bounds of
   find_span_linear, sampling over index ranges, the rational projection.  GenTieLib.v / GenTieLib2.v are left untouched. *)
From Coq Require Import List ZArith Arith Bool Lia.
From NV Require Import Scalar.Ops Model.Common Model.Basis Model.Knots Model.Eval Gen.Prelude Gen.PreludeExt
  Proofs.GenTieLib Proofs.GenTieLib2.
Import ListNotations.
Local Open Scope nat_scope.

(* ---- loops whose body is total and pure ---- *)
Lemma gfor_pure {A S} (l : list A) (f : A -> S -> gres S) (g : S -> A -> S) :
  forall s, (forall x s, In x l -> f x s = GOk (g s x)) -> gfor l f s = GOk (fold_left g l s).
Proof.
  induction l; simpl; intros s H; auto.
  rewrite H by auto. simpl. apply IHl. auto.
Qed.

(* `acc.append(g(x))` loops whose body is written with a bind on g x and lets *)
Lemma gfor_append_gen {A B} (l : list A) (f : A -> list B -> gres (list B)) (gm : A -> B) :
  forall acc, (forall x acc, In x l -> f x acc = GOk (acc ++ [gm x])) -> gfor l f acc = GOk (acc ++ map gm l).
Proof.
  induction l; simpl; intros acc H.
  - now rewrite app_nil_r.
  - rewrite H by auto. simpl. rewrite IHl by auto. now rewrite <- app_assoc.
Qed.

(* an outer append loop whose body is itself a loop that appends to the same list (for i: for j: out.append(g i j)) *)
Lemma gfor_append_nested {A B} (l : list A) (f : A -> list B -> gres (list B)) (gm : A -> list B) :
  forall acc, (forall x acc, In x l -> f x acc = GOk (acc ++ gm x)) -> gfor l f acc = GOk (acc ++ flat_map gm l).
Proof.
  induction l; simpl; intros acc H.
  - now rewrite app_nil_r.
  - rewrite H by auto. simpl. rewrite IHl by auto. now rewrite <- app_assoc.
Qed.

(* a pure loop body under an invariant of the state *)
Lemma gfor_pure_inv {A S} (Inv : S -> Prop) (l : list A) (f : A -> S -> gres S) (g : S -> A -> S) :
  forall s, Inv s -> (forall x s, In x l -> Inv s -> f x s = GOk (g s x) /\ Inv (g s x)) ->
  gfor l f s = GOk (fold_left g l s) /\ Inv (fold_left g l s).
Proof.
  induction l; simpl; intros s Hs H; auto.
  destruct (H a s) as [E I]; auto. rewrite E. simpl. apply IHl; auto.
Qed.

(* ---- lists read through their indices ---- *)
Lemma nth_map_lt {A B} (f : A -> B) (l : list A) i d d' : i < length l -> nth i (map f l) d' = f (nth i l d).
Proof. revert i; induction l; intros [|i] H; simpl in *; try lia; auto. apply IHl; lia. Qed.

Lemma map_nth_seq {A B} (f : A -> B) (l : list A) d : map (fun i => f (nth i l d)) (seq 0 (length l)) = map f l.
Proof.
  induction l; simpl; auto. f_equal. rewrite <- seq_shift, map_map. exact IHl.
Qed.

Lemma map_seq_ext {B} (f g : nat -> B) a n : (forall i, a <= i < a + n -> f i = g i) -> map f (seq a n) = map g (seq a n).
Proof. intros H. apply map_ext_in. intros i Hi. apply in_seq in Hi. apply H. lia. Qed.

Lemma flat_map_ext_in {A B} (f g : A -> list B) l : (forall x, In x l -> f x = g x) -> flat_map f l = flat_map g l.
Proof. induction l; simpl; intros H; auto. rewrite H, IHl; auto. Qed.

Lemma flat_map_nth_seq {A B} (f : A -> list B) (l : list A) d : flat_map (fun i => f (nth i l d)) (seq 0 (length l)) = flat_map f l.
Proof.
  induction l; simpl; auto. f_equal. rewrite <- seq_shift, flat_map_concat_map, map_map, <- flat_map_concat_map. exact IHl.
Qed.

(* ---- tables updated in place ---- *)
Lemma upd_nth_id {B} (l : list B) k d : upd l k (nth k l d) = l.
Proof. revert k; induction l; intros [|k]; simpl; auto. now rewrite IHl. Qed.
Lemma upd_upd {B} (l : list B) k x y : upd (upd l k x) k y = upd l k y.
Proof. revert k; induction l; intros [|k]; simpl; auto. now rewrite IHl. Qed.

(* a loop that only rewrites row k of a table:  M[k][:] = step(M[k], x)  for x in l *)
Lemma gfor_row {A B} (d : B) (l : list A) (f : A -> list B -> gres (list B)) (k : nat) (step : B -> A -> B) :
  forall M, k < length M ->
  (forall x M', In x l -> length M' = length M -> f x M' = GOk (upd M' k (step (nth k M' d) x))) ->
  gfor l f M = GOk (upd M k (fold_left step l (nth k M d))).
Proof.
  induction l as [|a l IH]; intros M Hk Hf; simpl.
  - now rewrite upd_nth_id.
  - rewrite Hf by (simpl; auto). simpl.
    rewrite IH.
    + rewrite upd_upd, nth_upd_same by auto. reflexivity.
    + now rewrite upd_length.
    + intros x M' Hx HM'. apply Hf; [simpl; auto|]. now rewrite HM', upd_length.
Qed.

(* the same with an invariant Q of the row (e.g. its length) *)
Lemma gfor_rowQ {A B} (d : B) (Q : B -> Prop) (l : list A) (f : A -> list B -> gres (list B)) (k : nat) (step : B -> A -> B) :
  forall M, k < length M -> Q (nth k M d) -> (forall b x, In x l -> Q b -> Q (step b x)) ->
  (forall x M', In x l -> length M' = length M -> Q (nth k M' d) -> f x M' = GOk (upd M' k (step (nth k M' d) x))) ->
  gfor l f M = GOk (upd M k (fold_left step l (nth k M d))).
Proof.
  induction l as [|a l IH]; intros M Hk HQ Hstep Hf; simpl.
  - now rewrite upd_nth_id.
  - rewrite Hf by (simpl; auto). simpl.
    rewrite IH.
    + rewrite upd_upd, nth_upd_same by auto. reflexivity.
    + now rewrite upd_length.
    + rewrite nth_upd_same by auto. apply Hstep; simpl; auto.
    + intros b x Hx. apply Hstep. simpl; auto.
    + intros x M' Hx HM' HQ'. apply Hf; [simpl; auto| |auto]. now rewrite HM', upd_length.
Qed.

(* a loop over range(n) whose step i replaces entry i of a table and does not depend on the entries before i *)
Lemma gfor_fill {B} (d : B) (f : nat -> list B -> gres (list B)) (g : nat -> B) (M : list B) : forall n, n <= length M ->
  (forall i M', i < n -> length M' = length M -> (forall j, i <= j -> nth j M' d = nth j M d) -> f i M' = GOk (upd M' i (g i))) ->
  gfor (seq 0 n) f M = GOk (map g (seq 0 n) ++ skipn n M).
Proof.
  induction n; intros Hn Hf.
  - reflexivity.
  - rewrite seq_S, gfor_app, IHn by (auto; lia). cbn [gbind gfor plus].
    assert (Lm : length (map g (seq 0 n)) = n) by now rewrite map_length, seq_length.
    rewrite Hf.
    + cbn [gbind]. f_equal. rewrite map_app. cbn [map].
      rewrite <- app_assoc.
      assert (E : skipn n M = nth n M d :: skipn (S n) M).
      { clear - Hn. revert n Hn; induction M; intros [|n] Hn; simpl in *; try lia; auto. apply IHM; lia. }
      assert (U : forall (l : list B) x y r, upd (l ++ x :: r) (length l) y = l ++ y :: r).
      { clear. intros l x y r. induction l as [|a l IHl]; simpl; auto. now rewrite IHl. }
      pose proof (U (map g (seq 0 n)) (nth n M d) (g n) (skipn (S n) M)) as U1. rewrite Lm in U1.
      rewrite E, U1. reflexivity.
    + lia.
    + rewrite app_length, Lm, skipn_length. lia.
    + intros j Hj. rewrite app_nth2 by lia. rewrite Lm, nth_skipn_add. f_equal. lia.
Qed.

(* a loop that only rewrites the cell (k, c) of a table of rows:  M[k][c][:] = step(M[k][c], x)  for x in l *)
Lemma gfor_cell {A B} (d : B) (l : list A) (f : A -> list (list B) -> gres (list (list B))) (k c : nat) (step : B -> A -> B) :
  forall M, k < length M -> c < length (nth k M []) ->
  (forall x M', In x l -> length M' = length M -> length (nth k M' []) = length (nth k M []) ->
     f x M' = GOk (upd M' k (upd (nth k M' []) c (step (nth c (nth k M' []) d) x)))) ->
  gfor l f M = GOk (upd M k (upd (nth k M []) c (fold_left step l (nth c (nth k M []) d)))).
Proof.
  induction l as [|a l IH]; intros M Hk Hc Hf; simpl.
  - now rewrite !upd_nth_id.
  - rewrite Hf by (simpl; auto). simpl.
    rewrite IH.
    + rewrite upd_upd, nth_upd_same by auto. rewrite upd_upd, nth_upd_same by auto. reflexivity.
    + now rewrite upd_length.
    + rewrite nth_upd_same by auto. now rewrite upd_length.
    + intros x M' Hx HM' HM2. rewrite nth_upd_same, upd_length in HM2 by auto. rewrite upd_length in HM'.
      apply Hf; [simpl; auto|auto|auto].
Qed.

(* the pure counterpart of gfor_fill *)
Lemma fold_fill {B} (d : B) (g : nat -> B -> B) (M : list B) : forall n, n <= length M ->
  fold_left (fun row i => upd row i (g i (nth i row d))) (seq 0 n) M = map (fun i => g i (nth i M d)) (seq 0 n) ++ skipn n M.
Proof.
  intros n Hn.
  assert (E1 := gfor_pure (seq 0 n) (fun i row => GOk (upd row i (g i (nth i row d)))) (fun row i => upd row i (g i (nth i row d))) M
                  (fun _ _ _ => eq_refl)).
  assert (E2 := gfor_fill d (fun i row => GOk (upd row i (g i (nth i row d)))) (fun i => g i (nth i M d)) M n Hn).
  rewrite E2 in E1; [now inversion E1|].
  intros i M' _ _ H. now rewrite H.
Qed.

(* rows 0 .. d computed, the others still the initial z *)
Lemma map_if_leb {B} (f : nat -> B) (z : B) (d order : nat) : d <= order ->
  map f (seq 0 (S d)) ++ repeat z (S order - S d) = map (fun k => if Nat.leb k d then f k else z) (seq 0 (S order)).
Proof.
  intros H. replace (S order) with (S d + (order - d)) at 2 by lia.
  rewrite seq_app, map_app. f_equal.
  - apply map_ext_in. intros k Hk. apply in_seq in Hk. destruct (Nat.leb_spec k d); [reflexivity|lia].
  - replace (S order - S d) with (order - d) by lia.
    rewrite <- (seq_length (order - d) (0 + S d)) at 1. rewrite <- map_const_seq by exact (fun x : nat => x).
    apply map_ext_in. intros k Hk. apply in_seq in Hk. destruct (Nat.leb_spec k d); [lia|reflexivity].
Qed.

Lemma upd_app_at {B} (l : list B) x r i v : length l = i -> upd (l ++ x :: r) i v = l ++ v :: r.
Proof. intros <-. induction l as [|a l IHl]; simpl; auto. now rewrite IHl. Qed.

Lemma skipn_repeat {B} (x : B) n m : skipn n (repeat x m) = repeat x (m - n).
Proof. revert m; induction n; intros [|m]; simpl; auto. Qed.

Section S.
Context {T : Type} (K : ops T).

(* ---- [0.0 for _ in range(n)] ---- *)
Lemma zeros_vzero (n : Z) : map (fun _ : Z => o0 K) (zrange 0 n 1) = vzero K (Z.to_nat n).
Proof. apply map_const_zrange. Qed.

(* ---- the accumulation step: the coefficient is read from a table inside the comprehension ---- *)
Lemma axpy_map (c : T) (pt acc : list T) :
  map (fun '(a, b) => oadd K a (omul K c b)) (combine acc pt) = axpy K c pt acc.
Proof. unfold axpy. apply map_ext. intros [a b]. reflexivity. Qed.

Lemma gmapM_axpy1 (row : list T) (j : Z) (cv : T) (acc pt : list T) :
  znth row j = GOk cv ->
  gmapM (fun '(a, b) => do v <- znth row j ;; GOk (oadd K a (omul K v b))) (combine acc pt) = GOk (axpy K cv pt acc).
Proof.
  intros H2. rewrite <- axpy_map.
  apply gmapM_ok. intros [a b] _. rewrite H2. reflexivity.
Qed.

Lemma gmapM_axpy2 (tbl : list (list T)) (i j : Z) (row : list T) (cv : T) (acc pt : list T) :
  znth tbl i = GOk row -> znth row j = GOk cv ->
  gmapM (fun '(a, b) => do r <- znth tbl i ;; do v <- znth r j ;; GOk (oadd K a (omul K v b))) (combine acc pt)
  = GOk (axpy K cv pt acc).
Proof.
  intros H1 H2. rewrite <- axpy_map.
  apply gmapM_ok. intros [a b] _. rewrite H1. cbn [gbind]. rewrite H2. reflexivity.
Qed.

Lemma gmapM_axpy3 (tbl : list (list (list T))) (h i j : Z) (t2 : list (list T)) (row : list T) (cv : T) (acc pt : list T) :
  znth tbl h = GOk t2 -> znth t2 i = GOk row -> znth row j = GOk cv ->
  gmapM (fun '(a, b) => do t <- znth tbl h ;; do r <- znth t i ;; do v <- znth r j ;; GOk (oadd K a (omul K v b))) (combine acc pt)
  = GOk (axpy K cv pt acc).
Proof.
  intros H0 H1 H2. rewrite <- axpy_map.
  apply gmapM_ok. intros [a b] _. rewrite H0. cbn [gbind]. rewrite H1. cbn [gbind]. rewrite H2. reflexivity.
Qed.

(* ---- find_span_linear stays between the degree and the number of control points ---- *)
Lemma lin_aux_bounds (U : list T) (n : nat) (u : T) : forall f span,
  span <= find_span_linear_aux K f U n span u /\ find_span_linear_aux K f U n span u <= Nat.max span n.
Proof.
  induction f; intros span; simpl; [lia|].
  destruct (Nat.ltb_spec span n); cbn [andb]; [|lia].
  destruct (oleb K _ _); [|lia]. specialize (IHf (S span)). lia.
Qed.

Lemma find_span_linear_bounds (p : nat) (U : list T) (n : nat) (u : T) :
  p < n -> p <= Basis.find_span_linear K p U n u < n.
Proof.
  intros H. unfold Basis.find_span_linear. pose proof (lin_aux_bounds U n u n (S p)). lia.
Qed.

Lemma bf_length U sp u : forall q, length (Basis.basis_function K q U sp u) = S q.
Proof.
  assert (Hi : forall j Nold r saved, length (inner K U sp u j r Nold saved) = S (length Nold)).
  { intros j Nold; induction Nold; intros; simpl; auto. }
  induction q; simpl; auto. rewrite Hi. now rewrite IHq.
Qed.

(* ---- the rational projection  [float(c / pt[-1]) for c in pt[0:(dimension - 1)]]  ---- *)
Lemma removelast_firstn_len {A} (l : list A) : removelast l = firstn (length l - 1) l.
Proof.
  induction l as [|a [|b r] IH]; simpl; auto.
  simpl in IH. rewrite IH. now rewrite Nat.sub_0_r.
Qed.

(* pt has dimension coordinates, dimension >= 1 *)
Lemma project_gen (pt : list T) (dimension : Z) :
  Z.of_nat (length pt) = dimension -> pt <> [] ->
  gmapM (fun c => do w <- znth pt (-1) ;; GOk (odiv K c w)) (zslice pt 0 (dimension - 1)) = GOk (project K pt).
Proof.
  intros Hl Hne. unfold project.
  assert (E : zslice pt 0 (dimension - 1) = removelast pt).
  { unfold zslice, zclamp. change (0 <? 0)%Z with false. cbv iota.
    change (Z.to_nat 0) with 0. rewrite Nat.min_0_r. cbn [skipn]. rewrite Nat.sub_0_r.
    destruct (Z.ltb_spec (dimension - 1) 0).
    - destruct pt; [congruence|]. simpl in Hl. lia.
    - rewrite removelast_firstn_len. f_equal. lia. }
  rewrite E. apply gmapM_ok. intros c _. rewrite (znth_last pt (o0 K)) by auto. reflexivity.
Qed.

(* ---- truncation commutes with the zip-based steps ---- *)
Lemma firstn_combine_l {A B} (n : nat) (v : list A) (d : list B) : firstn n (combine v d) = combine (firstn n v) d.
Proof. revert v d; induction n; intros [|a v] [|b d]; simpl; auto. now rewrite IHn. Qed.

Lemma fold_left_firstn {A} (n : nat) (F : list T -> A -> list T) (L : list A) :
  (forall v x, firstn n (F v x) = F (firstn n v) x) ->
  forall v0, firstn n (fold_left F L v0) = fold_left F L (firstn n v0).
Proof. intros HF. induction L; simpl; intros v0; auto. now rewrite IHL, HF. Qed.

Lemma zslice_0 {A} (l : list A) (m : Z) : (0 <= m)%Z -> zslice l 0 m = firstn (Z.to_nat m) l.
Proof.
  intros H. unfold zslice, zclamp. change (0 <? 0)%Z with false. cbv iota.
  change (Z.to_nat 0) with 0. rewrite Nat.min_0_r. cbn [skipn]. rewrite Nat.sub_0_r.
  destruct (Z.ltb_spec m 0); [lia|].
  destruct (Nat.le_gt_cases (length l) (Z.to_nat m)).
  - rewrite Nat.min_l by auto. rewrite !firstn_all2; auto.
  - rewrite Nat.min_r by lia. reflexivity.
Qed.

Lemma axpy_length c pt acc : length (axpy K c pt acc) = Nat.min (length acc) (length pt).
Proof. unfold axpy. now rewrite map_length, combine_length. Qed.
End S.
