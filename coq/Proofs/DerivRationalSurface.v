(* C02, rational surfaces: the array computed by A4.4 (SurfaceEvaluatorRational.derivatives,
   Model.Derivs.rat_surface_derivs applied to the A3.6 output on the homogeneous net Pw) holds the mixed partial
   derivatives of the rational surface  (u,v) |-> A(u,v) / w(u,v)  (EvalR.rational_surface_point_is_quotient: the
   evaluated point of the NURBS surface).  Every requested order, every entry (k,l) of the square, positive weights.

   Ingredients: Proofs/DerivsRatSurfGen.v ([G] A4.4 satisfies the two-variable Leibniz identity), Proofs/LeibnizRule.v
   (the identity determines the partial derivatives of a quotient), Proofs/DerivSurface.v (the homogeneous entries of A3.6
   are the partial derivatives of the homogeneous coordinates), positivity of the weight function (below).
   Written against ders_link and instantiated for degrees 1..5 per direction. *)
From Coq Require Import List Reals Lra Lia Arith Bool.
From NV Require Import Scalar.Ops Model.Common Model.Basis Model.Knots Model.Eval Model.Degree Model.Derivs
  Proofs.Boehm Proofs.BasisR Proofs.DerivAnalytic Proofs.EvalR Proofs.DerivLink Proofs.DerivLinkCurve Proofs.DerivsR
  Proofs.DerivsRatSurf Proofs.DerivsRatSurfGen Proofs.LeibnizRule Proofs.DerivLinkAbs Proofs.DerivRational Proofs.DerivSurface.
Import ListNotations.
Open Scope R_scope.

(* ------------------------------------------------------------------------------------------------ *)
(* the two-variable Leibniz sum in the shapes needed below                                           *)
Lemma leibniz2_ext w w' s s' k l :
  (forall i j, (i <= k)%nat -> (j <= l)%nat -> w i j = w' i j) ->
  (forall i j, (i <= k)%nat -> (j <= l)%nat -> s i j = s' i j) -> leibniz2 w s k l = leibniz2 w' s' k l.
Proof.
  intros Hw Hs. unfold leibniz2. apply lsum_ext. intros i Hi. apply in_seq in Hi.
  apply lsum_ext. intros j Hj. apply in_seq in Hj. rewrite Hw, Hs by lia. reflexivity.
Qed.

Lemma leibniz2_formV w s k l :
  leibniz2 w s k l
  = sumf (fun i => INR (binom k i) * sumf (fun j => INR (binom l j) * w i j * s (k - i)%nat (l - j)%nat) (S l)) (S k).
Proof.
  unfold leibniz2. rewrite lsum_seq_sumf. apply sumf_ext. intros i _. rewrite lsum_seq_sumf.
  rewrite <- sumf_scale. apply sumf_ext. intros j _. cbn [Nat.add]. ring.
Qed.

Lemma leibniz2_formU w s k l :
  leibniz2 w s k l
  = sumf (fun j => INR (binom l j) * sumf (fun i => INR (binom k i) * w i j * s (k - i)%nat (l - j)%nat) (S k)) (S l).
Proof.
  rewrite leibniz2_formV.
  rewrite (sumf_ext _ (fun i => sumf (fun j => INR (binom k i) * INR (binom l j) * w i j * s (k - i)%nat (l - j)%nat) (S l)) (S k)).
  2:{ intros i _. rewrite <- sumf_scale. apply sumf_ext. intros j _. ring. }
  rewrite (sumf_swap (fun i j => INR (binom k i) * INR (binom l j) * w i j * s (k - i)%nat (l - j)%nat) (S k) (S l)).
  apply sumf_ext. intros j _. rewrite <- sumf_scale. apply sumf_ext. intros i _. ring.
Qed.

(* ------------------------------------------------------------------------------------------------ *)
(* [G] the weight function of a surface with positive weights is positive on the whole domain         *)
Theorem surface_weight_function_positive (Uu Uv : list R) (Pw : list (list R)) (pu pv su sv dim : nat) (u v : R) :
  sortedR Uu -> sortedR Uv -> (pu < su)%nat -> (pv < sv)%nat ->
  length Uu = (su + pu + 1)%nat -> length Uv = (sv + pv + 1)%nat ->
  knR Uu pu <= u < knR Uu su -> knR Uv pv <= v < knR Uv sv ->
  (forall i, (i < su * sv)%nat -> 0 < coord Pw i dim) ->
  0 < surface_def Uu Uv pu pv su sv Pw dim u v.
Proof.
  intros Hus Hvs Hpu Hpv HLu HLv Hu Hv Hpos.
  set (g := fun i => sumf (fun j => N (Ufun Uv) pv j v * coord Pw (j + sv * i) dim) sv).
  assert (Hg : forall i, (i < su)%nat -> 0 < g i).
  { intros i Hi. set (Ri := map (fun j => [coord Pw (j + sv * i) dim]) (seq 0 sv)).
    assert (HlR : length Ri = sv) by (unfold Ri; rewrite map_length, seq_length; reflexivity).
    assert (HR : forall j, (j < sv)%nat -> coord Ri j 0 = coord Pw (j + sv * i) dim).
    { intros j Hj. unfold coord at 1, Ri. rewrite nth_map_seq by exact Hj. reflexivity. }
    replace (g i) with (curve_def Uv pv Ri 0 v).
    - apply (rational_weight_function_positive Uv Ri pv 0 v Hvs); rewrite ?HlR; [exact Hpv|exact HLv|exact Hv|].
      intros j Hj. rewrite HR by exact Hj. apply Hpos. nia.
    - unfold curve_def, g. rewrite HlR. apply sumf_ext. intros j Hj. rewrite HR by exact Hj. reflexivity. }
  set (Q := map (fun i => [g i]) (seq 0 su)).
  assert (HlQ : length Q = su) by (unfold Q; rewrite map_length, seq_length; reflexivity).
  assert (HQ : forall i, (i < su)%nat -> coord Q i 0 = g i).
  { intros i Hi. unfold coord, Q. rewrite nth_map_seq by exact Hi. reflexivity. }
  replace (surface_def Uu Uv pu pv su sv Pw dim u v) with (curve_def Uu pu Q 0 u).
  - apply (rational_weight_function_positive Uu Q pu 0 u Hus); rewrite ?HlQ; [exact Hpu|exact HLu|exact Hu|].
    intros i Hi. rewrite HQ by exact Hi. apply Hg, Hi.
  - unfold curve_def, surface_def. rewrite HlQ. apply sumf_ext. intros i Hi. rewrite HQ by exact Hi.
    unfold g. rewrite <- sumf_scale. apply sumf_ext. intros j _. ring.
Qed.

(* ------------------------------------------------------------------------------------------------ *)
Section RatSurf.
Variables (Uu Uv : list R) (Pw : list (list R)) (pu pv su sv dim : nat).
Hypothesis Husorted : sortedR Uu.
Hypothesis Hvsorted : sortedR Uv.
Hypothesis Hwf : wf_net Pw (S dim).                  (* homogeneous control points (x*w, y*w, .., w) *)
Hypothesis HLP : length Pw = (su * sv)%nat.
Hypothesis Hlku : ders_link pu.
Hypothesis Hlkv : ders_link pv.
Hypothesis Hpu : (pu < su)%nat.
Hypothesis Hpv : (pv < sv)%nat.
Hypothesis HLu : length Uu = (su + pu + 1)%nat.
Hypothesis HLv : length Uv = (sv + pv + 1)%nat.
Hypothesis Hpos : forall i, (i < su * sv)%nat -> 0 < coord Pw i dim.   (* positive weights *)
Variable order : nat.

Notation SKLw u v := (surface_derivs Rops (S dim) pu pv Uu Uv su sv Pw u v order).
(* coordinate d of the (k,l) entry returned by A4.4 at (u,v) *)
Notation rS d k l u v := (nth d (get3 (rat_surface_derivs Rops (S dim) (SKLw u v) order) k l) 0).
Notation dkl k l d u v := (surface_dkl Uu Uv pu pv su sv Pw k l d u v).

Let w00_pos u v : knR Uu pu <= u < knR Uu su -> knR Uv pv <= v < knR Uv sv -> dkl 0 0 dim u v <> 0.
Proof.
  intros Hu Hv. rewrite surface_dkl_00.
  pose proof (surface_weight_function_positive Uu Uv Pw pu pv su sv dim u v Husorted Hvsorted Hpu Hpv HLu HLv Hu Hv Hpos). lra.
Qed.

(* A4.4's output satisfies the two-variable Leibniz recursion against the Eq. 2.9 tensor derivatives of the homogeneous coordinates *)
Lemma rat_surface_derivs_recursion_of_link u v k l d :
  knR Uu pu <= u < knR Uu su -> knR Uv pv <= v < knR Uv sv -> (k <= order)%nat -> (l <= order)%nat -> (d < dim)%nat ->
  leibniz2 (fun i j => dkl i j dim u v) (fun i j => rS d i j u v) k l = dkl k l d u v.
Proof.
  intros Hu Hv Hk Hl Hd.
  pose proof (fun a b => surface_derivs_is_dN_tensor_of_link Uu Uv Pw pu pv su sv (S dim) Husorted Hvsorted Hwf HLP Hlku Hlkv
                           Hpu Hpv HLu HLv u v order a b Hu Hv) as HT.
  assert (HLw : forall a b, (a <= order)%nat -> (b <= order)%nat -> length (get3 (SKLw u v) a b) = S dim).
  { intros a b Ha Hb. apply (HT a b Ha Hb). }
  assert (HW : forall a b, (a <= order)%nat -> (b <= order)%nat -> W2 (SKLw u v) a b = dkl a b dim u v).
  { intros a b Ha Hb. unfold W2. rewrite (vlast_nth _ dim) by (apply HLw; assumption). apply (HT a b Ha Hb). lia. }
  assert (Hw00 : W2 (SKLw u v) 0 0 <> 0) by (rewrite HW by lia; apply w00_pos; assumption).
  destruct (rat_surface_derivs_leibniz_gen (SKLw u v) dim order d Hd HLw Hw00 k l Hk Hl) as [_ E].
  unfold A2 in E. rewrite removelast_nth in E by (rewrite HLw by assumption; lia).
  rewrite (proj2 (HT k l Hk Hl) d ltac:(lia)) in E. rewrite <- E.
  apply leibniz2_ext; intros i j Hi Hj; [symmetry; apply HW; lia|reflexivity].
Qed.

(* order (0,0) is the evaluated point of the NURBS surface *)
Theorem rat_surface_derivs_order0_is_point_of_link u v d :
  knR Uu pu <= u < knR Uu su -> knR Uv pv <= v < knR Uv sv -> (d < dim)%nat ->
  rS d 0 0 u v = nth d (obj_surface_point Rops true dim pu pv Uu Uv su sv Pw (u, v)) 0.
Proof.
  intros Hu Hv Hd.
  rewrite (rational_surface_point_is_quotient Uu Uv Pw pu pv su sv dim u v Husorted Hvsorted Hwf HLP Hpu Hpv HLu HLv Hu Hv d Hd).
  pose proof (rat_surface_derivs_recursion_of_link u v 0 0 d Hu Hv ltac:(lia) ltac:(lia) Hd) as E.
  unfold leibniz2 in E. cbn [seq lsum binom INR Nat.sub] in E. rewrite !surface_dkl_00 in E.
  pose proof (w00_pos u v Hu Hv) as Hw. rewrite surface_dkl_00 in Hw.
  rewrite <- E. field. exact Hw.
Qed.

Section SpanU.
Variable tu : nat.
Hypothesis Htu : (pu <= tu < su)%nat.
Let Eu : Ufun Uu tu = knR Uu tu. Proof. apply Ufun_in. lia. Qed.
Let Eu1 : Ufun Uu (S tu) = knR Uu (tu + 1). Proof. rewrite Ufun_in by lia. f_equal. lia. Qed.
Let domu x : knR Uu tu <= x < knR Uu (tu + 1) -> knR Uu pu <= x < knR Uu su.
Proof. apply span_in_domain; [exact Husorted|exact Htu|lia]. Qed.

(* d/du of the (k,l) entry is the (k+1,l) entry: v anywhere in the v-domain, u strictly inside a u-span *)
Theorem rat_surface_derivs_partial_u_of_link k l d u v : (S k <= order)%nat -> (l <= order)%nat -> (d < dim)%nat ->
  knR Uu tu < u < knR Uu (tu + 1) -> knR Uv pv <= v < knR Uv sv ->
  derivable_pt_lim (fun x => rS d k l x v) u (rS d (S k) l u v).
Proof.
  intros Hk Hl Hd Hu Hv.
  apply (quotient2_derivatives_unique (knR Uu tu) (knR Uu (tu + 1)) order
           (fun i j x => dkl i j d x v) (fun i j x => dkl i j dim x v) (fun i j x => rS d i j x v)).
  - intros i j x _ _ Hx. apply (surface_dkl_du Uu Uv pu pv su sv Pw Husorted tu). rewrite Eu, Eu1. exact Hx.
  - intros i j x _ _ Hx. apply (surface_dkl_du Uu Uv pu pv su sv Pw Husorted tu). rewrite Eu, Eu1. exact Hx.
  - intros x Hx. apply w00_pos; [apply domu; lra|exact Hv].
  - intros i j x Hi Hj Hx.
    rewrite <- (leibniz2_formU (fun a b => dkl a b dim x v) (fun a b => rS d a b x v) i j).
    apply rat_surface_derivs_recursion_of_link; try assumption. apply domu; lra.
  - lia.
  - exact Hl.
  - exact Hu.
Qed.

Theorem rat_surface_derivs_partial_u_right_of_link k l d u v : (S k <= order)%nat -> (l <= order)%nat -> (d < dim)%nat ->
  knR Uu tu <= u < knR Uu (tu + 1) -> knR Uv pv <= v < knR Uv sv ->
  right_derivable_pt_lim (fun x => rS d k l x v) u (rS d (S k) l u v).
Proof.
  intros Hk Hl Hd Hu Hv.
  apply (quotient2_right_derivatives_unique (knR Uu tu) (knR Uu (tu + 1)) order
           (fun i j x => dkl i j d x v) (fun i j x => dkl i j dim x v) (fun i j x => rS d i j x v)).
  - intros i j x _ _ Hx. apply (surface_dkl_du_right Uu Uv pu pv su sv Pw Husorted tu). rewrite Eu, Eu1. exact Hx.
  - intros i j x _ _ Hx. apply (surface_dkl_du_right Uu Uv pu pv su sv Pw Husorted tu). rewrite Eu, Eu1. exact Hx.
  - intros x Hx. apply w00_pos; [apply domu; exact Hx|exact Hv].
  - intros i j x Hi Hj Hx.
    rewrite <- (leibniz2_formU (fun a b => dkl a b dim x v) (fun a b => rS d a b x v) i j).
    apply rat_surface_derivs_recursion_of_link; try assumption. apply domu; exact Hx.
  - lia.
  - exact Hl.
  - exact Hu.
Qed.
End SpanU.

Section SpanV.
Variable tv : nat.
Hypothesis Htv : (pv <= tv < sv)%nat.
Let Ev : Ufun Uv tv = knR Uv tv. Proof. apply Ufun_in. lia. Qed.
Let Ev1 : Ufun Uv (S tv) = knR Uv (tv + 1). Proof. rewrite Ufun_in by lia. f_equal. lia. Qed.
Let domv y : knR Uv tv <= y < knR Uv (tv + 1) -> knR Uv pv <= y < knR Uv sv.
Proof. apply span_in_domain; [exact Hvsorted|exact Htv|lia]. Qed.

(* d/dv of the (k,l) entry is the (k,l+1) entry *)
Theorem rat_surface_derivs_partial_v_of_link k l d u v : (k <= order)%nat -> (S l <= order)%nat -> (d < dim)%nat ->
  knR Uu pu <= u < knR Uu su -> knR Uv tv < v < knR Uv (tv + 1) ->
  derivable_pt_lim (fun y => rS d k l u y) v (rS d k (S l) u v).
Proof.
  intros Hk Hl Hd Hu Hv.
  apply (fun H1 H2 H3 H4 => quotient2_derivatives_unique (knR Uv tv) (knR Uv (tv + 1)) order
           (fun j i y => dkl i j d u y) (fun j i y => dkl i j dim u y) (fun j i y => rS d i j u y) H1 H2 H3 H4 l k v).
  - intros j i y _ _ Hy. apply (surface_dkl_dv Uu Uv pu pv su sv Pw Hvsorted tv). rewrite Ev, Ev1. exact Hy.
  - intros j i y _ _ Hy. apply (surface_dkl_dv Uu Uv pu pv su sv Pw Hvsorted tv). rewrite Ev, Ev1. exact Hy.
  - intros y Hy. apply w00_pos; [exact Hu|apply domv; lra].
  - intros j i y Hj Hi Hy.
    rewrite <- (leibniz2_formV (fun a b => dkl a b dim u y) (fun a b => rS d a b u y) i j).
    apply rat_surface_derivs_recursion_of_link; try assumption. apply domv; lra.
  - lia.
  - exact Hk.
  - exact Hv.
Qed.

Theorem rat_surface_derivs_partial_v_right_of_link k l d u v : (k <= order)%nat -> (S l <= order)%nat -> (d < dim)%nat ->
  knR Uu pu <= u < knR Uu su -> knR Uv tv <= v < knR Uv (tv + 1) ->
  right_derivable_pt_lim (fun y => rS d k l u y) v (rS d k (S l) u v).
Proof.
  intros Hk Hl Hd Hu Hv.
  apply (fun H1 H2 H3 H4 => quotient2_right_derivatives_unique (knR Uv tv) (knR Uv (tv + 1)) order
           (fun j i y => dkl i j d u y) (fun j i y => dkl i j dim u y) (fun j i y => rS d i j u y) H1 H2 H3 H4 l k v).
  - intros j i y _ _ Hy. apply (surface_dkl_dv_right Uu Uv pu pv su sv Pw Hvsorted tv). rewrite Ev, Ev1. exact Hy.
  - intros j i y _ _ Hy. apply (surface_dkl_dv_right Uu Uv pu pv su sv Pw Hvsorted tv). rewrite Ev, Ev1. exact Hy.
  - intros y Hy. apply w00_pos; [exact Hu|apply domv; exact Hy].
  - intros j i y Hj Hi Hy.
    rewrite <- (leibniz2_formV (fun a b => dkl a b dim u y) (fun a b => rS d a b u y) i j).
    apply rat_surface_derivs_recursion_of_link; try assumption. apply domv; exact Hy.
  - lia.
  - exact Hk.
  - exact Hv.
Qed.
End SpanV.

Section SpanUV.
Variables tu tv : nat.
Hypothesis Htu : (pu <= tu < su)%nat.
Hypothesis Htv : (pv <= tv < sv)%nat.
Let domu x : knR Uu tu <= x < knR Uu (tu + 1) -> knR Uu pu <= x < knR Uu su.
Proof. apply span_in_domain; [exact Husorted|exact Htu|lia]. Qed.
Let domv y : knR Uv tv <= y < knR Uv (tv + 1) -> knR Uv pv <= y < knR Uv sv.
Proof. apply span_in_domain; [exact Hvsorted|exact Htv|lia]. Qed.

(* MAIN: the (k,l) entry is obtained from the rational surface coordinate A_d / w by k derivations in u (v fixed)
   followed by l derivations in v (u fixed); by the theorems above the order of the derivations does not matter *)
Theorem rat_surface_derivs_are_mixed_partials_of_link k l d : (k <= order)%nat -> (l <= order)%nat -> (d < dim)%nat ->
  (forall v, knR Uv pv <= v < knR Uv sv ->
     kth_deriv_on (knR Uu tu) (knR Uu (tu + 1)) k
       (fun x => surface_def Uu Uv pu pv su sv Pw d x v / surface_def Uu Uv pu pv su sv Pw dim x v)
       (fun x => rS d k 0 x v)) /\
  (forall u, knR Uu pu <= u < knR Uu su ->
     kth_deriv_on (knR Uv tv) (knR Uv (tv + 1)) l (fun y => rS d k 0 u y) (fun y => rS d k l u y)).
Proof.
  intros Hk Hl Hd. split.
  - intros v Hv. clear Hl. induction k as [|k IH]; cbn [kth_deriv_on].
    + intros x Hx. assert (Hxd : knR Uu pu <= x < knR Uu su) by (apply domu; lra).
      pose proof (rat_surface_derivs_recursion_of_link x v 0 0 d Hxd Hv ltac:(lia) ltac:(lia) Hd) as E.
      unfold leibniz2 in E. cbn [seq lsum binom INR Nat.sub] in E. rewrite !surface_dkl_00 in E.
      pose proof (w00_pos x v Hxd Hv) as Hw. rewrite surface_dkl_00 in Hw.
      rewrite <- E. field. exact Hw.
    + exists (fun x => rS d k 0 x v). split; [apply IH; lia|].
      intros x Hx. apply (rat_surface_derivs_partial_u_of_link tu Htu); try assumption; lia.
  - intros u Hu. induction l as [|l IH]; cbn [kth_deriv_on].
    + intros y _. reflexivity.
    + exists (fun y => rS d k l u y). split; [apply IH; lia|].
      intros y Hy. apply (rat_surface_derivs_partial_v_of_link tv Htv); try assumption; lia.
Qed.

(* tangents of the NURBS surface: the (1,0) and (0,1) entries are the partial derivatives of the evaluated point *)
Corollary rat_surface_tangents_are_partials_of_point_of_link d u v : (1 <= order)%nat -> (d < dim)%nat ->
  knR Uu tu < u < knR Uu (tu + 1) -> knR Uv tv < v < knR Uv (tv + 1) ->
  derivable_pt_lim (fun x => nth d (obj_surface_point Rops true dim pu pv Uu Uv su sv Pw (x, v)) 0) u (rS d 1 0 u v) /\
  derivable_pt_lim (fun y => nth d (obj_surface_point Rops true dim pu pv Uu Uv su sv Pw (u, y)) 0) v (rS d 0 1 u v).
Proof.
  intros Ho Hd Hu Hv. split.
  - apply (dl_local (fun x => rS d 0 0 x v) _ (knR Uu tu) (knR Uu (tu + 1))); [exact Hu| |].
    + intros y Hy. apply rat_surface_derivs_order0_is_point_of_link; [apply domu; lra|apply domv; lra|exact Hd].
    + apply (rat_surface_derivs_partial_u_of_link tu Htu); try assumption; try lia. apply domv; lra.
  - apply (dl_local (fun y => rS d 0 0 u y) _ (knR Uv tv) (knR Uv (tv + 1))); [exact Hv| |].
    + intros y Hy. apply rat_surface_derivs_order0_is_point_of_link; [apply domu; lra|apply domv; lra|exact Hd].
    + apply (rat_surface_derivs_partial_v_of_link tv Htv); try assumption; try lia. apply domu; lra.
Qed.
End SpanUV.

(* object level: NURBS.Surface.derivatives with the default evaluator returns exactly this array *)
Lemma Surface_derivatives_rational_unfold normalize u v SKL :
  Surface_derivatives Rops normalize true false (S dim) pu pv Uu Uv su sv Pw u v order = Ok SKL ->
  SKL = rat_surface_derivs Rops (S dim) (SKLw u v) order.
Proof.
  unfold Surface_derivatives. destruct (andb normalize _); [discriminate|]. intros E. injection E as <-. reflexivity.
Qed.
End RatSurf.

(* ------------------------------------------------------------------------------------------------ *)
(* [B: degrees 1..5 per direction] instances                                                         *)
Section Deg5.
Variables (Uu Uv : list R) (Pw : list (list R)) (pu pv su sv dim : nat).
Hypothesis Husorted : sortedR Uu.
Hypothesis Hvsorted : sortedR Uv.
Hypothesis Hwf : wf_net Pw (S dim).
Hypothesis HLP : length Pw = (su * sv)%nat.
Hypothesis Hpu5 : (1 <= pu <= 5)%nat.
Hypothesis Hpv5 : (1 <= pv <= 5)%nat.
Hypothesis Hpu : (pu < su)%nat.
Hypothesis Hpv : (pv < sv)%nat.
Hypothesis HLu : length Uu = (su + pu + 1)%nat.
Hypothesis HLv : length Uv = (sv + pv + 1)%nat.
Hypothesis Hpos : forall i, (i < su * sv)%nat -> 0 < coord Pw i dim.
Variable order : nat.
Notation rS d k l u v := (nth d (get3 (rat_surface_derivs Rops (S dim) (surface_derivs Rops (S dim) pu pv Uu Uv su sv Pw u v order) order) k l) 0).
Let Hlku := ders_link_deg_le_5 pu Hpu5.
Let Hlkv := ders_link_deg_le_5 pv Hpv5.

Theorem rat_surface_derivs_order0_is_point_deg_le_5 u v d :
  knR Uu pu <= u < knR Uu su -> knR Uv pv <= v < knR Uv sv -> (d < dim)%nat ->
  rS d 0 0 u v = nth d (obj_surface_point Rops true dim pu pv Uu Uv su sv Pw (u, v)) 0.
Proof. exact (rat_surface_derivs_order0_is_point_of_link Uu Uv Pw pu pv su sv dim Husorted Hvsorted Hwf HLP Hlku Hlkv Hpu Hpv HLu HLv Hpos order u v d). Qed.

Section Spans5.
Variables tu tv : nat.
Hypothesis Htu : (pu <= tu < su)%nat.
Hypothesis Htv : (pv <= tv < sv)%nat.

Theorem rat_surface_derivs_partial_u_deg_le_5 k l d u v : (S k <= order)%nat -> (l <= order)%nat -> (d < dim)%nat ->
  knR Uu tu < u < knR Uu (tu + 1) -> knR Uv pv <= v < knR Uv sv ->
  derivable_pt_lim (fun x => rS d k l x v) u (rS d (S k) l u v).
Proof. exact (rat_surface_derivs_partial_u_of_link Uu Uv Pw pu pv su sv dim Husorted Hvsorted Hwf HLP Hlku Hlkv Hpu Hpv HLu HLv Hpos order tu Htu k l d u v). Qed.

Theorem rat_surface_derivs_partial_v_deg_le_5 k l d u v : (k <= order)%nat -> (S l <= order)%nat -> (d < dim)%nat ->
  knR Uu pu <= u < knR Uu su -> knR Uv tv < v < knR Uv (tv + 1) ->
  derivable_pt_lim (fun y => rS d k l u y) v (rS d k (S l) u v).
Proof. exact (rat_surface_derivs_partial_v_of_link Uu Uv Pw pu pv su sv dim Husorted Hvsorted Hwf HLP Hlku Hlkv Hpu Hpv HLu HLv Hpos order tv Htv k l d u v). Qed.

Theorem rat_surface_derivs_partial_u_right_deg_le_5 k l d u v : (S k <= order)%nat -> (l <= order)%nat -> (d < dim)%nat ->
  knR Uu tu <= u < knR Uu (tu + 1) -> knR Uv pv <= v < knR Uv sv ->
  right_derivable_pt_lim (fun x => rS d k l x v) u (rS d (S k) l u v).
Proof. exact (rat_surface_derivs_partial_u_right_of_link Uu Uv Pw pu pv su sv dim Husorted Hvsorted Hwf HLP Hlku Hlkv Hpu Hpv HLu HLv Hpos order tu Htu k l d u v). Qed.

Theorem rat_surface_derivs_partial_v_right_deg_le_5 k l d u v : (k <= order)%nat -> (S l <= order)%nat -> (d < dim)%nat ->
  knR Uu pu <= u < knR Uu su -> knR Uv tv <= v < knR Uv (tv + 1) ->
  right_derivable_pt_lim (fun y => rS d k l u y) v (rS d k (S l) u v).
Proof. exact (rat_surface_derivs_partial_v_right_of_link Uu Uv Pw pu pv su sv dim Husorted Hvsorted Hwf HLP Hlku Hlkv Hpu Hpv HLu HLv Hpos order tv Htv k l d u v). Qed.

Theorem rat_surface_derivs_are_mixed_partials_deg_le_5 k l d : (k <= order)%nat -> (l <= order)%nat -> (d < dim)%nat ->
  (forall v, knR Uv pv <= v < knR Uv sv ->
     kth_deriv_on (knR Uu tu) (knR Uu (tu + 1)) k
       (fun x => surface_def Uu Uv pu pv su sv Pw d x v / surface_def Uu Uv pu pv su sv Pw dim x v)
       (fun x => rS d k 0 x v)) /\
  (forall u, knR Uu pu <= u < knR Uu su ->
     kth_deriv_on (knR Uv tv) (knR Uv (tv + 1)) l (fun y => rS d k 0 u y) (fun y => rS d k l u y)).
Proof. exact (rat_surface_derivs_are_mixed_partials_of_link Uu Uv Pw pu pv su sv dim Husorted Hvsorted Hwf HLP Hlku Hlkv Hpu Hpv HLu HLv Hpos order tu tv Htu Htv k l d). Qed.

Theorem rat_surface_tangents_are_partials_of_point_deg_le_5 d u v : (1 <= order)%nat -> (d < dim)%nat ->
  knR Uu tu < u < knR Uu (tu + 1) -> knR Uv tv < v < knR Uv (tv + 1) ->
  derivable_pt_lim (fun x => nth d (obj_surface_point Rops true dim pu pv Uu Uv su sv Pw (x, v)) 0) u (rS d 1 0 u v) /\
  derivable_pt_lim (fun y => nth d (obj_surface_point Rops true dim pu pv Uu Uv su sv Pw (u, y)) 0) v (rS d 0 1 u v).
Proof. exact (rat_surface_tangents_are_partials_of_point_of_link Uu Uv Pw pu pv su sv dim Husorted Hvsorted Hwf HLP Hlku Hlkv Hpu Hpv HLu HLv Hpos order tu tv Htu Htv d u v). Qed.
End Spans5.
End Deg5.

Check surface_weight_function_positive.
Check rat_surface_derivs_recursion_of_link.
Check rat_surface_derivs_order0_is_point_deg_le_5.
Check rat_surface_derivs_partial_u_deg_le_5.
Check rat_surface_derivs_partial_v_deg_le_5.
Check rat_surface_derivs_partial_u_right_deg_le_5.
Check rat_surface_derivs_partial_v_right_deg_le_5.
Check rat_surface_derivs_are_mixed_partials_deg_le_5.
Check rat_surface_tangents_are_partials_of_point_deg_le_5.
Check Surface_derivatives_rational_unfold.

Print Assumptions surface_weight_function_positive.
Print Assumptions rat_surface_derivs_order0_is_point_deg_le_5.
Print Assumptions rat_surface_derivs_partial_u_deg_le_5.
Print Assumptions rat_surface_derivs_partial_v_deg_le_5.
Print Assumptions rat_surface_derivs_partial_u_right_deg_le_5.
Print Assumptions rat_surface_derivs_partial_v_right_deg_le_5.
Print Assumptions rat_surface_derivs_are_mixed_partials_deg_le_5.
Print Assumptions rat_surface_tangents_are_partials_of_point_deg_le_5.
