(* Tie: generated evaluators.SurfaceEvaluator2.derivatives (A3.8: basis_function_all in both directions + the derivative control
   points of A3.7)  =  Model/Derivs.v surface_derivs2, for every scalar instance.  No law of the scalar operations is used. *)
From Coq Require Import List ZArith Arith Bool Lia QArith.
From NV Require Import Scalar.Ops Model.Common Model.Basis Model.Knots Model.Eval Model.Degree Model.Derivs
  Gen.Prelude Gen.PreludeExt Gen.Linalg Gen.Helpers Gen.HelpersB Gen.HelpersC Gen.Evaluators
  Proofs.GenTieLib Proofs.GenTieLib2 Proofs.GenTieKnots Proofs.GenTieSpan Proofs.GenTieBasis Proofs.GenTieArr4
  Proofs.GenTieDerivSurfShape
  Proofs.GenTieEvalLib Proofs.GenTieEvalCurve Proofs.GenTieBasisAll Proofs.GenTieEvalDerivCurve Proofs.GenTieEvalDerivCurve2
  Proofs.GenTieEvalDerivSurf.
Import ListNotations.
Local Open Scope nat_scope.

Section Tie.
Context {T : Type} (K : ops T).

(* acc[:] = [a + (tbl[j][i] * b) for a, b in zip(acc, pt)] where tbl[j][i] is a None-or-float slot and pt a list of floats *)
Lemma gmapM_axpy_opt1 (tbl : list (list (option T))) (j i : Z) (row : list (option T)) (cv : T) (acc pt : list T) :
  znth tbl j = GOk row -> znth row i = GOk (Some cv) ->
  gmapM (fun '(a, b) => do r <- znth tbl j ;; do v <- znth r i ;; do v' <- py_unopt v ;;
                         GOk (oadd K a (omul K v' b))) (combine acc pt) = GOk (axpy K cv pt acc).
Proof.
  intros H1 H2. rewrite <- axpy_map.
  apply gmapM_ok. intros [a b] _. rewrite H1. cbn [gbind]. rewrite H2. reflexivity.
Qed.

Lemma znth_inj_bfall (p : nat) (M : list (list T)) (j i : nat) : j <= i -> i <= p ->
  znth (inj_bfall K p M) (Z.of_nat j) = GOk (nth j (inj_bfall K p M) []) /\
  znth (nth j (inj_bfall K p M) []) (Z.of_nat i) = GOk (Some (bfall_get K M j i)).
Proof.
  intros Hji Hip. split.
  - apply znth_nat. unfold inj_bfall. rewrite map_length, seq_length. lia.
  - rewrite (znth_nat _ i None).
    + rewrite nth_inj_bfall by lia. destruct (Nat.leb_spec j i); [reflexivity|lia].
    + unfold inj_bfall. rewrite (nth_map_lt _ _ j 0) by (rewrite seq_length; lia). rewrite map_length, seq_length. lia.
Qed.

(* wf: as for derivatives; in addition dimension >= 0 (the None placeholders of surface_deriv_cpts are counted with it) *)
Theorem SurfaceEvaluator2_derivatives_tie_gen (func : Z -> list T -> Z -> T -> gres Z) (dd : geomdata T)
    (pu pv : nat) (Uu Uv : list T) (su sv : nat) (P : list (list T)) (u v : T) (order : nat) :
  surf_dd' dd pu pv Uu Uv su sv P ->
  pu < su -> su + pu <= length Uu -> pv < sv -> sv + pv <= length Uv -> su * sv <= length P -> (0 <= eval_dim dd)%Z ->
  func (Z.of_nat pu) Uu (Z.of_nat su) u = GOk (Z.of_nat (Basis.find_span_linear K pu Uu su u)) ->
  func (Z.of_nat pv) Uv (Z.of_nat sv) v = GOk (Z.of_nat (Basis.find_span_linear K pv Uv sv v)) ->
  Evaluators.SurfaceEvaluator2_derivatives K func dd [u; v] (Z.of_nat order) =
  GOk (surface_derivs2 K (Z.to_nat (eval_dim dd)) pu pv Uu Uv su sv P u v order).
Proof.
  intros (Hd & Hk & Hs & Hpd & Hc) Hpu Hlu Hpv Hlv HP Hdim Hfu Hfv.
  unfold Evaluators.SurfaceEvaluator2_derivatives. cbv zeta. fold (eval_dim dd).
  rewrite Hd, Hk, Hs, Hpd, Hc.
  change (zrange 0 2 1) with [0%Z; 1%Z]. cbn [map gfor].
  rewrite !znth_0, !znth_pair1. cbn [gbind].
  rewrite !zmin_nat. unfold surface_derivs2.
  set (d0 := Nat.min pu order). set (d1 := Nat.min pv order).
  set (spu := Basis.find_span_linear K pu Uu su u). set (spv := Basis.find_span_linear K pv Uv sv v).
  set (dim := Z.to_nat (eval_dim dd)).
  assert (Bu : pu <= spu < su) by (apply find_span_linear_bounds; exact Hpu).
  assert (Bv : pv <= spv < sv) by (apply find_span_linear_bounds; exact Hpv).
  rewrite Hfu. cbn [gbind]. rewrite zset_pair0. cbn [gbind]. rewrite !znth_0. cbn [gbind]. fold spu.
  rewrite basis_function_all_tie by lia. cbn [gbind]. rewrite zset_pair0. cbn [gbind].
  rewrite Hfv. cbn [gbind]. rewrite zset_pair1. cbn [gbind]. rewrite !znth_pair1. cbn [gbind]. fold spv.
  rewrite basis_function_all_tie by lia. cbn [gbind]. rewrite zset_pair1. cbn [gbind].
  rewrite ?znth_0, ?znth_pair1. cbn [gbind].
  set (allu := Basis.basis_function_all K pu Uu spu u). set (allv := Basis.basis_function_all K pv Uv spv v).
  replace (Z.of_nat spu - Z.of_nat pu)%Z with (Z.of_nat (spu - pu)) by lia.
  replace (Z.of_nat spv - Z.of_nat pv)%Z with (Z.of_nat (spv - pv)) by lia.
  destruct (surface_deriv_cpts_tie_shape K dim pu pv Uu Uv P su sv (spu - pu) spu (spv - pv) spv order)
    as (PKL & EP & WP & HPKL); try lia.
  replace (Z.of_nat dim) with (eval_dim dd) in EP by (unfold dim; lia).
  rewrite EP. cbn [gbind]. rewrite ?znth_0, ?znth_pair1. cbn [gbind].
  set (PKLm := Derivs.surface_deriv_cpts K pu pv Uu Uv P su sv (spu - pu) spu (spv - pv) spv order) in *.
  replace (spu - (spu - pu)) with pu in HPKL by lia. replace (spv - (spv - pv)) with pv in HPKL by lia. fold d0 d1 in HPKL.
  replace (Z.of_nat order + 1)%Z with (Z.of_nat (S order)) by lia.
  replace (Z.of_nat d0 + 1)%Z with (Z.of_nat (S d0)) by lia.
  rewrite zeros_vzero. fold dim. rewrite !map_const_zrange, !Nat2Z.id, !zrange_0_nat.
  set (z := vzero K dim).
  set (X := fun k l => fold_left (fun acc i =>
          axpy K (bfall_get K allv i (pv - l))
            (fold_left (fun t j => axpy K (bfall_get K allu j (pu - k)) (pkl_get PKLm k l j i) t) (seq 0 (S (pu - k))) z) acc)
          (seq 0 (S (pv - l))) z).
  rewrite gfor_map.
  rewrite (gfor_fill [] _ (fun k => map (fun l => if Nat.leb l (Nat.min (order - k) d1) then X k l else z) (seq 0 (S order)))).
  - cbn [gbind]. f_equal. rewrite skipn_repeat.
    rewrite (map_if_leb _ (repeat z (S order)) d0 order) by (unfold d0; lia).
    apply map_seq_ext. intros k Hk_. destruct (Nat.leb_spec k d0); cbn [andb].
    + reflexivity.
    + rewrite (map_const_seq z (fun x : nat => x)), seq_length. reflexivity.
  - rewrite repeat_length. unfold d0. lia.
  - intros k SKL Hk_ HL Hrest. rewrite repeat_length in HL.
    assert (Hk0 : k <= d0) by lia.
    replace (Z.of_nat order - Z.of_nat k)%Z with (Z.of_nat (order - k)) by lia. rewrite zmin_nat.
    set (ddk := Nat.min (order - k) d1).
    replace (Z.of_nat ddk + 1)%Z with (Z.of_nat (S ddk)) by lia. rewrite zrange_0_nat, gfor_map.
    assert (Hdd : ddk <= order) by (unfold ddk; lia).
    rewrite (gfor_rowQ [] (fun row => length row = S order) _ _ k (fun row l => upd row l (X k l))).
    + cbn [gbind]. f_equal. f_equal. rewrite Hrest by lia. rewrite nth_repeat_lt by (unfold d0 in *; lia).
      rewrite (fold_fill [] (fun l _ => X k l)) by (rewrite repeat_length; lia).
      rewrite skipn_repeat. apply map_if_leb. exact Hdd.
    + unfold d0 in *. lia.
    + rewrite Hrest by lia. rewrite nth_repeat_lt by (unfold d0 in *; lia). apply repeat_length.
    + intros b l _ Hb. now rewrite upd_length.
    + intros l M' Hl_ HM' HQ. apply in_seq in Hl_. cbn [plus] in Hl_.
      assert (Hl1 : l <= d1) by (unfold ddk in *; lia). assert (Hlp : l <= pv) by (unfold d1 in *; lia).
      assert (Hkp : k <= pu) by (unfold d0 in *; lia).
      rewrite (znth_nat M' k []) by (unfold d0 in *; lia). cbn [gbind].
      rewrite zset_nat by lia. cbn [gbind]. rewrite zset_nat by (unfold d0 in *; lia). cbn [gbind].
      replace (Z.of_nat pv - Z.of_nat l + 1)%Z with (Z.of_nat (S (pv - l))) by lia.
      replace (Z.of_nat pu - Z.of_nat k + 1)%Z with (Z.of_nat (S (pu - k))) by lia.
      rewrite !zrange_0_nat, gfor_map.
      set (M1 := upd M' k (upd (nth k M' []) l z)).
      assert (L1 : length M1 = length M') by (unfold M1; now rewrite upd_length).
      assert (R1 : nth k M1 [] = upd (nth k M' []) l z) by (unfold M1; apply nth_upd_same; unfold d0 in *; lia).
      rewrite (gfor_cell [] _ _ k l (fun acc i =>
          axpy K (bfall_get K allv i (pv - l))
            (fold_left (fun t j => axpy K (bfall_get K allu j (pu - k)) (pkl_get PKLm k l j i) t) (seq 0 (S (pu - k))) z) acc)).
      * cbn [gbind]. f_equal. rewrite R1. unfold M1. rewrite upd_upd, upd_upd. rewrite nth_upd_same by lia. reflexivity.
      * rewrite L1. unfold d0 in *. lia.
      * rewrite R1, upd_length. lia.
      * intros i M2 Hi HM2 HQ2. apply in_seq in Hi. cbn [plus] in Hi. rewrite R1, upd_length, HQ in HQ2.
        rewrite gfor_map.
        rewrite (gfor_pure _ _ (fun t j => axpy K (bfall_get K allu j (pu - k)) (pkl_get PKLm k l j i) t)).
        -- cbn [gbind]. rewrite (znth_nat M2 k []) by (unfold d0 in *; lia). cbn [gbind].
           rewrite (znth_nat _ l []) by lia. cbn [gbind].
           replace (Z.of_nat pv - Z.of_nat l)%Z with (Z.of_nat (pv - l)) by lia.
           destruct (znth_inj_bfall pv allv i (pv - l)) as [A1 A2]; try lia.
           rewrite (gmapM_axpy_opt1 (inj_bfall K pv allv) (Z.of_nat i) (Z.of_nat (pv - l)) _ _ _ _ A1 A2). cbn [gbind].
           rewrite zset_nat by lia. cbn [gbind]. rewrite zset_nat by (unfold d0 in *; lia). reflexivity.
        -- intros j t Hj. apply in_seq in Hj. cbn [plus] in Hj.
           destruct WP as (W1 & W2). destruct (W2 k ltac:(lia)) as (W3 & W4). destruct (W4 l ltac:(lia)) as (W5 & W6).
           specialize (W6 j ltac:(lia)).
           rewrite (znth_nat PKL k []) by lia. cbn [gbind]. rewrite (znth_nat _ l []) by lia. cbn [gbind].
           rewrite (znth_nat _ j []) by lia. cbn [gbind]. rewrite (znth_nat _ i []) by lia. cbn [gbind].
           rewrite HPKL by lia.
           replace (Z.of_nat pu - Z.of_nat k)%Z with (Z.of_nat (pu - k)) by lia.
           destruct (znth_inj_bfall pu allu j (pu - k)) as [A1 A2]; try lia.
           rewrite (gmapM_axpy_opt K (inj_bfall K pu allu) (Z.of_nat j) (Z.of_nat (pu - k)) _ _ _ _ A1 A2). reflexivity.
Qed.

Theorem SurfaceEvaluator2_derivatives_tie (dd : geomdata T)
    (pu pv : nat) (Uu Uv : list T) (su sv : nat) (P : list (list T)) (u v : T) (order : nat) :
  surf_dd' dd pu pv Uu Uv su sv P ->
  pu < su -> su + pu <= length Uu -> pv < sv -> sv + pv <= length Uv -> su * sv <= length P -> (0 <= eval_dim dd)%Z ->
  Evaluators.SurfaceEvaluator2_derivatives K (Helpers.find_span_linear K) dd [u; v] (Z.of_nat order) =
  GOk (surface_derivs2 K (Z.to_nat (eval_dim dd)) pu pv Uu Uv su sv P u v order).
Proof. intros. apply SurfaceEvaluator2_derivatives_tie_gen; auto; apply find_span_linear_tie; lia. Qed.
End Tie.

Definition SurfaceEvaluator2_derivatives_tie_R := @SurfaceEvaluator2_derivatives_tie _ Rops.
Definition SurfaceEvaluator2_derivatives_tie_Q := @SurfaceEvaluator2_derivatives_tie _ Qops.

(* ---- non-vacuity: the surface of GenTieEvalDerivSurf.v, (u, v) = (1/4, 3/4), order 2; the values are what geomdl returns.
   They agree with A3.6 (SurfaceEvaluator.derivatives) on the triangle k + l <= 2; entry [2][1] is 0 here and (40, 40, 40, 32) there ---- *)
Local Open Scope Q_scope.
Example SurfaceEvaluator2_derivatives_ex :
  Evaluators.SurfaceEvaluator2_derivatives Qops (Helpers.find_span_linear Qops) (exdds false) [1#4; 3#4] 2 =
    GOk (surface_derivs2 Qops 4 2 1 exUu exUv 4 3 exPs (1#4) (3#4) 2)
  /\ surface_derivs2 Qops 4 2 1 exUu exUv 4 3 exPs (1#4) (3#4) 2 =
     [[[21#16; 31#16; 29#16; 11#8]; [-3#4; 5#4; -19#4; -1]; [0; 0; 0; 0]];
      [[9#2; 3#2; 5#2; 1]; [2; 2; -6; 0]; [0; 0; 0; 0]];
      [[-6; -2; -22; -4]; [0; 0; 0; 0]; [0; 0; 0; 0]]].
Proof. split; vm_compute; reflexivity. Qed.
