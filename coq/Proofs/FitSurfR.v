(* Surface interpolation (A9.4): the two passes of curve interpolation compose to S(u_k, v_l) = Q_kl. *)
From Coq Require Import List Reals Lra Lia Arith Bool.
From NV Require Import Scalar.Ops Model.Common Model.Basis Model.Knots Model.Eval Model.LinAlg Model.Fit
  Proofs.Boehm Proofs.BasisR Proofs.EvalR Proofs.LinAlgSums Proofs.LinAlgR Proofs.LinAlgSolve Proofs.FitR.
Import ListNotations.
Open Scope R_scope.

Lemma concat_map_seq_length {A} (f : nat -> list A) w : forall k, (forall v, (v < k)%nat -> length (f v) = w) ->
  length (concat (map f (seq 0 k))) = (w * k)%nat.
Proof.
  induction k as [|k IH]; intros H; [cbn; lia|].
  rewrite seq_S, map_app, concat_app, app_length, IH by (intros; apply H; lia). cbn [map concat Nat.add]. rewrite app_nil_r, H by lia. lia.
Qed.
Lemma concat_map_seq_nth {A} (f : nat -> list A) w (d : A) : forall k, (forall v, (v < k)%nat -> length (f v) = w) ->
  forall u v, (u < w)%nat -> (v < k)%nat -> nth (u + w * v) (concat (map f (seq 0 k))) d = nth u (f v) d.
Proof.
  induction k as [|k IH]; intros H u v Hu Hv; [lia|].
  rewrite seq_S, map_app, concat_app. cbn [map concat Nat.add]. rewrite app_nil_r.
  assert (HL : length (concat (map f (seq 0 k))) = (w * k)%nat) by (apply concat_map_seq_length; intros; apply H; lia).
  destruct (Nat.eq_dec v k) as [->|Hne].
  - rewrite app_nth2 by (rewrite HL; lia). rewrite HL. f_equal. lia.
  - rewrite app_nth1 by (rewrite HL; nia). apply IH; [intros; apply H; lia|exact Hu|lia].
Qed.

(* the linear system solved by one interpolation pass *)
Lemma interp_1d_system p n dim (kv params : list R) (pts : list (list R)) : (0 < n)%nat -> rect n dim pts ->
  (forall i, (i < n)%nat -> (p <= find_span_linear Rops p kv n (nth i params 0%R) < n)%nat) ->
  (forall i, (i < n)%nat -> g2 (snd (doolittle Rops (build_coeff_matrix Rops p kv params n))) i i <> 0) ->
  exists P, interp_1d Rops p kv params pts = Ok P /\ rect n dim P /\
    forall i d, (i < n)%nat -> (d < dim)%nat ->
      sumR 0 n (fun j => nth j (coeff_row Rops p kv n (nth i params 0)) 0 * g2 P j d) = g2 pts i d.
Proof.
  intros Hn Hpts Hsp Hpiv. set (A := build_coeff_matrix Rops p kv params n).
  assert (HLA : length A = n) by apply A_length.
  assert (HLp : length pts = n) by apply Hpts.
  destruct (lu_solve_correct A pts dim) as (P & EP & RP & HP); rewrite ?HLA; try assumption.
  { apply A_square. exact Hsp. }
  rewrite HLA in RP, HP. exists P. split; [unfold interp_1d; rewrite HLp; exact EP|]. split; [exact RP|].
  intros i d Hi Hd. rewrite <- (HP i d Hi Hd). apply sumr_ext. intros j Hj. unfold get2 at 2. unfold A. rewrite A_row by exact Hi. reflexivity.
Qed.

Section Surf.
Variables (pu pv su sv dim : nat) (kvu kvv uk vl : list R) (pts : list (list R)).
Hypothesis Hsu : (0 < su)%nat.
Hypothesis Hsv : (0 < sv)%nat.
Hypothesis Hpts : rect (su * sv) dim pts.
Hypothesis HspU : forall i, (i < su)%nat -> (pu <= find_span_linear Rops pu kvu su (nth i uk 0%R) < su)%nat.
Hypothesis HspV : forall i, (i < sv)%nat -> (pv <= find_span_linear Rops pv kvv sv (nth i vl 0%R) < sv)%nat.
Hypothesis HpivU : forall i, (i < su)%nat -> g2 (snd (doolittle Rops (build_coeff_matrix Rops pu kvu uk su))) i i <> 0.
Hypothesis HpivV : forall i, (i < sv)%nat -> g2 (snd (doolittle Rops (build_coeff_matrix Rops pv kvv vl sv))) i i <> 0.

Definition rowv (v : nat) : list (list R) := map (fun u => nth (v + sv * u) pts []) (seq 0 su).
Definition Rfun (v : nat) : list (list R) := match interp_1d Rops pu kvu uk (rowv v) with Ok x => x | _ => [] end.
Definition colu (u : nat) : list (list R) := map (fun v => nth u (Rfun v) []) (seq 0 sv).
Definition Cfun (u : nat) : list (list R) := match interp_1d Rops pv kvv vl (colu u) with Ok x => x | _ => [] end.

Lemma rowv_rect v : (v < sv)%nat -> rect su dim (rowv v).
Proof.
  intros Hv. split; [unfold rowv; rewrite map_length, seq_length; reflexivity|].
  intros row Hin. unfold rowv in Hin. apply in_map_iff in Hin. destruct Hin as [u [<- Hu]]. apply in_seq in Hu.
  apply (rect_nth (su * sv) dim); [exact Hpts|nia].
Qed.
Lemma rowv_entry v u d : (u < su)%nat -> g2 (rowv v) u d = g2 pts (v + sv * u) d.
Proof. intros Hu. unfold get2, rowv. rewrite nth_map_seq by exact Hu. reflexivity. Qed.
Lemma pass1 v : (v < sv)%nat ->
  interp_1d Rops pu kvu uk (rowv v) = Ok (Rfun v) /\ rect su dim (Rfun v) /\
  forall i d, (i < su)%nat -> (d < dim)%nat ->
    sumR 0 su (fun j => nth j (coeff_row Rops pu kvu su (nth i uk 0)) 0 * g2 (Rfun v) j d) = g2 pts (v + sv * i) d.
Proof.
  intros Hv. destruct (interp_1d_system pu su dim kvu uk (rowv v) Hsu (rowv_rect v Hv) HspU HpivU) as (P & EP & RP & HP).
  unfold Rfun. rewrite EP. repeat split; try assumption; try apply RP.
  intros i d Hi Hd. rewrite HP by assumption. apply rowv_entry, Hi.
Qed.
Lemma colu_rect u : (u < su)%nat -> rect sv dim (colu u).
Proof.
  intros Hu. split; [unfold colu; rewrite map_length, seq_length; reflexivity|].
  intros row Hin. unfold colu in Hin. apply in_map_iff in Hin. destruct Hin as [v [<- Hv]]. apply in_seq in Hv.
  destruct (pass1 v ltac:(lia)) as (_ & RR & _). apply (rect_nth su dim); assumption.
Qed.
Lemma pass2 u : (u < su)%nat ->
  interp_1d Rops pv kvv vl (colu u) = Ok (Cfun u) /\ rect sv dim (Cfun u) /\
  forall i d, (i < sv)%nat -> (d < dim)%nat ->
    sumR 0 sv (fun j => nth j (coeff_row Rops pv kvv sv (nth i vl 0)) 0 * g2 (Cfun u) j d) = g2 (Rfun i) u d.
Proof.
  intros Hu. destruct (interp_1d_system pv sv dim kvv vl (colu u) Hsv (colu_rect u Hu) HspV HpivV) as (P & EP & RP & HP).
  unfold Cfun. rewrite EP. repeat split; try assumption; try apply RP.
  intros i d Hi Hd. rewrite HP by assumption. unfold get2, colu. rewrite nth_map_seq by exact Hi. reflexivity.
Qed.

Definition Pnet : list (list R) := concat (map Cfun (seq 0 su)).
Lemma Cfun_len u : (u < su)%nat -> length (Cfun u) = sv.
Proof. intros Hu. destruct (pass2 u Hu) as (_ & [H _] & _). exact H. Qed.
Lemma Rfun_len v : (v < sv)%nat -> length (Rfun v) = su.
Proof. intros Hv. destruct (pass1 v Hv) as (_ & [H _] & _). exact H. Qed.
Lemma Pnet_nth u v : (u < su)%nat -> (v < sv)%nat -> nth (v + sv * u) Pnet [] = nth v (Cfun u) [].
Proof. intros Hu Hv. unfold Pnet. apply concat_map_seq_nth; [intros; apply Cfun_len; assumption|exact Hv|exact Hu]. Qed.
Lemma Pnet_length : length Pnet = (su * sv)%nat.
Proof. unfold Pnet. rewrite (concat_map_seq_length Cfun sv) by (intros; apply Cfun_len; assumption). lia. Qed.
Lemma Pnet_wf : wf_net Pnet dim.
Proof.
  intros k Hk. rewrite Pnet_length in Hk.
  assert (E : k = (k mod sv + sv * (k / sv))%nat) by (rewrite Nat.add_comm; apply Nat.div_mod; lia).
  assert (H1 : (k mod sv < sv)%nat) by (apply Nat.mod_upper_bound; lia).
  assert (H2 : (k / sv < su)%nat) by (apply Nat.div_lt_upper_bound; lia).
  rewrite E, Pnet_nth by assumption. destruct (pass2 (k / sv) H2) as (_ & RC & _). apply (rect_nth sv dim); assumption.
Qed.

Lemma core_eq : interp_surface_core Rops pu pv kvu kvv uk vl su sv pts = Ok Pnet.
Proof.
  unfold interp_surface_core.
  change (fun v => interp_1d Rops pu kvu uk (map (fun u => nth (v + sv * u) pts []) (seq 0 su))) with (fun v => interp_1d Rops pu kvu uk (rowv v)).
  rewrite (res_all_map_ok (fun v => interp_1d Rops pu kvu uk (rowv v)) Rfun sv 0) by (intros v Hv; apply pass1; lia).
  cbn [res_bind]. cbv zeta.
  assert (E : map (fun u => interp_1d Rops pv kvv vl (map (fun v => nth (u + su * v) (concat (map Rfun (seq 0 sv))) []) (seq 0 sv))) (seq 0 su)
            = map (fun u => interp_1d Rops pv kvv vl (colu u)) (seq 0 su)).
  { apply map_ext_in. intros u Hu. apply in_seq in Hu. f_equal. unfold colu. apply map_ext_in. intros v Hv. apply in_seq in Hv.
    apply concat_map_seq_nth; [intros; apply Rfun_len; assumption|lia|lia]. }
  rewrite E. rewrite (res_all_map_ok (fun u => interp_1d Rops pv kvv vl (colu u)) Cfun su 0) by (intros u Hu; apply pass2; lia).
  reflexivity.
Qed.

(* [G given pivots] the interpolated surface passes through every data point at its parameter pair *)
Theorem interp_surface_core_conditions :
  exists P, interp_surface_core Rops pu pv kvu kvv uk vl su sv pts = Ok P /\ length P = (su * sv)%nat /\
    forall u v d, (u < su)%nat -> (v < sv)%nat -> (d < dim)%nat ->
      nth d (surface_point Rops dim pu pv kvu kvv su sv P (nth u uk 0) (nth v vl 0)) 0 = g2 pts (v + sv * u) d.
Proof.
  exists Pnet. split; [apply core_eq|]. split; [apply Pnet_length|].
  intros u v d Hu Hv Hd. unfold surface_point.
  pose proof (HspU u Hu) as Hku. pose proof (HspV v Hv) as Hkv.
  set (ku := find_span_linear Rops pu kvu su (nth u uk 0)) in *.
  set (kv := find_span_linear Rops pv kvv sv (nth v vl 0)) in *.
  destruct (surface_point_at_sum dim pu pv sv Pnet ku kv (basis_function Rops pu kvu ku (nth u uk 0)) (basis_function Rops pv kvv kv (nth v vl 0)) su
              Pnet_wf Pnet_length Hku Hkv) as [_ Hsum].
  rewrite Hsum by exact Hd.
  destruct (pass1 v Hv) as (_ & _ & H1).
  rewrite <- (H1 u d Hu Hd).
  rewrite (coeff_row_dot pu su kvu (nth u uk 0) Hku (fun j => g2 (Rfun v) j d)). fold ku.
  apply sumf_ext. intros k Hk. f_equal.
  assert (Hu' : (ku - pu + k < su)%nat) by lia.
  destruct (pass2 (ku - pu + k) Hu') as (_ & _ & H2).
  rewrite <- (H2 v d Hv Hd).
  rewrite (coeff_row_dot pv sv kvv (nth v vl 0) Hkv (fun j => g2 (Cfun (ku - pu + k)) j d)). fold kv.
  apply sumf_ext. intros l Hl. f_equal. unfold coord, get2. rewrite Pnet_nth by lia. reflexivity.
Qed.
End Surf.
