(* C07: decompose_curve returns exactly one Bezier piece per non-empty knot interval, in order, each coinciding with the
   original on its interval.
   Loop invariant (dec_valid): what is left is a curve of degree p >= 1 with a sorted, clamped knot vector whose interior
   multiplicities are <= p and whose knots are separated by the tolerance.  One step (Section Step) splits at the first
   interior knot t = U_{p+1}: the left piece is a Bezier piece with knot vector 0^(p+1) 1^(p+1), the right piece is valid
   again and its distinct interior knots are the remaining distinct interior knots of the input, rescaled by
   x |-> (x - t)/(U_last - t). *)
From Coq Require Import List Reals Lra Lia Arith Bool ZArith Sorted Permutation.
From NV Require Import Scalar.Ops Model.Common Model.Basis Model.Knots Model.KnotIns Model.InsertKnot Model.Split
  Proofs.Boehm Proofs.BasisR Proofs.KnotsR Proofs.KnotInsR Proofs.InsertKnotR Proofs.KnotInsN Proofs.InsertNR Proofs.InsertOpR
  Proofs.SplitR Proofs.SplitBezier Proofs.SplitLocal Proofs.SplitCoincide.
Import ListNotations.
Open Scope R_scope.

(* ---------------------------------------------------------------- distinct values of a sorted list, in order *)
Fixpoint dedup (l : list R) : list R :=
  match l with
  | [] => []
  | x :: r => match r with
              | [] => [x]
              | y :: _ => if Req_EM_T x y then dedup r else x :: dedup r
              end
  end.

Lemma dedup_cons2 x y r : dedup (x :: y :: r) = if Req_EM_T x y then dedup (y :: r) else x :: dedup (y :: r).
Proof. reflexivity. Qed.

Lemma dedup_In l : forall x, In x (dedup l) <-> In x l.
Proof.
  induction l as [|a r IH]; intros x; [tauto|]. destruct r as [|b r'].
  - cbn. tauto.
  - rewrite dedup_cons2. destruct (Req_EM_T a b) as [E|E].
    + subst b. rewrite IH. cbn [In]. tauto.
    + cbn [In]. rewrite IH. cbn [In]. tauto.
Qed.

Lemma dedup_run t rest : (forall y r', rest = y :: r' -> y <> t) -> forall j, dedup (repeat t (S j) ++ rest) = t :: dedup rest.
Proof.
  intros H. induction j as [|j IH].
  - cbn [repeat app]. destruct rest as [|y r']; [reflexivity|]. rewrite dedup_cons2.
    destruct (Req_EM_T t y) as [E|E]; [exfalso; apply (H y r' eq_refl); symmetry; exact E|reflexivity].
  - change (repeat t (S (S j)) ++ rest) with (t :: t :: (repeat t j ++ rest)). rewrite dedup_cons2.
    destruct (Req_EM_T t t) as [_|E]; [|congruence]. exact IH.
Qed.

Lemma dedup_map_inj (f : R -> R) : (forall x y, f x = f y -> x = y) -> forall l, dedup (map f l) = map f (dedup l).
Proof.
  intros Hinj. induction l as [|a r IH]; [reflexivity|]. destruct r as [|b r']; [reflexivity|].
  change (map f (a :: b :: r')) with (f a :: f b :: map f r'). rewrite !dedup_cons2.
  change (f b :: map f r') with (map f (b :: r')).
  destruct (Req_EM_T (f a) (f b)) as [E|E]; destruct (Req_EM_T a b) as [E'|E'].
  - exact IH.
  - exfalso. apply E'. apply Hinj. exact E.
  - exfalso. apply E. rewrite E'. reflexivity.
  - cbn [map]. f_equal. exact IH.
Qed.

Lemma dedup_NoDup l : StronglySorted Rle l -> NoDup (dedup l).
Proof.
  induction l as [|a r IH]; intros Hs; [constructor|]. destruct r as [|b r'].
  - cbn. constructor; [intros []|constructor].
  - apply StronglySorted_inv in Hs. destruct Hs as [Hs1 Hs2]. rewrite dedup_cons2.
    destruct (Req_EM_T a b) as [E|E]; [apply IH; exact Hs1|].
    constructor; [|apply IH; exact Hs1]. rewrite dedup_In. intros Hin.
    pose proof (Forall_inv Hs2) as Hab. apply StronglySorted_inv in Hs1. destruct Hs1 as [_ Hb].
    destruct Hin as [Hin|Hin]; [congruence|]. rewrite Forall_forall in Hb. specialize (Hb a Hin). apply E. lra.
Qed.

Lemma sorted_nth_StronglySorted (l : list R) :
  (forall i j, (i <= j < length l)%nat -> nth i l 0 <= nth j l 0) -> StronglySorted Rle l.
Proof.
  induction l as [|a l IH]; intros H; constructor.
  - apply IH. intros i j Hij. apply (H (S i) (S j)). cbn [length]. lia.
  - apply Forall_forall. intros z Hz. destruct (In_nth _ _ 0 Hz) as [j [Hj Hz']]. rewrite <- Hz'.
    apply (H 0%nat (S j)). cbn [length]. lia.
Qed.

Lemma app_eq_len {A} : forall (l1 r1 l2 r2 : list A), length l1 = length r1 -> l1 ++ l2 = r1 ++ r2 -> l1 = r1 /\ l2 = r2.
Proof.
  induction l1 as [|a l1 IH]; intros [|b r1] l2 r2 HL E; cbn in HL; try discriminate.
  - split; [reflexivity|exact E].
  - cbn in E. inversion E. subst b. destruct (IH r1 l2 r2) as [E1 E2]; [lia|assumption|]. subst. split; reflexivity.
Qed.

(* ---------------------------------------------------------------- interior knots *)
Lemma interior_len p (U : list R) n : length U = (n + p + 1)%nat -> length (interior_knots p U) = (n - S p)%nat.
Proof. intros H. unfold interior_knots, slice. rewrite firstn_length, skipn_length. lia. Qed.

Lemma interior_nth p (U : list R) n j : length U = (n + p + 1)%nat -> (j < n - S p)%nat ->
  nth j (interior_knots p U) 0 = knR U (S p + j).
Proof. intros H Hj. unfold interior_knots, slice. rewrite nth_firstn_lt by lia. apply nth_skipn_add. Qed.

Lemma interior_sorted p (U : list R) n : length U = (n + p + 1)%nat -> sortedR U -> StronglySorted Rle (interior_knots p U).
Proof.
  intros H Hs. apply sorted_nth_StronglySorted. intros i j Hij. rewrite (interior_len p U n H) in Hij.
  rewrite !(interior_nth p U n) by (assumption || lia). apply Hs. lia.
Qed.

(* ---------------------------------------------------------------- the loop invariant *)
(* the tolerance separates distinct knots, also after the knots have been rescaled to a range of length 1 *)
Definition knots_separated (tol : R) (U : list R) : Prop :=
  0 <= tol /\ forall i j, (i < length U)%nat -> (j < length U)%nat ->
    Rabs (knR U i - knR U j) <= tol * Rmax 1 (knR U (length U - 1) - knR U 0) -> knR U i = knR U j.

Definition dec_valid (tol : R) (c : @curve R) : Prop :=
  (1 <= c_p c)%nat /\ sortedR (c_U c) /\ (c_p c < length (c_P c))%nat /\
  length (c_U c) = (length (c_P c) + c_p c + 1)%nat /\
  (forall i, (i <= c_p c)%nat -> knR (c_U c) i = knR (c_U c) 0) /\
  (forall i, (length (c_P c) <= i <= length (c_P c) + c_p c)%nat -> knR (c_U c) i = knR (c_U c) (length (c_P c) + c_p c)) /\
  knR (c_U c) 0 < knR (c_U c) (length (c_P c) + c_p c) /\
  (forall i, (1 <= i < length (c_P c))%nat -> knR (c_U c) i < knR (c_U c) (i + c_p c)) /\
  knots_separated tol (c_U c).

Definition bezier_kv (p : nat) (U : list R) : Prop :=
  exists a b, a < b /\ U = repeat a (S p) ++ repeat b (S p).

(* ---------------------------------------------------------------- one step: split at the first interior knot *)
Section Step.
Variables (tol : R) (c : @curve R).
Notation p := (c_p c). Notation U := (c_U c). Notation P := (c_P c).
Let n := length P.
Hypothesis Hv : dec_valid tol c.
Hypothesis Hint : (S p < n)%nat.
Let t := knR U (S p).
Let a0 := knR U 0.
Let b0 := knR U (n + p).
Let k := find_span_linear Rops p U n t.
Let s := find_multiplicity Rops tol t U.

Lemma st_p1 : (1 <= p)%nat. Proof. apply Hv. Qed.
Lemma st_sorted : sortedR U. Proof. apply Hv. Qed.
Lemma st_pn : (p < n)%nat. Proof. apply Hv. Qed.
Lemma st_len : length U = (n + p + 1)%nat. Proof. apply Hv. Qed.
Lemma st_clamp0 : forall i, (i <= p)%nat -> knR U i = a0. Proof. apply Hv. Qed.
Lemma st_clamp1 : forall i, (n <= i <= n + p)%nat -> knR U i = b0. Proof. apply Hv. Qed.
Lemma st_mult : forall i, (1 <= i < n)%nat -> knR U i < knR U (i + p). Proof. apply Hv. Qed.
Lemma st_sep : knots_separated tol U. Proof. apply Hv. Qed.

Lemma st_a0t : a0 < t.
Proof.
  pose proof st_p1. pose proof (st_mult 1%nat ltac:(lia)) as H1. rewrite (st_clamp0 1%nat) in H1 by lia. exact H1.
Qed.

Lemma st_tb0 : t < b0.
Proof.
  pose proof st_p1. pose proof (st_mult (n - 1)%nat ltac:(lia)) as H1.
  rewrite (st_clamp1 (n - 1 + p)%nat) in H1 by lia.
  assert (t <= knR U (n - 1)) by (apply st_sorted; rewrite st_len; lia). lra.
Qed.

Lemma st_dom : knR U p < t < knR U n.
Proof.
  rewrite (st_clamp0 p) by lia. rewrite (st_clamp1 n) by lia. split; [exact st_a0t|exact st_tb0].
Qed.

Lemma st_sep_t : forall i, (i < length U)%nat -> Rabs (t - knR U i) <= tol -> knR U i = t.
Proof.
  intros i Hi HR. destruct st_sep as [Ht0 Hsp]. apply (Hsp i (S p) Hi); [rewrite st_len; lia|].
  rewrite Rabs_minus_sym. eapply Rle_trans; [exact HR|].
  replace tol with (tol * 1) at 1 by ring. apply Rmult_le_compat_l; [exact Ht0|apply Rmax_l].
Qed.

Lemma st_k0 : (p <= k < n)%nat /\ knR U k <= t < knR U (k + 1).
Proof. apply (k_spec tol c t st_pn st_len). pose proof st_dom as H. unfold n in H. lra. Qed.

Lemma st_k : (S p <= k < n)%nat.
Proof.
  destruct st_k0 as [Hk [Hk1 Hk2]]. destruct (le_lt_dec (S p) k) as [H|H]; [lia|exfalso].
  assert (knR U (k + 1) <= t) by (apply st_sorted; rewrite st_len; lia). lra.
Qed.

Lemma st_run : forall i, (S p <= i <= k)%nat -> knR U i = t.
Proof.
  intros i Hi. destruct st_k0 as [Hk [Hk1 Hk2]].
  assert (t <= knR U i) by (apply st_sorted; rewrite st_len; lia).
  assert (knR U i <= knR U k) by (apply st_sorted; rewrite st_len; lia). lra.
Qed.

Lemma st_after : forall i, (k < i < length U)%nat -> t < knR U i.
Proof.
  intros i Hi. destruct st_k0 as [Hk [Hk1 Hk2]].
  assert (knR U (k + 1) <= knR U i) by (apply st_sorted; lia). lra.
Qed.

Lemma st_k2p : (k <= 2 * p)%nat.
Proof.
  pose proof st_k as Hk. destruct (le_lt_dec k (2 * p)) as [H|H]; [exact H|exfalso].
  pose proof (st_mult (k - p)%nat ltac:(lia)) as H1. replace (k - p + p)%nat with k in H1 by lia.
  rewrite (st_run k), (st_run (k - p)%nat) in H1 by lia. lra.
Qed.

(* exact multiplicity *)
Lemma st_s : s = (k - p)%nat.
Proof.
  pose proof st_k as Hk. destruct st_sep as [Ht0 _].
  unfold s. change (find_multiplicity Rops tol t U) with (length (filter (nearb tol t) U)).
  rewrite (filter_count_range (nearb tol t) 0 U (S p) k); [lia| |rewrite st_len; lia|lia].
  intros i Hi. split.
  - intros Hn. apply nearb_abs in Hn. apply (st_sep_t i Hi) in Hn.
    destruct (le_lt_dec i p) as [H1|H1].
    + exfalso. change (nth i U 0) with (knR U i) in Hn. rewrite (st_clamp0 i H1) in Hn. pose proof st_a0t. lra.
    + destruct (le_lt_dec i k) as [H2|H2]; [lia|exfalso].
      pose proof (st_after i ltac:(lia)). change (nth i U 0) with (knR U i) in Hn. lra.
  - intros Hr. apply nearb_eq; [exact Ht0|]. apply st_run. exact Hr.
Qed.

Lemma st_geom : split_geom_hyps tol c t.
Proof.
  pose proof st_k. pose proof st_k2p.
  split; [exact st_sorted|]. split; [exact st_pn|]. split; [exact st_len|]. split; [exact st_dom|].
  split; [exact st_sep_t|]. fold s. rewrite st_s. lia.
Qed.

Notation L := (split_left tol c t).
Notation Rt := (split_right tol c t).

(* ---- the left piece is a Bezier piece ---- *)
Lemma st_left_kv : c_U L = repeat 0 (S p) ++ repeat 1 (S p).
Proof.
  pose proof st_k as Hk. pose proof st_k2p as Hk2. pose proof st_s as Hs. pose proof st_a0t as Hat.
  pose proof (split_left_shape tol c t st_geom) as HS. cbv zeta in HS. fold n k s in HS.
  destruct HS as (_ & _ & HL & Hn).
  replace (k + (p - s))%nat with (2 * p)%nat in HL, Hn by lia.
  apply (nth_ext _ _ 0 0).
  - rewrite HL, app_length, !repeat_length. lia.
  - intros i Hi. rewrite HL in Hi. change (nth i (c_U L) 0) with (knR (c_U L) i). rewrite Hn by lia.
    destruct (le_lt_dec i p) as [H1|H1].
    + rewrite app_nth1 by (rewrite repeat_length; lia). rewrite nth_repeat_lt by lia.
      destruct (Nat.leb_spec i k); [|lia]. rewrite (st_clamp0 i H1). fold a0. unfold Rdiv. ring.
    + rewrite app_nth2 by (rewrite repeat_length; lia). rewrite repeat_length, nth_repeat_lt by lia.
      fold a0. destruct (Nat.leb_spec i k); [rewrite st_run by lia|]; field; lra.
Qed.

Lemma st_left_p : c_p L = p.
Proof. reflexivity. Qed.

Lemma st_left_size : length (c_P L) = S p.
Proof.
  pose proof st_k as Hk. pose proof st_s as Hs.
  pose proof (split_left_shape tol c t st_geom) as HS. cbv zeta in HS. fold n k s in HS.
  destruct HS as (_ & HP & _). rewrite HP. lia.
Qed.

(* ---- the right piece ---- *)
Let nR := (n + p - k)%nat.
Let g (i : nat) : R := if Nat.leb i p then t else knR U (i + k - p).
Let phi (x : R) : R := (x - t) / (b0 - t).

Lemma st_R_shape : c_p Rt = p /\ length (c_P Rt) = nR /\ length (c_U Rt) = S (p + nR) /\
  forall i, (i < S (p + nR))%nat -> knR (c_U Rt) i = phi (g i).
Proof. exact (split_right_shape tol c t st_geom). Qed.

Lemma st_phi_mono x y : x <= y -> phi x <= phi y.
Proof.
  intros H. pose proof st_tb0. unfold phi, Rdiv. apply Rmult_le_compat_r; [|lra].
  left. apply Rinv_0_lt_compat. lra.
Qed.
Lemma st_phi_smono x y : x < y -> phi x < phi y.
Proof.
  intros H. pose proof st_tb0. unfold phi, Rdiv. apply Rmult_lt_compat_r; [|lra].
  apply Rinv_0_lt_compat. lra.
Qed.
Lemma st_phi_inj x y : phi x = phi y -> x = y.
Proof.
  intros H. destruct (Rtotal_order x y) as [H1|[H1|H1]]; [|exact H1|].
  - apply st_phi_smono in H1. lra.
  - apply st_phi_smono in H1. lra.
Qed.
Lemma st_phi_t : phi t = 0.
Proof. unfold phi, Rdiv. ring. Qed.
Lemma st_phi_b : phi b0 = 1.
Proof. pose proof st_tb0. unfold phi. field. lra. Qed.

Lemma st_g_idx i : (i < S (p + nR))%nat -> exists i', (i' < length U)%nat /\ g i = knR U i'.
Proof.
  intros Hi. pose proof st_k as Hk. unfold g. destruct (Nat.leb_spec i p).
  - exists (S p). split; [rewrite st_len; lia|reflexivity].
  - exists (i + k - p)%nat. split; [rewrite st_len; unfold nR in Hi; lia|reflexivity].
Qed.

Lemma st_g_le i j : (i <= j < S (p + nR))%nat -> g i <= g j.
Proof.
  intros Hij. pose proof st_k as Hk. unfold g, nR in *.
  destruct (Nat.leb_spec i p); destruct (Nat.leb_spec j p); try lia; try lra.
  - assert (t < knR U (j + k - p)) by (apply st_after; rewrite st_len; lia). lra.
  - apply st_sorted. rewrite st_len. lia.
Qed.

Lemma st_right_valid : dec_valid tol Rt.
Proof.
  pose proof st_k as Hk. pose proof st_p1 as Hp1. pose proof st_tb0 as Htb.
  destruct st_R_shape as (Ep & EP & EL & EN).
  unfold dec_valid. rewrite Ep, EP.
  assert (E0 : knR (c_U Rt) 0 = 0) by (rewrite EN by lia; unfold g; cbn [Nat.leb]; apply st_phi_t).
  assert (E1 : knR (c_U Rt) (nR + p) = 1).
  { rewrite EN by lia. unfold g. destruct (Nat.leb_spec (nR + p) p); [unfold nR in *; lia|].
    replace (nR + p + k - p)%nat with (n + p)%nat by (unfold nR; lia). apply st_phi_b. }
  split; [exact Hp1|]. split; [|split; [unfold nR; lia|split; [rewrite EL; lia|]]].
  { intros i j Hij. rewrite EL in Hij. rewrite !EN by lia. apply st_phi_mono. apply st_g_le. lia. }
  split; [|split; [|split; [|split]]].
  - intros i Hi. rewrite E0. rewrite EN by (unfold nR; lia). unfold g. destruct (Nat.leb_spec i p); [apply st_phi_t|lia].
  - intros i Hi. rewrite E1. rewrite EN by lia. unfold g. destruct (Nat.leb_spec i p); [unfold nR in *; lia|].
    rewrite (st_clamp1 (i + k - p)%nat) by (unfold nR in *; lia). apply st_phi_b.
  - rewrite E0, E1. lra.
  - intros i Hi. rewrite !EN by lia. apply st_phi_smono. unfold g.
    destruct (Nat.leb_spec (i + p) p); [lia|]. replace (i + p + k - p)%nat with (i + k)%nat by lia.
    destruct (Nat.leb_spec i p).
    + apply st_after. rewrite st_len. unfold nR in *. lia.
    + pose proof (st_mult (i + k - p)%nat ltac:(unfold nR in *; lia)) as H1.
      replace (i + k - p + p)%nat with (i + k)%nat in H1 by lia. exact H1.
  - destruct st_sep as [Ht0 Hsp]. split; [exact Ht0|]. rewrite EL.
    replace (S (p + nR) - 1)%nat with (nR + p)%nat by lia. rewrite E0, E1.
    intros i j Hi Hj HR. rewrite !EN by lia. f_equal. rewrite !EN in HR by lia.
    destruct (st_g_idx i Hi) as (i' & Hi' & Ei). destruct (st_g_idx j Hj) as (j' & Hj' & Ej).
    rewrite Ei, Ej. apply (Hsp i' j' Hi' Hj'). rewrite <- Ei, <- Ej.
    rewrite st_len. replace (n + p + 1 - 1)%nat with (n + p)%nat by lia. fold a0 b0.
    assert (Hd : Rabs (g i - g j) = Rabs (phi (g i) - phi (g j)) * (b0 - t)).
    { replace (g i - g j) with ((phi (g i) - phi (g j)) * (b0 - t)) by (unfold phi; field; lra).
      rewrite Rabs_mult. rewrite (Rabs_right (b0 - t)) by lra. reflexivity. }
    rewrite Hd. replace (Rmax 1 (1 - 0)) with 1 in HR by (rewrite Rmax_left; lra).
    assert (Rabs (phi (g i) - phi (g j)) * (b0 - t) <= tol * 1 * (b0 - t)) by (apply Rmult_le_compat_r; lra).
    assert (tol * (b0 - t) <= tol * Rmax 1 (b0 - a0)).
    { apply Rmult_le_compat_l; [exact Ht0|]. pose proof (Rmax_r 1 (b0 - a0)). pose proof st_a0t. lra. }
    lra.
Qed.

(* ---- interior knots of the input and of the right piece ---- *)
Let rest := firstn (n - S k) (skipn (S k) U).

Lemma st_rest_len : length rest = (n - S k)%nat.
Proof. unfold rest. rewrite firstn_length, skipn_length, st_len. lia. Qed.
Lemma st_rest_nth j : (j < n - S k)%nat -> nth j rest 0 = knR U (S k + j).
Proof. intros Hj. unfold rest. rewrite nth_firstn_lt by lia. apply nth_skipn_add. Qed.

Lemma st_interior : interior_knots p U = repeat t (k - p) ++ rest.
Proof.
  pose proof st_k as Hk. apply (nth_ext _ _ 0 0).
  - rewrite (interior_len p U n st_len), app_length, repeat_length, st_rest_len. lia.
  - intros j Hj. rewrite (interior_len p U n st_len) in Hj. rewrite (interior_nth p U n j st_len Hj).
    destruct (le_lt_dec (k - p) j) as [H|H].
    + rewrite app_nth2 by (rewrite repeat_length; lia). rewrite repeat_length, st_rest_nth by lia. f_equal. lia.
    + rewrite app_nth1 by (rewrite repeat_length; lia). rewrite nth_repeat_lt by lia. apply st_run. lia.
Qed.

Lemma st_interior_R : interior_knots p (c_U Rt) = map phi rest.
Proof.
  pose proof st_k as Hk. destruct st_R_shape as (Ep & EP & EL & EN).
  assert (EL' : length (c_U Rt) = (nR + p + 1)%nat) by (rewrite EL; lia).
  apply (nth_ext _ _ 0 (phi 0)).
  - rewrite (interior_len p (c_U Rt) nR EL'), map_length, st_rest_len. unfold nR. lia.
  - intros j Hj. rewrite (interior_len p (c_U Rt) nR EL') in Hj.
    rewrite (interior_nth p (c_U Rt) nR j EL' Hj). rewrite map_nth.
    rewrite EN by lia. f_equal. unfold g. destruct (Nat.leb_spec (S p + j) p); [lia|].
    rewrite st_rest_nth by (unfold nR in Hj; lia). f_equal. lia.
Qed.

Lemma st_rest_head : forall y r', rest = y :: r' -> y <> t.
Proof.
  intros y r' E. pose proof st_k as Hk.
  assert (HL : (0 < n - S k)%nat) by (rewrite <- st_rest_len, E; cbn; lia).
  assert (Hy : y = nth 0 rest 0) by (rewrite E; reflexivity).
  rewrite st_rest_nth in Hy by exact HL.
  pose proof (st_after (S k + 0)%nat ltac:(rewrite st_len; lia)). lra.
Qed.

Definition psi_ (t b0 y : R) : R := t + y * (b0 - t).
Notation psi := (psi_ t b0).

Lemma st_psi_phi x : psi (phi x) = x.
Proof. pose proof st_tb0. unfold psi_, phi. field. lra. Qed.

(* the distinct interior knots: t first, then those of the right piece mapped back *)
Lemma st_dedup : dedup (interior_knots p U) = t :: map psi (dedup (interior_knots p (c_U Rt))).
Proof.
  pose proof st_k as Hk. rewrite st_interior, st_interior_R.
  replace (k - p)%nat with (S (k - p - 1)) by lia. rewrite (dedup_run t rest st_rest_head).
  rewrite (dedup_map_inj phi st_phi_inj). rewrite map_map.
  rewrite (map_ext (fun x => psi (phi x)) (fun x => x) st_psi_phi), map_id. reflexivity.
Qed.

(* ---- dimensions of the control points of the right piece ---- *)
Lemma st_right_dim dim : (forall i, (i < n)%nat -> length (getp P i) = dim) ->
  forall i, (i < length (c_P Rt))%nat -> length (getp (c_P Rt) i) = dim.
Proof.
  intros Hdim i Hi. pose proof st_k as Hk. pose proof st_k2p as Hk2. pose proof st_s as Hs.
  destruct st_R_shape as (_ & EP & _). rewrite EP in Hi.
  unfold split_right. cbv zeta. cbn [c_P]. fold n k s. unfold getp. rewrite nth_skipn_add.
  apply (ki_dim Rops p U P t (p - s) s k dim); try (fold n; lia). exact Hdim.
Qed.

(* ---- the pieces' knot ends ---- *)
Lemma st_R_ends : knR (c_U Rt) 0 = 0 /\ knR (c_U Rt) (length (c_P Rt) + p) = 1.
Proof.
  pose proof st_k as Hk. destruct st_R_shape as (Ep & EP & EL & EN). rewrite EP. split.
  - rewrite EN by lia. unfold g. cbn [Nat.leb]. apply st_phi_t.
  - rewrite EN by lia. unfold g. destruct (Nat.leb_spec (nR + p) p); [unfold nR in *; lia|].
    replace (nR + p + k - p)%nat with (n + p)%nat by (unfold nR; lia). apply st_phi_b.
Qed.
End Step.

(* ---------------------------------------------------------------- the whole chain *)
(* break points: domain start, the distinct interior knots in order, domain end *)
Definition breakpoints (c : @curve R) : list R :=
  knR (c_U c) 0 :: dedup (interior_knots (c_p c) (c_U c)) ++ [knR (c_U c) (length (c_P c) + c_p c)].

(* the parameter of piece q (domain = first .. last knot of q) that corresponds to x in [lo, hi] *)
Definition piece_param (q : @curve R) (lo hi x : R) : R :=
  knR (c_U q) 0 + (x - lo) / (hi - lo) * (knR (c_U q) (length (c_U q) - 1) - knR (c_U q) 0).

Definition pieces_coincide_on (c : @curve R) (l : list (@curve R)) (dim : nat) : Prop :=
  forall j, (j < length l)%nat ->
    (knR (c_U c) 0 <= nth j (breakpoints c) 0 < nth (S j) (breakpoints c) 0) /\
    forall cc x, (cc < dim)%nat -> nth j (breakpoints c) 0 <= x < nth (S j) (breakpoints c) 0 ->
      curve_pt (c_p (nth j l c)) (c_U (nth j l c)) (c_P (nth j l c)) cc
        (piece_param (nth j l c) (nth j (breakpoints c) 0) (nth (S j) (breakpoints c) 0) x)
      = curve_pt (c_p c) (c_U c) (c_P c) cc x.

Lemma breakpoints_step tol c : dec_valid tol c -> (S (c_p c) < length (c_P c))%nat ->
  breakpoints c = knR (c_U c) 0 ::
    map (psi_ (knR (c_U c) (S (c_p c))) (knR (c_U c) (length (c_P c) + c_p c)))
        (breakpoints (split_right tol c (knR (c_U c) (S (c_p c))))).
Proof.
  intros Hv Hint. unfold breakpoints.
  rewrite (st_dedup tol c Hv Hint). destruct (st_R_ends tol c Hv Hint) as [E0 E1].
  set (t := knR (c_U c) (S (c_p c))) in *. set (b0 := knR (c_U c) (length (c_P c) + c_p c)) in *.
  change (c_p (split_right tol c t)) with (c_p c).
  rewrite E0, E1. cbn [map]. rewrite map_app. cbn [map].
  replace (psi_ t b0 0) with t by (unfold psi_; ring). replace (psi_ t b0 1) with b0 by (unfold psi_; ring). reflexivity.
Qed.

Lemma valid_no_interior tol c : dec_valid tol c -> interior_knots (c_p c) (c_U c) = [] ->
  length (c_P c) = S (c_p c) /\ c_U c = repeat (knR (c_U c) 0) (S (c_p c)) ++ repeat (knR (c_U c) (length (c_P c) + c_p c)) (S (c_p c)).
Proof.
  intros (V1 & V2 & V3 & V4 & V5 & V6 & V7 & V8 & V9) E.
  pose proof (interior_len (c_p c) (c_U c) (length (c_P c)) V4) as HL. rewrite E in HL. cbn [length] in HL.
  assert (Hn : length (c_P c) = S (c_p c)) by lia. split; [exact Hn|].
  apply (nth_ext _ _ 0 0).
  - rewrite V4, app_length, !repeat_length. lia.
  - intros i Hi. rewrite V4 in Hi. destruct (le_lt_dec i (c_p c)) as [H|H].
    + rewrite app_nth1 by (rewrite repeat_length; lia). rewrite nth_repeat_lt by lia. apply V5. exact H.
    + rewrite app_nth2 by (rewrite repeat_length; lia). rewrite repeat_length, nth_repeat_lt by lia. apply V6. lia.
Qed.

Lemma nth_map_lt (f : R -> R) (l : list R) i : (i < length l)%nat -> nth i (map f l) 0 = f (nth i l 0).
Proof. intros H. rewrite (nth_indep (map f l) 0 (f 0)) by (rewrite map_length; exact H). apply map_nth. Qed.

Theorem chain_spec tol : forall c l, split_chain tol c l -> dec_valid tol c ->
  length l = S (length (dedup (interior_knots (c_p c) (c_U c)))) /\
  Forall (fun x => c_p x = c_p c /\ bezier_kv (c_p c) (c_U x) /\ length (c_P x) = S (c_p c)) l /\
  forall dim, (forall i, (i < length (c_P c))%nat -> length (getp (c_P c) i) = dim) -> pieces_coincide_on c l dim.
Proof.
  induction 1 as [c E|c knot rest' c1 c2 l E Hs Hc IH]; intros Hv.
  - (* no interior knot: the curve itself *)
    destruct (valid_no_interior tol c Hv E) as [Hn HU].
    pose proof Hv as (V1 & V2 & V3 & V4 & V5 & V6 & V7 & V8 & V9).
    split; [rewrite E; reflexivity|]. split.
    + constructor; [|constructor]. split; [reflexivity|]. split; [|exact Hn].
      exists (knR (c_U c) 0), (knR (c_U c) (length (c_P c) + c_p c)). split; [exact V7|exact HU].
    + intros dim Hdim j Hj. cbn [length] in Hj. assert (j = 0)%nat by lia. subst j.
      unfold breakpoints. rewrite E. cbn [dedup app nth]. split; [lra|].
      intros cc x Hc Hx. unfold piece_param. rewrite V4.
      replace (length (c_P c) + c_p c + 1 - 1)%nat with (length (c_P c) + c_p c)%nat by lia.
      f_equal. field. lra.
  - (* one split at the first interior knot, then the chain of the right piece *)
    pose proof Hv as (V1 & V2 & V3 & V4 & V5 & V6 & V7 & V8 & V9).
    pose proof (interior_len (c_p c) (c_U c) (length (c_P c)) V4) as HL. rewrite E in HL. cbn [length] in HL.
    assert (Hint : (S (c_p c) < length (c_P c))%nat) by lia.
    assert (Hknot : knot = knR (c_U c) (S (c_p c))).
    { pose proof (interior_nth (c_p c) (c_U c) (length (c_P c)) 0 V4 ltac:(lia)) as H0. rewrite E in H0. cbn [nth] in H0.
      rewrite H0. f_equal. lia. }
    subst knot. set (t := knR (c_U c) (S (c_p c))) in *.
    pose proof (st_geom tol c Hv Hint) as Hg. fold t in Hg.
    pose proof (split_curve_succeeds tol c t Hg) as Hs'. rewrite Hs in Hs'. inversion Hs'. subst c1 c2. clear Hs'.
    pose proof (st_right_valid tol c Hv Hint) as HvR. fold t in HvR.
    destruct (IH HvR) as (IHlen & IHF & IHco).
    pose proof (st_dedup tol c Hv Hint) as HD. fold t in HD.
    split; [|split].
    + cbn [length]. rewrite IHlen, HD. cbn [length]. rewrite map_length. reflexivity.
    + constructor; [|exact IHF]. split; [reflexivity|]. split.
      * exists 0, 1. split; [lra|]. exact (st_left_kv tol c Hv Hint).
      * exact (st_left_size tol c Hv Hint).
    + intros dim Hdim j Hj.
      pose proof (split_pieces_coincide_of_ok tol c t dim _ _ (conj Hg Hdim) Hs) as [HLeft HRight].
      pose proof (st_a0t tol c Hv Hint) as Hat. pose proof (st_tb0 tol c Hv Hint) as Htb. fold t in Hat, Htb.
      set (b0 := knR (c_U c) (length (c_P c) + c_p c)) in *.
      rewrite (breakpoints_step tol c Hv Hint). fold t b0.
      set (bsR := breakpoints (split_right tol c t)) in *.
      assert (HbsR : length bsR = S (length l)).
      { unfold bsR, breakpoints. cbn [length]. rewrite app_length. cbn [length]. rewrite IHlen.
        change (c_p (split_right tol c t)) with (c_p c). lia. }
      destruct j as [|j'].
      * (* the Bezier piece cut off on the left *)
        cbn [nth]. rewrite nth_map_lt by lia.
        assert (E0 : nth 0 bsR 0 = 0) by (unfold bsR, breakpoints; cbn [nth]; apply (st_R_ends tol c Hv Hint)).
        rewrite E0. replace (psi_ t b0 0) with t by (unfold psi_; ring).
        split; [lra|]. intros cc x Hcc Hx.
        rewrite <- (HLeft cc x Hcc) by lra. f_equal.
        pose proof (st_left_kv tol c Hv Hint) as HLkv. fold t in HLkv.
        unfold piece_param. rewrite HLkv.
        rewrite app_length, !repeat_length. unfold kn.
        rewrite app_nth1 by (rewrite repeat_length; lia). rewrite nth_repeat_lt by lia.
        rewrite app_nth2 by (rewrite repeat_length; lia). rewrite repeat_length, nth_repeat_lt by lia.
        cbn [o0 Rops]. ring.
      * (* a later piece: induction hypothesis on the right piece, mapped back *)
        cbn [length] in Hj. assert (Hj' : (j' < length l)%nat) by lia.
        change (nth (S j') (knR (c_U c) 0 :: map (psi_ t b0) bsR) 0) with (nth j' (map (psi_ t b0) bsR) 0).
        change (nth (S (S j')) (knR (c_U c) 0 :: map (psi_ t b0) bsR) 0) with (nth (S j') (map (psi_ t b0) bsR) 0).
        rewrite !nth_map_lt by lia.
        change (nth (S j') (split_left tol c t :: l) c) with (nth j' l c).
        rewrite (nth_indep l c (split_right tol c t) Hj').
        destruct (IHco dim (st_right_dim tol c Hv Hint dim Hdim) j' Hj') as [[Hr0 Hr1] IHpt].
        fold bsR in Hr0, Hr1, IHpt.
        set (u := nth j' bsR 0) in *. set (v := nth (S j') bsR 0) in *.
        assert (E0 : knR (c_U (split_right tol c t)) 0 = 0) by apply (st_R_ends tol c Hv Hint).
        rewrite E0 in Hr0.
        assert (Hd : 0 < b0 - t) by lra.
        assert (Hpu : t <= psi_ t b0 u) by (unfold psi_; assert (0 <= u * (b0 - t)) by (apply Rmult_le_pos; lra); lra).
        assert (Hpuv : psi_ t b0 u < psi_ t b0 v) by (unfold psi_; assert (u * (b0 - t) < v * (b0 - t)) by (apply Rmult_lt_compat_r; lra); lra).
        split; [lra|]. intros cc x Hcc Hx.
        set (y := (x - t) / (b0 - t)).
        assert (Hxy : x = psi_ t b0 y) by (unfold psi_, y; field; lra).
        assert (Hy : u <= y < v).
        { split.
          - destruct (Rle_lt_dec u y) as [H1|H1]; [exact H1|exfalso].
            assert (y * (b0 - t) < u * (b0 - t)) by (apply Rmult_lt_compat_r; lra). unfold psi_ in *. lra.
          - destruct (Rlt_le_dec y v) as [H1|H1]; [exact H1|exfalso].
            assert (v * (b0 - t) <= y * (b0 - t)) by (apply Rmult_le_compat_r; lra). unfold psi_ in *. lra. }
        rewrite <- (HRight cc x Hcc) by lra.
        replace (length (c_U c) - 1)%nat with (length (c_P c) + c_p c)%nat by lia. fold b0. fold y.
        rewrite <- (IHpt cc y Hcc Hy). f_equal.
        unfold piece_param. f_equal. f_equal. rewrite Hxy.
        replace (psi_ t b0 y - psi_ t b0 u) with ((y - u) * (b0 - t)) by (unfold psi_; ring).
        replace (psi_ t b0 v - psi_ t b0 u) with ((v - u) * (b0 - t)) by (unfold psi_; ring).
        field. split; lra.
Qed.
Print Assumptions chain_spec.

(* ---------------------------------------------------------------- decompose_curve *)
(* the hypotheses of the property (sorted, right length, both ends of full multiplicity p+1 with a < b) together with
   degree >= 1, interior multiplicities <= p and a separating tolerance give the loop invariant *)
Lemma dec_valid_of_ends tol (c : @curve R) :
  sortedR (c_U c) -> length (c_U c) = S (c_p c + length (c_P c)) ->
  bezier_kv (c_p c) (firstn (S (c_p c)) (c_U c) ++ skipn (length (c_U c) - S (c_p c)) (c_U c)) ->
  (1 <= c_p c)%nat -> (forall i, (1 <= i < length (c_P c))%nat -> knR (c_U c) i < knR (c_U c) (i + c_p c)) ->
  knots_separated tol (c_U c) -> dec_valid tol c.
Proof.
  intros Hs HL (a & b & Hab & E) Hp Hm Hsep.
  set (p := c_p c) in *. set (U := c_U c) in *. set (n := length (c_P c)) in *.
  replace (length U - S p)%nat with n in E by lia.
  apply app_eq_len in E; [|rewrite firstn_length, repeat_length; lia]. destruct E as [E1 E2].
  assert (A : forall i, (i <= p)%nat -> knR U i = a).
  { intros i Hi. unfold kn. rewrite <- (nth_firstn_lt U (S p) i) by lia. rewrite E1. apply nth_repeat_lt. lia. }
  assert (B : forall j, (j <= p)%nat -> knR U (n + j) = b).
  { intros j Hj. unfold kn. rewrite <- nth_skipn_add. rewrite E2. apply nth_repeat_lt. lia. }
  assert (Hpn : (p < n)%nat).
  { destruct (le_lt_dec n p) as [H|H]; [exfalso|exact H].
    pose proof (A n H) as H1. pose proof (B 0%nat ltac:(lia)) as H2. rewrite Nat.add_0_r in H2. lra. }
  unfold dec_valid. fold p U n.
  split; [exact Hp|]. split; [exact Hs|]. split; [exact Hpn|]. split; [lia|].
  split; [intros i Hi; rewrite (A i Hi), (A 0%nat) by lia; reflexivity|].
  split; [intros i Hi; replace i with (n + (i - n))%nat by lia; rewrite !B by lia; reflexivity|].
  split; [rewrite (A 0%nat), (B p) by lia; exact Hab|]. split; [exact Hm|exact Hsep].
Qed.

(* [G] decompose_count: number of pieces = number of distinct interior knot values + 1, every piece is a Bezier piece
   (degree p, p+1 control points, knot vector a^(p+1) b^(p+1)).
   This is C07_decompose_count_full with the three hypotheses it needs: degree >= 1, interior multiplicities <= p,
   a tolerance that separates distinct knots. *)
Theorem decompose_count : forall tol (c : @curve R) l ds,
  sortedR (c_U c) -> length (c_U c) = S (c_p c + length (c_P c)) ->
  bezier_kv (c_p c) (firstn (S (c_p c)) (c_U c) ++ skipn (length (c_U c) - S (c_p c)) (c_U c)) ->
  NoDup ds -> (forall x, In x ds <-> In x (interior_knots (c_p c) (c_U c))) ->
  (1 <= c_p c)%nat -> (forall i, (1 <= i < length (c_P c))%nat -> knR (c_U c) i < knR (c_U c) (i + c_p c)) ->
  knots_separated tol (c_U c) ->
  decompose_curve Rops tol c = Ok l ->
  length l = S (length ds) /\
  Forall (fun x => c_p x = c_p c /\ bezier_kv (c_p c) (c_U x) /\ length (c_P x) = S (c_p c)) l.
Proof.
  intros tol c l ds Hs HL Hb Hnd Hin Hp Hm Hsep Hdec.
  pose proof (dec_valid_of_ends tol c Hs HL Hb Hp Hm Hsep) as Hv.
  apply decompose_curve_is_split_chain in Hdec.
  destruct (chain_spec tol c l Hdec Hv) as (Hlen & HF & _). split; [|exact HF].
  rewrite Hlen. f_equal. symmetry. apply Permutation_length. apply NoDup_Permutation; [exact Hnd| |].
  - apply dedup_NoDup. apply (interior_sorted (c_p c) (c_U c) (length (c_P c))); [lia|exact Hs].
  - intros x. rewrite dedup_In. apply Hin.
Qed.
Print Assumptions decompose_count.

(* [G] decompose_pieces_coincide: the pieces are in order, piece j covers [b_j, b_{j+1}) where b = domain start, the
   distinct interior knots in increasing order, domain end; on that interval it equals the original under the affine map
   of the piece's own domain (first .. last knot of the piece) onto the interval *)
Theorem decompose_pieces_coincide : forall tol (c : @curve R) l dim,
  sortedR (c_U c) -> length (c_U c) = S (c_p c + length (c_P c)) ->
  bezier_kv (c_p c) (firstn (S (c_p c)) (c_U c) ++ skipn (length (c_U c) - S (c_p c)) (c_U c)) ->
  (1 <= c_p c)%nat -> (forall i, (1 <= i < length (c_P c))%nat -> knR (c_U c) i < knR (c_U c) (i + c_p c)) ->
  knots_separated tol (c_U c) ->
  (forall i, (i < length (c_P c))%nat -> length (getp (c_P c) i) = dim) ->
  decompose_curve Rops tol c = Ok l ->
  length (breakpoints c) = S (length l) /\ pieces_coincide_on c l dim.
Proof.
  intros tol c l dim Hs HL Hb Hp Hm Hsep Hdim Hdec.
  pose proof (dec_valid_of_ends tol c Hs HL Hb Hp Hm Hsep) as Hv.
  apply decompose_curve_is_split_chain in Hdec.
  destruct (chain_spec tol c l Hdec Hv) as (Hlen & _ & Hco). split; [|apply Hco; exact Hdim].
  unfold breakpoints. cbn [length]. rewrite app_length. cbn [length]. lia.
Qed.
Print Assumptions decompose_pieces_coincide.

(* the decomposition is never rejected under the invariant (fuel suffices): every step succeeds and shortens the
   knot vector of what is left *)
Lemma loop_succeeds tol : forall fuel c acc, dec_valid tol c -> (length (c_U c) < fuel + 2 * S (c_p c))%nat ->
  exists l, decompose_curve_loop Rops fuel tol c acc = Ok l.
Proof.
  induction fuel as [|fuel IH]; intros c acc Hv Hf.
  - exfalso. destruct Hv as (V1 & V2 & V3 & V4 & _). lia.
  - cbn [decompose_curve_loop]. destruct (interior_knots (c_p c) (c_U c)) as [|knot rest'] eqn:E; [eexists; reflexivity|].
    pose proof Hv as (V1 & V2 & V3 & V4 & _).
    pose proof (interior_len (c_p c) (c_U c) (length (c_P c)) V4) as HL. rewrite E in HL. cbn [length] in HL.
    assert (Hint : (S (c_p c) < length (c_P c))%nat) by lia.
    assert (Hknot : knot = knR (c_U c) (S (c_p c))).
    { pose proof (interior_nth (c_p c) (c_U c) (length (c_P c)) 0 V4 ltac:(lia)) as H0. rewrite E in H0. cbn [nth] in H0.
      rewrite H0. f_equal. lia. }
    subst knot. rewrite (split_curve_succeeds tol c _ (st_geom tol c Hv Hint)).
    apply IH; [exact (st_right_valid tol c Hv Hint)|].
    destruct (st_R_shape tol c Hv Hint) as (Ep & EP & EL & _). rewrite EL.
    change (c_p (split_right tol c (knR (c_U c) (S (c_p c))))) with (c_p c).
    pose proof (st_k tol c Hv Hint). lia.
Qed.

Theorem decompose_curve_succeeds tol (c : @curve R) : dec_valid tol c -> exists l, decompose_curve Rops tol c = Ok l.
Proof.
  intros Hv. unfold decompose_curve. apply loop_succeeds; [exact Hv|]. destruct Hv as (V1 & _). lia.
Qed.
Print Assumptions decompose_curve_succeeds.
