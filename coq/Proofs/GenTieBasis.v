(* Tie: generated helpers.basis_function (A2.2 with the arrays left / right / N updated in place) and its list
   wrapper basis_functions  =  Model/Basis.v (a scan over the previous row), for every scalar instance.
   Route: (1) the generated loops compute, step by step, an array-style fold (bfA_outer / bfA_inner) - symbolic
   execution, all indices shown in range under wf;  (2) that fold equals the model's recursion - pure list reasoning. *)
From Coq Require Import List ZArith Arith Bool Lia QArith.
From NV Require Import Scalar.Ops Model.Common Model.Basis Gen.Prelude Gen.Helpers Proofs.GenTieLib.
Import ListNotations.
Local Open Scope nat_scope.

Section Tie.
Context {T : Type} (K : ops T).
Notation kn := (kn K).
Notation "0" := (o0 K).

(* ---- (2a) the array-style reading of the two loops ---- *)
Definition bfA_inner (L R : list T) (j : nat) (st : list T * T) (r : nat) : list T * T :=
  let '(N, saved) := st in
  let temp := odiv K (nth r N 0) (oadd K (nth (S r) R 0) (nth (j - r) L 0)) in
  (upd N r (oadd K saved (omul K (nth (S r) R 0) temp)), omul K (nth (j - r) L 0) temp).

Definition bfA_outer (U : list T) (sp : nat) (u : T) (st : list T * list T * list T) (j : nat) : list T * list T * list T :=
  let '(L, R, N) := st in
  let L := upd L j (osub K u (kn U (sp + 1 - j))) in
  let R := upd R j (osub K (kn U (sp + j)) u) in
  let '(N, saved) := fold_left (bfA_inner L R j) (seq 0 j) (N, 0) in
  (L, R, upd N j saved).

Definition bfA_init (p : nat) : list T * list T * list T := (repeat 0 (S p), repeat 0 (S p), repeat (o1 K) (S p)).

Definition len3 (p : nat) (st : list T * list T * list T) : Prop :=
  let '(L, R, N) := st in length L = S p /\ length R = S p /\ length N = S p.

Lemma bfA_inner_len L R j : forall l st, length (fst (fold_left (bfA_inner L R j) l st)) = length (fst st).
Proof.
  induction l; intros [N s]; simpl; auto.
  rewrite IHl. simpl. apply upd_length.
Qed.

Lemma bfA_outer_len U sp u p st j : len3 p st -> len3 p (bfA_outer U sp u st j).
Proof.
  destruct st as [[L R] N]. intros (HL & HR & HN). unfold bfA_outer.
  pose proof (bfA_inner_len (upd L j (osub K u (kn U (sp + 1 - j)))) (upd R j (osub K (kn U (sp + j)) u)) j (seq 0 j) (N, 0)) as E.
  destruct (fold_left _ _ _) as [N' s']. simpl in E.
  unfold len3. rewrite !upd_length. repeat split; congruence.
Qed.

(* ---- (1) the generated code computes the array-style fold ---- *)
Theorem basis_function_gen_array (p : nat) (U : list T) (sp : nat) (u : T) :
  p <= sp + 1 -> sp + p < length U ->
  Helpers.basis_function K (Z.of_nat p) U (Z.of_nat sp) u =
  GOk (snd (fold_left (bfA_outer U sp u) (seq 1 p) (bfA_init p))).
Proof.
  intros Hp Hl. unfold Helpers.basis_function.
  replace (Z.of_nat p + 1)%Z with (Z.of_nat (S p)) by lia.
  rewrite !map_const_zrange, Nat2Z.id.
  rewrite zrange_1_nat.
  match goal with |- context [gfor (map Z.of_nat (seq 1 p)) ?ff ?s0] =>
    destruct (gfor_seq_fold (fun (_ : nat) (s s' : list T * list T * list T) => s = s' /\ len3 p s') ff (bfA_outer U sp u) p 1)
      with (s := s0) (s' := bfA_init p) as (t & Et & -> & _)
  end.
  - (* one iteration of the outer loop *)
    intros j [[L R] N] s' Hj [<- (HL & HR & HN)].
    cbn [gbind].
    rewrite (znth_Z U _ 0) by lia. cbn [gbind].
    rewrite zset_Z by lia. cbn [gbind].
    rewrite (znth_Z U _ 0) by lia. cbn [gbind].
    rewrite zset_Z by lia. cbn [gbind].
    replace (Z.to_nat (Z.of_nat sp + 1 - Z.of_nat j)) with (sp + 1 - j) by lia.
    replace (Z.to_nat (Z.of_nat sp + Z.of_nat j)) with (sp + j) by lia.
    rewrite !Nat2Z.id. fold (kn U (sp + 1 - j)) (kn U (sp + j)).
    set (L' := upd L j (osub K u (kn U (sp + 1 - j)))).
    set (R' := upd R j (osub K (kn U (sp + j)) u)).
    assert (HL' : length L' = S p) by (subst L'; now rewrite upd_length).
    assert (HR' : length R' = S p) by (subst R'; now rewrite upd_length).
    rewrite zrange_0_nat.
    match goal with |- context [gfor (map Z.of_nat (seq 0 j)) ?ff ?s0] =>
      destruct (gfor_seq_fold (fun (_ : nat) (s s' : list T * T) => s = s' /\ length (fst s') = S p) ff (bfA_inner L' R' j) j 0)
        with (s := s0) (s' := s0) as (ti & Eti & Hti & Hlen)
    end.
    + (* one iteration of the inner loop *)
      intros r [N0 sv] s0' Hr [<- HN0]. simpl in HN0.
      cbn [gbind].
      rewrite (znth_Z N0 _ 0) by lia. cbn [gbind].
      rewrite (znth_Z R' _ 0) by lia. cbn [gbind].
      rewrite (znth_Z L' _ 0) by lia. cbn [gbind].
      rewrite zset_Z by lia. cbn [gbind].
      replace (Z.to_nat (Z.of_nat r + 1)) with (S r) by lia.
      replace (Z.to_nat (Z.of_nat j - Z.of_nat r)) with (j - r) by lia.
      rewrite Nat2Z.id.
      eexists. split; [reflexivity|]. split; [reflexivity|]. simpl. now rewrite upd_length.
    + split; auto.
    + rewrite Eti. cbn [gbind].
      unfold bfA_outer. fold L' R'.
      destruct (fold_left (bfA_inner L' R' j) (seq 0 j) (N, 0)) as [N' sv'] eqn:EF.
      subst ti. simpl in Hlen.
      rewrite zset_Z by lia. cbn [gbind]. rewrite Nat2Z.id.
      eexists. split; [reflexivity|]. split; [reflexivity|].
      unfold len3. rewrite upd_length. auto.
  - split; auto. unfold bfA_init, len3. now rewrite !repeat_length.
  - rewrite Et. cbn [gbind].
    destruct (fold_left _ _ _) as [[L R] N]. reflexivity.
Qed.

(* ---- (2b) the array-style fold is the model's scan ---- *)
Fixpoint inner2 (U : list T) (sp : nat) (u : T) (j r : nat) (Nold : list T) (saved : T) : list T * T :=
  match Nold with
  | [] => ([], saved)
  | x :: rest =>
      let temp := odiv K x (oadd K (right K U sp u (S r)) (left K U sp u (j - r))) in
      let '(l, s) := inner2 U sp u j (S r) rest (omul K (left K U sp u (j - r)) temp) in
      (oadd K saved (omul K (right K U sp u (S r)) temp) :: l, s)
  end.

Lemma inner_inner2 U sp u j : forall Nold r saved,
  inner K U sp u j r Nold saved = fst (inner2 U sp u j r Nold saved) ++ [snd (inner2 U sp u j r Nold saved)].
Proof.
  induction Nold as [|x rest IH]; intros r saved; simpl; auto.
  rewrite IH. destruct (inner2 _ _ _ _ _ _ _); reflexivity.
Qed.

Lemma inner2_length U sp u j : forall Nold r saved, length (fst (inner2 U sp u j r Nold saved)) = length Nold.
Proof.
  induction Nold as [|x rest IH]; intros r saved; simpl; auto.
  specialize (IH (S r) (omul K (left K U sp u (j - r)) (odiv K x (oadd K (right K U sp u (S r)) (left K U sp u (j - r)))))).
  destruct (inner2 _ _ _ _ _ _ _); simpl in *. now rewrite IH.
Qed.

Lemma upd_app_mid {A} (done : list A) x l v : upd (done ++ x :: l) (length done) v = done ++ v :: l.
Proof. induction done; simpl; auto. now rewrite IHdone. Qed.

Lemma nth_app_mid {A} (done : list A) x l d : nth (length done) (done ++ x :: l) d = x.
Proof. induction done; simpl; auto. Qed.

Lemma bfA_inner_spec U sp u (L R : list T) (j : nat) :
  (forall k, 1 <= k <= j -> nth k L 0 = left K U sp u k /\ nth k R 0 = right K U sp u k) ->
  forall rest done saved tail, length done + length rest = j ->
  fold_left (bfA_inner L R j) (seq (length done) (length rest)) (done ++ rest ++ tail, saved) =
  (done ++ fst (inner2 U sp u j (length done) rest saved) ++ tail, snd (inner2 U sp u j (length done) rest saved)).
Proof.
  intros HLR. induction rest as [|x rest IH]; intros done saved tail Hlen; simpl; auto.
  simpl in Hlen.
  destruct (HLR (S (length done))) as [_ ER]; [lia|].
  destruct (HLR (j - length done)) as [EL _]; [lia|].
  rewrite nth_app_mid, upd_app_mid, ER, EL.
  set (temp := odiv K x (oadd K (right K U sp u (S (length done))) (left K U sp u (j - length done)))).
  set (v := oadd K saved (omul K (right K U sp u (S (length done))) temp)).
  specialize (IH (done ++ [v]) (omul K (left K U sp u (j - length done)) temp) tail).
  rewrite app_length in IH. simpl in IH. rewrite Nat.add_1_r in IH.
  rewrite <- app_assoc in IH. simpl in IH. rewrite IH by lia.
  destruct (inner2 U sp u j (S (length done)) rest _) as [l s]. simpl.
  now rewrite <- app_assoc.
Qed.

Lemma bf_len U sp u : forall q, length (Basis.basis_function K q U sp u) = S q.
Proof.
  induction q; simpl; auto.
  rewrite inner_inner2, app_length, inner2_length, IHq. simpl. lia.
Qed.

Lemma bfA_spec (p : nat) (U : list T) (sp : nat) (u : T) : forall j, j <= p ->
  exists L R, fold_left (bfA_outer U sp u) (seq 1 j) (bfA_init p) = (L, R, Basis.basis_function K j U sp u ++ repeat (o1 K) (p - j))
    /\ length L = S p /\ length R = S p
    /\ (forall k, 1 <= k <= j -> nth k L 0 = left K U sp u k /\ nth k R 0 = right K U sp u k).
Proof.
  induction j; intros Hj.
  - exists (repeat 0 (S p)), (repeat 0 (S p)). simpl. rewrite Nat.sub_0_r, !repeat_length.
    repeat split; auto; lia.
  - destruct IHj as (L & R & E & HL & HR & HLR); [lia|].
    rewrite seq_S, fold_left_app, E. cbn [fold_left]. unfold bfA_outer at 1.
    replace (1 + j) with (S j) by lia.
    set (L' := upd L (S j) (osub K u (kn U (sp + 1 - S j)))).
    set (R' := upd R (S j) (osub K (kn U (sp + S j)) u)).
    assert (HLR' : forall k, 1 <= k <= S j -> nth k L' 0 = left K U sp u k /\ nth k R' 0 = right K U sp u k).
    { intros k Hk. destruct (Nat.eq_dec k (S j)) as [->|Hne].
      - subst L' R'. rewrite !nth_upd_same by lia. split; reflexivity.
      - subst L' R'. rewrite !nth_upd_other by lia. apply HLR; lia. }
    pose proof (bfA_inner_spec U sp u L' R' (S j) HLR' (Basis.basis_function K j U sp u) [] 0 (repeat (o1 K) (p - j))) as F.
    rewrite bf_len in F. cbn [length app] in F. rewrite (F eq_refl). clear F.
    pose proof (inner2_length U sp u (S j) (Basis.basis_function K j U sp u) O 0) as IL. rewrite bf_len in IL.
    pose proof (inner_inner2 U sp u (S j) (Basis.basis_function K j U sp u) O 0) as II.
    destruct (inner2 U sp u (S j) O (Basis.basis_function K j U sp u) 0) as [l s]. simpl in IL, II. simpl.
    exists L', R'. split; [|subst L' R'; rewrite !upd_length; auto].
    f_equal. replace (p - j) with (S (p - S j)) by lia. simpl.
    rewrite II, <- IL, upd_app_mid, <- app_assoc. reflexivity.
Qed.

(* ---- the tie ---- *)
(* wf: degree <= span + 1 (the loop reads knot_vector[span + 1 - j], a negative index would wrap around) and
   span + degree < len(knot_vector) (it reads knot_vector[span + j]) *)
Theorem basis_function_tie (p : nat) (U : list T) (sp : nat) (u : T) :
  p <= sp + 1 -> sp + p < length U ->
  Helpers.basis_function K (Z.of_nat p) U (Z.of_nat sp) u = GOk (Basis.basis_function K p U sp u).
Proof.
  intros Hp Hl. rewrite basis_function_gen_array by auto.
  destruct (bfA_spec p U sp u p (le_n p)) as (L & R & E & _). rewrite E. simpl.
  now rewrite Nat.sub_diag, app_nil_r.
Qed.

(* helpers.basis_functions: zip(spans, knots) *)
Theorem basis_functions_tie (p : nat) (U : list T) (spans : list nat) (us : list T) :
  (forall sp, In sp spans -> p <= sp + 1 /\ sp + p < length U) ->
  Helpers.basis_functions K (Z.of_nat p) U (map Z.of_nat spans) us = GOk (Basis.basis_functions K p U spans us).
Proof.
  intros H. unfold Helpers.basis_functions, Basis.basis_functions.
  assert (E : combine (map Z.of_nat spans) us = map (fun su : nat * T => (Z.of_nat (fst su), snd su)) (combine spans us)).
  { clear H. revert us; induction spans; intros [|x us]; simpl; auto. now rewrite IHspans. }
  rewrite E, gfor_map.
  rewrite (gfor_append (combine spans us)
             (fun su : nat * T => Helpers.basis_function K (Z.of_nat p) U (Z.of_nat (fst su)) (snd su))
             (fun su => Basis.basis_function K p U (fst su) (snd su))).
  - reflexivity.
  - intros [sp x] Hin. simpl. apply in_combine_l in Hin. destruct (H sp Hin). now apply basis_function_tie.
Qed.
End Tie.

Definition basis_function_tie_R := @basis_function_tie _ Rops.
Definition basis_function_tie_Q := @basis_function_tie _ Qops.
Definition basis_functions_tie_R := @basis_functions_tie _ Rops.
Definition basis_functions_tie_Q := @basis_functions_tie _ Qops.

(* ---- non-vacuity (degree 3, a repeated interior knot) ---- *)
Local Open Scope Q_scope.
Definition exU : list Q := [0; 0; 0; 0; 1#4; 1#2; 1#2; 3#4; 1; 1; 1; 1].
Example basis_function_ex :
  Helpers.basis_function Qops 3 exU 4 (3#10) = GOk [16#125; 56#125; 21#50; 1#250]
  /\ Basis.basis_function Qops 3 exU 4 (3#10) = [16#125; 56#125; 21#50; 1#250]
  /\ Helpers.basis_function Qops 3 exU 6 (1#2) = GOk (Basis.basis_function Qops 3 exU 6 (1#2))
  /\ (3 <= 4 + 1)%nat /\ (4 + 3 < length exU)%nat.
Proof. repeat split; try (vm_compute; reflexivity); unfold exU; simpl; lia. Qed.
Example basis_functions_ex :
  Helpers.basis_functions Qops 3 exU [4; 6]%Z [3#10; 1#2] = GOk (Basis.basis_functions Qops 3 exU [4; 6]%nat [3#10; 1#2])
  /\ Basis.basis_functions Qops 3 exU [4; 6]%nat [3#10; 1#2] = [[16#125; 56#125; 21#50; 1#250]; [1#2; 1#2; 0; 0]].
Proof. split; vm_compute; reflexivity. Qed.
(* wf matters: with span + 1 < degree the index span + 1 - j is negative and Python reads from the end of the list *)
Example basis_function_wraparound :
  Helpers.basis_function Qops 3 [0; 1#4; 1#2; 3#4; 1; 5#4; 3#2] 1 (3#10) = GOk [-8#125; 39#50; 106#375; 1#750]
  /\ Basis.basis_function Qops 3 [0; 1#4; 1#2; 3#4; 1; 5#4; 3#2] 1 (3#10) = [16#125; 147#250; 106#375; 1#750].
Proof. split; vm_compute; reflexivity. Qed.
