(* Compile-checked statements recommended for Props/C02.v (round 3: rational curves, surfaces, rational surfaces).
   Same header as Props/C02.v plus the new Proofs files.  Every theorem is `exact <lemma>`. *)
From Coq Require Import List QArith Reals Lra Lia Arith Bool.
From NV Require Import Scalar.Ops Model.Common Model.Basis Model.Knots Model.Eval Model.Degree Model.Derivs.
From NV Require Import Proofs.Boehm Proofs.DerivAnalytic Proofs.BasisOneR Proofs.DerivLink Proofs.DerivLinkCurve Proofs.EvalR.
From NV Require Import Proofs.BasisR Proofs.DerivsR Proofs.DerivsRatSurf.
From NV Require Import Proofs.LeibnizRule Proofs.DerivLinkAbs Proofs.DerivRational Proofs.DerivSurface Proofs.DerivsRatSurfGen
  Proofs.DerivRationalSurface Proofs.DerivTangents Proofs.DerivGeneralInst.
Import ListNotations.

(* ------------------------------------------------------------------------------------------------ pure analysis *)
(* [G] general Leibniz rule on an open interval: if a = w * c and (a_k), (w_k), (c_k) are the iterated derivatives, then
       a_k = sum_{i<=k} C(k,i) w_i c_{k-i} *)
Theorem C02_leibniz_rule : forall (lo hi : R) (n : nat) (a w c : nat -> R -> R),
  (forall k x, (k < n)%nat -> (lo < x < hi)%R -> derivable_pt_lim (a k) x (a (S k) x)) ->
  (forall k x, (k < n)%nat -> (lo < x < hi)%R -> derivable_pt_lim (w k) x (w (S k) x)) ->
  (forall k x, (k < n)%nat -> (lo < x < hi)%R -> derivable_pt_lim (c k) x (c (S k) x)) ->
  (forall x, (lo < x < hi)%R -> a 0%nat x = (w 0%nat x * c 0%nat x)%R) ->
  forall k, (k <= n)%nat -> forall x, (lo < x < hi)%R ->
    a k x = sumf (fun i => (INR (binom k i) * w i x * c (k - i)%nat x)%R) (S k).
Proof. exact leibniz_rule. Qed.
Print Assumptions C02_leibniz_rule.

(* [G] converse for quotients: a family (c_k) that satisfies the Leibniz recursion against the true derivative families of
       a and w (w nowhere zero) is the derivative family of a/w: this is what turns C02_rat_curve_derivs_leibniz into a
       statement about derivatives *)
Theorem C02_quotient_derivatives_unique : forall (lo hi : R) (n : nat) (a w c : nat -> R -> R),
  (forall k x, (k < n)%nat -> (lo < x < hi)%R -> derivable_pt_lim (a k) x (a (S k) x)) ->
  (forall k x, (k < n)%nat -> (lo < x < hi)%R -> derivable_pt_lim (w k) x (w (S k) x)) ->
  (forall x, (lo < x < hi)%R -> w 0%nat x <> 0%R) ->
  (forall k x, (k <= n)%nat -> (lo < x < hi)%R ->
     sumf (fun i => (INR (binom k i) * w i x * c (k - i)%nat x)%R) (S k) = a k x) ->
  forall k, (k <= n)%nat -> kth_deriv_on lo hi k (fun x => (a 0%nat x / w 0%nat x)%R) (c k).
Proof. exact quotient_kth_deriv_on. Qed.
Print Assumptions C02_quotient_derivatives_unique.

(* ------------------------------------------------------------------------------------------------ rational curves *)
(* [B: degrees 1..5; every sorted knot vector, every span of the domain, every order (also above the degree), positive weights]
   coordinate d of the k-th vector returned by A4.2 on the homogeneous net Pw is the k-th iterated analytic derivative of the
   NURBS curve coordinate A_d(x)/w(x) on the open span *)
Theorem C02_rat_curve_derivs_are_the_true_derivatives_deg_le_5 : forall (U : list R) (Pw : list (list R)) (p dim : nat),
  sortedR U -> wf_net Pw (S dim) -> (1 <= p <= 5)%nat -> (p < length Pw)%nat -> length U = (length Pw + p + 1)%nat ->
  (forall i, (i < length Pw)%nat -> (0 < coord Pw i dim)%R) ->
  forall order s : nat, (p <= s < length Pw)%nat -> forall k d : nat, (k <= order)%nat -> (d < dim)%nat ->
  kth_deriv_on (knR U s) (knR U (s + 1)) k
    (fun x => (curve_def U p Pw d x / curve_def U p Pw dim x)%R)
    (fun x => nth d (nth k (rat_curve_derivs Rops (curve_derivs Rops (S dim) p U Pw x order) order) []) 0%R).
Proof. exact rat_curve_derivs_are_true_derivatives_deg_le_5. Qed.
Print Assumptions C02_rat_curve_derivs_are_the_true_derivatives_deg_le_5.

(* right derivatives on the half-open span, in particular at the knot (the property's convention) *)
Theorem C02_rat_curve_derivs_right_derivative_deg_le_5 : forall (U : list R) (Pw : list (list R)) (p dim : nat),
  sortedR U -> wf_net Pw (S dim) -> (1 <= p <= 5)%nat -> (p < length Pw)%nat -> length U = (length Pw + p + 1)%nat ->
  (forall i, (i < length Pw)%nat -> (0 < coord Pw i dim)%R) ->
  forall order s : nat, (p <= s < length Pw)%nat -> forall (k d : nat) (u : R), (S k <= order)%nat -> (d < dim)%nat ->
  (knR U s <= u < knR U (s + 1))%R ->
  right_derivable_pt_lim (fun x => nth d (nth k (rat_curve_derivs Rops (curve_derivs Rops (S dim) p U Pw x order) order) []) 0%R) u
    (nth d (nth (S k) (rat_curve_derivs Rops (curve_derivs Rops (S dim) p U Pw u order) order) []) 0%R).
Proof. exact rat_curve_derivs_right_derivative_deg_le_5. Qed.
Print Assumptions C02_rat_curve_derivs_right_derivative_deg_le_5.

(* order 0 is the evaluated point of the NURBS curve (C01's obj_curve_point), and the tangent query returns its derivative *)
Theorem C02_rat_curve_order0_is_point_deg_le_5 : forall (U : list R) (Pw : list (list R)) (p dim : nat),
  sortedR U -> wf_net Pw (S dim) -> (1 <= p <= 5)%nat -> (p < length Pw)%nat -> length U = (length Pw + p + 1)%nat ->
  (forall i, (i < length Pw)%nat -> (0 < coord Pw i dim)%R) ->
  forall order s : nat, (p <= s < length Pw)%nat -> forall (d : nat) (x : R), (d < dim)%nat -> (knR U s <= x < knR U (s + 1))%R ->
  nth d (nth 0 (rat_curve_derivs Rops (curve_derivs Rops (S dim) p U Pw x order) order) []) 0%R
  = nth d (obj_curve_point Rops true dim p U Pw x) 0%R.
Proof. exact rat_curve_derivs_order0_is_point_deg_le_5. Qed.
Print Assumptions C02_rat_curve_order0_is_point_deg_le_5.

Theorem C02_rat_tangent_curve_is_derivative_of_point_deg_le_5 : forall (U : list R) (Pw : list (list R)) (p dim : nat),
  sortedR U -> wf_net Pw (S dim) -> (1 <= p <= 5)%nat -> (p < length Pw)%nat -> length U = (length Pw + p + 1)%nat ->
  (forall i, (i < length Pw)%nat -> (0 < coord Pw i dim)%R) ->
  forall s, (p <= s < length Pw)%nat -> forall normalize u pt T d,
  tangent_curve Rops normalize true false (S dim) p U Pw u = Ok (pt, T) -> (d < dim)%nat -> (knR U s < u < knR U (s + 1))%R ->
  derivable_pt_lim (fun x => nth d (obj_curve_point Rops true dim p U Pw x) 0%R) u (nth d T 0%R).
Proof. exact rat_tangent_curve_is_derivative_of_point_deg_le_5. Qed.
Print Assumptions C02_rat_tangent_curve_is_derivative_of_point_deg_le_5.

(* ------------------------------------------------------------------------------------------------ surfaces *)
(* [B: degrees 1..5 per direction; every order, all k, l <= order incl. above the degrees] A3.6: SKL[k][l] is the tensor product
   of the Eq. 2.9 derivatives, sum over the whole net *)
Theorem C02_surface_derivs_is_eq29_tensor_deg_le_5 : forall (Uu Uv : list R) (P : list (list R)) (pu pv su sv dim : nat),
  sortedR Uu -> sortedR Uv -> wf_net P dim -> length P = (su * sv)%nat -> (1 <= pu <= 5)%nat -> (1 <= pv <= 5)%nat ->
  (pu < su)%nat -> (pv < sv)%nat -> length Uu = (su + pu + 1)%nat -> length Uv = (sv + pv + 1)%nat ->
  forall (u v : R) (order k l : nat), (knR Uu pu <= u < knR Uu su)%R -> (knR Uv pv <= v < knR Uv sv)%R ->
  (k <= order)%nat -> (l <= order)%nat ->
  length (get3 (surface_derivs Rops dim pu pv Uu Uv su sv P u v order) k l) = dim /\
  forall d, (d < dim)%nat ->
    nth d (get3 (surface_derivs Rops dim pu pv Uu Uv su sv P u v order) k l) 0%R
    = sumf (fun i => sumf (fun j => (DerivAnalytic.dN (Ufun Uu) k pu i u * DerivAnalytic.dN (Ufun Uv) l pv j v
                                      * coord P (j + sv * i) d)%R) sv) su.
Proof. exact surface_derivs_is_dN_tensor_deg_le_5. Qed.
Print Assumptions C02_surface_derivs_is_eq29_tensor_deg_le_5.

(* the mixed partials: k derivations in u of the surface (v fixed) give SKL[k][0], then l derivations in v (u fixed) give SKL[k][l] *)
Theorem C02_surface_derivs_are_the_mixed_partials_deg_le_5 : forall (Uu Uv : list R) (P : list (list R)) (pu pv su sv dim : nat),
  sortedR Uu -> sortedR Uv -> wf_net P dim -> length P = (su * sv)%nat -> (1 <= pu <= 5)%nat -> (1 <= pv <= 5)%nat ->
  (pu < su)%nat -> (pv < sv)%nat -> length Uu = (su + pu + 1)%nat -> length Uv = (sv + pv + 1)%nat ->
  forall tu tv : nat, (pu <= tu < su)%nat -> (pv <= tv < sv)%nat ->
  forall order k l d : nat, (k <= order)%nat -> (l <= order)%nat -> (d < dim)%nat ->
  (forall v, (knR Uv pv <= v < knR Uv sv)%R ->
     kth_deriv_on (knR Uu tu) (knR Uu (tu + 1)) k (fun x => surface_def Uu Uv pu pv su sv P d x v)
       (fun x => nth d (get3 (surface_derivs Rops dim pu pv Uu Uv su sv P x v order) k 0) 0%R)) /\
  (forall u, (knR Uu pu <= u < knR Uu su)%R ->
     kth_deriv_on (knR Uv tv) (knR Uv (tv + 1)) l
       (fun y => nth d (get3 (surface_derivs Rops dim pu pv Uu Uv su sv P u y order) k 0) 0%R)
       (fun y => nth d (get3 (surface_derivs Rops dim pu pv Uu Uv su sv P u y order) k l) 0%R)).
Proof. exact surface_derivs_are_mixed_partials_deg_le_5. Qed.
Print Assumptions C02_surface_derivs_are_the_mixed_partials_deg_le_5.

(* every entry: d/du SKL[k][l] = SKL[k+1][l] and d/dv SKL[k][l] = SKL[k][l+1] (so the order of derivation does not matter) *)
Theorem C02_surface_derivs_partial_u_deg_le_5 : forall (Uu Uv : list R) (P : list (list R)) (pu pv su sv dim : nat),
  sortedR Uu -> sortedR Uv -> wf_net P dim -> length P = (su * sv)%nat -> (1 <= pu <= 5)%nat -> (1 <= pv <= 5)%nat ->
  (pu < su)%nat -> (pv < sv)%nat -> length Uu = (su + pu + 1)%nat -> length Uv = (sv + pv + 1)%nat ->
  forall tu : nat, (pu <= tu < su)%nat -> forall (order k l d : nat) (u v : R),
  (S k <= order)%nat -> (l <= order)%nat -> (d < dim)%nat -> (knR Uu tu < u < knR Uu (tu + 1))%R -> (knR Uv pv <= v < knR Uv sv)%R ->
  derivable_pt_lim (fun x => nth d (get3 (surface_derivs Rops dim pu pv Uu Uv su sv P x v order) k l) 0%R) u
                   (nth d (get3 (surface_derivs Rops dim pu pv Uu Uv su sv P u v order) (S k) l) 0%R).
Proof. exact surface_derivs_partial_u_deg_le_5. Qed.
Print Assumptions C02_surface_derivs_partial_u_deg_le_5.

Theorem C02_surface_derivs_partial_v_deg_le_5 : forall (Uu Uv : list R) (P : list (list R)) (pu pv su sv dim : nat),
  sortedR Uu -> sortedR Uv -> wf_net P dim -> length P = (su * sv)%nat -> (1 <= pu <= 5)%nat -> (1 <= pv <= 5)%nat ->
  (pu < su)%nat -> (pv < sv)%nat -> length Uu = (su + pu + 1)%nat -> length Uv = (sv + pv + 1)%nat ->
  forall tv : nat, (pv <= tv < sv)%nat -> forall (order k l d : nat) (u v : R),
  (k <= order)%nat -> (S l <= order)%nat -> (d < dim)%nat -> (knR Uu pu <= u < knR Uu su)%R -> (knR Uv tv < v < knR Uv (tv + 1))%R ->
  derivable_pt_lim (fun y => nth d (get3 (surface_derivs Rops dim pu pv Uu Uv su sv P u y order) k l) 0%R) v
                   (nth d (get3 (surface_derivs Rops dim pu pv Uu Uv su sv P u v order) k (S l)) 0%R).
Proof. exact surface_derivs_partial_v_deg_le_5. Qed.
Print Assumptions C02_surface_derivs_partial_v_deg_le_5.

(* right derivatives at knots *)
Theorem C02_surface_derivs_partial_u_right_deg_le_5 : forall (Uu Uv : list R) (P : list (list R)) (pu pv su sv dim : nat),
  sortedR Uu -> sortedR Uv -> wf_net P dim -> length P = (su * sv)%nat -> (1 <= pu <= 5)%nat -> (1 <= pv <= 5)%nat ->
  (pu < su)%nat -> (pv < sv)%nat -> length Uu = (su + pu + 1)%nat -> length Uv = (sv + pv + 1)%nat ->
  forall tu : nat, (pu <= tu < su)%nat -> forall (order k l d : nat) (u v : R),
  (S k <= order)%nat -> (l <= order)%nat -> (d < dim)%nat -> (knR Uu tu <= u < knR Uu (tu + 1))%R -> (knR Uv pv <= v < knR Uv sv)%R ->
  right_derivable_pt_lim (fun x => nth d (get3 (surface_derivs Rops dim pu pv Uu Uv su sv P x v order) k l) 0%R) u
                         (nth d (get3 (surface_derivs Rops dim pu pv Uu Uv su sv P u v order) (S k) l) 0%R).
Proof. exact surface_derivs_partial_u_right_deg_le_5. Qed.
Print Assumptions C02_surface_derivs_partial_u_right_deg_le_5.

(* ------------------------------------------------------------------------------------------------ rational surfaces *)
(* [G] A4.4, EVERY order, every entry of the square, every coordinate c: the two-variable Leibniz identity
       (replaces C02_rat_surface_derivs_leibniz_order_le_3_partial) *)
Theorem C02_rat_surface_derivs_leibniz : forall (SKLw : list (list (list R))) (d order c : nat), (c < d)%nat ->
  (forall k l, (k <= order)%nat -> (l <= order)%nat -> length (get3 SKLw k l) = S d) ->
  vlast Rops (get3 SKLw 0 0) <> 0%R ->
  let SK := rat_surface_derivs Rops (S d) SKLw order in
  forall k l, (k <= order)%nat -> (l <= order)%nat ->
    length (get3 SK k l) = d /\
    leibniz2 (fun i j => vlast Rops (get3 SKLw i j)) (fun k l => nth c (get3 SK k l) 0%R) k l
    = nth c (removelast (get3 SKLw k l)) 0%R.
Proof. exact rat_surface_derivs_leibniz_gen. Qed.
Print Assumptions C02_rat_surface_derivs_leibniz.

(* [G] all degrees: positive weights give a positive weight function on the whole domain (denominator of the NURBS surface) *)
Theorem C02_surface_weight_function_positive : forall (Uu Uv : list R) (Pw : list (list R)) (pu pv su sv dim : nat) (u v : R),
  sortedR Uu -> sortedR Uv -> (pu < su)%nat -> (pv < sv)%nat -> length Uu = (su + pu + 1)%nat -> length Uv = (sv + pv + 1)%nat ->
  (knR Uu pu <= u < knR Uu su)%R -> (knR Uv pv <= v < knR Uv sv)%R ->
  (forall i, (i < su * sv)%nat -> (0 < coord Pw i dim)%R) -> (0 < surface_def Uu Uv pu pv su sv Pw dim u v)%R.
Proof. exact surface_weight_function_positive. Qed.
Print Assumptions C02_surface_weight_function_positive.

(* [B: degrees 1..5 per direction; every order; positive weights] the (k,l) entry returned by A4.4 is the (k,l) mixed partial of the
   NURBS surface coordinate A_d/w *)
Theorem C02_rat_surface_derivs_are_the_mixed_partials_deg_le_5 : forall (Uu Uv : list R) (Pw : list (list R)) (pu pv su sv dim : nat),
  sortedR Uu -> sortedR Uv -> wf_net Pw (S dim) -> length Pw = (su * sv)%nat -> (1 <= pu <= 5)%nat -> (1 <= pv <= 5)%nat ->
  (pu < su)%nat -> (pv < sv)%nat -> length Uu = (su + pu + 1)%nat -> length Uv = (sv + pv + 1)%nat ->
  (forall i, (i < su * sv)%nat -> (0 < coord Pw i dim)%R) ->
  forall order tu tv : nat, (pu <= tu < su)%nat -> (pv <= tv < sv)%nat ->
  forall k l d : nat, (k <= order)%nat -> (l <= order)%nat -> (d < dim)%nat ->
  (forall v, (knR Uv pv <= v < knR Uv sv)%R ->
     kth_deriv_on (knR Uu tu) (knR Uu (tu + 1)) k
       (fun x => (surface_def Uu Uv pu pv su sv Pw d x v / surface_def Uu Uv pu pv su sv Pw dim x v)%R)
       (fun x => nth d (get3 (rat_surface_derivs Rops (S dim) (surface_derivs Rops (S dim) pu pv Uu Uv su sv Pw x v order) order) k 0) 0%R)) /\
  (forall u, (knR Uu pu <= u < knR Uu su)%R ->
     kth_deriv_on (knR Uv tv) (knR Uv (tv + 1)) l
       (fun y => nth d (get3 (rat_surface_derivs Rops (S dim) (surface_derivs Rops (S dim) pu pv Uu Uv su sv Pw u y order) order) k 0) 0%R)
       (fun y => nth d (get3 (rat_surface_derivs Rops (S dim) (surface_derivs Rops (S dim) pu pv Uu Uv su sv Pw u y order) order) k l) 0%R)).
Proof. exact rat_surface_derivs_are_mixed_partials_deg_le_5. Qed.
Print Assumptions C02_rat_surface_derivs_are_the_mixed_partials_deg_le_5.

Theorem C02_rat_surface_derivs_partial_u_deg_le_5 : forall (Uu Uv : list R) (Pw : list (list R)) (pu pv su sv dim : nat),
  sortedR Uu -> sortedR Uv -> wf_net Pw (S dim) -> length Pw = (su * sv)%nat -> (1 <= pu <= 5)%nat -> (1 <= pv <= 5)%nat ->
  (pu < su)%nat -> (pv < sv)%nat -> length Uu = (su + pu + 1)%nat -> length Uv = (sv + pv + 1)%nat ->
  (forall i, (i < su * sv)%nat -> (0 < coord Pw i dim)%R) ->
  forall order tu : nat, (pu <= tu < su)%nat -> forall (k l d : nat) (u v : R),
  (S k <= order)%nat -> (l <= order)%nat -> (d < dim)%nat -> (knR Uu tu < u < knR Uu (tu + 1))%R -> (knR Uv pv <= v < knR Uv sv)%R ->
  derivable_pt_lim
    (fun x => nth d (get3 (rat_surface_derivs Rops (S dim) (surface_derivs Rops (S dim) pu pv Uu Uv su sv Pw x v order) order) k l) 0%R) u
    (nth d (get3 (rat_surface_derivs Rops (S dim) (surface_derivs Rops (S dim) pu pv Uu Uv su sv Pw u v order) order) (S k) l) 0%R).
Proof. exact rat_surface_derivs_partial_u_deg_le_5. Qed.
Print Assumptions C02_rat_surface_derivs_partial_u_deg_le_5.

Theorem C02_rat_surface_derivs_partial_v_deg_le_5 : forall (Uu Uv : list R) (Pw : list (list R)) (pu pv su sv dim : nat),
  sortedR Uu -> sortedR Uv -> wf_net Pw (S dim) -> length Pw = (su * sv)%nat -> (1 <= pu <= 5)%nat -> (1 <= pv <= 5)%nat ->
  (pu < su)%nat -> (pv < sv)%nat -> length Uu = (su + pu + 1)%nat -> length Uv = (sv + pv + 1)%nat ->
  (forall i, (i < su * sv)%nat -> (0 < coord Pw i dim)%R) ->
  forall order tv : nat, (pv <= tv < sv)%nat -> forall (k l d : nat) (u v : R),
  (k <= order)%nat -> (S l <= order)%nat -> (d < dim)%nat -> (knR Uu pu <= u < knR Uu su)%R -> (knR Uv tv < v < knR Uv (tv + 1))%R ->
  derivable_pt_lim
    (fun y => nth d (get3 (rat_surface_derivs Rops (S dim) (surface_derivs Rops (S dim) pu pv Uu Uv su sv Pw u y order) order) k l) 0%R) v
    (nth d (get3 (rat_surface_derivs Rops (S dim) (surface_derivs Rops (S dim) pu pv Uu Uv su sv Pw u v order) order) k (S l)) 0%R).
Proof. exact rat_surface_derivs_partial_v_deg_le_5. Qed.
Print Assumptions C02_rat_surface_derivs_partial_v_deg_le_5.

(* ------------------------------------------------------------------------------------------------ tangent / normal queries *)
(* the normal returned by operations.normal is the cross product of the TRUE partial-derivative vectors of the evaluated point,
   B-spline (rational = false) or NURBS (rational = true) *)
Theorem C02_normal_is_cross_of_true_partials_deg_le_5 : forall (Uu Uv : list R) (pu pv su sv : nat),
  sortedR Uu -> sortedR Uv -> (1 <= pu <= 5)%nat -> (1 <= pv <= 5)%nat -> (pu < su)%nat -> (pv < sv)%nat ->
  length Uu = (su + pu + 1)%nat -> length Uv = (sv + pv + 1)%nat ->
  forall tu tv : nat, (pu <= tu < su)%nat -> (pv <= tv < sv)%nat ->
  forall (rational : bool) (Pw : list (list R)) (dim : nat),
  let D := if rational then S dim else dim in
  wf_net Pw D -> length Pw = (su * sv)%nat -> (rational = true -> forall i, (i < su * sv)%nat -> (0 < coord Pw i dim)%R) ->
  forall normalize u v pt nv,
  normal_surface Rops normalize rational false D pu pv Uu Uv su sv Pw u v = Ok (pt, nv) ->
  (knR Uu tu < u < knR Uu (tu + 1))%R -> (knR Uv tv < v < knR Uv (tv + 1))%R ->
  exists Su Sv, nv = cross Rops Su Sv /\ forall d, (d < dim)%nat ->
    derivable_pt_lim (fun x => nth d (obj_surface_point Rops rational dim pu pv Uu Uv su sv Pw (x, v)) 0%R) u (nth d Su 0%R) /\
    derivable_pt_lim (fun y => nth d (obj_surface_point Rops rational dim pu pv Uu Uv su sv Pw (u, y)) 0%R) v (nth d Sv 0%R).
Proof. exact normal_surface_is_cross_of_true_partials_deg_le_5. Qed.
Print Assumptions C02_normal_is_cross_of_true_partials_deg_le_5.

(* ------------------------------------------------------------------------------------------------ all degrees *)
(* [G: ALL degrees] the same three main theorems with the general-degree link DersGeneral.ders_general (needs Proofs/DersGeneral.v in
   the closure) *)
Theorem C02_rat_curve_derivs_are_the_true_derivatives : forall (U : list R) (Pw : list (list R)) (p dim : nat),
  sortedR U -> wf_net Pw (S dim) -> (p < length Pw)%nat -> length U = (length Pw + p + 1)%nat ->
  (forall i, (i < length Pw)%nat -> (0 < coord Pw i dim)%R) ->
  forall order s : nat, (p <= s < length Pw)%nat -> forall k d : nat, (k <= order)%nat -> (d < dim)%nat ->
  kth_deriv_on (knR U s) (knR U (s + 1)) k
    (fun x => (curve_def U p Pw d x / curve_def U p Pw dim x)%R)
    (fun x => nth d (nth k (rat_curve_derivs Rops (curve_derivs Rops (S dim) p U Pw x order) order) []) 0%R).
Proof. exact rat_curve_derivs_are_true_derivatives_general. Qed.
Print Assumptions C02_rat_curve_derivs_are_the_true_derivatives.

Theorem C02_surface_derivs_are_the_mixed_partials : forall (Uu Uv : list R) (P : list (list R)) (pu pv su sv dim : nat),
  sortedR Uu -> sortedR Uv -> wf_net P dim -> length P = (su * sv)%nat ->
  (pu < su)%nat -> (pv < sv)%nat -> length Uu = (su + pu + 1)%nat -> length Uv = (sv + pv + 1)%nat ->
  forall tu tv : nat, (pu <= tu < su)%nat -> (pv <= tv < sv)%nat ->
  forall order k l d : nat, (k <= order)%nat -> (l <= order)%nat -> (d < dim)%nat ->
  (forall v, (knR Uv pv <= v < knR Uv sv)%R ->
     kth_deriv_on (knR Uu tu) (knR Uu (tu + 1)) k (fun x => surface_def Uu Uv pu pv su sv P d x v)
       (fun x => nth d (get3 (surface_derivs Rops dim pu pv Uu Uv su sv P x v order) k 0) 0%R)) /\
  (forall u, (knR Uu pu <= u < knR Uu su)%R ->
     kth_deriv_on (knR Uv tv) (knR Uv (tv + 1)) l
       (fun y => nth d (get3 (surface_derivs Rops dim pu pv Uu Uv su sv P u y order) k 0) 0%R)
       (fun y => nth d (get3 (surface_derivs Rops dim pu pv Uu Uv su sv P u y order) k l) 0%R)).
Proof. exact surface_derivs_are_mixed_partials_general. Qed.
Print Assumptions C02_surface_derivs_are_the_mixed_partials.

Theorem C02_rat_surface_derivs_are_the_mixed_partials : forall (Uu Uv : list R) (Pw : list (list R)) (pu pv su sv dim : nat),
  sortedR Uu -> sortedR Uv -> wf_net Pw (S dim) -> length Pw = (su * sv)%nat ->
  (pu < su)%nat -> (pv < sv)%nat -> length Uu = (su + pu + 1)%nat -> length Uv = (sv + pv + 1)%nat ->
  (forall i, (i < su * sv)%nat -> (0 < coord Pw i dim)%R) ->
  forall order tu tv : nat, (pu <= tu < su)%nat -> (pv <= tv < sv)%nat ->
  forall k l d : nat, (k <= order)%nat -> (l <= order)%nat -> (d < dim)%nat ->
  (forall v, (knR Uv pv <= v < knR Uv sv)%R ->
     kth_deriv_on (knR Uu tu) (knR Uu (tu + 1)) k
       (fun x => (surface_def Uu Uv pu pv su sv Pw d x v / surface_def Uu Uv pu pv su sv Pw dim x v)%R)
       (fun x => nth d (get3 (rat_surface_derivs Rops (S dim) (surface_derivs Rops (S dim) pu pv Uu Uv su sv Pw x v order) order) k 0) 0%R)) /\
  (forall u, (knR Uu pu <= u < knR Uu su)%R ->
     kth_deriv_on (knR Uv tv) (knR Uv (tv + 1)) l
       (fun y => nth d (get3 (rat_surface_derivs Rops (S dim) (surface_derivs Rops (S dim) pu pv Uu Uv su sv Pw u y order) order) k 0) 0%R)
       (fun y => nth d (get3 (rat_surface_derivs Rops (S dim) (surface_derivs Rops (S dim) pu pv Uu Uv su sv Pw u y order) order) k l) 0%R)).
Proof. exact rat_surface_derivs_are_mixed_partials_general. Qed.
Print Assumptions C02_rat_surface_derivs_are_the_mixed_partials.
