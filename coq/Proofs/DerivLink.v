(* Link between the executable models of the basis-function derivative algorithms (A2.3
   helpers.basis_function_ders, A2.5 helpers.basis_function_ders_one) and the ANALYTIC derivatives
   (derivable_pt_lim of the standard library) of the Cox-de Boor functions N (Boehm.v).

   T1 dN_same                         the two copies of the Eq. 2.9 specification coincide
   T2 ders_one_is_true_derivative     [G, all degrees] A2.5 entries = iterated analytic derivatives of N_{i,p}
   T3 dbasis_is_dN                    [G] the "active" Eq. 2.9 recursion (DersWindow.dbasis) = dN on the span
      ders_is_dN_deg_le_5             [B: p = 1..5; all knot vectors, spans, parameters] A2.3 rows = dN
   T4 ders_is_true_derivative_deg_le_5 and the one-step / right-derivative versions
   (T5, curves: Proofs/DerivLinkCurve.v) *)
From Coq Require Import List Reals Lra Lia Arith Bool.
From NV Require Import Scalar.Ops Model.Common Model.Basis Proofs.Boehm Proofs.BasisR Proofs.BasisOneR
  Proofs.DerivAnalytic Proofs.DersLocal Proofs.DersWindow Proofs.DersWindow56.
Import ListNotations.
Open Scope R_scope.

Notation dNa := DerivAnalytic.dN.   (* DerivAnalytic.dN U j p i u *)
Notation dNb := BasisOneR.dN.       (* BasisOneR.dN V d p i u *)

(* ------------------------------------------------------------------------------------------------ *)
(* T1                                                                                                *)
Theorem dN_same : forall U j p i u, DerivAnalytic.dN U j p i u = BasisOneR.dN U j p i u.
Proof.
  intros U j. induction j as [|j IH]; intros p i u; [reflexivity|].
  destruct p as [|q]; [reflexivity|].
  rewrite DerivAnalytic.dN_SS, BasisOneR.dN_SS, !IH. reflexivity.
Qed.

Lemma dNa_ext (V W : nat -> R) d p i u :
  (forall m, (i <= m <= i + p + 1)%nat -> V m = W m) -> dNa V d p i u = dNa W d p i u.
Proof. intros H. rewrite !dN_same. apply dN_ext. exact H. Qed.

Lemma dNa_support (V : nat -> R) (Vs : forall i, V i <= V (S i)) d p i u :
  (u < V i \/ V (i + p + 1)%nat <= u) -> dNa V d p i u = 0.
Proof. intros H. rewrite dN_same. apply dN_support; assumption. Qed.

(* index shift of the knot function *)
Lemma N_shift (V : nat -> R) s p : forall i u, N (fun m => V (s + m)%nat) p i u = N V p (s + i) u.
Proof.
  induction p as [|q IH]; intros i u; cbn [N].
  - replace (s + S i)%nat with (S (s + i)) by lia. reflexivity.
  - rewrite !IH.
    replace (s + (i + S q))%nat with (s + i + S q)%nat by lia.
    replace (s + (i + S q + 1))%nat with (s + i + S q + 1)%nat by lia.
    replace (s + S i)%nat with (S (s + i)) by lia. reflexivity.
Qed.

Lemma dNa_shift (V : nat -> R) s j : forall p i u, dNa (fun m => V (s + m)%nat) j p i u = dNa V j p (s + i) u.
Proof.
  induction j as [|j IH]; intros p i u.
  - cbn [DerivAnalytic.dN]. apply N_shift.
  - destruct p as [|q]; [reflexivity|]. rewrite !DerivAnalytic.dN_SS, !IH.
    replace (s + (i + S q))%nat with (s + i + S q)%nat by lia.
    replace (s + (i + S q + 1))%nat with (s + i + S q + 1)%nat by lia.
    replace (s + S i)%nat with (S (s + i)) by lia. reflexivity.
Qed.

(* ------------------------------------------------------------------------------------------------ *)
(* small analysis facts                                                                              *)
Lemma kth_deriv_on_ext a b j f : forall g h, (forall x, a < x < b -> h x = g x) ->
  kth_deriv_on a b j f g -> kth_deriv_on a b j f h.
Proof.
  destruct j as [|j]; intros g h E H; cbn [kth_deriv_on] in *.
  - intros x Hx. rewrite E by exact Hx. apply H, Hx.
  - destruct H as (g' & H1 & H2). exists g'. split; [exact H1|].
    intros x Hx. rewrite E by exact Hx. apply H2, Hx.
Qed.

(* a right derivative only depends on the function on [x, b) *)
Lemma rdl_local (g f : R -> R) b x l :
  x < b -> (forall y, x <= y < b -> g y = f y) ->
  right_derivable_pt_lim g x l -> right_derivable_pt_lim f x l.
Proof.
  intros Hx Hfg Hg eps Heps. destruct (Hg eps Heps) as (delta & Hd0 & Hd).
  exists (Rmin delta (b - x)). split; [apply Rmin_pos; lra|].
  intros h Hh Hlt.
  assert (H1 : h < delta) by (eapply Rlt_le_trans; [exact Hlt | apply Rmin_l]).
  assert (H2 : h < b - x) by (eapply Rlt_le_trans; [exact Hlt | apply Rmin_r]).
  rewrite <- (Hfg (x + h)) by lra. rewrite <- (Hfg x) by lra.
  apply Hd; assumption.
Qed.

(* ------------------------------------------------------------------------------------------------ *)
(* T2  [G] A2.5, all degrees                                                                         *)
Section DersOneAnalytic.
Variables (U : list R) (i p order : nat).
Hypothesis Usorted : sortedR U.
Hypothesis HL : (i + p + 1 < length U)%nat.

Lemma ders_one_is_dNa k' u : (k' <= order)%nat -> (k' <= p)%nat ->
  nth k' (basis_function_ders_one Rops p U i u order) 0 = dNa (Ufun U) k' p i u.
Proof. intros H1 H2. rewrite dN_same. apply ders_one_is_dN; assumption. Qed.

(* entry k' (as a function of the parameter) is a k'-th iterated analytic derivative of N_{i,p} on every
   knot span (k, k+1) of the knot vector (vacuous for empty spans) *)
Theorem ders_one_is_true_derivative k k' : (k' <= order)%nat -> (k' <= p)%nat ->
  kth_deriv_on (Ufun U k) (Ufun U (S k)) k'
    (fun x => N (Ufun U) p i x)
    (fun x => nth k' (basis_function_ders_one Rops p U i x order) 0).
Proof.
  intros H1 H2.
  apply (kth_deriv_on_ext _ _ _ _ (fun x => dNa (Ufun U) k' p i x)).
  - intros x _. apply ders_one_is_dNa; assumption.
  - apply dN_iterated. apply Ufun_sorted. exact Usorted.
Qed.

(* one step, directly with derivable_pt_lim: entry k'+1 at u is the derivative at u of entry k' *)
Theorem ders_one_consecutive_orders k k' u : (S k' <= order)%nat -> (S k' <= p)%nat ->
  Ufun U k < u < Ufun U (S k) ->
  derivable_pt_lim (fun x => nth k' (basis_function_ders_one Rops p U i x order) 0) u
                   (nth (S k') (basis_function_ders_one Rops p U i u order) 0).
Proof.
  intros H1 H2 Hu.
  apply (dl_ext (fun x => dNa (Ufun U) k' p i x)).
  - intros y. symmetry. apply ders_one_is_dNa; lia.
  - rewrite ders_one_is_dNa by lia.
    apply (dN_is_kth_derivative (Ufun U) (Ufun_sorted U Usorted) k). exact Hu.
Qed.

(* right derivative on the half-open span, in particular at the left knot *)
Theorem ders_one_right_derivative k k' u : (S k' <= order)%nat -> (S k' <= p)%nat ->
  Ufun U k <= u < Ufun U (S k) ->
  right_derivable_pt_lim (fun x => nth k' (basis_function_ders_one Rops p U i x order) 0) u
                         (nth (S k') (basis_function_ders_one Rops p U i u order) 0).
Proof.
  intros H1 H2 Hu.
  apply (rdl_local (fun x => dNa (Ufun U) k' p i x) _ (Ufun U (S k))); [lra| |].
  - intros y _. symmetry. apply ders_one_is_dNa; lia.
  - rewrite ders_one_is_dNa by lia.
    apply (dN_right_derivative (Ufun U) (Ufun_sorted U Usorted) k). exact Hu.
Qed.
End DersOneAnalytic.

(* ------------------------------------------------------------------------------------------------ *)
(* T3 (i)  [G] the active form of Eq. 2.9 (DersWindow.dbasis) is dN on the span: the terms it drops  *)
(*         belong to functions that vanish identically on the span                                   *)
Section DbasisDN.
Variables (U : list R) (span : nat) (u : R).
Hypothesis Usorted : sortedR U.
Hypothesis Hspan : knR U span <= u < knR U (span + 1).
Hypothesis HL1 : (span + 1 < length U)%nat.

Theorem dbasis_is_dN : forall k p, (p <= span)%nat -> (span + p < length U)%nat ->
  forall r, (r <= p)%nat -> nth r (dbasis U span u k p) 0 = dNa (Ufun U) k p (span - p + r) u.
Proof.
  pose proof (Ufun_sorted U Usorted) as Vs.
  induction k as [|k IH]; intros p Hp HL r Hr.
  - cbn [dbasis DerivAnalytic.dN]. apply bf_is_cox_de_boor_list; assumption.
  - destruct p as [|q].
    + assert (r = 0%nat) by lia. subst r. reflexivity.
    + cbn [dbasis]. rewrite nth_map_seq by lia. cbn [Nat.add].
      rewrite DerivAnalytic.dN_SS. f_equal.
      set (i := (span - S q + r)%nat).
      assert (E1 : (i + S q = span + r)%nat) by (unfold i; lia).
      f_equal.
      * destruct (Nat.eqb_spec r 0) as [->|Hr0].
        -- rewrite (dNa_support (Ufun U) Vs k q i u); [unfold Rdiv; ring|].
           right. replace (i + q + 1)%nat with span by (unfold i; lia).
           rewrite Ufun_in by lia. lra.
        -- rewrite (IH q) by lia. replace (span - q + (r - 1))%nat with i by (unfold i; lia).
           rewrite E1. rewrite !Ufun_in by (unfold i; lia).
           replace (span + r - S q)%nat with i by (unfold i; lia). reflexivity.
      * destruct (Nat.eqb_spec r (S q)) as [->|Hrq].
        -- rewrite (dNa_support (Ufun U) Vs k q (S i) u); [unfold Rdiv; ring|].
           left. replace (S i) with (span + 1)%nat by (unfold i; lia).
           rewrite Ufun_in by lia. lra.
        -- rewrite (IH q) by lia. replace (span - q + r)%nat with (S i) by (unfold i; lia).
           rewrite E1. rewrite !Ufun_in by (unfold i; lia).
           replace (span + r - q)%nat with (S i) by (unfold i; lia). reflexivity.
Qed.
End DbasisDN.

(* ------------------------------------------------------------------------------------------------ *)
(* T3 (ii)  lifting the symbolic-window results of DersWindow.v / DersWindow56.v to arbitrary        *)
(*          knot vectors and spans.  The window is taken on the total knot function Ufun (constant   *)
(*          after the last knot), so it is sorted even when  span + p + 1 = length U.                *)
Definition windowF (U : list R) (span p : nat) : list R :=
  map (fun i => Ufun U (span - p + i)) (seq 0 (2 * p + 2)).

Lemma windowF_length U span p : length (windowF U span p) = (2 * p + 2)%nat.
Proof. unfold windowF. rewrite map_length, seq_length. reflexivity. Qed.

Lemma windowF_kn U span p i : (i < 2 * p + 2)%nat -> knR (windowF U span p) i = Ufun U (span - p + i).
Proof. intros Hi. unfold windowF, kn. rsimp. rewrite nth_map_seq by exact Hi. reflexivity. Qed.

Lemma windowF_Ufun U span p i : (i < 2 * p + 2)%nat -> Ufun (windowF U span p) i = Ufun U (span - p + i).
Proof. intros Hi. rewrite Ufun_in by (rewrite windowF_length; exact Hi). apply windowF_kn, Hi. Qed.

Lemma windowF_sorted U span p : sortedR U -> sortedR (windowF U span p).
Proof.
  intros Hs i j Hij. rewrite windowF_length in Hij. rewrite !windowF_kn by lia.
  apply U_mono; [apply Ufun_sorted; exact Hs|lia].
Qed.

Lemma basis_function_ders_windowF U span u p order : (p <= span)%nat -> (span + p < length U)%nat ->
  basis_function_ders Rops p U span u order = basis_function_ders Rops p (windowF U span p) p u order.
Proof.
  intros Hp HL. apply basis_function_ders_local; intros j Hj; unfold Basis.left, Basis.right; rsimp.
  - rewrite windowF_kn by lia. rewrite Ufun_in by lia. do 2 f_equal. lia.
  - rewrite windowF_kn by lia. rewrite Ufun_in by lia. do 2 f_equal. lia.
Qed.

(* what DersWindow proves for one degree, as a statement about every sorted list of 2p+2 knots *)
Definition window_ok (p : nat) : Prop :=
  forall (W : list R) (u : R), length W = (2 * p + 2)%nat -> sortedR W ->
    knR W p <= u < knR W (p + 1) ->
    forall k, (k <= p)%nat -> nth k (basis_function_ders Rops p W p u p) [] = dbasis W p u k p.

Theorem ders_is_dN_of_window p : window_ok p ->
  forall (U : list R) (span : nat) (u : R), sortedR U ->
    (p <= span)%nat -> (span + p < length U)%nat -> (span + 1 < length U)%nat ->
    knR U span <= u < knR U (span + 1) ->
    forall k r, (k <= p)%nat -> (r <= p)%nat ->
      nth r (nth k (basis_function_ders Rops p U span u p) []) 0 = dNa (Ufun U) k p (span - p + r) u.
Proof.
  intros Hok U span u Hs Hp HL HL1 Hu k r Hk Hr.
  rewrite basis_function_ders_windowF by assumption.
  set (W := windowF U span p).
  assert (HWl : length W = (2 * p + 2)%nat) by apply windowF_length.
  assert (HWs : sortedR W) by (apply windowF_sorted; exact Hs).
  assert (HWu : knR W p <= u < knR W (p + 1)).
  { unfold W. rewrite !windowF_kn by lia. rewrite !Ufun_in by lia.
    replace (span - p + p)%nat with span by lia. replace (span - p + (p + 1))%nat with (span + 1)%nat by lia.
    exact Hu. }
  rewrite (Hok W u HWl HWs HWu k Hk).
  rewrite (dbasis_is_dN W p u HWs HWu) by lia.
  replace (p - p + r)%nat with r by lia.
  rewrite <- dNa_shift. apply dNa_ext. intros m Hm. apply windowF_Ufun. lia.
Qed.

(* the five instances *)
Ltac destruct_len W H :=
  repeat (let x := fresh "k" in destruct W as [|x W]; [discriminate H|]; cbn [length] in H);
  destruct W; [|discriminate H].

Lemma window_ok_1 : window_ok 1.
Proof.
  intros W u HW Hs Hu k Hk. destruct_len W HW.
  apply ders_is_dbasis_1; try exact Hk; try (apply Hu);
    try (apply (Hs 0 1)%nat; cbn; lia); try (apply (Hs 2 3)%nat; cbn; lia).
Qed.

Ltac sorted_facts Hs n :=
  lazymatch n with
  | O => idtac
  | S ?m => let H := fresh "Hk" in
            pose proof (Hs m (S m) ltac:(cbn [length]; lia)) as H; cbn [kn nth] in H; sorted_facts Hs m
  end.

Ltac window_tac lem n :=
  let W := fresh "W" in let u := fresh "u" in let HW := fresh "HW" in let Hs := fresh "Hs" in
  let Hu := fresh "Hu" in let k := fresh "k" in let Hk := fresh "Hk" in
  intros W u HW Hs Hu k Hk; destruct_len W HW;
  sorted_facts Hs n; cbn [kn nth Nat.add] in Hu; destruct Hu;
  apply lem; assumption.

Lemma window_ok_2 : window_ok 2. Proof. window_tac ders_is_dbasis_2 5%nat. Qed.
Lemma window_ok_3 : window_ok 3. Proof. window_tac ders_is_dbasis_3 7%nat. Qed.
Lemma window_ok_4 : window_ok 4. Proof. window_tac ders_is_dbasis_4 9%nat. Qed.
Lemma window_ok_5 : window_ok 5. Proof. window_tac ders_is_dbasis_5 11%nat. Qed.

(* T3  [B: degrees 1..5; every sorted knot vector (any multiplicities), span, parameter of the span] *)
Theorem ders_is_dN_deg_le_5 (U : list R) (p span : nat) (u : R) :
  sortedR U -> (1 <= p <= 5)%nat ->
  (p <= span)%nat -> (span + p < length U)%nat -> (span + 1 < length U)%nat ->
  knR U span <= u < knR U (span + 1) ->
  forall k r, (k <= p)%nat -> (r <= p)%nat ->
    nth r (nth k (basis_function_ders Rops p U span u p) []) 0
    = DerivAnalytic.dN (Ufun U) k p (span - p + r) u.
Proof.
  intros Hs Hp. assert (Hc : (p = 1 \/ p = 2 \/ p = 3 \/ p = 4 \/ p = 5)%nat) by lia.
  destruct Hc as [-> | [-> | [-> | [-> | ->]]]].
  - apply (ders_is_dN_of_window 1 window_ok_1); exact Hs.
  - apply (ders_is_dN_of_window 2 window_ok_2); exact Hs.
  - apply (ders_is_dN_of_window 3 window_ok_3); exact Hs.
  - apply (ders_is_dN_of_window 4 window_ok_4); exact Hs.
  - apply (ders_is_dN_of_window 5 window_ok_5); exact Hs.
Qed.

(* the same with the copy of the specification used by BasisOneR (A2.5): A2.3 and A2.5 agree *)
Corollary ders_is_dN_deg_le_5' (U : list R) (p span : nat) (u : R) :
  sortedR U -> (1 <= p <= 5)%nat ->
  (p <= span)%nat -> (span + p < length U)%nat -> (span + 1 < length U)%nat ->
  knR U span <= u < knR U (span + 1) ->
  forall k r, (k <= p)%nat -> (r <= p)%nat ->
    nth r (nth k (basis_function_ders Rops p U span u p) []) 0
    = BasisOneR.dN (Ufun U) k p (span - p + r) u.
Proof. intros. rewrite <- dN_same. apply ders_is_dN_deg_le_5; assumption. Qed.

Corollary ders_agrees_with_ders_one_deg_le_5 (U : list R) (p span : nat) (u : R) :
  sortedR U -> (1 <= p <= 5)%nat ->
  (p <= span)%nat -> (span + p + 1 < length U)%nat ->
  knR U span <= u < knR U (span + 1) ->
  forall k r, (k <= p)%nat -> (r <= p)%nat ->
    nth r (nth k (basis_function_ders Rops p U span u p) []) 0
    = nth k (basis_function_ders_one Rops p U (span - p + r) u p) 0.
Proof.
  intros Hs Hp Hsp HL Hu k r Hk Hr.
  rewrite ders_is_dN_deg_le_5' by (try assumption; lia).
  symmetry. apply ders_one_is_dN; try assumption; lia.
Qed.

(* ------------------------------------------------------------------------------------------------ *)
(* T4  each entry of row k of A2.3, as a function of the parameter (span fixed), is the k-th         *)
(*     analytic derivative of the corresponding Cox-de Boor function on the open span                *)
Section DersAnalytic.
Variables (U : list R) (p span : nat).
Hypothesis Usorted : sortedR U.
Hypothesis Hp : (1 <= p <= 5)%nat.
Hypothesis Hsp : (p <= span)%nat.
Hypothesis HL : (span + p < length U)%nat.
Hypothesis HL1 : (span + 1 < length U)%nat.

Let Vs := Ufun_sorted U Usorted.
Let Ek : Ufun U span = knR U span. Proof. apply Ufun_in. lia. Qed.
Let Ek1 : Ufun U (S span) = knR U (span + 1). Proof. rewrite Ufun_in by lia. f_equal. lia. Qed.

Theorem ders_is_true_derivative_deg_le_5 k r : (k <= p)%nat -> (r <= p)%nat ->
  kth_deriv_on (knR U span) (knR U (span + 1)) k
    (fun x => N (Ufun U) p (span - p + r) x)
    (fun x => nth r (nth k (basis_function_ders Rops p U span x p) []) 0).
Proof.
  intros Hk Hr.
  apply (kth_deriv_on_ext _ _ _ _ (fun x => dNa (Ufun U) k p (span - p + r) x)).
  - intros x Hx. apply ders_is_dN_deg_le_5; try assumption. lra.
  - rewrite <- Ek, <- Ek1. apply dN_iterated. exact Vs.
Qed.

(* one step: row k+1 at u is the (two-sided) derivative at u of row k, u strictly inside the span *)
Theorem ders_consecutive_rows_deg_le_5 k r u : (S k <= p)%nat -> (r <= p)%nat ->
  knR U span < u < knR U (span + 1) ->
  derivable_pt_lim (fun x => nth r (nth k (basis_function_ders Rops p U span x p) []) 0) u
                   (nth r (nth (S k) (basis_function_ders Rops p U span u p) []) 0).
Proof.
  intros Hk Hr Hu.
  apply (dl_local (fun x => dNa (Ufun U) k p (span - p + r) x) _ (knR U span) (knR U (span + 1)));
    [exact Hu| |].
  - intros y Hy. symmetry. apply ders_is_dN_deg_le_5; try assumption; try lia. lra.
  - rewrite ders_is_dN_deg_le_5 by (try assumption; try lia; lra).
    apply (dN_is_kth_derivative (Ufun U) Vs span). rewrite Ek, Ek1. exact Hu.
Qed.

(* right derivative on the half-open span [U_span, U_{span+1}), in particular at the left knot U_span *)
Theorem ders_right_derivative_deg_le_5 k r u : (S k <= p)%nat -> (r <= p)%nat ->
  knR U span <= u < knR U (span + 1) ->
  right_derivable_pt_lim (fun x => nth r (nth k (basis_function_ders Rops p U span x p) []) 0) u
                         (nth r (nth (S k) (basis_function_ders Rops p U span u p) []) 0).
Proof.
  intros Hk Hr Hu.
  apply (rdl_local (fun x => dNa (Ufun U) k p (span - p + r) x) _ (knR U (span + 1))); [lra| |].
  - intros y Hy. symmetry. apply ders_is_dN_deg_le_5; try assumption; try lia. lra.
  - rewrite ders_is_dN_deg_le_5 by (try assumption; lia).
    apply (dN_right_derivative (Ufun U) Vs span). rewrite Ek, Ek1. exact Hu.
Qed.

Corollary ders_right_derivative_at_knot_deg_le_5 k r : (S k <= p)%nat -> (r <= p)%nat ->
  knR U span < knR U (span + 1) ->
  right_derivable_pt_lim (fun x => nth r (nth k (basis_function_ders Rops p U span x p) []) 0) (knR U span)
                         (nth r (nth (S k) (basis_function_ders Rops p U span (knR U span) p) []) 0).
Proof. intros Hk Hr Hne. apply ders_right_derivative_deg_le_5; try assumption. lra. Qed.
End DersAnalytic.

Check dN_same.
Check ders_one_is_true_derivative.
Check ders_one_consecutive_orders.
Check ders_one_right_derivative.
Check dbasis_is_dN.
Check ders_is_dN_of_window.
Check ders_is_dN_deg_le_5.
Check ders_agrees_with_ders_one_deg_le_5.
Check ders_is_true_derivative_deg_le_5.
Check ders_consecutive_rows_deg_le_5.
Check ders_right_derivative_deg_le_5.
Check ders_right_derivative_at_knot_deg_le_5.

Print Assumptions dN_same.
Print Assumptions ders_one_is_true_derivative.
Print Assumptions ders_one_consecutive_orders.
Print Assumptions ders_one_right_derivative.
Print Assumptions dbasis_is_dN.
Print Assumptions ders_is_dN_deg_le_5.
Print Assumptions ders_agrees_with_ders_one_deg_le_5.
Print Assumptions ders_is_true_derivative_deg_le_5.
Print Assumptions ders_consecutive_rows_deg_le_5.
Print Assumptions ders_right_derivative_deg_le_5.
Print Assumptions ders_right_derivative_at_knot_deg_le_5.

(* sanity (non-vacuity): quadratic, interior knot, first span; the hypotheses are satisfiable *)
Example ders_rows_sanity : forall u, 0 < u < 1 ->
  derivable_pt_lim (fun x => nth 1 (nth 0 (basis_function_ders Rops 2 [0; 0; 0; 1; 2; 2; 2] 2 x 2) []) 0) u
                   (nth 1 (nth 1 (basis_function_ders Rops 2 [0; 0; 0; 1; 2; 2; 2] 2 u 2) []) 0).
Proof.
  intros u Hu. apply ders_consecutive_rows_deg_le_5; try (cbn [length]; lia).
  - intros i j H. cbn [length] in H.
    do 7 (destruct i as [|i]; [do 7 (destruct j as [|j]; [first [exfalso; lia | cbn [kn nth]; rsimp; lra]|]); exfalso; lia|]).
    exfalso; lia.
  - cbn [kn nth Nat.add]. exact Hu.
Qed.
