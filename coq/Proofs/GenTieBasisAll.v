(* Tie: generated helpers.basis_function_all  =  Model/Basis.v basis_function_all, for every scalar instance.
   The source returns a (p+1) x (p+1) table N[j][i] = basis_function(i)[j] for j <= i and None below the diagonal (j > i);
   the model keeps the defined entries only (row j = [N[j][j], ..., N[j][p]]).  inj_bfall is the obvious injection. *)
From Coq Require Import List ZArith Arith Bool Lia QArith.
From NV Require Import Scalar.Ops Model.Common Model.Basis Model.Eval Model.Degree Model.Derivs
  Gen.Prelude Gen.PreludeExt Gen.Helpers Gen.HelpersC
  Proofs.GenTieLib Proofs.GenTieLib2 Proofs.GenTieBasis Proofs.GenTieEvalLib.
Import ListNotations.
Local Open Scope nat_scope.

Section Tie.
Context {T : Type} (K : ops T).

(* the table of the source for the rows M of the model: entry (j, i) is Some M[j][i - j] for j <= i, None for j > i *)
Definition inj_bfall (p : nat) (M : list (list T)) : list (list (option T)) :=
  map (fun j => map (fun i => if Nat.leb j i then Some (bfall_get K M j i) else None) (seq 0 (S p))) (seq 0 (S p)).

Lemma bfall_get_model p U sp u j i : j <= i -> i <= p ->
  bfall_get K (Basis.basis_function_all K p U sp u) j i = nth j (Basis.basis_function K i U sp u) (o0 K).
Proof.
  intros Hji Hip. unfold bfall_get, Basis.basis_function_all.
  rewrite (nth_map_lt _ _ j 0) by (rewrite seq_length; lia). rewrite seq_nth by lia. cbn [plus].
  rewrite (nth_map_lt _ _ (i - j) 0) by (rewrite seq_length; lia). rewrite seq_nth by lia.
  replace (j + (i - j)) with i by lia. reflexivity.
Qed.

Lemma nth_inj_bfall p M j i : j <= p -> i <= p ->
  nth i (nth j (inj_bfall p M) []) None = if Nat.leb j i then Some (bfall_get K M j i) else None.
Proof.
  intros Hj Hi. unfold inj_bfall.
  rewrite (nth_map_lt _ _ j 0) by (rewrite seq_length; lia). rewrite seq_nth by lia. cbn [plus].
  rewrite (nth_map_lt _ _ i 0) by (rewrite seq_length; lia). rewrite seq_nth by lia. reflexivity.
Qed.

Definition shape (p : nat) (N : list (list (option T))) : Prop :=
  length N = S p /\ forall j, j <= p -> length (nth j N []) = S p.

(* wf: as for basis_function *)
Theorem basis_function_all_tie (p : nat) (U : list T) (sp : nat) (u : T) :
  p <= sp + 1 -> sp + p < length U ->
  HelpersC.basis_function_all K (Z.of_nat p) U (Z.of_nat sp) u = GOk (inj_bfall p (Basis.basis_function_all K p U sp u)).
Proof.
  intros Hp Hl. unfold HelpersC.basis_function_all.
  replace (Z.of_nat p + 1)%Z with (Z.of_nat (S p)) by lia.
  rewrite !map_const_zrange, Nat2Z.id, zrange_0_nat.
  set (bf := fun i => Basis.basis_function K i U sp u).
  match goal with |- gbind (gfor _ ?f _) _ = _ =>
    destruct (gfor_seq_inv (fun i N => shape p N /\ forall j i', j <= p -> i' <= p ->
        nth i' (nth j N []) None = if andb (Nat.leb j i') (Nat.ltb i' i) then Some (nth j (bf i') (o0 K)) else None) f (S p) 0)
      with (s := repeat (repeat (@None T) (S p)) (S p)) as (N & E & (S1 & S2) & HN)
  end.
  - intros i N Hi ((S1 & S2) & HN). cbn [plus] in Hi.
    rewrite basis_function_tie by lia. cbn [gbind]. fold (bf i).
    replace (Z.of_nat i + 1)%Z with (Z.of_nat (S i)) by lia. rewrite zrange_0_nat.
    match goal with |- exists t, gbind (gfor _ ?f _) _ = _ /\ _ =>
      destruct (gfor_seq_inv (fun jj N => shape p N /\ forall j i', j <= p -> i' <= p ->
          nth i' (nth j N []) None =
          if andb (Nat.leb j i') (orb (Nat.ltb i' i) (andb (Nat.eqb i' i) (Nat.ltb j jj))) then Some (nth j (bf i') (o0 K)) else None) f (S i) 0)
        with (s := N) as (N' & E' & (S1' & S2') & HN')
    end.
    + intros jj M Hjj ((T1 & T2) & HM). cbn [plus] in Hjj.
      rewrite (znth_nat (bf i) jj (o0 K)) by (unfold bf; rewrite bf_length; lia). cbn [gbind].
      rewrite (znth_nat M jj []) by lia. cbn [gbind].
      rewrite zset_nat by (rewrite T2; lia). cbn [gbind]. rewrite zset_nat by lia. cbn [gbind].
      eexists. split; [reflexivity|]. split.
      * split; [now rewrite upd_length|]. intros j Hj. rewrite nth_upd.
        destruct (Nat.eqb_spec jj j) as [->|]; [|now apply T2].
        destruct (Nat.ltb_spec j (length M)); [|lia]. rewrite upd_length. now apply T2.
      * intros j i' Hj Hi'. rewrite nth_nth_upd2.
        destruct (Nat.eqb_spec jj j) as [->|Hne]; destruct (Nat.eqb_spec i i') as [<-|Hne']; cbn [andb].
        -- rewrite T1, T2 by lia.
           destruct (Nat.ltb_spec j (S p)); [|lia]. destruct (Nat.ltb_spec i (S p)); [|lia]. cbn [andb].
           destruct (Nat.leb_spec j i); [|lia]. rewrite Nat.eqb_refl. destruct (Nat.ltb_spec j (S j)); [|lia].
           cbn [andb]. now rewrite orb_true_r.
        -- rewrite HM by auto. destruct (Nat.eqb_spec i' i); [lia|]. reflexivity.
        -- rewrite HM by auto. rewrite Nat.eqb_refl.
           destruct (Nat.ltb_spec j jj); destruct (Nat.ltb_spec j (S jj)); try lia; reflexivity.
        -- rewrite HM by auto. destruct (Nat.eqb_spec i' i); [lia|]. reflexivity.
    + split; [split; auto|]. intros j i' Hj Hi'. rewrite HN by auto.
      destruct (Nat.ltb_spec j 0); [lia|]. now rewrite andb_false_r, orb_false_r.
    + rewrite E'. cbn [gbind]. eexists. split; [reflexivity|]. split; [split; auto|].
      intros j i' Hj Hi'. rewrite HN' by auto. cbn [plus].
      destruct (Nat.leb_spec j i'); cbn [andb]; auto.
      destruct (Nat.ltb_spec i' i); destruct (Nat.ltb_spec i' (S i)); destruct (Nat.eqb_spec i' i); destruct (Nat.ltb_spec j (S i));
        cbn [andb orb]; try lia; reflexivity.
  - split.
    + split; [apply repeat_length|]. intros j Hj. rewrite nth_repeat_lt by lia. apply repeat_length.
    + intros j i' Hj Hi'. rewrite !nth_repeat_lt by lia. destruct (Nat.ltb_spec i' 0); [lia|]. now rewrite andb_false_r.
  - rewrite E. cbn [gbind]. f_equal.
    apply (nth_ext _ _ [] []).
    + rewrite S1. unfold inj_bfall. now rewrite map_length, seq_length.
    + intros j Hj. rewrite S1 in Hj. apply (nth_ext _ _ None None).
      * rewrite S2 by lia. unfold inj_bfall.
        rewrite (nth_map_lt _ _ j 0) by (rewrite seq_length; lia). now rewrite map_length, seq_length.
      * intros i Hi. rewrite S2 in Hi by lia. rewrite HN, nth_inj_bfall by lia. cbn [plus].
        destruct (Nat.leb_spec j i); cbn [andb]; auto.
        destruct (Nat.ltb_spec i (S p)); [|lia]. rewrite bfall_get_model by lia. reflexivity.
Qed.
End Tie.

Definition basis_function_all_tie_R := @basis_function_all_tie _ Rops.
Definition basis_function_all_tie_Q := @basis_function_all_tie _ Qops.

(* ---- non-vacuity (degree 3, a repeated interior knot) ---- *)
Local Open Scope Q_scope.
Definition exU : list Q := [0; 0; 0; 0; 1#4; 1#2; 1#2; 3#4; 1; 1; 1; 1].
Example basis_function_all_ex :
  HelpersC.basis_function_all Qops 3 exU 4 (3#10) = GOk (inj_bfall Qops 3 (Basis.basis_function_all Qops 3 exU 4 (3#10)))
  /\ inj_bfall Qops 3 (Basis.basis_function_all Qops 3 exU 4 (3#10)) =
     [[Some 1; Some (4#5); Some (8#25); Some (16#125)]; [None; Some (1#5); Some (16#25); Some (56#125)];
      [None; None; Some (1#25); Some (21#50)]; [None; None; None; Some (1#250)]].
Proof. split; vm_compute; reflexivity. Qed.
