(* matrix_determinant equals the Leibniz formula (sum over permutations) for matrices of size n <= 3. *)
From Coq Require Import List Reals Lra Lia Arith Bool.
From NV Require Import Scalar.Ops Model.Common Model.LinAlg Proofs.LinAlgSums Proofs.LinAlgR Proofs.LinAlgSolve Proofs.LinAlgPivot.
Import ListNotations.
Open Scope R_scope.

(* ---- the Leibniz formula, for every n ---- *)
Fixpoint insert_all (x : nat) (l : list nat) : list (list nat) :=
  match l with [] => [[x]] | y :: r => (x :: l) :: map (cons y) (insert_all x r) end.
Fixpoint perms (n : nat) : list (list nat) :=
  match n with O => [[]] | S k => flat_map (insert_all k) (perms k) end.
Fixpoint inversions (l : list nat) : nat :=
  match l with [] => O | x :: r => (length (filter (fun y => Nat.ltb y x) r) + inversions r)%nat end.
Definition sgn (s : list nat) : R := if Nat.even (inversions s) then 1 else -1.
Fixpoint prodf (f : nat -> R) (n : nat) : R := match n with O => 1 | S k => prodf f k * f k end.
Definition leibniz (n : nat) (m : list (list R)) : R :=
  sumT Rops (map (fun s => sgn s * prodf (fun i => g2 m i (nth i s 0%nat)) n) (perms n)).

Lemma leibniz_1 m : leibniz 1 m = g2 m 0 0.
Proof. unfold leibniz, sgn. cbn. rsimp. ring. Qed.
Lemma leibniz_2 m : leibniz 2 m = g2 m 0 0 * g2 m 1 1 - g2 m 0 1 * g2 m 1 0.
Proof. unfold leibniz, sgn. cbn. rsimp. ring. Qed.
Lemma leibniz_3 m : leibniz 3 m =
  g2 m 0 0 * (g2 m 1 1 * g2 m 2 2 - g2 m 1 2 * g2 m 2 1) - g2 m 0 1 * (g2 m 1 0 * g2 m 2 2 - g2 m 1 2 * g2 m 2 0)
  + g2 m 0 2 * (g2 m 1 0 * g2 m 2 1 - g2 m 1 1 * g2 m 2 0).
Proof. unfold leibniz, sgn. cbn. rsimp. ring. Qed.

(* ---- the product of the diagonals of the Doolittle factors is the determinant (n <= 3) ---- *)
Lemma det_core_le_3 A : is_square A = true -> (length A <= 3)%nat ->
  (forall i, (i < length A)%nat -> g2 (snd (doolittle Rops A)) i i <> 0) ->
  diag_prod Rops (length A) (fst (doolittle Rops A)) (snd (doolittle Rops A)) = leibniz (length A) A.
Proof.
  intros Hsq Hn Hp. destruct (doolittle_LU_entries A Hp) as (H1 & H2 & H3 & H4).
  fold (Lm A) in *. fold (Um A) in *.
  remember (length A) as n eqn:En. destruct n as [|[|[|[|n]]]]; try lia.
  - unfold diag_prod, leibniz, sgn. cbn. rsimp. ring.
  - rewrite leibniz_1. unfold diag_prod. cbn [seq fold_left]. rsimp.
    pose proof (H4 0 0 ltac:(lia) ltac:(lia))%nat as E00. unfold sumr in E00. cbn [seq map sumT] in E00. rsimp.
    rewrite <- E00. ring.
  - rewrite leibniz_2. unfold diag_prod. cbn [seq fold_left]. rsimp.
    pose proof (H4 0 0 ltac:(lia) ltac:(lia))%nat as E00. pose proof (H4 0 1 ltac:(lia) ltac:(lia))%nat as E01.
    pose proof (H4 1 0 ltac:(lia) ltac:(lia))%nat as E10. pose proof (H4 1 1 ltac:(lia) ltac:(lia))%nat as E11.
    unfold sumr in *. cbn [seq map sumT] in *. rsimp.
    rewrite (H1 0 1)%nat in * by lia. rewrite (H2 0%nat), (H2 1%nat) in * by lia. rewrite (H3 1 0)%nat in * by lia.
    rewrite <- E00, <- E01, <- E10, <- E11. ring.
  - rewrite leibniz_3. unfold diag_prod. cbn [seq fold_left]. rsimp.
    pose proof (H4 0 0 ltac:(lia) ltac:(lia))%nat as E00. pose proof (H4 0 1 ltac:(lia) ltac:(lia))%nat as E01.
    pose proof (H4 0 2 ltac:(lia) ltac:(lia))%nat as E02.
    pose proof (H4 1 0 ltac:(lia) ltac:(lia))%nat as E10. pose proof (H4 1 1 ltac:(lia) ltac:(lia))%nat as E11.
    pose proof (H4 1 2 ltac:(lia) ltac:(lia))%nat as E12.
    pose proof (H4 2 0 ltac:(lia) ltac:(lia))%nat as E20. pose proof (H4 2 1 ltac:(lia) ltac:(lia))%nat as E21.
    pose proof (H4 2 2 ltac:(lia) ltac:(lia))%nat as E22.
    unfold sumr in *. cbn [seq map sumT] in *. rsimp.
    rewrite (H1 0 1)%nat, (H1 0 2)%nat, (H1 1 2)%nat in * by lia.
    rewrite (H2 0%nat), (H2 1%nat), (H2 2%nat) in * by lia.
    rewrite (H3 1 0)%nat, (H3 2 0)%nat, (H3 2 1)%nat in * by lia.
    rewrite <- E00, <- E01, <- E02, <- E10, <- E11, <- E12, <- E20, <- E21, <- E22. ring.
Qed.

(* ---- the row exchanges: every run of the pivot loop is a fold over chosen rows row_j in [j, n) ---- *)
Definition apply_row (st : list (list R) * list (list R) * nat) (jr : nat * nat) :=
  if Nat.eqb (fst jr) (snd jr) then st
  else (swap [] (fst (fst st)) (fst jr) (snd jr), swap [] (snd (fst st)) (fst jr) (snd jr), S (snd st)).
Lemma pivot_trace n : forall l st, (forall j, In j l -> (j < n)%nat) ->
  exists rows, length rows = length l /\ (forall k, (k < length l)%nat -> (nth k l 0 <= nth k rows 0 < n)%nat) /\
    fold_left (pivot_step Rops n) l st = fold_left apply_row (combine l rows) st.
Proof.
  induction l as [|j l IH]; intros st Hl.
  - exists []. split; [reflexivity|]. split; [|reflexivity]. intros k Hk. cbn in Hk. lia.
  - destruct (pivot_step_cases n st j ltac:(apply Hl; left; reflexivity)) as (row & Hrow & E).
    destruct (IH (pivot_step Rops n st j) ltac:(intros; apply Hl; right; assumption)) as (rows & HL & Hr & EF).
    exists (row :: rows). split; [cbn; lia|]. split.
    + intros [|k] Hk; cbn [nth]; [exact Hrow|apply Hr; cbn in Hk; lia].
    + cbn [fold_left combine]. rewrite EF. f_equal. exact E.
Qed.

Lemma sign_of_sq ns : sign_of Rops ns * sign_of Rops ns = 1.
Proof. unfold sign_of. destruct (Nat.even ns); rsimp; ring. Qed.

(* [B] n <= 3: whenever no zero pivot is met, matrix_determinant returns the Leibniz determinant *)
Theorem determinant_leibniz_n_le_3 m : is_square m = true -> (length m <= 3)%nat ->
  (forall i, (i < length m)%nat ->
     g2 (snd (doolittle Rops (fst (fst (pivot_with Rops (matrix_identity Rops (length m)) m))))) i i <> 0) ->
  matrix_determinant Rops m = Ok (leibniz (length m) m).
Proof.
  intros Hsq Hn Hp.
  assert (Hrect := is_square_rect m Hsq).
  destruct (pivot_is_permutation m (matrix_identity Rops (length m))) as (s & ns & E & Hs & _).
  { destruct (identity_rect (length m)) as [H _]. exact H. }
  assert (Hmp_sq : is_square (rows_by m s) = true) by (apply (rows_by_square (length m)); assumption).
  assert (Hmp_len : length (rows_by m s) = length m) by (rewrite rows_by_length; apply permI_length, Hs).
  (* the result in terms of the row-exchanged matrix *)
  assert (Hdet : matrix_determinant Rops m = Ok (leibniz (length m) (rows_by m s) * sign_of Rops ns)).
  { unfold matrix_determinant, matrix_determinant_with, pivot_res. rewrite Hsq. cbn [res_bind].
    rewrite E in *. cbn [fst snd] in *. unfold lu_decomposition. rewrite Hmp_sq. cbn [res_bind fst snd].
    rewrite <- Hmp_len. rewrite det_core_le_3; [reflexivity|exact Hmp_sq|lia|rewrite Hmp_len; exact Hp]. }
  rewrite Hdet. f_equal.
  (* leibniz (rows of m by s) * sign = leibniz m : enumerate the possible runs of the pivot loop *)
  unfold pivot_with in E.
  destruct (pivot_trace (length m) (seq 0 (length m)) (m, matrix_identity Rops (length m), 0%nat)) as (rows & HL & Hr & EF).
  { intros j Hj. apply in_seq in Hj. lia. }
  rewrite EF in E. clear EF Hdet Hp Hmp_sq Hmp_len Hs Hrect Hsq.
  rewrite seq_length in HL, Hr.
  destruct m as [|x0 [|x1 [|x2 [|x3 m]]]]; cbn [length] in *; try lia.
  - destruct rows; [|discriminate]. cbn in E. injection E as <- _ <-. unfold leibniz, sgn, sign_of. cbn. rsimp. ring.
  - destruct rows as [|r0 [|]]; try discriminate.
    pose proof (Hr 0%nat ltac:(lia)) as R0. cbn in R0. assert (r0 = 0%nat) by lia. subst.
    cbn in E. injection E as <- _ <-. rewrite !leibniz_1. unfold sign_of. cbn. rsimp. ring.
  - destruct rows as [|r0 [|r1 [|]]]; try discriminate.
    pose proof (Hr 0%nat ltac:(lia)) as R0. pose proof (Hr 1%nat ltac:(lia)) as R1. cbn in R0, R1.
    assert (r1 = 1%nat) by lia. subst r1.
    assert (C0 : r0 = 0%nat \/ r0 = 1%nat) by lia.
    destruct C0 as [-> | ->]; cbn in E; injection E as <- _ <-; rewrite !leibniz_2; unfold sign_of, get2; cbn; rsimp; ring.
  - destruct rows as [|r0 [|r1 [|r2 [|]]]]; try discriminate.
    pose proof (Hr 0%nat ltac:(lia)) as R0. pose proof (Hr 1%nat ltac:(lia)) as R1. pose proof (Hr 2%nat ltac:(lia)) as R2.
    cbn in R0, R1, R2. assert (r2 = 2%nat) by lia. subst r2.
    assert (C0 : r0 = 0%nat \/ r0 = 1%nat \/ r0 = 2%nat) by lia.
    assert (C1 : r1 = 1%nat \/ r1 = 2%nat) by lia.
    destruct C0 as [-> | [-> | ->]]; destruct C1 as [-> | ->]; cbn in E; injection E as <- _ <-;
      rewrite !leibniz_3; unfold sign_of, get2; cbn; rsimp; ring.
Qed.
