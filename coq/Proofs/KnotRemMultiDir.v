(* C06 [G]: several directions in ONE operations.insert_knot call followed by ONE operations.remove_knot call with the same
   parameters and counts, surfaces (u, v) and volumes (u, v, w).  Both calls process the directions in the order u, v, w,
   every direction on the result of the previous one, so the u-removal acts on a net that still contains the v- and
   w-insertions.  Insertions in different parametric directions commute on control nets (KI_commute: helpers.knot_insertion is
   linear in the control points and natural in the point type), hence
     insert_then_remove_surf_restores :  insert_knot_surf g [ou; ov] [nu; nv] = (g2, false) ->
                                         remove_knot_surf g2 [ou; ov] [nu; nv] = (g, false)
     insert_then_remove_vol_restores  :  the same for volumes and three directions
   (no exception; degrees, knot vectors, sizes and the whole control net are restored), with the code's own multiplicity and
   span searches on the inserted knot vectors, any subset of requested directions.  Details: Proofs/KnotRemMultiDir.README. *)
From Coq Require Import List Reals Lra Lia Arith Bool ZArith.
From NV Require Import Scalar.Ops Model.Common Model.Basis Model.KnotIns Model.InsertKnot Model.KnotRem
  Proofs.Boehm Proofs.BasisR Proofs.KnotInsR Proofs.KnotInsN Proofs.InsertKnotR Proofs.InsertNR Proofs.InsertDirR Proofs.InsertVolR
  Proofs.InsertOpR Proofs.InsertOpSurf Proofs.KnotRemR Proofs.KnotRemGeneral Proofs.KnotRemGeneralDir Proofs.KnotRemGeneralVol.
Import ListNotations.
Local Open Scope nat_scope.

(* ------------------------------------------------------------------ lerp of lerps *)
Lemma lerp_interchange (a b : R) : forall x1 x2 y1 y2 : list R,
  lerp Rops a (lerp Rops b x1 x2) (lerp Rops b y1 y2) = lerp Rops b (lerp Rops a x1 y1) (lerp Rops a x2 y2).
Proof.
  unfold lerp. induction x1 as [|p1 x1 IH]; intros x2 y1 y2; [reflexivity|].
  destruct x2 as [|p2 x2]; [cbn [combine map]; rewrite ?combine_nil; reflexivity|].
  destruct y1 as [|q1 y1]; [cbn [combine map]; rewrite ?combine_nil; reflexivity|].
  destruct y2 as [|q2 y2]; [cbn [combine map]; rewrite ?combine_nil; reflexivity|].
  cbn [combine map]. rewrite IH. f_equal. cbn [fst snd]. rsimp. ring.
Qed.

Lemma lerp_nil_nil (a : R) : lerp Rops a [] [] = [].
Proof. reflexivity. Qed.

(* ------------------------------------------------------------------ knot_insertion is linear in the control points *)
Section Lin.
Variables (a : R) (X Y : nat -> list R) (n : nat).
Variables (p : nat) (U : list R) (u : R) (num s k : nat).
Hypothesis Hsp : s <= p.
Hypothesis Hpk : p <= k.
Hypothesis Hk : k < n.
Hypothesis Hnum : num <= p - s.

Let LX := map X (seq 0 n).
Let LY := map Y (seq 0 n).
Let LZ := map (fun c => lerp Rops a (X c) (Y c)) (seq 0 n).

Lemma getA_lin i : getA [] LZ i = lerp Rops a (getA [] LX i) (getA [] LY i).
Proof.
  unfold getA, LX, LY, LZ. destruct (Nat.lt_ge_cases i n) as [H|H].
  - rewrite !InsertDirR.nth_map_seq by exact H. reflexivity.
  - rewrite !nth_overflow by (rewrite map_length, seq_length; exact H). reflexivity.
Qed.

Lemma Rtri_lin : forall j i, Rtri Rops (lerp Rops) [] p U LZ u k j i
  = lerp Rops a (Rtri Rops (lerp Rops) [] p U LX u k j i) (Rtri Rops (lerp Rops) [] p U LY u k j i).
Proof.
  induction j as [|j IH]; intros i; cbn [Rtri].
  - apply getA_lin.
  - rewrite !IH. apply lerp_interchange.
Qed.

Lemma KI_lin i : getp (knot_insertion Rops p U LZ u num s k) i
  = lerp Rops a (getp (knot_insertion Rops p U LX u num s k) i) (getp (knot_insertion Rops p U LY u num s k) i).
Proof.
  change (getA [] (knot_insertion_g Rops (lerp Rops) [] p U LZ u num s k) i =
          lerp Rops a (getA [] (knot_insertion_g Rops (lerp Rops) [] p U LX u num s k) i)
                      (getA [] (knot_insertion_g Rops (lerp Rops) [] p U LY u num s k) i)).
  rewrite !knot_insertion_g_closed by (unfold LX, LY, LZ; rewrite ?map_length, ?seq_length; auto).
  unfold ki_closed. bdestr; rewrite ?Rtri_lin, ?getA_lin; reflexivity.
Qed.
End Lin.

(* ------------------------------------------------------------------ insertions along two different indices commute *)
Section Commute.
Variables (pa : nat) (Ua : list R) (ta : R) (ra sa ka : nat).
Variables (pb : nat) (Ub : list R) (tb : R) (rb sb kb : nat).
Variables (na nb d : nat) (F : nat -> nat -> list R).
Hypothesis Hsa : sa <= pa.
Hypothesis Hpa : pa <= ka.
Hypothesis Hka : ka < na.
Hypothesis Hra : ra <= pa - sa.
Hypothesis Hsb : sb <= pb.
Hypothesis Hpb : pb <= kb.
Hypothesis Hkb : kb < nb.
Hypothesis Hrb : rb <= pb - sb.
Hypothesis Hd : forall i j, i < na -> j < nb -> length (F i j) = d.

Notation KIa Q := (knot_insertion Rops pa Ua Q ta ra sa ka).
Notation KIb Q := (knot_insertion Rops pb Ub Q tb rb sb kb).

Let LP : list (list R) := map (fun i => concat (map (F i) (seq 0 nb))) (seq 0 na).
Let hb (j' : nat) (x : list R) : list R := getp (KIb (map (fun c => chunk x d c) (seq 0 nb))) j'.

Lemma hb_lerp j' a x y : hb j' (lerp Rops a x y) = lerp Rops a (hb j' x) (hb j' y).
Proof.
  unfold hb.
  rewrite (map_ext (fun c => chunk (lerp Rops a x y) d c) (fun c => lerp Rops a (chunk x d c) (chunk y d c)))
    by (intros c; apply chunk_lerp).
  apply (KI_lin a (fun c => chunk x d c) (fun c => chunk y d c) nb pb Ub tb rb sb kb); assumption.
Qed.

Lemma hb_nil j' : hb j' [] = [].
Proof.
  unfold hb. rewrite (map_ext (fun c => chunk (@nil R) d c) (fun _ => @nil R)) by (intros c; apply chunk_nil).
  set (Q := map (fun _ : nat => @nil R) (seq 0 nb)).
  assert (E : map (fun _ : list R => @nil R) Q = Q) by (unfold Q; rewrite map_map; reflexivity).
  rewrite <- E at 1.
  rewrite (KI_hom (fun _ => @nil R)); [reflexivity|intros; reflexivity|reflexivity| | | |]; try assumption.
  unfold Q. rewrite map_length, seq_length. exact Hkb.
Qed.

Lemma LP_length : length LP = na.
Proof. unfold LP. rewrite map_length, seq_length. reflexivity. Qed.

Lemma chunk_LP i c : i < na -> c < nb -> chunk (concat (map (F i) (seq 0 nb))) d c = F i c.
Proof.
  intros Hi Hc. rewrite chunk_concat.
  - apply InsertDirR.nth_map_seq. exact Hc.
  - intros pt Hin. apply in_map_iff in Hin. destruct Hin as (j & <- & Hj). apply in_seq in Hj. apply Hd; lia.
  - rewrite map_length, seq_length. exact Hc.
Qed.

Lemma map_chunk_LP c : c < nb -> map (fun x => chunk x d c) LP = map (fun i => F i c) (seq 0 na).
Proof.
  intros Hc. unfold LP. rewrite map_map. apply map_ext_in. intros i Hi. apply in_seq in Hi. apply chunk_LP; lia.
Qed.

Lemma map_hb_LP j' : map (hb j') LP = map (fun i => getp (KIb (map (fun j => F i j) (seq 0 nb))) j') (seq 0 na).
Proof.
  unfold LP. rewrite map_map. apply map_ext_in. intros i Hi. apply in_seq in Hi. unfold hb. do 2 f_equal.
  apply map_ext_in. intros c Hc. apply in_seq in Hc. apply chunk_LP; lia.
Qed.

(* [G] row operation then column operation = column operation then row operation, entry by entry *)
Theorem KI_commute i' j' :
  getp (KIb (map (fun j => getp (KIa (map (fun i => F i j) (seq 0 na))) i') (seq 0 nb))) j'
  = getp (KIa (map (fun i => getp (KIb (map (fun j => F i j) (seq 0 nb))) j') (seq 0 na))) i'.
Proof.
  rewrite <- map_hb_LP.
  rewrite (KI_hom (hb j') (hb_lerp j') (hb_nil j') pa Ua LP ta ra sa ka Hsa Hpa) by (rewrite ?LP_length; assumption).
  unfold hb at 1. do 2 f_equal. apply map_ext_in. intros c Hc. apply in_seq in Hc.
  rewrite <- map_chunk_LP by lia.
  rewrite (KI_hom (fun x => chunk x d c)); try assumption; [reflexivity|intros; apply chunk_lerp|apply chunk_nil|].
  rewrite LP_length. exact Hka.
Qed.
End Commute.


(* ================================================================== SURFACES *)
(* ------------------------------------------------------------------ the two insertion orders give the same net *)
Section SurfCommute.
Variables (g : @surf R) (tu : R) (ru s_u ku : nat) (tv : R) (rv s_v kv d : nat).
Hypothesis Hsu : s_u <= s_pu g.
Hypothesis Hpu : s_pu g <= ku.
Hypothesis Hku : ku < s_su g.
Hypothesis Hru : ru <= s_pu g - s_u.
Hypothesis Hsv : s_v <= s_pv g.
Hypothesis Hpv : s_pv g <= kv.
Hypothesis Hkv : kv < s_sv g.
Hypothesis Hrv : rv <= s_pv g - s_v.
Hypothesis Hdim : forall i, i < s_sv g * s_su g -> length (getp (s_P g) i) = d.

(* [G] u then v (what insert_knot_surf does) = v then u, as control nets *)
Theorem surf_nets_commute :
  surf_net_v Rops (surf_ins_u g tu s_u ku ru) tv rv s_v kv = surf_net_u Rops (surf_ins_v g tv s_v kv rv) tu ru s_u ku.
Proof.
  set (g1 := surf_ins_u g tu s_u ku ru). set (gv := surf_ins_v g tv s_v kv rv).
  apply nth_ext with (d := []) (d' := []).
  - rewrite (surf_net_v_length Rops g1 tv rv s_v kv) by (cbn [g1 surf_ins_u s_pv s_sv]; assumption).
    rewrite surf_net_u_length. cbn [g1 gv surf_ins_u surf_ins_v s_sv s_su]. reflexivity.
  - intros n Hn. rewrite (surf_net_v_length Rops g1 tv rv s_v kv) in Hn by (cbn [g1 surf_ins_u s_pv s_sv]; assumption).
    cbn [g1 surf_ins_u s_sv s_su] in Hn.
    destruct (split2 (s_sv g + rv) (s_su g + ru) n Hn) as (j' & i' & Hj' & Hi' & ->).
    change (getp (surf_net_v Rops g1 tv rv s_v kv) (j' + (s_sv g1 + rv) * i')
            = getp (surf_net_u Rops gv tu ru s_u ku) (j' + s_sv gv * i')).
    rewrite (surf_net_v_row Rops g1 tv rv s_v kv i' j') by (cbn [g1 surf_ins_u s_pv s_sv s_su]; assumption).
    rewrite (surf_net_u_col Rops gv tu ru s_u ku i' j') by (cbn [gv surf_ins_v s_pu s_sv s_su]; assumption).
    change (getp (knot_insertion Rops (s_pv g) (s_Uv g) (row_v g1 i') tv rv s_v kv) j'
            = getp (knot_insertion Rops (s_pu g) (s_Uu g) (col_u gv j') tu ru s_u ku) i').
    (* both sides in the form of KI_commute with F i j = P[j + sv * i] *)
    set (F := fun i j => getp (s_P g) (j + s_sv g * i)).
    replace (row_v g1 i')
      with (map (fun j => getp (knot_insertion Rops (s_pu g) (s_Uu g) (map (fun i => F i j) (seq 0 (s_su g))) tu ru s_u ku) i')
                (seq 0 (s_sv g))).
    2:{ unfold row_v, g1. cbn [surf_ins_u s_sv s_P]. apply map_ext_in. intros j Hj. apply in_seq in Hj.
        rewrite (surf_net_u_col Rops g tu ru s_u ku i' j) by (assumption || lia). reflexivity. }
    replace (col_u gv j')
      with (map (fun i => getp (knot_insertion Rops (s_pv g) (s_Uv g) (map (fun j => F i j) (seq 0 (s_sv g))) tv rv s_v kv) j')
                (seq 0 (s_su g))).
    2:{ unfold col_u, gv. cbn [surf_ins_v s_sv s_su s_P]. apply map_ext_in. intros i Hi. apply in_seq in Hi.
        rewrite (surf_net_v_row Rops g tv rv s_v kv i j') by (assumption || lia). reflexivity. }
    apply (KI_commute (s_pu g) (s_Uu g) tu ru s_u ku (s_pv g) (s_Uv g) tv rv s_v kv (s_su g) (s_sv g) d F); try assumption.
    intros i j Hi Hj. unfold F. apply Hdim. nia.
Qed.
End SurfCommute.

(* ------------------------------------------------------------------ the lookups of remove_knot on an inserted knot vector *)
Open Scope R_scope.

Lemma near_self tol t : 0 <= tol -> oleb Rops (oabs Rops (osub Rops t t)) tol = true.
Proof.
  intros Ht. unfold oabs, oneg. rsimp. unfold Rleb. replace (t - t) with 0 by ring.
  destruct (Rle_dec 0 0) as [_|N]; [|exfalso; apply N; lra]. destruct (Rle_dec 0 tol); [reflexivity|contradiction].
Qed.

Lemma find_multiplicity_after_insertion tol t (U : list R) k r : 0 <= tol ->
  find_multiplicity Rops tol t (knot_insertion_kv U t k r) = (find_multiplicity Rops tol t U + r)%nat.
Proof.
  intros Ht. unfold find_multiplicity, knot_insertion_kv.
  rewrite !filter_app, !app_length.
  set (f := fun x => oleb Rops (oabs Rops (osub Rops t x)) tol).
  assert (HU : length (filter f U) = (length (filter f (firstn (S k) U)) + length (filter f (skipn (S k) U)))%nat).
  { rewrite <- (firstn_skipn (S k) U) at 1. rewrite filter_app, app_length. reflexivity. }
  assert (E : forall n, filter f (repeat t n) = repeat t n).
  { induction n as [|n IH]; [reflexivity|]. cbn [repeat filter]. rewrite IH.
    replace (f t) with true; [reflexivity|]. unfold f.
    symmetry. apply near_self. exact Ht. }
  rewrite E, repeat_length. lia.
Qed.

Lemma find_span_after_insertion tol p (U : list R) n t r : dir_wf p U n -> par_ok tol p U n (Some t) ->
  (1 <= r)%nat -> (r <= p - find_multiplicity Rops tol t U)%nat ->
  find_span_linear Rops p (knot_insertion_kv U t (find_span_linear Rops p U n t) r) (n + r) t
  = (find_span_linear Rops p U n t + r)%nat.
Proof.
  intros W Hpar H1 H2.
  destruct (dir_accept tol p U n t r W Hpar H1 H2) as (A1 & A2 & A3 & A4 & A5 & A6). cbv zeta in *.
  set (k := find_span_linear Rops p U n t) in *. set (V := knot_insertion_kv U t k r) in *.
  destruct W as (Us & Hp & HL). destruct A6 as (Vs & Hp' & HL'). destruct Hpar as [[Hlo Hhi] _].
  assert (Vn : forall i, knR V i = if Nat.leb i k then knR U i else if Nat.leb i (k + r) then t else knR U (i - r)).
  { intros i. unfold V, kn. apply kv_nth. lia. }
  assert (VnU : t < knR V (n + r)).
  { rewrite Vn. destruct (Nat.leb_spec (n + r) k); [lia|]. destruct (Nat.leb_spec (n + r) (k + r)); [lia|].
    replace (n + r - r)%nat with n by lia. exact Hhi. }
  assert (Vp : knR V p <= t).
  { rewrite Vn. destruct (Nat.leb_spec p k); [exact Hlo|lia]. }
  pose proof (find_span_linear_spec V t p (n + r)%nat Hp' ltac:(lia) Vp) as S. cbv zeta in S.
  set (k' := find_span_linear Rops p V (n + r) t) in *.
  destruct S as (S1 & S2 & [S3|[_ S3]]); [|lra].
  assert (Vkr : knR V (k + r) = t).
  { rewrite Vn. destruct (Nat.leb_spec (k + r) k); [lia|]. destruct (Nat.leb_spec (k + r) (k + r)); [reflexivity|lia]. }
  assert (Vkr1 : t < knR V (k + r + 1)).
  { rewrite Vn. destruct (Nat.leb_spec (k + r + 1) k); [lia|]. destruct (Nat.leb_spec (k + r + 1) (k + r)); [lia|].
    replace (k + r + 1 - r)%nat with (k + 1)%nat by lia. lra. }
  destruct (Nat.lt_trichotomy k' (k + r)) as [H|[H|H]]; [exfalso|exact H|exfalso].
  - assert (knR V (S k') <= knR V (k + r)) by (apply Vs; lia). lra.
  - assert (knR V (k + r + 1) <= knR V k') by (apply Vs; lia). lra.
Qed.

(* the knot just below the run of knots equal to t is strictly smaller (the multiplicity search counts the whole run) *)
Lemma filter_all_true {A} (f : A -> bool) : forall l, (forall x, In x l -> f x = true) -> filter f l = l.
Proof.
  induction l as [|x l IH]; intros H; [reflexivity|]. cbn [filter]. rewrite (H x) by (left; reflexivity).
  rewrite IH; [reflexivity|]. intros y Hy. apply H. right. exact Hy.
Qed.

Lemma mult_strict_below tol (U : list R) t k : sortedR U -> 0 <= tol -> (k + 1 < length U)%nat ->
  knR U k <= t < knR U (k + 1) -> (find_multiplicity Rops tol t U <= k)%nat ->
  knR U (k - find_multiplicity Rops tol t U) < t.
Proof.
  intros Us Ht Hk [Hlo Hhi] Hs. set (s := find_multiplicity Rops tol t U) in *.
  destruct (Rlt_le_dec (knR U (k - s)) t) as [H|H]; [exact H|exfalso].
  assert (Hrun : forall i, (k - s <= i <= k)%nat -> knR U i = t).
  { intros i Hi. assert (knR U (k - s) <= knR U i) by (apply Us; lia). assert (knR U i <= knR U k) by (apply Us; lia). lra. }
  set (f := fun x => oleb Rops (oabs Rops (osub Rops t x)) tol).
  assert (Hseg : filter f (firstn (S s) (skipn (k - s) U)) = firstn (S s) (skipn (k - s) U)).
  { apply filter_all_true. intros x Hx. destruct (In_nth _ _ 0 Hx) as (j & Hj & <-).
    rewrite firstn_length, skipn_length in Hj.
    rewrite nth_firstn_lt by lia. rewrite nth_skipn_add.
    assert (E : nth (k - s + j) U 0 = t) by (apply (Hrun (k - s + j)%nat); lia).
    rewrite E. unfold f. apply near_self. exact Ht. }
  assert (Hcount : (S s <= length (filter f U))%nat).
  { rewrite <- (firstn_skipn (k - s) U). rewrite filter_app, app_length.
    rewrite <- (firstn_skipn (S s) (skipn (k - s) U)). rewrite filter_app, app_length, Hseg.
    rewrite firstn_length, skipn_length. lia. }
  unfold s, find_multiplicity in *. fold f in Hcount. fold f in Hs. lia.
Qed.

(* ------------------------------------------------------------------ the stages of remove_knot_surf *)
Definition rstep_u (tol tol2 : R) (g : surf (T:=R)) (ou : option R) (nu : nat) : surf * bool :=
  match rem_prep Rops tol true (s_pu g) (s_Uu g) (s_su g) ou nu with
  | None => (g, false)
  | Some None => (g, true)
  | Some (Some (u, s, span, kv)) =>
      (mkS (s_pu g) (s_pv g) kv (s_Uv g) (s_su g - nu) (s_sv g) (surf_rem_u Rops tol2 g u nu s span), false)
  end.
Definition rstep_v (tol tol2 : R) (g : surf (T:=R)) (ov : option R) (nv : nat) : surf * bool :=
  match rem_prep Rops tol true (s_pv g) (s_Uv g) (s_sv g) ov nv with
  | None => (g, false)
  | Some None => (g, true)
  | Some (Some (v, s, span, kv)) =>
      (mkS (s_pu g) (s_pv g) (s_Uu g) kv (s_su g) (s_sv g - nv) (surf_rem_v Rops tol2 g v nv s span), false)
  end.

Lemma remove_knot_surf_steps tol tol2 g ou ov nu nv :
  remove_knot_surf Rops tol tol2 true g [ou; ov] [Z.of_nat nu; Z.of_nat nv] =
  let '(g1, r) := rstep_u tol tol2 g ou nu in if r then (g1, true) else rstep_v tol tol2 g1 ov nv.
Proof.
  unfold remove_knot_surf. change [Z.of_nat nu; Z.of_nat nv] with (map Z.of_nat [nu; nv]).
  rewrite (nums_ok_nat 2 [nu; nv]) by reflexivity. cbn [andb negb map]. unfold numat, parat. cbn [nth].
  rewrite !Nat2Z.id. reflexivity.
Qed.

(* what rem_prep answers for the parameter and count of an accepted insertion, on the inserted knot vector *)
Lemma rem_prep_after_insertion tol p (U : list R) n t r : dir_wf p U n -> par_ok tol p U n (Some t) -> 0 <= tol ->
  (1 <= r)%nat -> (r <= p - find_multiplicity Rops tol t U)%nat ->
  let k := find_span_linear Rops p U n t in let s := find_multiplicity Rops tol t U in
  rem_prep Rops tol true p (knot_insertion_kv U t k r) (n + r) (Some t) r = Some (Some (t, (s + r)%nat, (k + r)%nat, U)).
Proof.
  intros W Hpar Ht H1 H2. cbv zeta. unfold rem_prep.
  destruct (Nat.eqb_spec r 0) as [E|_]; [lia|].
  rewrite find_multiplicity_after_insertion by exact Ht.
  destruct (Nat.ltb_spec (find_multiplicity Rops tol t U + r) r) as [E|_]; [lia|]. cbn [andb].
  rewrite (find_span_after_insertion tol p U n t r W Hpar H1 H2).
  rewrite rem_kv_inverts_ins_kv; [reflexivity|].
  destruct (dir_accept tol p U n t r W Hpar H1 H2) as (A1 & A2 & A3 & _). destruct W as (_ & _ & HL). cbv zeta in *. lia.
Qed.

Lemma rem_prep_skip tol p (U : list R) n o num : eff o num = 0%nat -> rem_prep Rops tol true p U n o num = None.
Proof. destruct o as [t|]; cbn [eff rem_prep]; [intros ->; reflexivity|reflexivity]. Qed.

Lemma swf_Forall g dim : swf g dim -> length (s_P g) = (s_sv g * s_su g)%nat -> Forall (fun pt => length pt = dim) (s_P g).
Proof.
  intros (_ & _ & Wd) HL. rewrite Forall_forall. intros x Hx. destruct (In_nth _ _ [] Hx) as (i & Hi & <-).
  apply Wd. lia.
Qed.

(* [G] one stage: remove_knot in u on the result of an accepted insert_knot stage in u restores the surface record *)
Lemma rstep_u_inverts tol tol2 g dim ou nu : swf g dim -> length (s_P g) = (s_sv g * s_su g)%nat ->
  par_ok tol (s_pu g) (s_Uu g) (s_su g) ou -> 0 <= tol -> 0 <= tol2 ->
  snd (sstep_u tol g ou nu) = false -> rstep_u tol tol2 (fst (sstep_u tol g ou nu)) ou nu = (g, false).
Proof.
  intros W HLP Hpar Ht Ht2. unfold sstep_u.
  pose proof (dir_prep_spec tol (s_pu g) (s_Uu g) (s_su g) ou nu) as D.
  destruct (dir_prep Rops tol true (s_pu g) (s_Uu g) (s_su g) ou nu) as [[[[[t s] k] kv]|]|]; cbn [fst snd]; intros R; try discriminate.
  - destruct D as (-> & H1 & -> & Hn & -> & ->). pose proof W as (Wu & Wv & Wd).
    destruct (dir_accept tol (s_pu g) (s_Uu g) (s_su g) t nu Wu Hpar H1 Hn) as (A1 & A2 & A3 & A4 & A5 & A6). cbv zeta in *.
    unfold rstep_u. cbn [s_pu s_pv s_Uu s_Uv s_su s_sv s_P].
    rewrite (rem_prep_after_insertion tol (s_pu g) (s_Uu g) (s_su g) t nu Wu Hpar Ht H1 Hn).
    set (k := find_span_linear Rops (s_pu g) (s_Uu g) (s_su g) t) in *. set (s := find_multiplicity Rops tol t (s_Uu g)) in *.
    destruct Wu as (Us & Hp & HL).
    assert (Hlt : knR (s_Uu g) (k - s) < t).
    { apply (mult_strict_below tol (s_Uu g) t k Us Ht); [lia|exact A4|fold s; lia]. }
    destruct (sep_of_sorted (s_Uu g) t (s_pu g) s k Us ltac:(lia) Hlt ltac:(lra)) as [SL SR].
    change (mkS (s_pu g) (s_pv g) (knot_insertion_kv (s_Uu g) t k nu) (s_Uv g) (s_su g + nu) (s_sv g) (surf_net_u Rops g t nu s k))
      with (surf_ins_u g t s k nu).
    rewrite (surf_remove_r_insert_r_u tol2 g t s k dim nu); try assumption; try lia.
    2:{ apply swf_Forall; assumption. }
    replace (s_su g + nu - nu)%nat with (s_su g) by lia. destruct g; reflexivity.
  - unfold rstep_u. rewrite rem_prep_skip by exact D. reflexivity.
Qed.

Lemma rstep_v_inverts tol tol2 g dim ov nv : swf g dim -> length (s_P g) = (s_sv g * s_su g)%nat ->
  par_ok tol (s_pv g) (s_Uv g) (s_sv g) ov -> 0 <= tol -> 0 <= tol2 ->
  snd (sstep_v tol g ov nv) = false -> rstep_v tol tol2 (fst (sstep_v tol g ov nv)) ov nv = (g, false).
Proof.
  intros W HLP Hpar Ht Ht2. unfold sstep_v.
  pose proof (dir_prep_spec tol (s_pv g) (s_Uv g) (s_sv g) ov nv) as D.
  destruct (dir_prep Rops tol true (s_pv g) (s_Uv g) (s_sv g) ov nv) as [[[[[t s] k] kv]|]|]; cbn [fst snd]; intros R; try discriminate.
  - destruct D as (-> & H1 & -> & Hn & -> & ->). pose proof W as (Wu & Wv & Wd).
    destruct (dir_accept tol (s_pv g) (s_Uv g) (s_sv g) t nv Wv Hpar H1 Hn) as (A1 & A2 & A3 & A4 & A5 & A6). cbv zeta in *.
    unfold rstep_v. cbn [s_pu s_pv s_Uu s_Uv s_su s_sv s_P].
    rewrite (rem_prep_after_insertion tol (s_pv g) (s_Uv g) (s_sv g) t nv Wv Hpar Ht H1 Hn).
    set (k := find_span_linear Rops (s_pv g) (s_Uv g) (s_sv g) t) in *. set (s := find_multiplicity Rops tol t (s_Uv g)) in *.
    destruct Wv as (Us & Hp & HL).
    assert (Hlt : knR (s_Uv g) (k - s) < t).
    { apply (mult_strict_below tol (s_Uv g) t k Us Ht); [lia|exact A4|fold s; lia]. }
    destruct (sep_of_sorted (s_Uv g) t (s_pv g) s k Us ltac:(lia) Hlt ltac:(lra)) as [SL SR].
    change (mkS (s_pu g) (s_pv g) (s_Uu g) (knot_insertion_kv (s_Uv g) t k nv) (s_su g) (s_sv g + nv) (surf_net_v Rops g t nv s k))
      with (surf_ins_v g t s k nv).
    rewrite (surf_remove_r_insert_r_v tol2 g t s k dim nv); try assumption; try lia.
    2:{ apply swf_Forall; assumption. }
    replace (s_sv g + nv - nv)%nat with (s_sv g) by lia. destruct g; reflexivity.
  - unfold rstep_v. rewrite rem_prep_skip by exact D. reflexivity.
Qed.

(* the stages keep the net complete (exactly sv * su control points) *)
Lemma sstep_u_length tol g dim ou nu : swf g dim -> par_ok tol (s_pu g) (s_Uu g) (s_su g) ou ->
  length (s_P g) = (s_sv g * s_su g)%nat ->
  let g1 := fst (sstep_u tol g ou nu) in length (s_P g1) = (s_sv g1 * s_su g1)%nat.
Proof.
  intros W Hpar HLP. cbv zeta. unfold sstep_u.
  destruct (dir_prep Rops tol true (s_pu g) (s_Uu g) (s_su g) ou nu) as [[[[[t s] k] kv]|]|]; cbn [fst s_P s_sv s_su]; try exact HLP.
  apply surf_net_u_length.
Qed.

Lemma sstep_v_length tol g dim ov nv : swf g dim -> par_ok tol (s_pv g) (s_Uv g) (s_sv g) ov ->
  length (s_P g) = (s_sv g * s_su g)%nat ->
  let g1 := fst (sstep_v tol g ov nv) in length (s_P g1) = (s_sv g1 * s_su g1)%nat.
Proof.
  intros W Hpar HLP. cbv zeta. unfold sstep_v.
  pose proof (dir_prep_spec tol (s_pv g) (s_Uv g) (s_sv g) ov nv) as D.
  destruct (dir_prep Rops tol true (s_pv g) (s_Uv g) (s_sv g) ov nv) as [[[[[t s] k] kv]|]|]; cbn [fst s_P s_sv s_su]; try exact HLP.
  destruct D as (-> & H1 & -> & Hn & -> & ->). destruct W as (Wu & Wv & Wd).
  destruct (dir_accept tol (s_pv g) (s_Uv g) (s_sv g) t nv Wv Hpar H1 Hn) as (A1 & A2 & A3 & _). cbv zeta in *.
  apply surf_net_v_length; assumption.
Qed.

(* [G] the two stages of insert_knot_surf commute: u then v (the code's order) builds the same surface record as v then u *)
Lemma ssteps_commute tol g dim ou ov nu nv g1 g2 : swf g dim ->
  par_ok tol (s_pu g) (s_Uu g) (s_su g) ou -> par_ok tol (s_pv g) (s_Uv g) (s_sv g) ov ->
  sstep_u tol g ou nu = (g1, false) -> sstep_v tol g1 ov nv = (g2, false) ->
  exists gv, sstep_v tol g ov nv = (gv, false) /\ sstep_u tol gv ou nu = (g2, false).
Proof.
  intros W Pu Pv E1 E2. unfold sstep_u in E1.
  pose proof (dir_prep_spec tol (s_pu g) (s_Uu g) (s_su g) ou nu) as Du.
  destruct (dir_prep Rops tol true (s_pu g) (s_Uu g) (s_su g) ou nu) as [[[[[t_u s_u] k_u] kv_u]|]|] eqn:Eu; try discriminate.
  - (* u performed *)
    injection E1 as <-. unfold sstep_v in E2. cbn [s_pu s_pv s_Uu s_Uv s_su s_sv] in E2.
    pose proof (dir_prep_spec tol (s_pv g) (s_Uv g) (s_sv g) ov nv) as Dv.
    unfold sstep_v at 1.
    destruct (dir_prep Rops tol true (s_pv g) (s_Uv g) (s_sv g) ov nv) as [[[[[t_v s_v] k_v] kv_v]|]|] eqn:Ev; try discriminate.
    + (* both performed: the nets commute *)
      injection E2 as <-. eexists. split; [reflexivity|].
      unfold sstep_u. cbn [s_pu s_pv s_Uu s_Uv s_su s_sv]. rewrite Eu.
      destruct Du as (-> & H1u & -> & Hnu & -> & ->). destruct Dv as (-> & H1v & -> & Hnv & -> & ->).
      destruct W as (Wu & Wv & Wd).
      destruct (dir_accept tol (s_pu g) (s_Uu g) (s_su g) t_u nu Wu Pu H1u Hnu) as (A1 & A2 & A3 & _).
      destruct (dir_accept tol (s_pv g) (s_Uv g) (s_sv g) t_v nv Wv Pv H1v Hnv) as (B1 & B2 & B3 & _). cbv zeta in *.
      f_equal. f_equal. symmetry.
      apply (surf_nets_commute g t_u nu _ _ t_v nv _ _ dim); assumption.
    + injection E2 as <-. eexists. split; [reflexivity|]. unfold sstep_u. rewrite Eu. reflexivity.
  - (* u not requested *)
    injection E1 as <-. exists g2. split; [exact E2|].
    unfold sstep_v in E2. unfold sstep_u.
    destruct (dir_prep Rops tol true (s_pv g) (s_Uv g) (s_sv g) ov nv) as [[[[[t_v s_v] k_v] kv_v]|]|]; try discriminate;
      injection E2 as <-; cbn [s_pu s_Uu s_su]; rewrite Eu; reflexivity.
Qed.

(* ------------------------------------------------------------------ THE THEOREM, surfaces *)
(* [G] operations.insert_knot(surf, [ou, ov], [nu, nv]) accepted (no exception), then operations.remove_knot with the same
   parameters and counts: the call does not raise and returns the ORIGINAL surface record - degrees, both knot vectors, both
   sizes and the whole control net.  Any subset of directions (None or count 0 = not requested), every degree, size, multiplicity
   (the code's own span and multiplicity searches on the inserted knot vectors), every tolerance >= 0. *)
Theorem insert_then_remove_surf_restores (tol tol2 : R) (g : surf (T:=R)) (ou ov : option R) (nu nv dim : nat) :
  swf g dim -> length (s_P g) = (s_sv g * s_su g)%nat ->
  par_ok tol (s_pu g) (s_Uu g) (s_su g) ou -> par_ok tol (s_pv g) (s_Uv g) (s_sv g) ov -> 0 <= tol -> 0 <= tol2 ->
  forall g2, insert_knot_surf Rops tol true g [ou; ov] [Z.of_nat nu; Z.of_nat nv] = (g2, false) ->
  remove_knot_surf Rops tol tol2 true g2 [ou; ov] [Z.of_nat nu; Z.of_nat nv] = (g, false).
Proof.
  intros W HLP Pu Pv Ht Ht2 g2. rewrite insert_knot_surf_steps, remove_knot_surf_steps.
  destruct (sstep_u tol g ou nu) as [g1 r1] eqn:E1. destruct r1; [intros X; discriminate|].
  intros E2.
  destruct (ssteps_commute tol g dim ou ov nu nv g1 g2 W Pu Pv E1 E2) as (gv & E3 & E4).
  (* the v stage alone, and the u stage on top of it *)
  destruct (sstep_v_spec tol g dim ov nv W Pv) as (_ & _ & Wgv & _ & V5 & V6 & V7 & V8 & _). cbv zeta in *.
  pose proof (sstep_v_length tol g dim ov nv W Pv HLP) as Lgv. cbv zeta in Lgv.
  rewrite E3 in *. cbn [fst] in *.
  assert (Pu' : par_ok tol (s_pu gv) (s_Uu gv) (s_su gv) ou) by (rewrite V5, V7, V8; exact Pu).
  pose proof (rstep_u_inverts tol tol2 gv dim ou nu Wgv Lgv Pu' Ht Ht2) as I1. rewrite E4 in I1. cbn [fst snd] in I1.
  rewrite (I1 eq_refl).
  pose proof (rstep_v_inverts tol tol2 g dim ov nv W HLP Pv Ht Ht2) as I2. rewrite E3 in I2. exact (I2 eq_refl).
Qed.

(* [G] ... and every surface point is the same at the three stages (original, after the insertions, after the removals) *)
Corollary insert_then_remove_surf_points (tol tol2 : R) (g : surf (T:=R)) (ou ov : option R) (nu nv dim : nat) :
  swf g dim -> length (s_P g) = (s_sv g * s_su g)%nat ->
  par_ok tol (s_pu g) (s_Uu g) (s_su g) ou -> par_ok tol (s_pv g) (s_Uv g) (s_sv g) ov -> 0 <= tol -> 0 <= tol2 ->
  forall g2 g3 raised, insert_knot_surf Rops tol true g [ou; ov] [Z.of_nat nu; Z.of_nat nv] = (g2, false) ->
  remove_knot_surf Rops tol tol2 true g2 [ou; ov] [Z.of_nat nu; Z.of_nat nv] = (g3, raised) ->
  raised = false /\ g3 = g /\
  s_su g2 = (s_su g + eff ou nu)%nat /\ s_sv g2 = (s_sv g + eff ov nv)%nat /\
  forall c tu tv, (c < dim)%nat -> surf_pt g2 c tu tv = surf_pt g c tu tv /\ surf_pt g3 c tu tv = surf_pt g2 c tu tv.
Proof.
  intros W HLP Pu Pv Ht Ht2 g2 g3 raised E2 E3.
  rewrite (insert_then_remove_surf_restores tol tol2 g ou ov nu nv dim W HLP Pu Pv Ht Ht2 g2 E2) in E3.
  injection E3 as <- <-.
  pose proof (insert_knot_surf_correct tol g ou ov nu nv dim W Pu Pv) as C. rewrite E2 in C. cbv zeta in C.
  destruct C as (_ & _ & C3 & _ & _ & _ & C7). destruct (C3 eq_refl) as (S1 & S2 & _).
  repeat split; try assumption.
  - apply C7. assumption.
  - symmetry. apply C7. assumption.
Qed.

(* ================================================================== VOLUMES *)
Local Open Scope nat_scope.

Lemma vol_net_u_length (g : @vol R) t n s k : length (vol_net_u Rops g t n s k) = v_sv g * (v_su g + n) * v_sw g.
Proof.
  unfold vol_net_u. apply flat_map_length_const. intros w Hw. apply flat_map_length_const. intros u Hu.
  rewrite map_length, seq_length. reflexivity.
Qed.
Lemma vol_net_v_length (g : @vol R) t n s k : length (vol_net_v Rops g t n s k) = (v_sv g + n) * v_su g * v_sw g.
Proof.
  unfold vol_net_v. apply flat_map_length_const. intros w Hw. apply flat_map_length_const. intros u Hu.
  rewrite map_length, seq_length. reflexivity.
Qed.
Lemma vol_net_w_length (g : @vol R) t n s k : s <= v_pw g -> v_pw g <= k -> k < v_sw g -> n <= v_pw g - s ->
  0 < v_su g * v_sv g -> length (vol_net_w Rops g t n s k) = v_su g * v_sv g * (v_sw g + n).
Proof.
  intros H1 H2 H3 H4 H5. unfold vol_net_w. apply flat_map_length_const. intros l Hl.
  set (uv := v_su g * v_sv g) in *.
  set (C := map (fun w_ => map (fun i0 => getp (v_P g) (i0 + w_ * uv)) (seq 0 uv)) (seq 0 (v_sw g))).
  apply (rows_length Rops (v_pw g) (v_Uw g) C t n s k uv 0); auto.
  - unfold C. rewrite map_length, seq_length. exact H3.
  - intros q Hq. unfold C in *. rewrite map_length, seq_length in Hq. rewrite InsertDirR.nth_map_seq by exact Hq.
    rewrite map_length, seq_length. reflexivity.
  - unfold C. rewrite map_length, seq_length. exact Hl.
Qed.

Section VolCommute.
Variables (g : @vol R) (d : nat).
Notation su := (v_su g). Notation sv := (v_sv g). Notation sw := (v_sw g).
Hypothesis Hdim : forall i, i < su * sv * sw -> length (getp (v_P g) i) = d.
Variables (tu : R) (ru s_u ku : nat) (tv : R) (rv s_v kv : nat) (tw : R) (rw s_w kw : nat).

Lemma vidx_bound i j l : i < su -> j < sv -> l < sw -> vidx g i j l < su * sv * sw.
Proof. apply vidx_lt. Qed.

Section UV.
Hypothesis Hsu : s_u <= v_pu g.
Hypothesis Hpu : v_pu g <= ku.
Hypothesis Hku : ku < su.
Hypothesis Hru : ru <= v_pu g - s_u.
Hypothesis Hsv : s_v <= v_pv g.
Hypothesis Hpv : v_pv g <= kv.
Hypothesis Hkv : kv < sv.
Hypothesis Hrv : rv <= v_pv g - s_v.

Theorem vol_nets_commute_uv :
  vol_net_v Rops (vol_after_u g tu ru s_u ku) tv rv s_v kv = vol_net_u Rops (vol_after_v g tv rv s_v kv) tu ru s_u ku.
Proof.
  set (g1 := vol_after_u g tu ru s_u ku). set (gv := vol_after_v g tv rv s_v kv).
  apply nth_ext with (d := []) (d' := []).
  - rewrite vol_net_v_length, vol_net_u_length. reflexivity.
  - intros n Hn. rewrite vol_net_v_length in Hn. unfold g1 in Hn. cbn [vol_after_u v_su v_sv v_sw] in Hn.
    assert (Hn' : n < (su + ru) * (sv + rv) * sw) by (rewrite (Nat.mul_comm (su + ru)); exact Hn).
    destruct (split3 (sv + rv) (su + ru) sw n Hn') as (j & i & l & Hj & Hi & Hl & ->).
    assert (E1 : getp (vol_net_v Rops g1 tv rv s_v kv) (j + i * (sv + rv) + l * (su + ru) * (sv + rv))
                 = getp (knot_insertion Rops (v_pv g) (v_Uv g) (fib_v g1 i l) tv rv s_v kv) j)
      by (apply (vol_net_v_fibre Rops g1 tv rv s_v kv i j l); assumption).
    assert (E2 : getp (vol_net_u Rops gv tu ru s_u ku) (j + i * (sv + rv) + l * (su + ru) * (sv + rv))
                 = getp (knot_insertion Rops (v_pu g) (v_Uu g) (fib_u gv j l) tu ru s_u ku) i)
      by (apply (vol_net_u_fibre Rops gv tu ru s_u ku i j l); assumption).
    unfold getp in E1 at 1. unfold getp in E2 at 1. rewrite E1, E2. clear E1 E2.
    set (F := fun i0 j0 => getp (v_P g) (vidx g i0 j0 l)).
    replace (fib_v g1 i l)
      with (map (fun j0 => getp (knot_insertion Rops (v_pu g) (v_Uu g) (map (fun i0 => F i0 j0) (seq 0 su)) tu ru s_u ku) i) (seq 0 sv)).
    2:{ unfold fib_v, g1. cbn [vol_after_u v_sv v_P]. apply map_ext_in. intros j0 Hj0. apply in_seq in Hj0.
        unfold vidx. cbn [vol_after_u v_su v_sv]. rewrite (vol_net_u_fibre Rops g tu ru s_u ku i j0 l) by (assumption || lia). reflexivity. }
    replace (fib_u gv j l)
      with (map (fun i0 => getp (knot_insertion Rops (v_pv g) (v_Uv g) (map (fun j0 => F i0 j0) (seq 0 sv)) tv rv s_v kv) j) (seq 0 su)).
    2:{ unfold fib_u, gv. cbn [vol_after_v v_su v_P]. apply map_ext_in. intros i0 Hi0. apply in_seq in Hi0.
        unfold vidx. cbn [vol_after_v v_su v_sv]. rewrite (vol_net_v_fibre Rops g tv rv s_v kv i0 j l) by (assumption || lia). reflexivity. }
    apply (KI_commute (v_pu g) (v_Uu g) tu ru s_u ku (v_pv g) (v_Uv g) tv rv s_v kv su sv d F); try assumption.
    intros i0 j0 Hi0 Hj0. unfold F. apply Hdim. apply vidx_bound; assumption.
Qed.
End UV.

Section UW.
Hypothesis Hsu : s_u <= v_pu g.
Hypothesis Hpu : v_pu g <= ku.
Hypothesis Hku : ku < su.
Hypothesis Hru : ru <= v_pu g - s_u.
Hypothesis Hsw : s_w <= v_pw g.
Hypothesis Hpw : v_pw g <= kw.
Hypothesis Hkw : kw < sw.
Hypothesis Hrw : rw <= v_pw g - s_w.
Hypothesis Hsv0 : 0 < sv.

Theorem vol_nets_commute_uw :
  vol_net_w Rops (vol_after_u g tu ru s_u ku) tw rw s_w kw = vol_net_u Rops (vol_after_w g tw rw s_w kw) tu ru s_u ku.
Proof.
  set (g1 := vol_after_u g tu ru s_u ku). set (gw := vol_after_w g tw rw s_w kw).
  assert (L1 : length (vol_net_w Rops g1 tw rw s_w kw) = (su + ru) * sv * (sw + rw)).
  { apply (vol_net_w_length g1 tw rw s_w kw); try assumption. unfold g1. cbn [vol_after_u v_su v_sv]. nia. }
  apply nth_ext with (d := []) (d' := []).
  - rewrite L1, vol_net_u_length. unfold gw. cbn [vol_after_w v_su v_sv v_sw]. rewrite (Nat.mul_comm sv). reflexivity.
  - intros n Hn. rewrite L1 in Hn.
    destruct (split3 sv (su + ru) (sw + rw) n Hn) as (j & i & l & Hj & Hi & Hl & ->).
    assert (E1 : getp (vol_net_w Rops g1 tw rw s_w kw) (j + i * sv + l * (su + ru) * sv)
                 = getp (knot_insertion Rops (v_pw g) (v_Uw g) (fib_w g1 i j) tw rw s_w kw) l)
      by (apply (vol_net_w_fibre Rops g1 tw rw s_w kw i j l); assumption).
    assert (E2 : getp (vol_net_u Rops gw tu ru s_u ku) (j + i * sv + l * (su + ru) * sv)
                 = getp (knot_insertion Rops (v_pu g) (v_Uu g) (fib_u gw j l) tu ru s_u ku) i)
      by (apply (vol_net_u_fibre Rops gw tu ru s_u ku i j l); assumption).
    unfold getp in E1 at 1. unfold getp in E2 at 1. rewrite E1, E2. clear E1 E2.
    set (F := fun i0 l0 => getp (v_P g) (vidx g i0 j l0)).
    replace (fib_w g1 i j)
      with (map (fun l0 => getp (knot_insertion Rops (v_pu g) (v_Uu g) (map (fun i0 => F i0 l0) (seq 0 su)) tu ru s_u ku) i) (seq 0 sw)).
    2:{ unfold fib_w, g1. cbn [vol_after_u v_sw v_P]. apply map_ext_in. intros l0 Hl0. apply in_seq in Hl0.
        unfold vidx. cbn [vol_after_u v_su v_sv]. rewrite (vol_net_u_fibre Rops g tu ru s_u ku i j l0) by (assumption || lia). reflexivity. }
    replace (fib_u gw j l)
      with (map (fun i0 => getp (knot_insertion Rops (v_pw g) (v_Uw g) (map (fun l0 => F i0 l0) (seq 0 sw)) tw rw s_w kw) l) (seq 0 su)).
    2:{ unfold fib_u, gw. cbn [vol_after_w v_su v_P]. apply map_ext_in. intros i0 Hi0. apply in_seq in Hi0.
        unfold vidx. cbn [vol_after_w v_su v_sv]. rewrite (vol_net_w_fibre Rops g tw rw s_w kw i0 j l) by (assumption || lia). reflexivity. }
    apply (KI_commute (v_pu g) (v_Uu g) tu ru s_u ku (v_pw g) (v_Uw g) tw rw s_w kw su sw d F); try assumption.
    intros i0 l0 Hi0 Hl0. unfold F. apply Hdim. apply vidx_bound; assumption.
Qed.
End UW.

Section VW.
Hypothesis Hsv : s_v <= v_pv g.
Hypothesis Hpv : v_pv g <= kv.
Hypothesis Hkv : kv < sv.
Hypothesis Hrv : rv <= v_pv g - s_v.
Hypothesis Hsw : s_w <= v_pw g.
Hypothesis Hpw : v_pw g <= kw.
Hypothesis Hkw : kw < sw.
Hypothesis Hrw : rw <= v_pw g - s_w.
Hypothesis Hsu0 : 0 < su.

Theorem vol_nets_commute_vw :
  vol_net_w Rops (vol_after_v g tv rv s_v kv) tw rw s_w kw = vol_net_v Rops (vol_after_w g tw rw s_w kw) tv rv s_v kv.
Proof.
  set (gv := vol_after_v g tv rv s_v kv). set (gw := vol_after_w g tw rw s_w kw).
  assert (L1 : length (vol_net_w Rops gv tw rw s_w kw) = su * (sv + rv) * (sw + rw)).
  { apply (vol_net_w_length gv tw rw s_w kw); try assumption. unfold gv. cbn [vol_after_v v_su v_sv]. nia. }
  apply nth_ext with (d := []) (d' := []).
  - rewrite L1, vol_net_v_length. unfold gw. cbn [vol_after_w v_su v_sv v_sw]. rewrite (Nat.mul_comm su). reflexivity.
  - intros n Hn. rewrite L1 in Hn.
    destruct (split3 (sv + rv) su (sw + rw) n Hn) as (j & i & l & Hj & Hi & Hl & ->).
    assert (E1 : getp (vol_net_w Rops gv tw rw s_w kw) (j + i * (sv + rv) + l * su * (sv + rv))
                 = getp (knot_insertion Rops (v_pw g) (v_Uw g) (fib_w gv i j) tw rw s_w kw) l)
      by (apply (vol_net_w_fibre Rops gv tw rw s_w kw i j l); assumption).
    assert (E2 : getp (vol_net_v Rops gw tv rv s_v kv) (j + i * (sv + rv) + l * su * (sv + rv))
                 = getp (knot_insertion Rops (v_pv g) (v_Uv g) (fib_v gw i l) tv rv s_v kv) j)
      by (apply (vol_net_v_fibre Rops gw tv rv s_v kv i j l); assumption).
    unfold getp in E1 at 1. unfold getp in E2 at 1. rewrite E1, E2. clear E1 E2.
    set (F := fun j0 l0 => getp (v_P g) (vidx g i j0 l0)).
    replace (fib_w gv i j)
      with (map (fun l0 => getp (knot_insertion Rops (v_pv g) (v_Uv g) (map (fun j0 => F j0 l0) (seq 0 sv)) tv rv s_v kv) j) (seq 0 sw)).
    2:{ unfold fib_w, gv. cbn [vol_after_v v_sw v_P]. apply map_ext_in. intros l0 Hl0. apply in_seq in Hl0.
        unfold vidx. cbn [vol_after_v v_su v_sv]. rewrite (vol_net_v_fibre Rops g tv rv s_v kv i j l0) by (assumption || lia). reflexivity. }
    replace (fib_v gw i l)
      with (map (fun j0 => getp (knot_insertion Rops (v_pw g) (v_Uw g) (map (fun l0 => F j0 l0) (seq 0 sw)) tw rw s_w kw) l) (seq 0 sv)).
    2:{ unfold fib_v, gw. cbn [vol_after_w v_sv v_P]. apply map_ext_in. intros j0 Hj0. apply in_seq in Hj0.
        unfold vidx. cbn [vol_after_w v_su v_sv]. rewrite (vol_net_w_fibre Rops g tw rw s_w kw i j0 l) by (assumption || lia). reflexivity. }
    apply (KI_commute (v_pv g) (v_Uv g) tv rv s_v kv (v_pw g) (v_Uw g) tw rw s_w kw sv sw d F); try assumption.
    intros j0 l0 Hj0 Hl0. unfold F. apply Hdim. apply vidx_bound; assumption.
Qed.
End VW.
End VolCommute.

(* ------------------------------------------------------------------ the stages of remove_knot_vol *)
Open Scope R_scope.
Definition vrstep_u (tol tol2 : R) (g : vol (T:=R)) (o : option R) (n : nat) : vol * bool :=
  match rem_prep Rops tol true (v_pu g) (v_Uu g) (v_su g) o n with
  | None => (g, false)
  | Some None => (g, true)
  | Some (Some (u, s, span, kv)) =>
      (mkV (v_pu g) (v_pv g) (v_pw g) kv (v_Uv g) (v_Uw g) (v_su g - n) (v_sv g) (v_sw g) (vol_rem_u Rops tol2 g u n s span), false)
  end.
Definition vrstep_v (tol tol2 : R) (g : vol (T:=R)) (o : option R) (n : nat) : vol * bool :=
  match rem_prep Rops tol true (v_pv g) (v_Uv g) (v_sv g) o n with
  | None => (g, false)
  | Some None => (g, true)
  | Some (Some (v, s, span, kv)) =>
      (mkV (v_pu g) (v_pv g) (v_pw g) (v_Uu g) kv (v_Uw g) (v_su g) (v_sv g - n) (v_sw g) (vol_rem_v Rops tol2 g v n s span), false)
  end.
Definition vrstep_w (tol tol2 : R) (g : vol (T:=R)) (o : option R) (n : nat) : vol * bool :=
  match rem_prep Rops tol true (v_pw g) (v_Uw g) (v_sw g) o n with
  | None => (g, false)
  | Some None => (g, true)
  | Some (Some (w, s, span, kv)) =>
      (mkV (v_pu g) (v_pv g) (v_pw g) (v_Uu g) (v_Uv g) kv (v_su g) (v_sv g) (v_sw g - n) (vol_rem_w Rops tol2 g w n s span), false)
  end.

Lemma remove_knot_vol_steps tol tol2 g ou ov ow nu nv nw :
  remove_knot_vol Rops tol tol2 true g [ou; ov; ow] [Z.of_nat nu; Z.of_nat nv; Z.of_nat nw] =
  let '(g1, r1) := vrstep_u tol tol2 g ou nu in
  if r1 then (g1, true) else
  let '(g2, r2) := vrstep_v tol tol2 g1 ov nv in
  if r2 then (g2, true) else vrstep_w tol tol2 g2 ow nw.
Proof.
  unfold remove_knot_vol. change [Z.of_nat nu; Z.of_nat nv; Z.of_nat nw] with (map Z.of_nat [nu; nv; nw]).
  rewrite (nums_ok_nat 3 [nu; nv; nw]) by reflexivity. cbn [andb negb map]. unfold numat, parat. cbn [nth].
  rewrite !Nat2Z.id. reflexivity.
Qed.

Lemma vrstep_u_inverts tol tol2 g dim o n : vwf g dim -> length (v_P g) = (v_su g * v_sv g * v_sw g)%nat ->
  par_ok tol (v_pu g) (v_Uu g) (v_su g) o -> 0 <= tol -> 0 <= tol2 ->
  snd (vstep_u tol g o n) = false -> vrstep_u tol tol2 (fst (vstep_u tol g o n)) o n = (g, false).
Proof.
  intros W HLP Hpar Ht Ht2. unfold vstep_u.
  pose proof (dir_prep_spec tol (v_pu g) (v_Uu g) (v_su g) o n) as D.
  destruct (dir_prep Rops tol true (v_pu g) (v_Uu g) (v_su g) o n) as [[[[[t s] k] kv]|]|]; cbn [fst snd]; intros R; try discriminate.
  - destruct D as (-> & H1 & -> & Hn & -> & ->). pose proof W as (Wu & Wv & Ww & Wd).
    destruct (dir_accept tol (v_pu g) (v_Uu g) (v_su g) t n Wu Hpar H1 Hn) as (A1 & A2 & A3 & A4 & A5 & A6). cbv zeta in *.
    unfold vrstep_u. cbn [v_pu v_pv v_pw v_Uu v_Uv v_Uw v_su v_sv v_sw v_P].
    rewrite (rem_prep_after_insertion tol (v_pu g) (v_Uu g) (v_su g) t n Wu Hpar Ht H1 Hn).
    set (k := find_span_linear Rops (v_pu g) (v_Uu g) (v_su g) t) in *. set (s := find_multiplicity Rops tol t (v_Uu g)) in *.
    destruct Wu as (Usu & Hpu & HLu). destruct Wv as (Usv & Hpv & HLv). destruct Ww as (Usw & Hpw & HLw).
    assert (Hlt : knR (v_Uu g) (k - s) < t).
    { apply (mult_strict_below tol (v_Uu g) t k Usu Ht); [lia|exact A4|fold s; lia]. }
    destruct (sep_of_sorted (v_Uu g) t (v_pu g) s k Usu ltac:(lia) Hlt ltac:(lra)) as [SL SR].
    change (mkV (v_pu g) (v_pv g) (v_pw g) (knot_insertion_kv (v_Uu g) t k n) (v_Uv g) (v_Uw g) (v_su g + n) (v_sv g) (v_sw g) (vol_net_u Rops g t n s k))
      with (vol_after_u g t n s k).
    rewrite (vol_remove_r_insert_r_u tol2 g t s k dim n); try assumption; try lia.
    replace (v_su g + n - n)%nat with (v_su g) by lia. destruct g; reflexivity.
  - unfold vrstep_u. rewrite rem_prep_skip by exact D. reflexivity.
Qed.

Lemma vrstep_v_inverts tol tol2 g dim o n : vwf g dim -> length (v_P g) = (v_su g * v_sv g * v_sw g)%nat ->
  par_ok tol (v_pv g) (v_Uv g) (v_sv g) o -> 0 <= tol -> 0 <= tol2 ->
  snd (vstep_v tol g o n) = false -> vrstep_v tol tol2 (fst (vstep_v tol g o n)) o n = (g, false).
Proof.
  intros W HLP Hpar Ht Ht2. unfold vstep_v.
  pose proof (dir_prep_spec tol (v_pv g) (v_Uv g) (v_sv g) o n) as D.
  destruct (dir_prep Rops tol true (v_pv g) (v_Uv g) (v_sv g) o n) as [[[[[t s] k] kv]|]|]; cbn [fst snd]; intros R; try discriminate.
  - destruct D as (-> & H1 & -> & Hn & -> & ->). pose proof W as (Wu & Wv & Ww & Wd).
    destruct (dir_accept tol (v_pv g) (v_Uv g) (v_sv g) t n Wv Hpar H1 Hn) as (A1 & A2 & A3 & A4 & A5 & A6). cbv zeta in *.
    unfold vrstep_v. cbn [v_pu v_pv v_pw v_Uu v_Uv v_Uw v_su v_sv v_sw v_P].
    rewrite (rem_prep_after_insertion tol (v_pv g) (v_Uv g) (v_sv g) t n Wv Hpar Ht H1 Hn).
    set (k := find_span_linear Rops (v_pv g) (v_Uv g) (v_sv g) t) in *. set (s := find_multiplicity Rops tol t (v_Uv g)) in *.
    destruct Wu as (Usu & Hpu & HLu). destruct Wv as (Usv & Hpv & HLv). destruct Ww as (Usw & Hpw & HLw).
    assert (Hlt : knR (v_Uv g) (k - s) < t).
    { apply (mult_strict_below tol (v_Uv g) t k Usv Ht); [lia|exact A4|fold s; lia]. }
    destruct (sep_of_sorted (v_Uv g) t (v_pv g) s k Usv ltac:(lia) Hlt ltac:(lra)) as [SL SR].
    change (mkV (v_pu g) (v_pv g) (v_pw g) (v_Uu g) (knot_insertion_kv (v_Uv g) t k n) (v_Uw g) (v_su g) (v_sv g + n) (v_sw g) (vol_net_v Rops g t n s k))
      with (vol_after_v g t n s k).
    rewrite (vol_remove_r_insert_r_v tol2 g t s k dim n); try assumption; try lia.
    replace (v_sv g + n - n)%nat with (v_sv g) by lia. destruct g; reflexivity.
  - unfold vrstep_v. rewrite rem_prep_skip by exact D. reflexivity.
Qed.

Lemma vrstep_w_inverts tol tol2 g dim o n : vwf g dim -> length (v_P g) = (v_su g * v_sv g * v_sw g)%nat ->
  par_ok tol (v_pw g) (v_Uw g) (v_sw g) o -> 0 <= tol -> 0 <= tol2 ->
  snd (vstep_w tol g o n) = false -> vrstep_w tol tol2 (fst (vstep_w tol g o n)) o n = (g, false).
Proof.
  intros W HLP Hpar Ht Ht2. unfold vstep_w.
  pose proof (dir_prep_spec tol (v_pw g) (v_Uw g) (v_sw g) o n) as D.
  destruct (dir_prep Rops tol true (v_pw g) (v_Uw g) (v_sw g) o n) as [[[[[t s] k] kv]|]|]; cbn [fst snd]; intros R; try discriminate.
  - destruct D as (-> & H1 & -> & Hn & -> & ->). pose proof W as (Wu & Wv & Ww & Wd).
    destruct (dir_accept tol (v_pw g) (v_Uw g) (v_sw g) t n Ww Hpar H1 Hn) as (A1 & A2 & A3 & A4 & A5 & A6). cbv zeta in *.
    unfold vrstep_w. cbn [v_pu v_pv v_pw v_Uu v_Uv v_Uw v_su v_sv v_sw v_P].
    rewrite (rem_prep_after_insertion tol (v_pw g) (v_Uw g) (v_sw g) t n Ww Hpar Ht H1 Hn).
    set (k := find_span_linear Rops (v_pw g) (v_Uw g) (v_sw g) t) in *. set (s := find_multiplicity Rops tol t (v_Uw g)) in *.
    destruct Wu as (Usu & Hpu & HLu). destruct Wv as (Usv & Hpv & HLv). destruct Ww as (Usw & Hpw & HLw).
    assert (Hlt : knR (v_Uw g) (k - s) < t).
    { apply (mult_strict_below tol (v_Uw g) t k Usw Ht); [lia|exact A4|fold s; lia]. }
    destruct (sep_of_sorted (v_Uw g) t (v_pw g) s k Usw ltac:(lia) Hlt ltac:(lra)) as [SL SR].
    change (mkV (v_pu g) (v_pv g) (v_pw g) (v_Uu g) (v_Uv g) (knot_insertion_kv (v_Uw g) t k n) (v_su g) (v_sv g) (v_sw g + n) (vol_net_w Rops g t n s k))
      with (vol_after_w g t n s k).
    rewrite (vol_remove_r_insert_r_w tol2 g t s k dim n); try assumption; try lia.
    replace (v_sw g + n - n)%nat with (v_sw g) by lia. destruct g; reflexivity.
  - unfold vrstep_w. rewrite rem_prep_skip by exact D. reflexivity.
Qed.

(* the stages keep the net complete *)
Lemma vstep_u_length tol g dim o n : vwf g dim -> par_ok tol (v_pu g) (v_Uu g) (v_su g) o ->
  length (v_P g) = (v_su g * v_sv g * v_sw g)%nat ->
  let g1 := fst (vstep_u tol g o n) in length (v_P g1) = (v_su g1 * v_sv g1 * v_sw g1)%nat.
Proof.
  intros W Hpar HLP. cbv zeta. unfold vstep_u.
  destruct (dir_prep Rops tol true (v_pu g) (v_Uu g) (v_su g) o n) as [[[[[t s] k] kv]|]|]; cbn [fst v_P v_su v_sv v_sw]; try exact HLP.
  rewrite vol_net_u_length. rewrite (Nat.mul_comm (v_sv g)). reflexivity.
Qed.
Lemma vstep_v_length tol g dim o n : vwf g dim -> par_ok tol (v_pv g) (v_Uv g) (v_sv g) o ->
  length (v_P g) = (v_su g * v_sv g * v_sw g)%nat ->
  let g1 := fst (vstep_v tol g o n) in length (v_P g1) = (v_su g1 * v_sv g1 * v_sw g1)%nat.
Proof.
  intros W Hpar HLP. cbv zeta. unfold vstep_v.
  destruct (dir_prep Rops tol true (v_pv g) (v_Uv g) (v_sv g) o n) as [[[[[t s] k] kv]|]|]; cbn [fst v_P v_su v_sv v_sw]; try exact HLP.
  rewrite vol_net_v_length. rewrite (Nat.mul_comm (v_sv g + n)). reflexivity.
Qed.
Lemma vstep_w_length tol g dim o n : vwf g dim -> par_ok tol (v_pw g) (v_Uw g) (v_sw g) o ->
  length (v_P g) = (v_su g * v_sv g * v_sw g)%nat ->
  let g1 := fst (vstep_w tol g o n) in length (v_P g1) = (v_su g1 * v_sv g1 * v_sw g1)%nat.
Proof.
  intros W Hpar HLP. cbv zeta. unfold vstep_w.
  pose proof (dir_prep_spec tol (v_pw g) (v_Uw g) (v_sw g) o n) as D.
  destruct (dir_prep Rops tol true (v_pw g) (v_Uw g) (v_sw g) o n) as [[[[[t s] k] kv]|]|]; cbn [fst v_P v_su v_sv v_sw]; try exact HLP.
  destruct D as (-> & H1 & -> & Hn & -> & ->). destruct W as ((_ & Hpu & _) & (_ & Hpv & _) & Ww & Wd).
  destruct (dir_accept tol (v_pw g) (v_Uw g) (v_sw g) t n Ww Hpar H1 Hn) as (A1 & A2 & A3 & _). cbv zeta in *.
  apply vol_net_w_length; try assumption. nia.
Qed.

Lemma vsteps_commute_uv tol g dim oa ob na nb g1 g2 : vwf g dim ->
  par_ok tol (v_pu g) (v_Uu g) (v_su g) oa -> par_ok tol (v_pv g) (v_Uv g) (v_sv g) ob ->
  vstep_u tol g oa na = (g1, false) -> vstep_v tol g1 ob nb = (g2, false) ->
  exists h, vstep_v tol g ob nb = (h, false) /\ vstep_u tol h oa na = (g2, false).
Proof.
  intros W Pa Pb E1 E2. unfold vstep_u in E1.
  pose proof (dir_prep_spec tol (v_pu g) (v_Uu g) (v_su g) oa na) as Da.
  destruct (dir_prep Rops tol true (v_pu g) (v_Uu g) (v_su g) oa na) as [[[[[t_a s_a] k_a] kv_a]|]|] eqn:Ea; try discriminate.
  - injection E1 as <-. unfold vstep_v in E2. cbn [v_pu v_pv v_pw v_Uu v_Uv v_Uw v_su v_sv v_sw] in E2.
    pose proof (dir_prep_spec tol (v_pv g) (v_Uv g) (v_sv g) ob nb) as Db.
    unfold vstep_v at 1.
    destruct (dir_prep Rops tol true (v_pv g) (v_Uv g) (v_sv g) ob nb) as [[[[[t_b s_b] k_b] kv_b]|]|] eqn:Eb; try discriminate.
    + injection E2 as <-. eexists. split; [reflexivity|].
      unfold vstep_u. cbn [v_pu v_pv v_pw v_Uu v_Uv v_Uw v_su v_sv v_sw]. rewrite Ea.
      destruct Da as (-> & H1a & -> & Hna & -> & ->). destruct Db as (-> & H1b & -> & Hnb & -> & ->).
      destruct W as (Wu & Wv & Ww & Wd).
      destruct (dir_accept tol (v_pu g) (v_Uu g) (v_su g) t_a na Wu Pa H1a Hna) as (A1 & A2 & A3 & _).
      destruct (dir_accept tol (v_pv g) (v_Uv g) (v_sv g) t_b nb Wv Pb H1b Hnb) as (B1 & B2 & B3 & _). cbv zeta in *.
      destruct Wu as (_ & Hpu & _). destruct Wv as (_ & Hpv & _). destruct Ww as (_ & Hpw & _).
      f_equal. f_equal. symmetry.
      apply (vol_nets_commute_uv g dim Wd); try assumption; lia.
    + injection E2 as <-. eexists. split; [reflexivity|]. unfold vstep_u. rewrite Ea. reflexivity.
  - injection E1 as <-. exists g2. split; [exact E2|].
    unfold vstep_v in E2. unfold vstep_u.
    destruct (dir_prep Rops tol true (v_pv g) (v_Uv g) (v_sv g) ob nb) as [[[[[t_b s_b] k_b] kv_b]|]|]; try discriminate;
      injection E2 as <-; cbn [v_pu v_pv v_pw v_Uu v_Uv v_Uw v_su v_sv v_sw]; rewrite Ea; reflexivity.
Qed.

Lemma vsteps_commute_uw tol g dim oa ob na nb g1 g2 : vwf g dim ->
  par_ok tol (v_pu g) (v_Uu g) (v_su g) oa -> par_ok tol (v_pw g) (v_Uw g) (v_sw g) ob ->
  vstep_u tol g oa na = (g1, false) -> vstep_w tol g1 ob nb = (g2, false) ->
  exists h, vstep_w tol g ob nb = (h, false) /\ vstep_u tol h oa na = (g2, false).
Proof.
  intros W Pa Pb E1 E2. unfold vstep_u in E1.
  pose proof (dir_prep_spec tol (v_pu g) (v_Uu g) (v_su g) oa na) as Da.
  destruct (dir_prep Rops tol true (v_pu g) (v_Uu g) (v_su g) oa na) as [[[[[t_a s_a] k_a] kv_a]|]|] eqn:Ea; try discriminate.
  - injection E1 as <-. unfold vstep_w in E2. cbn [v_pu v_pv v_pw v_Uu v_Uv v_Uw v_su v_sv v_sw] in E2.
    pose proof (dir_prep_spec tol (v_pw g) (v_Uw g) (v_sw g) ob nb) as Db.
    unfold vstep_w at 1.
    destruct (dir_prep Rops tol true (v_pw g) (v_Uw g) (v_sw g) ob nb) as [[[[[t_b s_b] k_b] kv_b]|]|] eqn:Eb; try discriminate.
    + injection E2 as <-. eexists. split; [reflexivity|].
      unfold vstep_u. cbn [v_pu v_pv v_pw v_Uu v_Uv v_Uw v_su v_sv v_sw]. rewrite Ea.
      destruct Da as (-> & H1a & -> & Hna & -> & ->). destruct Db as (-> & H1b & -> & Hnb & -> & ->).
      destruct W as (Wu & Wv & Ww & Wd).
      destruct (dir_accept tol (v_pu g) (v_Uu g) (v_su g) t_a na Wu Pa H1a Hna) as (A1 & A2 & A3 & _).
      destruct (dir_accept tol (v_pw g) (v_Uw g) (v_sw g) t_b nb Ww Pb H1b Hnb) as (B1 & B2 & B3 & _). cbv zeta in *.
      destruct Wu as (_ & Hpu & _). destruct Wv as (_ & Hpv & _). destruct Ww as (_ & Hpw & _).
      f_equal. f_equal. symmetry.
      apply (vol_nets_commute_uw g dim Wd); try assumption; lia.
    + injection E2 as <-. eexists. split; [reflexivity|]. unfold vstep_u. rewrite Ea. reflexivity.
  - injection E1 as <-. exists g2. split; [exact E2|].
    unfold vstep_w in E2. unfold vstep_u.
    destruct (dir_prep Rops tol true (v_pw g) (v_Uw g) (v_sw g) ob nb) as [[[[[t_b s_b] k_b] kv_b]|]|]; try discriminate;
      injection E2 as <-; cbn [v_pu v_pv v_pw v_Uu v_Uv v_Uw v_su v_sv v_sw]; rewrite Ea; reflexivity.
Qed.

Lemma vsteps_commute_vw tol g dim oa ob na nb g1 g2 : vwf g dim ->
  par_ok tol (v_pv g) (v_Uv g) (v_sv g) oa -> par_ok tol (v_pw g) (v_Uw g) (v_sw g) ob ->
  vstep_v tol g oa na = (g1, false) -> vstep_w tol g1 ob nb = (g2, false) ->
  exists h, vstep_w tol g ob nb = (h, false) /\ vstep_v tol h oa na = (g2, false).
Proof.
  intros W Pa Pb E1 E2. unfold vstep_v in E1.
  pose proof (dir_prep_spec tol (v_pv g) (v_Uv g) (v_sv g) oa na) as Da.
  destruct (dir_prep Rops tol true (v_pv g) (v_Uv g) (v_sv g) oa na) as [[[[[t_a s_a] k_a] kv_a]|]|] eqn:Ea; try discriminate.
  - injection E1 as <-. unfold vstep_w in E2. cbn [v_pu v_pv v_pw v_Uu v_Uv v_Uw v_su v_sv v_sw] in E2.
    pose proof (dir_prep_spec tol (v_pw g) (v_Uw g) (v_sw g) ob nb) as Db.
    unfold vstep_w at 1.
    destruct (dir_prep Rops tol true (v_pw g) (v_Uw g) (v_sw g) ob nb) as [[[[[t_b s_b] k_b] kv_b]|]|] eqn:Eb; try discriminate.
    + injection E2 as <-. eexists. split; [reflexivity|].
      unfold vstep_v. cbn [v_pu v_pv v_pw v_Uu v_Uv v_Uw v_su v_sv v_sw]. rewrite Ea.
      destruct Da as (-> & H1a & -> & Hna & -> & ->). destruct Db as (-> & H1b & -> & Hnb & -> & ->).
      destruct W as (Wu & Wv & Ww & Wd).
      destruct (dir_accept tol (v_pv g) (v_Uv g) (v_sv g) t_a na Wv Pa H1a Hna) as (A1 & A2 & A3 & _).
      destruct (dir_accept tol (v_pw g) (v_Uw g) (v_sw g) t_b nb Ww Pb H1b Hnb) as (B1 & B2 & B3 & _). cbv zeta in *.
      destruct Wu as (_ & Hpu & _). destruct Wv as (_ & Hpv & _). destruct Ww as (_ & Hpw & _).
      f_equal. f_equal. symmetry.
      apply (vol_nets_commute_vw g dim Wd); try assumption; lia.
    + injection E2 as <-. eexists. split; [reflexivity|]. unfold vstep_v. rewrite Ea. reflexivity.
  - injection E1 as <-. exists g2. split; [exact E2|].
    unfold vstep_w in E2. unfold vstep_v.
    destruct (dir_prep Rops tol true (v_pw g) (v_Uw g) (v_sw g) ob nb) as [[[[[t_b s_b] k_b] kv_b]|]|]; try discriminate;
      injection E2 as <-; cbn [v_pu v_pv v_pw v_Uu v_Uv v_Uw v_su v_sv v_sw]; rewrite Ea; reflexivity.
Qed.

(* ------------------------------------------------------------------ THE THEOREM, volumes *)
(* [G] operations.insert_knot(vol, [ou, ov, ow], [nu, nv, nw]) accepted, then operations.remove_knot with the same parameters and
   counts: no exception, and the ORIGINAL volume record is returned (degrees, three knot vectors, three sizes, control net) *)
Theorem insert_then_remove_vol_restores (tol tol2 : R) (g : vol (T:=R)) (ou ov ow : option R) (nu nv nw dim : nat) :
  vwf g dim -> length (v_P g) = (v_su g * v_sv g * v_sw g)%nat ->
  par_ok tol (v_pu g) (v_Uu g) (v_su g) ou -> par_ok tol (v_pv g) (v_Uv g) (v_sv g) ov ->
  par_ok tol (v_pw g) (v_Uw g) (v_sw g) ow -> 0 <= tol -> 0 <= tol2 ->
  forall g3, insert_knot_vol Rops tol true g [ou; ov; ow] [Z.of_nat nu; Z.of_nat nv; Z.of_nat nw] = (g3, false) ->
  remove_knot_vol Rops tol tol2 true g3 [ou; ov; ow] [Z.of_nat nu; Z.of_nat nv; Z.of_nat nw] = (g, false).
Proof.
  intros W HLP Pu Pv Pw Ht Ht2 g3. rewrite insert_knot_vol_steps, remove_knot_vol_steps.
  destruct (vstep_u tol g ou nu) as [g1 r1] eqn:E1. destruct r1; [intros X; discriminate|].
  destruct (vstep_v tol g1 ov nv) as [g2 r2] eqn:E2. destruct r2; [intros X; discriminate|].
  intros E3.
  (* u past v, then u past w, then v past w *)
  destruct (vsteps_commute_uv tol g dim ou ov nu nv g1 g2 W Pu Pv E1 E2) as (gv & Ev & Eu_v).
  destruct (vstep_v_spec tol g dim ov nv W Pv) as (_ & _ & Wgv & _ & Kv & _). cbv zeta in Wgv, Kv.
  pose proof (vstep_v_length tol g dim ov nv W Pv HLP) as Lgv. cbv zeta in Lgv.
  rewrite Ev in Wgv, Kv, Lgv. cbn [fst] in Wgv, Kv, Lgv.
  destruct Kv as (K1 & K2 & K3 & K4 & K5 & K6 & K7).
  assert (Pu_v : par_ok tol (v_pu gv) (v_Uu gv) (v_su gv) ou) by (rewrite K1, K4, K6; exact Pu).
  assert (Pw_v : par_ok tol (v_pw gv) (v_Uw gv) (v_sw gv) ow) by (rewrite K3, K5, K7; exact Pw).
  destruct (vsteps_commute_uw tol gv dim ou ow nu nw g2 g3 Wgv Pu_v Pw_v Eu_v E3) as (gvw & Ew_v & Eu_vw).
  destruct (vsteps_commute_vw tol g dim ov ow nv nw gv gvw W Pv Pw Ev Ew_v) as (gw & Ew & Ev_w).
  (* well-formedness of the intermediate volumes *)
  destruct (vstep_w_spec tol gv dim ow nw Wgv Pw_v) as (_ & _ & Wgvw & _ & Kvw & _). cbv zeta in Wgvw, Kvw.
  pose proof (vstep_w_length tol gv dim ow nw Wgv Pw_v Lgv) as Lgvw. cbv zeta in Lgvw.
  rewrite Ew_v in Wgvw, Kvw, Lgvw. cbn [fst] in Wgvw, Kvw, Lgvw.
  destruct Kvw as (J1 & J2 & J3 & J4 & J5 & J6 & J7).
  assert (Pu_vw : par_ok tol (v_pu gvw) (v_Uu gvw) (v_su gvw) ou) by (rewrite J1, J4, J6; exact Pu_v).
  destruct (vstep_w_spec tol g dim ow nw W Pw) as (_ & _ & Wgw & _ & Kw & _). cbv zeta in Wgw, Kw.
  pose proof (vstep_w_length tol g dim ow nw W Pw HLP) as Lgw. cbv zeta in Lgw.
  rewrite Ew in Wgw, Kw, Lgw. cbn [fst] in Wgw, Kw, Lgw.
  destruct Kw as (M1 & M2 & M3 & M4 & M5 & M6 & M7).
  assert (Pv_w : par_ok tol (v_pv gw) (v_Uv gw) (v_sv gw) ov) by (rewrite M2, M5, M7; exact Pv).
  (* the three removals *)
  pose proof (vrstep_u_inverts tol tol2 gvw dim ou nu Wgvw Lgvw Pu_vw Ht Ht2) as I1. rewrite Eu_vw in I1. cbn [fst snd] in I1.
  rewrite (I1 eq_refl).
  pose proof (vrstep_v_inverts tol tol2 gw dim ov nv Wgw Lgw Pv_w Ht Ht2) as I2. rewrite Ev_w in I2. cbn [fst snd] in I2.
  rewrite (I2 eq_refl).
  pose proof (vrstep_w_inverts tol tol2 g dim ow nw W HLP Pw Ht Ht2) as I3. rewrite Ew in I3. exact (I3 eq_refl).
Qed.

Corollary insert_then_remove_vol_points (tol tol2 : R) (g : vol (T:=R)) (ou ov ow : option R) (nu nv nw dim : nat) :
  vwf g dim -> length (v_P g) = (v_su g * v_sv g * v_sw g)%nat ->
  par_ok tol (v_pu g) (v_Uu g) (v_su g) ou -> par_ok tol (v_pv g) (v_Uv g) (v_sv g) ov ->
  par_ok tol (v_pw g) (v_Uw g) (v_sw g) ow -> 0 <= tol -> 0 <= tol2 ->
  forall g3 g4 raised, insert_knot_vol Rops tol true g [ou; ov; ow] [Z.of_nat nu; Z.of_nat nv; Z.of_nat nw] = (g3, false) ->
  remove_knot_vol Rops tol tol2 true g3 [ou; ov; ow] [Z.of_nat nu; Z.of_nat nv; Z.of_nat nw] = (g4, raised) ->
  raised = false /\ g4 = g /\
  forall c tu tv tw, (c < dim)%nat -> vol_pt g3 c tu tv tw = vol_pt g c tu tv tw /\ vol_pt g4 c tu tv tw = vol_pt g3 c tu tv tw.
Proof.
  intros W HLP Pu Pv Pw Ht Ht2 g3 g4 raised E3 E4.
  rewrite (insert_then_remove_vol_restores tol tol2 g ou ov ow nu nv nw dim W HLP Pu Pv Pw Ht Ht2 g3 E3) in E4.
  injection E4 as <- <-.
  pose proof (insert_knot_vol_correct tol g ou ov ow nu nv nw dim W Pu Pv Pw) as C. rewrite E3 in C. cbv zeta in C.
  assert (C7 : forall c tu tv tw, (c < dim)%nat -> vol_pt g3 c tu tv tw = vol_pt g c tu tv tw) by (apply C).
  repeat split; [apply C7; assumption|symmetry; apply C7; assumption].
Qed.

Check KI_commute.
Check surf_nets_commute.
Check vol_nets_commute_uv.
Check vol_nets_commute_uw.
Check vol_nets_commute_vw.
Check insert_then_remove_surf_restores.
Check insert_then_remove_surf_points.
Check insert_then_remove_vol_restores.
Check insert_then_remove_vol_points.
Print Assumptions KI_commute.
Print Assumptions surf_nets_commute.
Print Assumptions insert_then_remove_surf_restores.
Print Assumptions insert_then_remove_surf_points.
Print Assumptions insert_then_remove_vol_restores.
Print Assumptions insert_then_remove_vol_points.
