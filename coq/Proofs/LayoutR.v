(* C13: results about Model.Layout: index bijections, grid view, managers, flips, transpose. *)
From Coq Require Import List Arith Bool Lia PeanoNat.
From NV Require Import Model.Common Model.Layout Proofs.LayoutP.
Import ListNotations.

(* ------------------------------------------------------------------ index maps *)
Lemma idx2_lt su sv u v : u < su -> v < sv -> idx2 sv u v < su * sv.
Proof. unfold idx2. nia. Qed.
Lemma idx2_inj sv u v u' v' : v < sv -> v' < sv -> idx2 sv u v = idx2 sv u' v' -> u = u' /\ v = v'.
Proof. unfold idx2. intros. assert (u = u') by nia. subst. lia. Qed.
Lemma idx2_surj su sv k : k < su * sv -> exists u v, u < su /\ v < sv /\ idx2 sv u v = k.
Proof.
  intros H. assert (Hb : 0 < sv) by nia. exists (k / sv), (k mod sv). split; [|split].
  - apply Nat.div_lt_upper_bound; nia.
  - apply Nat.mod_upper_bound; lia.
  - unfold idx2. symmetry. apply divmod_decomp. exact Hb.
Qed.
(* enumerating (u outer, v inner) lists every flat position exactly once and in order *)
Lemma idx2_enumerates su sv : tab2 su sv (idx2 sv) = seq 0 (su * sv).
Proof.
  apply tab2_eq with (d := 0); [apply seq_length|].
  intros i j Hi Hj. rewrite seq_nth by nia. reflexivity.
Qed.

Lemma idx3_lt su sv sw u v w : u < su -> v < sv -> w < sw -> idx3 su sv u v w < su * sv * sw.
Proof. unfold idx3. intros. assert (u + su * w < su * sw) by nia. nia. Qed.
Lemma idx3_inj su sv u v w u' v' w' : u < su -> u' < su -> v < sv -> v' < sv ->
  idx3 su sv u v w = idx3 su sv u' v' w' -> u = u' /\ v = v' /\ w = w'.
Proof.
  unfold idx3. intros Hu Hu' Hv Hv' E.
  assert (E1 : u + su * w = u' + su * w') by nia.
  assert (w = w') by nia. subst. assert (u = u') by lia. subst. lia.
Qed.
Lemma idx3_surj su sv sw k : k < su * sv * sw -> exists u v w, u < su /\ v < sv /\ w < sw /\ idx3 su sv u v w = k.
Proof.
  intros H. assert (Hv : 0 < sv) by nia. assert (Hu : 0 < su) by nia.
  set (m := k / sv).
  assert (Hm : m < su * sw) by (apply Nat.div_lt_upper_bound; nia).
  exists (m mod su), (k mod sv), (m / su). repeat split.
  - apply Nat.mod_upper_bound; lia.
  - apply Nat.mod_upper_bound; lia.
  - apply Nat.div_lt_upper_bound; nia.
  - unfold idx3. rewrite <- (divmod_decomp m su Hu). unfold m. symmetry. apply divmod_decomp. exact Hv.
Qed.
(* w outer, then u, then v innermost = the flat order *)
Lemma idx3_enumerates su sv sw : tab3 sw su sv (fun w u v => idx3 su sv u v w) = seq 0 (su * sv * sw).
Proof.
  apply tab3_eq with (d := 0); [rewrite seq_length; lia|].
  intros i j k Hi Hj Hk. assert (j + su * i < su * sw) by nia.
  rewrite seq_nth by nia. unfold idx3. reflexivity.
Qed.

(* every module's own subscript expression is the reference layout *)
Lemma find_index2_is_idx2 su sv u v : find_index2 su sv u v = idx2 sv u v.
Proof. unfold find_index2, idx2. ring. Qed.
Lemma find_index3_is_idx3 su sv sw u v w : find_index3 su sv sw u v w = idx3 su sv u v w.
Proof. unfold find_index3, idx3. ring. Qed.
Lemma ev_idx2_is_idx2 sv iu k iv l : ev_idx2 sv iu k iv l = idx2 sv (iu + k) (iv + l).
Proof. reflexivity. Qed.
Lemma ev_idx3_is_idx3 su sv iu du iv dv iw dw : ev_idx3 su sv iu du iv dv iw dw = idx3 su sv (iu + du) (iv + dv) (iw + dw).
Proof. reflexivity. Qed.

Section R.
Context {A Kn : Type} (d : A).
Notation at_ := (at_ d).
Notation get2d := (get2d d).

(* ------------------------------------------------------------------ grid view *)
Lemma view2d_get su sv (P : list A) u v : u < su -> v < sv -> get2d (view2d d su sv P) u v = at_ P (idx2 sv u v).
Proof.
  intros Hu Hv. unfold Layout.get2d, view2d. rewrite nth_map_seq by exact Hu. rewrite nth_map_seq by exact Hv.
  unfold idx2. f_equal. ring.
Qed.

Lemma get2d_tab (g : nat -> nat -> A) na nb a b : a < na -> b < nb ->
  get2d (map (fun a => map (g a) (seq 0 nb)) (seq 0 na)) a b = g a b.
Proof. intros Ha Hb. unfold Layout.get2d. rewrite nth_map_seq by exact Ha. apply nth_map_seq. exact Hb. Qed.

Lemma skipn_repeat (x : A) n k : skipn n (repeat x k) = repeat x (k - n).
Proof. revert k; induction n as [|n IH]; intros [|k]; simpl; auto. Qed.

Lemma skipn_S_cons (l : list A) n a r : skipn n l = a :: r -> skipn (S n) l = r.
Proof.
  revert l; induction n as [|n IH]; intros l E.
  - simpl in E. subst. reflexivity.
  - destruct l as [|x l]; [discriminate|]. simpl in E. apply IH in E. exact E.
Qed.

(* one row of writes at consecutive positions off, off+1, ... *)
Lemma row_writes (h : nat -> A) off n (pre rest : list A) : off = length pre -> n <= length rest ->
  fold_left (fun acc v => upd acc (v + off) (h v)) (seq 0 n) (pre ++ rest) = pre ++ map h (seq 0 n) ++ skipn n rest.
Proof.
  intros -> . induction n as [|n IH]; intros Hn; [reflexivity|].
  rewrite seq_S, fold_left_app, IH by lia. cbn [fold_left plus].
  destruct (skipn n rest) as [|a r] eqn:E.
  - exfalso. assert (HH : length (skipn n rest) = length rest - n) by apply skipn_length. rewrite E in HH. simpl in HH. lia.
  - assert (E2 : skipn (S n) rest = r) by (eapply skipn_S_cons; exact E).
    rewrite E2. rewrite app_assoc.
    replace (n + length pre) with (length (pre ++ map h (seq 0 n))) by (rewrite app_length, map_length, seq_length; lia).
    rewrite upd_app_here. rewrite map_app. cbn [map]. rewrite <- !app_assoc. reflexivity.
Qed.

(* the ctrlpts2d setter's scattered writes at v + size_v*u build the v-fastest flat list *)
Lemma scatter2_rows su sv (g : nat -> nat -> A) u : u <= su ->
  fold_left (fun acc u => fold_left (fun acc v => upd acc (v + sv * u) (g u v)) (seq 0 sv) acc) (seq 0 u) (repeat d (su * sv))
  = tab2 u sv g ++ repeat d ((su - u) * sv).
Proof.
  induction u as [|u IH]; intros Hu.
  - simpl. rewrite Nat.sub_0_r. reflexivity.
  - rewrite seq_S, fold_left_app, IH by lia. cbn [fold_left plus].
    rewrite row_writes; [|rewrite tab2_length; ring|rewrite repeat_length; nia].
    rewrite tab2_S, skipn_repeat, <- app_assoc. do 3 f_equal. nia.
Qed.
Lemma scatter2_tab2 su sv (g : nat -> nat -> A) : scatter2 d su sv g = tab2 su sv g.
Proof. unfold scatter2. rewrite scatter2_rows by lia. rewrite Nat.sub_diag. simpl. apply app_nil_r. Qed.

Definition rect (su sv : nat) (V : list (list A)) : Prop := length V = su /\ Forall (fun r => length r = sv) V.

Lemma set2d_tab (g : nat -> nat -> A) na nb : 0 < na ->
  set2d d (map (fun a => map (g a) (seq 0 nb)) (seq 0 na)) = (tab2 na nb g, na, nb).
Proof.
  intros Hna. unfold set2d. rewrite map_length, seq_length.
  rewrite nth_map_seq by exact Hna. rewrite map_length, seq_length.
  rewrite scatter2_tab2. f_equal. f_equal. apply (tab2_ext d). intros i j Hi Hj. apply get2d_tab; assumption.
Qed.

Lemma set2d_view su sv (P : list A) : 0 < su -> length P = su * sv -> set2d d (view2d d su sv P) = (P, su, sv).
Proof.
  intros Hsu HL. unfold view2d. rewrite set2d_tab by exact Hsu. f_equal. f_equal.
  apply tab2_eq with (d := d); [exact HL|]. intros i j Hi Hj. unfold Layout.at_. f_equal. ring.
Qed.

(* after assigning a rectangular grid, the flat list holds value[u][v] at idx2, and the view gives the grid back *)
Lemma set2d_spec su sv (V : list (list A)) : 0 < su -> rect su sv V ->
  exists P, set2d d V = (P, su, sv) /\ length P = su * sv /\
            (forall u v, u < su -> v < sv -> at_ P (idx2 sv u v) = get2d V u v) /\ view2d d su sv P = V.
Proof.
  intros Hsu [HL HF]. unfold set2d. rewrite HL.
  assert (Hsv : length (nth 0 V []) = sv).
  { rewrite Forall_forall in HF. apply HF. apply nth_In. lia. }
  rewrite Hsv. rewrite scatter2_tab2. eexists. split; [reflexivity|]. split; [apply tab2_length|]. split.
  - intros u v Hu Hv. unfold Layout.at_, idx2. apply nth_tab2; assumption.
  - apply nth_ext with (d := []) (d' := []); [unfold view2d; rewrite map_length, seq_length; lia|].
    intros u Hu. unfold view2d in Hu |- *. rewrite map_length, seq_length in Hu. rewrite nth_map_seq by exact Hu.
    assert (Hr : length (nth u V []) = sv) by (rewrite Forall_forall in HF; apply HF; apply nth_In; lia).
    apply nth_ext with (d := d) (d' := d); [rewrite map_length, seq_length; lia|].
    intros v Hv. rewrite map_length, seq_length in Hv. rewrite nth_map_seq by exact Hv.
    unfold Layout.at_. replace (v + u * sv) with (v + sv * u) by ring. rewrite nth_tab2 by assumption. reflexivity.
Qed.

(* ------------------------------------------------------------------ control point managers *)
Lemma mgr_set_get (P P' : list A) i j x : mgr_set P i x = Ok P' ->
  mgr_get P' j = if Nat.eqb i j then Some x else mgr_get P j.
Proof.
  unfold mgr_set, mgr_get. destruct (Nat.ltb_spec i (length P)) as [Hi|Hi]; [|discriminate].
  intros E. inversion E; subst P'. clear E.
  destruct (Nat.eqb_spec i j) as [<-|Hne].
  - rewrite nth_error_nth' with (d := d) by (rewrite upd_length; exact Hi). rewrite nth_upd_same by exact Hi. reflexivity.
  - destruct (Nat.ltb_spec j (length P)) as [Hj|Hj].
    + rewrite !nth_error_nth' with (d := d) by (try rewrite upd_length; exact Hj). rewrite nth_upd_other by exact Hne. reflexivity.
    + assert (E1 : nth_error (upd P i x) j = None) by (apply nth_error_None; rewrite upd_length; exact Hj).
      assert (E2 : nth_error P j = None) by (apply nth_error_None; exact Hj). rewrite E1, E2. reflexivity.
Qed.

(* set_ctrlpt(pt, u, v) followed by get_ctrlpt(u', v') on a su x sv manager: the written cell is (u,v) and only it *)
Lemma mgr2_set_get su sv (P P' : list A) u v u' v' x : v < sv -> v' < sv ->
  mgr_set P (find_index2 su sv u v) x = Ok P' ->
  mgr_get P' (find_index2 su sv u' v') = if andb (Nat.eqb u u') (Nat.eqb v v') then Some x else mgr_get P (find_index2 su sv u' v').
Proof.
  intros Hv Hv' E. rewrite (mgr_set_get _ _ _ _ _ E). rewrite !find_index2_is_idx2.
  destruct (Nat.eqb_spec (idx2 sv u v) (idx2 sv u' v')) as [Ei|Ei].
  - apply idx2_inj in Ei; [|assumption|assumption]. destruct Ei as [-> ->]. rewrite !Nat.eqb_refl. reflexivity.
  - destruct (Nat.eqb_spec u u') as [->|]; [|reflexivity]. destruct (Nat.eqb_spec v v') as [->|]; [|reflexivity]. contradiction.
Qed.
Lemma mgr3_set_get su sv sw (P P' : list A) u v w u' v' w' x : u < su -> u' < su -> v < sv -> v' < sv ->
  mgr_set P (find_index3 su sv sw u v w) x = Ok P' ->
  mgr_get P' (find_index3 su sv sw u' v' w') =
    if andb (Nat.eqb u u') (andb (Nat.eqb v v') (Nat.eqb w w')) then Some x else mgr_get P (find_index3 su sv sw u' v' w').
Proof.
  intros Hu Hu' Hv Hv' E. rewrite (mgr_set_get _ _ _ _ _ E). rewrite !find_index3_is_idx3.
  destruct (Nat.eqb_spec (idx3 su sv u v w) (idx3 su sv u' v' w')) as [Ei|Ei].
  - apply idx3_inj in Ei; try assumption. destruct Ei as [-> [-> ->]]. rewrite !Nat.eqb_refl. reflexivity.
  - destruct (Nat.eqb_spec u u') as [->|]; [|reflexivity]. destruct (Nat.eqb_spec v v') as [->|]; [|reflexivity].
    destruct (Nat.eqb_spec w w') as [->|]; [|reflexivity]. contradiction.
Qed.
(* inside the grid set_ctrlpt never raises, and get_ctrlpt reads nth idx *)
Lemma mgr2_set_ok su sv (P : list A) u v x : length P = su * sv -> u < su -> v < sv ->
  mgr_set P (find_index2 su sv u v) x = Ok (upd P (idx2 sv u v) x).
Proof.
  intros HL Hu Hv. unfold mgr_set. rewrite find_index2_is_idx2.
  destruct (Nat.ltb_spec (idx2 sv u v) (length P)) as [H|H]; [reflexivity|]. pose proof (idx2_lt su sv u v Hu Hv). lia.
Qed.
Lemma mgr2_get_ok su sv (P : list A) u v : length P = su * sv -> u < su -> v < sv ->
  mgr_get P (find_index2 su sv u v) = Some (at_ P (idx2 sv u v)).
Proof.
  intros HL Hu Hv. unfold mgr_get. rewrite find_index2_is_idx2. apply nth_error_nth'.
  pose proof (idx2_lt su sv u v Hu Hv). lia.
Qed.
Lemma mgr3_get_ok su sv sw (P : list A) u v w : length P = su * sv * sw -> u < su -> v < sv -> w < sw ->
  mgr_get P (find_index3 su sv sw u v w) = Some (at_ P (idx3 su sv u v w)).
Proof.
  intros HL Hu Hv Hw. unfold mgr_get. rewrite find_index3_is_idx3. apply nth_error_nth'.
  pose proof (idx3_lt su sv sw u v w Hu Hv Hw). lia.
Qed.

(* ------------------------------------------------------------------ compatibility flips *)
Lemma flip_ctrlpts_u_nth (P : list A) su sv u v : u < su -> v < sv ->
  at_ (flip_ctrlpts_u d P su sv) (idx2 sv u v) = at_ P (u + su * v).
Proof.
  intros Hu Hv. unfold flip_ctrlpts_u, idx2. unfold Layout.at_ at 1. rewrite nth_tab2 by assumption.
  unfold Layout.at_. f_equal. ring.
Qed.
Lemma flip_ctrlpts_nth (P : list A) su sv u v : u < su -> v < sv ->
  at_ (flip_ctrlpts d P su sv) (u + su * v) = at_ P (idx2 sv u v).
Proof.
  intros Hu Hv. unfold flip_ctrlpts, idx2. unfold Layout.at_ at 1. rewrite nth_tab2 by assumption.
  unfold Layout.at_. f_equal. ring.
Qed.
Lemma flip_ctrlpts_length (P : list A) su sv : length (flip_ctrlpts d P su sv) = su * sv.
Proof. unfold flip_ctrlpts. rewrite tab2_length. ring. Qed.
Lemma flip_ctrlpts_u_length (P : list A) su sv : length (flip_ctrlpts_u d P su sv) = su * sv.
Proof. unfold flip_ctrlpts_u. apply tab2_length. Qed.

Lemma flip_flip_u (P : list A) su sv : length P = su * sv -> flip_ctrlpts d (flip_ctrlpts_u d P su sv) su sv = P.
Proof.
  intros HL. unfold flip_ctrlpts at 1. apply tab2_eq with (d := d); [lia|].
  intros i j Hi Hj. replace (i + j * sv) with (idx2 sv j i) by (unfold idx2; ring).
  rewrite flip_ctrlpts_u_nth by assumption. unfold Layout.at_. f_equal.
Qed.
Lemma flip_u_flip (P : list A) su sv : length P = su * sv -> flip_ctrlpts_u d (flip_ctrlpts d P su sv) su sv = P.
Proof.
  intros HL. unfold flip_ctrlpts_u at 1. apply tab2_eq with (d := d); [exact HL|].
  intros i j Hi Hj. replace (i + j * su) with (i + su * j) by ring.
  rewrite flip_ctrlpts_nth by assumption. reflexivity.
Qed.
Lemma flip_ctrlpts_res_ok (P : list A) su sv : length P = su * sv ->
  flip_ctrlpts_res d P su sv = Ok (flip_ctrlpts d P su sv) /\ flip_ctrlpts_u_res d P su sv = Ok (flip_ctrlpts_u d P su sv).
Proof.
  intros HL. unfold flip_ctrlpts_res, flip_ctrlpts_u_res. rewrite HL, Nat.leb_refl. split; reflexivity.
Qed.

Lemma flip_ctrlpts2d_get (V : list (list A)) su sv u v : 0 < su -> 0 < sv -> u < su -> v < sv ->
  get2d (flip_ctrlpts2d d V su sv) v u = get2d V u v.
Proof.
  intros Hsu Hsv Hu Hv. unfold flip_ctrlpts2d.
  destruct (Nat.eqb_spec su 0) as [|_]; [lia|]. destruct (Nat.eqb_spec sv 0) as [|_]; [lia|]. cbn [orb].
  apply get2d_tab with (g := fun i j => get2d V j i); assumption.
Qed.
Lemma flip_ctrlpts2d_auto (V : list (list A)) su sv : 0 < su -> 0 < sv -> rect su sv V ->
  flip_ctrlpts2d d V 0 0 = flip_ctrlpts2d d V su sv.
Proof.
  intros Hsu Hsv [HL HF]. unfold flip_ctrlpts2d. cbn [Nat.eqb orb].
  destruct (Nat.eqb_spec su 0) as [|_]; [lia|]. destruct (Nat.eqb_spec sv 0) as [|_]; [lia|]. cbn [orb].
  rewrite HL. replace (length (nth 0 V [])) with sv; [reflexivity|].
  symmetry. rewrite Forall_forall in HF. apply HF. apply nth_In. lia.
Qed.

(* ------------------------------------------------------------------ transpose / flip *)
Definition wf_surf (s : surf A Kn) : Prop := 0 < s_su s /\ 0 < s_sv s /\ length (s_P s) = s_su s * s_sv s.

Lemma transpose_eq (s : surf A Kn) : 0 < s_sv s ->
  transpose d s = mkSurf (s_pv s) (s_pu s) (s_Uv s) (s_Uu s) (s_sv s) (s_su s) (flip_ctrlpts d (s_P s) (s_su s) (s_sv s)).
Proof.
  intros Hsv. unfold transpose.
  rewrite (set2d_tab (fun v u => get2d (view2d d (s_su s) (s_sv s) (s_P s)) u v)) by exact Hsv.
  f_equal. unfold flip_ctrlpts. apply (tab2_ext d). intros i j Hi Hj.
  rewrite view2d_get by assumption. unfold idx2. f_equal. ring.
Qed.
(* the transposed net holds at (v,u) what the original holds at (u,v); degrees, knots and sizes swap *)
Lemma transpose_spec (s : surf A Kn) : 0 < s_sv s ->
  let t := transpose d s in
  s_pu t = s_pv s /\ s_pv t = s_pu s /\ s_Uu t = s_Uv s /\ s_Uv t = s_Uu s /\ s_su t = s_sv s /\ s_sv t = s_su s /\
  length (s_P t) = s_su s * s_sv s /\
  forall u v, u < s_su s -> v < s_sv s -> at_ (s_P t) (idx2 (s_sv t) v u) = at_ (s_P s) (idx2 (s_sv s) u v).
Proof.
  intros Hsv t. unfold t. rewrite transpose_eq by exact Hsv. cbn [s_pu s_pv s_Uu s_Uv s_su s_sv s_P].
  repeat split; try reflexivity; [apply flip_ctrlpts_length|].
  intros u v Hu Hv. unfold idx2 at 1. apply flip_ctrlpts_nth; assumption.
Qed.
Lemma transpose_involutive (s : surf A Kn) : wf_surf s -> transpose d (transpose d s) = s.
Proof.
  intros (Hsu & Hsv & HL). rewrite (transpose_eq s) by exact Hsv. rewrite transpose_eq by (cbn; exact Hsu).
  destruct s as [pu pv Uu Uv su sv P]. cbn [s_pu s_pv s_Uu s_Uv s_su s_sv s_P] in *. f_equal.
  unfold flip_ctrlpts at 1. apply tab2_eq with (d := d); [exact HL|]. intros i j Hi Hj.
  replace (i + j * su) with (i + su * j) by ring. rewrite flip_ctrlpts_nth by assumption. reflexivity.
Qed.

Lemma flip_spec (s : surf A Kn) : wf_surf s ->
  forall u v, u < s_su s -> v < s_sv s ->
  at_ (s_P (flip s)) (idx2 (s_sv s) u v) = at_ (s_P s) (idx2 (s_sv s) (s_su s - 1 - u) (s_sv s - 1 - v)).
Proof.
  intros (Hsu & Hsv & HL) u v Hu Hv. unfold flip. cbn [s_P]. unfold Layout.at_.
  pose proof (idx2_lt _ _ u v Hu Hv) as Hlt.
  rewrite rev_nth by lia. f_equal. rewrite HL. unfold idx2 in *. nia.
Qed.
Lemma flip_involutive (s : surf A Kn) : flip (flip s) = s.
Proof. destruct s. unfold flip. cbn. rewrite rev_involutive. reflexivity. Qed.
End R.
