(* Direction lifting of knot insertion: in a surface (u or v direction) the new control net is row-wise
   (column-wise) the curve algorithm, hence a single insertion preserves every surface point. *)
From Coq Require Import List Reals Lra Lia Arith Bool ZArith.
From NV Require Import Scalar.Ops Model.Common Model.Basis Model.KnotIns Model.InsertKnot
  Proofs.Boehm Proofs.BasisR Proofs.KnotInsR Proofs.InsertKnotR Proofs.KnotInsN Proofs.InsertNR.
Import ListNotations.
Local Open Scope nat_scope.

(* ---------- indexing a concatenation of equally long blocks ---------- *)
Lemma flat_map_length_const {B} (f : nat -> list B) m : forall n,
  (forall i, i < n -> length (f i) = m) -> length (flat_map f (seq 0 n)) = m * n.
Proof.
  induction n as [|n IH]; intros H; [cbn; lia|].
  rewrite seq_S_end, flat_map_app, app_length. cbn [flat_map]. rewrite app_nil_r, IH, H by (intros; auto). cbn. lia.
Qed.

Lemma nth_flat_map_const {B} (f : nat -> list B) m d : forall n i j,
  (forall i, i < n -> length (f i) = m) -> i < n -> j < m ->
  nth (j + m * i) (flat_map f (seq 0 n)) d = nth j (f i) d.
Proof.
  induction n as [|n IH]; intros i j H Hi Hj; [lia|].
  rewrite seq_S_end, flat_map_app. cbn [flat_map]. rewrite app_nil_r.
  assert (HL : length (flat_map f (seq 0 n)) = m * n) by (apply flat_map_length_const; intros; apply H; lia).
  destruct (Nat.eq_dec i n) as [->|Hne].
  - rewrite app_nth2 by (rewrite HL; lia). rewrite HL. f_equal. cbn. lia.
  - rewrite app_nth1 by (rewrite HL; nia). apply IH; auto; try lia.
Qed.

Lemma nth_map_seq {B} (f : nat -> B) n j d : j < n -> nth j (map f (seq 0 n)) d = f j.
Proof.
  intros H. rewrite (nth_indep _ d (f 0)) by (rewrite map_length, seq_length; exact H).
  rewrite (map_nth f (seq 0 n) 0 j). rewrite seq_nth by exact H. reflexivity.
Qed.

(* ---------- surfaces: the new net is row-wise / column-wise the curve algorithm ---------- *)
Section Lift.
Context {T : Type} (K : ops T).
Variables (g : surf (T:=T)) (t : T) (num s k : nat).

Definition row_v (i : nat) : list (list T) := map (fun v_ => getp (s_P g) (v_ + s_sv g * i)) (seq 0 (s_sv g)).
Definition col_u (j : nat) : list (list T) := map (fun u_ => getp (s_P g) (j + s_sv g * u_)) (seq 0 (s_su g)).

Lemma surf_net_v_row i j :
  s <= s_pv g -> s_pv g <= k -> k < s_sv g -> num <= s_pv g - s -> i < s_su g -> j < s_sv g + num ->
  getp (surf_net_v K g t num s k) (j + (s_sv g + num) * i) = getp (knot_insertion K (s_pv g) (s_Uv g) (row_v i) t num s k) j.
Proof.
  intros H1 H2 H3 H4 Hi Hj. unfold surf_net_v, getp.
  apply (nth_flat_map_const (fun u_ => knot_insertion K (s_pv g) (s_Uv g)
           (map (fun v_ => getp (s_P g) (v_ + s_sv g * u_)) (seq 0 (s_sv g))) t num s k)); auto.
  intros i' Hi'. destruct (knot_insertion_frame K (s_pv g) (s_Uv g) (row_v i') t num s k) as [HL _]; auto.
  - unfold row_v. rewrite map_length, seq_length. exact H3.
  - unfold row_v in HL. rewrite HL, map_length, seq_length. reflexivity.
Qed.

Lemma surf_net_v_length :
  s <= s_pv g -> s_pv g <= k -> k < s_sv g -> num <= s_pv g - s ->
  length (surf_net_v K g t num s k) = (s_sv g + num) * s_su g.
Proof.
  intros H1 H2 H3 H4. unfold surf_net_v. apply flat_map_length_const.
  intros i' Hi'. destruct (knot_insertion_frame K (s_pv g) (s_Uv g) (row_v i') t num s k) as [HL _]; auto.
  - unfold row_v. rewrite map_length, seq_length. exact H3.
  - unfold row_v in HL. rewrite HL, map_length, seq_length. reflexivity.
Qed.

Lemma surf_net_u_col i j :
  s <= s_pu g -> s_pu g <= k -> k < s_su g -> num <= s_pu g - s -> i < s_su g + num -> j < s_sv g ->
  getp (surf_net_u K g t num s k) (j + s_sv g * i) = getp (knot_insertion K (s_pu g) (s_Uu g) (col_u j) t num s k) i.
Proof.
  intros H1 H2 H3 H4 Hi Hj. unfold surf_net_u, flip_ctrlpts_u.
  set (tmp := flat_map _ (seq 0 (s_sv g))).
  unfold getp at 1.
  rewrite (nth_flat_map_const (fun i0 => map (fun j0 => getp tmp (i0 + j0 * (s_su g + num))) (seq 0 (s_sv g))) (s_sv g)); auto.
  2:{ intros. rewrite map_length, seq_length. reflexivity. }
  rewrite nth_map_seq by exact Hj.
  replace (i + j * (s_su g + num)) with (i + (s_su g + num) * j) by lia.
  unfold tmp, getp.
  apply (nth_flat_map_const (fun v => knot_insertion K (s_pu g) (s_Uu g)
           (map (fun u_ => getp (s_P g) (v + s_sv g * u_)) (seq 0 (s_su g))) t num s k)); auto.
  intros j' Hj'. destruct (knot_insertion_frame K (s_pu g) (s_Uu g) (col_u j') t num s k) as [HL _]; auto.
  - unfold col_u. rewrite map_length, seq_length. exact H3.
  - unfold col_u in HL. rewrite HL, map_length, seq_length. reflexivity.
Qed.

Lemma surf_net_u_length :
  length (surf_net_u K g t num s k) = s_sv g * (s_su g + num).
Proof.
  unfold surf_net_u, flip_ctrlpts_u. apply flat_map_length_const. intros. rewrite map_length, seq_length. reflexivity.
Qed.
End Lift.

(* ---------- surface points as tensor-product Cox-de Boor sums ---------- *)
Open Scope R_scope.

Lemma sumf_scal a f n : sumf (fun i => a * f i) n = a * sumf f n.
Proof. induction n; cbn; [ring|]. rewrite IHn. ring. Qed.
Lemma sumf_plus f h n : sumf (fun i => f i + h i) n = sumf f n + sumf h n.
Proof. induction n; cbn; [ring|]. rewrite IHn. ring. Qed.
Lemma sumf_swap (f : nat -> nat -> R) n m :
  sumf (fun i => sumf (fun j => f i j) m) n = sumf (fun j => sumf (fun i => f i j) n) m.
Proof.
  induction n; cbn.
  - induction m; cbn; [reflexivity|]. rewrite <- IHm. ring.
  - rewrite IHn. rewrite <- sumf_plus. reflexivity.
Qed.

Definition surf_pt (g : surf (T:=R)) (c : nat) (tu tv : R) : R :=
  sumf (fun i => N (Ufun (s_Uu g)) (s_pu g) i tu *
                 sumf (fun j => N (Ufun (s_Uv g)) (s_pv g) j tv * coord c (s_P g) (j + s_sv g * i)) (s_sv g)) (s_su g).

Section SurfV.
Variables (g : surf (T:=R)) (v : R) (num s k dim : nat).
Hypothesis Usorted : sortedR (s_Uv g).
Hypothesis HlenU : length (s_Uv g) = (s_sv g + s_pv g + 1)%nat.
Hypothesis Hsp : (s <= s_pv g)%nat.
Hypothesis Hnum : (num <= s_pv g - s)%nat.
Hypothesis Hpk : (s_pv g <= k)%nat.
Hypothesis Hk : (k < s_sv g)%nat.
Hypothesis Hu : knR (s_Uv g) k <= v < knR (s_Uv g) (k + 1).
Hypothesis Hmult : forall i, (k - s < i <= k)%nat -> knR (s_Uv g) i = v.
Hypothesis Hdim : forall i, (i < s_sv g * s_su g)%nat -> length (getp (s_P g) i) = dim.

Definition surf_after_v : surf :=
  mkS (s_pu g) (s_pv g) (s_Uu g) (knot_insertion_kv (s_Uv g) v k num) (s_su g) (s_sv g + num) (surf_net_v Rops g v num s k).

Theorem surf_insert_v_preserves c tu tv : (c < dim)%nat -> surf_pt surf_after_v c tu tv = surf_pt g c tu tv.
Proof.
  intros Hc. unfold surf_pt, surf_after_v. cbn [s_pu s_pv s_Uu s_Uv s_su s_sv s_P].
  apply sumf_ext. intros i Hi. f_equal.
  assert (Hrow : length (row_v g i) = s_sv g) by (unfold row_v; rewrite map_length, seq_length; reflexivity).
  assert (HKL : length (knot_insertion Rops (s_pv g) (s_Uv g) (row_v g i) v num s k) = (s_sv g + num)%nat).
  { destruct (knot_insertion_frame Rops (s_pv g) (s_Uv g) (row_v g i) v num s k) as [HL _]; rewrite ?Hrow; auto. rewrite HL, Hrow. reflexivity. }
  transitivity (curve_pt (s_pv g) (knot_insertion_kv (s_Uv g) v k num) (knot_insertion Rops (s_pv g) (s_Uv g) (row_v g i) v num s k) c tv).
  - unfold curve_pt. rewrite HKL.
    apply sumf_ext. intros j Hj. f_equal. unfold coord.
    rewrite (surf_net_v_row Rops g v num s k i j) by lia. reflexivity.
  - rewrite (insertN_model_preserves_curve (s_pv g) (s_Uv g) (row_v g i) v s k dim); auto; rewrite ?Hrow; auto.
    + unfold curve_pt. rewrite Hrow. apply sumf_ext. intros j Hj. f_equal. unfold coord, row_v, getp at 1.
      rewrite nth_map_seq by exact Hj. reflexivity.
    + intros j Hj. unfold row_v, getp at 1. rewrite nth_map_seq by exact Hj. apply Hdim. nia.
Qed.
End SurfV.

Section SurfU.
Variables (g : surf (T:=R)) (u : R) (num s k dim : nat).
Hypothesis Usorted : sortedR (s_Uu g).
Hypothesis HlenU : length (s_Uu g) = (s_su g + s_pu g + 1)%nat.
Hypothesis Hsp : (s <= s_pu g)%nat.
Hypothesis Hnum : (num <= s_pu g - s)%nat.
Hypothesis Hpk : (s_pu g <= k)%nat.
Hypothesis Hk : (k < s_su g)%nat.
Hypothesis Hu : knR (s_Uu g) k <= u < knR (s_Uu g) (k + 1).
Hypothesis Hmult : forall i, (k - s < i <= k)%nat -> knR (s_Uu g) i = u.
Hypothesis Hdim : forall i, (i < s_sv g * s_su g)%nat -> length (getp (s_P g) i) = dim.

Definition surf_after_u : surf :=
  mkS (s_pu g) (s_pv g) (knot_insertion_kv (s_Uu g) u k num) (s_Uv g) (s_su g + num) (s_sv g) (surf_net_u Rops g u num s k).

Theorem surf_insert_u_preserves c tu tv : (c < dim)%nat -> surf_pt surf_after_u c tu tv = surf_pt g c tu tv.
Proof.
  intros Hc. unfold surf_pt, surf_after_u. cbn [s_pu s_pv s_Uu s_Uv s_su s_sv s_P].
  (* exchange the sums so that the u-sum (the direction of insertion) is innermost *)
  rewrite (sumf_ext _ (fun i => sumf (fun j => N (Ufun (s_Uv g)) (s_pv g) j tv *
             (N (Ufun (knot_insertion_kv (s_Uu g) u k num)) (s_pu g) i tu * coord c (surf_net_u Rops g u num s k) (j + s_sv g * i))) (s_sv g))).
  2:{ intros i _. rewrite <- sumf_scal. apply sumf_ext. intros j _. ring. }
  rewrite sumf_swap.
  rewrite (sumf_ext (fun i => N (Ufun (s_Uu g)) (s_pu g) i tu * sumf _ (s_sv g))
                    (fun i => sumf (fun j => N (Ufun (s_Uv g)) (s_pv g) j tv *
             (N (Ufun (s_Uu g)) (s_pu g) i tu * coord c (s_P g) (j + s_sv g * i))) (s_sv g))).
  2:{ intros i _. rewrite <- sumf_scal. apply sumf_ext. intros j _. ring. }
  rewrite (sumf_swap _ (s_su g)).
  apply sumf_ext. intros j Hj. rewrite !sumf_scal. f_equal.
  assert (Hcol : length (col_u g j) = s_su g) by (unfold col_u; rewrite map_length, seq_length; reflexivity).
  assert (HKL : length (knot_insertion Rops (s_pu g) (s_Uu g) (col_u g j) u num s k) = (s_su g + num)%nat).
  { destruct (knot_insertion_frame Rops (s_pu g) (s_Uu g) (col_u g j) u num s k) as [HL _]; rewrite ?Hcol; auto. rewrite HL, Hcol. reflexivity. }
  transitivity (curve_pt (s_pu g) (knot_insertion_kv (s_Uu g) u k num) (knot_insertion Rops (s_pu g) (s_Uu g) (col_u g j) u num s k) c tu).
  - unfold curve_pt. rewrite HKL.
    apply sumf_ext. intros i Hi. f_equal. unfold coord.
    rewrite (surf_net_u_col Rops g u num s k i j) by lia. reflexivity.
  - rewrite (insertN_model_preserves_curve (s_pu g) (s_Uu g) (col_u g j) u s k dim); auto; rewrite ?Hcol; auto.
    + unfold curve_pt. rewrite Hcol. apply sumf_ext. intros i Hi. f_equal. unfold coord, col_u, getp at 1.
      rewrite nth_map_seq by exact Hi. reflexivity.
    + intros i Hi. unfold col_u, getp at 1. rewrite nth_map_seq by exact Hi. apply Hdim. nia.
Qed.
End SurfU.

Lemma insert_knot_surf_accept_u tol (g : surf (T:=R)) t num :
  (1 <= num)%nat -> (num <= s_pu g - find_multiplicity Rops tol t (s_Uu g))%nat ->
  insert_knot_surf Rops tol true g [Some t; None] [Z.of_nat num; 0%Z] =
  (surf_after_u g t num (find_multiplicity Rops tol t (s_Uu g)) (find_span_linear Rops (s_pu g) (s_Uu g) (s_su g) t), false).
Proof. intros. rewrite insert_knot_surf_accept_u_gen by assumption. reflexivity. Qed.
