(* A5.4 (refine_pts at the reals): the loop invariant.  After the knots X[j+1..] have been processed the views
   Wl / Rl of the state (Proofs/RefineGenS.v) are a sorted knot vector = U plus those knots, and control points
   of the SAME curve.  Each outer iteration is one Boehm insertion (Proofs/Boehm.v) at the true span of x in Wl. *)
From Coq Require Import List Reals Lra Lia Arith Bool Permutation.
From NV Require Import Scalar.Ops Model.Common Model.Basis Model.KnotIns Model.InsertKnot Model.KnotRefine
  Proofs.Boehm Proofs.BasisR Proofs.KnotInsR Proofs.InsertKnotR Proofs.KnotRefineR Proofs.RefineGenS.
Import ListNotations.
Local Open Scope nat_scope.

(* ---------- small facts ---------- *)
Lemma Wl_insert U kv i k x : i < length U -> 1 <= k -> k < length kv ->
  Wl U (upd kv k x) i (Nat.pred k) = knot_insertion_kv (Wl U kv i k) x i 1.
Proof.
  intros Hi Hk HkL. unfold Wl, knot_insertion_kv.
  assert (Hf : length (firstn (S i) U) = S i) by (rewrite firstn_length; lia).
  replace (S (Nat.pred k)) with k by lia. rewrite skipn_upd_here by lia.
  revert Hf. generalize (firstn (S i) U). intros l1 Hf. rewrite <- Hf.
  rewrite firstn_app, skipn_app, Nat.sub_diag, firstn_all, skipn_all. cbn [firstn skipn repeat app].
  rewrite app_nil_r. reflexivity.
Qed.

Lemma kv_same_run (W : list R) x i k' : i <= k' -> k' < length W ->
  (forall q, i < q <= k' -> nth q W 0%R = x) ->
  knot_insertion_kv W x i 1 = knot_insertion_kv W x k' 1.
Proof.
  intros Hik Hk Hrun. apply (nth_ext _ _ 0%R 0%R).
  - rewrite !kv_length. reflexivity.
  - intros j Hj. rewrite !kv_nth by lia.
    destruct (Nat.leb_spec j i); destruct (Nat.leb_spec j k'); try lia; auto;
    destruct (Nat.leb_spec j (i + 1)); destruct (Nat.leb_spec j (k' + 1)); try lia; auto;
    try (symmetry; apply Hrun; lia); try (apply Hrun; lia); try (rewrite !Hrun by lia; reflexivity).
Qed.

Lemma span_exists (W : list R) (x : R) : sortedR W -> forall g i e, e - i <= g -> i < e -> e < length W ->
  (knR W i <= x)%R -> (x < knR W e)%R -> exists k', i <= k' < e /\ (knR W k' <= x < knR W (S k'))%R.
Proof.
  intros Hs. induction g as [|g IH]; intros i e Hg Hie He Hlo Hhi; [lia|].
  destruct (Rlt_dec x (knR W (S i))) as [Hlt|Hge].
  - exists i. split; [lia|]. split; assumption.
  - assert (S i <> e) by (intro E; subst e; lra).
    destruct (IH (S i) e) as [k' [H1 H2]]; try lia; try lra; try assumption.
    exists k'. split; [lia|exact H2].
Qed.

Lemma sortedR_app_le (X : list R) : sortedR X -> forall l1 y l2, X = l1 ++ y :: l2 ->
  (forall z, In z l1 -> (z <= y)%R) /\ (forall z, In z l2 -> (y <= z)%R).
Proof.
  intros Hs l1 y l2 E. split; intros z Hz; apply (In_nth _ _ 0%R) in Hz; destruct Hz as [q [Hq Ez]].
  - specialize (Hs q (length l1)). unfold kn in Hs. rewrite E in Hs.
    rewrite app_nth1 in Hs by exact Hq. rewrite app_nth2, Nat.sub_diag in Hs by lia. cbn [nth] in Hs.
    cbn [o0 Rops] in Hs. rewrite Ez in Hs. apply Hs. rewrite app_length. cbn [length]. lia.
  - specialize (Hs (length l1) (S (length l1 + q))). unfold kn in Hs. rewrite E in Hs.
    rewrite app_nth2, Nat.sub_diag in Hs by lia. rewrite app_nth2 in Hs by lia.
    replace (S (length l1 + q) - length l1) with (S q) in Hs by lia. cbn [nth] in Hs.
    cbn [o0 Rops] in Hs. rewrite Ez in Hs. apply Hs. rewrite app_length. cbn [length]. lia.
Qed.

(* a run of s copies of x inside l accounts for at least s occurrences *)
Lemma run_count (x : R) : forall (l : list R) start s,
  (forall q, start <= q < start + s -> nth q l 0%R = x) -> start + s <= length l -> s <= count_occ Req_EM_T l x.
Proof.
  induction l as [|y l IH]; intros start s Hrun HL; [cbn in *; lia|].
  destruct s as [|s]; [lia|].
  destruct start as [|st].
  - assert (y = x) by (apply (Hrun 0); lia). subst y. rewrite count_occ_cons_eq by reflexivity.
    apply le_n_S. apply (IH 0 s); [|cbn in HL; lia]. intros q Hq. apply (Hrun (S q)). lia.
  - destruct (Req_EM_T y x) as [E|E].
    + rewrite count_occ_cons_eq by exact E. apply Nat.le_le_succ_r. apply (IH st (S s)); [|cbn in HL; lia].
      intros q Hq. apply (Hrun (S q)). lia.
    + rewrite count_occ_cons_neq by exact E. apply (IH st (S s)); [|cbn in HL; lia].
      intros q Hq. apply (Hrun (S q)). lia.
Qed.

(* coordinates of the lerp / copy decision *)
Section InsH.
Variables (tol : R) (p : nat) (U kv : list R) (x : R) (i k l dim c : nat) (y z : list R).
Hypothesis Hy : length y = dim.
Hypothesis Hz : length z = dim.
Hypothesis Hc : c < dim.
Let v := knR kv (k + l).
Let u0 := knR U (i - p + l).

Lemma ins_h_length : length (ins_h tol p U x kv i k l y z) = dim.
Proof. unfold ins_h. destruct (oltb Rops _ tol); [exact Hz|]. rewrite lerp_length, Hy, Hz. apply Nat.min_id. Qed.

Lemma ins_h_eq : v = x -> nth c (ins_h tol p U x kv i k l y z) 0%R = nth c z 0%R.
Proof.
  intros E. unfold ins_h. fold v. rewrite E. destruct (oltb Rops _ tol); [reflexivity|].
  change 0%R with (o0 Rops). rewrite lerp_nth by lia. rsimp.
  replace (x - x)%R with 0%R by ring. unfold Rdiv. rewrite Rmult_0_l. ring.
Qed.

Lemma ins_h_gt : (x < v)%R -> (tol <= v - x)%R ->
  nth c (ins_h tol p U x kv i k l y z) 0%R = ((v - x) / (v - u0) * nth c y 0 + (1 - (v - x) / (v - u0)) * nth c z 0)%R.
Proof.
  intros Hlt Ht. unfold ins_h. fold v. fold u0. unfold oabs. rsimp.
  unfold Rleb. destruct (Rle_dec 0 (v - x)) as [|Hn]; [|exfalso; lra].
  unfold Rltb. destruct (Rlt_dec (v - x) tol); [exfalso; lra|].
  change 0%R with (o0 Rops). rewrite lerp_nth by lia. rsimp. reflexivity.
Qed.
End InsH.

(* ---------- the invariant ---------- *)
Section Main.
Variables (tol : R) (p : nat) (U : list R) (P : list (list R)) (X : list R) (dim : nat).
Hypothesis Hp1 : 1 <= p.
Hypothesis Usorted : sortedR U.
Hypothesis HpP : p < length P.
Hypothesis HlenU : length U = length P + p + 1.
Hypothesis Xne : X <> [].
Hypothesis Xsorted : sortedR X.
Hypothesis Xlo : (knR U p <= nth 0 X 0)%R.
Hypothesis Xhi : (nth (length X - 1) X 0 < knR U (length P))%R.
Hypothesis Htol : forall x y, In x X -> In y (X ++ U) -> (x < y)%R -> (tol <= y - x)%R.
Hypothesis Hmult : forall x, In x X -> count_occ Req_EM_T (X ++ U) x <= p.
Hypothesis Hdim : forall i, i < length P -> length (getp P i) = dim.

Let a := find_span_linear Rops p U (S (length P - 1)) (nth 0 X 0%R).
Let b := S (find_span_linear Rops p U (S (length P - 1)) (nth (length X - 1) X 0%R)).

Lemma X_bounds x : In x X -> (nth 0 X 0 <= x <= nth (length X - 1) X 0)%R.
Proof.
  intros Hx. apply (In_nth _ _ 0%R) in Hx. destruct Hx as [q [Hq E]]. subst x.
  split; [apply (Xsorted 0 q)|apply (Xsorted q (length X - 1))]; lia.
Qed.

Lemma Xlen : 1 <= length X.
Proof. destruct X; [congruence|cbn; lia]. Qed.

Lemma Xhi_ge : (knR U p <= nth (length X - 1) X 0)%R.
Proof. pose proof Xlen. assert (Hs0 := Xsorted 0 (length X - 1) ltac:(lia)). unfold kn in Hs0. cbn [o0 Rops] in Hs0. lra. Qed.

Lemma a_spec : p <= a < length P /\ (knR U a <= nth 0 X 0 < knR U (S a))%R.
Proof.
  assert (HS : S (length P - 1) = length P) by lia.
  pose proof (find_span_linear_spec U (nth 0 X 0%R) p (length P) HpP ltac:(lia) Xlo) as H.
  cbv zeta in H. unfold a. rewrite HS. destruct H as [H1 [H2 [H3|[H3 H4]]]].
  - split; [exact H1|split; assumption].
  - pose proof Xlen. assert (Hs0 := Xsorted 0 (length X - 1) ltac:(lia)). unfold kn in Hs0. cbn [o0 Rops] in Hs0. lra.
Qed.

Lemma b_spec : p < b <= length P /\ (knR U (b - 1) <= nth (length X - 1) X 0 < knR U b)%R.
Proof.
  assert (HS : S (length P - 1) = length P) by lia.
  pose proof (find_span_linear_spec U (nth (length X - 1) X 0%R) p (length P) HpP ltac:(lia) Xhi_ge) as H.
  cbv zeta in H. unfold b. rewrite HS. destruct H as [H1 [H2 [H3|[H3 H4]]]].
  - split; [lia|]. replace (S _ - 1) with (find_span_linear Rops p U (length P) (nth (length X - 1) X 0%R)) by lia.
    split; assumption.
  - lra.
Qed.

Lemma a_lt_b : a < b.
Proof.
  destruct a_spec as [Ha [Ha1 Ha2]]. destruct b_spec as [Hb [Hb1 Hb2]].
  destruct (le_lt_dec b a) as [Hle|]; [|assumption]. exfalso.
  assert (knR U b <= knR U a)%R by (apply Usorted; lia).
  pose proof Xlen. assert (Hs0 := Xsorted 0 (length X - 1) ltac:(lia)). unfold kn in Hs0. cbn [o0 Rops] in Hs0. lra.
Qed.

Lemma X_in_dom x : In x X -> (knR U a <= x < knR U b)%R /\ (x < knR U (length P))%R.
Proof.
  intros Hx. destruct (X_bounds x Hx). destruct a_spec as [Ha [Ha1 Ha2]]. destruct b_spec as [Hb [Hb1 Hb2]].
  split; lra.
Qed.

Definition Inv (Xrem : list R) (st : list (list R) * list R * nat * nat) : Prop :=
  let '(nw, kv, i, k) := st in
  let W := Wl U kv i k in let Rv := Rl p P nw i k in
  a <= i /\ i < length U /\ k = i + length Xrem /\ length kv = length U + length X /\ length nw = length P + length X /\
  (exists Xdone, X = Xrem ++ Xdone) /\
  sortedR W /\
  knR W (length W - p - 1) = knR U (length P) /\
  (forall x', In x' Xrem -> (x' <= knR W (S i))%R) /\
  (forall w, w <= a -> nth w kv 0%R = nth w U 0%R) /\
  (forall w, w < a - p -> nth w nw [] = nth w P []) /\
  Permutation (Xrem ++ W) (X ++ U) /\
  (Xrem = [] -> i = a) /\
  (forall w, w < length Rv -> length (nth w Rv []) = dim) /\
  (forall c t, c < dim -> curve_pt p W Rv c t = curve_pt p U P c t).

(* control points after the insertion part of the body, in terms of the view before *)
Lemma Rl_insert_nth nw kv i k x w : p <= i -> i - p <= length P -> i < k -> k < length nw ->
  nth w (Rl p P (ins_nw tol p U x nw kv i k) i (Nat.pred k)) [] =
    if Nat.leb w (i - p) then nth w (Rl p P nw i k) []
    else if Nat.leb w i then ins_h tol p U x kv i k (w - (i - p)) (nth (w - 1) (Rl p P nw i k) []) (nth w (Rl p P nw i k) [])
    else nth (w - 1) (Rl p P nw i k) [].
Proof.
  intros Hpi HiP Hik HkL. rewrite !Rl_nth by lia. rewrite ins_nw_nth by lia.
  replace (Nat.pred k - p) with (k - p - 1) by lia.
  destruct (Nat.leb_spec w (i - p)).
  - destruct (Nat.ltb_spec w (i - p)); [reflexivity|].
    assert (w = i - p) by lia. subst w.
    destruct (Nat.eqb_spec (i - p - (i - p) + (k - p - 1)) (k - p - 1)); [|lia]. f_equal. lia.
  - destruct (Nat.ltb_spec w (i - p)); [lia|].
    destruct (Nat.ltb_spec (w - 1) (i - p)); [lia|].
    destruct (Nat.eqb_spec (w - (i - p) + (k - p - 1)) (k - p - 1)); [lia|].
    destruct (Nat.leb_spec w i).
    + destruct (Nat.leb_spec (k - p) (w - (i - p) + (k - p - 1))); [|lia].
      destruct (Nat.ltb_spec (w - (i - p) + (k - p - 1)) k); [|lia]. cbn [andb].
      f_equal; [lia|f_equal; lia|f_equal; lia].
    + destruct (Nat.ltb_spec (w - (i - p) + (k - p - 1)) k); [lia|]. rewrite Bool.andb_false_r. f_equal. lia.
Qed.

Lemma Inv_step Xrem x st : Inv (Xrem ++ [x]) st -> Inv Xrem (rstep tol p U P a st x).
Proof.
  destruct st as [[[nw0 kv0] i0] k0]. unfold Inv at 1. cbv zeta.
  intros [Hai0 [HiU0 [Hk0 [HLk0 [HLn0 [[Xdone EX] [HWs0 [HWe0 [HX0 [Hkv0 [Hnw0 [HPerm0 [_ [Hdim0 Hcurve0]]]]]]]]]]]]]].
  rewrite app_length in Hk0. cbn [length] in Hk0.
  destruct a_spec as [Ha [Ha1 Ha2]].
  assert (HlX : length Xrem + 1 + length Xdone = length X).
  { rewrite EX, !app_length. cbn [length]. lia. }
  assert (HxX : In x X) by (rewrite EX; apply in_or_app; left; apply in_or_app; right; left; reflexivity).
  destruct (X_in_dom x HxX) as [[Hxa Hxb] HxP].
  unfold rstep.
  pose proof (shift_spec p U P x a (proj1 Ha) (S (length U)) nw0 kv0 i0 k0 (length Xrem + 1)
                Hai0 HiU0 ltac:(lia) ltac:(lia) Hk0 ltac:(lia) ltac:(lia) ltac:(lia)) as HS.
  destruct (refine_shift Rops [] (S (length U)) p U P x a (nw0, kv0, i0, k0)) as [[[nw kv] i] k].
  destruct HS as [Hi [Hk [HLk [HLn [EW [ER [Hkv [Hnw [Hexit HxS]]]]]]]]].
  rewrite <- EW in HWs0, HWe0, HX0, HPerm0, Hcurve0, HxS. rewrite <- ER in Hdim0, Hcurve0.
  set (W := Wl U kv i k) in *. set (Rv := Rl p P nw i k) in *.
  assert (HiU : i < length U) by lia.
  assert (HLW : length W = length U + length X - (length Xrem + 1)).
  { unfold W. rewrite Wl_length by lia. lia. }
  assert (HLR : length Rv = length P + length X - (length Xrem + 1)).
  { unfold Rv. rewrite Rl_length by lia. lia. }
  assert (HxS' : (x <= knR W (S i))%R).
  { apply HxS. apply HX0. apply in_or_app. right. left. reflexivity. }
  assert (HWi : knR W i = knR U i).
  { unfold W, kn. rewrite Wl_nth by lia. destruct (Nat.leb_spec i i); [reflexivity|lia]. }
  assert (Hxi : (knR W i <= x)%R).
  { rewrite HWi. destruct Hexit as [->|Hlt]; lra. }
  set (e := length W - p - 1) in *.
  assert (Hie : i < e).
  { destruct (le_lt_dec e i) as [Hle|]; [|assumption]. exfalso.
    assert (knR W e <= knR W i)%R by (apply HWs0; lia). lra. }
  assert (HeR : e = length Rv) by (unfold e; lia).
  destruct (span_exists W x HWs0 (e - i) i e ltac:(lia) Hie ltac:(unfold e; lia) Hxi ltac:(rewrite HWe0; exact HxP))
    as [k' [Hk' [Hk'lo Hk'hi]]].
  assert (Hrun : forall q, i < q <= k' -> nth q W 0%R = x).
  { intros q Hq. assert (knR W (S i) <= knR W q)%R by (apply HWs0; lia).
    assert (knR W q <= knR W k')%R by (apply HWs0; lia). unfold kn in *. cbn [o0 Rops] in *. lra. }
  assert (Hk'p : k' < i + p).
  { pose proof (run_count x W (S i) (k' - i)) as Hc.
    assert (k' - i <= count_occ Req_EM_T W x).
    { apply Hc; [|unfold e in *; lia]. intros q Hq. apply Hrun. lia. }
    pose proof (proj1 (Permutation_count_occ Req_EM_T _ _) HPerm0 x) as Hpc.
    rewrite !count_occ_app in Hpc. rewrite <- count_occ_app in Hpc.
    cbn [count_occ] in Hpc. destruct (Req_EM_T x x) as [_|Hne]; [|congruence].
Show.
    pose proof (Hmult x HxX). lia. }
  (* the new views *)
  assert (EW' : Wl U (upd kv k x) i (Nat.pred k) = knot_insertion_kv W x k' 1).
  { rewrite Wl_insert by lia. fold W. apply kv_same_run; try lia. exact Hrun. }
  assert (EW'i : Wl U (upd kv k x) i (Nat.pred k) = knot_insertion_kv W x i 1).
  { rewrite Wl_insert by lia. reflexivity. }
  assert (HkL : k < length nw) by lia.
  unfold Inv. cbv zeta. rewrite upd_length, ins_nw_length.
  set (W' := Wl U (upd kv k x) i (Nat.pred k)) in *.
  set (Rv' := Rl p P (ins_nw tol p U x nw kv i k) i (Nat.pred k)).
  assert (HLW' : length W' = S (length W)) by (rewrite EW', kv_length; lia).
  assert (HLR' : length Rv' = S (length Rv)).
  { unfold Rv'. rewrite Rl_length by lia. rewrite ins_nw_length. lia. }
  assert (HRv' : forall w, nth w Rv' [] =
    if Nat.leb w (i - p) then nth w Rv []
    else if Nat.leb w i then ins_h tol p U x kv i k (w - (i - p)) (nth (w - 1) Rv []) (nth w Rv [])
    else nth (w - 1) Rv []).
  { intros w. unfold Rv', Rv. apply Rl_insert_nth; lia. }
  assert (Hxle : forall x', In x' Xrem -> (x' <= x)%R).
  { intros x' Hx'. destruct (sortedR_app_le X Xsorted Xrem x Xdone) as [H1 _].
    - rewrite EX, <- app_assoc. reflexivity.
    - apply H1. exact Hx'. }
  split; [lia|]. split; [lia|]. split; [lia|]. split; [lia|]. split; [lia|].
  split. { exists ([x] ++ Xdone). rewrite EX, <- app_assoc. reflexivity. }
  split. { rewrite EW'i. apply kv_sorted; try assumption; try lia. intros _. exact HxS'. }
  split.
  { rewrite HLW'. replace (S (length W) - p - 1) with (S e) by (unfold e; lia).
    rewrite EW'i. unfold kn. rewrite kv_nth by lia.
    destruct (Nat.leb_spec (S e) i); [lia|]. destruct (Nat.leb_spec (S e) (i + 1)); [lia|].
    replace (S e - 1) with e by lia. exact HWe0. }
  split.
  { intros x' Hx'. rewrite EW'i. unfold kn. rewrite kv_nth by lia.
    destruct (Nat.leb_spec (S i) i); [lia|]. destruct (Nat.leb_spec (S i) (i + 1)); [|lia]. apply Hxle. exact Hx'. }
  split. { intros w Hw. rewrite nth_upd_other by lia. rewrite Hkv by exact Hw. apply Hkv0. exact Hw. }
  split.
  { intros w Hw. rewrite ins_nw_nth by lia.
    destruct (Nat.eqb_spec w (k - p - 1)); [lia|]. destruct (Nat.leb_spec (k - p) w); [lia|]. cbn [andb]. rewrite Hnw by exact Hw. apply Hnw0. exact Hw. }
  split.
  { rewrite EW'i. eapply Permutation_trans; [|exact HPerm0].
    rewrite <- app_assoc. apply Permutation_app_head.
    eapply Permutation_trans; [apply kv_perm|]. reflexivity. }
  split.
  { intros ->. destruct Hexit as [E|Hlt]; [exact E|].
    assert (Ex0 : nth 0 X 0%R = x) by (rewrite EX; reflexivity).
    destruct (le_lt_dec i a) as [|Hgt]; [lia|]. exfalso.
    assert (knR U (S a) <= knR U i)%R by (apply Usorted; lia). lra. }
  assert (Hdim' : forall w, w < length Rv' -> length (nth w Rv' []) = dim).
  { intros w Hw. rewrite HLR' in Hw. rewrite HRv'.
    destruct (Nat.leb_spec w (i - p)); [apply Hdim0; lia|].
    destruct (Nat.leb_spec w i); [|apply Hdim0; lia].
    apply ins_h_length; apply Hdim0; lia. }
  split; [exact Hdim'|].
  (* the curve *)
  intros c t Hc. rewrite <- (Hcurve0 c t Hc).
  unfold curve_pt. rewrite HLR'.
  assert (Ht : (Ufun W k' <= x < Ufun W (S k'))%R).
  { rewrite !Ufun_in by (unfold e in *; lia). split; assumption. }
  rewrite (insert1_preserves_curve (Ufun W) (Ufun_sorted W HWs0) k' x Ht p (length Rv) (coord c Rv) t ltac:(lia) ltac:(lia)).
  apply sumf_ext. intros w Hw. rewrite EW'.
  rewrite (N_ext (Ufun (knot_insertion_kv W x k' 1)) (Ub (Ufun W) k' x)) by (intros j; apply Ufun_kv1; unfold e in *; lia).
  f_equal. unfold coord, getp. rewrite HRv'. replace (pred w) with (w - 1) by lia.
  destruct (Nat.leb_spec w (i - p)).
  { rewrite alpha_one by lia. ring. }
  destruct (Nat.leb_spec w i) as [Hwi|Hwi].
  2:{ destruct (le_lt_dec w k') as [Hwk|Hwk].
      - rewrite alpha_frac by lia. rewrite (Ufun_in W w) by (unfold e in *; lia).
        unfold kn. cbn [o0 Rops]. rewrite Hrun by lia. unfold Rdiv. ring.
      - rewrite alpha_zero by lia. ring. }
  (* inside the window i-p < w <= i *)
  assert (Hkvw : knR kv (k + (w - (i - p))) = knR W (w + p)).
  { unfold W, kn. rewrite Wl_nth by lia. destruct (Nat.leb_spec (w + p) i); [lia|]. f_equal. lia. }
  assert (HUw : knR U (i - p + (w - (i - p))) = knR W w).
  { unfold W, kn. rewrite Wl_nth by lia. destruct (Nat.leb_spec w i); [|lia]. f_equal. lia. }
  assert (Hy : length (nth (w - 1) Rv []) = dim) by (apply Hdim0; lia).
  assert (Hz : length (nth w Rv []) = dim) by (apply Hdim0; lia).
  destruct (le_lt_dec (w + p) k') as [Hwk|Hwk].
  - rewrite alpha_one by lia.
    rewrite (ins_h_eq tol p U kv x i k (w - (i - p)) dim c _ _ Hy Hz Hc).
    + ring.
    + rewrite Hkvw. unfold kn. cbn [o0 Rops]. apply Hrun. lia.
  - assert (Hgt : (x < knR W (w + p))%R).
    { assert (knR W (S k') <= knR W (w + p))%R by (apply HWs0; unfold e in *; lia). lra. }
    assert (Hle : (knR W w <= x)%R).
    { assert (knR W w <= knR W i)%R by (apply HWs0; lia). lra. }
    rewrite (ins_h_gt tol p U kv x i k (w - (i - p)) dim c _ _ Hy Hz Hc).
    + rewrite Hkvw, HUw. rewrite alpha_frac by lia. rewrite !Ufun_in by (unfold e in *; lia). field. lra.
    + rewrite Hkvw. exact Hgt.
    + rewrite Hkvw. apply Htol; [exact HxX| |exact Hgt].
      apply (Permutation_in _ HPerm0). apply in_or_app. right. unfold kn. apply nth_In. unfold e in *. lia.
Qed.

Lemma Inv_fold : forall Xrem st, Inv Xrem st -> Inv [] (fold_left (rstep tol p U P a) (rev Xrem) st).
Proof.
  induction Xrem as [|x Xrem IH] using rev_ind; intros st H; [exact H|].
  rewrite rev_app_distr. cbn [rev app fold_left]. apply IH. apply Inv_step. exact H.
Qed.
End Main.
