(* C12: cache invariants of the object state machines of Model/Obj.v, for ARBITRARY view functions
   (sampled points, bounding box, tessellation are Section variables) and an arbitrary scalar type. *)
From Coq Require Import List Arith Bool Lia.
From NV Require Import Scalar.Ops Model.Common Model.Knots Model.Weights Model.Equal Model.Obj.
Import ListNotations.

Section P.
Context {T : Type} (K : ops T).
Variable f_ev : @defn T -> list (list T).
Variable f_bbox : list (list T) -> list T * list T.
Variable f_tess : nat -> @defn T -> list (list T) -> list (list T) * list (list nat).

Notation obj := (@obj T). Notation defn := (@defn T).
Notation read_bbox := (read_bbox K f_bbox).
Notation read_eval := (@read_eval T f_ev).
Notation tessellate := (@tessellate T f_ev f_tess).
Notation read_tess := (@read_tess T f_ev f_tess).
Notation gstep := (gstep K f_ev f_bbox f_tess).

(* the unweighted control points of a definition *)
Definition view_pts (d : defn) : list (list T) := if d_rat d then fst (separate_cw K (d_cp d)) else d_cp d.

(* every cache is empty or equals its view of the current definition *)
Record oinv (o : obj) : Prop := mkOinv {
  i_cpts : o_cpts o = [] \/ o_cpts o = fst (separate_cw K (d_cp (o_def o)));
  i_cwts : o_cwts o = [] \/ o_cwts o = snd (separate_cw K (d_cp (o_def o)));
  i_bbox : o_bbox o = None \/ o_bbox o = Some (f_bbox (view_pts (o_def o)));
  i_cp2d : o_cp2d o = cp2d_of (o_def o);
  i_eval : o_eval o = [] \/ o_eval o = f_ev (o_def o);
  i_tess : o_tess o = None \/
           (d_pdim (o_def o) = 2 /\ exists k, 1 <= k /\ o_tess o = Some (k, f_tess k (o_def o) (f_ev (o_def o)))) }.

Lemma oinv_fresh d ids : oinv (fresh d ids).
Proof. constructor; simpl; auto. Qed.

Lemma is_nil_true {A} (l : list A) : is_nil l = true -> l = [].
Proof. destruct l; simpl; congruence. Qed.

(* a definition change that leaves the control points (and kind, rationality, sizes) alone *)
Definition same_cp (d d' : defn) : Prop :=
  d_cp d' = d_cp d /\ d_rat d' = d_rat d /\ d_size d' = d_size d /\ d_pdim d' = d_pdim d.

Lemma oinv_redef o d' : oinv o -> same_cp (o_def o) d' -> oinv (with_def (reset_eval o) d').
Proof.
  intros [A B C D E F] (H1 & H2 & H3 & H4). constructor; simpl.
  - rewrite H1; exact A.
  - rewrite H1; exact B.
  - unfold view_pts. rewrite H1, H2. exact C.
  - unfold cp2d_of. rewrite H1, H3, H4. exact D.
  - left; reflexivity.
  - destruct (Nat.eqb (d_pdim (o_def o)) 2) eqn:E2; [left; reflexivity|].
    destruct F as [F|(F & _)]; [left; exact F|]. rewrite F in E2. discriminate.
Qed.

(* ---------------- readers ---------------- *)
Lemma read_cpts_spec o : oinv o ->
  oinv (fst (read_cpts K o)) /\ snd (read_cpts K o) = view_pts (o_def o) /\ o_def (fst (read_cpts K o)) = o_def o.
Proof.
  intros [A B C D E F]. unfold read_cpts, view_pts. destruct (d_rat (o_def o)) eqn:R.
  - destruct (is_nil (o_cpts o)) eqn:N; simpl.
    + split; [|split; reflexivity]. constructor; simpl; auto.
    + split; [constructor; auto|split; [|reflexivity]]. destruct A as [A|A]; [rewrite A in N; discriminate|exact A].
  - simpl. split; [constructor; auto|split; reflexivity].
Qed.
Lemma read_wts_spec o : oinv o ->
  oinv (fst (read_wts K o)) /\ snd (read_wts K o) = snd (separate_cw K (d_cp (o_def o))) /\ o_def (fst (read_wts K o)) = o_def o.
Proof.
  intros [A B C D E F]. unfold read_wts. destruct (is_nil (o_cwts o)) eqn:N; simpl.
  - split; [|split; reflexivity]. constructor; simpl; auto.
  - split; [constructor; auto|split; [|reflexivity]]. destruct B as [B|B]; [rewrite B in N; discriminate|exact B].
Qed.
Lemma read_bbox_spec o : oinv o ->
  oinv (fst (read_bbox o)) /\ snd (read_bbox o) = f_bbox (view_pts (o_def o)) /\ o_def (fst (read_bbox o)) = o_def o.
Proof.
  intro H. unfold Obj.read_bbox. destruct (o_bbox o) as [b|] eqn:EB.
  - simpl. split; [exact H|split; [|reflexivity]]. destruct H as [_ _ C _ _ _]. destruct C as [C|C]; congruence.
  - destruct (read_cpts_spec o H) as (H1 & H2 & H3). destruct (read_cpts K o) as [o1 p]. simpl in *. subst p.
    split; [|split; [reflexivity|exact H3]]. destruct H1 as [A B C D E F]. constructor; simpl; auto. rewrite H3. right; reflexivity.
Qed.
Lemma reset_eval_inv o : oinv o -> oinv (reset_eval o).
Proof.
  intro H. pose proof (oinv_redef o (o_def o) H) as X. unfold with_def in X. simpl in X.
  apply X. unfold same_cp. auto.
Qed.
Lemma read_eval_spec o : oinv o ->
  oinv (fst (read_eval o)) /\ snd (read_eval o) = f_ev (o_def o) /\ o_def (fst (read_eval o)) = o_def o.
Proof.
  intro H. unfold Obj.read_eval. destruct (is_nil (o_eval o)) eqn:N.
  - simpl. split; [|split; reflexivity]. pose proof (reset_eval_inv o H) as [A B C D E F]. simpl in *.
    constructor; simpl; auto.
  - simpl. split; [exact H|split; [|reflexivity]]. destruct H as [_ _ _ _ E _]. destruct E as [E|E]; [rewrite E in N; discriminate|exact E].
Qed.
Lemma do_tess_spec o k : oinv o -> d_pdim (o_def o) = 2 -> 1 <= k ->
  oinv (do_tess f_ev f_tess o k) /\ o_def (do_tess f_ev f_tess o k) = o_def o /\
  o_tess (do_tess f_ev f_tess o k) = Some (k, f_tess k (o_def o) (f_ev (o_def o))).
Proof.
  intros H P Hk. unfold do_tess. destruct (read_eval_spec o H) as (H1 & H2 & H3).
  destruct (read_eval o) as [o1 e]. simpl in *. subst e. split; [|split; [exact H3|rewrite H3; reflexivity]].
  destruct H1 as [A B C D E F]. constructor; simpl; auto. right. split; [congruence|]. exists k. split; [exact Hk|].
  rewrite H3. reflexivity.
Qed.
Lemma tessellate_spec o k : oinv o -> oinv (tessellate o k) /\ o_def (tessellate o k) = o_def o.
Proof.
  intro H. unfold Obj.tessellate. destruct (Nat.eqb (d_pdim (o_def o)) 2) eqn:P; [|auto].
  apply Nat.eqb_eq in P. destruct (Nat.eqb k 0) eqn:Ek.
  - destruct (is_tessellated o); [auto|]. destruct (do_tess_spec o 1 H P (le_n 1)) as (a & b & _); auto.
  - apply Nat.eqb_neq in Ek. destruct (do_tess_spec o k H P ltac:(lia)) as (a & b & _); auto.
Qed.
Lemma read_tess_spec o : oinv o -> oinv (fst (read_tess o)) /\ o_def (fst (read_tess o)) = o_def o.
Proof. intro H. unfold Obj.read_tess. simpl. apply tessellate_spec; exact H. Qed.

(* ---------------- setters ---------------- *)
Definition pres (f : obj -> obj * res (@out T)) : Prop := forall o, oinv o -> oinv (fst (f o)).

Lemma cp2d_zero (d : defn) : cp2d_of (set_cp d [] (zero_sizes d)) = [].
Proof. unfold cp2d_of, zero_sizes. simpl. destruct (d_pdim d) as [|[|[|n]]]; reflexivity. Qed.

Lemma set_ctrlpts_pres pts sz next : pres (fun o => set_ctrlpts o pts sz next).
Proof.
  intros o H. unfold set_ctrlpts. destruct (negb _); [exact H|]. destruct pts as [|p0 r]; [exact H|].
  destruct (Nat.ltb _ _); [exact H|]. destruct (forallb _ _); simpl.
  - constructor; simpl; auto.
  - constructor; simpl; auto. symmetry. apply cp2d_zero.
Qed.
Lemma set_pts_pres v next : pres (fun o => set_pts K o v next).
Proof.
  intros o H. unfold set_pts. destruct (d_rat (o_def o)).
  - destruct (read_wts_spec o H) as (H1 & _ & _). destruct (read_wts K o) as [o1 w]. simpl in *.
    apply set_ctrlpts_pres; exact H1.
  - apply set_ctrlpts_pres; exact H.
Qed.
Lemma set_wts_pres w next : pres (fun o => set_wts K o w next).
Proof.
  intros o H. unfold set_wts. destruct (d_rat (o_def o)); [|exact H].
  destruct (read_cpts_spec o H) as (H1 & _ & _). destruct (read_cpts K o) as [o1 p]. simpl in *.
  destruct (is_nil p); [exact H1|]. apply set_ctrlpts_pres; exact H1.
Qed.
Lemma set_knots_pres dir U next : pres (fun o => set_knots K o dir U next).
Proof.
  intros o H. unfold set_knots. destruct (orb _ _); [exact H|].
  destruct (check K _ U _) as [[|]| |]; try exact H. destruct (normalize K U) as [U'| |]; try exact H.
  simpl. apply oinv_redef; [exact H|]. unfold same_cp; simpl; auto.
Qed.
Lemma set_degree_pres dir p next : pres (fun o => set_degree o dir p next).
Proof.
  intros o H. unfold set_degree. destruct (andb _ _); [exact H|]. simpl.
  apply oinv_redef; [exact H|]. unfold same_cp; simpl; auto.
Qed.
Lemma set_delta1_pres dir x next : pres (fun o => set_delta1 K o dir x next).
Proof.
  intros o H. unfold set_delta1. destruct (delta_ok K x); [|exact H]. simpl.
  apply oinv_redef; [exact H|]. unfold same_cp; simpl; auto.
Qed.
Lemma set_delta_dirs_pres dirs x next : pres (fun o => set_delta_dirs K o dirs x next).
Proof.
  induction dirs as [|d r IH]; intros o H; simpl; [exact H|].
  pose proof (set_delta1_pres d x next o H) as H1. destruct (set_delta1 K o d x next) as [o1 [a| |]]; simpl in *; auto.
Qed.
Lemma set_sample_dirs_pres dirs n next : pres (fun o => set_sample_dirs K o dirs n next).
Proof.
  induction dirs as [|d r IH]; intros o H; simpl; [exact H|].
  match goal with |- context [set_delta1 K o d ?x next] => pose proof (set_delta1_pres d x next o H) as H1; destruct (set_delta1 K o d x next) as [o1 [a| |]] end;
    simpl in *; auto.
Qed.
Lemma set_knots_all_pres kvs : forall dir next, pres (fun o => set_knots_all K o dir kvs next).
Proof.
  induction kvs as [|U r IH]; intros dir next o H; simpl; [exact H|].
  pose proof (set_knots_pres dir U next o H) as H1. destruct (set_knots K o dir U next) as [o1 [a| |]]; simpl in *; auto.
  apply IH; exact H1.
Qed.
Lemma redefine_pres kvs cp sz next : pres (fun o => redefine K o kvs cp sz next).
Proof.
  intros o H. unfold redefine. pose proof (set_ctrlpts_pres cp sz next o H) as H1.
  destruct (set_ctrlpts o cp sz next) as [o1 [a| |]]; simpl in *; auto. apply set_knots_all_pres; exact H1.
Qed.
Lemma reverse_pres next : pres (fun o => reverse K o next).
Proof.
  intros o H. unfold reverse.
  match goal with |- context [set_ctrlpts o ?p ?s next] => pose proof (set_ctrlpts_pres p s next o H) as H1; destruct (set_ctrlpts o p s next) as [o1 [a| |]] end;
    simpl in *; auto.
  apply oinv_redef; [exact H1|]. unfold same_cp; simpl; auto.
Qed.
Lemma transpose_pres next : pres (fun o => transpose K o next).
Proof.
  intros o H. unfold transpose. cbv zeta.
  match goal with |- context [set_degree o 0 ?p next] => pose proof (set_degree_pres 0 p next o H) as H1; destruct (set_degree o 0 p next) as [o1 [a| |]] end;
    simpl in *; auto.
  match goal with |- context [set_degree o1 1 ?p next] => pose proof (set_degree_pres 1 p next o1 H1) as H2; destruct (set_degree o1 1 p next) as [o2 [b| |]] end;
    simpl in *; auto.
  apply redefine_pres; exact H2.
Qed.
Lemma map_pts_pres f next : pres (fun o => map_pts K o f next).
Proof.
  intros o H. unfold map_pts. destruct (read_cpts_spec o H) as (H1 & _ & _). destruct (read_cpts K o) as [o1 p]. simpl in *.
  apply set_pts_pres; exact H1.
Qed.
Lemma translate_pres vec next : pres (fun o => translate K o vec next).
Proof. intros o H. unfold translate. destruct (orb _ _); [exact H|]. apply map_pts_pres; exact H. Qed.
Lemma rotate_pres axis origin c s next : pres (fun o => rotate K o axis origin c s next).
Proof.
  intros o H. unfold rotate. cbv zeta.
  match goal with |- context [translate K o ?v next] => pose proof (translate_pres v next o H) as H1; destruct (translate K o v next) as [o1 [a| |]] end;
    simpl in *; auto.
  match goal with |- context [map_pts K o1 ?f next] => pose proof (map_pts_pres f next o1 H1) as H2; destruct (map_pts K o1 f next) as [o2 [b| |]] end;
    simpl in *; auto.
  apply translate_pres; exact H2.
Qed.

(* [Inv_step] every operation on a geometry preserves the invariant *)
Theorem oinv_gstep g next : pres (fun o => gstep o g next).
Proof.
  intros o H. destruct g; simpl.
  - apply set_degree_pres; exact H.
  - apply set_knots_pres; exact H.
  - apply set_ctrlpts_pres; exact H.
  - apply set_pts_pres; exact H.
  - apply set_wts_pres; exact H.
  - apply set_delta_dirs_pres; exact H.
  - destruct (sample_ready _ _); [apply set_sample_dirs_pres; exact H|exact H].
  - apply redefine_pres; exact H.
  - apply reverse_pres; exact H.
  - apply transpose_pres; exact H.
  - unfold flip. apply set_ctrlpts_pres; exact H.
  - apply translate_pres; exact H.
  - unfold scale. apply map_pts_pres; exact H.
  - apply rotate_pres; exact H.
  - destruct (Nat.eqb _ 2); simpl; [apply tessellate_spec; exact H|exact H].
  - exact H.
  - destruct (read_cpts_spec o H) as (H1 & _ & _). destruct (read_cpts K o); exact H1.
  - destruct (d_rat (o_def o)); [|exact H]. destruct (read_wts_spec o H) as (H1 & _ & _). destruct (read_wts K o); exact H1.
  - exact H.
  - destruct (read_eval_spec o H) as (H1 & _ & _). destruct (read_eval o); exact H1.
  - destruct (read_bbox_spec o H) as (H1 & _ & _). destruct (read_bbox o); exact H1.
  - destruct (Nat.eqb _ 2); simpl; [|exact H]. apply tessellate_spec; exact H.
Qed.

(* ---------------- any getter returns what a freshly built object with the same definition returns ---------------- *)
Definition rt_val (d : defn) (k : nat) : list (list T) * list (list nat) :=
  let X := f_tess k d (f_ev d) in if tess_nonempty X then X else f_tess 1 d (f_ev d).

Lemma read_tess_after o k : oinv o -> 1 <= k ->
  snd (read_tess (tessellate o k)) = if Nat.eqb (d_pdim (o_def o)) 2 then rt_val (o_def o) k else ([], []).
Proof.
  intros H Hk. unfold Obj.tessellate. destruct (Nat.eqb (d_pdim (o_def o)) 2) eqn:P.
  - apply Nat.eqb_eq in P. replace (Nat.eqb k 0) with false by (symmetry; apply Nat.eqb_neq; lia).
    destruct (do_tess_spec o k H P Hk) as (I & D & X). set (o' := do_tess f_ev f_tess o k) in *.
    unfold Obj.read_tess, Obj.tessellate. rewrite D, (proj2 (Nat.eqb_eq _ _) P). simpl.
    unfold is_tessellated. rewrite X. unfold rt_val. cbv zeta.
    destruct (tess_nonempty (f_tess k (o_def o) (f_ev (o_def o)))) eqn:N.
    + rewrite X. reflexivity.
    + assert (P' : d_pdim (o_def o') = 2) by congruence.
      destruct (do_tess_spec o' 1 I P' (le_n 1)) as (_ & _ & X1). rewrite X1, D. reflexivity.
  - unfold Obj.read_tess, Obj.tessellate. rewrite P. simpl.
    destruct H as [_ _ _ _ _ F]. destruct F as [F|(F & _)]; [rewrite F; reflexivity|]. rewrite F in P. discriminate.
Qed.

Lemma read_tess_plain o : oinv o ->
  exists k, 1 <= k /\ snd (read_tess o) = if Nat.eqb (d_pdim (o_def o)) 2 then rt_val (o_def o) k else ([], []).
Proof.
  intro H. unfold Obj.read_tess, Obj.tessellate. destruct (Nat.eqb (d_pdim (o_def o)) 2) eqn:P; simpl.
  - apply Nat.eqb_eq in P. pose proof H as [_ _ _ _ _ F]. destruct F as [F|(_ & k & Hk & F)].
    + exists 1. split; [lia|]. unfold is_tessellated. rewrite F.
      destruct (do_tess_spec o 1 H P (le_n 1)) as (_ & _ & X1). rewrite X1. unfold rt_val. cbv zeta.
      destruct (tess_nonempty _); reflexivity.
    + exists k. split; [exact Hk|]. unfold is_tessellated. rewrite F. unfold rt_val. cbv zeta.
      destruct (tess_nonempty (f_tess k (o_def o) (f_ev (o_def o)))) eqn:N.
      * rewrite F. reflexivity.
      * destruct (do_tess_spec o 1 H P (le_n 1)) as (_ & _ & X1). rewrite X1. reflexivity.
  - exists 1. split; [lia|]. destruct H as [_ _ _ _ _ F]. destruct F as [F|(F & _)]; [rewrite F; reflexivity|]. rewrite F in P. discriminate.
Qed.

Theorem read_equals_fresh o ids : oinv o -> let f := fresh (o_def o) ids in
  snd (read_cpts K o) = snd (read_cpts K f) /\ snd (read_wts K o) = snd (read_wts K f) /\ o_cp2d o = o_cp2d f /\
  snd (read_bbox o) = snd (read_bbox f) /\ snd (read_eval o) = snd (read_eval f) /\
  (forall k, 1 <= k -> snd (read_tess (tessellate o k)) = snd (read_tess (tessellate f k))) /\
  (exists k, 1 <= k /\ snd (read_tess o) = snd (read_tess (tessellate f k))).
Proof.
  intros H f. pose proof (oinv_fresh (o_def o) ids) as Hf. fold f in Hf.
  assert (D : o_def f = o_def o) by reflexivity.
  split; [|split; [|split; [|split; [|split; [|split]]]]].
  - rewrite (proj1 (proj2 (read_cpts_spec o H))), (proj1 (proj2 (read_cpts_spec f Hf))), D. reflexivity.
  - rewrite (proj1 (proj2 (read_wts_spec o H))), (proj1 (proj2 (read_wts_spec f Hf))), D. reflexivity.
  - destruct H as [_ _ _ X _ _]. rewrite X. reflexivity.
  - rewrite (proj1 (proj2 (read_bbox_spec o H))), (proj1 (proj2 (read_bbox_spec f Hf))), D. reflexivity.
  - rewrite (proj1 (proj2 (read_eval_spec o H))), (proj1 (proj2 (read_eval_spec f Hf))), D. reflexivity.
  - intros k Hk. rewrite (read_tess_after o k H Hk), (read_tess_after f k Hf Hk), D. reflexivity.
  - destruct (read_tess_plain o H) as (k & Hk & X). exists k. split; [exact Hk|].
    rewrite X, (read_tess_after f k Hf Hk), D. reflexivity.
Qed.
End P.

(* ------------------------------------------------------------------ the world: heap of geometries and containers *)
Section W.
Context {T : Type} (K : ops T).
Variable f_ev : @defn T -> list (list T).
Variable f_bbox : list (list T) -> list T * list T.
Variable f_tess : nat -> @defn T -> list (list T) -> list (list T) * list (list nat).
Notation obj := (@obj T). Notation world := (@world T).
Notation oinv := (oinv K f_ev f_bbox f_tess).
Notation wstep := (wstep K f_ev f_bbox f_tess).
Notation cstep := (cstep K f_ev f_bbox f_tess).
Notation gstep := (gstep K f_ev f_bbox f_tess).
Notation wrun := (wrun K f_ev f_bbox f_tess).

Lemma upd_length {A} (l : list A) : forall i x, length (upd l i x) = length l.
Proof. induction l; intros [|i] x; simpl; auto. Qed.
Lemma nth_upd {A} (l : list A) : forall i x k d,
  nth k (upd l i x) d = if andb (Nat.eqb k i) (Nat.ltb i (length l)) then x else nth k l d.
Proof.
  induction l as [|a l IH]; intros [|i] x [|k] d; simpl; auto.
  - destruct (Nat.eqb k i); reflexivity.
  - rewrite IH. reflexivity.
Qed.
Lemma Forall_upd {A} (P : A -> Prop) (l : list A) : forall i x, Forall P l -> P x -> Forall P (upd l i x).
Proof. induction l; intros [|i] x H Hx; simpl; auto; inversion H; subst; constructor; auto. Qed.

(* [Inv] every geometry of the world satisfies the cache invariant *)
Definition ginv (w : world) : Prop := Forall oinv (w_geoms w).

Lemma dummy_inv : oinv dummy_obj.
Proof. constructor; simpl; auto. Qed.
Lemma ginv_geom w i : ginv w -> oinv (geom w i).
Proof.
  intro H. unfold geom. destruct (Nat.lt_ge_cases i (length (w_geoms w))) as [L|L].
  - apply Forall_nth; assumption.
  - rewrite nth_overflow by exact L. apply dummy_inv.
Qed.
Lemma ginv_put w i o : ginv w -> oinv o -> ginv (put_geom w i o).
Proof. intros H Ho. unfold ginv, put_geom. simpl. apply Forall_upd; assumption. Qed.
Lemma ginv_put_cont w j c : ginv w -> ginv (put_cont w j c).
Proof. intro H. exact H. Qed.

Lemma fold_put_pres (F : obj -> nat -> obj) : (forall o n, oinv o -> oinv (F o n)) ->
  forall el w, ginv w -> ginv (fold_left (fun wa i => put_geom wa i (F (geom wa i) (w_next wa))) el w).
Proof.
  intros HF. induction el as [|i r IH]; intros w H; simpl; auto.
  apply IH. apply ginv_put; [exact H|]. apply HF. apply ginv_geom; exact H.
Qed.

Lemma set_delta_list_pres xs : forall o dir next, oinv o -> oinv (set_delta_list K o dir xs next).
Proof.
  induction xs as [|x r IH]; intros o dir next H; simpl; auto.
  apply IH. apply (set_delta1_pres K f_ev f_bbox f_tess dir x next o H).
Qed.
Lemma c_touch_pres c o n : oinv o -> oinv (c_touch K f_ev c o n).
Proof.
  intro H. unfold c_touch. apply (read_eval_spec K f_ev f_bbox f_tess). apply set_delta_list_pres; exact H.
Qed.
Lemma c_touch_tess_pres c o n : oinv o -> oinv (c_touch_tess K f_ev f_tess c o n).
Proof.
  intro H. unfold c_touch_tess. apply (tessellate_spec K f_ev f_bbox f_tess).
  apply (read_eval_spec K f_ev f_bbox f_tess). apply (reset_eval_inv K f_ev f_bbox f_tess). apply set_delta_list_pres; exact H.
Qed.
Lemma deepcopy_inv next o : oinv o -> oinv (deepcopy next o).
Proof. intros [A B C D E F]. constructor; simpl; auto. Qed.

Lemma c_read_bbox_ginv w j : ginv w -> ginv (fst (c_read_bbox K f_bbox w j)).
Proof.
  intro H. unfold c_read_bbox.
  set (F := fun (st : world * list (list T)) (i : nat) => let '(wa, acc) := st in
        let '(o1, b) := read_bbox K f_bbox (geom wa i) in (put_geom wa i o1, acc ++ [fst b; snd b])).
  assert (G : forall el st, ginv (fst st) -> ginv (fst (fold_left F el st))).
  { induction el as [|i r IH]; intros [wa acc] Hs; simpl; auto. apply IH. unfold F; simpl.
    destruct (read_bbox_spec K f_ev f_bbox f_tess (geom wa i) (ginv_geom wa i Hs)) as (H1 & _ & _).
    destruct (read_bbox K f_bbox (geom wa i)) as [o1 b]. simpl in *. apply ginv_put; assumption. }
  specialize (G (c_elems (contr w j)) (w, []) H).
  destruct (fold_left F (c_elems (contr w j)) (w, [])) as [w1 boxes]. simpl in *. exact G.
Qed.

Lemma copy_elems_inv gs : Forall oinv gs -> forall el next, Forall oinv (copy_elems gs next el).
Proof.
  intros H. induction el as [|i r IH]; intro next; simpl; constructor; auto.
  apply deepcopy_inv. destruct (Nat.lt_ge_cases i (length gs)) as [L|L].
  - apply Forall_nth; assumption.
  - rewrite nth_overflow by exact L. apply dummy_inv.
Qed.

Lemma cstep_ginv w j co : ginv w -> ginv (fst (cstep w j co)).
Proof.
  intro H. destruct co; simpl.
  - destruct (negb _); [exact H|]. destruct (Nat.eqb _ (c_pdim _)); [|exact H].
    destruct (Nat.eqb (c_dim _) 0); [exact H|]. destruct (Nat.eqb (c_dim _) _); exact H.
  - destruct (delta_ok K x); exact H.
  - destruct (delta_ok K x); exact H.
  - destruct (Nat.ltb n 2); exact H.
  - destruct (Nat.ltb n 2); exact H.
  - destruct (orb _ _); [exact H|]. simpl. apply ginv_put_cont.
    apply (fold_put_pres (fun o n => fst (map_pts K o (fun pt => vadd K pt vec) n))); [|exact H].
    intros o n Ho. apply (map_pts_pres K f_ev f_bbox f_tess); exact Ho.
  - simpl. apply ginv_put_cont.
    apply (fold_put_pres (fun o n => fst (scale K o m n))); [|exact H].
    intros o n Ho. unfold scale. apply (map_pts_pres K f_ev f_bbox f_tess); exact Ho.
  - unfold c_read_eval. destruct (is_nil _); [|exact H]. unfold c_fill_eval. simpl. apply ginv_put_cont.
    apply (fold_put_pres (c_touch K f_ev (contr w j))); [|exact H]. intros; apply c_touch_pres; assumption.
  - pose proof (c_read_bbox_ginv w j H) as X. destruct (c_read_bbox K f_bbox w j). exact X.
  - destruct (Nat.eqb _ 2); [|exact H]. unfold c_read_tess.
    assert (X : ginv (fst (c_fill_tess K f_ev f_tess w j))).
    { unfold c_fill_tess. simpl. apply ginv_put_cont.
      apply (fold_put_pres (c_touch_tess K f_ev f_tess (contr w j))); [|exact H]. intros; apply c_touch_tess_pres; assumption. }
    destruct (c_tess (contr w j)) as [t|]; [destruct (tess_nonempty t); [exact H|]|];
      destruct (c_fill_tess K f_ev f_tess w j); exact X.
Qed.

(* [Inv_step] for the whole world, all operations (geometry, container, deep copies): geometry caches are never stale *)
Theorem ginv_wstep w o : ginv w -> ginv (fst (wstep w o)).
Proof.
  intro H. destruct o; simpl.
  - unfold ginv; simpl. apply Forall_app. split; [exact H|]. constructor; [apply oinv_fresh|constructor].
  - pose proof (oinv_gstep K f_ev f_bbox f_tess g (w_next w) (geom w i) (ginv_geom w i H)) as X.
    destruct (gstep (geom w i) g (w_next w)) as [o1 r]. simpl in *. apply ginv_put; assumption.
  - unfold ginv; simpl. apply Forall_app. split; [exact H|]. constructor; [|constructor].
    apply deepcopy_inv. apply ginv_geom; exact H.
  - exact H.
  - apply cstep_ginv; exact H.
  - unfold ginv; simpl. apply Forall_app. split; [exact H|]. apply copy_elems_inv; exact H.
Qed.

Lemma ginv_init : ginv (mkWorld [] [] 0).
Proof. constructor. Qed.

(* [Inv_reachable] fold over ANY list of operations *)
Theorem ginv_wrun ops : forall w, ginv w -> ginv (wrun w ops).
Proof. induction ops as [|o r IH]; intros w H; simpl; auto. apply IH. apply ginv_wstep; exact H. Qed.

(* ---------------- frame properties: operations only touch their own objects ---------------- *)
Lemma fold_put_conts (F : obj -> nat -> obj) : forall el w,
  let w1 := fold_left (fun wa i => put_geom wa i (F (geom wa i) (w_next wa))) el w in
  w_conts w1 = w_conts w /\ length (w_geoms w1) = length (w_geoms w) /\ w_next w <= w_next w1.
Proof.
  induction el as [|i r IH]; intro w; simpl; [auto|].
  destruct (IH (put_geom w i (F (geom w i) (w_next w)))) as (a & b & c). simpl in *.
  rewrite upd_length in b. repeat split; auto; lia.
Qed.
Lemma geom_put (w : world) i o k : geom (put_geom w i o) k = if andb (Nat.eqb k i) (Nat.ltb i (length (w_geoms w))) then o else geom w k.
Proof. unfold geom, put_geom. simpl. apply nth_upd. Qed.
Lemma fold_put_other (F : obj -> nat -> obj) : forall el w k, ~ In k el ->
  geom (fold_left (fun wa i => put_geom wa i (F (geom wa i) (w_next wa))) el w) k = geom w k.
Proof.
  induction el as [|i r IH]; intros w k Hk; simpl; auto.
  rewrite IH by (intro X; apply Hk; right; exact X). rewrite geom_put.
  destruct (Nat.eqb k i) eqn:E; [apply Nat.eqb_eq in E; subst; exfalso; apply Hk; left; reflexivity|reflexivity].
Qed.
(* a predicate closed under the element operation holds afterwards wherever it held before *)
Lemma fold_put_pred (F : obj -> nat -> obj) (P : obj -> Prop) : (forall o n, P o -> P (F o n)) ->
  forall el w k, P (geom w k) -> P (geom (fold_left (fun wa i => put_geom wa i (F (geom wa i) (w_next wa))) el w) k).
Proof.
  intro HF. induction el as [|i r IH]; intros w k Hk; simpl; auto.
  apply IH. rewrite geom_put. destruct (andb _ _) eqn:E; [|exact Hk].
  apply andb_prop in E. destruct E as [E _]. apply Nat.eqb_eq in E. subst. apply HF. exact Hk.
Qed.
(* ... and every listed element (in range) has been operated on at least once *)
Lemma fold_put_touched (F : obj -> nat -> obj) (P Q : obj -> Prop) :
  (forall o n, P o -> Q (F o n)) -> (forall o n, Q o -> Q (F o n)) ->
  forall el w k, In k el -> k < length (w_geoms w) -> P (geom w k) \/ Q (geom w k) ->
  Q (geom (fold_left (fun wa i => put_geom wa i (F (geom wa i) (w_next wa))) el w) k).
Proof.
  intros HP HQ. induction el as [|i r IH]; intros w k Hin Hr Hk; simpl; [destruct Hin|].
  destruct (Nat.eq_dec i k) as [->|Ne].
  - apply (fold_put_pred F Q HQ). rewrite geom_put, Nat.eqb_refl. simpl.
    replace (Nat.ltb k (length (w_geoms w))) with true by (symmetry; apply Nat.ltb_lt; exact Hr).
    destruct Hk as [Hk|Hk]; [apply HP|apply HQ]; exact Hk.
  - destruct Hin as [->|Hin]; [contradiction|]. apply IH; auto.
    + simpl. rewrite upd_length. exact Hr.
    + rewrite geom_put. replace (Nat.eqb k i) with false by (symmetry; apply Nat.eqb_neq; auto). exact Hk.
Qed.

Lemma bbox_fold_fst : forall el (w : world) acc,
  fst (fold_left (fun (st : world * list (list T)) (i : nat) => let '(wa, acc) := st in
        let '(o1, b) := read_bbox K f_bbox (geom wa i) in (put_geom wa i o1, acc ++ [fst b; snd b])) el (w, acc)) =
  fold_left (fun wa i => put_geom wa i ((fun o (_ : nat) => fst (read_bbox K f_bbox o)) (geom wa i) (w_next wa))) el w.
Proof.
  induction el as [|i r IH]; intros w acc; simpl; [reflexivity|].
  destruct (read_bbox K f_bbox (geom w i)) as [o1 b] eqn:E. rewrite IH. reflexivity.
Qed.
Lemma c_read_bbox_frame (w : world) j :
  let w1 := fst (c_read_bbox K f_bbox w j) in
  w_conts w1 = w_conts w /\ length (w_geoms w1) = length (w_geoms w) /\ (ginv w -> forall k, o_def (geom w1 k) = o_def (geom w k)).
Proof.
  unfold c_read_bbox.
  match goal with |- context [fold_left ?F ?el (w, [])] => pose proof (bbox_fold_fst el w []) as E; destruct (fold_left F el (w, [])) as [w1 boxes] end.
  simpl in *. subst w1.
  destruct (fold_put_conts (fun o (_ : nat) => fst (read_bbox K f_bbox o)) (c_elems (contr w j)) w) as (a & b & _).
  split; [exact a|split; [exact b|]]. intros Hw k.
  apply (fold_put_pred (fun o (_ : nat) => fst (read_bbox K f_bbox o)) (fun o' => oinv o' /\ o_def o' = o_def (geom w k))).
  - intros o n [Ho Hd]. destruct (read_bbox_spec K f_ev f_bbox f_tess o Ho) as (H1 & _ & H3). split; [exact H1|congruence].
  - split; [apply ginv_geom; exact Hw|reflexivity].
Qed.

(* ---------------- independence: an operation changes only the objects it is applied to ---------------- *)
Definition touches (o : @wop T) (k : nat) : bool :=
  match o with G i _ => Nat.eqb i k | C _ _ => true | _ => false end.

Lemma geom_app_old (w : world) extra cs n k : k < length (w_geoms w) ->
  geom (mkWorld (w_geoms w ++ extra) cs n) k = geom w k.
Proof. intro H. unfold geom. simpl. apply app_nth1. exact H. Qed.

Lemma wstep_frame (w : world) o k : k < length (w_geoms w) -> touches o k = false ->
  geom (fst (wstep w o)) k = geom w k /\ length (w_geoms w) <= length (w_geoms (fst (wstep w o))).
Proof.
  intros Hk Ht. destruct o; simpl in *; try discriminate.
  - split; [apply geom_app_old; exact Hk|rewrite app_length; lia].
  - destruct (gstep (geom w i) g (w_next w)) as [o1 r]. simpl. rewrite geom_put.
    replace (Nat.eqb k i) with false by (rewrite Nat.eqb_sym; auto). simpl. rewrite upd_length. auto.
  - split; [apply geom_app_old; exact Hk|rewrite app_length; lia].
  - auto.
  - split; [apply geom_app_old; exact Hk|rewrite app_length; lia].
Qed.

Theorem wrun_frame ops : forall (w : world) k, k < length (w_geoms w) -> (forall o, In o ops -> touches o k = false) ->
  geom (wrun w ops) k = geom w k.
Proof.
  induction ops as [|o r IH]; intros w k Hk Ht; simpl; auto.
  destruct (wstep_frame w o k Hk (Ht o (or_introl eq_refl))) as (a & b).
  rewrite IH; [exact a|lia|intros o' Ho'; apply Ht; right; exact Ho'].
Qed.

Lemma fresh_ids_ge next n x : In x (fresh_ids next n) -> next <= x.
Proof. revert next; induction n; intros next H; simpl in *; [destruct H|]. destruct H as [<-|H]; [lia|]. apply IHn in H. lia. Qed.

(* deep copies are independent: the copy starts with the same definition and fresh provenance ids; whatever is done
   to the copy (or to any other object) never changes the original, and vice versa *)
Theorem deepcopy_independent (w : world) i : i < length (w_geoms w) ->
  let w1 := fst (wstep w (Copy i)) in let n := length (w_geoms w) in
  o_def (geom w1 n) = o_def (geom w i) /\ geom w1 i = geom w i /\
  (forall x, In x (o_ids (geom w1 n)) -> w_next w <= x) /\
  (forall ops, (forall o, In o ops -> touches o i = false) -> geom (wrun w1 ops) i = geom w i) /\
  (forall ops, (forall o, In o ops -> touches o n = false) -> geom (wrun w1 ops) n = geom w1 n).
Proof.
  intros Hi w1 n.
  assert (E : geom w1 n = deepcopy (w_next w) (geom w i)).
  { unfold w1, geom. simpl. rewrite app_nth2 by lia. replace (n - length (w_geoms w)) with 0 by (unfold n; lia). reflexivity. }
  assert (L : length (w_geoms w1) = S n) by (unfold w1; simpl; rewrite app_length; simpl; unfold n; lia).
  assert (O : geom w1 i = geom w i) by (unfold w1; simpl; apply geom_app_old; exact Hi).
  split; [rewrite E; reflexivity|]. split; [exact O|]. split; [|split].
  - intros x Hx. rewrite E in Hx. unfold deepcopy in Hx. cbn [o_ids] in Hx. apply fresh_ids_ge in Hx. exact Hx.
  - intros ops H. rewrite wrun_frame; [exact O|lia|exact H].
  - intros ops H. apply wrun_frame; [lia|exact H].
Qed.

(* ---------------- container caches ---------------- *)
(* the definition an element has after "elem.delta = container delta" *)
Fixpoint gl (l : list T) (dir : nat) (xs : list T) : list T :=
  match xs with [] => l | x :: r => gl (if delta_ok K x then upd l dir x else l) (S dir) r end.
Fixpoint dld (d : @defn T) (dir : nat) (xs : list T) : @defn T :=
  match xs with [] => d | x :: r => dld (if delta_ok K x then set_delta d (upd (d_delta d) dir x) else d) (S dir) r end.

Lemma set_delta_eta (d : @defn T) : set_delta d (d_delta d) = d.
Proof. destruct d; reflexivity. Qed.
Lemma dld_gl xs : forall d dir, dld d dir xs = set_delta d (gl (d_delta d) dir xs).
Proof.
  induction xs as [|x r IH]; intros d dir; simpl; [symmetry; apply set_delta_eta|].
  rewrite IH. destruct (delta_ok K x); reflexivity.
Qed.
Lemma upd_comm {A} (l : list A) : forall i j x y, i <> j -> upd (upd l i x) j y = upd (upd l j y) i x.
Proof.
  induction l as [|a l IH]; intros [|i] [|j] x y H; simpl; auto; try congruence. f_equal. apply IH. congruence.
Qed.
Lemma upd_upd {A} (l : list A) : forall i x y, upd (upd l i x) i y = upd l i y.
Proof. induction l as [|a l IH]; intros [|i] x y; simpl; auto. f_equal; apply IH. Qed.
Lemma gl_upd_comm xs : forall l d i x, i < d -> upd (gl l d xs) i x = gl (upd l i x) d xs.
Proof.
  induction xs as [|y r IH]; intros l d i x H; simpl; auto.
  rewrite IH by lia. destruct (delta_ok K y); [|reflexivity]. rewrite upd_comm by lia. reflexivity.
Qed.
Lemma gl_idem xs : forall l d, gl (gl l d xs) d xs = gl l d xs.
Proof.
  induction xs as [|x r IH]; intros l d; simpl; auto.
  destruct (delta_ok K x).
  - rewrite gl_upd_comm by lia. rewrite upd_upd. apply IH.
  - apply IH.
Qed.
Lemma dld_idem xs d : dld (dld d 0 xs) 0 xs = dld d 0 xs.
Proof. rewrite !dld_gl. simpl. rewrite gl_idem. reflexivity. Qed.

Lemma set_delta_list_def xs : forall (o : obj) dir n, o_def (set_delta_list K o dir xs n) = dld (o_def o) dir xs.
Proof.
  induction xs as [|x r IH]; intros o dir n; simpl; auto. rewrite IH. unfold set_delta1.
  destruct (delta_ok K x); reflexivity.
Qed.
Lemma read_eval_filled (o : obj) : oinv o -> o_eval (fst (Obj.read_eval f_ev o)) = f_ev (o_def o).
Proof.
  intro H. unfold Obj.read_eval. destruct (is_nil (o_eval o)) eqn:N; simpl; [reflexivity|].
  destruct H as [_ _ _ _ E _]. destruct E as [E|E]; [rewrite E in N; discriminate|exact E].
Qed.
Lemma c_touch_def c (o : obj) n : oinv o ->
  o_def (c_touch K f_ev c o n) = dld (o_def o) 0 (c_delta c) /\ o_eval (c_touch K f_ev c o n) = f_ev (dld (o_def o) 0 (c_delta c)).
Proof.
  intro H. unfold c_touch. pose proof (set_delta_list_pres (c_delta c) o 0 n H) as H1.
  destruct (read_eval_spec K f_ev f_bbox f_tess _ H1) as (_ & _ & D). rewrite D, (read_eval_filled _ H1), set_delta_list_def. auto.
Qed.
Lemma c_touch_tess_def c (o : obj) n : oinv o -> o_def (c_touch_tess K f_ev f_tess c o n) = dld (o_def o) 0 (c_delta c).
Proof.
  intro H. unfold c_touch_tess. pose proof (set_delta_list_pres (c_delta c) o 0 n H) as H1.
  pose proof (reset_eval_inv K f_ev f_bbox f_tess _ H1) as H2.
  destruct (read_eval_spec K f_ev f_bbox f_tess _ H2) as (H3 & _ & D).
  rewrite (proj2 (tessellate_spec K f_ev f_bbox f_tess _ 0 H3)), D. simpl. apply set_delta_list_def.
Qed.

Definition cderive (w : world) (c : @cont T) : list (list T) :=
  flat_map (fun i => f_ev (dld (o_def (geom w i)) 0 (c_delta c))) (c_elems c).
Definition cinv (w : world) (c : @cont T) : Prop := c_eval c = [] \/ c_eval c = cderive w c.
Definition crange (w : world) : Prop := forall j i, In i (c_elems (contr w j)) -> i < length (w_geoms w).
Definition Cinv (w : world) : Prop := crange w /\ forall j, cinv w (contr w j).

(* which geometries an operation may modify, and the side condition that excludes the known finding: no OTHER
   container with a filled cache holds one of them *)
Definition wfoot (w : world) (o : @wop T) : list nat :=
  match o with
  | G i g => if is_reader g then [] else [i]
  | C j (CTranslate _) | C j (CScale _) | C j CReadEval | C j CReadTess => c_elems (contr w j)
  | _ => []
  end.
Definition safe (w : world) (o : @wop T) : Prop :=
  forall j', (match o with C j _ => j' <> j | _ => True end) -> c_eval (contr w j') <> [] ->
  forall i, In i (wfoot w o) -> ~ In i (c_elems (contr w j')).

Lemma cderive_ext (w w' : world) c : (forall i, In i (c_elems c) -> o_def (geom w' i) = o_def (geom w i)) -> cderive w' c = cderive w c.
Proof.
  intro H. unfold cderive. induction (c_elems c) as [|i r IH]; simpl; auto.
  rewrite H by (left; reflexivity). f_equal. apply IH. intros k Hk. apply H. right; exact Hk.
Qed.
Lemma contr_put (w : world) j c j' : contr (put_cont w j c) j' = if andb (Nat.eqb j' j) (Nat.ltb j (length (w_conts w))) then c else contr w j'.
Proof. unfold contr, put_cont. simpl. apply nth_upd. Qed.
Lemma dummy_cont_elems : c_elems (@dummy_cont T) = [].
Proof. reflexivity. Qed.

Lemma reader_def g (o : obj) n : oinv o -> is_reader g = true -> o_def (fst (gstep o g n)) = o_def o.
Proof.
  intros H R. destruct g; simpl in R; try discriminate; simpl.
  - destruct (Nat.eqb _ 2); [|reflexivity]. simpl. apply (tessellate_spec K f_ev f_bbox f_tess); exact H.
  - reflexivity.
  - destruct (read_cpts_spec K f_ev f_bbox f_tess o H) as (_ & _ & D). destruct (read_cpts K o); exact D.
  - destruct (d_rat (o_def o)); [|reflexivity]. destruct (read_wts_spec K f_ev f_bbox f_tess o H) as (_ & _ & D). destruct (read_wts K o); exact D.
  - reflexivity.
  - destruct (read_eval_spec K f_ev f_bbox f_tess o H) as (_ & _ & D). destruct (Obj.read_eval f_ev o); exact D.
  - destruct (read_bbox_spec K f_ev f_bbox f_tess o H) as (_ & _ & D). destruct (read_bbox K f_bbox o); exact D.
  - destruct (Nat.eqb _ 2); [|reflexivity]. simpl. apply (tessellate_spec K f_ev f_bbox f_tess); exact H.
Qed.

Lemma geom_put_cont (w0 : world) j0 c0 k : geom (put_cont w0 j0 c0) k = geom w0 k.
Proof. reflexivity. Qed.
(* generic step for operations that change geometries only through a fold over the elements of container j *)
Lemma Cinv_fold (F : obj -> nat -> obj) (w : world) j cnew o :
  Cinv w -> safe w o -> (forall j', (match o with C j0 _ => j' <> j0 | _ => True end) <-> j' <> j) -> wfoot w o = c_elems (contr w j) ->
  let w1 := fold_left (fun wa i => put_geom wa i (F (geom wa i) (w_next wa))) (c_elems (contr w j)) w in
  c_elems cnew = c_elems (contr w j) -> cinv (put_cont w1 j cnew) cnew ->
  Cinv (put_cont w1 j cnew).
Proof.
  intros [Hr Hc] Hs Ho Hf w1 He Hn.
  destruct (fold_put_conts F (c_elems (contr w j)) w) as (a & b & _). fold w1 in a, b.
  split.
  - intros j' i Hi. rewrite contr_put in Hi. simpl. rewrite b.
    destruct (andb _ _); [rewrite He in Hi; exact (Hr j i Hi)|]. unfold contr in Hi. rewrite a in Hi. exact (Hr j' i Hi).
  - intro j'. rewrite contr_put. destruct (andb (Nat.eqb j' j) _) eqn:E; [exact Hn|].
    assert (Ec : contr w1 j' = contr w j') by (unfold contr; rewrite a; reflexivity). rewrite Ec.
    destruct (c_eval (contr w j')) as [|e0 er] eqn:EV; [left; exact EV|].
    destruct (Hc j') as [X|X]; [rewrite EV in X; discriminate|]. right. rewrite X. symmetry.
    destruct (Nat.eq_dec j' j) as [->|Ne].
    + rewrite Nat.eqb_refl in E. simpl in E. apply Nat.ltb_ge in E. rewrite a in E. unfold contr in EV. rewrite nth_overflow in EV by exact E. discriminate.
    + apply cderive_ext. intros i Hi. unfold put_cont, geom. simpl. fold (geom w1 i). unfold w1. rewrite fold_put_other; [reflexivity|].
      intro Hin. refine (Hs j' (proj2 (Ho j') Ne) _ i _ Hi); [rewrite EV; discriminate|rewrite Hf; exact Hin].
Qed.

Lemma flat_map_ext_in {A B} (f g : A -> list B) (l : list A) : (forall x, In x l -> f x = g x) -> flat_map f l = flat_map g l.
Proof. induction l as [|a l IH]; intro H; simpl; auto. rewrite H by (left; reflexivity). f_equal. apply IH. intros; apply H; right; assumption. Qed.

Lemma Cinv_put_cont_reset (w : world) j c' : Cinv w -> c_eval c' = [] -> (forall i, In i (c_elems c') -> i < length (w_geoms w)) ->
  Cinv (put_cont w j c').
Proof.
  intros [Hr Hc] He Hi. split.
  - intros j' i H. rewrite contr_put in H. destruct (andb _ _); [apply Hi; exact H|exact (Hr j' i H)].
  - intro j'. rewrite contr_put. destruct (andb _ _); [left; exact He|].
    destruct (Hc j') as [X|X]; [left; exact X|right]. rewrite X. apply cderive_ext. reflexivity.
Qed.

Lemma cstep_Cinv (w : world) j co : ginv w -> Cinv w -> safe w (C j co) -> Cinv (fst (cstep w j co)).
Proof.
  intros Hg HC Hs. pose proof HC as [Hr Hc].
  assert (Ho : forall j', (match C j co with C j0 _ => j' <> j0 | _ => True end) <-> j' <> j) by (intro; simpl; tauto).
  destruct co; simpl.
  - (* CAdd *) destruct (negb (Nat.ltb i _)) eqn:Ei; [exact HC|]. apply negb_false_iff, Nat.ltb_lt in Ei.
    destruct (Nat.eqb _ (c_pdim _)).
    + destruct (Nat.eqb (c_dim _) 0); [|destruct (Nat.eqb (c_dim _) _); [|exact HC]]; simpl;
        (apply Cinv_put_cont_reset; [exact HC|reflexivity|]; simpl; intros k Hk; apply in_app_or in Hk; destruct Hk as [Hk|[<-|[]]]; [exact (Hr j k Hk)|exact Ei]).
    + simpl. apply Cinv_put_cont_reset; [exact HC|reflexivity|]. simpl. apply Hr.
  - destruct (delta_ok K x); [|exact HC]. simpl. apply Cinv_put_cont_reset; [exact HC|reflexivity|]. simpl. apply Hr.
  - destruct (delta_ok K x); [|exact HC]. simpl. apply Cinv_put_cont_reset; [exact HC|reflexivity|]. simpl. apply Hr.
  - destruct (Nat.ltb n 2); [exact HC|]. simpl. apply Cinv_put_cont_reset; [exact HC|reflexivity|]. simpl. apply Hr.
  - destruct (Nat.ltb n 2); [exact HC|]. simpl. apply Cinv_put_cont_reset; [exact HC|reflexivity|]. simpl. apply Hr.
  - (* CTranslate *) destruct (orb _ _); [exact HC|]. simpl.
    apply (Cinv_fold (fun o n => fst (map_pts K o (fun pt => vadd K pt vec) n)) w j _ (C j (CTranslate vec))); auto. left; reflexivity.
  - (* CScale *) simpl.
    apply (Cinv_fold (fun o n => fst (scale K o m n)) w j _ (C j (CScale m))); auto. left; reflexivity.
  - (* CReadEval *) unfold c_read_eval. destruct (is_nil (c_eval (contr w j))) eqn:N; [|exact HC].
    unfold c_fill_eval. cbv zeta. simpl.
    set (c := contr w j). set (w1 := fold_left _ (c_elems c) w).
    apply (Cinv_fold (c_touch K f_ev c) w j _ (C j CReadEval)); auto.
    fold w1. right. simpl. unfold cderive. simpl. apply flat_map_ext_in. intros i Hi.
    assert (Q : o_def (geom w1 i) = dld (o_def (geom w i)) 0 (c_delta c) /\ o_eval (geom w1 i) = f_ev (dld (o_def (geom w i)) 0 (c_delta c))).
    { unfold w1.
      apply (fold_put_touched (c_touch K f_ev c)
               (fun o' => oinv o' /\ o_def o' = o_def (geom w i))
               (fun o' => oinv o' /\ o_def o' = dld (o_def (geom w i)) 0 (c_delta c) /\ o_eval o' = f_ev (dld (o_def (geom w i)) 0 (c_delta c)))).
      - intros o n [Io Do]. destruct (c_touch_def c o n Io) as (d1 & d2). rewrite Do in d1, d2. split; [apply c_touch_pres; exact Io|auto].
      - intros o n (Io & Do & _). destruct (c_touch_def c o n Io) as (d1 & d2). rewrite Do, dld_idem in d1, d2. split; [apply c_touch_pres; exact Io|auto].
      - exact Hi.
      - exact (Hr j i Hi).
      - left. split; [apply ginv_geom; exact Hg|reflexivity]. }
    rewrite geom_put_cont. destruct Q as (Q1 & Q2). subst w1 c. rewrite Q2, Q1, dld_idem. reflexivity.
  - (* CReadBBox *) destruct (c_read_bbox_frame w j) as (a & b & d). specialize (d Hg).
    destruct (c_read_bbox K f_bbox w j) as [w1 bx]. simpl in *. split.
    + intros j' i Hi. unfold contr in Hi. rewrite a in Hi. rewrite b. exact (Hr j' i Hi).
    + intro j'. assert (Ec : contr w1 j' = contr w j') by (unfold contr; rewrite a; reflexivity). rewrite Ec.
      destruct (Hc j') as [X|X]; [left; exact X|right]. rewrite X. symmetry. apply cderive_ext. intros; apply d.
  - (* CReadTess *) destruct (Nat.eqb (c_pdim (contr w j)) 2); [|exact HC]. unfold c_read_tess.
    assert (X : Cinv (fst (c_fill_tess K f_ev f_tess w j))).
    { unfold c_fill_tess. cbv zeta. simpl. set (c := contr w j). set (w1 := fold_left _ (c_elems c) w).
      apply (Cinv_fold (c_touch_tess K f_ev f_tess c) w j _ (C j CReadTess)); auto.
      fold w1. simpl. destruct (Hc j) as [Y|Y]; [left; exact Y|]. right. fold c in Y. rewrite Y.
      unfold cderive. simpl. apply flat_map_ext_in. intros i Hi.
      assert (Q : o_def (geom w1 i) = dld (o_def (geom w i)) 0 (c_delta c)).
      { unfold w1.
        apply (fold_put_touched (c_touch_tess K f_ev f_tess c)
                 (fun o' => oinv o' /\ o_def o' = o_def (geom w i))
                 (fun o' => oinv o' /\ o_def o' = dld (o_def (geom w i)) 0 (c_delta c))).
        - intros o n [Io Do]. rewrite <- Do. split; [apply c_touch_tess_pres; exact Io|apply c_touch_tess_def; exact Io].
        - intros o n (Io & Do). split; [apply c_touch_tess_pres; exact Io|]. rewrite (c_touch_tess_def c o n Io), Do. apply dld_idem.
        - exact Hi.
        - exact (Hr j i Hi).
        - left. split; [apply ginv_geom; exact Hg|reflexivity]. }
      rewrite geom_put_cont. subst w1 c. rewrite Q, dld_idem. reflexivity. }
    destruct (c_tess (contr w j)) as [t|]; [destruct (tess_nonempty t); [exact HC|]|]; destruct (c_fill_tess K f_ev f_tess w j); exact X.
Qed.

Lemma copy_elems_length (gs : list obj) : forall el next, length (copy_elems gs next el) = length el.
Proof. induction el; intro next; simpl; auto. Qed.

(* appending geometries / containers does not disturb the existing containers *)
Lemma Cinv_grow (w : world) extra cextra n' :
  Cinv w -> (forall c, In c cextra -> c_eval c = [] /\ forall i, In i (c_elems c) -> i < length (w_geoms w) + length extra) ->
  Cinv (mkWorld (w_geoms w ++ extra) (w_conts w ++ cextra) n').
Proof.
  intros [Hr Hc] Hx.
  assert (CT : forall j, (j < length (w_conts w) /\ contr (mkWorld (w_geoms w ++ extra) (w_conts w ++ cextra) n') j = contr w j) \/
                         (length (w_conts w) <= j /\ (In (contr (mkWorld (w_geoms w ++ extra) (w_conts w ++ cextra) n') j) cextra \/
                                                       contr (mkWorld (w_geoms w ++ extra) (w_conts w ++ cextra) n') j = dummy_cont))).
  { intro j. unfold contr. simpl. destruct (Nat.lt_ge_cases j (length (w_conts w))) as [L|L].
    - left. split; [exact L|apply app_nth1; exact L].
    - right. split; [exact L|]. rewrite app_nth2 by exact L.
      destruct (Nat.lt_ge_cases (j - length (w_conts w)) (length cextra)) as [L2|L2].
      + left. apply nth_In. exact L2.
      + right. apply nth_overflow. exact L2. }
  split.
  - intros j i Hi. simpl. rewrite app_length. destruct (CT j) as [[L E]|[L [E|E]]].
    + rewrite E in Hi. pose proof (Hr j i Hi). lia.
    + exact (proj2 (Hx _ E) i Hi).
    + rewrite E in Hi. destruct Hi.
  - intro j. destruct (CT j) as [[L E]|[L [E|E]]].
    + rewrite E. destruct (Hc j) as [X|X]; [left; exact X|right]. rewrite X. symmetry. apply cderive_ext.
      intros i Hi. rewrite geom_app_old; [reflexivity|exact (Hr j i Hi)].
    + left. exact (proj1 (Hx _ E)).
    + left. rewrite E. reflexivity.
Qed.

(* [Inv_step] for the container caches: every operation that satisfies the side condition keeps every container's
   sampled-points cache empty or equal to the concatenation of its elements' sampled points at the container's density *)
Theorem Cinv_wstep (w : world) o : ginv w -> Cinv w -> safe w o -> Cinv (fst (wstep w o)).
Proof.
  intros Hg HC Hs. pose proof HC as [Hr Hc]. destruct o; simpl.
  - rewrite <- (app_nil_r (w_conts w)). apply Cinv_grow; [exact HC|intros c []].
  - pose proof (oinv_gstep K f_ev f_bbox f_tess g (w_next w) (geom w i) (ginv_geom w i Hg)) as Io.
    pose proof (reader_def g (geom w i) (w_next w) (ginv_geom w i Hg)) as Rd.
    destruct (gstep (geom w i) g (w_next w)) as [o1 r]. simpl in *. split.
    + intros j' k Hk. simpl. rewrite upd_length. exact (Hr j' k Hk).
    + intro j'. change (contr (put_geom w i o1) j') with (contr w j').
      destruct (c_eval (contr w j')) as [|e0 er] eqn:EV; [left; exact EV|].
      destruct (Hc j') as [X|X]; [rewrite EV in X; discriminate|]. right. rewrite X. symmetry. apply cderive_ext.
      intros k Hk. rewrite geom_put. destruct (andb (Nat.eqb k i) _) eqn:E; [|reflexivity].
      apply andb_prop in E. destruct E as [E _]. apply Nat.eqb_eq in E. subst k.
      destruct (is_reader g) eqn:R; [apply Rd; reflexivity|].
      exfalso. refine (Hs j' I _ i _ Hk); [rewrite EV; discriminate|]. simpl. rewrite R. left; reflexivity.
  - rewrite <- (app_nil_r (w_conts w)). apply Cinv_grow; [exact HC|intros c []].
  - rewrite <- (app_nil_r (w_geoms w)). apply Cinv_grow; [exact HC|]. intros c [<-|[]]. simpl. split; [reflexivity|intros i []].
  - apply cstep_Cinv; assumption.
  - apply Cinv_grow; [exact HC|]. intros c [<-|[]]. simpl. split; [reflexivity|].
    intros i Hi. apply in_seq in Hi. rewrite copy_elems_length. lia.
Qed.

Lemma Cinv_init : Cinv (mkWorld [] [] 0).
Proof. split; [intros j i H; unfold contr in H; simpl in H; destruct j; destruct H|intro j; left; unfold contr; simpl; destruct j; reflexivity]. Qed.

(* [Inv_reachable] over any list of operations each of which satisfies the side condition when it is executed *)
Fixpoint all_safe (w : world) (ops : list (@wop T)) : Prop :=
  match ops with [] => True | o :: r => safe w o /\ all_safe (fst (wstep w o)) r end.
Theorem Cinv_wrun ops : forall w, ginv w -> Cinv w -> all_safe w ops -> Cinv (wrun w ops).
Proof.
  induction ops as [|o r IH]; intros w Hg HC Hs; simpl; auto. destruct Hs as [S1 S2].
  apply IH; [apply ginv_wstep; exact Hg|apply Cinv_wstep; assumption|exact S2].
Qed.

(* reading a container's sampled points in a state satisfying the invariants returns the concatenation of the
   sampled points of its elements at the container's density, i.e. what a freshly built container reports *)
Theorem c_read_equals_fresh (w : world) j : ginv w -> Cinv w ->
  snd (c_read_eval K f_ev w j) = cderive w (contr w j).
Proof.
  intros Hg [Hr Hc]. unfold c_read_eval. destruct (is_nil (c_eval (contr w j))) eqn:N.
  - unfold c_fill_eval. cbv zeta. simpl. unfold cderive. apply flat_map_ext_in. intros i Hi.
    apply (fold_put_touched (c_touch K f_ev (contr w j))
             (fun o' => oinv o' /\ o_def o' = o_def (geom w i))
             (fun o' => oinv o' /\ o_def o' = dld (o_def (geom w i)) 0 (c_delta (contr w j)) /\
                        o_eval o' = f_ev (dld (o_def (geom w i)) 0 (c_delta (contr w j))))).
    + intros o n [Io Do]. destruct (c_touch_def (contr w j) o n Io) as (d1 & d2). rewrite Do in d1, d2. split; [apply c_touch_pres; exact Io|auto].
    + intros o n (Io & Do & _). destruct (c_touch_def (contr w j) o n Io) as (d1 & d2). rewrite Do, dld_idem in d1, d2. split; [apply c_touch_pres; exact Io|auto].
    + exact Hi.
    + exact (Hr j i Hi).
    + left. split; [apply ginv_geom; exact Hg|reflexivity].
  - simpl. destruct (Hc j) as [Y|Y]; [rewrite Y in N; discriminate|exact Y].
Qed.

(* ---------------- provenance ids ---------------- *)
(* the ids of an object after an operation: old ones, or the two fresh ones handed to the operation *)
Definition ids_sub (n : nat) (a b : list nat) : Prop := forall x, In x b -> In x a \/ x = n \/ x = S n.
Lemma ids_sub_refl n a : ids_sub n a a.
Proof. intros x H; left; exact H. Qed.
Lemma ids_sub_trans n a b c : ids_sub n a b -> ids_sub n b c -> ids_sub n a c.
Proof. intros H1 H2 x Hx. destruct (H2 x Hx) as [H|H]; [apply H1; exact H|right; exact H]. Qed.
Lemma in_upd {A} (l : list A) : forall i v x, In x (upd l i v) -> x = v \/ In x l.
Proof.
  induction l as [|a l IH]; intros [|i] v x H; simpl in *; auto.
  - destruct H as [H|H]; [left; auto|right; right; exact H].
  - destruct H as [H|H]; [right; left; exact H|]. destruct (IH i v x H) as [E|E]; [left; exact E|right; right; exact E].
Qed.
Lemma rebind_sub n ids sl : (sl = [0; 4] \/ sl = [0] \/ sl = []) -> ids_sub n ids (rebind ids n sl).
Proof.
  intros [ -> | [ -> | -> ] ] x H; simpl in H.
  - apply in_upd in H. destruct H as [->|H]; [right; right; reflexivity|]. apply in_upd in H. destruct H as [->|H]; [right; left; reflexivity|left; exact H].
  - apply in_upd in H. destruct H as [->|H]; [right; left; reflexivity|left; exact H].
  - left; exact H.
Qed.

Definition keeps (f : obj -> obj) : Prop := forall o, o_ids (f o) = o_ids o.
Lemma read_cpts_ids (o : obj) : o_ids (fst (read_cpts K o)) = o_ids o.
Proof. unfold read_cpts. destruct (d_rat _); [destruct (is_nil _)|]; reflexivity. Qed.
Lemma read_wts_ids (o : obj) : o_ids (fst (read_wts K o)) = o_ids o.
Proof. unfold read_wts. destruct (is_nil _); reflexivity. Qed.
Lemma read_eval_ids (o : obj) : o_ids (fst (Obj.read_eval f_ev o)) = o_ids o.
Proof. unfold Obj.read_eval. destruct (is_nil _); reflexivity. Qed.
Lemma read_bbox_ids (o : obj) : o_ids (fst (read_bbox K f_bbox o)) = o_ids o.
Proof.
  unfold read_bbox. destruct (o_bbox o); [reflexivity|]. pose proof (read_cpts_ids o) as E.
  destruct (read_cpts K o) as [o1 p]. simpl in *. exact E.
Qed.
Lemma tessellate_ids (o : obj) k : o_ids (Obj.tessellate f_ev f_tess o k) = o_ids o.
Proof.
  unfold Obj.tessellate. destruct (Nat.eqb _ 2); [|reflexivity].
  assert (D : forall k', o_ids (do_tess f_ev f_tess o k') = o_ids o).
  { intro k'. unfold do_tess. pose proof (read_eval_ids o) as E. destruct (Obj.read_eval f_ev o) as [o1 e]. simpl in *. exact E. }
  destruct (Nat.eqb k 0); [destruct (is_tessellated o); [reflexivity|apply D]|apply D].
Qed.

Definition subs (n : nat) (f : obj -> obj * res (@out T)) : Prop := forall o, ids_sub n (o_ids o) (o_ids (fst (f o))).
Lemma set_ctrlpts_sub pts sz n : subs n (fun o => set_ctrlpts o pts sz n).
Proof.
  intro o. unfold set_ctrlpts. destruct (negb _); [apply ids_sub_refl|]. destruct pts as [|p0 r]; [apply ids_sub_refl|].
  destruct (Nat.ltb _ _); [apply ids_sub_refl|]. destruct (forallb _ _); cbn [fst o_ids]; apply rebind_sub; auto.
Qed.
Lemma set_pts_sub v n : subs n (fun o => set_pts K o v n).
Proof.
  intro o. unfold set_pts. destruct (d_rat _); [|apply set_ctrlpts_sub].
  pose proof (read_wts_ids o) as E. destruct (read_wts K o) as [o1 w]. simpl in *. rewrite <- E. apply set_ctrlpts_sub.
Qed.
Lemma set_wts_sub v n : subs n (fun o => set_wts K o v n).
Proof.
  intro o. unfold set_wts. destruct (d_rat _); [|apply ids_sub_refl].
  pose proof (read_cpts_ids o) as E. destruct (read_cpts K o) as [o1 p]. simpl in *. rewrite <- E.
  destruct (is_nil p); [apply ids_sub_refl|apply set_ctrlpts_sub].
Qed.
Lemma set_knots_ids (o : obj) dir U n : o_ids (fst (set_knots K o dir U n)) = o_ids o.
Proof.
  unfold set_knots. destruct (orb _ _); [reflexivity|]. destruct (check K _ U _) as [[|]| |]; try reflexivity.
  destruct (normalize K U); reflexivity.
Qed.
Lemma set_degree_ids (o : obj) dir p n : o_ids (fst (set_degree o dir p n)) = o_ids o.
Proof. unfold set_degree. destruct (andb _ _); reflexivity. Qed.
Lemma set_delta1_ids (o : obj) dir x n : o_ids (fst (set_delta1 K o dir x n)) = o_ids o.
Proof. unfold set_delta1. destruct (delta_ok K x); reflexivity. Qed.
Lemma set_delta_dirs_ids dirs x n : forall o : obj, o_ids (fst (set_delta_dirs K o dirs x n)) = o_ids o.
Proof.
  induction dirs as [|d r IH]; intro o; simpl; [reflexivity|]. pose proof (set_delta1_ids o d x n) as E.
  destruct (set_delta1 K o d x n) as [o1 [a| |]]; simpl in *; auto. rewrite IH. exact E.
Qed.
Lemma set_sample_dirs_ids dirs m n : forall o : obj, o_ids (fst (set_sample_dirs K o dirs m n)) = o_ids o.
Proof.
  induction dirs as [|d r IH]; intro o; simpl; [reflexivity|].
  match goal with |- context [set_delta1 K o d ?x n] => pose proof (set_delta1_ids o d x n) as E; destruct (set_delta1 K o d x n) as [o1 [a| |]] end;
    simpl in *; auto. rewrite IH. exact E.
Qed.
Lemma set_knots_all_ids kvs n : forall (o : obj) dir, o_ids (fst (set_knots_all K o dir kvs n)) = o_ids o.
Proof.
  induction kvs as [|U r IH]; intros o dir; simpl; [reflexivity|]. pose proof (set_knots_ids o dir U n) as E.
  destruct (set_knots K o dir U n) as [o1 [a| |]]; simpl in *; auto. rewrite IH. exact E.
Qed.
Lemma set_delta_list_ids xs : forall (o : obj) dir n, o_ids (set_delta_list K o dir xs n) = o_ids o.
Proof. induction xs as [|x r IH]; intros o dir n; simpl; auto. rewrite IH. apply set_delta1_ids. Qed.

Lemma redefine_sub kvs cp sz n : subs n (fun o => redefine K o kvs cp sz n).
Proof.
  intro o. unfold redefine. pose proof (set_ctrlpts_sub cp sz n o) as E.
  destruct (set_ctrlpts o cp sz n) as [o1 [a| |]]; simpl in *; auto. rewrite set_knots_all_ids. exact E.
Qed.
Lemma map_pts_sub f n : subs n (fun o => map_pts K o f n).
Proof.
  intro o. unfold map_pts. pose proof (read_cpts_ids o) as E. destruct (read_cpts K o) as [o1 p]. simpl in *.
  rewrite <- E. apply set_pts_sub.
Qed.
Lemma translate_sub v n : subs n (fun o => translate K o v n).
Proof. intro o. unfold translate. destruct (orb _ _); [apply ids_sub_refl|apply map_pts_sub]. Qed.

Theorem gstep_sub g n : subs n (fun o => gstep o g n).
Proof.
  intro o. destruct g; simpl.
  - rewrite set_degree_ids. apply ids_sub_refl.
  - rewrite set_knots_ids. apply ids_sub_refl.
  - apply set_ctrlpts_sub.
  - apply set_pts_sub.
  - apply set_wts_sub.
  - rewrite set_delta_dirs_ids. apply ids_sub_refl.
  - destruct (sample_ready _ _); [rewrite set_sample_dirs_ids|]; apply ids_sub_refl.
  - apply redefine_sub.
  - unfold reverse.
    match goal with |- context [set_ctrlpts o ?p ?s n] => pose proof (set_ctrlpts_sub p s n o) as E; destruct (set_ctrlpts o p s n) as [o1 [a| |]] end;
      simpl in *; auto.
  - unfold transpose. cbv zeta.
    match goal with |- context [set_degree o 0 ?p n] => pose proof (set_degree_ids o 0 p n) as E1; destruct (set_degree o 0 p n) as [o1 [a| |]] end;
      simpl in *; try (rewrite E1; apply ids_sub_refl).
    match goal with |- context [set_degree o1 1 ?p n] => pose proof (set_degree_ids o1 1 p n) as E2; destruct (set_degree o1 1 p n) as [o2 [b| |]] end;
      simpl in *; try (rewrite E2, E1; apply ids_sub_refl).
    rewrite <- E1, <- E2. apply redefine_sub.
  - unfold flip. apply set_ctrlpts_sub.
  - apply translate_sub.
  - unfold scale. apply map_pts_sub.
  - unfold rotate. cbv zeta.
    match goal with |- context [translate K o ?v n] => pose proof (translate_sub v n o) as E1; destruct (translate K o v n) as [o1 [a| |]] end;
      simpl in *; auto.
    match goal with |- context [map_pts K o1 ?f n] => pose proof (map_pts_sub f n o1) as E2; destruct (map_pts K o1 f n) as [o2 [b| |]] end;
      simpl in *; try (eapply ids_sub_trans; eassumption).
    eapply ids_sub_trans; [exact E1|]. eapply ids_sub_trans; [exact E2|]. apply translate_sub.
  - destruct (Nat.eqb _ 2); simpl; [rewrite tessellate_ids|]; apply ids_sub_refl.
  - apply ids_sub_refl.
  - pose proof (read_cpts_ids o) as E. destruct (read_cpts K o); simpl in *. rewrite E. apply ids_sub_refl.
  - destruct (d_rat _); [|apply ids_sub_refl]. pose proof (read_wts_ids o) as E. destruct (read_wts K o); simpl in *. rewrite E. apply ids_sub_refl.
  - apply ids_sub_refl.
  - pose proof (read_eval_ids o) as E. destruct (Obj.read_eval f_ev o); simpl in *. rewrite E. apply ids_sub_refl.
  - pose proof (read_bbox_ids o) as E. destruct (read_bbox K f_bbox o); simpl in *. rewrite E. apply ids_sub_refl.
  - destruct (Nat.eqb _ 2); simpl; [|apply ids_sub_refl]. unfold Obj.read_tess. simpl. rewrite tessellate_ids. apply ids_sub_refl.
Qed.

Definition ids_lt (w : world) : Prop := forall k x, k < length (w_geoms w) -> In x (o_ids (geom w k)) -> x < w_next w.
Definition ids_disj (w : world) : Prop :=
  forall a b x, a <> b -> a < length (w_geoms w) -> b < length (w_geoms w) -> In x (o_ids (geom w a)) -> In x (o_ids (geom w b)) -> False.
(* all provenance ids are below the allocation counter, and different geometries never share one *)
Definition ids_ok (w : world) : Prop := ids_lt w /\ ids_disj w.

Lemma ids_ok_put (w : world) i o' : ids_ok w -> ids_sub (w_next w) (o_ids (geom w i)) (o_ids o') -> ids_ok (put_geom w i o').
Proof.
  intros [L D] Sb.
  assert (EL : length (w_geoms (put_geom w i o')) = length (w_geoms w)) by (simpl; apply upd_length).
  assert (G : forall k x, k < length (w_geoms w) -> In x (o_ids (geom (put_geom w i o') k)) ->
              (k <> i /\ In x (o_ids (geom w k))) \/ (k = i /\ (In x (o_ids (geom w i)) \/ x = w_next w \/ x = S (w_next w)))).
  { intros k x Hk Hx. rewrite geom_put in Hx. destruct (andb (Nat.eqb k i) _) eqn:E.
    - apply andb_prop in E. destruct E as [E _]. apply Nat.eqb_eq in E. right. split; [exact E|]. apply Sb; exact Hx.
    - destruct (Nat.eq_dec k i) as [->|Ne]; [|left; auto]. right. split; [reflexivity|left; exact Hx]. }
  split.
  - intros k x Hk Hx. rewrite EL in Hk. simpl. unfold id_block.
    destruct (G k x Hk Hx) as [[_ H]|[E [H|[E2|E2]]]]; try lia.
    + pose proof (L k x Hk H). lia.
    + subst k. pose proof (L i x Hk H). lia.
  - intros a b x Nab Ha Hb Hxa Hxb. rewrite EL in Ha, Hb.
    destruct (G a x Ha Hxa) as [[Na H1]|[-> H1]]; destruct (G b x Hb Hxb) as [[Nb H2]|[-> H2]].
    + exact (D a b x Nab Ha Hb H1 H2).
    + destruct H2 as [H2|[->| ->]]; [exact (D a i x Nab Ha Hb H1 H2)| |]; pose proof (L a _ Ha H1); lia.
    + destruct H1 as [H1|[->| ->]]; [exact (D i b x Nab Ha Hb H1 H2)| |]; pose proof (L b _ Hb H2); lia.
    + contradiction.
Qed.

Lemma ids_ok_fold (F : obj -> nat -> obj) : (forall o n, ids_sub n (o_ids o) (o_ids (F o n))) ->
  forall el w, ids_ok w -> ids_ok (fold_left (fun wa i => put_geom wa i (F (geom wa i) (w_next wa))) el w).
Proof.
  intro HF. induction el as [|i r IH]; intros w H; simpl; auto. apply IH. apply ids_ok_put; [exact H|apply HF].
Qed.
Lemma ids_ok_put_cont (w : world) j c : ids_ok w -> ids_ok (put_cont w j c).
Proof. intro H; exact H. Qed.

(* appending geometries whose ids are fresh and pairwise disjoint *)
Lemma ids_ok_grow (w : world) (extra : list obj) cs n' :
  ids_ok w -> w_next w <= n' ->
  (forall k x, k < length extra -> In x (o_ids (nth k extra dummy_obj)) -> w_next w <= x < n') ->
  (forall a b x, a <> b -> a < length extra -> b < length extra -> In x (o_ids (nth a extra dummy_obj)) -> In x (o_ids (nth b extra dummy_obj)) -> False) ->
  ids_ok (mkWorld (w_geoms w ++ extra) cs n').
Proof.
  intros [L D] Hn HX HD.
  assert (G : forall k, k < length (w_geoms w ++ extra) ->
     (k < length (w_geoms w) /\ geom (mkWorld (w_geoms w ++ extra) cs n') k = geom w k) \/
     (length (w_geoms w) <= k /\ k - length (w_geoms w) < length extra /\
      geom (mkWorld (w_geoms w ++ extra) cs n') k = nth (k - length (w_geoms w)) extra dummy_obj)).
  { intros k Hk. rewrite app_length in Hk. unfold geom. simpl. destruct (Nat.lt_ge_cases k (length (w_geoms w))) as [A|A].
    - left. split; [exact A|apply app_nth1; exact A].
    - right. split; [exact A|split; [lia|apply app_nth2; exact A]]. }
  split.
  - intros k x Hk Hx. simpl in *. destruct (G k Hk) as [[A E]|(A & B & E)]; rewrite E in Hx.
    + pose proof (L k x A Hx). lia.
    + pose proof (HX _ x B Hx). lia.
  - intros a b x Nab Ha Hb Hxa Hxb. simpl in Ha, Hb.
    destruct (G a Ha) as [[A1 E1]|(A1 & B1 & E1)]; destruct (G b Hb) as [[A2 E2]|(A2 & B2 & E2)]; rewrite E1 in Hxa; rewrite E2 in Hxb.
    + exact (D a b x Nab A1 A2 Hxa Hxb).
    + pose proof (L a x A1 Hxa). pose proof (HX _ x B2 Hxb). lia.
    + pose proof (L b x A2 Hxb). pose proof (HX _ x B1 Hxa). lia.
    + apply (HD (a - length (w_geoms w)) (b - length (w_geoms w)) x); auto. lia.
Qed.

Lemma fresh_ids_range next n x : In x (fresh_ids next n) -> next <= x < next + n.
Proof. revert next; induction n; intros next H; simpl in *; [destruct H|]. destruct H as [<-|H]; [lia|]. apply IHn in H. lia. Qed.

Lemma copy_elems_ids (gs : list obj) : forall el next k x, k < length el ->
  In x (o_ids (nth k (copy_elems gs next el) dummy_obj)) -> next + nslots * k <= x < next + nslots * S k.
Proof.
  induction el as [|i r IH]; intros next k x Hk Hx; simpl in *; [lia|].
  destruct k.
  - unfold deepcopy in Hx. cbn [o_ids] in Hx. apply fresh_ids_range in Hx. unfold nslots in *. lia.
  - apply IH in Hx; [|lia]. unfold nslots in *. lia.
Qed.

Lemma cstep_ids (w : world) j co : ids_ok w -> ids_ok (fst (cstep w j co)).
Proof.
  intro H. destruct co; simpl.
  - destruct (negb _); [exact H|]. destruct (Nat.eqb _ (c_pdim _)); [|exact H].
    destruct (Nat.eqb (c_dim _) 0); [exact H|]. destruct (Nat.eqb (c_dim _) _); exact H.
  - destruct (delta_ok K x); exact H.
  - destruct (delta_ok K x); exact H.
  - destruct (Nat.ltb n 2); exact H.
  - destruct (Nat.ltb n 2); exact H.
  - destruct (orb _ _); [exact H|]. simpl. apply ids_ok_put_cont.
    apply (ids_ok_fold (fun o n => fst (map_pts K o (fun pt => vadd K pt vec) n))); [|exact H]. intros o n. apply map_pts_sub.
  - simpl. apply ids_ok_put_cont.
    apply (ids_ok_fold (fun o n => fst (scale K o m n))); [|exact H]. intros o n. unfold scale. apply map_pts_sub.
  - unfold c_read_eval. destruct (is_nil _); [|exact H]. unfold c_fill_eval. simpl. apply ids_ok_put_cont.
    apply (ids_ok_fold (c_touch K f_ev (contr w j))); [|exact H]. intros o n. unfold c_touch.
    rewrite read_eval_ids, set_delta_list_ids. apply ids_sub_refl.
  - unfold c_read_bbox.
    match goal with |- context [fold_left ?F ?el (w, [])] => pose proof (bbox_fold_fst el w []) as E; destruct (fold_left F el (w, [])) as [w1 boxes] end.
    simpl in *. subst w1. apply (ids_ok_fold (fun o (_ : nat) => fst (read_bbox K f_bbox o))); [|exact H].
    intros o n. rewrite read_bbox_ids. apply ids_sub_refl.
  - destruct (Nat.eqb _ 2); [|exact H]. unfold c_read_tess.
    assert (X : ids_ok (fst (c_fill_tess K f_ev f_tess w j))).
    { unfold c_fill_tess. simpl. apply ids_ok_put_cont.
      apply (ids_ok_fold (c_touch_tess K f_ev f_tess (contr w j))); [|exact H]. intros o n. unfold c_touch_tess.
      rewrite tessellate_ids, read_eval_ids. simpl. rewrite set_delta_list_ids. apply ids_sub_refl. }
    destruct (c_tess (contr w j)) as [t|]; [destruct (tess_nonempty t); [exact H|]|]; destruct (c_fill_tess K f_ev f_tess w j); exact X.
Qed.

Theorem ids_ok_wstep (w : world) o : ids_ok w -> ids_ok (fst (wstep w o)).
Proof.
  intro H. destruct o; simpl.
  - apply ids_ok_grow; [exact H|lia| |].
    + intros k x Hk Hx. simpl in Hk. destruct k; [|lia]. simpl in Hx. unfold nslots. intuition lia.
    + intros a b x Nab Ha Hb. simpl in Ha, Hb. lia.
  - pose proof (gstep_sub g (w_next w) (geom w i)) as Sb. destruct (gstep (geom w i) g (w_next w)) as [o1 r]. simpl in *.
    apply ids_ok_put; assumption.
  - apply ids_ok_grow; [exact H|lia| |].
    + intros k x Hk Hx. simpl in Hk. destruct k; [|lia]. simpl in Hx. unfold nslots. intuition lia.
    + intros a b x Nab Ha Hb. simpl in Ha, Hb. lia.
  - exact H.
  - apply cstep_ids; exact H.
  - apply ids_ok_grow; [exact H|lia| |].
    + intros k x Hk Hx. rewrite copy_elems_length in Hk. apply copy_elems_ids in Hx; [|exact Hk]. unfold nslots in *. nia.
    + intros a b x Nab Ha Hb Hxa Hxb. rewrite copy_elems_length in Ha, Hb.
      apply copy_elems_ids in Hxa; [|exact Ha]. apply copy_elems_ids in Hxb; [|exact Hb]. unfold nslots in *. nia.
Qed.
Lemma ids_ok_init : ids_ok (mkWorld [] [] 0).
Proof. split; [intros k x Hk; simpl in Hk; lia|intros a b x _ Ha; simpl in Ha; lia]. Qed.
Theorem ids_ok_wrun ops : forall w, ids_ok w -> ids_ok (wrun w ops).
Proof. induction ops as [|o r IH]; intros w H; simpl; auto. apply IH. apply ids_ok_wstep; exact H. Qed.
End W.
