(* Ties: generated helpers.find_span_linear / find_span_binsearch / find_multiplicity / find_spans = Model/Basis.v,
   for every scalar instance (no law of the scalar operations is used). *)
From Coq Require Import List ZArith Arith Bool Lia QArith Qround Lqa.
From NV Require Import Scalar.Ops Model.Common Model.Basis Gen.Prelude Gen.Helpers Proofs.GenTieLib.
Import ListNotations.
Local Open Scope nat_scope.

(* ---- int / int, int(), round() ---- *)
Lemma rtrunc_rdiv2 (z : Z) : (0 <= z)%Z -> rtrunc (rdiv z 2) = (z / 2)%Z.
Proof.
  intros H. unfold rtrunc, rdiv. simpl. rewrite Z.mul_1_r. apply Z.quot_div_nonneg; lia.
Qed.

Lemma div2_Z (a : nat) : Z.of_nat (Nat.div2 a) = (Z.of_nat a / 2)%Z.
Proof. rewrite Nat.div2_div, Nat2Z.inj_div. reflexivity. Qed.

Lemma Qfloor_unique (q : Q) (k : Z) : (inject_Z k <= q)%Q -> (q < inject_Z (k + 1))%Q -> Qfloor q = k.
Proof.
  intros H1 H2.
  pose proof (Qfloor_le q) as F1. pose proof (Qlt_floor q) as F2.
  assert (A : (inject_Z k < inject_Z (Qfloor q + 1))%Q) by (eapply Qle_lt_trans; eauto).
  assert (B : (inject_Z (Qfloor q) < inject_Z (k + 1))%Q) by (eapply Qle_lt_trans; eauto).
  rewrite <- Zlt_Qlt in A, B. lia.
Qed.

(* round((low + high) / 2 + tol) for a tolerance strictly between 0 and 1/2: the half is rounded up *)
Lemma rround_half_up (z : Z) (tol : Q) : (0 < tol)%Q -> (tol < 1 # 2)%Q -> rround (radd (rdiv z 2) tol) = ((z + 1) / 2)%Z.
Proof.
  intros T0 T1. unfold rround, radd, rdiv.
  set (q := (inject_Z z / inject_Z 2 + tol)%Q).
  assert (Hq : (q == inject_Z z * (1 # 2) + tol)%Q) by (unfold q; field).
  destruct (Z.Even_or_Odd z) as [[k Hk]|[k Hk]].
  - assert (Fl : Qfloor q = k).
    { apply Qfloor_unique; rewrite Hq, Hk, ?inject_Z_plus, ?inject_Z_mult; change (inject_Z 2) with (2#1)%Q; change (inject_Z 1) with 1%Q; lra. }
    rewrite Fl.
    assert (C : ((q - inject_Z k)%Q ?= (1 # 2))%Q = Lt).
    { rewrite <- Qlt_alt. rewrite Hq, Hk, ?inject_Z_mult. change (inject_Z 2) with (2#1)%Q. lra. }
    rewrite C. subst z. apply Z.div_unique with (r := 1%Z); lia.
  - assert (Fl : Qfloor q = k).
    { apply Qfloor_unique; rewrite Hq, Hk, ?inject_Z_plus, ?inject_Z_mult; change (inject_Z 2) with (2#1)%Q; change (inject_Z 1) with 1%Q; lra. }
    rewrite Fl.
    assert (C : ((q - inject_Z k)%Q ?= (1 # 2))%Q = Gt).
    { rewrite <- Qgt_alt. rewrite Hq, Hk, ?inject_Z_plus, ?inject_Z_mult. change (inject_Z 2) with (2#1)%Q; change (inject_Z 1) with 1%Q. lra. }
    rewrite C. subst z. apply Z.div_unique with (r := 0%Z); lia.
Qed.

Section Tie.
Context {T : Type} (K : ops T).
Notation kn := (kn K).

(* ================= find_span_linear ================= *)
Definition lin_cm (U : list T) (n : nat) (u : T) (span : nat) : bool := andb (Nat.ltb span n) (oleb K (kn U span) u).

Lemma lin_iter (U : list T) (n : nat) (u : T) : forall f span, n - span <= f ->
  iter_while (Datatypes.S f) (lin_cm U n u) Datatypes.S span = Some (find_span_linear_aux K f U n span u).
Proof.
  induction f; intros span H.
  - simpl. unfold lin_cm. destruct (Nat.ltb_spec span n); [lia|]. reflexivity.
  - change (iter_while (Datatypes.S (Datatypes.S f)) (lin_cm U n u) Datatypes.S span)
      with (if lin_cm U n u span then iter_while (Datatypes.S f) (lin_cm U n u) Datatypes.S (Datatypes.S span) else Some span).
    cbn [find_span_linear_aux]. fold (lin_cm U n u span).
    destruct (lin_cm U n u span); auto. apply IHf. lia.
Qed.

Lemma lin_aux_ge (U : list T) (n : nat) (u : T) : forall f span, span <= find_span_linear_aux K f U n span u.
Proof.
  induction f; intros span; simpl; auto.
  destruct (_ && _); auto. specialize (IHf (Datatypes.S span)). lia.
Qed.

(* wf: the loop reads knot_vector[degree+1 .. num_ctrlpts-1] *)
Theorem find_span_linear_tie (p : nat) (U : list T) (n : nat) (u : T) :
  n <= length U ->
  Helpers.find_span_linear K (Z.of_nat p) U (Z.of_nat n) u = GOk (Z.of_nat (Basis.find_span_linear K p U n u)).
Proof.
  intros Hn. unfold Helpers.find_span_linear, Basis.find_span_linear.
  replace (Z.of_nat p + 1)%Z with (Z.of_nat (Datatypes.S p)) by lia.
  replace (Z.to_nat (Z.of_nat n + 1)) with (Datatypes.S n) by lia.
  rewrite (gwhile_iter Z.of_nat _ _ (lin_cm U n u) Datatypes.S (fun _ => True)); auto.
  - rewrite lin_iter by lia. cbn [gbind]. f_equal.
    pose proof (lin_aux_ge U n u n (Datatypes.S p)). lia.
  - intros s _. unfold lin_cm.
    destruct (Z.ltb_spec (Z.of_nat s) (Z.of_nat n)); destruct (Nat.ltb_spec s n); try lia; cbn [andb gbind]; auto.
    rewrite (znth_nat U s (o0 K)) by lia. reflexivity.
  - intros s _ _. split; auto. f_equal. lia.
Qed.

(* ================= find_span_binsearch ================= *)
Definition bs_state : Type := (nat * nat * nat)%type.       (* (high, low, mid) *)
Definition bs_inj (s : bs_state) : Z * Z * Z := let '(h, l, m) := s in (Z.of_nat h, Z.of_nat l, Z.of_nat m).
Definition bs_cm (U : list T) (u : T) (s : bs_state) : bool :=
  let '(h, l, m) := s in orb (oltb K u (kn U m)) (oleb K (kn U (Datatypes.S m)) u).
Definition bs_bm (U : list T) (u : T) (s : bs_state) : bs_state :=
  let '(h, l, m) := s in
  if oltb K u (kn U m) then (m, l, Nat.div2 (l + m)) else (h, m, Nat.div2 (m + h)).

Lemma bs_iter (U : list T) (u : T) : forall fuel h l m,
  option_map (fun s : bs_state => snd s) (iter_while fuel (bs_cm U u) (bs_bm U u) (h, l, m)) = binsearch_loop K fuel U u l h m.
Proof.
  induction fuel; intros h l m; simpl; auto.
  destruct (oltb K u (kn U m)); simpl.
  - apply IHfuel.
  - destruct (oleb K (kn U (Datatypes.S m)) u); simpl; auto.
Qed.

Lemma div2_le_max a b B : a <= B -> b <= B -> Nat.div2 (a + b) <= B.
Proof. intros. rewrite Nat.div2_div. apply Nat.div_le_upper_bound; lia. Qed.

(* wf: 1 <= num_ctrlpts and the indices num_ctrlpts + 1, degree + 1 exist.  tolq is the `tol` keyword (default 10e-6),
   which only enters int(round((low + high) / 2 + tol)); the model ignores its own tol.  No sortedness is needed: on
   inputs where the Python loop does not terminate both sides run out of the same fuel. *)
Theorem find_span_binsearch_tie (tolq : ratio) (tol : T) (p : nat) (U : list T) (num : nat) (u : T) :
  (0 < tolq)%Q -> (tolq < 1 # 2)%Q ->
  1 <= num -> num + 1 < length U -> p + 1 < length U ->
  Helpers.find_span_binsearch K (Z.of_nat p) U (Z.of_nat num) u tolq =
  match Basis.find_span_binsearch K tol p U num u with Some m => GOk (Z.of_nat m) | None => GErr OutOfFuel end.
Proof.
  intros T0 T1 Hn Hl Hp. unfold Helpers.find_span_binsearch, Basis.find_span_binsearch.
  replace (Z.of_nat num - 1 + 1)%Z with (Z.of_nat (Datatypes.S (Nat.pred num))) by lia.
  rewrite (znth_nat U _ (o0 K)) by lia. cbn [gbind]. fold (kn U (Datatypes.S (Nat.pred num))).
  destruct (oleb K (kn U (Datatypes.S (Nat.pred num))) u).
  { f_equal. lia. }
  rewrite rround_half_up by auto.
  replace ((Z.of_nat p + Z.of_nat num + 1) / 2)%Z with (Z.of_nat (Nat.div2 (Datatypes.S (p + num)))) by (rewrite div2_Z; f_equal; lia).
  replace (Z.to_nat (zlen U + 2)) with (Datatypes.S (Datatypes.S (length U))) by (unfold zlen; lia).
  set (m0 := Nat.div2 (Datatypes.S (p + num))).
  set (B := Nat.max p num).
  change (Z.of_nat num, Z.of_nat p, Z.of_nat m0) with (bs_inj (num, p, m0)).
  rewrite (gwhile_iter bs_inj _ _ (bs_cm U u) (bs_bm U u) (fun s : bs_state => let '(h, l, m) := s in h <= B /\ l <= B /\ m <= B)).
  - rewrite <- (bs_iter U u (Datatypes.S (Datatypes.S (length U))) num p m0).
    destruct (iter_while _ _ _ _) as [[[h l] m]|]; reflexivity.
  - intros [[h l] m] (Hh & Hl' & Hm). unfold bs_inj, bs_cm.
    rewrite (znth_nat U m (o0 K)) by lia. cbn [gbind]. fold (kn U m).
    destruct (oltb K u (kn U m)); cbn [gbind orb]; auto.
    replace (Z.of_nat m + 1)%Z with (Z.of_nat (Datatypes.S m)) by lia.
    rewrite (znth_nat U _ (o0 K)) by lia. reflexivity.
  - intros [[h l] m] (Hh & Hl' & Hm) _. unfold bs_inj, bs_bm.
    rewrite (znth_nat U m (o0 K)) by lia. cbn [gbind]. fold (kn U m).
    destruct (oltb K u (kn U m)); cbn [gbind]; rewrite rtrunc_rdiv2 by lia.
    + split; [|repeat split; auto using div2_le_max]. do 2 f_equal. rewrite div2_Z. f_equal; lia.
    + split; [|repeat split; auto using div2_le_max]. do 2 f_equal. rewrite div2_Z. f_equal; lia.
  - subst B m0. repeat split; try lia.
    assert (Nat.div2 (Datatypes.S (p + num)) < Datatypes.S (Nat.max p num)) by (rewrite Nat.div2_div; apply Nat.div_lt_upper_bound; lia). lia.
Qed.

(* ================= find_multiplicity ================= *)
Lemma mult_loop (tol u : T) (U : list T) : forall (m : Z),
  gfor U (fun kv mult =>
      gbind (if oleb K (oabs K (osub K u kv)) tol then GOk (mult + 1)%Z else GOk mult) (fun mult => GOk mult)) m =
  GOk (m + Z.of_nat (length (filter (fun k => oleb K (oabs K (osub K u k)) tol) U)))%Z.
Proof.
  induction U as [|k r IH]; intros m; simpl.
  - f_equal. lia.
  - destruct (oleb K _ tol); simpl; rewrite IH; f_equal; lia.
Qed.

(* no well-formedness condition; tol is the keyword argument (default 10e-8) *)
Theorem find_multiplicity_tie (tol u : T) (U : list T) :
  Helpers.find_multiplicity K u U tol = GOk (Z.of_nat (Basis.find_multiplicity K tol u U)).
Proof.
  unfold Helpers.find_multiplicity, Basis.find_multiplicity.
  rewrite mult_loop. reflexivity.
Qed.

(* ================= find_spans ================= *)
(* for any span function that returns, on these knots, what a model function fm returns *)
Theorem find_spans_tie_gen (func : Z -> list T -> Z -> T -> gres Z) (fm : T -> nat) (p : Z) (U : list T) (n : Z) (knots : list T) :
  (forall u, In u knots -> func p U n u = GOk (Z.of_nat (fm u))) ->
  Helpers.find_spans K p U n knots func = GOk (map (fun u => Z.of_nat (fm u)) knots).
Proof.
  intros H. unfold Helpers.find_spans.
  rewrite (gfor_append knots (fun knot => func p U n knot) (fun u => Z.of_nat (fm u))) by auto.
  reflexivity.
Qed.

(* with the default func = find_span_linear *)
Theorem find_spans_tie (p : nat) (U : list T) (n : nat) (knots : list T) :
  n <= length U ->
  Helpers.find_spans K (Z.of_nat p) U (Z.of_nat n) knots (Helpers.find_span_linear K) =
  GOk (map (fun u => Z.of_nat (Basis.find_span_linear K p U n u)) knots).
Proof. intros H. apply find_spans_tie_gen. intros u _. now apply find_span_linear_tie. Qed.
End Tie.

Definition find_span_linear_tie_R := @find_span_linear_tie _ Rops.
Definition find_span_linear_tie_Q := @find_span_linear_tie _ Qops.
Definition find_span_binsearch_tie_R := @find_span_binsearch_tie _ Rops.
Definition find_span_binsearch_tie_Q := @find_span_binsearch_tie _ Qops.
Definition find_multiplicity_tie_R := @find_multiplicity_tie _ Rops.
Definition find_multiplicity_tie_Q := @find_multiplicity_tie _ Qops.
Definition find_spans_tie_R := @find_spans_tie _ Rops.
Definition find_spans_tie_Q := @find_spans_tie _ Qops.

(* ---- non-vacuity (degree 3, a repeated interior knot) ---- *)
Local Open Scope Q_scope.
Definition exU : list Q := [0; 0; 0; 0; 1#4; 1#2; 1#2; 3#4; 1; 1; 1; 1].
Example find_span_linear_ex :
  Helpers.find_span_linear Qops 3 exU 8 (1#2) = GOk 6%Z /\ Basis.find_span_linear Qops 3 exU 8 (1#2) = 6%nat
  /\ Helpers.find_span_linear Qops 3 exU 8 1 = GOk 7%Z /\ (8 <= length exU)%nat.
Proof. repeat split; try (vm_compute; reflexivity). unfold exU; simpl; lia. Qed.
Example find_span_binsearch_ex :
  Helpers.find_span_binsearch Qops 3 exU 8 (1#2) (1#100000) = GOk 6%Z
  /\ Basis.find_span_binsearch Qops (1#100000) 3 exU 8 (1#2) = Some 6%nat
  /\ Helpers.find_span_binsearch Qops 3 exU 8 (3#10) (Helpers.find_span_binsearch__default_tol Qops) = GOk 4%Z
  /\ Helpers.find_span_binsearch Qops 3 exU 8 1 (1#100000) = GOk 7%Z.
Proof. repeat split; vm_compute; reflexivity. Qed.
(* a parameter below the domain: the Python loop does not terminate (low = high = mid = degree); both sides run out of fuel *)
Example find_span_binsearch_nonterminating :
  Helpers.find_span_binsearch Qops 3 exU 8 (-1) (1#100000) = GErr OutOfFuel
  /\ Basis.find_span_binsearch Qops (1#100000) 3 exU 8 (-1) = None.
Proof. split; vm_compute; reflexivity. Qed.
Example find_multiplicity_ex :
  Helpers.find_multiplicity Qops (1#2) exU (1#10000000) = GOk 2%Z /\ Basis.find_multiplicity Qops (1#10000000) (1#2) exU = 2%nat.
Proof. split; vm_compute; reflexivity. Qed.
Example find_spans_ex :
  Helpers.find_spans Qops 3 exU 8 [0; 3#10; 1#2; 1] (Helpers.find_span_linear Qops) = GOk [3; 4; 6; 7]%Z.
Proof. vm_compute; reflexivity. Qed.
