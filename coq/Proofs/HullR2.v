(* C18 continued: clamped end points, bounding box specification, points inside the bounding box,
   chord <= polyline length (triangle inequality in R^n). *)
From Coq Require Import List Reals Lra Lia Arith Bool.
From NV Require Import Scalar.Ops Model.Common Model.Basis Model.Knots Model.Eval Model.Homog Model.Hull
  Proofs.BasisR Proofs.LinComb Proofs.HomogR Proofs.HullR.
Import ListNotations.
Open Scope R_scope.

(* ================= clamped end points ================= *)
Lemma inner_zeros U span u j : forall n r, Basis.inner Rops U span u j r (repeat 0 n) 0 = repeat 0 (S n).
Proof.
  induction n as [|n IH]; intros r; cbn [repeat Basis.inner]; [reflexivity|]. rsimp.
  replace (0 / (Basis.right Rops U span u (S r) + Basis.left Rops U span u (j - r))) with 0 by (unfold Rdiv; lra).
  rewrite Rmult_0_r, Rplus_0_r, Rmult_0_r. f_equal. apply IH.
Qed.

Section Start.
Variables (U : list R) (span : nat).
Hypothesis Hne : knR U span < knR U (span + 1).
(* the p knots before the span start coincide with it (clamped start: U_1 = ... = U_p) *)
Lemma bf_at_start p : (forall j, (1 <= j <= p)%nat -> knR U (span + 1 - j) = knR U span) ->
  basis_function Rops p U span (knR U span) = 1 :: repeat 0 p.
Proof.
  induction p as [|q IH]; intros Hk; [reflexivity|].
  cbn [basis_function]. rewrite IH by (intros; apply Hk; lia). cbn [Basis.inner]. rsimp.
  assert (HL : Basis.left Rops U span (knR U span) (S q - 0) = 0).
  { unfold Basis.left. rsimp. rewrite Hk by lia. lra. }
  assert (HR : Basis.right Rops U span (knR U span) 1 = knR U (span + 1) - knR U span) by reflexivity.
  rewrite HL, HR. rewrite Rplus_0_r, Rplus_0_l, Rmult_0_l.
  rewrite inner_zeros. cbn [repeat]. f_equal. field. lra.
Qed.
End Start.

Section EndK.
Variables (U : list R) (span : nat).
Hypothesis Hne : knR U span < knR U (span + 1).
Lemma inner_end j : (forall i, (1 <= i <= j)%nat -> knR U (span + i) = knR U (span + 1)) ->
  forall n r, (r + S n = j)%nat ->
  Basis.inner Rops U span (knR U (span + 1)) j r (repeat 0 n ++ [1]) 0 = repeat 0 (S n) ++ [1].
Proof.
  intros Hk. induction n as [|n IH]; intros r Hr; cbn [repeat app Basis.inner]; rsimp.
  - assert (HR : Basis.right Rops U span (knR U (span + 1)) (S r) = 0).
    { unfold Basis.right. rsimp. rewrite Hk by lia. lra. }
    assert (HL : Basis.left Rops U span (knR U (span + 1)) (j - r) = knR U (span + 1) - knR U span).
    { unfold Basis.left. rsimp. replace (span + 1 - (j - r))%nat with span by lia. reflexivity. }
    rewrite HR, HL. rewrite Rplus_0_l, Rmult_0_l. f_equal. f_equal. field. lra.
  - assert (HR : Basis.right Rops U span (knR U (span + 1)) (S r) = 0).
    { unfold Basis.right. rsimp. rewrite Hk by lia. lra. }
    rewrite HR. rewrite Rmult_0_l, Rplus_0_r.
    replace (0 / (0 + Basis.left Rops U span (knR U (span + 1)) (j - r))) with 0 by (unfold Rdiv; lra).
    rewrite Rmult_0_r. f_equal. apply IH. lia.
Qed.
(* the p knots after the span end coincide with it (clamped end: U_n = ... = U_{n+p-1}) *)
Lemma bf_at_end p : (forall i, (1 <= i <= p)%nat -> knR U (span + i) = knR U (span + 1)) ->
  basis_function Rops p U span (knR U (span + 1)) = repeat 0 p ++ [1].
Proof.
  induction p as [|q IH]; intros Hk; [reflexivity|].
  cbn [basis_function]. rewrite IH by (intros; apply Hk; lia). apply inner_end; [exact Hk|lia].
Qed.
End EndK.

Lemma nth_unit_start p i : nth i (1 :: repeat 0 p) 0 = if Nat.eqb i 0 then 1 else 0.
Proof. destruct i; [reflexivity|]. cbn [nth Nat.eqb]. apply nth_repeat. Qed.
Lemma nth_unit_end p i : nth i (repeat 0 p ++ [1]) 0 = if Nat.eqb i p then 1 else 0.
Proof.
  destruct (Nat.eqb_spec i p) as [E|E].
  - subst. rewrite app_nth2; rewrite repeat_length; [|lia]. rewrite Nat.sub_diag. reflexivity.
  - destruct (lt_dec i p).
    + rewrite app_nth1 by (rewrite repeat_length; lia). apply nth_repeat.
    + apply nth_overflow. rewrite app_length, repeat_length. cbn. lia.
Qed.

Lemma curve_at_unit_start dim p P span : (forall i, (i <= p)%nat -> length (pt_at P (span - p + i)) = dim) ->
  curve_point_at Rops dim p P span (1 :: repeat 0 p) = pt_at P (span - p).
Proof.
  intros Hl. rewrite curve_point_at_fold.
  rewrite (lincomb_unit dim _ _ _ 0%nat).
  - f_equal. lia.
  - apply seq_NoDup.
  - apply in_seq. lia.
  - reflexivity.
  - intros i _ Hi. rewrite nth_unit_start. destruct (Nat.eqb_spec i 0); [contradiction|reflexivity].
  - intros i Hi. apply in_seq in Hi. apply Hl. lia.
Qed.
Lemma curve_at_unit_end dim p P span : (forall i, (i <= p)%nat -> length (pt_at P (span - p + i)) = dim) ->
  curve_point_at Rops dim p P span (repeat 0 p ++ [1]) = pt_at P (span - p + p).
Proof.
  intros Hl. rewrite curve_point_at_fold.
  rewrite (lincomb_unit dim _ _ _ p).
  - reflexivity.
  - apply seq_NoDup.
  - apply in_seq. lia.
  - rewrite nth_unit_end, Nat.eqb_refl. reflexivity.
  - intros i _ Hi. rewrite nth_unit_end. destruct (Nat.eqb_spec i p); [contradiction|reflexivity].
  - intros i Hi. apply in_seq in Hi. apply Hl. lia.
Qed.

Definition clamped_start (p : nat) (U : list R) : Prop :=
  (forall j, (1 <= j <= p)%nat -> knR U j = knR U p) /\ knR U p < knR U (p + 1).
Definition clamped_end (p : nat) (U : list R) (n : nat) : Prop :=
  (forall j, (1 <= j <= p)%nat -> knR U (n - 1 + j) = knR U n) /\ knR U (n - 1) < knR U n.

Lemma span_at_start U p n : sortedR U -> (p < n)%nat -> (n < length U)%nat -> knR U p < knR U (p + 1) ->
  find_span_linear Rops p U n (knR U p) = p.
Proof.
  intros Hs Hn HL Hne. destruct (find_span_linear_spec U (knR U p) p n Hn HL ltac:(lra)) as [Hk [H1 _]].
  set (k := find_span_linear Rops p U n (knR U p)) in *.
  destruct (Nat.eq_dec k p); [assumption|]. exfalso.
  assert (knR U (p + 1) <= knR U k) by (apply Hs; lia). lra.
Qed.
Lemma span_at_end U p n : sortedR U -> (p < n)%nat -> (n < length U)%nat -> knR U p <= knR U n -> knR U (n - 1) < knR U n ->
  find_span_linear Rops p U n (knR U n) = (n - 1)%nat.
Proof.
  intros Hs Hn HL Hdom Hne. destruct (find_span_linear_spec U (knR U n) p n Hn HL Hdom) as [Hk [H1 H2]].
  set (k := find_span_linear Rops p U n (knR U n)) in *.
  destruct H2 as [H2|[H2 _]]; [|exact H2]. exfalso.
  assert (knR U (S k) <= knR U n) by (apply Hs; lia). lra.
Qed.

Section Ends.
Variables (dim p : nat) (U : list R) (P : list (list R)).
Hypothesis Usorted : sortedR U.
Hypothesis Hn : (p < length P)%nat.
Hypothesis HL : (length P + p < length U)%nat.
Hypothesis Hdim : Forall (fun q => length q = dim) P.

Lemma P_len i : (i < length P)%nat -> length (pt_at P i) = dim.
Proof. intros Hi. rewrite Forall_forall in Hdim. apply Hdim. apply nth_In. exact Hi. Qed.

Theorem curve_starts_at_first_ctrlpt : clamped_start p U -> curve_point Rops dim p U P (knR U p) = pt_at P 0.
Proof.
  intros [Hk Hne]. unfold curve_point. rewrite span_at_start by (auto; lia).
  rewrite (bf_at_start U p Hne p) by (intros j Hj; apply Hk; lia).
  rewrite curve_at_unit_start; [f_equal; lia|]. intros i Hi. apply P_len. lia.
Qed.

Theorem curve_ends_at_last_ctrlpt : clamped_end p U (length P) -> knR U p <= knR U (length P) ->
  curve_point Rops dim p U P (knR U (length P)) = pt_at P (length P - 1).
Proof.
  intros [Hk Hne] Hdom. unfold curve_point. rewrite span_at_end by (auto; lia).
  assert (E : knR U (length P) = knR U (length P - 1 + 1)) by (f_equal; lia).
  rewrite E. rewrite (bf_at_end U (length P - 1)).
  - rewrite curve_at_unit_end; [f_equal; lia|]. intros i Hi. apply P_len. lia.
  - rewrite <- E. exact Hne.
  - intros i Hi. rewrite <- E. apply Hk. exact Hi.
Qed.
End Ends.

(* ---- surface corners (all four), generically: each direction sits at a clamped start or end ---- *)
Definition side_ok (p : nat) (U : list R) (n : nat) (u : R) (k a : nat) : Prop :=
  find_span_linear Rops p U n u = k /\
  (forall i, nth i (basis_function Rops p U k u) 0 = if Nat.eqb i a then 1 else 0) /\ (a <= p)%nat /\ (p <= k < n)%nat.

Lemma side_start p U n : sortedR U -> (p < n)%nat -> (n < length U)%nat -> clamped_start p U -> side_ok p U n (knR U p) p 0.
Proof.
  intros Hs Hn HL [Hk Hne]. repeat split; try lia.
  - apply span_at_start; assumption.
  - intros i. rewrite (bf_at_start U p Hne p) by (intros j Hj; apply Hk; lia). apply nth_unit_start.
Qed.
Lemma side_end p U n : sortedR U -> (p < n)%nat -> (n < length U)%nat -> clamped_end p U n -> knR U p <= knR U n ->
  side_ok p U n (knR U n) (n - 1) p.
Proof.
  intros Hs Hn HL [Hk Hne] Hdom. repeat split; try lia.
  - apply span_at_end; assumption.
  - intros i. assert (E : knR U n = knR U (n - 1 + 1)) by (f_equal; lia).
    rewrite E. rewrite (bf_at_end U (n - 1)).
    + apply nth_unit_end.
    + rewrite <- E. exact Hne.
    + intros j Hj. rewrite <- E. apply Hk. exact Hj.
Qed.

Theorem surface_corner dim pu pv su sv Uu Uv P u v ku kv a b :
  side_ok pu Uu su u ku a -> side_ok pv Uv sv v kv b -> length P = (su * sv)%nat -> Forall (fun q => length q = dim) P ->
  surface_point Rops dim pu pv Uu Uv su sv P u v = pt_at P ((kv - pv + b) + sv * (ku - pu + a)).
Proof.
  intros [Eu [Nu [Ha Hku]]] [Ev [Nv [Hb Hkv]]] HP Hdim. unfold surface_point. rewrite Eu, Ev. rewrite surface_point_at_fold.
  assert (Hlen : forall k l, In k (seq 0 (S pu)) -> In l (seq 0 (S pv)) -> length (pt_at P (kv - pv + l + sv * (ku - pu + k))) = dim).
  { intros k l Hk Hl. apply in_seq in Hk, Hl. rewrite Forall_forall in Hdim. apply Hdim. apply nth_In. rewrite HP. apply idx2_lt; lia. }
  rewrite (lincomb_unit dim _ _ _ a).
  - rewrite (lincomb_unit dim _ _ _ b).
    + reflexivity.
    + apply seq_NoDup.
    + apply in_seq. lia.
    + rewrite Nv, Nat.eqb_refl. reflexivity.
    + intros i _ Hi. rewrite Nv. destruct (Nat.eqb_spec i b); [contradiction|reflexivity].
    + intros l Hl. apply Hlen; [apply in_seq; lia|exact Hl].
  - apply seq_NoDup.
  - apply in_seq. lia.
  - rewrite Nu, Nat.eqb_refl. reflexivity.
  - intros i _ Hi. rewrite Nu. destruct (Nat.eqb_spec i a); [contradiction|reflexivity].
  - intros k Hk. apply lincomb_length. intros l Hl. apply Hlen; assumption.
Qed.

(* rational: the projection of a homogeneous control point is the control point *)
Lemma project_hom dim (pt : list R) w : length pt = dim -> w <> 0 -> project Rops (hom_point Rops pt w) = pt.
Proof.
  intros _ Hw. unfold project. rewrite removelast_hom, last_hom. rewrite map_map.
  rewrite <- (map_id pt) at 2. apply map_ext. intros c. rsimp. field. exact Hw.
Qed.

(* ================= bounding box ================= *)
Lemma bb_update_length lt : forall cpt bb : list R, length (bb_update lt cpt bb) = length bb.
Proof. induction cpt as [|x c IH]; intros [|m b]; cbn; auto. Qed.
Lemma bb_update_min : forall (cpt bb : list R) c, length cpt = length bb ->
  nth c (bb_update Rltb cpt bb) 0 = Rmin (nth c cpt 0) (nth c bb 0).
Proof.
  induction cpt as [|x cp IH]; intros [|m b] c H; cbn [length] in H; try discriminate.
  - destruct c; cbn; rewrite Rmin_left; lra.
  - destruct c; cbn [bb_update nth]; [|apply IH; lia].
    unfold Rltb, Rmin. destruct (Rlt_dec x m); destruct (Rle_dec x m); lra.
Qed.
Lemma bb_update_max : forall (cpt bb : list R) c, length cpt = length bb ->
  nth c (bb_update (fun a b => Rltb b a) cpt bb) 0 = Rmax (nth c cpt 0) (nth c bb 0).
Proof.
  induction cpt as [|x cp IH]; intros [|m b] c H; cbn [length] in H; try discriminate.
  - destruct c; cbn; rewrite Rmax_left; lra.
  - destruct c; cbn [bb_update nth]; [|apply IH; lia].
    unfold Rltb, Rmax. destruct (Rlt_dec m x); destruct (Rle_dec x m); lra.
Qed.

Section BBox.
Variable dim : nat.
Definition fold_min (bb : list R) (r : list (list R)) := fold_left (fun bb c => bb_update Rltb c bb) r bb.
Definition fold_max (bb : list R) (r : list (list R)) := fold_left (fun bb c => bb_update (fun a b => Rltb b a) c bb) r bb.

Lemma fold_min_spec r : forall bb, length bb = dim -> Forall (fun q => length q = dim) r ->
  length (fold_min bb r) = dim /\
  (forall c, nth c (fold_min bb r) 0 <= nth c bb 0) /\
  (forall q c, In q r -> nth c (fold_min bb r) 0 <= nth c q 0) /\
  (forall c, nth c (fold_min bb r) 0 = nth c bb 0 \/ exists q, In q r /\ nth c (fold_min bb r) 0 = nth c q 0).
Proof.
  induction r as [|a r IH]; intros bb Hb Hr.
  - cbn. split; [exact Hb|]. split; [intros; lra|]. split; [intros q c []|]. intros c. left. reflexivity.
  - apply Forall_cons_iff in Hr. destruct Hr as [Ha Hr]. cbn [fold_min fold_left].
    destruct (IH (bb_update Rltb a bb)) as [I1 [I2 [I3 I4]]]; [rewrite bb_update_length; exact Hb|exact Hr|].
    fold (fold_min (bb_update Rltb a bb) r) in *.
    assert (Hm : forall c, nth c (bb_update Rltb a bb) 0 = Rmin (nth c a 0) (nth c bb 0)) by (intros; apply bb_update_min; lia).
    repeat split; auto.
    + intros c. specialize (I2 c). rewrite Hm in I2. pose proof (Rmin_r (nth c a 0) (nth c bb 0)). lra.
    + intros q c [E|Hq]; [subst q|auto with datatypes]. specialize (I2 c). rewrite Hm in I2. pose proof (Rmin_l (nth c a 0) (nth c bb 0)). lra.
    + intros c. destruct (I4 c) as [E|[q [Hq E]]].
      * rewrite Hm in E. unfold Rmin in E. destruct (Rle_dec (nth c a 0) (nth c bb 0)).
        -- right. exists a. auto with datatypes.
        -- left. exact E.
      * right. exists q. auto with datatypes.
Qed.
Lemma fold_max_spec r : forall bb, length bb = dim -> Forall (fun q => length q = dim) r ->
  length (fold_max bb r) = dim /\
  (forall c, nth c bb 0 <= nth c (fold_max bb r) 0) /\
  (forall q c, In q r -> nth c q 0 <= nth c (fold_max bb r) 0) /\
  (forall c, nth c (fold_max bb r) 0 = nth c bb 0 \/ exists q, In q r /\ nth c (fold_max bb r) 0 = nth c q 0).
Proof.
  induction r as [|a r IH]; intros bb Hb Hr.
  - cbn. split; [exact Hb|]. split; [intros; lra|]. split; [intros q c []|]. intros c. left. reflexivity.
  - apply Forall_cons_iff in Hr. destruct Hr as [Ha Hr]. cbn [fold_max fold_left].
    destruct (IH (bb_update (fun a b => Rltb b a) a bb)) as [I1 [I2 [I3 I4]]]; [rewrite bb_update_length; exact Hb|exact Hr|].
    fold (fold_max (bb_update (fun a b => Rltb b a) a bb) r) in *.
    assert (Hm : forall c, nth c (bb_update (fun a b => Rltb b a) a bb) 0 = Rmax (nth c a 0) (nth c bb 0)) by (intros; apply bb_update_max; lia).
    repeat split; auto.
    + intros c. specialize (I2 c). rewrite Hm in I2. pose proof (Rmax_r (nth c a 0) (nth c bb 0)). lra.
    + intros q c [E|Hq]; [subst q|auto with datatypes]. specialize (I2 c). rewrite Hm in I2. pose proof (Rmax_l (nth c a 0) (nth c bb 0)). lra.
    + intros c. destruct (I4 c) as [E|[q [Hq E]]].
      * rewrite Hm in E. unfold Rmax in E. destruct (Rle_dec (nth c a 0) (nth c bb 0)).
        -- left. exact E.
        -- right. exists a. auto with datatypes.
      * right. exists q. auto with datatypes.
Qed.

(* evaluate_bounding_box returns the component-wise minimum and maximum of the points:
   both bounds hold for every point and each bound is attained by some point *)
Theorem bbox_spec pts mn mx : Forall (fun q => length q = dim) pts -> bbox Rops pts = Ok (mn, mx) ->
  length mn = dim /\ length mx = dim /\
  (forall q c, In q pts -> nth c mn 0 <= nth c q 0 <= nth c mx 0) /\
  (forall c, (exists q, In q pts /\ nth c mn 0 = nth c q 0) /\ (exists q, In q pts /\ nth c mx 0 = nth c q 0)).
Proof.
  intros Hd Hb. destruct pts as [|p0 r]; [discriminate|]. cbn [bbox] in Hb. injection Hb as Emn Emx.
  apply Forall_cons_iff in Hd. destruct Hd as [H0 Hr].
  destruct (fold_min_spec r p0 H0 Hr) as [A1 [A2 [A3 A4]]]. destruct (fold_max_spec r p0 H0 Hr) as [B1 [B2 [B3 B4]]].
  unfold fold_min in *. unfold fold_max in *. change (oltb Rops) with Rltb in *. rewrite Emn in *. rewrite Emx in *.
  repeat split; auto.
  - destruct H as [E|Hq]; [subst q; apply A2|apply A3; exact Hq].
  - destruct H as [E|Hq]; [subst q; apply B2|apply B3; exact Hq].
  - destruct (A4 c) as [E|[q [Hq E]]]; [exists p0|exists q]; auto with datatypes.
  - destruct (B4 c) as [E|[q [Hq E]]]; [exists p0|exists q]; auto with datatypes.
Qed.
End BBox.

(* ---- evaluated points lie inside the bounding box of the control net ---- *)
Lemma pt_at_In (P : list (list R)) i : (i < length P)%nat -> In (pt_at P i) P.
Proof. intros. apply nth_In. assumption. Qed.

Theorem curve_point_in_bbox dim p U P u mn mx :
  sortedR U -> (p < length P)%nat -> (length P + p < length U)%nat -> Forall (fun q => length q = dim) P ->
  in_domain p U (length P) u -> bbox Rops P = Ok (mn, mx) ->
  forall c, nth c mn 0 <= nth c (curve_point Rops dim p U P u) 0 <= nth c mx 0.
Proof.
  intros Hs Hn HL Hd Hu Hb c. destruct (bbox_spec dim P mn mx Hd Hb) as [_ [_ [Hin _]]].
  apply (curve_point_hull_linfun dim p U P u Hs Hn HL Hd Hu (fun x => nth c x 0)); [apply linfun_nth|].
  unfold find_ctrlpts_curve, active_curve. apply Forall_forall. intros q Hq. apply in_map_iff in Hq. destruct Hq as [i [<- Hi]].
  apply in_seq in Hi. apply Hin. apply pt_at_In.
  destruct (span_closed U u p (length P) Hs Hn ltac:(lia) Hu) as [Hk _]. lia.
Qed.

Theorem rational_curve_point_in_bbox dim p U P W u mn mx :
  sortedR U -> (p < length P)%nat -> (length P + p < length U)%nat -> Forall (fun q => length q = dim) P ->
  length W = length P -> Forall (fun w => 0 < w) W ->
  in_domain p U (length P) u -> bbox Rops P = Ok (mn, mx) ->
  forall c, nth c mn 0 <= nth c (project Rops (curve_point Rops (S dim) p U (hom_combine Rops P W) u)) 0 <= nth c mx 0.
Proof.
  intros Hs Hn HL Hd HW Wpos Hu Hb c. destruct (bbox_spec dim P mn mx Hd Hb) as [_ [_ [Hin _]]].
  apply (rational_curve_point_hull_linfun dim P W HW Hd Wpos p U u Hs Hn HL Hu (fun x => nth c x 0)); [apply linfun_nth|].
  unfold find_ctrlpts_curve, active_curve. apply Forall_forall. intros q Hq. apply in_map_iff in Hq. destruct Hq as [i [<- Hi]].
  apply in_seq in Hi. apply Hin. apply pt_at_In.
  destruct (span_closed U u p (length P) Hs Hn ltac:(lia) Hu) as [Hk _]. lia.
Qed.

Theorem surface_point_in_bbox dim pu pv su sv Uu Uv P u v mn mx :
  sortedR Uu -> sortedR Uv -> (pu < su)%nat -> (pv < sv)%nat -> (su + pu < length Uu)%nat -> (sv + pv < length Uv)%nat ->
  length P = (su * sv)%nat -> Forall (fun q => length q = dim) P -> in_domain pu Uu su u -> in_domain pv Uv sv v ->
  bbox Rops P = Ok (mn, mx) ->
  forall c, nth c mn 0 <= nth c (surface_point Rops dim pu pv Uu Uv su sv P u v) 0 <= nth c mx 0.
Proof.
  intros Hsu Hsv Hnu Hnv HLu HLv HP Hd Hu Hv Hb c. destruct (bbox_spec dim P mn mx Hd Hb) as [_ [_ [Hin _]]].
  apply (surface_point_hull_linfun dim pu pv su sv Uu Uv P u v Hsu Hsv Hnu Hnv HLu HLv HP Hd Hu Hv (fun x => nth c x 0)); [apply linfun_nth|].
  unfold find_ctrlpts_surface, active_surface. apply Forall_forall. intros row Hrow. apply in_map_iff in Hrow. destruct Hrow as [k [<- Hk]].
  apply Forall_forall. intros q Hq. apply in_map_iff in Hq. destruct Hq as [l [<- Hl]].
  apply in_seq in Hk, Hl. apply Hin. apply pt_at_In. rewrite HP.
  destruct (span_closed Uu u pu su Hsu Hnu ltac:(lia) Hu) as [Hku _]. destruct (span_closed Uv v pv sv Hsv Hnv ltac:(lia) Hv) as [Hkv _].
  apply idx2_lt; lia.
Qed.

Theorem volume_point_in_bbox dim pu pv pw su sv sw Uu Uv Uw P u v w mn mx :
  sortedR Uu -> sortedR Uv -> sortedR Uw -> (pu < su)%nat -> (pv < sv)%nat -> (pw < sw)%nat ->
  (su + pu < length Uu)%nat -> (sv + pv < length Uv)%nat -> (sw + pw < length Uw)%nat ->
  length P = (su * sv * sw)%nat -> Forall (fun q => length q = dim) P ->
  in_domain pu Uu su u -> in_domain pv Uv sv v -> in_domain pw Uw sw w ->
  bbox Rops P = Ok (mn, mx) ->
  forall c, nth c mn 0 <= nth c (volume_point Rops dim pu pv pw Uu Uv Uw su sv sw P u v w) 0 <= nth c mx 0.
Proof.
  intros Hsu Hsv Hsw Hnu Hnv Hnw HLu HLv HLw HP Hd Hu Hv Hw Hb c. destruct (bbox_spec dim P mn mx Hd Hb) as [_ [_ [Hin _]]].
  apply (volume_point_hull_linfun dim pu pv pw su sv sw Uu Uv Uw P u v w Hsu Hsv Hsw Hnu Hnv Hnw HLu HLv HLw HP Hd Hu Hv Hw (fun x => nth c x 0)); [apply linfun_nth|].
  unfold active_volume. apply Forall_forall. intros q Hq.
  apply in_flat_map in Hq. destruct Hq as [a [Ha Hq]]. apply in_flat_map in Hq. destruct Hq as [b [Hb' Hq]].
  apply in_map_iff in Hq. destruct Hq as [e [<- He]]. apply in_seq in Ha, Hb', He.
  apply Hin. apply pt_at_In. rewrite HP.
  destruct (span_closed Uu u pu su Hsu Hnu ltac:(lia) Hu) as [Hku _]. destruct (span_closed Uv v pv sv Hsv Hnv ltac:(lia) Hv) as [Hkv _].
  destruct (span_closed Uw w pw sw Hsw Hnw ltac:(lia) Hw) as [Hkw _].
  apply idx3_lt; lia.
Qed.

(* ---- helpers for concrete (non-vacuity) instances ---- *)
Lemma sortedR_adjacent (U : list R) : (forall i, (S i < length U)%nat -> knR U i <= knR U (S i)) -> sortedR U.
Proof.
  intros H i j [Hij Hj]. induction j as [|j IH]; [replace i with 0%nat by lia; lra|].
  destruct (Nat.eq_dec i (S j)) as [->|Hne]; [lra|].
  apply Rle_trans with (knR U j); [apply IH; lia|apply H; lia].
Qed.

(* find_ctrlpts returns exactly the window of degree+1 control points the evaluator multiplies with the basis functions *)
Lemma find_ctrlpts_curve_window p U (P : list (list R)) u :
  let span := find_span_linear Rops p U (length P) u in
  find_ctrlpts_curve Rops p U P u = map (fun i => pt_at P (span - p + i)) (seq 0 (S p)) /\
  length (find_ctrlpts_curve Rops p U P u) = S p /\
  curve_point Rops (length (pt_at P 0)) p U P u =
    fold_axpy (fun i => nth i (basis_function Rops p U span u) 0) (fun i => nth i (find_ctrlpts_curve Rops p U P u) []) (seq 0 (S p)) (vzero Rops (length (pt_at P 0))).
Proof.
  cbv zeta. split; [reflexivity|]. split; [unfold find_ctrlpts_curve, active_curve; rewrite map_length, seq_length; reflexivity|].
  unfold curve_point. rewrite curve_point_at_fold. apply fold_axpy_ext; [reflexivity|].
  intros i Hi. apply in_seq in Hi. unfold find_ctrlpts_curve, active_curve.
  rewrite (nth_indep _ [] (pt_at P (find_span_linear Rops p U (length P) u - p + 0))) by (rewrite map_length, seq_length; lia).
  rewrite (map_nth (fun i => pt_at P (find_span_linear Rops p U (length P) u - p + i))). rewrite seq_nth by lia. reflexivity.
Qed.

(* a property of all control points holds on the active window *)
Lemma find_ctrlpts_curve_Forall (Q : list R -> Prop) p U (P : list (list R)) u :
  sortedR U -> (p < length P)%nat -> (length P < length U)%nat -> in_domain p U (length P) u ->
  Forall Q P -> Forall Q (find_ctrlpts_curve Rops p U P u).
Proof.
  intros Hs Hn HL Hu HQ. unfold find_ctrlpts_curve, active_curve. apply Forall_forall. intros q Hq.
  apply in_map_iff in Hq. destruct Hq as [i [<- Hi]]. apply in_seq in Hi. rewrite Forall_forall in HQ. apply HQ. apply pt_at_In.
  destruct (span_closed U u p (length P) Hs Hn HL Hu) as [Hk _]. lia.
Qed.
