(* C09 completion: a shape with unit weights (convert.bspline_to_nurbs) evaluates like the non-rational shape.
   Curves, surfaces and volumes, for EVERY parameter value (in particular the closed right end of the domain):
   on a span of positive length the basis functions sum to 1 algebraically (no condition on u), on a span of
   length zero (only possible for p >= 1 when the knot vector is not clamped properly) all basis functions of the
   model are 0 (total division x / 0 = 0; Python raises ZeroDivisionError on both objects) and both points are the
   zero vector.  New file; nothing existing is modified. *)
From Coq Require Import List Reals Lra Lia Arith Bool.
From NV Require Import Scalar.Ops Model.Common Model.Basis Model.Knots Model.Eval Model.Weights
  Proofs.Boehm Proofs.BfN Proofs.BasisR Proofs.EvalR Proofs.WeightsR.
Import ListNotations.
Open Scope R_scope.

Definition allz (l : list R) : Prop := Forall (fun x => x = 0) l.

Lemma allz_nth l i : allz l -> nth i l 0 = 0.
Proof.
  intro H. destruct (lt_dec i (length l)) as [Hi|Hi].
  - unfold allz in H. rewrite Forall_forall in H. apply H. apply nth_In. exact Hi.
  - apply nth_overflow. lia.
Qed.

(* ------------------------------------------------------------------ basis functions: sum 1 or all zero, any u *)
Section Alg.
Variables (U : list R) (u : R) (span : nat).
Hypothesis Usorted : sortedR U.

Lemma denom_alg j r : knR U span < knR U (span + 1) -> (r < j)%nat -> (j <= span)%nat -> (span + j < length U)%nat ->
  0 < Basis.right Rops U span u (S r) + Basis.left Rops U span u (j - r).
Proof.
  intros Hlt Hr Hj HL. unfold Basis.left, Basis.right. rsimp.
  assert (knR U (span + 1 - (j - r)) <= knR U span) by (apply Usorted; lia).
  assert (knR U (span + 1) <= knR U (span + S r)) by (apply Usorted; lia).
  lra.
Qed.

Lemma inner_sum_alg j : knR U span < knR U (span + 1) -> (j <= span)%nat -> (span + j < length U)%nat ->
  forall Nold r saved, (r + length Nold = j)%nat ->
  sumT Rops (Basis.inner Rops U span u j r Nold saved) = saved + sumT Rops Nold.
Proof.
  intros Hlt Hj HL. induction Nold as [|x rest IH]; intros r saved Hlen'; cbn [Basis.inner sumT]; rsimp.
  - lra.
  - rewrite IH by (simpl in Hlen'; lia).
    assert (0 < Basis.right Rops U span u (S r) + Basis.left Rops U span u (j-r)) by (apply denom_alg; [exact Hlt|..]; simpl in Hlen'; lia).
    field. lra.
Qed.

(* partition of unity as an algebraic identity: only the span has to have positive length *)
Lemma bf_sum_alg p : knR U span < knR U (span + 1) -> (p <= span)%nat -> (span + p < length U)%nat ->
  sumT Rops (basis_function Rops p U span u) = 1.
Proof.
  intro Hlt. induction p; intros Hp HL; cbn [basis_function].
  - cbn. lra.
  - rewrite inner_sum_alg; [|exact Hlt|lia|lia|rewrite bf_length; lia]. rewrite IHp by lia. rsimp. lra.
Qed.

Lemma inner_allzero j : forall Nold r saved, allz Nold -> saved = 0 ->
  allz (Basis.inner Rops U span u j r Nold saved).
Proof.
  induction Nold as [|x rest IH]; intros r saved HN Hs; cbn [Basis.inner].
  - subst. repeat constructor.
  - apply Forall_cons_iff in HN. destruct HN as [Hx Hrest]. subst x saved. constructor.
    + rsimp. unfold Rdiv. ring.
    + apply IH; [exact Hrest|]. rsimp. unfold Rdiv. ring.
Qed.

Lemma bf_degenerate p : knR U span = knR U (span + 1) -> (1 <= p)%nat -> allz (basis_function Rops p U span u).
Proof.
  intros He. induction p as [|p IH]; intro Hp; [lia|]. destruct p as [|p].
  - cbn [basis_function Basis.inner]. unfold Basis.left, Basis.right. rsimp.
    replace (span + 1 - (1 - 0))%nat with span by lia.
    assert (E : knR U (span + 1) - u + (u - knR U span) = 0) by lra. rewrite E.
    unfold Rdiv. rewrite Rinv_0. repeat constructor; ring.
  - cbn [basis_function]. apply inner_allzero; [|reflexivity]. apply IH. lia.
Qed.
End Alg.

(* what the span search and A2.2 deliver in one parametric direction, for ANY parameter value *)
Lemma dir_facts U p n u : sortedR U -> (p < n)%nat -> (n + p < length U)%nat ->
  let k := find_span_linear Rops p U n u in let Ns := basis_function Rops p U k u in
  (p <= k < n)%nat /\ length Ns = S p /\ (sumT Rops Ns = 1 \/ allz Ns).
Proof.
  intros Hs Hp HL. cbv zeta.
  assert (Hk : (p <= find_span_linear Rops p U n u < n)%nat).
  { unfold find_span_linear.
    destruct (aux_spec U u p n Hp ltac:(lia) n (S p) ltac:(lia) ltac:(lia)) as [H _]; [intros; lia|]. cbv zeta in H. lia. }
  set (k := find_span_linear Rops p U n u) in *.
  split; [exact Hk|]. split; [apply bf_length|].
  destruct p as [|p]; [left; cbn; rsimp; lra|].
  assert (Hle : knR U k <= knR U (k + 1)) by (apply Hs; lia).
  destruct (Rle_lt_or_eq_dec _ _ Hle) as [Hlt|He].
  - left. apply bf_sum_alg; try assumption; lia.
  - right. apply bf_degenerate; [exact He|lia].
Qed.

(* ------------------------------------------------------------------ one level of the nested evaluation loops *)
Lemma axpy_app_gen k (pt acc : list R) s a : length pt = length acc ->
  axpy Rops k (pt ++ [s]) (acc ++ [a]) = axpy Rops k pt acc ++ [a + k * s].
Proof.
  intro H. unfold axpy. rewrite combine_app_eq by (symmetry; exact H). rewrite map_app. simpl. rsimp. reflexivity.
Qed.

Lemma fold_axpy_app_gen (cf : nat -> R) (pf : nat -> list R) (sf : nat -> R) dim (l : list nat) :
  (forall i, In i l -> length (pf i) = dim) -> forall acc a, length acc = dim ->
  fold_left (fun ac i => axpy Rops (cf i) (pf i ++ [sf i]) ac) l (acc ++ [a]) =
  fold_left (fun ac i => axpy Rops (cf i) (pf i) ac) l acc ++ [fold_left (fun s i => s + cf i * sf i) l a].
Proof.
  induction l as [|x l IH]; intros H acc a Ha; simpl; auto.
  rewrite axpy_app_gen by (rewrite H; [lia|left; reflexivity]).
  apply IH; [intros i Hi; apply H; right; exact Hi|]. rewrite axpy_len; rewrite ?H; auto; left; reflexivity.
Qed.

Lemma fold_axpy_length (cf : nat -> R) (pf : nat -> list R) dim (l : list nat) :
  (forall i, In i l -> length (pf i) = dim) -> forall acc, length acc = dim ->
  length (fold_left (fun ac i => axpy Rops (cf i) (pf i) ac) l acc) = dim.
Proof.
  induction l as [|x l IH]; intros H acc Ha; simpl; auto.
  apply IH; [intros i Hi; apply H; right; exact Hi|]. rewrite axpy_len; rewrite ?H; auto; left; reflexivity.
Qed.

Lemma fold_sum_nth_c c (l : list R) : forall pre a,
  fold_left (fun s i => s + nth i (pre ++ l) 0 * c) (seq (length pre) (length l)) a = a + sumT Rops l * c.
Proof.
  induction l as [|x l IH]; intros pre a; simpl; [rsimp; ring|].
  rewrite nth_middle. replace (pre ++ x :: l) with ((pre ++ [x]) ++ l) by (rewrite <- app_assoc; reflexivity).
  replace (S (length pre)) with (length (pre ++ [x])) by (rewrite app_length; simpl; lia).
  rewrite IH. rsimp. ring.
Qed.

(* homogeneous level = (non-rational level, (sum of the coefficients) * (common last coordinate of the points)) *)
Lemma fold_level dim m (Ns : list R) (pfR pf : nat -> list R) (s : R) :
  length Ns = m -> (forall i, (i < m)%nat -> length (pf i) = dim /\ pfR i = pf i ++ [s]) ->
  fold_left (fun acc i => axpy Rops (nth i Ns (o0 Rops)) (pfR i) acc) (seq 0 m) (vzero Rops (S dim)) =
  fold_left (fun acc i => axpy Rops (nth i Ns (o0 Rops)) (pf i) acc) (seq 0 m) (vzero Rops dim) ++ [sumT Rops Ns * s].
Proof.
  intros HN H. rewrite vzero_S.
  rewrite (fold_left_ext_in' (fun acc i => axpy Rops (nth i Ns (o0 Rops)) (pf i ++ [s]) acc)).
  2:{ intros a x Hx. apply in_seq in Hx. destruct (H x) as [_ E]; [lia|]. rewrite E. reflexivity. }
  rewrite (fold_axpy_app_gen (fun i => nth i Ns (o0 Rops)) pf (fun _ => s) dim).
  - f_equal. f_equal. pose proof (fold_sum_nth_c s Ns [] 0) as F. simpl in F. rewrite HN in F. rsimp. rewrite F. ring.
  - intros i Hi. apply in_seq in Hi. apply H. lia.
  - apply vzero_length.
Qed.

Lemma fold_level_length dim m (Ns : list R) (pf : nat -> list R) :
  (forall i, (i < m)%nat -> length (pf i) = dim) ->
  length (fold_left (fun acc i => axpy Rops (nth i Ns (o0 Rops)) (pf i) acc) (seq 0 m) (vzero Rops dim)) = dim.
Proof.
  intro H. apply (fold_axpy_length (fun i => nth i Ns (o0 Rops)) pf dim).
  - intros i Hi. apply in_seq in Hi. apply H. lia.
  - apply vzero_length.
Qed.

Lemma axpy_noop c (pt acc : list R) dim : length acc = dim -> length pt = dim -> c = 0 \/ pt = vzero Rops dim ->
  axpy Rops c pt acc = acc.
Proof.
  intros Ha Hp Hz. unfold axpy. revert pt acc Ha Hp Hz.
  induction dim as [|dim IH]; intros [|b pt] [|a acc] Ha Hp Hz; simpl in *; try discriminate; auto.
  f_equal.
  - rsimp. destruct Hz as [->|E]; [ring|]. unfold vzero in E. simpl in E. inversion E. rsimp. ring.
  - apply IH; try lia. destruct Hz as [Hz|E]; [left; exact Hz|right]. unfold vzero in *. simpl in E. inversion E. reflexivity.
Qed.

(* a level whose coefficients all vanish, or whose points are all the zero vector, returns the zero vector *)
Lemma fold_level_zero dim m (Ns : list R) (pf : nat -> list R) :
  (forall i, (i < m)%nat -> length (pf i) = dim) ->
  allz Ns \/ (forall i, (i < m)%nat -> pf i = vzero Rops dim) ->
  fold_left (fun acc i => axpy Rops (nth i Ns (o0 Rops)) (pf i) acc) (seq 0 m) (vzero Rops dim) = vzero Rops dim.
Proof.
  intros HL Hz.
  assert (G : forall l acc, (forall i, In i l -> (i < m)%nat) -> length acc = dim ->
     fold_left (fun acc i => axpy Rops (nth i Ns (o0 Rops)) (pf i) acc) l acc = acc).
  { induction l as [|x l IH]; intros acc Hin Ha; simpl; auto.
    assert (Hx : (x < m)%nat) by (apply Hin; left; reflexivity).
    rewrite (axpy_noop _ _ _ dim Ha (HL x Hx)).
    - apply IH; [intros i Hi; apply Hin; right; exact Hi|exact Ha].
    - destruct Hz as [Hz|Hz]; [left; rsimp; apply allz_nth; exact Hz|right; apply Hz; exact Hx]. }
  apply G; [intros i Hi; apply in_seq in Hi; lia|apply vzero_length].
Qed.

Lemma pt_at_unit (P : list (list R)) i : (i < length P)%nat ->
  pt_at (to_rational Rops P) i = pt_at P i ++ [1].
Proof.
  intro Hi. rewrite to_rational_map. unfold pt_at.
  rewrite (nth_indep _ [] ([] ++ [1])) by (rewrite map_length; exact Hi).
  apply (map_nth (fun pt => pt ++ [1]) P [] i).
Qed.

(* projecting (x, s): s = 1, or s = 0 and x is the zero vector *)
Lemma project_unit_or_zero (x : list R) s dim : length x = dim ->
  s = 1 \/ (s = 0 /\ x = vzero Rops dim) -> project Rops (x ++ [s]) = x.
Proof.
  intros HL [->|[-> ->]]; [apply project_app1|].
  unfold project. cbv zeta. rewrite last_last, removelast_last. unfold vzero. rsimp.
  clear HL. induction dim as [|dim IH]; simpl; auto. f_equal; [unfold Rdiv; ring|exact IH].
Qed.

(* ------------------------------------------------------------------ curves *)
Lemma curve_point_at_zero dim p (P : list (list R)) span Ns : wf_net P dim -> (p <= span)%nat -> (span < length P)%nat ->
  allz Ns -> curve_point_at Rops dim p P span Ns = vzero Rops dim.
Proof.
  intros Hwf Hp Hs Hz. unfold curve_point_at.
  apply (fold_level_zero dim (S p) Ns (fun i => pt_at P (span - p + i)%nat)); [|left; exact Hz].
  intros i Hi. unfold pt_at. apply Hwf. lia.
Qed.

(* [G] all degrees, all sorted knot vectors (any multiplicities, clamped or not), all nets, EVERY parameter u *)
Theorem unit_weights_curve_all (U : list R) (P : list (list R)) (p dim : nat) (u : R) :
  sortedR U -> (p < length P)%nat -> (length P + p < length U)%nat ->
  (forall i, (i < length P)%nat -> length (nth i P []) = dim) ->
  project Rops (curve_point Rops (S dim) p U (to_rational Rops P) u) = curve_point Rops dim p U P u.
Proof.
  intros Hs Hp HL Hwf. unfold curve_point. cbv zeta.
  assert (EL: length (to_rational Rops P) = length P) by (rewrite to_rational_map; apply map_length). rewrite EL.
  destruct (dir_facts U p (length P) u Hs Hp HL) as (Hk & HN & Hsum). cbv zeta in *.
  set (k := find_span_linear Rops p U (length P) u) in *.
  rewrite curve_point_at_unit; [|exact Hwf|lia|lia|exact HN].
  apply (project_unit_or_zero _ _ dim).
  - apply (curve_point_at_sum dim p P k _ Hwf); lia.
  - destruct Hsum as [H1|Hz]; [left; exact H1|right]. split.
    + clear -Hz. induction Hz; simpl; rsimp; [reflexivity|lra].
    + apply curve_point_at_zero; try assumption; lia.
Qed.

(* the closed domain, in the form of the C09 statement *)
Corollary unit_weights_curve_closed (U : list R) (P : list (list R)) (p dim : nat) (u : R) :
  sortedR U -> (p < length P)%nat -> (length P + p < length U)%nat ->
  (forall i, (i < length P)%nat -> length (nth i P []) = dim) ->
  knR U p <= u <= knR U (length P) ->
  project Rops (curve_point Rops (S dim) p U (to_rational Rops P) u) = curve_point Rops dim p U P u.
Proof. intros Hs Hp HL Hwf _. apply unit_weights_curve_all; assumption. Qed.

Lemma allz_sum l : allz l -> sumT Rops l = 0.
Proof. intro Hz. induction Hz; simpl; rsimp; [reflexivity|lra]. Qed.

(* ------------------------------------------------------------------ surfaces *)
Section Surf.
Variables (dim pu pv su sv : nat) (P : list (list R)) (ku kv : nat) (Nu Nv : list R).
Hypothesis Hwf : wf_net P dim.
Hypothesis HLP : length P = (su * sv)%nat.
Hypothesis Hku : (pu <= ku < su)%nat.
Hypothesis Hkv : (pv <= kv < sv)%nat.
Hypothesis HNu : length Nu = S pu.
Hypothesis HNv : length Nv = S pv.

Let idx (k l : nat) : nat := (kv - pv + l + sv * (ku - pu + k))%nat.
Lemma sidx_lt k l : (k < S pu)%nat -> (l < S pv)%nat -> (idx k l < length P)%nat.
Proof using All. intros Hk Hl. unfold idx. rewrite HLP. nia. Qed.

Let temp (d : nat) (Q : list (list R)) (k : nat) : list R :=
  fold_left (fun tmp l => axpy Rops (nth l Nv (o0 Rops)) (pt_at Q (idx k l)) tmp) (seq 0 (S pv)) (vzero Rops d).

Lemma stemp_len k : (k < S pu)%nat -> length (temp dim P k) = dim.
Proof using All.
  intro Hk. unfold temp. apply (fold_level_length dim (S pv) Nv (fun l => pt_at P (idx k l))).
  intros l Hl. unfold pt_at. apply Hwf. apply sidx_lt; assumption.
Qed.

Lemma stemp_unit k : (k < S pu)%nat -> temp (S dim) (to_rational Rops P) k = temp dim P k ++ [sumT Rops Nv * 1].
Proof using All.
  intro Hk. unfold temp.
  apply (fold_level dim (S pv) Nv (fun l => pt_at (to_rational Rops P) (idx k l)) (fun l => pt_at P (idx k l)) 1 HNv).
  intros l Hl. split; [unfold pt_at; apply Hwf|apply pt_at_unit]; apply sidx_lt; assumption.
Qed.

Lemma surface_point_at_unit :
  surface_point_at Rops (S dim) pu pv sv (to_rational Rops P) ku kv Nu Nv =
  surface_point_at Rops dim pu pv sv P ku kv Nu Nv ++ [sumT Rops Nu * (sumT Rops Nv * 1)].
Proof using All.
  unfold surface_point_at. cbv zeta.
  apply (fold_level dim (S pu) Nu (temp (S dim) (to_rational Rops P)) (temp dim P) (sumT Rops Nv * 1) HNu).
  intros k Hk. split; [apply stemp_len|apply stemp_unit]; exact Hk.
Qed.

Lemma surface_point_at_len : length (surface_point_at Rops dim pu pv sv P ku kv Nu Nv) = dim.
Proof using All.
  unfold surface_point_at. cbv zeta. apply (fold_level_length dim (S pu) Nu (temp dim P)). intros k Hk. apply stemp_len; exact Hk.
Qed.

Lemma surface_point_at_zero : allz Nu \/ allz Nv -> surface_point_at Rops dim pu pv sv P ku kv Nu Nv = vzero Rops dim.
Proof using All.
  intro Hz. unfold surface_point_at. cbv zeta.
  apply (fold_level_zero dim (S pu) Nu (temp dim P)); [intros k Hk; apply stemp_len; exact Hk|].
  destruct Hz as [Hz|Hz]; [left; exact Hz|right]. intros k Hk. unfold temp.
  apply (fold_level_zero dim (S pv) Nv (fun l => pt_at P (idx k l))); [|left; exact Hz].
  intros l Hl. unfold pt_at. apply Hwf. apply sidx_lt; assumption.
Qed.
End Surf.

(* [G] all degrees, sorted knot vectors, well-formed nets (su x sv points of one dimension), EVERY (u, v) *)
Theorem unit_weights_surface_all (Uu Uv : list R) (P : list (list R)) (pu pv su sv dim : nat) (u v : R) :
  sortedR Uu -> sortedR Uv -> wf_net P dim -> length P = (su * sv)%nat ->
  (pu < su)%nat -> (pv < sv)%nat -> (su + pu < length Uu)%nat -> (sv + pv < length Uv)%nat ->
  project Rops (surface_point Rops (S dim) pu pv Uu Uv su sv (to_rational Rops P) u v) = surface_point Rops dim pu pv Uu Uv su sv P u v.
Proof.
  intros Hsu Hsv Hwf HLP Hpu Hpv HLu HLv. unfold surface_point. cbv zeta.
  destruct (dir_facts Uu pu su u Hsu Hpu HLu) as (Hku & HNu & Su).
  destruct (dir_facts Uv pv sv v Hsv Hpv HLv) as (Hkv & HNv & Sv). cbv zeta in *.
  set (ku := find_span_linear Rops pu Uu su u) in *. set (kv := find_span_linear Rops pv Uv sv v) in *.
  rewrite (surface_point_at_unit dim pu pv su sv P ku kv _ _ Hwf HLP Hku Hkv HNu HNv).
  apply (project_unit_or_zero _ _ dim).
  - apply (surface_point_at_len dim pu pv su sv P ku kv _ _ Hwf HLP Hku Hkv HNu HNv).
  - destruct Su as [Su|Zu].
    + destruct Sv as [Sv|Zv].
      * left. rewrite Su, Sv. ring.
      * right. split; [rewrite (allz_sum _ Zv); ring|].
        apply (surface_point_at_zero dim pu pv su sv P ku kv _ _ Hwf HLP Hku Hkv HNu HNv). right; exact Zv.
    + right. split; [rewrite (allz_sum _ Zu); ring|].
      apply (surface_point_at_zero dim pu pv su sv P ku kv _ _ Hwf HLP Hku Hkv HNu HNv). left; exact Zu.
Qed.

(* ------------------------------------------------------------------ volumes *)
Definition volume_point_at (dim pu pv pw su sv : nat) (P : list (list R)) (ku kv kw : nat) (Nu Nv Nw : list R) : list R :=
  fold_left (fun spt du =>
    axpy Rops (nth du Nu (o0 Rops))
      (fold_left (fun t2 dv =>
         axpy Rops (nth dv Nv (o0 Rops))
           (fold_left (fun t dw =>
              axpy Rops (nth dw Nw (o0 Rops))
                (pt_at P (kv - pv + dv + sv * (ku - pu + du + su * (kw - pw + dw)))%nat) t)
              (seq 0 (S pw)) (vzero Rops dim)) t2)
         (seq 0 (S pv)) (vzero Rops dim)) spt)
    (seq 0 (S pu)) (vzero Rops dim).

Lemma volume_point_eq dim pu pv pw Uu Uv Uw su sv sw (P : list (list R)) u v w :
  volume_point Rops dim pu pv pw Uu Uv Uw su sv sw P u v w =
  volume_point_at dim pu pv pw su sv P
    (find_span_linear Rops pu Uu su u) (find_span_linear Rops pv Uv sv v) (find_span_linear Rops pw Uw sw w)
    (basis_function Rops pu Uu (find_span_linear Rops pu Uu su u) u)
    (basis_function Rops pv Uv (find_span_linear Rops pv Uv sv v) v)
    (basis_function Rops pw Uw (find_span_linear Rops pw Uw sw w) w).
Proof. reflexivity. Qed.

Section Vol.
Variables (dim pu pv pw su sv sw : nat) (P : list (list R)) (ku kv kw : nat) (Nu Nv Nw : list R).
Hypothesis Hwf : wf_net P dim.
Hypothesis HLP : length P = (su * sv * sw)%nat.
Hypothesis Hku : (pu <= ku < su)%nat.
Hypothesis Hkv : (pv <= kv < sv)%nat.
Hypothesis Hkw : (pw <= kw < sw)%nat.
Hypothesis HNu : length Nu = S pu.
Hypothesis HNv : length Nv = S pv.
Hypothesis HNw : length Nw = S pw.

Let idx (du dv dw : nat) : nat := (kv - pv + dv + sv * (ku - pu + du + su * (kw - pw + dw)))%nat.
Lemma vidx_lt du dv dw : (du < S pu)%nat -> (dv < S pv)%nat -> (dw < S pw)%nat -> (idx du dv dw < length P)%nat.
Proof using All.
  intros Hdu Hdv Hdw. unfold idx. rewrite HLP.
  set (a := (kv - pv + dv)%nat). set (b := (ku - pu + du)%nat). set (c := (kw - pw + dw)%nat).
  assert (Ha : (a < sv)%nat) by (unfold a; lia). assert (Hb : (b < su)%nat) by (unfold b; lia). assert (Hc : (c < sw)%nat) by (unfold c; lia).
  assert (Hx : (b + su * c + 1 <= su * sw)%nat) by nia.
  assert (Hy : (sv * (b + su * c + 1) <= sv * (su * sw))%nat) by (apply Nat.mul_le_mono_l; exact Hx).
  lia.
Qed.

Let t1 (d : nat) (Q : list (list R)) (du dv : nat) : list R :=
  fold_left (fun t dw => axpy Rops (nth dw Nw (o0 Rops)) (pt_at Q (idx du dv dw)) t) (seq 0 (S pw)) (vzero Rops d).
Let t2 (d : nat) (Q : list (list R)) (du : nat) : list R :=
  fold_left (fun t dv => axpy Rops (nth dv Nv (o0 Rops)) (t1 d Q du dv) t) (seq 0 (S pv)) (vzero Rops d).

Lemma vt1_len du dv : (du < S pu)%nat -> (dv < S pv)%nat -> length (t1 dim P du dv) = dim.
Proof using All.
  intros Hdu Hdv. unfold t1. apply (fold_level_length dim (S pw) Nw (fun dw => pt_at P (idx du dv dw))).
  intros dw Hdw. unfold pt_at. apply Hwf. apply vidx_lt; assumption.
Qed.
Lemma vt1_unit du dv : (du < S pu)%nat -> (dv < S pv)%nat ->
  t1 (S dim) (to_rational Rops P) du dv = t1 dim P du dv ++ [sumT Rops Nw * 1].
Proof using All.
  intros Hdu Hdv. unfold t1.
  apply (fold_level dim (S pw) Nw (fun dw => pt_at (to_rational Rops P) (idx du dv dw)) (fun dw => pt_at P (idx du dv dw)) 1 HNw).
  intros dw Hdw. split; [unfold pt_at; apply Hwf|apply pt_at_unit]; apply vidx_lt; assumption.
Qed.
Lemma vt2_len du : (du < S pu)%nat -> length (t2 dim P du) = dim.
Proof using All.
  intros Hdu. unfold t2. apply (fold_level_length dim (S pv) Nv (t1 dim P du)). intros dv Hdv. apply vt1_len; assumption.
Qed.
Lemma vt2_unit du : (du < S pu)%nat ->
  t2 (S dim) (to_rational Rops P) du = t2 dim P du ++ [sumT Rops Nv * (sumT Rops Nw * 1)].
Proof using All.
  intros Hdu. unfold t2.
  apply (fold_level dim (S pv) Nv (t1 (S dim) (to_rational Rops P) du) (t1 dim P du) (sumT Rops Nw * 1) HNv).
  intros dv Hdv. split; [apply vt1_len|apply vt1_unit]; assumption.
Qed.

Lemma volume_point_at_unit :
  volume_point_at (S dim) pu pv pw su sv (to_rational Rops P) ku kv kw Nu Nv Nw =
  volume_point_at dim pu pv pw su sv P ku kv kw Nu Nv Nw ++ [sumT Rops Nu * (sumT Rops Nv * (sumT Rops Nw * 1))].
Proof using All.
  unfold volume_point_at.
  apply (fold_level dim (S pu) Nu (t2 (S dim) (to_rational Rops P)) (t2 dim P) (sumT Rops Nv * (sumT Rops Nw * 1)) HNu).
  intros du Hdu. split; [apply vt2_len|apply vt2_unit]; exact Hdu.
Qed.

Lemma volume_point_at_len : length (volume_point_at dim pu pv pw su sv P ku kv kw Nu Nv Nw) = dim.
Proof using All.
  unfold volume_point_at. apply (fold_level_length dim (S pu) Nu (t2 dim P)). intros du Hdu. apply vt2_len; exact Hdu.
Qed.

Lemma volume_point_at_zero : allz Nu \/ allz Nv \/ allz Nw ->
  volume_point_at dim pu pv pw su sv P ku kv kw Nu Nv Nw = vzero Rops dim.
Proof using All.
  intro Hz. unfold volume_point_at.
  apply (fold_level_zero dim (S pu) Nu (t2 dim P)); [intros du Hdu; apply vt2_len; exact Hdu|].
  destruct Hz as [Hz|Hz]; [left; exact Hz|right]. intros du Hdu. unfold t2.
  apply (fold_level_zero dim (S pv) Nv (t1 dim P du)); [intros dv Hdv; apply vt1_len; assumption|].
  destruct Hz as [Hz|Hz]; [left; exact Hz|right]. intros dv Hdv. unfold t1.
  apply (fold_level_zero dim (S pw) Nw (fun dw => pt_at P (idx du dv dw))); [|left; exact Hz].
  intros dw Hdw. unfold pt_at. apply Hwf. apply vidx_lt; assumption.
Qed.
End Vol.

(* [G] all degrees, sorted knot vectors, well-formed nets (su x sv x sw points of one dimension), EVERY (u, v, w) *)
Theorem unit_weights_volume_all (Uu Uv Uw : list R) (P : list (list R)) (pu pv pw su sv sw dim : nat) (u v w : R) :
  sortedR Uu -> sortedR Uv -> sortedR Uw -> wf_net P dim -> length P = (su * sv * sw)%nat ->
  (pu < su)%nat -> (pv < sv)%nat -> (pw < sw)%nat ->
  (su + pu < length Uu)%nat -> (sv + pv < length Uv)%nat -> (sw + pw < length Uw)%nat ->
  project Rops (volume_point Rops (S dim) pu pv pw Uu Uv Uw su sv sw (to_rational Rops P) u v w) =
  volume_point Rops dim pu pv pw Uu Uv Uw su sv sw P u v w.
Proof.
  intros Hsu Hsv Hsw Hwf HLP Hpu Hpv Hpw HLu HLv HLw. rewrite !volume_point_eq.
  destruct (dir_facts Uu pu su u Hsu Hpu HLu) as (Hku & HNu & Su).
  destruct (dir_facts Uv pv sv v Hsv Hpv HLv) as (Hkv & HNv & Sv).
  destruct (dir_facts Uw pw sw w Hsw Hpw HLw) as (Hkw & HNw & Sw). cbv zeta in *.
  set (ku := find_span_linear Rops pu Uu su u) in *. set (kv := find_span_linear Rops pv Uv sv v) in *.
  set (kw := find_span_linear Rops pw Uw sw w) in *.
  rewrite (volume_point_at_unit dim pu pv pw su sv sw P ku kv kw _ _ _ Hwf HLP Hku Hkv Hkw HNu HNv HNw).
  apply (project_unit_or_zero _ _ dim).
  - apply (volume_point_at_len dim pu pv pw su sv sw P ku kv kw _ _ _ Hwf HLP Hku Hkv Hkw HNu HNv HNw).
  - destruct Su as [Su|Zu]; [destruct Sv as [Sv|Zv]; [destruct Sw as [Sw|Zw]|]|].
    + left. rewrite Su, Sv, Sw. ring.
    + right. split; [rewrite (allz_sum _ Zw); ring|].
      apply (volume_point_at_zero dim pu pv pw su sv sw P ku kv kw _ _ _ Hwf HLP Hku Hkv Hkw HNu HNv HNw). right; right; exact Zw.
    + right. split; [rewrite (allz_sum _ Zv); ring|].
      apply (volume_point_at_zero dim pu pv pw su sv sw P ku kv kw _ _ _ Hwf HLP Hku Hkv Hkw HNu HNv HNw). right; left; exact Zv.
    + right. split; [rewrite (allz_sum _ Zu); ring|].
      apply (volume_point_at_zero dim pu pv pw su sv sw P ku kv kw _ _ _ Hwf HLP Hku Hkv Hkw HNu HNv HNw). left; exact Zu.
Qed.

(* ------------------------------------------------------------------ the object-level reading: bspline_to_nurbs
   keeps degrees, knot vectors and sizes, sets rational = true and installs the unit-weight net *)
Theorem unit_weights_obj_curve (U : list R) (P : list (list R)) (p dim : nat) (u : R) :
  sortedR U -> (p < length P)%nat -> (length P + p < length U)%nat -> wf_net P dim ->
  obj_curve_point Rops true dim p U (to_rational Rops P) u = obj_curve_point Rops false dim p U P u.
Proof. intros. unfold obj_curve_point. apply unit_weights_curve_all; assumption. Qed.

Theorem unit_weights_obj_surface (Uu Uv : list R) (P : list (list R)) (pu pv su sv dim : nat) (uv : R * R) :
  sortedR Uu -> sortedR Uv -> wf_net P dim -> length P = (su * sv)%nat ->
  (pu < su)%nat -> (pv < sv)%nat -> (su + pu < length Uu)%nat -> (sv + pv < length Uv)%nat ->
  obj_surface_point Rops true dim pu pv Uu Uv su sv (to_rational Rops P) uv = obj_surface_point Rops false dim pu pv Uu Uv su sv P uv.
Proof. intros. unfold obj_surface_point. apply unit_weights_surface_all; assumption. Qed.

Theorem unit_weights_obj_volume (Uu Uv Uw : list R) (P : list (list R)) (pu pv pw su sv sw dim : nat) (uvw : R * R * R) :
  sortedR Uu -> sortedR Uv -> sortedR Uw -> wf_net P dim -> length P = (su * sv * sw)%nat ->
  (pu < su)%nat -> (pv < sv)%nat -> (pw < sw)%nat ->
  (su + pu < length Uu)%nat -> (sv + pv < length Uv)%nat -> (sw + pw < length Uw)%nat ->
  obj_volume_point Rops true dim pu pv pw Uu Uv Uw su sv sw (to_rational Rops P) uvw = obj_volume_point Rops false dim pu pv pw Uu Uv Uw su sv sw P uvw.
Proof. intros. unfold obj_volume_point. destruct uvw as [[u v] w]. apply unit_weights_volume_all; assumption. Qed.

Print Assumptions unit_weights_curve_all.
Print Assumptions unit_weights_surface_all.
Print Assumptions unit_weights_volume_all.

(* ------------------------------------------------------------------ the "full" statement of Props/C09.v
   Its curve half is unit_weights_curve_closed.  Its surface half has no hypotheses at all and is false as written:
   on a ragged net (points of different lengths; Python's zip truncation) the two evaluations differ. *)
Theorem unit_weights_surface_unconditional_refuted :
  ~ (forall dim pu pv Uu Uv su sv (P : list (list R)) u v,
     project Rops (surface_point Rops (S dim) pu pv Uu Uv su sv (to_rational Rops P) u v) = surface_point Rops dim pu pv Uu Uv su sv P u v).
Proof.
  intro H. specialize (H 1%nat 1%nat 0%nat [0;0;1;1] [0;1] 2%nat 1%nat [[1];[1;5]] (1/2) 0).
  rewrite to_rational_map in H.
  cbn -[Rdiv Rmult Rplus Rminus Rinv IZR Rops] in H. rsimp.
  unfold Basis.right, Basis.left, kn in H. cbn [nth Nat.add Nat.sub] in H. rsimp.
  apply (f_equal (fun l => nth 0 l 0)) in H; cbn [nth] in H.
  replace (1 - 1 / 2 + (1 / 2 - 0)) with 1 in H by lra.
  replace (1/1) with 1 in H by lra. rewrite !Rmult_1_r, !Rplus_0_l in H.
  replace (1 - 1 / 2 + (1 / 2 - 0)) with 1 in H by lra.
  replace (1 - 1 / 2 + (1 / 2 - 0) * 5) with 3 in H by lra. lra.
Qed.

(* the full statement with the well-formedness hypotheses a geomdl object satisfies, all three kinds of shape,
   closed domains (in fact every parameter value) *)
Definition unit_weights_same_shape_wf : Prop :=
  (forall (U : list R) (P : list (list R)) (p dim : nat) (u : R),
     sortedR U -> (p < length P)%nat -> (length P + p < length U)%nat ->
     (forall i, (i < length P)%nat -> length (nth i P []) = dim) -> (knR U p <= u <= knR U (length P))%R ->
     project Rops (curve_point Rops (S dim) p U (to_rational Rops P) u) = curve_point Rops dim p U P u) /\
  (forall (Uu Uv : list R) (P : list (list R)) (pu pv su sv dim : nat) (u v : R),
     sortedR Uu -> sortedR Uv -> (forall i, (i < length P)%nat -> length (nth i P []) = dim) -> length P = (su * sv)%nat ->
     (pu < su)%nat -> (pv < sv)%nat -> (su + pu < length Uu)%nat -> (sv + pv < length Uv)%nat ->
     (knR Uu pu <= u <= knR Uu su)%R -> (knR Uv pv <= v <= knR Uv sv)%R ->
     project Rops (surface_point Rops (S dim) pu pv Uu Uv su sv (to_rational Rops P) u v) = surface_point Rops dim pu pv Uu Uv su sv P u v) /\
  (forall (Uu Uv Uw : list R) (P : list (list R)) (pu pv pw su sv sw dim : nat) (u v w : R),
     sortedR Uu -> sortedR Uv -> sortedR Uw -> (forall i, (i < length P)%nat -> length (nth i P []) = dim) -> length P = (su * sv * sw)%nat ->
     (pu < su)%nat -> (pv < sv)%nat -> (pw < sw)%nat ->
     (su + pu < length Uu)%nat -> (sv + pv < length Uv)%nat -> (sw + pw < length Uw)%nat ->
     (knR Uu pu <= u <= knR Uu su)%R -> (knR Uv pv <= v <= knR Uv sv)%R -> (knR Uw pw <= w <= knR Uw sw)%R ->
     project Rops (volume_point Rops (S dim) pu pv pw Uu Uv Uw su sv sw (to_rational Rops P) u v w) =
     volume_point Rops dim pu pv pw Uu Uv Uw su sv sw P u v w).
Theorem unit_weights_same_shape_wf_holds : unit_weights_same_shape_wf.
Proof.
  split; [|split]; intros.
  - apply unit_weights_curve_all; assumption.
  - apply unit_weights_surface_all; assumption.
  - apply unit_weights_volume_all; assumption.
Qed.
Print Assumptions unit_weights_surface_unconditional_refuted.
Print Assumptions unit_weights_same_shape_wf_holds.
