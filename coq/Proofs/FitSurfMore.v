(* C11 completion.
   (a) interpolate_surface: the in-range-span hypotheses of C11_interpolate_surface_conditions are discharged
       (the span search always answers inside [p, n-1]), the averaged surface parameters are analysed
       (0 = first <= ... <= last = 1, so both averaged knot vectors are valid clamped knot vectors), and the whole
       chain from the chords is stated with the non-zero pivots as the only hypothesis that is not about the input.
   (b) approximate_surface: the two least-squares passes compose; each keeps the end points, so the four corner
       control points are the four corner data points and the fitted surface passes through the corner data.
   New file; nothing existing is modified. *)
From Coq Require Import List Reals Lra Lia Arith Bool.
From NV Require Import Scalar.Ops Model.Common Model.Basis Model.Knots Model.Eval Model.LinAlg Model.Fit
  Proofs.Boehm Proofs.BasisR Proofs.KnotsR Proofs.EvalR Proofs.LinAlgSums Proofs.LinAlgR Proofs.LinAlgSolve Proofs.FitR Proofs.FitSurfR.
Import ListNotations.
Open Scope R_scope.

(* ------------------------------------------------------------------ (a) spans are always in range *)
Lemma span_in_range (U : list R) p n u : (p < n)%nat -> (n < length U)%nat ->
  (p <= find_span_linear Rops p U n u < n)%nat.
Proof.
  intros Hp HL. unfold find_span_linear.
  destruct (aux_spec U u p n Hp HL n (S p) ltac:(lia) ltac:(lia)) as [H _]; [intros; lia|]. cbv zeta in H. lia.
Qed.

Lemma ckv_length p n (uk : list R) : (p < n)%nat -> length (compute_knot_vector Rops p n uk) = (n + p + 1)%nat.
Proof. intro H. unfold compute_knot_vector. rewrite !app_length, !repeat_length, map_length, seq_length. lia. Qed.

Lemma ckv_spans p n (uk : list R) u : (p < n)%nat ->
  (p <= find_span_linear Rops p (compute_knot_vector Rops p n uk) n u < n)%nat.
Proof. intro H. apply span_in_range; [exact H|rewrite ckv_length by exact H; lia]. Qed.

(* [G given pivots] C11_interpolate_surface_conditions without its two span hypotheses *)
Theorem interpolate_surface_conditions_pivots
  (pts : list (list R)) (su sv pu pv dim : nat) (cdsU cdsV : list (list R)) (uk vl : list R) :
  (pu < su)%nat -> (pv < sv)%nat -> rect (su * sv) dim pts ->
  compute_params_surface Rops su sv cdsU cdsV = Ok (uk, vl) ->
  let kvu := compute_knot_vector Rops pu su uk in let kvv := compute_knot_vector Rops pv sv vl in
  (forall i, (i < su)%nat -> g2 (snd (doolittle Rops (build_coeff_matrix Rops pu kvu uk su))) i i <> 0) ->
  (forall i, (i < sv)%nat -> g2 (snd (doolittle Rops (build_coeff_matrix Rops pv kvv vl sv))) i i <> 0) ->
  exists P, interpolate_surface Rops pts su sv pu pv cdsU cdsV = Ok (P, kvu, kvv) /\ length P = (su * sv)%nat /\
    forall u v d, (u < su)%nat -> (v < sv)%nat -> (d < dim)%nat ->
      nth d (surface_point Rops dim pu pv kvu kvv su sv P (nth u uk 0) (nth v vl 0)) 0 = g2 pts (v + sv * u) d.
Proof.
  intros Hpu Hpv Hpts Hpar kvu kvv HpU HpV.
  destruct (interp_surface_core_conditions pu pv su sv dim kvu kvv uk vl pts ltac:(lia) ltac:(lia) Hpts) as (P & EP & LP & HP);
    try assumption.
  { intros i _. apply ckv_spans. exact Hpu. }
  { intros i _. apply ckv_spans. exact Hpv. }
  exists P. split; [|split; [exact LP|exact HP]].
  unfold interpolate_surface. rewrite Hpar. cbn [res_bind fst snd]. fold kvu. fold kvv. rewrite EP. reflexivity.
Qed.

(* ------------------------------------------------------------------ (a) the averaged surface parameters *)
(* a parameter list of a curve through n points: n values, first 0, last 1, non-decreasing *)
Definition pspec (n : nat) (p : list R) : Prop :=
  length p = n /\ nth 0 p 0 = 0 /\ nth (n - 1) p 0 = 1 /\ forall i, (S i < n)%nat -> nth i p 0 <= nth (S i) p 0.
Definition pstrict (n : nat) (p : list R) : Prop := forall i, (S i < n)%nat -> nth i p 0 < nth (S i) p 0.

Lemma res_all_inv {A} (l : list (res A)) : forall r, res_all l = Ok r -> Forall2 (fun x y => x = Ok y) l r.
Proof.
  induction l as [|x l IH]; intros r H; cbn [res_all] in H.
  - injection H as <-. constructor.
  - destruct x as [a| |]; cbn [res_bind] in H; try discriminate.
    destruct (res_all l) as [t| |]; cbn [res_map] in H; try discriminate.
    injection H as <-. constructor; [reflexivity|apply IH; reflexivity].
Qed.
Lemma res_all_ok_exists {A} (l : list (res A)) : (forall x, In x l -> exists a, x = Ok a) -> exists r, res_all l = Ok r.
Proof.
  induction l as [|x l IH]; intros H; [exists []; reflexivity|].
  destruct (H x ltac:(left; reflexivity)) as [a ->]. destruct IH as [t Ht]; [intros y Hy; apply H; right; exact Hy|].
  exists (a :: t). cbn [res_all res_bind]. rewrite Ht. reflexivity.
Qed.

Lemma sumT_map_le {A} (f g : A -> R) (l : list A) : (forall x, In x l -> f x <= g x) ->
  sumT Rops (map f l) <= sumT Rops (map g l).
Proof.
  induction l as [|x l IH]; intro H; cbn [map sumT]; rsimp; [lra|].
  assert (f x <= g x) by (apply H; left; reflexivity).
  assert (sumT Rops (map f l) <= sumT Rops (map g l)) by (apply IH; intros; apply H; right; assumption). lra.
Qed.
Lemma sumT_map_lt {A} (f g : A -> R) (l : list A) : l <> [] -> (forall x, In x l -> f x < g x) ->
  sumT Rops (map f l) < sumT Rops (map g l).
Proof.
  intros Hne H. destruct l as [|x l]; [contradiction|]. cbn [map sumT]. rsimp.
  assert (f x < g x) by (apply H; left; reflexivity).
  assert (sumT Rops (map f l) <= sumT Rops (map g l)) by (apply sumT_map_le; intros; left; apply H; right; assumption). lra.
Qed.
Lemma sumT_map_const {A} (c : R) (f : A -> R) (l : list A) : (forall x, In x l -> f x = c) ->
  sumT Rops (map f l) = INR (length l) * c.
Proof.
  induction l as [|x l IH]; intro H; [cbn; rsimp; lra|].
  change (length (x :: l)) with (S (length l)). rewrite S_INR. cbn [map sumT]. rsimp.
  rewrite IH by (intros; apply H; right; assumption). rewrite (H x) by (left; reflexivity). lra.
Qed.

Section Avg.
Variables (n : nat) (ps : list (list R)).
Hypothesis Hne : ps <> [].
Hypothesis Hn : (1 <= n)%nat.
Hypothesis Hps : forall p, In p ps -> pspec n p.

Lemma avg_m_pos : 0 < INR (length ps).
Proof. apply lt_0_INR. destruct ps; [contradiction|cbn; lia]. Qed.
Lemma avg_nth k : (k < n)%nat -> nth k (avg_params Rops n ps) 0 = sumT Rops (map (fun p => nth k p 0) ps) / INR (length ps).
Proof. intro Hk. unfold avg_params. rewrite nth_map_seq by exact Hk. rewrite ofnat_INR. reflexivity. Qed.

(* [G] averaging parameter lists keeps: length, first 0, last 1, non-decreasing (and strictly increasing) *)
Lemma avg_params_spec : pspec n (avg_params Rops n ps).
Proof.
  pose proof avg_m_pos as Hm. split; [unfold avg_params; rewrite map_length, seq_length; reflexivity|]. split; [|split].
  - rewrite avg_nth by lia. rewrite (sumT_map_const 0) by (intros p Hp; apply (Hps p Hp)). unfold Rdiv. ring.
  - rewrite avg_nth by lia. rewrite (sumT_map_const 1) by (intros p Hp; apply (Hps p Hp)). field. lra.
  - intros i Hi. rewrite !avg_nth by lia. unfold Rdiv. apply Rmult_le_compat_r; [left; apply Rinv_0_lt_compat; exact Hm|].
    apply sumT_map_le. intros p Hp. apply (Hps p Hp). exact Hi.
Qed.
Lemma avg_params_strict : (forall p, In p ps -> pstrict n p) -> pstrict n (avg_params Rops n ps).
Proof.
  intros Hst i Hi. pose proof avg_m_pos as Hm. rewrite !avg_nth by lia. unfold Rdiv.
  apply Rmult_lt_compat_r; [apply Rinv_0_lt_compat; exact Hm|].
  apply sumT_map_lt; [exact Hne|]. intros p Hp. apply (Hst p Hp). exact Hi.
Qed.
End Avg.

(* chords of one point row: n - 1 non-negative numbers with positive sum *)
Definition chords_ok (n : nat) (cds : list R) : Prop :=
  length cds = (n - 1)%nat /\ (forall x, In x cds -> 0 <= x) /\ 0 < sumT Rops cds.

Lemma curve_params_pspec n cds : (1 <= n)%nat -> chords_ok n cds ->
  exists uk, compute_params_curve Rops cds = Ok uk /\ pspec n uk /\ ((forall x, In x cds -> 0 < x) -> pstrict n uk).
Proof.
  intros Hn (HL & Hpos & Hsum).
  destruct (params_spec cds Hpos Hsum) as (uk & E & L & U0 & U1 & Um & Us & _).
  exists uk. split; [exact E|]. replace (length cds) with (n - 1)%nat in * by lia.
  split; [|intros Hst i Hi; apply Us; [exact Hst|lia]].
  split; [lia|]. split; [exact U0|]. split; [exact U1|]. intros i Hi. apply Um. lia.
Qed.

Lemma all_params_pspec n (cdss : list (list R)) : (1 <= n)%nat -> (forall cds, In cds cdss -> chords_ok n cds) ->
  exists ps, res_all (map (compute_params_curve Rops) cdss) = Ok ps /\ length ps = length cdss /\
    (forall p, In p ps -> pspec n p) /\
    ((forall cds, In cds cdss -> forall x, In x cds -> 0 < x) -> forall p, In p ps -> pstrict n p).
Proof.
  intros Hn. induction cdss as [|cds cdss IH]; intros H.
  - exists []. repeat split; try reflexivity; intros; contradiction.
  - destruct (curve_params_pspec n cds Hn (H cds ltac:(left; reflexivity))) as (uk & E & S1 & S2).
    destruct IH as (ps & Eps & Lps & P1 & P2); [intros c Hc; apply H; right; exact Hc|].
    exists (uk :: ps). cbn [map res_all]. rewrite E. cbn [res_bind]. rewrite Eps. cbn [res_map].
    split; [reflexivity|]. split; [cbn; lia|]. split.
    + intros p [<-|Hp]; [exact S1|apply P1; exact Hp].
    + intros Hst p [<-|Hp].
      * apply S2. apply (Hst cds). left; reflexivity.
      * apply P2; [|exact Hp]. intros c Hc. apply Hst. right; exact Hc.
Qed.

(* [G] compute_params_surface succeeds on chords >= 0 with positive sums, and both averaged parameter lists
   start at 0, end at 1 and are non-decreasing (strictly increasing when every chord is positive) *)
Theorem params_surface_spec (su sv : nat) (cdsU cdsV : list (list R)) :
  (1 <= su)%nat -> (1 <= sv)%nat -> cdsU <> [] -> cdsV <> [] ->
  (forall cds, In cds cdsU -> chords_ok su cds) -> (forall cds, In cds cdsV -> chords_ok sv cds) ->
  exists uk vl, compute_params_surface Rops su sv cdsU cdsV = Ok (uk, vl) /\ pspec su uk /\ pspec sv vl /\
    ((forall cds, In cds cdsU -> forall x, In x cds -> 0 < x) -> pstrict su uk) /\
    ((forall cds, In cds cdsV -> forall x, In x cds -> 0 < x) -> pstrict sv vl).
Proof.
  intros Hsu Hsv HneU HneV HU HV.
  destruct (all_params_pspec su cdsU Hsu HU) as (psU & EU & LU & PU & SU).
  destruct (all_params_pspec sv cdsV Hsv HV) as (psV & EV & LV & PV & SV).
  assert (NU : psU <> []) by (intro E; rewrite E in LU; destruct cdsU; [contradiction|discriminate]).
  assert (NV : psV <> []) by (intro E; rewrite E in LV; destruct cdsV; [contradiction|discriminate]).
  exists (avg_params Rops su psU), (avg_params Rops sv psV).
  split; [unfold compute_params_surface; rewrite EU; cbn [res_bind]; rewrite EV; reflexivity|].
  split; [apply avg_params_spec; assumption|]. split; [apply avg_params_spec; assumption|]. split.
  - intro Hst. apply avg_params_strict; try assumption. apply SU. exact Hst.
  - intro Hst. apply avg_params_strict; try assumption. apply SV. exact Hst.
Qed.

Lemma pspec_mono n p i j : pspec n p -> (i <= j < n)%nat -> nth i p 0 <= nth j p 0.
Proof.
  intros (L & P0 & P1 & Pm) [Hij Hj]. induction j as [|j IH]; [replace i with 0%nat by lia; lra|].
  destruct (Nat.eq_dec i (S j)) as [->|Hne]; [lra|].
  apply Rle_trans with (nth j p 0); [apply IH; lia|apply Pm; lia].
Qed.
Lemma pspec_range n p i : pspec n p -> (i < n)%nat -> 0 <= nth i p 0 <= 1.
Proof.
  intros S Hi. pose proof (pspec_mono n p 0 i S ltac:(lia)) as A. pose proof (pspec_mono n p i (n - 1) S ltac:(lia)) as B.
  destruct S as (L & P0 & P1 & Pm). rewrite P0 in A. rewrite P1 in B. lra.
Qed.

(* [G given pivots] interpolate_surface from the chords.  The only hypothesis that is not a condition on the input
   is the absence of zero pivots in the two collocation matrices. *)
Definition interpolate_surface_conditions_full : Prop :=
  forall (pts : list (list R)) (su sv pu pv dim : nat) (cdsU cdsV : list (list R)),
  (1 <= pu < su)%nat -> (1 <= pv < sv)%nat -> rect (su * sv) dim pts -> cdsU <> [] -> cdsV <> [] ->
  (forall cds, In cds cdsU -> chords_ok su cds) -> (forall cds, In cds cdsV -> chords_ok sv cds) ->
  (forall uk vl, compute_params_surface Rops su sv cdsU cdsV = Ok (uk, vl) ->
     (forall i, (i < su)%nat -> g2 (snd (doolittle Rops (build_coeff_matrix Rops pu (compute_knot_vector Rops pu su uk) uk su))) i i <> 0) /\
     (forall i, (i < sv)%nat -> g2 (snd (doolittle Rops (build_coeff_matrix Rops pv (compute_knot_vector Rops pv sv vl) vl sv))) i i <> 0)) ->
  exists uk vl P, compute_params_surface Rops su sv cdsU cdsV = Ok (uk, vl) /\
    let kvu := compute_knot_vector Rops pu su uk in let kvv := compute_knot_vector Rops pv sv vl in
    interpolate_surface Rops pts su sv pu pv cdsU cdsV = Ok (P, kvu, kvv) /\ length P = (su * sv)%nat /\
    pspec su uk /\ pspec sv vl /\
    (forall i, (i < su)%nat -> 0 <= nth i uk 0 <= 1) /\ (forall i, (i < sv)%nat -> 0 <= nth i vl 0 <= 1) /\
    check Rops pu kvu su = Ok true /\ check Rops pv kvv sv = Ok true /\
    forall u v d, (u < su)%nat -> (v < sv)%nat -> (d < dim)%nat ->
      nth d (surface_point Rops dim pu pv kvu kvv su sv P (nth u uk 0) (nth v vl 0)) 0 = g2 pts (v + sv * u) d.

Theorem interpolate_surface_from_chords : interpolate_surface_conditions_full.
Proof.
  intros pts su sv pu pv dim cdsU cdsV Hpu Hpv Hpts HneU HneV HU HV Hpiv.
  destruct (params_surface_spec su sv cdsU cdsV ltac:(lia) ltac:(lia) HneU HneV HU HV) as (uk & vl & Epar & SU & SV & _ & _).
  destruct (Hpiv uk vl Epar) as [PU PV].
  destruct (interpolate_surface_conditions_pivots pts su sv pu pv dim cdsU cdsV uk vl ltac:(lia) ltac:(lia) Hpts Epar PU PV) as (P & EP & LP & HP).
  exists uk, vl, P. split; [exact Epar|]. cbv zeta. split; [exact EP|]. split; [exact LP|]. split; [exact SU|]. split; [exact SV|].
  split; [intros i Hi; apply (pspec_range su); assumption|]. split; [intros i Hi; apply (pspec_range sv); assumption|].
  destruct SU as (LU & U0 & U1 & Um). destruct SV as (LV & V0 & V1 & Vm).
  split; [apply (averaged_knots_valid pu su uk Hpu LU U0 U1 Um)|].
  split; [apply (averaged_knots_valid pv sv vl Hpv LV V0 V1 Vm)|]. exact HP.
Qed.
Print Assumptions interpolate_surface_conditions_pivots.
Print Assumptions interpolate_surface_from_chords.

(* ------------------------------------------------------------------ (b) A2.2 and the span search at the two ends of a clamped knot vector *)
Lemma inner_zeros U span u j : forall m r, Basis.inner Rops U span u j r (repeat 0 m) 0 = repeat 0 (S m).
Proof.
  induction m as [|m IH]; intro r; [reflexivity|].
  change (repeat 0 (S m)) with (0 :: repeat 0 m). cbn [Basis.inner]. rsimp.
  change (repeat 0 (S (S m))) with (0 :: repeat 0 (S m)). f_equal; [unfold Rdiv; ring|].
  replace (Basis.left Rops U span u (j - r) * (0 / (Basis.right Rops U span u (S r) + Basis.left Rops U span u (j - r)))) with 0 by (unfold Rdiv; ring).
  apply IH.
Qed.

Lemma bf_left_end U s u : forall q, (forall k, (1 <= k <= q)%nat -> Basis.left Rops U s u k = 0) -> Basis.right Rops U s u 1 <> 0 ->
  basis_function Rops q U s u = 1 :: repeat 0 q.
Proof.
  induction q as [|q IH]; intros HL HR; [reflexivity|]. cbn [basis_function]. rewrite IH by (try assumption; intros; apply HL; lia).
  cbn [Basis.inner]. rewrite Nat.sub_0_r. rewrite (HL (S q)) by lia. rsimp.
  change (repeat 0 (S q)) with (0 :: repeat 0 q). f_equal; [rewrite Rplus_0_r; field; exact HR|].
  replace (0 * (1 / (Basis.right Rops U s u 1 + 0))) with 0 by (unfold Rdiv; ring).
  apply (inner_zeros U s u (S q) q 1).
Qed.

Lemma inner_zeros_one U span u j : forall m r,
  Basis.right Rops U span u (S (r + m)) = 0 -> Basis.left Rops U span u (j - (r + m)) <> 0 ->
  Basis.inner Rops U span u j r (repeat 0 m ++ [1]) 0 = repeat 0 (S m) ++ [1].
Proof.
  induction m as [|m IH]; intros r HR HL.
  - rewrite Nat.add_0_r in *. cbn [repeat app Basis.inner]. rewrite HR. rsimp. f_equal; [ring|]. f_equal. field. exact HL.
  - change (repeat 0 (S m) ++ [1]) with (0 :: (repeat 0 m ++ [1])). cbn [Basis.inner]. rsimp.
    change (repeat 0 (S (S m)) ++ [1]) with (0 :: (repeat 0 (S m) ++ [1])). f_equal; [unfold Rdiv; ring|].
    replace (Basis.left Rops U span u (j - r) * (0 / (Basis.right Rops U span u (S r) + Basis.left Rops U span u (j - r)))) with 0 by (unfold Rdiv; ring).
    apply IH; [replace (S r + m)%nat with (r + S m)%nat by lia; exact HR|replace (S r + m)%nat with (r + S m)%nat by lia; exact HL].
Qed.

Lemma bf_right_end U s u : forall q, (forall k, (1 <= k <= q)%nat -> Basis.right Rops U s u k = 0) -> Basis.left Rops U s u 1 <> 0 ->
  basis_function Rops q U s u = repeat 0 q ++ [1].
Proof.
  induction q as [|q IH]; intros HR HL; [reflexivity|]. cbn [basis_function]. rewrite IH by (try assumption; intros; apply HR; lia).
  apply inner_zeros_one; cbn [Nat.add]; [apply HR; lia|replace (S q - q)%nat with 1%nat by lia; exact HL].
Qed.

Lemma span_left_end (U : list R) p n u : (p < n)%nat -> ((S p < n)%nat -> u < knR U (S p)) -> find_span_linear Rops p U n u = p.
Proof.
  intros Hp Hu. unfold find_span_linear. destruct n as [|n]; [lia|]. cbn [find_span_linear_aux].
  destruct (Nat.ltb_spec (S p) (S n)) as [H|H]; cbn [andb]; [|reflexivity].
  rsimp. unfold Rleb. destruct (Rle_dec (knR U (S p)) u) as [H'|H']; [specialize (Hu H); lra|reflexivity].
Qed.

(* first p+1 knots 0, last p+1 knots 1, interior knots strictly in between *)
Definition clamped01 (p n : nat) (U : list R) : Prop :=
  (forall i, (i <= p)%nat -> knR U i = 0) /\ (forall r, (r <= p)%nat -> knR U (n + r) = 1) /\
  (forall i, (S p <= i < n)%nat -> 0 < knR U i < 1).

Lemma left_end p n (U : list R) : (p < n)%nat -> clamped01 p n U ->
  find_span_linear Rops p U n 0 = p /\ basis_function Rops p U p 0 = 1 :: repeat 0 p.
Proof.
  intros Hp (Z & O & I). split.
  - apply span_left_end; [exact Hp|]. intro H. apply I. lia.
  - apply bf_left_end.
    + intros k Hk. unfold Basis.left. rsimp. rewrite Z by lia. ring.
    + unfold Basis.right. rsimp. replace (p + 1)%nat with (S p) by lia.
      destruct (Nat.eq_dec (S p) n) as [E|E].
      * pose proof (O 0%nat ltac:(lia)) as H. rewrite Nat.add_0_r, <- E in H. rewrite H. lra.
      * pose proof (I (S p) ltac:(lia)). lra.
Qed.

Lemma right_end p n (U : list R) : (p < n)%nat -> clamped01 p n U ->
  find_span_linear Rops p U n 1 = (n - 1)%nat /\ basis_function Rops p U (n - 1) 1 = repeat 0 p ++ [1].
Proof.
  intros Hp (Z & O & I). split.
  - unfold find_span_linear. rewrite find_span_linear_aux_end; try lia. intros i Hi. pose proof (I i ltac:(lia)). lra.
  - apply bf_right_end.
    + intros k Hk. unfold Basis.right. rsimp. replace (n - 1 + k)%nat with (n + (k - 1))%nat by lia. rewrite O by lia. ring.
    + unfold Basis.left. rsimp. replace (n - 1 + 1 - 1)%nat with (n - 1)%nat by lia.
      destruct (Nat.eq_dec (n - 1) p) as [E|E].
      * rewrite E, Z by lia. lra.
      * pose proof (I (n - 1)%nat ltac:(lia)). lra.
Qed.

(* a list of p+1 coefficients that is a unit vector *)
Definition unitvec (a p : nat) (Ns : list R) : Prop :=
  (a <= p)%nat /\ forall k, (k <= p)%nat -> nth k Ns 0 = if Nat.eqb k a then 1 else 0.
Lemma unitvec_first p : unitvec 0 p (1 :: repeat 0 p).
Proof. split; [lia|]. intros [|k] Hk; [reflexivity|]. cbn [nth Nat.eqb]. apply nth_repeat. Qed.
Lemma unitvec_last p : unitvec p p (repeat 0 p ++ [1]).
Proof.
  split; [lia|]. intros k Hk. destruct (Nat.eqb_spec k p) as [->|Hne].
  - rewrite app_nth2 by (rewrite repeat_length; lia). rewrite repeat_length, Nat.sub_diag. reflexivity.
  - rewrite app_nth1 by (rewrite repeat_length; lia). apply nth_repeat.
Qed.
Lemma sumf_unitvec a p Ns (f : nat -> R) : unitvec a p Ns -> sumf (fun k => nth k Ns 0 * f k) (S p) = f a.
Proof.
  intros [Ha H]. rewrite <- sumR_sumf. rewrite (sumr_single 0 (S p) a); [|lia|].
  - rewrite H by lia. rewrite Nat.eqb_refl. ring.
  - intros i Hi Hne. rewrite H by lia. destruct (Nat.eqb_spec i a); [contradiction|ring].
Qed.

(* the surface point when both coefficient lists are unit vectors: one control point *)
Lemma surface_point_corner dim pu pv cu cv (P : list (list R)) (Uu Uv : list R) u v ku kv a b :
  wf_net P dim -> length P = (cu * cv)%nat -> (pu <= ku < cu)%nat -> (pv <= kv < cv)%nat ->
  find_span_linear Rops pu Uu cu u = ku -> find_span_linear Rops pv Uv cv v = kv ->
  unitvec a pu (basis_function Rops pu Uu ku u) -> unitvec b pv (basis_function Rops pv Uv kv v) ->
  forall d, (d < dim)%nat ->
  nth d (surface_point Rops dim pu pv Uu Uv cu cv P u v) 0 = coord P (kv - pv + b + cv * (ku - pu + a)) d.
Proof.
  intros Hwf HLP Hku Hkv Eu Ev Ua Ub d Hd. unfold surface_point. rewrite Eu, Ev.
  destruct (surface_point_at_sum dim pu pv cv P ku kv (basis_function Rops pu Uu ku u) (basis_function Rops pv Uv kv v) cu Hwf HLP Hku Hkv) as [_ Hsum].
  rewrite Hsum by exact Hd.
  rewrite (sumf_unitvec a pu _ _ Ua). rewrite (sumf_unitvec b pv _ _ Ub). reflexivity.
Qed.

(* ------------------------------------------------------------------ (b) approximate_surface: the two passes *)
Lemma rect_ends r dim (a b : list R) (X : list (list R)) : length a = dim -> length b = dim -> rect r dim X ->
  rect (S (S r)) dim ([a] ++ X ++ [b]).
Proof.
  intros Ha Hb [HL HX]. split; [rewrite !app_length; cbn; lia|].
  intros row Hin. apply in_app_or in Hin. destruct Hin as [[<-|[]]|Hin]; [exact Ha|].
  apply in_app_or in Hin. destruct Hin as [Hin|[<-|[]]]; [apply HX; exact Hin|exact Hb].
Qed.
Lemma ends_first (a b : list R) X : nth 0 ([a] ++ X ++ [b]) [] = a.
Proof. reflexivity. Qed.
Lemma ends_last (a b : list R) X n : length X = n -> nth (S n) ([a] ++ X ++ [b]) [] = b.
Proof. intros <-. cbn [app nth]. rewrite app_nth2 by lia. rewrite Nat.sub_diag. reflexivity. Qed.

(* one least-squares solve keeps the end points (wrapper of FitR.approx_1d_least_squares) *)
Lemma approx_1d_ends dim p c r (kv params : list R) (data : list (list R)) : (3 <= r)%nat -> (3 <= c)%nat -> rect r dim data ->
  (forall i, (i < c - 2)%nat ->
     g2 (snd (doolittle Rops (mmul Rops (transpose Rops (approx_N Rops p c kv params r)) (approx_N Rops p c kv params r)))) i i <> 0) ->
  exists C, approx_1d Rops p c kv params data = Ok C /\ rect c dim C /\
    nth 0 C [] = nth 0 data [] /\ nth (c - 1) C [] = nth (r - 1) data [].
Proof.
  intros Hr Hc Hd Hpiv. assert (HL : length data = r) by apply Hd.
  pose proof (approx_1d_least_squares p c dim kv params data) as H. cbv zeta in H. rewrite HL in H.
  destruct (H Hr Hc Hd Hpiv) as (X & EX & RX & _).
  exists ([nth 0 data []] ++ X ++ [nth (r - 1) data []]). split; [exact EX|].
  assert (LX : length X = (c - 2)%nat) by apply RX.
  split; [|split].
  - replace c with (S (S (c - 2))) at 1 by lia. apply rect_ends; [apply (rect_nth r dim); [exact Hd|lia]|apply (rect_nth r dim); [exact Hd|lia]|exact RX].
  - apply ends_first.
  - replace (c - 1)%nat with (S (c - 2)) by lia. apply ends_last. exact LX.
Qed.

Section ApproxSurf.
Variables (pu pv su sv cu cv dim : nat) (kvu kvv uk vl : list R) (pts : list (list R)).
Hypothesis Hsu : (3 <= su)%nat.
Hypothesis Hsv : (3 <= sv)%nat.
Hypothesis Hcu : (3 <= cu)%nat.
Hypothesis Hcv : (3 <= cv)%nat.
Hypothesis Hpts : rect (su * sv) dim pts.
Hypothesis HpivU : forall i, (i < cu - 2)%nat ->
  g2 (snd (doolittle Rops (mmul Rops (transpose Rops (approx_N Rops pu cu kvu uk su)) (approx_N Rops pu cu kvu uk su)))) i i <> 0.
Hypothesis HpivV : forall i, (i < cv - 2)%nat ->
  g2 (snd (doolittle Rops (mmul Rops (transpose Rops (approx_N Rops pv cv kvv vl sv)) (approx_N Rops pv cv kvv vl sv)))) i i <> 0.

(* data column j (su points), its cu control points, then for every i < cu the sv points Col_j[i] and their cv control points *)
Definition dcol (j : nat) : list (list R) := map (fun i => nth (j + sv * i) pts []) (seq 0 su).
Definition Colf (j : nat) : list (list R) := match approx_1d Rops pu cu kvu uk (dcol j) with Ok x => x | _ => [] end.
Definition drow (i : nat) : list (list R) := map (fun j => nth i (Colf j) []) (seq 0 sv).
Definition Rowf (i : nat) : list (list R) := match approx_1d Rops pv cv kvv vl (drow i) with Ok x => x | _ => [] end.
Definition Anet : list (list R) := concat (map Rowf (seq 0 cu)).

Lemma dcol_rect j : (j < sv)%nat -> rect su dim (dcol j).
Proof using All.
  intros Hj. split; [unfold dcol; rewrite map_length, seq_length; reflexivity|].
  intros row Hin. unfold dcol in Hin. apply in_map_iff in Hin. destruct Hin as [i [<- Hi]]. apply in_seq in Hi.
  apply (rect_nth (su * sv) dim); [exact Hpts|nia].
Qed.

Lemma apass1 j : (j < sv)%nat ->
  approx_1d Rops pu cu kvu uk (dcol j) = Ok (Colf j) /\ rect cu dim (Colf j) /\
  nth 0 (Colf j) [] = nth j pts [] /\ nth (cu - 1) (Colf j) [] = nth (j + sv * (su - 1)) pts [].
Proof using All.
  intros Hj. destruct (approx_1d_ends dim pu cu su kvu uk (dcol j) Hsu Hcu (dcol_rect j Hj) HpivU) as (C & EC & RC & C0 & C1).
  unfold Colf. rewrite EC. split; [reflexivity|]. split; [exact RC|]. split.
  - rewrite C0. unfold dcol. rewrite nth_map_seq by lia. f_equal. lia.
  - rewrite C1. unfold dcol. rewrite nth_map_seq by lia. reflexivity.
Qed.

Lemma drow_rect i : (i < cu)%nat -> rect sv dim (drow i).
Proof using All.
  intros Hi. split; [unfold drow; rewrite map_length, seq_length; reflexivity|].
  intros row Hin. unfold drow in Hin. apply in_map_iff in Hin. destruct Hin as [j [<- Hj]]. apply in_seq in Hj.
  destruct (apass1 j ltac:(lia)) as (_ & RC & _). apply (rect_nth cu dim); assumption.
Qed.

Lemma apass2 i : (i < cu)%nat ->
  approx_1d Rops pv cv kvv vl (drow i) = Ok (Rowf i) /\ rect cv dim (Rowf i) /\
  nth 0 (Rowf i) [] = nth i (Colf 0) [] /\ nth (cv - 1) (Rowf i) [] = nth i (Colf (sv - 1)) [].
Proof using All.
  intros Hi. destruct (approx_1d_ends dim pv cv sv kvv vl (drow i) Hsv Hcv (drow_rect i Hi) HpivV) as (C & EC & RC & C0 & C1).
  unfold Rowf. rewrite EC. split; [reflexivity|]. split; [exact RC|]. split.
  - rewrite C0. unfold drow. rewrite nth_map_seq by lia. reflexivity.
  - rewrite C1. unfold drow. rewrite nth_map_seq by lia. reflexivity.
Qed.

Lemma Rowf_len i : (i < cu)%nat -> length (Rowf i) = cv.
Proof using All. intros Hi. destruct (apass2 i Hi) as (_ & [H _] & _). exact H. Qed.
Lemma Anet_nth i l : (i < cu)%nat -> (l < cv)%nat -> nth (l + cv * i) Anet [] = nth l (Rowf i) [].
Proof using All.
  intros Hi Hl. unfold Anet. apply concat_map_seq_nth; [intros; apply Rowf_len; assumption|exact Hl|exact Hi].
Qed.
Lemma Anet_length : length Anet = (cu * cv)%nat.
Proof using All.
  unfold Anet. rewrite (concat_map_seq_length Rowf cv) by (intros; apply Rowf_len; assumption). lia.
Qed.
Lemma Anet_wf : wf_net Anet dim.
Proof using All.
  intros k Hk. rewrite Anet_length in Hk.
  assert (E : k = (k mod cv + cv * (k / cv))%nat) by (rewrite Nat.add_comm; apply Nat.div_mod; lia).
  assert (H1 : (k mod cv < cv)%nat) by (apply Nat.mod_upper_bound; lia).
  assert (H2 : (k / cv < cu)%nat) by (apply Nat.div_lt_upper_bound; lia).
  rewrite E, Anet_nth by assumption. destruct (apass2 (k / cv) H2) as (_ & RC & _). apply (rect_nth cv dim); assumption.
Qed.

(* the body of approximate_surface after the parameters and knot vectors *)
Lemma approx_core_eq :
  res_bind (res_all (map (fun j => approx_1d Rops pu cu kvu uk (map (fun i => nth (j + sv * i) pts []) (seq 0 su))) (seq 0 sv)))
    (fun Cols => res_bind (res_all (map (fun i => approx_1d Rops pv cv kvv vl (map (fun j => nth i (nth j Cols []) []) (seq 0 sv))) (seq 0 cu)))
       (fun Rows => Ok (concat Rows, kvu, kvv))) = Ok (Anet, kvu, kvv).
Proof using All.
  change (fun j => approx_1d Rops pu cu kvu uk (map (fun i => nth (j + sv * i) pts []) (seq 0 su))) with (fun j => approx_1d Rops pu cu kvu uk (dcol j)).
  rewrite (res_all_map_ok (fun j => approx_1d Rops pu cu kvu uk (dcol j)) Colf sv 0) by (intros j Hj; apply apass1; lia).
  cbn [res_bind].
  assert (E : map (fun i => approx_1d Rops pv cv kvv vl (map (fun j => nth i (nth j (map Colf (seq 0 sv)) []) []) (seq 0 sv))) (seq 0 cu)
            = map (fun i => approx_1d Rops pv cv kvv vl (drow i)) (seq 0 cu)).
  { apply map_ext_in. intros i Hi. f_equal. unfold drow. apply map_ext_in. intros j Hj. apply in_seq in Hj.
    rewrite nth_map_seq by lia. reflexivity. }
  rewrite E. rewrite (res_all_map_ok (fun i => approx_1d Rops pv cv kvv vl (drow i)) Rowf cu 0) by (intros i Hi; apply apass2; lia).
  reflexivity.
Qed.

(* [G given pivots] the four corner control points are the four corner data points *)
Theorem approx_corner_ctrlpts :
  nth 0 Anet [] = nth 0 pts [] /\
  nth (cv - 1) Anet [] = nth (sv - 1) pts [] /\
  nth (cv * (cu - 1)) Anet [] = nth (sv * (su - 1)) pts [] /\
  nth (cv - 1 + cv * (cu - 1)) Anet [] = nth (sv - 1 + sv * (su - 1)) pts [].
Proof using All.
  destruct (apass2 0 ltac:(lia)) as (_ & _ & A0 & A1). destruct (apass2 (cu - 1) ltac:(lia)) as (_ & _ & B0 & B1).
  destruct (apass1 0 ltac:(lia)) as (_ & _ & C0 & C1). destruct (apass1 (sv - 1) ltac:(lia)) as (_ & _ & D0 & D1).
  repeat split.
  - replace 0%nat with (0 + cv * 0)%nat at 1 by lia. rewrite Anet_nth by lia. rewrite A0, C0. reflexivity.
  - replace (cv - 1)%nat with (cv - 1 + cv * 0)%nat at 1 by lia. rewrite Anet_nth by lia. rewrite A1, D0. reflexivity.
  - replace (cv * (cu - 1))%nat with (0 + cv * (cu - 1))%nat at 1 by lia. rewrite Anet_nth by lia. rewrite B0, C1. reflexivity.
  - rewrite Anet_nth by lia. rewrite B1, D1. reflexivity.
Qed.

(* [G given pivots] the fitted surface passes through the four corner data points (clamped knot vectors whose
   interior knots lie strictly between 0 and 1) *)
Theorem approx_corner_points : (pu < cu)%nat -> (pv < cv)%nat -> clamped01 pu cu kvu -> clamped01 pv cv kvv ->
  forall d, (d < dim)%nat ->
  nth d (surface_point Rops dim pu pv kvu kvv cu cv Anet 0 0) 0 = g2 pts 0 d /\
  nth d (surface_point Rops dim pu pv kvu kvv cu cv Anet 0 1) 0 = g2 pts (sv - 1) d /\
  nth d (surface_point Rops dim pu pv kvu kvv cu cv Anet 1 0) 0 = g2 pts (sv * (su - 1)) d /\
  nth d (surface_point Rops dim pu pv kvu kvv cu cv Anet 1 1) 0 = g2 pts (sv - 1 + sv * (su - 1)) d.
Proof using All.
  intros Hpu Hpv Ku Kv d Hd.
  destruct (left_end pu cu kvu Hpu Ku) as [SU0 BU0]. destruct (right_end pu cu kvu Hpu Ku) as [SU1 BU1].
  destruct (left_end pv cv kvv Hpv Kv) as [SV0 BV0]. destruct (right_end pv cv kvv Hpv Kv) as [SV1 BV1].
  destruct approx_corner_ctrlpts as (E00 & E01 & E10 & E11).
  pose proof (unitvec_first pu) as FU. rewrite <- BU0 in FU. pose proof (unitvec_last pu) as LU. rewrite <- BU1 in LU.
  pose proof (unitvec_first pv) as FV. rewrite <- BV0 in FV. pose proof (unitvec_last pv) as LV. rewrite <- BV1 in LV.
  split; [|split; [|split]].
  - rewrite (surface_point_corner dim pu pv cu cv Anet kvu kvv 0 0 pu pv 0 0 Anet_wf Anet_length ltac:(lia) ltac:(lia) SU0 SV0 FU FV d Hd).
    unfold coord, get2. replace (pv - pv + 0 + cv * (pu - pu + 0))%nat with 0%nat by lia. rewrite E00. reflexivity.
  - rewrite (surface_point_corner dim pu pv cu cv Anet kvu kvv 0 1 pu (cv - 1) 0 pv Anet_wf Anet_length ltac:(lia) ltac:(lia) SU0 SV1 FU LV d Hd).
    unfold coord, get2. replace (cv - 1 - pv + pv + cv * (pu - pu + 0))%nat with (cv - 1)%nat by lia. rewrite E01. reflexivity.
  - rewrite (surface_point_corner dim pu pv cu cv Anet kvu kvv 1 0 (cu - 1) pv pu 0 Anet_wf Anet_length ltac:(lia) ltac:(lia) SU1 SV0 LU FV d Hd).
    unfold coord, get2. replace (cu - 1 - pu + pu)%nat with (cu - 1)%nat by lia. rewrite Nat.sub_diag. cbn [Nat.add]. rewrite E10. reflexivity.
  - rewrite (surface_point_corner dim pu pv cu cv Anet kvu kvv 1 1 (cu - 1) (cv - 1) pu pv Anet_wf Anet_length ltac:(lia) ltac:(lia) SU1 SV1 LU LV d Hd).
    unfold coord, get2. replace (cu - 1 - pu + pu)%nat with (cu - 1)%nat by lia. replace (cv - 1 - pv + pv)%nat with (cv - 1)%nat by lia. rewrite E11. reflexivity.
Qed.
End ApproxSurf.

(* ------------------------------------------------------------------ (b) the knot vector of Eqs 9.68 / 9.69 *)
Section KV2.
Variables (p r c : nat) (params : list R).
Hypothesis Hpc : (p < c)%nat.
Let kv := compute_knot_vector2 Rops p r c params.

Lemma ckv2_zero i : (i <= p)%nat -> knR kv i = 0.
Proof using All.
  intro Hi. unfold kv, compute_knot_vector2, kn. cbv zeta. rsimp. rewrite app_nth1 by (rewrite repeat_length; lia). apply nth_repeat.
Qed.
Lemma ckv2_one k : (k <= p)%nat -> knR kv (c + k) = 1.
Proof using All.
  intro Hk. unfold kv, compute_knot_vector2, kn. cbv zeta. rsimp.
  rewrite app_nth2 by (rewrite repeat_length; lia). rewrite repeat_length.
  rewrite app_nth2 by (rewrite map_length, seq_length; lia). rewrite map_length, seq_length.
  apply nth_repeat_lt'. lia.
Qed.
Lemma ckv2_mid i : (S p <= i < c)%nat ->
  knR kv i = (1 - INR (((i - p) * r) mod (c - p)) / INR (c - p)) * nth (Nat.pred (((i - p) * r) / (c - p))) params 0
             + INR (((i - p) * r) mod (c - p)) / INR (c - p) * nth (((i - p) * r) / (c - p)) params 0.
Proof using All.
  intro Hi. unfold kv, compute_knot_vector2, kn. cbv zeta. rsimp.
  rewrite app_nth2 by (rewrite repeat_length; lia). rewrite repeat_length.
  rewrite app_nth1 by (rewrite map_length, seq_length; lia).
  rewrite nth_map_seq by lia. replace (1 + (i - S p))%nat with (i - p)%nat by lia. rewrite !ofnat_INR. reflexivity.
Qed.

(* strictly increasing parameters 0 = u_0 < ... < u_(r-1) = 1 and more data points than interior spans:
   every interior knot lies strictly between 0 and 1 *)
Lemma ckv2_interior : pspec r params -> pstrict r params -> (c - p < r)%nat ->
  forall i, (S p <= i < c)%nat -> 0 < knR kv i < 1.
Proof using All.
  intros S St Hq i Hi. rewrite ckv2_mid by exact Hi.
  set (q := (c - p)%nat). set (j := (i - p)%nat). assert (Hj : (1 <= j < q)%nat) by (unfold j, q; lia).
  assert (Hq0 : (q <> 0)%nat) by lia.
  set (ii := ((j * r) / q)%nat). set (m := ((j * r) mod q)%nat).
  assert (Hdm : (j * r = q * ii + m)%nat) by (apply Nat.div_mod; exact Hq0).
  assert (Hm : (m < q)%nat) by (apply Nat.mod_upper_bound; exact Hq0).
  assert (Hii : (ii < r)%nat) by (apply Nat.div_lt_upper_bound; [exact Hq0|nia]).
  assert (Hii1 : (1 <= ii)%nat) by (destruct ii; [nia|lia]).
  assert (Hmono : forall a b, (a < b < r)%nat -> nth a params 0 < nth b params 0).
  { intros a b [Hab Hb]. induction b as [|b IH]; [lia|]. destruct (Nat.eq_dec a b) as [->|Hne]; [apply St; lia|].
    apply Rlt_trans with (nth b params 0); [apply IH; lia|apply St; lia]. }
  destruct S as (L & P0 & P1 & Pm).
  assert (Hqpos : 0 < INR q) by (apply lt_0_INR; lia).
  set (al := INR m / INR q).
  assert (Hal : 0 <= al < 1).
  { unfold al. split; [apply Rmult_le_pos; [apply pos_INR|left; apply Rinv_0_lt_compat; exact Hqpos]|].
    apply (Rmult_lt_reg_r (INR q)); [exact Hqpos|]. unfold Rdiv. rewrite Rmult_assoc, Rinv_l, Rmult_1_r, Rmult_1_l by lra. apply lt_INR. exact Hm. }
  set (a := nth (Nat.pred ii) params 0). set (b := nth ii params 0).
  assert (Ha0 : 0 <= a). { unfold a. destruct (Nat.eq_dec (Nat.pred ii) 0) as [->|Hne]; [lra|]. pose proof (Hmono 0%nat (Nat.pred ii) ltac:(lia)). lra. }
  assert (Ha1 : a < 1). { unfold a. pose proof (Hmono (Nat.pred ii) (r - 1)%nat ltac:(lia)). lra. }
  assert (Hb0 : 0 < b). { unfold b. pose proof (Hmono 0%nat ii ltac:(lia)). lra. }
  assert (Hb1 : b <= 1). { unfold b. destruct (Nat.eq_dec ii (r - 1)) as [->|Hne]; [lra|]. pose proof (Hmono ii (r - 1)%nat ltac:(lia)). lra. }
  split; [|nra].
  destruct (Nat.eq_dec m 0) as [Em|Em].
  - assert (Hal0 : al = 0) by (unfold al; rewrite Em; cbn [INR]; unfold Rdiv; ring). rewrite Hal0.
    assert (H2 : (2 <= ii)%nat) by nia.
    assert (0 < a). { unfold a. pose proof (Hmono 0%nat (Nat.pred ii) ltac:(lia)). lra. } lra.
  - assert (0 < al). { unfold al. apply Rmult_lt_0_compat; [apply lt_0_INR; lia|apply Rinv_0_lt_compat; exact Hqpos]. } nra.
Qed.

Lemma ckv2_clamped01 : (forall i, (S p <= i < c)%nat -> 0 < knR kv i < 1) -> clamped01 p c kv.
Proof using All. intro H. split; [apply ckv2_zero|]. split; [apply ckv2_one|exact H]. Qed.
End KV2.

(* ------------------------------------------------------------------ (b) approximate_surface, whole operation *)
(* [G given pivots] success, size, corner control points; corner interpolation when the interior knots are in (0, 1) *)
Theorem approximate_surface_corners
  (pts : list (list R)) (su sv pu pv cu cv dim : nat) (cdsU cdsV : list (list R)) (uk vl : list R) :
  (3 <= su)%nat -> (3 <= sv)%nat -> (3 <= cu)%nat -> (3 <= cv)%nat -> (pu < cu)%nat -> (pv < cv)%nat ->
  rect (su * sv) dim pts -> compute_params_surface Rops su sv cdsU cdsV = Ok (uk, vl) ->
  let kvu := compute_knot_vector2 Rops pu su cu uk in let kvv := compute_knot_vector2 Rops pv sv cv vl in
  (forall i, (i < cu - 2)%nat ->
     g2 (snd (doolittle Rops (mmul Rops (transpose Rops (approx_N Rops pu cu kvu uk su)) (approx_N Rops pu cu kvu uk su)))) i i <> 0) ->
  (forall i, (i < cv - 2)%nat ->
     g2 (snd (doolittle Rops (mmul Rops (transpose Rops (approx_N Rops pv cv kvv vl sv)) (approx_N Rops pv cv kvv vl sv)))) i i <> 0) ->
  exists P, approximate_surface Rops pts su sv pu pv cu cv cdsU cdsV = Ok (P, kvu, kvv) /\ length P = (cu * cv)%nat /\
    (forall k, (k < cu * cv)%nat -> length (nth k P []) = dim) /\
    nth 0 P [] = nth 0 pts [] /\
    nth (cv - 1) P [] = nth (sv - 1) pts [] /\
    nth (cv * (cu - 1)) P [] = nth (sv * (su - 1)) pts [] /\
    nth (cv - 1 + cv * (cu - 1)) P [] = nth (sv - 1 + sv * (su - 1)) pts [] /\
    ((forall i, (S pu <= i < cu)%nat -> 0 < knR kvu i < 1) -> (forall i, (S pv <= i < cv)%nat -> 0 < knR kvv i < 1) ->
     forall d, (d < dim)%nat ->
       nth d (surface_point Rops dim pu pv kvu kvv cu cv P 0 0) 0 = g2 pts 0 d /\
       nth d (surface_point Rops dim pu pv kvu kvv cu cv P 0 1) 0 = g2 pts (sv - 1) d /\
       nth d (surface_point Rops dim pu pv kvu kvv cu cv P 1 0) 0 = g2 pts (sv * (su - 1)) d /\
       nth d (surface_point Rops dim pu pv kvu kvv cu cv P 1 1) 0 = g2 pts (sv - 1 + sv * (su - 1)) d).
Proof.
  intros Hsu Hsv Hcu Hcv Hpu Hpv Hpts Hpar kvu kvv PU PV.
  exists (Anet pu pv su sv cu cv kvu kvv uk vl pts).
  split.
  { unfold approximate_surface. rewrite Hpar. cbn [res_bind fst snd]. fold kvu. fold kvv.
    apply (approx_core_eq pu pv su sv cu cv dim kvu kvv uk vl pts Hsu Hsv Hcu Hcv Hpts PU PV). }
  split; [apply (Anet_length pu pv su sv cu cv dim kvu kvv uk vl pts Hsu Hsv Hcu Hcv Hpts PU PV)|].
  split.
  { intros k Hk. apply (Anet_wf pu pv su sv cu cv dim kvu kvv uk vl pts Hsu Hsv Hcu Hcv Hpts PU PV).
    rewrite (Anet_length pu pv su sv cu cv dim kvu kvv uk vl pts Hsu Hsv Hcu Hcv Hpts PU PV). exact Hk. }
  destruct (approx_corner_ctrlpts pu pv su sv cu cv dim kvu kvv uk vl pts Hsu Hsv Hcu Hcv Hpts PU PV) as (E00 & E01 & E10 & E11).
  split; [exact E00|]. split; [exact E01|]. split; [exact E10|]. split; [exact E11|].
  intros IU IV d Hd.
  apply (approx_corner_points pu pv su sv cu cv dim kvu kvv uk vl pts Hsu Hsv Hcu Hcv Hpts PU PV Hpu Hpv); [| |exact Hd].
  - apply ckv2_clamped01; assumption.
  - apply ckv2_clamped01; assumption.
Qed.

(* [G given pivots] from the chords: all chords positive, more data points than interior spans in each direction.
   The only hypothesis that is not a condition on the input is the absence of zero pivots in N^T N (both passes). *)
Definition approximate_surface_corners_full : Prop :=
  forall (pts : list (list R)) (su sv pu pv cu cv dim : nat) (cdsU cdsV : list (list R)),
  (3 <= su)%nat -> (3 <= sv)%nat -> (3 <= cu)%nat -> (3 <= cv)%nat -> (pu < cu)%nat -> (pv < cv)%nat ->
  (cu - pu < su)%nat -> (cv - pv < sv)%nat ->
  rect (su * sv) dim pts -> cdsU <> [] -> cdsV <> [] ->
  (forall cds, In cds cdsU -> length cds = (su - 1)%nat /\ forall x, In x cds -> 0 < x) ->
  (forall cds, In cds cdsV -> length cds = (sv - 1)%nat /\ forall x, In x cds -> 0 < x) ->
  (forall uk vl, compute_params_surface Rops su sv cdsU cdsV = Ok (uk, vl) ->
     let kvu := compute_knot_vector2 Rops pu su cu uk in let kvv := compute_knot_vector2 Rops pv sv cv vl in
     (forall i, (i < cu - 2)%nat ->
        g2 (snd (doolittle Rops (mmul Rops (transpose Rops (approx_N Rops pu cu kvu uk su)) (approx_N Rops pu cu kvu uk su)))) i i <> 0) /\
     (forall i, (i < cv - 2)%nat ->
        g2 (snd (doolittle Rops (mmul Rops (transpose Rops (approx_N Rops pv cv kvv vl sv)) (approx_N Rops pv cv kvv vl sv)))) i i <> 0)) ->
  exists uk vl P, compute_params_surface Rops su sv cdsU cdsV = Ok (uk, vl) /\
    let kvu := compute_knot_vector2 Rops pu su cu uk in let kvv := compute_knot_vector2 Rops pv sv cv vl in
    approximate_surface Rops pts su sv pu pv cu cv cdsU cdsV = Ok (P, kvu, kvv) /\ length P = (cu * cv)%nat /\
    nth 0 P [] = nth 0 pts [] /\
    nth (cv - 1) P [] = nth (sv - 1) pts [] /\
    nth (cv * (cu - 1)) P [] = nth (sv * (su - 1)) pts [] /\
    nth (cv - 1 + cv * (cu - 1)) P [] = nth (sv - 1 + sv * (su - 1)) pts [] /\
    forall d, (d < dim)%nat ->
      nth d (surface_point Rops dim pu pv kvu kvv cu cv P 0 0) 0 = g2 pts 0 d /\
      nth d (surface_point Rops dim pu pv kvu kvv cu cv P 0 1) 0 = g2 pts (sv - 1) d /\
      nth d (surface_point Rops dim pu pv kvu kvv cu cv P 1 0) 0 = g2 pts (sv * (su - 1)) d /\
      nth d (surface_point Rops dim pu pv kvu kvv cu cv P 1 1) 0 = g2 pts (sv - 1 + sv * (su - 1)) d.

Lemma pos_chords_ok n (cds : list R) : (2 <= n)%nat -> length cds = (n - 1)%nat -> (forall x, In x cds -> 0 < x) -> chords_ok n cds.
Proof.
  intros Hn HL Hpos. split; [exact HL|]. split; [intros x Hx; left; apply Hpos; exact Hx|].
  destruct cds as [|x cds]; [cbn in HL; lia|]. cbn [sumT]. rsimp.
  assert (0 < x) by (apply Hpos; left; reflexivity).
  assert (0 <= sumT Rops cds).
  { clear HL. induction cds as [|y cds IH]; cbn [sumT]; rsimp; [lra|].
    assert (0 < y) by (apply Hpos; right; left; reflexivity).
    assert (0 <= sumT Rops cds) by (apply IH; intros z [Hz|Hz]; apply Hpos; [left; exact Hz|right; right; exact Hz]). lra. }
  lra.
Qed.

Theorem approximate_surface_from_chords : approximate_surface_corners_full.
Proof.
  intros pts su sv pu pv cu cv dim cdsU cdsV Hsu Hsv Hcu Hcv Hpu Hpv Hqu Hqv Hpts HneU HneV HU HV Hpiv.
  destruct (params_surface_spec su sv cdsU cdsV ltac:(lia) ltac:(lia) HneU HneV) as (uk & vl & Epar & SU & SV & StU & StV).
  { intros cds Hc. destruct (HU cds Hc). apply pos_chords_ok; [lia|assumption|assumption]. }
  { intros cds Hc. destruct (HV cds Hc). apply pos_chords_ok; [lia|assumption|assumption]. }
  specialize (StU ltac:(intros cds Hc; apply (HU cds Hc))). specialize (StV ltac:(intros cds Hc; apply (HV cds Hc))).
  destruct (Hpiv uk vl Epar) as [PU PV]. cbv zeta in PU, PV.
  destruct (approximate_surface_corners pts su sv pu pv cu cv dim cdsU cdsV uk vl Hsu Hsv Hcu Hcv Hpu Hpv Hpts Epar PU PV)
    as (P & EP & LP & _ & E00 & E01 & E10 & E11 & HC).
  exists uk, vl, P. split; [exact Epar|]. cbv zeta.
  split; [exact EP|]. split; [exact LP|]. split; [exact E00|]. split; [exact E01|]. split; [exact E10|]. split; [exact E11|].
  apply HC.
  - apply ckv2_interior; assumption.
  - apply ckv2_interior; assumption.
Qed.
Print Assumptions approximate_surface_corners.
Print Assumptions approximate_surface_from_chords.
