(* C06 leftovers, part 2b: removal after a general refinement IN ANY ORDER.
   Two single knot insertions at different knots commute (Boehm's combination, algebraically: boehm_commute; for the model of
   operations.insert_knot with its own span / multiplicity searches: ins1_commute), hence the curve obtained by inserting a
   multiset of knots one at a time does not depend on the order (perm_fold), hence every knot of a refined curve is "the last
   one inserted" and can be removed first: remove_after_refine_any_order.  Details: Proofs/KnotRemMore.README. *)
From Coq Require Import List Reals Lra Lia Arith Bool ZArith Permutation.
From NV Require Import Scalar.Ops Model.Common Model.Basis Model.KnotIns Model.InsertKnot Model.KnotRem Model.KnotRefine
  Proofs.Boehm Proofs.BasisR Proofs.KnotInsR Proofs.KnotInsN Proofs.InsertKnotR Proofs.InsertNR Proofs.InsertDirR Proofs.InsertVolR
  Proofs.InsertOpR Proofs.InsertOpSurf Proofs.KnotRemR Proofs.KnotRemGeneral
  Proofs.KnotRemMultiDir Proofs.KnotRefineR Proofs.RefineR Proofs.RefineGenS Proofs.RefineGenI Proofs.RefineGeneral
  Proofs.RefineDefault Proofs.RefineOp Proofs.KnotRemRefine Proofs.KnotRemMore Proofs.KnotRemMoreRefine.
Import ListNotations.
Local Open Scope R_scope.

(* ================================================================== Boehm's single insertions commute (knot functions) *)
Section BC.
Variable U : nat -> R.
Hypothesis Hm : forall i j, (i <= j)%nat -> U i <= U j.
Variables (p kx ky : nat) (x y : R) (c : nat -> R).
Hypothesis Hp : (p <= kx)%nat.
Hypothesis Hk : (kx <= ky)%nat.
Hypothesis Hx : U kx <= x < U (S kx).
Hypothesis Hy : U ky <= y < U (S ky).
Hypothesis Hxy : x < y.

Lemma Lx1 i : (i <= kx)%nat -> U i <= x.
Proof. intros H. apply Rle_trans with (U kx); [apply Hm; exact H|apply Hx]. Qed.
Lemma Lx3 j : (S kx <= j)%nat -> x < U j.
Proof. intros H. apply Rlt_le_trans with (U (S kx)); [apply Hx|apply Hm; exact H]. Qed.
Lemma Ly1 i : (i <= ky)%nat -> U i <= y.
Proof. intros H. apply Rle_trans with (U ky); [apply Hm; exact H|apply Hy]. Qed.
Lemma Ly3 j : (S ky <= j)%nat -> y < U j.
Proof. intros H. apply Rlt_le_trans with (U (S ky)); [apply Hy|apply Hm; exact H]. Qed.

Inductive mark (n : nat) : Prop := mk_mark.

Ltac facts := repeat match goal with
  | |- context [U ?t] => lazymatch goal with
      | _ : mark t |- _ => fail
      | _ => pose proof (mk_mark t);
             try (pose proof (Lx1 t ltac:(lia))); try (pose proof (Lx3 t ltac:(lia)));
             try (pose proof (Ly1 t ltac:(lia))); try (pose proof (Ly3 t ltac:(lia)))
      end
  end.
Ltac bsplit := repeat match goal with
  | |- context [(?a <=? ?b)%nat] => destruct (Nat.leb_spec a b); try (exfalso; lia)
  | |- context [(?a <? ?b)%nat] => destruct (Nat.ltb_spec a b); try (exfalso; lia)
  | |- context [(?a =? ?b)%nat] => destruct (Nat.eqb_spec a b); try (exfalso; lia)
  end.

(* [G] x inserted first (span kx), then y (span ky + 1 in the new vector)  =  y first (span ky), then x (span kx) *)
Lemma boehm_commute w :
  let c1 := fun i => alpha U kx x p i * c i + (1 - alpha U kx x p i) * c (pred i) in
  let c2 := fun i => alpha U ky y p i * c i + (1 - alpha U ky y p i) * c (pred i) in
  alpha (Ub U kx x) (S ky) y p w * c1 w + (1 - alpha (Ub U kx x) (S ky) y p w) * c1 (pred w)
  = alpha (Ub U ky y) kx x p w * c2 w + (1 - alpha (Ub U ky y) kx x p w) * c2 (pred w).
Proof.
  cbv zeta. destruct w as [|w].
  { cbn [pred]. unfold alpha, Ub. bsplit; try lra. all: facts; try (field; lra). }
  cbn [pred]. unfold alpha, Ub. cbn [pred]. replace (Init.Nat.pred (S w + p)) with (w + p)%nat by lia. bsplit.
  all: try lra.
  all: facts.
  all: try (field; repeat split; lra).
Qed.
End BC.

Lemma alpha_ext (U U' : nat -> R) k t p i : (forall j, U j = U' j) -> alpha U k t p i = alpha U' k t p i.
Proof. intros E. unfold alpha. rewrite !E. reflexivity. Qed.

(* ================================================================== the lookups after an insertion at ANOTHER knot *)
Lemma nearb_false tol y x : ~ (Rabs (y - x) <= tol) -> nearb tol y x = false.
Proof. intros H. destruct (nearb tol y x) eqn:E; [|reflexivity]. exfalso. apply H. apply nearb_abs. exact E. Qed.

Lemma find_multiplicity_other tol y (U : list R) x k r : ~ (Rabs (y - x) <= tol) ->
  find_multiplicity Rops tol y (knot_insertion_kv U x k r) = find_multiplicity Rops tol y U.
Proof.
  intros H. unfold find_multiplicity, knot_insertion_kv.
  rewrite !filter_app, !app_length.
  set (f := fun z => oleb Rops (oabs Rops (osub Rops y z)) tol).
  assert (HU : length (filter f U) = (length (filter f (firstn (S k) U)) + length (filter f (skipn (S k) U)))%nat).
  { rewrite <- (firstn_skipn (S k) U) at 1. rewrite filter_app, app_length. reflexivity. }
  assert (E : forall n, filter f (repeat x n) = []).
  { induction n as [|n IH]; [reflexivity|]. cbn [repeat filter]. rewrite IH.
    replace (f x) with false; [reflexivity|]. symmetry. apply (nearb_false tol y x H). }
  rewrite E. cbn [length]. lia.
Qed.

Lemma span_unique p (V : list R) m t k : sortedR V -> (p < m)%nat -> (m < length V)%nat ->
  knR V p <= t -> t < knR V m -> (p <= k < m)%nat -> knR V k <= t < knR V (k + 1) ->
  find_span_linear Rops p V m t = k.
Proof.
  intros Vs Hpm Hm Hlo Hhi Hk [H1 H2].
  pose proof (find_span_linear_spec V t p m Hpm Hm Hlo) as S. cbv zeta in S.
  set (k' := find_span_linear Rops p V m t) in *.
  destruct S as (S1 & S2 & [S3|[_ S3]]); [|lra].
  destruct (Nat.lt_trichotomy k' k) as [H|[H|H]]; [exfalso|exact H|exfalso].
  - assert (knR V (S k') <= knR V k) by (apply Vs; lia). lra.
  - assert (knR V (k + 1) <= knR V k') by (apply Vs; lia). lra.
Qed.

(* ================================================================== two single insertion stages at different knots commute *)
Section Comm1.
Variables (tol : R) (c : curve (T:=R)) (dim : nat) (x y : R).
Hypothesis Ht : 0 <= tol.
Hypothesis F : cwf c dim.
Hypothesis Px : par_ok tol (c_p c) (c_U c) (length (c_P c)) (Some x).
Hypothesis Py : par_ok tol (c_p c) (c_U c) (length (c_P c)) (Some y).
Hypothesis Hxy : x < y.
Hypothesis Hsep : tol < y - x.
Hypothesis Ax : snd (cstep tol c (Some x) 1) = false.
Hypothesis Ay : snd (cstep tol c (Some y) 1) = false.

Notation p := (c_p c). Notation U := (c_U c). Notation P := (c_P c). Notation n := (length (c_P c)).
Let kx := find_span_linear Rops p U n x.
Let sx := find_multiplicity Rops tol x U.
Let ky := find_span_linear Rops p U n y.
Let sy := find_multiplicity Rops tol y U.
Let U1 := knot_insertion_kv U x kx 1.
Let P1 := knot_insertion Rops p U P x 1 sx kx.
Let U2 := knot_insertion_kv U y ky 1.
Let P2 := knot_insertion Rops p U P y 1 sy ky.

Lemma c1_eq : cstep tol c (Some x) 1 = (mkC p U1 P1, false).
Proof. apply (cstep_accept tol c dim x 1 F Px (le_n 1) Ax). Qed.
Lemma c2_eq : cstep tol c (Some y) 1 = (mkC p U2 P2, false).
Proof. apply (cstep_accept tol c dim y 1 F Py (le_n 1) Ay). Qed.

Lemma facts_x : (sx + 1 <= p)%nat /\ (p <= kx < n)%nat /\ knR U kx <= x < knR U (kx + 1) /\
  (forall i, (kx - sx < i <= kx)%nat -> knR U i = x) /\ dir_wf p U1 (n + 1).
Proof.
  destruct (cstep_accept tol c dim x 1 F Px (le_n 1) Ax) as (Hn & _). cbv zeta in Hn. fold sx in Hn.
  destruct F as [W _]. destruct (dir_accept tol p U n x 1 W Px (le_n 1) Hn) as (A1 & A2 & A3 & A4 & A5 & A6).
  cbv zeta in *. fold kx sx in A1, A2, A3, A4, A5, A6. split; [lia|]. split; [lia|]. split; [exact A4|]. split; [exact A5|exact A6].
Qed.
Lemma facts_y : (sy + 1 <= p)%nat /\ (p <= ky < n)%nat /\ knR U ky <= y < knR U (ky + 1) /\
  (forall i, (ky - sy < i <= ky)%nat -> knR U i = y) /\ dir_wf p U2 (n + 1).
Proof.
  destruct (cstep_accept tol c dim y 1 F Py (le_n 1) Ay) as (Hn & _). cbv zeta in Hn. fold sy in Hn.
  destruct F as [W _]. destruct (dir_accept tol p U n y 1 W Py (le_n 1) Hn) as (A1 & A2 & A3 & A4 & A5 & A6).
  cbv zeta in *. fold ky sy in A1, A2, A3, A4, A5, A6. split; [lia|]. split; [lia|]. split; [exact A4|]. split; [exact A5|exact A6].
Qed.

Lemma kx_le_ky : (kx <= ky)%nat.
Proof.
  destruct facts_x as (_ & Kx & [X1 X2] & _). destruct facts_y as (_ & Ky & [Y1 Y2] & _). destruct F as [(Us & _ & HL) _].
  destruct (le_lt_dec kx ky) as [|Hlt]; [assumption|]. exfalso.
  assert (knR U (ky + 1) <= knR U kx) by (apply Us; lia). lra.
Qed.

Lemma U1_nth i : knR U1 i = if Nat.leb i kx then knR U i else if Nat.leb i (kx + 1) then x else knR U (i - 1).
Proof. destruct facts_x as (_ & Kx & _). destruct F as [(_ & _ & HL) _]. unfold U1, kn. apply kv_nth. lia. Qed.
Lemma U2_nth i : knR U2 i = if Nat.leb i ky then knR U i else if Nat.leb i (ky + 1) then y else knR U (i - 1).
Proof. destruct facts_y as (_ & Ky & _). destruct F as [(_ & _ & HL) _]. unfold U2, kn. apply kv_nth. lia. Qed.

Lemma par_y_1 : par_ok tol p U1 (n + 1) (Some y).
Proof.
  destruct facts_x as (_ & Kx & _). destruct F as [(Us & Hpn & HL) _]. destruct Py as [[Yl Yh] Ys]. split.
  - rewrite !U1_nth. destruct (Nat.leb_spec p kx); [|lia]. destruct (Nat.leb_spec (n + 1) kx); [lia|].
    destruct (Nat.leb_spec (n + 1) (kx + 1)); [lia|]. replace (n + 1 - 1)%nat with n by lia. split; assumption.
  - intros i Hi. unfold U1 in Hi. rewrite kv_length in Hi. rewrite U1_nth.
    destruct (Nat.leb_spec i kx); [apply Ys; lia|]. destruct (Nat.leb_spec i (kx + 1)); [|apply Ys; lia].
    intros Habs. exfalso. rewrite Rabs_right in Habs by lra. lra.
Qed.
Lemma par_x_2 : par_ok tol p U2 (n + 1) (Some x).
Proof.
  destruct facts_y as (_ & Ky & _). destruct F as [(Us & Hpn & HL) _]. destruct Px as [[Xl Xh] Xs]. split.
  - rewrite !U2_nth. destruct (Nat.leb_spec p ky); [|lia]. destruct (Nat.leb_spec (n + 1) ky); [lia|].
    destruct (Nat.leb_spec (n + 1) (ky + 1)); [lia|]. replace (n + 1 - 1)%nat with n by lia. split; assumption.
  - intros i Hi. unfold U2 in Hi. rewrite kv_length in Hi. rewrite U2_nth.
    destruct (Nat.leb_spec i ky); [apply Xs; lia|]. destruct (Nat.leb_spec i (ky + 1)); [|apply Xs; lia].
    intros Habs. exfalso. rewrite Rabs_left in Habs by lra. lra.
Qed.

Lemma mult_y_1 : find_multiplicity Rops tol y U1 = sy.
Proof. apply find_multiplicity_other. rewrite Rabs_right by lra. lra. Qed.
Lemma mult_x_2 : find_multiplicity Rops tol x U2 = sx.
Proof. apply find_multiplicity_other. rewrite Rabs_left by lra. lra. Qed.

Lemma span_y_1 : find_span_linear Rops p U1 (n + 1) y = (ky + 1)%nat.
Proof.
  destruct facts_x as (_ & Kx & [X1 X2] & _ & (U1s & _ & HL1)). destruct facts_y as (_ & Ky & [Y1 Y2] & _).
  pose proof kx_le_ky as Hk. destruct par_y_1 as [[Yl Yh] _].
  apply span_unique; try assumption; try lia. rewrite !U1_nth.
  destruct (Nat.leb_spec (ky + 1) kx); [lia|]. destruct (Nat.leb_spec (ky + 1 + 1) kx); [lia|].
  destruct (Nat.leb_spec (ky + 1 + 1) (kx + 1)); [lia|]. replace (ky + 1 + 1 - 1)%nat with (ky + 1)%nat by lia.
  split; [|exact Y2]. destruct (Nat.leb_spec (ky + 1) (kx + 1)); [lra|]. replace (ky + 1 - 1)%nat with ky by lia. exact Y1.
Qed.
Lemma span_x_2 : find_span_linear Rops p U2 (n + 1) x = kx.
Proof.
  destruct facts_x as (_ & Kx & [X1 X2] & _). destruct facts_y as (_ & Ky & [Y1 Y2] & _ & (U2s & _ & HL2)).
  pose proof kx_le_ky as Hk. destruct par_x_2 as [[Xl Xh] _].
  apply span_unique; try assumption; try lia. rewrite !U2_nth.
  destruct (Nat.leb_spec kx ky); [|lia]. split; [exact X1|].
  destruct (Nat.leb_spec (kx + 1) ky); [exact X2|]. destruct (Nat.leb_spec (kx + 1) (ky + 1)); [lra|lia].
Qed.

Lemma P1_length : length P1 = (n + 1)%nat.
Proof. destruct facts_x as (Sx & Kx & _). unfold P1. rewrite (knot_insertion1_length Rops) by lia. lia. Qed.
Lemma P2_length : length P2 = (n + 1)%nat.
Proof. destruct facts_y as (Sy & Ky & _). unfold P2. rewrite (knot_insertion1_length Rops) by lia. lia. Qed.

Lemma cwf_1 : cwf (mkC p U1 P1) dim.
Proof. pose proof (cstep_accept tol c dim x 1 F Px (le_n 1) Ax) as (_ & E & W & _). cbv zeta in *. rewrite E in W. exact W. Qed.
Lemma cwf_2 : cwf (mkC p U2 P2) dim.
Proof. pose proof (cstep_accept tol c dim y 1 F Py (le_n 1) Ay) as (_ & E & W & _). cbv zeta in *. rewrite E in W. exact W. Qed.

Lemma acc_y_1 : cstep tol (mkC p U1 P1) (Some y) 1
  = (mkC p (knot_insertion_kv U1 y (ky + 1) 1) (knot_insertion Rops p U1 P1 y 1 sy (ky + 1)), false).
Proof.
  destruct facts_y as (Sy & _). unfold cstep, dir_prep. cbn [c_p c_U c_P Nat.eqb andb]. rewrite mult_y_1, P1_length, span_y_1.
  destruct (Nat.ltb_spec (p - sy) 1); [lia|]. reflexivity.
Qed.
Lemma acc_x_2 : cstep tol (mkC p U2 P2) (Some x) 1
  = (mkC p (knot_insertion_kv U2 x kx 1) (knot_insertion Rops p U2 P2 x 1 sx kx), false).
Proof.
  destruct facts_x as (Sx & _). unfold cstep, dir_prep. cbn [c_p c_U c_P Nat.eqb andb]. rewrite mult_x_2, P2_length, span_x_2.
  destruct (Nat.ltb_spec (p - sx) 1); [lia|]. reflexivity.
Qed.

Lemma kv_commute : knot_insertion_kv U1 y (ky + 1) 1 = knot_insertion_kv U2 x kx 1.
Proof.
  destruct facts_x as (_ & Kx & _). destruct facts_y as (_ & Ky & _). pose proof kx_le_ky as Hk.
  destruct F as [(_ & _ & HL) _].
  apply (nth_ext _ _ 0 0).
  - unfold U1, U2. rewrite !kv_length. reflexivity.
  - intros j _. unfold U1, U2. rewrite !kv_nth by (rewrite ?kv_length; lia).
    repeat match goal with |- context [Nat.leb ?a ?b] => destruct (Nat.leb_spec a b); try (exfalso; lia) end;
      try reflexivity; f_equal; lia.
Qed.

Lemma run_y_1 : forall i, (ky + 1 - sy < i <= ky + 1)%nat -> knR U1 i = y.
Proof.
  destruct cwf_1 as [W _]. cbn [c_p c_U c_P] in W. rewrite P1_length in W. destruct facts_y as (Sy & _).
  destruct (dir_accept tol p U1 (n + 1) y 1 W par_y_1 (le_n 1) ltac:(rewrite mult_y_1; lia)) as (_ & _ & _ & _ & A5 & _).
  cbv zeta in A5. rewrite mult_y_1, span_y_1 in A5. exact A5.
Qed.
Lemma run_x_2 : forall i, (kx - sx < i <= kx)%nat -> knR U2 i = x.
Proof.
  destruct cwf_2 as [W _]. cbn [c_p c_U c_P] in W. rewrite P2_length in W. destruct facts_x as (Sx & _).
  destruct (dir_accept tol p U2 (n + 1) x 1 W par_x_2 (le_n 1) ltac:(rewrite mult_x_2; lia)) as (_ & _ & _ & _ & A5 & _).
  cbv zeta in A5. rewrite mult_x_2, span_x_2 in A5. exact A5.
Qed.

(* coordinates of the two-step results in Boehm's form *)
Lemma coord_12 cc w : (cc < dim)%nat -> (w < n + 2)%nat ->
  let c0 := coord cc P in
  let c1 := fun i => alpha (Ufun U) kx x p i * c0 i + (1 - alpha (Ufun U) kx x p i) * c0 (pred i) in
  coord cc (knot_insertion Rops p U1 P1 y 1 sy (ky + 1)) w
  = alpha (Ub (Ufun U) kx x) (S ky) y p w * c1 w + (1 - alpha (Ub (Ufun U) kx x) (S ky) y p w) * c1 (pred w).
Proof.
  intros Hc Hw. cbv zeta.
  destruct facts_x as (Sx & Kx & _ & Rx & (_ & _ & HL1)). destruct facts_y as (Sy & Ky & _).
  destruct F as [(_ & _ & HL) Fd]. destruct cwf_1 as [_ Fd1]. cbn [c_P] in Fd1.
  rewrite (insert1_is_boehm p U1 P1 y sy (ky + 1) dim) by (first [exact Fd1 | apply run_y_1 | assumption | rewrite ?P1_length; lia]).
  assert (B1 : forall i, (i <= n)%nat -> coord cc P1 i
     = alpha (Ufun U) kx x p i * coord cc P i + (1 - alpha (Ufun U) kx x p i) * coord cc P (pred i)).
  { intros i Hi. unfold P1. apply (insert1_is_boehm p U P x sx kx dim); try assumption; lia. }
  rewrite (alpha_ext (Ufun U1) (Ub (Ufun U) kx x)) by (intros j; unfold U1; apply Ufun_kv1; lia).
  replace (ky + 1)%nat with (S ky) by lia.
  destruct (Nat.eq_dec w (n + 1)) as [->|Hne].
  - rewrite alpha_zero by lia. replace (pred (n + 1)) with n by lia. rewrite (B1 n) by lia. ring.
  - rewrite !B1 by lia. reflexivity.
Qed.
Lemma coord_21 cc w : (cc < dim)%nat -> (w < n + 2)%nat ->
  let c0 := coord cc P in
  let c2 := fun i => alpha (Ufun U) ky y p i * c0 i + (1 - alpha (Ufun U) ky y p i) * c0 (pred i) in
  coord cc (knot_insertion Rops p U2 P2 x 1 sx kx) w
  = alpha (Ub (Ufun U) ky y) kx x p w * c2 w + (1 - alpha (Ub (Ufun U) ky y) kx x p w) * c2 (pred w).
Proof.
  intros Hc Hw. cbv zeta.
  destruct facts_x as (Sx & Kx & _). destruct facts_y as (Sy & Ky & _ & Ry & (_ & _ & HL2)).
  destruct F as [(_ & _ & HL) Fd]. destruct cwf_2 as [_ Fd2]. cbn [c_P] in Fd2.
  rewrite (insert1_is_boehm p U2 P2 x sx kx dim) by (first [exact Fd2 | apply run_x_2 | assumption | rewrite ?P2_length; lia]).
  assert (B2 : forall i, (i <= n)%nat -> coord cc P2 i
     = alpha (Ufun U) ky y p i * coord cc P i + (1 - alpha (Ufun U) ky y p i) * coord cc P (pred i)).
  { intros i Hi. unfold P2. apply (insert1_is_boehm p U P y sy ky dim); try assumption; lia. }
  rewrite (alpha_ext (Ufun U2) (Ub (Ufun U) ky y)) by (intros j; unfold U2; apply Ufun_kv1; lia).
  destruct (Nat.eq_dec w (n + 1)) as [->|Hne].
  - rewrite alpha_zero by lia. replace (pred (n + 1)) with n by lia. rewrite (B2 n) by lia. ring.
  - rewrite !B2 by lia. reflexivity.
Qed.

Lemma pts_commute : knot_insertion Rops p U1 P1 y 1 sy (ky + 1) = knot_insertion Rops p U2 P2 x 1 sx kx.
Proof.
  destruct facts_x as (Sx & Kx & [X1 X2] & _). destruct facts_y as (Sy & Ky & [Y1 Y2] & _). pose proof kx_le_ky as Hk.
  destruct F as [(Us & _ & HL) Fd]. destruct cwf_1 as [_ Fd1]. destruct cwf_2 as [_ Fd2]. cbn [c_P] in Fd1, Fd2.
  apply (nth_ext _ _ [] []).
  - rewrite !(knot_insertion1_length Rops) by (rewrite ?P1_length, ?P2_length; lia). rewrite P1_length, P2_length. reflexivity.
  - intros w Hw. rewrite (knot_insertion1_length Rops) in Hw by (rewrite ?P1_length; lia). rewrite P1_length in Hw.
    assert (L1 : length (nth w (knot_insertion Rops p U1 P1 y 1 sy (ky + 1)) []) = dim).
    { apply (ki_dim Rops p U1 P1 y 1 sy (ky + 1) dim); first [exact Fd1 | rewrite ?P1_length; lia]. }
    assert (L2 : length (nth w (knot_insertion Rops p U2 P2 x 1 sx kx) []) = dim).
    { apply (ki_dim Rops p U2 P2 x 1 sx kx dim); first [exact Fd2 | rewrite ?P2_length; lia]. }
    apply (nth_ext _ _ 0 0); [congruence|]. intros cc Hcc. rewrite L1 in Hcc.
    pose proof (coord_12 cc w Hcc ltac:(lia)) as E1. pose proof (coord_21 cc w Hcc ltac:(lia)) as E2. cbv zeta in E1, E2.
    change (coord cc (knot_insertion Rops p U1 P1 y 1 sy (ky + 1)) w = coord cc (knot_insertion Rops p U2 P2 x 1 sx kx) w).
    rewrite E1, E2.
    apply boehm_commute; try assumption; try lia.
    + apply U_mono. apply Ufun_sorted. exact Us.
    + rewrite !Ufun_in by lia. replace (S kx) with (kx + 1)%nat by lia. split; assumption.
    + rewrite !Ufun_in by lia. replace (S ky) with (ky + 1)%nat by lia. split; assumption.
Qed.

(* [G] operations.insert_knot(c, [x], [1]) then ([y], [1])  =  ([y], [1]) then ([x], [1]); both second calls are accepted *)
Theorem ins1_commute_lt :
  snd (cstep tol (fst (cstep tol c (Some x) 1)) (Some y) 1) = false /\
  snd (cstep tol (fst (cstep tol c (Some y) 1)) (Some x) 1) = false /\
  fst (cstep tol (fst (cstep tol c (Some x) 1)) (Some y) 1) = fst (cstep tol (fst (cstep tol c (Some y) 1)) (Some x) 1).
Proof.
  rewrite c1_eq, c2_eq. cbn [fst]. rewrite acc_y_1, acc_x_2. cbn [fst snd].
  split; [reflexivity|]. split; [reflexivity|]. rewrite kv_commute, pts_commute. reflexivity.
Qed.
End Comm1.

(* ================================================================== the result of inserting a multiset of knots one at a time
   does not depend on the order *)
Local Open Scope nat_scope.
Section Order.
Variables (tol : R) (dim : nat).
Hypothesis Ht : (0 <= tol)%R.

(* c can take the knots of Rm (a multiset, as a list): they lie in the half-open domain, the multiplicity tolerance does not
   confuse them with other knots, and no multiplicity will exceed the degree *)
Definition Good (c : curve (T:=R)) (Rm : list R) : Prop :=
  cwf c dim /\
  (forall x, In x Rm -> (knR (c_U c) (c_p c) <= x < knR (c_U c) (length (c_P c)))%R) /\
  (forall x z, In x Rm -> In z (Rm ++ c_U c) -> (Rabs (x - z) <= tol)%R -> z = x) /\
  (forall x, In x Rm -> count_occ Req_EM_T (Rm ++ c_U c) x <= c_p c).

Lemma Good_perm c l l' : Permutation l l' -> Good c l -> Good c l'.
Proof.
  intros HP (G1 & G2 & G3 & G4). pose proof (Permutation_sym HP) as HP'.
  split; [exact G1|]. split; [|split].
  - intros x Hx. apply G2. apply (Permutation_in _ HP'). exact Hx.
  - intros x z Hx Hz. apply G3; [apply (Permutation_in _ HP'); exact Hx|].
    apply in_app_or in Hz. apply in_or_app. destruct Hz as [Hz|Hz]; [left; apply (Permutation_in _ HP'); exact Hz|right; exact Hz].
  - intros x Hx. rewrite count_occ_app. rewrite <- (proj1 (Permutation_count_occ Req_EM_T _ _) HP x). rewrite <- count_occ_app.
    apply G4. apply (Permutation_in _ HP'). exact Hx.
Qed.

Lemma Good_head c x Rm : Good c (x :: Rm) ->
  par_ok tol (c_p c) (c_U c) (length (c_P c)) (Some x) /\ snd (cstep tol c (Some x) 1) = false.
Proof.
  intros (G1 & G2 & G3 & G4).
  assert (Hsep : forall z, In z (c_U c) -> (Rabs (x - z) <= tol)%R -> z = x).
  { intros z Hz. apply G3; [left; reflexivity|]. apply in_or_app. right. exact Hz. }
  split.
  - split; [apply G2; left; reflexivity|]. intros i Hi. apply Hsep. unfold kn. apply nth_In. exact Hi.
  - unfold cstep, dir_prep. cbn [Nat.eqb andb].
    rewrite (find_multiplicity_count tol x Ht (c_U c) Hsep).
    pose proof (G4 x ltac:(left; reflexivity)) as Hc. cbn [app count_occ] in Hc.
    destruct (Req_EM_T x x) as [_|Hne]; [|congruence]. rewrite count_occ_app in Hc.
    destruct (Nat.ltb_spec (c_p c - count_occ Req_EM_T (c_U c) x) 1); [lia|]. reflexivity.
Qed.

Lemma Good_step c x Rm : Good c (x :: Rm) -> Good (insS tol c (x, 1)) Rm.
Proof.
  intros G. destruct (Good_head c x Rm G) as [Px Ax]. destruct G as (G1 & G2 & G3 & G4).
  destruct (cstep_accept tol c dim x 1 G1 Px (le_n 1) Ax) as (Hn & E & W1 & HL1 & _). cbv zeta in *.
  pose proof G1 as [W Wd].
  destruct (dir_accept tol (c_p c) (c_U c) (length (c_P c)) x 1 W Px (le_n 1) Hn) as (A1 & A2 & A3 & _). cbv zeta in *.
  unfold insS. cbn [fst snd]. rewrite E in W1, HL1 |- *. cbn [fst c_p c_U c_P] in *.
  set (k := find_span_linear Rops (c_p c) (c_U c) (length (c_P c)) x) in *.
  destruct W as (Us & Hpn & HLU).
  assert (HP : Permutation (Rm ++ knot_insertion_kv (c_U c) x k 1) ((x :: Rm) ++ c_U c)).
  { eapply Permutation_trans; [apply Permutation_app_head; apply kv_perm|]. cbn [repeat app].
    apply Permutation_sym. apply Permutation_middle. }
  split; [exact W1|]. cbn [c_p c_U c_P]. split; [|split].
  - intros x' Hx'. rewrite HL1. unfold kn. rewrite !kv_nth by lia.
    destruct (Nat.leb_spec (c_p c) k); [|lia]. destruct (Nat.leb_spec (length (c_P c) + 1) k); [lia|].
    destruct (Nat.leb_spec (length (c_P c) + 1) (k + 1)); [lia|].
    replace (length (c_P c) + 1 - 1) with (length (c_P c)) by lia. apply G2. right. exact Hx'.
  - intros x' z Hx' Hz. apply G3; [right; exact Hx'|]. apply (Permutation_in _ HP). exact Hz.
  - intros x' Hx'. rewrite (proj1 (Permutation_count_occ Req_EM_T _ _) HP x'). apply G4. right. exact Hx'.
Qed.

Lemma good_chain : forall l c, Good c l -> chain tol dim c (singles l).
Proof.
  induction l as [|x l IH]; intros c G; [exact I|]. cbn [singles map chain]. split.
  - intros _. cbn [fst snd]. destruct (Good_head c x l G) as [Px Ax]. split; [apply G|]. split; assumption.
  - apply IH. apply Good_step. exact G.
Qed.

Lemma swap_eq c x y Rm : Good c (x :: y :: Rm) ->
  insS tol (insS tol c (x, 1)) (y, 1) = insS tol (insS tol c (y, 1)) (x, 1).
Proof.
  intros G. destruct (Req_dec x y) as [->|Hne]; [reflexivity|].
  destruct (Good_head c x _ G) as [Px Ax].
  assert (G' : Good c (y :: x :: Rm)) by (apply (Good_perm c (x :: y :: Rm)); [apply perm_swap|exact G]).
  destruct (Good_head c y _ G') as [Py Ay].
  pose proof G as (G1 & _ & G3 & _).
  assert (Hfar : (tol < Rabs (x - y))%R).
  { destruct (Rlt_le_dec tol (Rabs (x - y))) as [|Hle]; [assumption|]. exfalso. apply Hne. symmetry.
    apply (G3 x y); [left; reflexivity|right; left; reflexivity|exact Hle]. }
  unfold insS. cbn [fst snd].
  destruct (Rlt_le_dec x y) as [Hlt|Hge].
  - rewrite Rabs_left in Hfar by lra.
    apply (ins1_commute_lt tol c dim x y); try assumption; lra.
  - assert (Hlt : (y < x)%R) by lra. rewrite Rabs_right in Hfar by lra. symmetry.
    apply (ins1_commute_lt tol c dim y x); try assumption; lra.
Qed.

(* [G] order independence *)
Lemma perm_fold : forall l l', Permutation l l' -> forall c, Good c l ->
  fold_left (insS tol) (singles l) c = fold_left (insS tol) (singles l') c.
Proof.
  induction 1 as [|x l l' HP IH|x y l|l l' l'' HP1 IH1 HP2 IH2]; intros c G.
  - reflexivity.
  - cbn [singles map fold_left]. apply IH. apply Good_step. exact G.
  - cbn [singles map fold_left]. f_equal. apply swap_eq with (Rm := l). exact G.
  - rewrite (IH1 c G). apply IH2. apply (Good_perm c l); assumption.
Qed.
End Order.

Local Open Scope R_scope.

(* [G] two calls operations.insert_knot(curve, [x], [1]) and (curve, [y], [1]) at different knots commute (the code's own span and
   multiplicity searches at every stage); if both are accepted on the curve, the second calls are accepted as well *)
Theorem insert_knot_curve_commute (tol : R) (c : curve (T:=R)) (dim : nat) (x y : R) :
  0 <= tol -> cwf c dim ->
  par_ok tol (c_p c) (c_U c) (length (c_P c)) (Some x) -> par_ok tol (c_p c) (c_U c) (length (c_P c)) (Some y) ->
  tol < Rabs (y - x) ->
  snd (insert_knot_curve Rops tol true c [Some x] [1%Z]) = false -> snd (insert_knot_curve Rops tol true c [Some y] [1%Z]) = false ->
  let ins := fun (c : curve (T:=R)) (z : R) => insert_knot_curve Rops tol true c [Some z] [1%Z] in
  ins (fst (ins c x)) y = ins (fst (ins c y)) x /\ snd (ins (fst (ins c x)) y) = false.
Proof.
  intros Ht F Px Py Hfar Ax Ay. cbv beta zeta.
  assert (S1 : forall c0 z, insert_knot_curve Rops tol true c0 [Some z] [1%Z] = cstep tol c0 (Some z) 1%nat)
    by (intros c0 z; apply (insert_knot_curve_steps tol c0 (Some z) 1)).
  rewrite S1 in Ax. rewrite S1 in Ay. rewrite !S1.
  destruct (Rlt_le_dec x y) as [Hlt|Hge].
  - rewrite Rabs_right in Hfar by lra.
    destruct (ins1_commute_lt tol c dim x y) as (A1 & A2 & E); try assumption; try lra.
    split; [|exact A1].
    destruct (cstep tol (fst (cstep tol c (Some x) 1)) (Some y) 1) as [r1 b1].
    destruct (cstep tol (fst (cstep tol c (Some y) 1)) (Some x) 1) as [r2 b2]. cbn [fst snd] in *. subst. reflexivity.
  - assert (Hne : x <> y) by (intro E; subst; replace (y - y) with 0 in Hfar by ring; rewrite Rabs_R0 in Hfar; lra).
    assert (Hlt : y < x) by lra. rewrite Rabs_left in Hfar by lra.
    destruct (ins1_commute_lt tol c dim y x) as (A1 & A2 & E); try assumption; try lra.
    split; [|exact A2].
    destruct (cstep tol (fst (cstep tol c (Some x) 1)) (Some y) 1) as [r1 b1].
    destruct (cstep tol (fst (cstep tol c (Some y) 1)) (Some x) 1) as [r2 b2]. cbn [fst snd] in *. subst. reflexivity.
Qed.

(* the refined curve is the insertion chain of ANY schedule that rearranges X (grouped stages, all accepted) *)
Lemma refined_as_chain (tol tolm : R) (p : nat) (U : list R) (P : list (list R)) (X : list R) (dim : nat) (sched : list (R * nat)) :
  (1 <= p)%nat -> sortedR U -> (p < length P)%nat -> length U = (length P + p + 1)%nat ->
  X <> [] -> sortedR X -> knR U p <= nth 0 X 0 -> nth (length X - 1) X 0 < knR U (length P) ->
  (forall x y, In x X -> In y (X ++ U) -> x < y -> tol <= y - x) ->
  (forall x, In x X -> (count_occ Req_EM_T (X ++ U) x <= p)%nat) ->
  (forall i, (i < length P)%nat -> length (getp P i) = dim) ->
  0 <= tolm -> (forall x y, In x X -> In y (X ++ U) -> Rabs (x - y) <= tolm -> y = x) ->
  Permutation (expand sched) X ->
  chain tolm dim (mkC p U P) (rev sched) /\
  mkC p (snd (refine_pts Rops tol p U P X)) (fst (refine_pts Rops tol p U P X)) = fold_left (insS tolm) (rev sched) (mkC p U P).
Proof.
  intros H1 H2 H3 H4 H5 H6 H7 H8 H9 H10 H11 Htm Hsepm PX.
  destruct (refine_is_insert_chain_sec tol tolm p U P X dim H1 H2 H3 H4 H5 H6 H7 H8 (conj H9 (conj H10 H11)) Htm Hsepm) as [_ E].
  rewrite E. cbn [fst snd]. set (c0 := mkC p U P) in *.
  assert (G0 : Good tolm dim c0 X).
  { split; [split; [split; [exact H2|split; [exact H3|exact H4]]|exact H11]|]. cbn [c0 c_p c_U c_P]. split; [|split; assumption].
    intros x Hx. destruct (X_bounds p U P X H1 H3 H4 H6 x Hx). lra. }
  assert (PR : Permutation (rev X) (rev (expand sched))).
  { eapply Permutation_trans; [apply Permutation_sym, Permutation_rev|].
    eapply Permutation_trans; [apply Permutation_sym; exact PX|apply Permutation_rev]. }
  assert (GR : Good tolm dim c0 (rev X)) by (apply (Good_perm tolm dim c0 X); [apply Permutation_rev|exact G0]).
  rewrite (perm_fold tolm dim Htm (rev X) (rev (expand sched)) PR c0 GR).
  pose proof (good_chain tolm dim Htm _ c0 (Good_perm tolm dim c0 _ _ PR GR)) as C.
  rewrite singles_rev_expand in *.
  destruct (group_chain tolm dim Htm (rev sched) c0 C) as [C' E']. rewrite <- E'. split; [exact C'|].
  set (cF := fold_left (insS tolm) (rev sched) c0).
  pose proof (fold_insS_p tolm (rev sched) c0) as Hp. fold cF in Hp. cbn [c0 c_p] in Hp. destruct cF as [p' U' P']. cbn [c_p c_U c_P] in *. subst p'. reflexivity.
Qed.

(* [G] THE THEOREM, ANY ORDER.  Hypotheses of KnotRemMoreRefine.remove_after_refine_sched, but the schedule only has to be a
   REARRANGEMENT of X: Permutation (expand sched) X.  So the refined knots may be removed in any order whatsoever, one at a time
   or several copies of a knot per call; the calls never raise, the original curve record comes back, and every intermediate
   curve has the points of the original curve. *)
Theorem remove_after_refine_any_order (tol tolm tol2 : R) (p : nat) (U : list R) (P : list (list R)) (X : list R) (dim : nat)
    (sched : list (R * nat)) :
  (1 <= p)%nat -> sortedR U -> (p < length P)%nat -> length U = (length P + p + 1)%nat ->
  X <> [] -> sortedR X -> knR U p <= nth 0 X 0 -> nth (length X - 1) X 0 < knR U (length P) ->
  (forall x y, In x X -> In y (X ++ U) -> x < y -> tol <= y - x) ->
  (forall x, In x X -> (count_occ Req_EM_T (X ++ U) x <= p)%nat) ->
  (forall i, (i < length P)%nat -> length (getp P i) = dim) ->
  0 <= tolm -> (forall x y, In x X -> In y (X ++ U) -> Rabs (x - y) <= tolm -> y = x) -> 0 <= tol2 ->
  Permutation (expand sched) X ->
  let rm := fun (c : curve (T:=R)) (e : R * nat) => remove_knot_curve Rops tolm tol2 true c [Some (fst e)] [Z.of_nat (snd e)] in
  let '(Q, V) := refine_pts Rops tol p U P X in
  fold_left (fun c e => fst (rm c e)) sched (mkC p V Q) = mkC p U P /\
  (forall s1 e s2, sched = s1 ++ e :: s2 -> snd (rm (fold_left (fun c e => fst (rm c e)) s1 (mkC p V Q)) e) = false) /\
  (forall s1 s2, sched = s1 ++ s2 -> forall cc t, (cc < dim)%nat ->
     let c := fold_left (fun c e => fst (rm c e)) s1 (mkC p V Q) in
     c_p c = p /\ curve_pt p (c_U c) (c_P c) cc t = curve_pt p U P cc t).
Proof.
  intros H1 H2 H3 H4 H5 H6 H7 H8 H9 H10 H11 Htm Hsepm Ht2 PX. cbv zeta.
  destruct (refine_is_insert_chain_sec tol tolm p U P X dim H1 H2 H3 H4 H5 H6 H7 H8 (conj H9 (conj H10 H11)) Htm Hsepm) as [_ E].
  rewrite E. set (c0 := mkC p U P) in *.
  assert (G0 : Good tolm dim c0 X).
  { split; [split; [split; [exact H2|split; [exact H3|exact H4]]|exact H11]|]. cbn [c0 c_p c_U c_P]. split; [|split; assumption].
    intros x Hx. destruct (X_bounds p U P X H1 H3 H4 H6 x Hx). lra. }
  assert (PR : Permutation (rev X) (rev (expand sched))).
  { eapply Permutation_trans; [apply Permutation_sym, Permutation_rev|].
    eapply Permutation_trans; [apply Permutation_sym; exact PX|apply Permutation_rev]. }
  assert (GR : Good tolm dim c0 (rev X)) by (apply (Good_perm tolm dim c0 X); [apply Permutation_rev|exact G0]).
  rewrite (perm_fold tolm dim Htm (rev X) (rev (expand sched)) PR c0 GR).
  pose proof (good_chain tolm dim Htm _ c0 (Good_perm tolm dim c0 _ _ PR GR)) as C.
  rewrite singles_rev_expand in *.
  destruct (group_chain tolm dim Htm (rev sched) c0 C) as [C' E']. rewrite <- E'.
  set (cF := fold_left (insS tolm) (rev sched) c0).
  assert (EcF : mkC p (c_U cF) (c_P cF) = cF).
  { pose proof (fold_insS_p tolm (rev sched) c0) as Hp. fold cF in Hp. cbn [c0 c_p] in Hp. destruct cF as [p' U' P']. cbn [c_p c_U c_P] in *. subst p'. reflexivity. }
  rewrite EcF.
  assert (Efun : forall l c, fold_left (fun c e => fst (remove_knot_curve Rops tolm tol2 true c [Some (fst e)] [Z.of_nat (snd e)])) l c
                           = fold_left (remS tolm tol2) l c).
  { intros l c. apply fold_left_ext. intros c1 e. rewrite remove_knot_curve_steps. reflexivity. }
  split; [|split].
  - rewrite Efun. apply (rem_chain tolm tol2 dim Htm Ht2). exact C'.
  - intros s1 e s2 ES. rewrite Efun, remove_knot_curve_steps. unfold cF. rewrite ES in *.
    apply (rem_chain_flag tolm tol2 dim Htm Ht2 s1 e s2 c0 C').
  - intros s1 s2 ES cc t Hcc. cbv zeta. rewrite Efun. unfold cF. rewrite ES in *.
    rewrite (rem_chain_prefix tolm tol2 dim Htm Ht2 s1 s2 c0 C').
    rewrite rev_app_distr in C'. apply chain_app in C'. destruct C' as [C1 _].
    split; [apply (fold_insS_p tolm (rev s2) c0)|].
    pose proof (chain_pts tolm dim (rev s2) c0 cc t C1 Hcc) as Hp. unfold cpts in Hp.
    rewrite (fold_insS_p tolm (rev s2) c0) in Hp. exact Hp.
Qed.

(* [G] one knot at a time, in the order of ANY rearrangement `order` of X *)
Corollary remove_after_refine_any_order_one_by_one (tol tolm tol2 : R) (p : nat) (U : list R) (P : list (list R)) (X order : list R) (dim : nat) :
  (1 <= p)%nat -> sortedR U -> (p < length P)%nat -> length U = (length P + p + 1)%nat ->
  X <> [] -> sortedR X -> knR U p <= nth 0 X 0 -> nth (length X - 1) X 0 < knR U (length P) ->
  (forall x y, In x X -> In y (X ++ U) -> x < y -> tol <= y - x) ->
  (forall x, In x X -> (count_occ Req_EM_T (X ++ U) x <= p)%nat) ->
  (forall i, (i < length P)%nat -> length (getp P i) = dim) ->
  0 <= tolm -> (forall x y, In x X -> In y (X ++ U) -> Rabs (x - y) <= tolm -> y = x) -> 0 <= tol2 ->
  Permutation order X ->
  let '(Q, V) := refine_pts Rops tol p U P X in
  fold_left (fun c x => fst (remove_knot_curve Rops tolm tol2 true c [Some x] [1%Z])) order (mkC p V Q) = mkC p U P.
Proof.
  intros H1 H2 H3 H4 H5 H6 H7 H8 H9 H10 H11 Htm Hsepm Ht2 PX.
  pose proof (remove_after_refine_any_order tol tolm tol2 p U P X dim (singles order) H1 H2 H3 H4 H5 H6 H7 H8 H9 H10 H11 Htm Hsepm Ht2) as H.
  rewrite expand_singles in H. specialize (H PX). cbv zeta in H.
  destruct (refine_pts Rops tol p U P X) as [Q V]. destruct H as [H _].
  unfold singles in H. rewrite fold_left_map_ in H. exact H.
Qed.

(* [G] removing only SOME of the refined knots (any of them, any order, any grouping: the schedule s1), the others (the sorted
   list X') staying: the result is exactly the curve A5.4 returns for X' *)
Theorem remove_some_after_refine (tol tolm tol2 : R) (p : nat) (U : list R) (P : list (list R)) (X X' : list R) (dim : nat)
    (s1 : list (R * nat)) :
  (1 <= p)%nat -> sortedR U -> (p < length P)%nat -> length U = (length P + p + 1)%nat ->
  X <> [] -> sortedR X -> knR U p <= nth 0 X 0 -> nth (length X - 1) X 0 < knR U (length P) ->
  (forall x y, In x X -> In y (X ++ U) -> x < y -> tol <= y - x) ->
  (forall x, In x X -> (count_occ Req_EM_T (X ++ U) x <= p)%nat) ->
  (forall i, (i < length P)%nat -> length (getp P i) = dim) ->
  0 <= tolm -> (forall x y, In x X -> In y (X ++ U) -> Rabs (x - y) <= tolm -> y = x) -> 0 <= tol2 ->
  X' <> [] -> sortedR X' -> Permutation (expand s1 ++ X') X ->
  let rm := fun (c : curve (T:=R)) (e : R * nat) => remove_knot_curve Rops tolm tol2 true c [Some (fst e)] [Z.of_nat (snd e)] in
  fold_left (fun c e => fst (rm c e)) s1 (mkC p (snd (refine_pts Rops tol p U P X)) (fst (refine_pts Rops tol p U P X)))
  = mkC p (snd (refine_pts Rops tol p U P X')) (fst (refine_pts Rops tol p U P X')) /\
  (forall sa e sb, s1 = sa ++ e :: sb ->
     snd (rm (fold_left (fun c e => fst (rm c e)) sa (mkC p (snd (refine_pts Rops tol p U P X)) (fst (refine_pts Rops tol p U P X)))) e) = false).
Proof.
  intros H1 H2 H3 H4 H5 H6 H7 H8 H9 H10 H11 Htm Hsepm Ht2 H5' H6' PX. cbv zeta.
  assert (ES : expand (s1 ++ singles X') = expand s1 ++ X').
  { unfold expand at 1. rewrite flat_map_app. fold (expand s1). fold (expand (singles X')). rewrite expand_singles. reflexivity. }
  destruct (refined_as_chain tol tolm p U P X dim (s1 ++ singles X') H1 H2 H3 H4 H5 H6 H7 H8 H9 H10 H11 Htm Hsepm
              ltac:(rewrite ES; exact PX)) as [C E].
  assert (HinX : forall x, In x X' -> In x X).
  { intros x Hx. apply (Permutation_in _ PX). apply in_or_app. right. exact Hx. }
  assert (HL' : (1 <= length X')%nat) by (destruct X'; [congruence|cbn; lia]).
  assert (HinXU : forall y, In y (X' ++ U) -> In y (X ++ U)).
  { intros y Hy. apply in_app_or in Hy. apply in_or_app. destruct Hy as [Hy|Hy]; [left; apply HinX; exact Hy|right; exact Hy]. }
  destruct (refined_as_chain tol tolm p U P X' dim (singles X') H1 H2 H3 H4 H5' H6') as [_ E']; try assumption.
  - assert (Hin0 : In (nth 0 X' 0) X) by (apply HinX; apply nth_In; lia).
    destruct (X_bounds p U P X H1 H3 H4 H6 _ Hin0). lra.
  - assert (Hin1 : In (nth (length X' - 1) X' 0) X) by (apply HinX; apply nth_In; lia).
    destruct (X_bounds p U P X H1 H3 H4 H6 _ Hin1). lra.
  - intros x y Hx Hy. apply H9; [apply HinX; exact Hx|apply HinXU; exact Hy].
  - intros x Hx. pose proof (H10 x (HinX x Hx)) as Hc. rewrite count_occ_app in *.
    pose proof (proj1 (Permutation_count_occ Req_EM_T _ _) PX x) as Hpc. rewrite count_occ_app in Hpc. lia.
  - intros x y Hx Hy. apply Hsepm; [apply HinX; exact Hx|apply HinXU; exact Hy].
  - rewrite expand_singles. apply Permutation_refl.
  - rewrite E, E'.
    assert (Efun : forall l c, fold_left (fun c e => fst (remove_knot_curve Rops tolm tol2 true c [Some (fst e)] [Z.of_nat (snd e)])) l c
                             = fold_left (remS tolm tol2) l c).
    { intros l c. apply fold_left_ext. intros c1 e. rewrite remove_knot_curve_steps. reflexivity. }
    split.
    + rewrite Efun. apply (rem_chain_prefix tolm tol2 dim Htm Ht2 s1 (singles X') (mkC p U P) C).
    + intros sa e sb ES1. rewrite Efun, remove_knot_curve_steps. rewrite ES1 in C |- *. rewrite <- app_assoc in C |- *. cbn [app] in C |- *.
      apply (rem_chain_flag tolm tol2 dim Htm Ht2 sa e (sb ++ singles X') (mkC p U P) C).
Qed.

(* [G] the insertion side: the curve obtained by inserting the knots of X one at a time with operations.insert_knot does not depend
   on the order, and it is what A5.4 returns *)
Theorem refine_is_insert_chain_any_order (tol tolm : R) (p : nat) (U : list R) (P : list (list R)) (X order : list R) (dim : nat) :
  (1 <= p)%nat -> sortedR U -> (p < length P)%nat -> length U = (length P + p + 1)%nat ->
  X <> [] -> sortedR X -> knR U p <= nth 0 X 0 -> nth (length X - 1) X 0 < knR U (length P) ->
  (forall x y, In x X -> In y (X ++ U) -> x < y -> tol <= y - x) ->
  (forall x, In x X -> (count_occ Req_EM_T (X ++ U) x <= p)%nat) ->
  (forall i, (i < length P)%nat -> length (getp P i) = dim) ->
  0 <= tolm -> (forall x y, In x X -> In y (X ++ U) -> Rabs (x - y) <= tolm -> y = x) ->
  Permutation order X ->
  let ins := fun (c : curve (T:=R)) (x : R) => insert_knot_curve Rops tolm true c [Some x] [1%Z] in
  let cF := fold_left (fun c x => fst (ins c x)) order (mkC p U P) in
  refine_pts Rops tol p U P X = (c_P cF, c_U cF) /\ c_p cF = p /\
  (forall l1 x l2, order = l1 ++ x :: l2 -> snd (ins (fold_left (fun c x => fst (ins c x)) l1 (mkC p U P)) x) = false).
Proof.
  intros H1 H2 H3 H4 H5 H6 H7 H8 H9 H10 H11 Htm Hsepm PX. cbv zeta.
  destruct (refine_is_insert_chain_sec tol tolm p U P X dim H1 H2 H3 H4 H5 H6 H7 H8 (conj H9 (conj H10 H11)) Htm Hsepm) as [_ E].
  set (c0 := mkC p U P) in *.
  assert (G0 : Good tolm dim c0 X).
  { split; [split; [split; [exact H2|split; [exact H3|exact H4]]|exact H11]|]. cbn [c0 c_p c_U c_P]. split; [|split; assumption].
    intros x Hx. destruct (X_bounds p U P X H1 H3 H4 H6 x Hx). lra. }
  assert (PR : Permutation (rev X) order).
  { eapply Permutation_trans; [apply Permutation_sym, Permutation_rev|apply Permutation_sym; exact PX]. }
  assert (GR : Good tolm dim c0 (rev X)) by (apply (Good_perm tolm dim c0 X); [apply Permutation_rev|exact G0]).
  rewrite (perm_fold tolm dim Htm (rev X) order PR c0 GR) in E.
  pose proof (good_chain tolm dim Htm _ c0 (Good_perm tolm dim c0 _ _ PR GR)) as C.
  assert (Efun : forall l c, fold_left (fun c x => fst (insert_knot_curve Rops tolm true c [Some x] [1%Z])) l c
                           = fold_left (insS tolm) (singles l) c).
  { intros l c. unfold singles. rewrite fold_left_map_. apply fold_left_ext. intros c1 x.
    change 1%Z with (Z.of_nat 1). rewrite insert_knot_curve_steps. reflexivity. }
  rewrite !Efun. split; [exact E|]. split; [apply fold_insS_p|].
  intros l1 x l2 EL. rewrite Efun. change 1%Z with (Z.of_nat 1). rewrite insert_knot_curve_steps.
  rewrite EL in C. unfold singles in C. rewrite map_app in C. apply chain_app in C. destruct C as [_ C].
  cbn [map chain] in C. destruct C as [G _]. apply (G (le_n 1%nat)).
Qed.

(* [G] helpers.knot_refinement (any knot_list / add_knot_list / density), then operations.remove_knot of every listed value mk with
   its count p - mult_U(mk) (0 = nothing to do), the listed values taken in ANY order: the original curve record comes back *)
Corollary remove_after_knot_refinement_any_order (tol tol2 : R) check (p : nat) (U : list R) (P : list (list R)) klo add d (dim : nat) Q V order :
  let kl := (match klo with Some l => l | None => slice U p (length U - p) end) ++ add in
  RefineOp.plan_ok tol p U (length P) d kl -> (forall i, (i < length P)%nat -> length (getp P i) = dim) -> 0 <= tol2 ->
  knot_refinement Rops tol check p U P klo add d = Ok (Q, V) ->
  Permutation order (RefineDefault.refine_Lk d kl) ->
  fold_left (fun c mk => fst (remove_knot_curve Rops tol tol2 true c [Some mk] [Z.of_nat (p - find_multiplicity Rops tol mk U)]))
            order (mkC p V Q) = mkC p U P /\
  forall cc t, (cc < dim)%nat -> curve_pt p V Q cc t = curve_pt p U P cc t.
Proof.
  cbv zeta. set (kl := _ ++ add). intros Hok Hdim Ht2 Hk PO.
  unfold knot_refinement, knot_refinement_g in Hk.
  destruct (refine_plan Rops tol check p U klo add d) as [X| |] eqn:Hplan; cbn [res_map] in Hk; try discriminate.
  destruct (RefineOp.plan_refine_ok tol check p U (length P) klo add d X Hok Hplan) as [EX HX]. fold kl in EX.
  change (refine_g Rops (lerp Rops) [] tol p U P X) with (refine_pts Rops tol p U P X) in Hk.
  destruct HX as (H1 & H2 & H3 & H4 & H5 & H6 & H7 & H8 & H9 & H10).
  set (L := RefineDefault.refine_Lk d kl) in *.
  set (g := fun mk => (mk, p - find_multiplicity Rops tol mk U)%nat).
  assert (ES : Permutation (expand (map g order)) X).
  { rewrite EX. unfold RefineDefault.refine_Xk, refine_X. fold L. unfold expand. rewrite flat_map_concat_map, map_map.
    rewrite <- flat_map_concat_map. apply Permutation_flat_map. exact PO. }
  pose proof Hok as (_ & _ & _ & _ & Htol & _ & _ & Hsep7).
  assert (HXL : forall x, In x X -> In x L).
  { intros x Hx. rewrite EX in Hx. unfold RefineDefault.refine_Xk, refine_X in Hx. fold L in Hx.
    apply in_flat_map in Hx. destruct Hx as (mk & Hmk & Hin). apply repeat_spec in Hin. subst x. exact Hmk. }
  assert (Hsepm : forall x y, In x X -> In y (X ++ U) -> Rabs (x - y) <= tol -> y = x).
  { intros x y Hx Hy Habs. destruct (Req_dec x y) as [E|E]; [symmetry; exact E|]. exfalso.
    assert (tol < Rabs (x - y)); [|lra]. apply Hsep7; [apply HXL; exact Hx| |exact E].
    apply in_app_or in Hy. apply in_or_app. destruct Hy as [Hy|Hy]; [left; apply HXL; exact Hy|right; exact Hy]. }
  pose proof (remove_after_refine_any_order tol tol tol2 p U P X dim (map g order) H1 H2 H3 H4 H5 H6 H7 H8 H9 H10 Hdim Htol Hsepm Ht2 ES) as H.
  cbv zeta in H. destruct (refine_pts Rops tol p U P X) as [Q' V']. inversion Hk. subst Q' V'.
  destruct H as [H [_ Hp]]. split.
  - rewrite fold_left_map_ in H. exact H.
  - intros cc t Hcc. destruct (Hp [] (map g order) eq_refl cc t Hcc) as [_ Hc]. exact Hc.
Qed.

(* [G] operations.refine_knotvector(curve, [density]) followed by operations.remove_knot of every value mk of the bisected list
   (RefineDefault.refine_L) with the count p - mult(mk), in ANY order: the original curve object comes back *)
Corollary remove_after_refine_curve_any_order (tol tol2 : R) check (c c' : curve (T:=R)) params (dim : nat) order :
  RefineOp.default_ok tol (c_p c) (c_U c) (length (c_P c)) (dens params 0) ->
  (forall i, (i < length (c_P c))%nat -> length (getp (c_P c) i) = dim) -> 0 <= tol2 ->
  dens params 0 <> 0%nat -> refine_curve Rops tol check c params = (c', false) ->
  Permutation order (RefineDefault.refine_L (c_p c) (c_U c) (dens params 0)) ->
  fold_left (fun cv mk => fst (remove_knot_curve Rops tol tol2 true cv [Some mk]
                                 [Z.of_nat (c_p c - find_multiplicity Rops tol mk (c_U c))])) order c' = c.
Proof.
  intros Hok Hdim Ht2 Hd HR PO. unfold refine_curve in HR.
  destruct (andb check (negb (Nat.eqb (length params) 1))); [discriminate|].
  destruct (Nat.eqb_spec (dens params 0) 0) as [E|_]; [contradiction|].
  destruct (refine_plan Rops tol true (c_p c) (c_U c) None [] (dens params 0)) as [X| |] eqn:Hplan; try discriminate.
  destruct (refine_pts Rops tol (c_p c) (c_U c) (c_P c) X) as [Q V] eqn:ER. injection HR as <-.
  assert (HK : knot_refinement Rops tol true (c_p c) (c_U c) (c_P c) None [] (dens params 0) = Ok (Q, V)).
  { unfold knot_refinement, knot_refinement_g. rewrite Hplan. cbn [res_map]. f_equal. exact ER. }
  pose proof (remove_after_knot_refinement_any_order tol tol2 true (c_p c) (c_U c) (c_P c) None [] (dens params 0) dim Q V order) as H.
  cbv zeta in H. rewrite app_nil_r in H.
  pose proof (RefineOp.default_plan_ok tol (c_p c) (c_U c) (length (c_P c)) (dens params 0) Hok) as Hp. rewrite app_nil_r in Hp.
  destruct (H Hp Hdim Ht2 HK PO) as [H' _]. rewrite H'. destruct c; reflexivity.
Qed.

Print Assumptions boehm_commute.
Print Assumptions ins1_commute_lt.
Print Assumptions remove_after_refine_any_order.
Print Assumptions remove_after_refine_any_order_one_by_one.
Print Assumptions refine_is_insert_chain_any_order.
Print Assumptions remove_after_knot_refinement_any_order.
Print Assumptions remove_after_refine_curve_any_order.
Print Assumptions insert_knot_curve_commute.
Print Assumptions remove_some_after_refine.
