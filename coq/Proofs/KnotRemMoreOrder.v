(* C06 leftovers, part 2b: removal after a general refinement IN ANY ORDER.
   Two single knot insertions at different knots commute (Boehm's combination, algebraically: boehm_commute; for the model of
   operations.insert_knot with its own span / multiplicity searches: ins1_commute), hence the curve obtained by inserting a
   multiset of knots one at a time does not depend on the order (perm_fold), hence every knot of a refined curve is "the last
   one inserted" and can be removed first: remove_after_refine_any_order.  Details: Proofs/KnotRemMore.README. *)
From Coq Require Import List Reals Lra Lia Arith Bool ZArith Permutation.
From NV Require Import Scalar.Ops Model.Common Model.Basis Model.KnotIns Model.InsertKnot Model.KnotRem Model.KnotRefine
  Proofs.Boehm Proofs.BasisR Proofs.KnotInsR Proofs.KnotInsN Proofs.InsertKnotR Proofs.InsertNR Proofs.InsertDirR Proofs.InsertVolR
  Proofs.InsertOpR Proofs.InsertOpSurf Proofs.KnotRemR Proofs.KnotRemGeneral
  Proofs.KnotRemMultiDir Proofs.KnotRefineR Proofs.RefineR Proofs.RefineGenS Proofs.RefineGenI Proofs.RefineGeneral
  Proofs.RefineDefault Proofs.RefineOp Proofs.KnotRemRefine Proofs.KnotRemMore Proofs.KnotRemMoreRefine.
Import ListNotations.
Local Open Scope R_scope.

(* ================================================================== Boehm's single insertions commute (knot functions) *)
Section BC.
Variable U : nat -> R.
Hypothesis Hm : forall i j, (i <= j)%nat -> U i <= U j.
Variables (p kx ky : nat) (x y : R) (c : nat -> R).
Hypothesis Hp : (p <= kx)%nat.
Hypothesis Hk : (kx <= ky)%nat.
Hypothesis Hx : U kx <= x < U (S kx).
Hypothesis Hy : U ky <= y < U (S ky).
Hypothesis Hxy : x < y.

Lemma Lx1 i : (i <= kx)%nat -> U i <= x.
Proof. intros H. apply Rle_trans with (U kx); [apply Hm; exact H|apply Hx]. Qed.
Lemma Lx3 j : (S kx <= j)%nat -> x < U j.
Proof. intros H. apply Rlt_le_trans with (U (S kx)); [apply Hx|apply Hm; exact H]. Qed.
Lemma Ly1 i : (i <= ky)%nat -> U i <= y.
Proof. intros H. apply Rle_trans with (U ky); [apply Hm; exact H|apply Hy]. Qed.
Lemma Ly3 j : (S ky <= j)%nat -> y < U j.
Proof. intros H. apply Rlt_le_trans with (U (S ky)); [apply Hy|apply Hm; exact H]. Qed.

Inductive mark (n : nat) : Prop := mk_mark.

Ltac facts := repeat match goal with
  | |- context [U ?t] => lazymatch goal with
      | _ : mark t |- _ => fail
      | _ => pose proof (mk_mark t);
             try (pose proof (Lx1 t ltac:(lia))); try (pose proof (Lx3 t ltac:(lia)));
             try (pose proof (Ly1 t ltac:(lia))); try (pose proof (Ly3 t ltac:(lia)))
      end
  end.
Ltac bsplit := repeat match goal with
  | |- context [(?a <=? ?b)%nat] => destruct (Nat.leb_spec a b); try (exfalso; lia)
  | |- context [(?a <? ?b)%nat] => destruct (Nat.ltb_spec a b); try (exfalso; lia)
  | |- context [(?a =? ?b)%nat] => destruct (Nat.eqb_spec a b); try (exfalso; lia)
  end.

(* [G] x inserted first (span kx), then y (span ky + 1 in the new vector)  =  y first (span ky), then x (span kx) *)
Lemma boehm_commute w :
  let c1 := fun i => alpha U kx x p i * c i + (1 - alpha U kx x p i) * c (pred i) in
  let c2 := fun i => alpha U ky y p i * c i + (1 - alpha U ky y p i) * c (pred i) in
  alpha (Ub U kx x) (S ky) y p w * c1 w + (1 - alpha (Ub U kx x) (S ky) y p w) * c1 (pred w)
  = alpha (Ub U ky y) kx x p w * c2 w + (1 - alpha (Ub U ky y) kx x p w) * c2 (pred w).
Proof.
  cbv zeta. destruct w as [|w].
  { cbn [pred]. unfold alpha, Ub. bsplit; try lra. all: facts; try (field; lra). }
  cbn [pred]. unfold alpha, Ub. cbn [pred]. replace (Init.Nat.pred (S w + p)) with (w + p)%nat by lia. bsplit.
  all: try lra.
  all: facts.
  all: try (field; repeat split; lra).
Qed.
End BC.

Lemma alpha_ext (U U' : nat -> R) k t p i : (forall j, U j = U' j) -> alpha U k t p i = alpha U' k t p i.
Proof. intros E. unfold alpha. rewrite !E. reflexivity. Qed.

(* ================================================================== the lookups after an insertion at ANOTHER knot *)
Lemma nearb_false tol y x : ~ (Rabs (y - x) <= tol) -> nearb tol y x = false.
Proof. intros H. destruct (nearb tol y x) eqn:E; [|reflexivity]. exfalso. apply H. apply nearb_abs. exact E. Qed.

Lemma find_multiplicity_other tol y (U : list R) x k r : ~ (Rabs (y - x) <= tol) ->
  find_multiplicity Rops tol y (knot_insertion_kv U x k r) = find_multiplicity Rops tol y U.
Proof.
  intros H. unfold find_multiplicity, knot_insertion_kv.
  rewrite !filter_app, !app_length.
  set (f := fun z => oleb Rops (oabs Rops (osub Rops y z)) tol).
  assert (HU : length (filter f U) = (length (filter f (firstn (S k) U)) + length (filter f (skipn (S k) U)))%nat).
  { rewrite <- (firstn_skipn (S k) U) at 1. rewrite filter_app, app_length. reflexivity. }
  assert (E : forall n, filter f (repeat x n) = []).
  { induction n as [|n IH]; [reflexivity|]. cbn [repeat filter]. rewrite IH.
    replace (f x) with false; [reflexivity|]. symmetry. apply (nearb_false tol y x H). }
  rewrite E. cbn [length]. lia.
Qed.

Lemma span_unique p (V : list R) m t k : sortedR V -> (p < m)%nat -> (m < length V)%nat ->
  knR V p <= t -> t < knR V m -> (p <= k < m)%nat -> knR V k <= t < knR V (k + 1) ->
  find_span_linear Rops p V m t = k.
Proof.
  intros Vs Hpm Hm Hlo Hhi Hk [H1 H2].
  pose proof (find_span_linear_spec V t p m Hpm Hm Hlo) as S. cbv zeta in S.
  set (k' := find_span_linear Rops p V m t) in *.
  destruct S as (S1 & S2 & [S3|[_ S3]]); [|lra].
  destruct (Nat.lt_trichotomy k' k) as [H|[H|H]]; [exfalso|exact H|exfalso].
  - assert (knR V (S k') <= knR V k) by (apply Vs; lia). lra.
  - assert (knR V (k + 1) <= knR V k') by (apply Vs; lia). lra.
Qed.

(* ================================================================== two single insertion stages at different knots commute *)
Section Comm1.
Variables (tol : R) (c : curve (T:=R)) (dim : nat) (x y : R).
Hypothesis Ht : 0 <= tol.
Hypothesis F : cwf c dim.
Hypothesis Px : par_ok tol (c_p c) (c_U c) (length (c_P c)) (Some x).
Hypothesis Py : par_ok tol (c_p c) (c_U c) (length (c_P c)) (Some y).
Hypothesis Hxy : x < y.
Hypothesis Hsep : tol < y - x.
Hypothesis Ax : snd (cstep tol c (Some x) 1) = false.
Hypothesis Ay : snd (cstep tol c (Some y) 1) = false.

Notation p := (c_p c). Notation U := (c_U c). Notation P := (c_P c). Notation n := (length (c_P c)).
Let kx := find_span_linear Rops p U n x.
Let sx := find_multiplicity Rops tol x U.
Let ky := find_span_linear Rops p U n y.
Let sy := find_multiplicity Rops tol y U.
Let U1 := knot_insertion_kv U x kx 1.
Let P1 := knot_insertion Rops p U P x 1 sx kx.
Let U2 := knot_insertion_kv U y ky 1.
Let P2 := knot_insertion Rops p U P y 1 sy ky.

Lemma c1_eq : cstep tol c (Some x) 1 = (mkC p U1 P1, false).
Proof. apply (cstep_accept tol c dim x 1 F Px (le_n 1) Ax). Qed.
Lemma c2_eq : cstep tol c (Some y) 1 = (mkC p U2 P2, false).
Proof. apply (cstep_accept tol c dim y 1 F Py (le_n 1) Ay). Qed.

Lemma facts_x : (sx + 1 <= p)%nat /\ (p <= kx < n)%nat /\ knR U kx <= x < knR U (kx + 1) /\
  (forall i, (kx - sx < i <= kx)%nat -> knR U i = x) /\ dir_wf p U1 (n + 1).
Proof.
  destruct (cstep_accept tol c dim x 1 F Px (le_n 1) Ax) as (Hn & _). cbv zeta in Hn. fold sx in Hn.
  destruct F as [W _]. destruct (dir_accept tol p U n x 1 W Px (le_n 1) Hn) as (A1 & A2 & A3 & A4 & A5 & A6).
  cbv zeta in *. fold kx sx in A1, A2, A3, A4, A5, A6. split; [lia|]. split; [lia|]. split; [exact A4|]. split; [exact A5|exact A6].
Qed.
Lemma facts_y : (sy + 1 <= p)%nat /\ (p <= ky < n)%nat /\ knR U ky <= y < knR U (ky + 1) /\
  (forall i, (ky - sy < i <= ky)%nat -> knR U i = y) /\ dir_wf p U2 (n + 1).
Proof.
  destruct (cstep_accept tol c dim y 1 F Py (le_n 1) Ay) as (Hn & _). cbv zeta in Hn. fold sy in Hn.
  destruct F as [W _]. destruct (dir_accept tol p U n y 1 W Py (le_n 1) Hn) as (A1 & A2 & A3 & A4 & A5 & A6).
  cbv zeta in *. fold ky sy in A1, A2, A3, A4, A5, A6. split; [lia|]. split; [lia|]. split; [exact A4|]. split; [exact A5|exact A6].
Qed.

Lemma kx_le_ky : (kx <= ky)%nat.
Proof.
  destruct facts_x as (_ & Kx & [X1 X2] & _). destruct facts_y as (_ & Ky & [Y1 Y2] & _). destruct F as [(Us & _ & HL) _].
  destruct (le_lt_dec kx ky) as [|Hlt]; [assumption|]. exfalso.
  assert (knR U (ky + 1) <= knR U kx) by (apply Us; lia). lra.
Qed.

Lemma U1_nth i : knR U1 i = if Nat.leb i kx then knR U i else if Nat.leb i (kx + 1) then x else knR U (i - 1).
Proof. destruct facts_x as (_ & Kx & _). destruct F as [(_ & _ & HL) _]. unfold U1, kn. apply kv_nth. lia. Qed.
Lemma U2_nth i : knR U2 i = if Nat.leb i ky then knR U i else if Nat.leb i (ky + 1) then y else knR U (i - 1).
Proof. destruct facts_y as (_ & Ky & _). destruct F as [(_ & _ & HL) _]. unfold U2, kn. apply kv_nth. lia. Qed.

Lemma par_y_1 : par_ok tol p U1 (n + 1) (Some y).
Proof.
  destruct facts_x as (_ & Kx & _). destruct F as [(Us & Hpn & HL) _]. destruct Py as [[Yl Yh] Ys]. split.
  - rewrite !U1_nth. destruct (Nat.leb_spec p kx); [|lia]. destruct (Nat.leb_spec (n + 1) kx); [lia|].
    destruct (Nat.leb_spec (n + 1) (kx + 1)); [lia|]. replace (n + 1 - 1)%nat with n by lia. split; assumption.
  - intros i Hi. unfold U1 in Hi. rewrite kv_length in Hi. rewrite U1_nth.
    destruct (Nat.leb_spec i kx); [apply Ys; lia|]. destruct (Nat.leb_spec i (kx + 1)); [|apply Ys; lia].
    intros Habs. exfalso. rewrite Rabs_right in Habs by lra. lra.
Qed.
Lemma par_x_2 : par_ok tol p U2 (n + 1) (Some x).
Proof.
  destruct facts_y as (_ & Ky & _). destruct F as [(Us & Hpn & HL) _]. destruct Px as [[Xl Xh] Xs]. split.
  - rewrite !U2_nth. destruct (Nat.leb_spec p ky); [|lia]. destruct (Nat.leb_spec (n + 1) ky); [lia|].
    destruct (Nat.leb_spec (n + 1) (ky + 1)); [lia|]. replace (n + 1 - 1)%nat with n by lia. split; assumption.
  - intros i Hi. unfold U2 in Hi. rewrite kv_length in Hi. rewrite U2_nth.
    destruct (Nat.leb_spec i ky); [apply Xs; lia|]. destruct (Nat.leb_spec i (ky + 1)); [|apply Xs; lia].
    intros Habs. exfalso. rewrite Rabs_left in Habs by lra. lra.
Qed.

Lemma mult_y_1 : find_multiplicity Rops tol y U1 = sy.
Proof. apply find_multiplicity_other. rewrite Rabs_right by lra. lra. Qed.
Lemma mult_x_2 : find_multiplicity Rops tol x U2 = sx.
Proof. apply find_multiplicity_other. rewrite Rabs_left by lra. lra. Qed.

Lemma span_y_1 : find_span_linear Rops p U1 (n + 1) y = (ky + 1)%nat.
Proof.
  destruct facts_x as (_ & Kx & [X1 X2] & _ & (U1s & _ & HL1)). destruct facts_y as (_ & Ky & [Y1 Y2] & _).
  pose proof kx_le_ky as Hk. destruct par_y_1 as [[Yl Yh] _].
  apply span_unique; try assumption; try lia. rewrite !U1_nth.
  destruct (Nat.leb_spec (ky + 1) kx); [lia|]. destruct (Nat.leb_spec (ky + 1 + 1) kx); [lia|].
  destruct (Nat.leb_spec (ky + 1 + 1) (kx + 1)); [lia|]. replace (ky + 1 + 1 - 1)%nat with (ky + 1)%nat by lia.
  split; [|exact Y2]. destruct (Nat.leb_spec (ky + 1) (kx + 1)); [lra|]. replace (ky + 1 - 1)%nat with ky by lia. exact Y1.
Qed.
Lemma span_x_2 : find_span_linear Rops p U2 (n + 1) x = kx.
Proof.
  destruct facts_x as (_ & Kx & [X1 X2] & _). destruct facts_y as (_ & Ky & [Y1 Y2] & _ & (U2s & _ & HL2)).
  pose proof kx_le_ky as Hk. destruct par_x_2 as [[Xl Xh] _].
  apply span_unique; try assumption; try lia. rewrite !U2_nth.
  destruct (Nat.leb_spec kx ky); [|lia]. split; [exact X1|].
  destruct (Nat.leb_spec (kx + 1) ky); [exact X2|]. destruct (Nat.leb_spec (kx + 1) (ky + 1)); [lra|lia].
Qed.

Lemma P1_length : length P1 = (n + 1)%nat.
Proof. destruct facts_x as (Sx & Kx & _). unfold P1. rewrite (knot_insertion1_length Rops) by lia. lia. Qed.
Lemma P2_length : length P2 = (n + 1)%nat.
Proof. destruct facts_y as (Sy & Ky & _). unfold P2. rewrite (knot_insertion1_length Rops) by lia. lia. Qed.

Lemma cwf_1 : cwf (mkC p U1 P1) dim.
Proof. pose proof (cstep_accept tol c dim x 1 F Px (le_n 1) Ax) as (_ & E & W & _). cbv zeta in *. rewrite E in W. exact W. Qed.
Lemma cwf_2 : cwf (mkC p U2 P2) dim.
Proof. pose proof (cstep_accept tol c dim y 1 F Py (le_n 1) Ay) as (_ & E & W & _). cbv zeta in *. rewrite E in W. exact W. Qed.

Lemma acc_y_1 : cstep tol (mkC p U1 P1) (Some y) 1
  = (mkC p (knot_insertion_kv U1 y (ky + 1) 1) (knot_insertion Rops p U1 P1 y 1 sy (ky + 1)), false).
Proof.
  destruct facts_y as (Sy & _). unfold cstep, dir_prep. cbn [c_p c_U c_P Nat.eqb andb]. rewrite mult_y_1, P1_length, span_y_1.
  destruct (Nat.ltb_spec (p - sy) 1); [lia|]. reflexivity.
Qed.
Lemma acc_x_2 : cstep tol (mkC p U2 P2) (Some x) 1
  = (mkC p (knot_insertion_kv U2 x kx 1) (knot_insertion Rops p U2 P2 x 1 sx kx), false).
Proof.
  destruct facts_x as (Sx & _). unfold cstep, dir_prep. cbn [c_p c_U c_P Nat.eqb andb]. rewrite mult_x_2, P2_length, span_x_2.
  destruct (Nat.ltb_spec (p - sx) 1); [lia|]. reflexivity.
Qed.

Lemma kv_commute : knot_insertion_kv U1 y (ky + 1) 1 = knot_insertion_kv U2 x kx 1.
Proof.
  destruct facts_x as (_ & Kx & _). destruct facts_y as (_ & Ky & _). pose proof kx_le_ky as Hk.
  destruct F as [(_ & _ & HL) _].
  apply (nth_ext _ _ 0 0).
  - unfold U1, U2. rewrite !kv_length. reflexivity.
  - intros j _. unfold U1, U2. rewrite !kv_nth by (rewrite ?kv_length; lia).
    repeat match goal with |- context [Nat.leb ?a ?b] => destruct (Nat.leb_spec a b); try (exfalso; lia) end;
      try reflexivity; f_equal; lia.
Qed.

Lemma run_y_1 : forall i, (ky + 1 - sy < i <= ky + 1)%nat -> knR U1 i = y.
Proof.
  destruct cwf_1 as [W _]. cbn [c_p c_U c_P] in W. rewrite P1_length in W. destruct facts_y as (Sy & _).
  destruct (dir_accept tol p U1 (n + 1) y 1 W par_y_1 (le_n 1) ltac:(rewrite mult_y_1; lia)) as (_ & _ & _ & _ & A5 & _).
  cbv zeta in A5. rewrite mult_y_1, span_y_1 in A5. exact A5.
Qed.
Lemma run_x_2 : forall i, (kx - sx < i <= kx)%nat -> knR U2 i = x.
Proof.
  destruct cwf_2 as [W _]. cbn [c_p c_U c_P] in W. rewrite P2_length in W. destruct facts_x as (Sx & _).
  destruct (dir_accept tol p U2 (n + 1) x 1 W par_x_2 (le_n 1) ltac:(rewrite mult_x_2; lia)) as (_ & _ & _ & _ & A5 & _).
  cbv zeta in A5. rewrite mult_x_2, span_x_2 in A5. exact A5.
Qed.

(* coordinates of the two-step results in Boehm's form *)
Lemma coord_12 cc w : (cc < dim)%nat -> (w < n + 2)%nat ->
  let c0 := coord cc P in
  let c1 := fun i => alpha (Ufun U) kx x p i * c0 i + (1 - alpha (Ufun U) kx x p i) * c0 (pred i) in
  coord cc (knot_insertion Rops p U1 P1 y 1 sy (ky + 1)) w
  = alpha (Ub (Ufun U) kx x) (S ky) y p w * c1 w + (1 - alpha (Ub (Ufun U) kx x) (S ky) y p w) * c1 (pred w).
Proof.
  intros Hc Hw. cbv zeta.
  destruct facts_x as (Sx & Kx & _ & Rx & (_ & _ & HL1)). destruct facts_y as (Sy & Ky & _).
  destruct F as [(_ & _ & HL) Fd]. destruct cwf_1 as [_ Fd1]. cbn [c_P] in Fd1.
  rewrite (insert1_is_boehm p U1 P1 y sy (ky + 1) dim) by (first [exact Fd1 | apply run_y_1 | assumption | rewrite ?P1_length; lia]).
  assert (B1 : forall i, (i <= n)%nat -> coord cc P1 i
     = alpha (Ufun U) kx x p i * coord cc P i + (1 - alpha (Ufun U) kx x p i) * coord cc P (pred i)).
  { intros i Hi. unfold P1. apply (insert1_is_boehm p U P x sx kx dim); try assumption; lia. }
  rewrite (alpha_ext (Ufun U1) (Ub (Ufun U) kx x)) by (intros j; unfold U1; apply Ufun_kv1; lia).
  replace (ky + 1)%nat with (S ky) by lia.
  destruct (Nat.eq_dec w (n + 1)) as [->|Hne].
  - rewrite alpha_zero by lia. replace (pred (n + 1)) with n by lia. rewrite (B1 n) by lia. ring.
  - rewrite !B1 by lia. reflexivity.
Qed.
Lemma coord_21 cc w : (cc < dim)%nat -> (w < n + 2)%nat ->
  let c0 := coord cc P in
  let c2 := fun i => alpha (Ufun U) ky y p i * c0 i + (1 - alpha (Ufun U) ky y p i) * c0 (pred i) in
  coord cc (knot_insertion Rops p U2 P2 x 1 sx kx) w
  = alpha (Ub (Ufun U) ky y) kx x p w * c2 w + (1 - alpha (Ub (Ufun U) ky y) kx x p w) * c2 (pred w).
Proof.
  intros Hc Hw. cbv zeta.
  destruct facts_x as (Sx & Kx & _). destruct facts_y as (Sy & Ky & _ & Ry & (_ & _ & HL2)).
  destruct F as [(_ & _ & HL) Fd]. destruct cwf_2 as [_ Fd2]. cbn [c_P] in Fd2.
  rewrite (insert1_is_boehm p U2 P2 x sx kx dim) by (first [exact Fd2 | apply run_x_2 | assumption | rewrite ?P2_length; lia]).
  assert (B2 : forall i, (i <= n)%nat -> coord cc P2 i
     = alpha (Ufun U) ky y p i * coord cc P i + (1 - alpha (Ufun U) ky y p i) * coord cc P (pred i)).
  { intros i Hi. unfold P2. apply (insert1_is_boehm p U P y sy ky dim); try assumption; lia. }
  rewrite (alpha_ext (Ufun U2) (Ub (Ufun U) ky y)) by (intros j; unfold U2; apply Ufun_kv1; lia).
  destruct (Nat.eq_dec w (n + 1)) as [->|Hne].
  - rewrite alpha_zero by lia. replace (pred (n + 1)) with n by lia. rewrite (B2 n) by lia. ring.
  - rewrite !B2 by lia. reflexivity.
Qed.

Lemma pts_commute : knot_insertion Rops p U1 P1 y 1 sy (ky + 1) = knot_insertion Rops p U2 P2 x 1 sx kx.
Proof.
  destruct facts_x as (Sx & Kx & [X1 X2] & _). destruct facts_y as (Sy & Ky & [Y1 Y2] & _). pose proof kx_le_ky as Hk.
  destruct F as [(Us & _ & HL) Fd]. destruct cwf_1 as [_ Fd1]. destruct cwf_2 as [_ Fd2]. cbn [c_P] in Fd1, Fd2.
  apply (nth_ext _ _ [] []).
  - rewrite !(knot_insertion1_length Rops) by (rewrite ?P1_length, ?P2_length; lia). rewrite P1_length, P2_length. reflexivity.
  - intros w Hw. rewrite (knot_insertion1_length Rops) in Hw by (rewrite ?P1_length; lia). rewrite P1_length in Hw.
    assert (L1 : length (nth w (knot_insertion Rops p U1 P1 y 1 sy (ky + 1)) []) = dim).
    { apply (ki_dim Rops p U1 P1 y 1 sy (ky + 1) dim); first [exact Fd1 | rewrite ?P1_length; lia]. }
    assert (L2 : length (nth w (knot_insertion Rops p U2 P2 x 1 sx kx) []) = dim).
    { apply (ki_dim Rops p U2 P2 x 1 sx kx dim); first [exact Fd2 | rewrite ?P2_length; lia]. }
    apply (nth_ext _ _ 0 0); [congruence|]. intros cc Hcc. rewrite L1 in Hcc.
    pose proof (coord_12 cc w Hcc ltac:(lia)) as E1. pose proof (coord_21 cc w Hcc ltac:(lia)) as E2. cbv zeta in E1, E2.
    change (coord cc (knot_insertion Rops p U1 P1 y 1 sy (ky + 1)) w = coord cc (knot_insertion Rops p U2 P2 x 1 sx kx) w).
    rewrite E1, E2.
    apply boehm_commute; try assumption; try lia.
    + apply U_mono. apply Ufun_sorted. exact Us.
    + rewrite !Ufun_in by lia. replace (S kx) with (kx + 1)%nat by lia. split; assumption.
    + rewrite !Ufun_in by lia. replace (S ky) with (ky + 1)%nat by lia. split; assumption.
Qed.

(* [G] operations.insert_knot(c, [x], [1]) then ([y], [1])  =  ([y], [1]) then ([x], [1]); both second calls are accepted *)
Theorem ins1_commute_lt :
  snd (cstep tol (fst (cstep tol c (Some x) 1)) (Some y) 1) = false /\
  snd (cstep tol (fst (cstep tol c (Some y) 1)) (Some x) 1) = false /\
  fst (cstep tol (fst (cstep tol c (Some x) 1)) (Some y) 1) = fst (cstep tol (fst (cstep tol c (Some y) 1)) (Some x) 1).
Proof.
  rewrite c1_eq, c2_eq. cbn [fst]. rewrite acc_y_1, acc_x_2. cbn [fst snd].
  split; [reflexivity|]. split; [reflexivity|]. rewrite kv_commute, pts_commute. reflexivity.
Qed.
End Comm1.

(* ================================================================== the result of inserting a multiset of knots one at a time
   does not depend on the order *)
Local Open Scope nat_scope.
Section Order.
Variables (tol : R) (dim : nat).
Hypothesis Ht : (0 <= tol)%R.

(* c can take the knots of Rm (a multiset, as a list): they lie in the half-open domain, the multiplicity tolerance does not
   confuse them with other knots, and no multiplicity will exceed the degree *)
Definition Good (c : curve (T:=R)) (Rm : list R) : Prop :=
  cwf c dim /\
  (forall x, In x Rm -> (knR (c_U c) (c_p c) <= x < knR (c_U c) (length (c_P c)))%R) /\
  (forall x z, In x Rm -> In z (Rm ++ c_U c) -> (Rabs (x - z) <= tol)%R -> z = x) /\
  (forall x, In x Rm -> count_occ Req_EM_T (Rm ++ c_U c) x <= c_p c).

Lemma Good_perm c l l' : Permutation l l' -> Good c l -> Good c l'.
Proof.
  intros HP (G1 & G2 & G3 & G4). pose proof (Permutation_sym HP) as HP'.
  split; [exact G1|]. split; [|split].
  - intros x Hx. apply G2. apply (Permutation_in _ HP'). exact Hx.
  - intros x z Hx Hz. apply G3; [apply (Permutation_in _ HP'); exact Hx|].
    apply in_app_or in Hz. apply in_or_app. destruct Hz as [Hz|Hz]; [left; apply (Permutation_in _ HP'); exact Hz|right; exact Hz].
  - intros x Hx. rewrite count_occ_app. rewrite <- (proj1 (Permutation_count_occ Req_EM_T _ _) HP x). rewrite <- count_occ_app.
    apply G4. apply (Permutation_in _ HP'). exact Hx.
Qed.

Lemma Good_head c x Rm : Good c (x :: Rm) ->
  par_ok tol (c_p c) (c_U c) (length (c_P c)) (Some x) /\ snd (cstep tol c (Some x) 1) = false.
Proof.
  intros (G1 & G2 & G3 & G4).
  assert (Hsep : forall z, In z (c_U c) -> (Rabs (x - z) <= tol)%R -> z = x).
  { intros z Hz. apply G3; [left; reflexivity|]. apply in_or_app. right. exact Hz. }
  split.
  - split; [apply G2; left; reflexivity|]. intros i Hi. apply Hsep. unfold kn. apply nth_In. exact Hi.
  - unfold cstep, dir_prep. cbn [Nat.eqb andb].
    rewrite (find_multiplicity_count tol x Ht (c_U c) Hsep).
    pose proof (G4 x ltac:(left; reflexivity)) as Hc. cbn [app count_occ] in Hc.
    destruct (Req_EM_T x x) as [_|Hne]; [|congruence]. rewrite count_occ_app in Hc.
    destruct (Nat.ltb_spec (c_p c - count_occ Req_EM_T (c_U c) x) 1); [lia|]. reflexivity.
Qed.

Lemma Good_step c x Rm : Good c (x :: Rm) -> Good (insS tol c (x, 1)) Rm.
Proof.
  intros G. destruct (Good_head c x Rm G) as [Px Ax]. destruct G as (G1 & G2 & G3 & G4).
  destruct (cstep_accept tol c dim x 1 G1 Px (le_n 1) Ax) as (Hn & E & W1 & HL1 & _). cbv zeta in *.
  pose proof G1 as [W Wd].
  destruct (dir_accept tol (c_p c) (c_U c) (length (c_P c)) x 1 W Px (le_n 1) Hn) as (A1 & A2 & A3 & _). cbv zeta in *.
  unfold insS. cbn [fst snd]. rewrite E in W1, HL1 |- *. cbn [fst c_p c_U c_P] in *.
  set (k := find_span_linear Rops (c_p c) (c_U c) (length (c_P c)) x) in *.
  destruct W as (Us & Hpn & HLU).
  assert (HP : Permutation (Rm ++ knot_insertion_kv (c_U c) x k 1) ((x :: Rm) ++ c_U c)).
  { eapply Permutation_trans; [apply Permutation_app_head; apply kv_perm|]. cbn [repeat app].
    apply Permutation_sym. apply Permutation_middle. }
  split; [exact W1|]. cbn [c_p c_U c_P]. split; [|split].
  - intros x' Hx'. rewrite HL1. unfold kn. rewrite !kv_nth by lia.
    destruct (Nat.leb_spec (c_p c) k); [|lia]. destruct (Nat.leb_spec (length (c_P c) + 1) k); [lia|].
    destruct (Nat.leb_spec (length (c_P c) + 1) (k + 1)); [lia|].
    replace (length (c_P c) + 1 - 1) with (length (c_P c)) by lia. apply G2. right. exact Hx'.
  - intros x' z Hx' Hz. apply G3; [right; exact Hx'|]. apply (Permutation_in _ HP). exact Hz.
  - intros x' Hx'. rewrite (proj1 (Permutation_count_occ Req_EM_T _ _) HP x'). apply G4. right. exact Hx'.
Qed.

Lemma good_chain : forall l c, Good c l -> chain tol dim c (singles l).
Proof.
  induction l as [|x l IH]; intros c G; [exact I|]. cbn [singles map chain]. split.
  - intros _. cbn [fst snd]. destruct (Good_head c x l G) as [Px Ax]. split; [apply G|]. split; assumption.
  - apply IH. apply Good_step. exact G.
Qed.

Lemma swap_eq c x y Rm : Good c (x :: y :: Rm) ->
  insS tol (insS tol c (x, 1)) (y, 1) = insS tol (insS tol c (y, 1)) (x, 1).
Proof.
  intros G. destruct (Req_dec x y) as [->|Hne]; [reflexivity|].
  destruct (Good_head c x _ G) as [Px Ax].
  assert (G' : Good c (y :: x :: Rm)) by (apply (Good_perm c (x :: y :: Rm)); [apply perm_swap|exact G]).
  destruct (Good_head c y _ G') as [Py Ay].
  pose proof G as (G1 & _ & G3 & _).
  assert (Hfar : (tol < Rabs (x - y))%R).
  { destruct (Rlt_le_dec tol (Rabs (x - y))) as [|Hle]; [assumption|]. exfalso. apply Hne. symmetry.
    apply (G3 x y); [left; reflexivity|right; left; reflexivity|exact Hle]. }
  unfold insS. cbn [fst snd].
  destruct (Rlt_le_dec x y) as [Hlt|Hge].
  - rewrite Rabs_left in Hfar by lra.
    apply (ins1_commute_lt tol c dim x y); try assumption; lra.
  - assert (Hlt : (y < x)%R) by lra. rewrite Rabs_right in Hfar by lra. symmetry.
    apply (ins1_commute_lt tol c dim y x); try assumption; lra.
Qed.

(* [G] order independence *)
Lemma perm_fold : forall l l', Permutation l l' -> forall c, Good c l ->
  fold_left (insS tol) (singles l) c = fold_left (insS tol) (singles l') c.
Proof.
  induction 1 as [|x l l' HP IH|x y l|l l' l'' HP1 IH1 HP2 IH2]; intros c G.
  - reflexivity.
  - cbn [singles map fold_left]. apply IH. apply Good_step. exact G.
  - cbn [singles map fold_left]. f_equal. apply swap_eq with (Rm := l). exact G.
  - rewrite (IH1 c G). apply IH2. apply (Good_perm c l); assumption.
Qed.
End Order.
