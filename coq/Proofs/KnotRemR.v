(* Theorems about Model.KnotRem at the real-number instance:
   - knot_removal_kv inverts knot_insertion_kv, lengths;
   - the control net shrinks by exactly the removal count;
   - remove1_insert1_id: one removal applied to the net of the single-insertion equations gives back the
     original net, and the Eq. 5.30 test distance is 0 (field algebra on the two sweeps of Eq. 5.28). *)
From Coq Require Import List Reals Lra Lia Arith Bool.
From NV Require Import Scalar.Ops Model.Common Model.Basis Model.KnotIns Model.InsertKnot Model.KnotRem
  Proofs.BasisR Proofs.KnotInsR.
Import ListNotations.

(* ---------------------------------------------------------------- knot vectors (any element type) *)
Section KV.
Context {A : Type}.
Implicit Types (U : list A) (u : A).

Lemma rem_kv_length U span r : (1 <= r <= S span)%nat -> (span < length U)%nat ->
  length (knot_removal_kv U span r) = (length U - r)%nat.
Proof.
  intros Hr Hs. unfold knot_removal_kv.
  destruct (Nat.ltb_spec r 1); [lia|].
  rewrite app_length, firstn_length, skipn_length. lia.
Qed.

Lemma firstn_repeat_le (u : A) : forall m r, (m <= r)%nat -> firstn m (repeat u r) = repeat u m.
Proof. induction m as [|m IH]; intros [|r] H; cbn; auto; try lia. f_equal. apply IH. lia. Qed.

Lemma cut_middle (X B C : list A) m : (m <= length B)%nat ->
  firstn (length X + m) (X ++ B ++ C) ++ skipn (length X + length B) (X ++ B ++ C) = X ++ firstn m B ++ C.
Proof.
  intros Hm.
  rewrite firstn_app. rewrite firstn_all2 by lia.
  replace (length X + m - length X)%nat with m by lia.
  rewrite firstn_app. replace (m - length B)%nat with 0%nat by lia. cbn [firstn]. rewrite app_nil_r.
  rewrite skipn_app. rewrite (skipn_all2 X) by lia. cbn [app].
  replace (length X + length B - length X)%nat with (length B) by lia.
  rewrite skipn_app, Nat.sub_diag. rewrite skipn_all. cbn [skipn app].
  rewrite <- app_assoc. reflexivity.
Qed.

(* removing j of the r copies inserted after index k leaves r - j of them *)
Lemma rem_kv_ins_kv_partial U u k r j : (k < length U)%nat -> (j <= r)%nat ->
  knot_removal_kv (knot_insertion_kv U u k r) (k + r) j = knot_insertion_kv U u k (r - j).
Proof.
  intros Hk Hj. unfold knot_removal_kv.
  destruct (Nat.ltb_spec j 1) as [H0|H1].
  - replace (r - j)%nat with r by lia. reflexivity.
  - unfold knot_insertion_kv.
    assert (Hf : length (firstn (S k) U) = S k) by (rewrite firstn_length; lia).
    pose proof (cut_middle (firstn (S k) U) (repeat u r) (skipn (S k) U) (r - j)) as H.
    rewrite repeat_length, Hf in H.
    replace (S (k + r) - j)%nat with (S k + (r - j))%nat by lia.
    replace (S (k + r)) with (S k + r)%nat by lia.
    rewrite H by lia. rewrite firstn_repeat_le by lia. reflexivity.
Qed.

Theorem rem_kv_inverts_ins_kv U u k r : (k < length U)%nat ->
  knot_removal_kv (knot_insertion_kv U u k r) (k + r) r = U.
Proof.
  intros Hk. rewrite rem_kv_ins_kv_partial by lia. rewrite Nat.sub_diag.
  unfold knot_insertion_kv. cbn [repeat app]. apply firstn_skipn.
Qed.
End KV.

Open Scope R_scope.

(* ---------------------------------------------------------------- point algebra *)
Lemma lerp_length a (x y : list R) : length x = length y -> length (lerp Rops a x y) = length x.
Proof. intros H. unfold lerp. rewrite map_length, combine_length. lia. Qed.

Lemma unlerp_i_lerp a : a <> 0 -> forall x y : list R, length x = length y ->
  unlerp_i Rops a (lerp Rops a x y) x = y.
Proof.
  intros Ha. induction x as [|x0 x IH]; intros [|y0 y] H; cbn in H; try discriminate; auto.
  unfold unlerp_i, lerp in *. cbn [combine map fst snd]. rsimp. f_equal.
  - field. exact Ha.
  - apply IH. lia.
Qed.

Lemma unlerp_j_lerp a : 1 - a <> 0 -> forall x y : list R, length x = length y ->
  unlerp_j Rops a (lerp Rops a x y) y = x.
Proof.
  intros Ha. induction x as [|x0 x IH]; intros [|y0 y] H; cbn in H; try discriminate; auto.
  unfold unlerp_j, lerp in *. cbn [combine map fst snd]. rsimp. f_equal.
  - field. exact Ha.
  - apply IH. lia.
Qed.

Lemma mix_lerp a : forall x y : list R, mix Rops a y x = lerp Rops a x y.
Proof.
  induction x as [|x0 x IH]; intros [|y0 y]; try reflexivity.
  unfold mix, lerp in *. cbn [combine map fst snd]. rsimp. f_equal. apply IH.
Qed.

Lemma firstn_lerp a n : forall x y : list R, firstn n (lerp Rops a x y) = lerp Rops a (firstn n x) (firstn n y).
Proof.
  induction n as [|n IH]; intros x y; [reflexivity|].
  destruct x as [|x0 x], y as [|y0 y]; try reflexivity. unfold lerp in *. cbn [firstn combine map]. f_equal. apply IH.
Qed.

Lemma dist2_refl : forall x : list R, dist2 Rops x x = 0.
Proof.
  induction x as [|x0 x IH]; [reflexivity|].
  unfold dist2 in *. cbn [combine map sumT fst snd]. rsimp. rewrite IH. ring.
Qed.

Lemma Rleb_true x y : x <= y -> Rleb x y = true.
Proof. intros H. unfold Rleb. destruct (Rle_dec x y); [reflexivity|contradiction]. Qed.

(* ---------------------------------------------------------------- counts *)
Lemma div2_spec n : (2 * Nat.div2 n = n \/ 2 * Nat.div2 n + 1 = n)%nat.
Proof. pose proof (Nat.div2_odd n) as H. destruct (Nat.odd n); cbn in H; lia. Qed.

Lemma rem_step_length td tol2 p U u r s Pw t : length (rem_step Rops td tol2 p U u r s Pw t) = length Pw.
Proof.
  unfold rem_step. cbv zeta.
  match goal with |- context [if ?b then map _ _ else _] => destruct b end; [|reflexivity].
  rewrite map_length, seq_length. reflexivity.
Qed.

Lemma fold_rem_step_length td tol2 p U u r s : forall l Pw,
  length (fold_left (rem_step Rops td tol2 p U u r s) l Pw) = length Pw.
Proof. induction l as [|t l IH]; intros Pw; cbn [fold_left]; auto. rewrite IH. apply rem_step_length. Qed.

(* the control net shrinks by exactly the removal count (whatever the removability test says) *)
Theorem knot_removal_length td tol2 p U P u num s r :
  (1 <= num <= s)%nat -> (p + s <= r)%nat -> (r < length P)%nat ->
  length (knot_removal Rops td tol2 p U P u num s r) = (length P - num)%nat.
Proof.
  intros Hn Hs Hr. unfold knot_removal.
  destruct (Nat.ltb_spec num 1); [lia|].
  cbv zeta. rewrite app_length, firstn_length, skipn_length, fold_rem_step_length.
  pose proof (div2_spec (2 * r - s - p)). pose proof (div2_spec num). pose proof (div2_spec (num - 1)).
  lia.
Qed.

(* ---------------------------------------------------------------- one removal inverts one insertion *)
Lemma nth_map_seq {A} (f : nat -> A) n i d : (i < n)%nat -> nth i (map f (seq 0 n)) d = f i.
Proof.
  intros H. rewrite (nth_indep _ d (f 0%nat)) by (rewrite map_length, seq_length; exact H).
  rewrite map_nth. rewrite seq_nth by exact H. reflexivity.
Qed.

Lemma nth_map_seq_from {A} (f : nat -> A) a n i d : (i < n)%nat -> nth i (map f (seq a n)) d = f (a + i)%nat.
Proof.
  intros H. rewrite (nth_indep _ d (f 0%nat)) by (rewrite map_length, seq_length; exact H).
  rewrite map_nth. rewrite seq_nth by exact H. reflexivity.
Qed.

Lemma last_map_seq {A} (f : nat -> A) a c : (1 <= a)%nat -> last (map f (seq a c)) (f (a - 1)%nat) = f (a + c - 1)%nat.
Proof.
  intros Ha. destruct c as [|c].
  - cbn. f_equal. lia.
  - rewrite seq_S_end, map_app. cbn [map]. rewrite last_last. f_equal. lia.
Qed.

(* the control net after one insertion of u (multiplicity s, span k), in closed form:
   Q_i = P_i (i <= k-p), alpha_i P_i + (1 - alpha_i) P_(i-1) (k-p < i <= k-s), P_(i-1) (i > k-s) *)
Definition insert1_net (p : nat) (U : list R) (P : list (list R)) (u : R) (s k : nat) : list (list R) :=
  map (fun i => if Nat.leb i (k - p) then getp P i
                else if Nat.leb i (k - s)
                     then lerp Rops (ins_alpha Rops U u k (i - (k - p + 1)) (k - p + 1)) (getp P (i - 1)) (getp P i)
                     else getp P (i - 1)) (seq 0 (S (length P))).

Section Rem1.
Variables (td : nat) (tol2 : R) (p : nat) (U : list R) (P : list (list R)) (u : R) (s k d : nat).
Hypothesis Hsp : (s < p)%nat.
Hypothesis Hpk : (p <= k)%nat.
Hypothesis HkP : (k < length P)%nat.
Hypothesis HkU : (k < length U)%nat.
Hypothesis Hdim : Forall (fun pt => length pt = d) P.
Hypothesis Htol : 0 <= tol2.
(* every alpha of the insertion lies strictly between 0 and 1 *)
Hypothesis Hsep : forall i, (k - p < i <= k - s)%nat -> knR U i < u < knR U (i + p).

Let Ub := knot_insertion_kv U u k 1.
Let Q := insert1_net p U P u s k.
Let first := (S k - p)%nat.
Let lst := (k - s)%nat.
Let alpha (i : nat) : R := (u - knR U i) / (knR U (i + p) - knR U i).
Let c := Nat.div2 (p - s).

Lemma getp_dim i : (i < length P)%nat -> length (getp P i) = d.
Proof. intros H. unfold getp. rewrite Forall_forall in Hdim. apply Hdim. apply nth_In. exact H. Qed.

Lemma Q_length : length Q = S (length P).
Proof. unfold Q, insert1_net. rewrite map_length, seq_length. reflexivity. Qed.

Lemma Q_lo i : (i <= k - p)%nat -> getp Q i = getp P i.
Proof.
  intros H. unfold getp at 1. unfold Q, insert1_net. rewrite nth_map_seq by lia.
  destruct (Nat.leb_spec i (k - p)); [reflexivity|lia].
Qed.

Lemma Q_mid i : (first <= i <= lst)%nat -> getp Q i = lerp Rops (alpha i) (getp P (i - 1)) (getp P i).
Proof.
  intros H. unfold first, lst in H. unfold getp at 1. unfold Q, insert1_net. rewrite nth_map_seq by lia.
  destruct (Nat.leb_spec i (k - p)); [lia|].
  destruct (Nat.leb_spec i (k - s)); [|lia].
  f_equal. unfold ins_alpha, alpha. rsimp.
  replace (k - p + 1 + (i - (k - p + 1)))%nat with i by lia.
  replace (S (i - (k - p + 1) + k)) with (i + p)%nat by lia. reflexivity.
Qed.

Lemma Q_hi i : (lst < i <= length P)%nat -> getp Q i = getp P (i - 1).
Proof.
  intros H. unfold lst in H. unfold getp at 1. unfold Q, insert1_net. rewrite nth_map_seq by lia.
  destruct (Nat.leb_spec i (k - p)); [lia|].
  destruct (Nat.leb_spec i (k - s)); [lia|reflexivity].
Qed.

Lemma Ub_lo i : (i <= k)%nat -> knR Ub i = knR U i.
Proof. intros H. unfold Ub, kn. rewrite kv_nth by exact HkU. destruct (Nat.leb_spec i k); [reflexivity|lia]. Qed.

Lemma Ub_hi i : (k + 1 < i)%nat -> knR Ub i = knR U (i - 1).
Proof.
  intros H. unfold Ub, kn. rewrite kv_nth by exact HkU.
  destruct (Nat.leb_spec i k); [lia|]. destruct (Nat.leb_spec i (k + 1)); [lia|reflexivity].
Qed.

Lemma alpha_rem_i i : (first <= i <= lst)%nat -> rem_alpha_i Rops Ub u p 0 i = alpha i.
Proof.
  intros H. unfold first, lst in H. unfold rem_alpha_i, alpha. rsimp.
  rewrite Ub_lo by lia. rewrite Ub_hi by lia.
  replace (i + p + 1 + 0 - 1)%nat with (i + p)%nat by lia. reflexivity.
Qed.

Lemma alpha_rem_j j : (first <= j <= lst)%nat -> rem_alpha_j Rops Ub u p 0 j = alpha j.
Proof.
  intros H. unfold first, lst in H. unfold rem_alpha_j, alpha. rsimp.
  rewrite Nat.sub_0_r. rewrite Ub_lo by lia. rewrite Ub_hi by lia.
  replace (j + p + 1 - 1)%nat with (j + p)%nat by lia. reflexivity.
Qed.

Lemma alpha_ne i : (first <= i <= lst)%nat -> alpha i <> 0 /\ 1 - alpha i <> 0.
Proof.
  intros H. unfold first, lst in H. destruct (Hsep i) as [H1 H2]; [lia|]. unfold alpha. split.
  - intro E. apply Rmult_integral in E. destruct E as [E|E]; [lra|].
    apply Rinv_neq_0_compat in E; [exact E|lra].
  - intro E. assert (E2 : (knR U (i + p) - u) / (knR U (i + p) - knR U i) = 0).
    { rewrite <- E. field. lra. }
    apply Rmult_integral in E2. destruct E2 as [E2|E2]; [lra|].
    apply Rinv_neq_0_compat in E2; [exact E2|lra].
Qed.

Lemma lsweep_spec : forall n i, (first <= i)%nat -> (i + n <= S lst)%nat ->
  lsweep Rops p Ub u 0 Q i (getp P (i - 1)) n = map (getp P) (seq i n).
Proof.
  induction n as [|n IH]; intros i H1 H2; [reflexivity|].
  assert (Hl : (lst <= k)%nat) by (unfold lst; lia).
  assert (Hf : (1 <= first)%nat) by (unfold first; lia).
  cbn [lsweep seq map]. rewrite alpha_rem_i by lia. rewrite Q_mid by lia.
  rewrite unlerp_i_lerp; [| apply alpha_ne; lia | rewrite !getp_dim by lia; reflexivity].
  f_equal. specialize (IH (S i)). replace (S i - 1)%nat with i in IH by lia. apply IH; lia.
Qed.

Lemma rsweep_spec : forall n j, (j <= lst)%nat -> (first + n <= S j)%nat ->
  rsweep Rops p Ub u 0 Q j (getp P j) n = map (fun m => getp P (j - 1 - m)) (seq 0 n).
Proof.
  induction n as [|n IH]; intros j H1 H2; [reflexivity|].
  assert (Hl : (lst <= k)%nat) by (unfold lst; lia).
  assert (Hf : (1 <= first)%nat) by (unfold first; lia).
  cbn [rsweep seq map]. rewrite alpha_rem_j by lia. rewrite Q_mid by lia.
  rewrite unlerp_j_lerp; [| apply alpha_ne; lia | rewrite !getp_dim by lia; reflexivity].
  rewrite Nat.sub_0_r. f_equal.
  specialize (IH (Nat.pred j)). replace (Nat.pred j) with (j - 1)%nat in * by lia.
  rewrite IH by lia. rewrite <- seq_shift, map_map. apply map_ext. intros m. f_equal. lia.
Qed.

Lemma c_spec : (p - s = 2 * c \/ p - s = 2 * c + 1)%nat.
Proof. unfold c. destruct (div2_spec (p - s)); lia. Qed.

Lemma sweep_count0 : sweep_count first lst 0 = c.
Proof.
  unfold sweep_count, c, first, lst. f_equal. lia.
Qed.

(* the Eq. 5.30 test distance of the single removal step is exactly 0 *)
Lemma rem_test0 : rem_test Rops td p Ub u (S k) (S s) Q 0 = 0.
Proof.
  assert (Hl : (lst <= k)%nat) by (unfold lst; lia).
  assert (Hf : (1 <= first)%nat) by (unfold first; lia).
  assert (Hfl : (lst - first + 1 = p - s)%nat) by (unfold first, lst; lia).
  pose proof c_spec as Hc.
  unfold rem_test.
  replace (S k - p - 0)%nat with first by (unfold first; lia).
  replace (S k - S s + 0)%nat with lst by (unfold lst; lia).
  rewrite sweep_count0. cbv zeta.
  rewrite (Q_lo (first - 1)) by (unfold first; lia).
  rewrite (Q_hi (S lst)) by lia. replace (S lst - 1)%nat with lst by lia.
  rewrite lsweep_spec by lia. rewrite rsweep_spec by lia.
  rewrite (last_map_seq (getp P) first c) by lia.
  assert (HlastR : last (map (fun m : nat => getp P (lst - 1 - m)) (seq 0 c)) (getp P lst) = getp P (lst - c)).
  { destruct c as [|c']; [cbn; f_equal; lia|].
    rewrite seq_S_end, map_app. cbn [map]. rewrite last_last. f_equal. lia. }
  rewrite HlastR.
  destruct (Nat.ltb_spec (lst - c) (first + c + 0)) as [Hb|Hb].
  - replace (first + c - 1)%nat with (lst - c)%nat by lia. apply dist2_refl.
  - assert (Hi : (first + c = lst - c)%nat) by lia.
    rewrite alpha_rem_i by lia. rewrite Q_mid by lia.
    rewrite <- Hi. rewrite mix_lerp. rewrite <- firstn_lerp. apply dist2_refl.
Qed.

(* the updated (not yet shifted) array after the single removal step, pointwise *)
Lemma rem_step0_nth idx : (idx < length Q)%nat ->
  getp (rem_step Rops td tol2 p Ub u (S k) (S s) Q 0) idx =
    if Nat.ltb idx (first + c) then getp P idx
    else if Nat.ltb (lst - c) idx then getp P (idx - 1)
    else getp Q idx.
Proof.
  intros Hidx. rewrite Q_length in Hidx.
  assert (Hl : (lst <= k)%nat) by (unfold lst; lia).
  assert (Hf : (1 <= first)%nat) by (unfold first; lia).
  assert (Hfl : (lst - first + 1 = p - s)%nat) by (unfold first, lst; lia).
  pose proof c_spec as Hc.
  unfold rem_step. rewrite rem_test0. cbn [oleb Rops]. rewrite (Rleb_true 0 tol2) by exact Htol.
  replace (S k - p - 0)%nat with first by (unfold first; lia).
  replace (S k - S s + 0)%nat with lst by (unfold lst; lia).
  rewrite sweep_count0. cbv zeta.
  rewrite (Q_lo (first - 1)) by (unfold first; lia).
  rewrite (Q_hi (S lst)) by lia. replace (S lst - 1)%nat with lst by lia.
  rewrite lsweep_spec by lia. rewrite rsweep_spec by lia.
  unfold getp at 1. rewrite Q_length. rewrite nth_map_seq by lia.
  destruct (Nat.ltb_spec idx (first + c)) as [H1|H1].
  - destruct (Nat.leb_spec first idx) as [H2|H2]; cbn [andb].
    + rewrite nth_map_seq_from by lia. f_equal. lia.
    + destruct (Nat.ltb_spec (lst - c) idx) as [H3|H3]; [lia|]. cbn [andb].
      fold (getp Q idx). apply Q_lo. unfold first in H2. lia.
  - rewrite andb_false_r.
    destruct (Nat.ltb_spec (lst - c) idx) as [H3|H3].
    + destruct (Nat.leb_spec idx lst) as [H4|H4]; cbn [andb].
      * rewrite nth_map_seq by lia. f_equal. lia.
      * fold (getp Q idx). apply Q_hi. lia.
    + cbn [andb]. reflexivity.
Qed.

Theorem remove1_insert1_id :
  knot_removal Rops td tol2 p (knot_insertion_kv U u k 1) (insert1_net p U P u s k) u 1 (S s) (S k) = P.
Proof.
  fold Ub. fold Q.
  assert (Hl : (lst <= k)%nat) by (unfold lst; lia).
  assert (Hf : (1 <= first)%nat) by (unfold first; lia).
  assert (Hfl : (lst - first + 1 = p - s)%nat) by (unfold first, lst; lia).
  pose proof c_spec as Hc.
  unfold knot_removal. cbn [Nat.ltb Nat.leb seq fold_left Nat.div2 Nat.sub].
  set (Pw := rem_step Rops td tol2 p Ub u (S k) (S s) Q 0).
  set (j0 := Nat.div2 (2 * S k - S s - p)).
  rewrite Nat.add_0_r, Nat.sub_0_r.
  assert (HPw : length Pw = S (length P)) by (unfold Pw; rewrite rem_step_length; apply Q_length).
  assert (Hj0 : (j0 = first + c /\ p - s = 2 * c + 1 \/ j0 + 1 = first + c /\ p - s = 2 * c)%nat).
  { unfold j0. pose proof (div2_spec (2 * S k - S s - p)). unfold first. unfold first, lst in Hfl. lia. }
  apply nth_ext with (d := []) (d' := []).
  - rewrite app_length, firstn_length, skipn_length, HPw. unfold first in Hj0. lia.
  - intros n Hn. rewrite app_length, firstn_length, skipn_length, HPw in Hn.
    assert (Hn' : (n < length P)%nat) by (unfold first in Hj0; lia).
    destruct (Nat.lt_ge_cases n j0) as [Hlt|Hge].
    + rewrite app_nth1 by (rewrite firstn_length, HPw; unfold first in Hj0; lia).
      rewrite nth_firstn_lt by exact Hlt.
      fold (getp Pw n). unfold Pw. rewrite rem_step0_nth by (rewrite Q_length; lia).
      destruct (Nat.ltb_spec n (first + c)); [reflexivity|lia].
    + rewrite app_nth2 by (rewrite firstn_length, HPw; unfold first in Hj0; lia).
      rewrite firstn_length, HPw. replace (Nat.min j0 (S (length P))) with j0 by (unfold first in Hj0; lia).
      rewrite nth_skipn_add. replace (S j0 + (n - j0))%nat with (S n) by lia.
      fold (getp Pw (S n)). unfold Pw. rewrite rem_step0_nth by (rewrite Q_length; lia).
      destruct (Nat.ltb_spec (S n) (first + c)); [lia|].
      destruct (Nat.ltb_spec (lst - c) (S n)); [|lia].
      unfold getp. f_equal. lia.
Qed.
End Rem1.

(* the closed form is the model's single insertion (builder A's knot_insertion1_nth) *)
Lemma insert1_net_is_model p U P u s k : (s < p)%nat -> (p <= k)%nat -> (k < length P)%nat ->
  knot_insertion Rops p U P u 1 s k = insert1_net p U P u s k.
Proof.
  intros H1 H2 H3. apply nth_ext with (d := []) (d' := []).
  - rewrite (knot_insertion1_length Rops) by assumption. unfold insert1_net. rewrite map_length, seq_length. reflexivity.
  - intros n Hn. rewrite (knot_insertion1_length Rops) in Hn by assumption.
    fold (getp (knot_insertion Rops p U P u 1 s k) n). rewrite (knot_insertion1_nth Rops) by assumption.
    unfold insert1_net. rewrite nth_map_seq by exact Hn. reflexivity.
Qed.

(* model level: helpers.knot_removal after helpers.knot_insertion (num = 1 each) is the identity on control nets *)
Theorem remove1_insert1_model td tol2 p U P u s k d :
  (s < p)%nat -> (p <= k)%nat -> (k < length P)%nat -> (k < length U)%nat ->
  Forall (fun pt => length pt = d) P -> 0 <= tol2 ->
  (forall i, (k - p < i <= k - s)%nat -> knR U i < u < knR U (i + p)) ->
  knot_removal Rops td tol2 p (knot_insertion_kv U u k 1) (knot_insertion Rops p U P u 1 s k) u 1 (S s) (S k) = P.
Proof.
  intros. rewrite insert1_net_is_model by assumption. eapply remove1_insert1_id; eassumption.
Qed.

(* the alpha condition follows from sortedness when u lies strictly inside (U[k-s], U[k+1]) *)
Lemma alphas_strict U u p s k : sortedR U -> (k + p < length U)%nat ->
  knR U (k - s) < u -> u < knR U (k + 1) ->
  forall i, (k - p < i <= k - s)%nat -> knR U i < u < knR U (i + p).
Proof.
  intros Hs Hlen H1 H2 i Hi. split.
  - apply Rle_lt_trans with (knR U (k - s)); [apply Hs; lia|exact H1].
  - apply Rlt_le_trans with (knR U (k + 1)); [exact H2|apply Hs; lia].
Qed.

Theorem remove1_insert1_sorted td tol2 p U P u s k d :
  sortedR U -> (s < p)%nat -> (p <= k)%nat -> (k < length P)%nat -> (k + p < length U)%nat ->
  knR U (k - s) < u -> u < knR U (k + 1) ->
  Forall (fun pt => length pt = d) P -> 0 <= tol2 ->
  knot_removal Rops td tol2 p (knot_insertion_kv U u k 1) (knot_insertion Rops p U P u 1 s k) u 1 (S s) (S k) = P.
Proof.
  intros HS H1 H2 H3 H4 H5 H6 H7 H8.
  apply remove1_insert1_model with (d := d); auto; try lia.
  apply alphas_strict; auto.
Qed.

Theorem remove1_insert1_test_zero td p U P u s k d :
  (s < p)%nat -> (p <= k)%nat -> (k < length P)%nat -> (k < length U)%nat ->
  Forall (fun pt => length pt = d) P ->
  (forall i, (k - p < i <= k - s)%nat -> knR U i < u < knR U (i + p)) ->
  rem_test Rops td p (knot_insertion_kv U u k 1) u (S k) (S s) (knot_insertion Rops p U P u 1 s k) 0 = 0.
Proof.
  intros. rewrite insert1_net_is_model by assumption. eapply rem_test0; eassumption.
Qed.
