(* C08, helpers for Proofs/DegreeGeneral.v: finite sums of reals indexed by nat, list <-> sum links,
   facts about Model.Degree.binom (Pascal triangle) including its factorial form and the binomial theorem. *)
From Coq Require Import List Reals Lra Lia Arith Bool ZArith.
From NV Require Import Scalar.Ops Model.Common Model.Degree.
Import ListNotations.
Open Scope R_scope.

(* ---- rsum f n = f 0 + ... + f (n-1) ---- *)
Fixpoint rsum (f : nat -> R) (n : nat) : R := match n with O => 0 | S m => rsum f m + f m end.

Lemma rsum_ext f g n : (forall i, (i < n)%nat -> f i = g i) -> rsum f n = rsum g n.
Proof.
  induction n as [|n IH]; intros H; cbn [rsum]; [reflexivity|].
  rewrite IH by (intros i Hi; apply H; lia). rewrite (H n) by lia. reflexivity.
Qed.

Lemma rsum_zero f n : (forall i, (i < n)%nat -> f i = 0) -> rsum f n = 0.
Proof.
  induction n as [|n IH]; intros H; cbn [rsum]; [reflexivity|].
  rewrite IH by (intros i Hi; apply H; lia). rewrite (H n) by lia. lra.
Qed.

Lemma rsum_plus f g n : rsum (fun i => f i + g i) n = rsum f n + rsum g n.
Proof. induction n as [|n IH]; cbn [rsum]; [lra|]. rewrite IH. lra. Qed.

Lemma rsum_scal c f n : rsum (fun i => c * f i) n = c * rsum f n.
Proof. induction n as [|n IH]; cbn [rsum]; [lra|]. rewrite IH. lra. Qed.

Lemma rsum_scal_r c f n : rsum (fun i => f i * c) n = rsum f n * c.
Proof. induction n as [|n IH]; cbn [rsum]; [lra|]. rewrite IH. lra. Qed.

Lemma rsum_div c f n : rsum (fun i => f i / c) n = rsum f n / c.
Proof. unfold Rdiv. apply rsum_scal_r. Qed.

Lemma rsum_swap (f : nat -> nat -> R) n m :
  rsum (fun i => rsum (fun j => f i j) m) n = rsum (fun j => rsum (fun i => f i j) n) m.
Proof.
  induction n as [|n IH]; cbn [rsum].
  - symmetry. apply rsum_zero. reflexivity.
  - rewrite IH. rewrite <- rsum_plus. reflexivity.
Qed.

Lemma rsum_app f n m : rsum f (n + m) = rsum f n + rsum (fun k => f (n + k)%nat) m.
Proof.
  induction m as [|m IH].
  - rewrite Nat.add_0_r. cbn [rsum]. lra.
  - rewrite Nat.add_succ_r. cbn [rsum]. rewrite IH. lra.
Qed.

(* terms vanish from m on *)
Lemma rsum_trunc f m n : (m <= n)%nat -> (forall i, (m <= i < n)%nat -> f i = 0) -> rsum f n = rsum f m.
Proof.
  intros Hmn H. replace n with (m + (n - m))%nat by lia. rewrite rsum_app.
  rewrite (rsum_zero (fun k => f (m + k)%nat)) by (intros i Hi; apply H; lia). lra.
Qed.

(* terms vanish below s *)
Lemma rsum_shift f s m : (forall i, (i < s)%nat -> f i = 0) -> rsum f (s + m) = rsum (fun k => f (s + k)%nat) m.
Proof. intros H. rewrite rsum_app, (rsum_zero f s) by exact H. lra. Qed.

(* only the window [s, s+len) contributes *)
Lemma rsum_window f s len n : (s + len <= n)%nat ->
  (forall i, (i < s)%nat -> f i = 0) -> (forall i, (s + len <= i < n)%nat -> f i = 0) ->
  rsum f n = rsum (fun k => f (s + k)%nat) len.
Proof.
  intros Hn Hlo Hhi. rewrite (rsum_trunc f (s + len) n Hn Hhi). apply rsum_shift. exact Hlo.
Qed.

Lemma sum_f_R0_rsum f n : sum_f_R0 f n = rsum f (S n).
Proof. induction n as [|n IH]; [cbn; lra|]. cbn [sum_f_R0]. rewrite IH. reflexivity. Qed.

(* ---- lists ---- *)
Lemma sumT_snoc l x : sumT Rops (l ++ [x]) = sumT Rops l + x.
Proof. induction l as [|y l IH]; cbn [app sumT]; rsimp; [lra|]. rewrite IH. lra. Qed.

Lemma sumT_map_seq (f : nat -> R) s n : sumT Rops (map f (seq s n)) = rsum (fun k => f (s + k)%nat) n.
Proof.
  induction n as [|n IH]; [reflexivity|].
  rewrite seq_S, map_app. cbn [map]. rewrite sumT_snoc, IH. reflexivity.
Qed.

Lemma sumT_map_seq0 (f : nat -> R) n : sumT Rops (map f (seq 0 n)) = rsum f n.
Proof. rewrite sumT_map_seq. apply rsum_ext. reflexivity. Qed.

Lemma fold_left_rsum (g : nat -> R) s n a :
  fold_left (fun acc j => acc + g j) (seq s n) a = a + rsum (fun k => g (s + k)%nat) n.
Proof.
  induction n as [|n IH]; [cbn; lra|].
  rewrite seq_S, fold_left_app, IH. cbn [fold_left rsum]. lra.
Qed.

Lemma nth_map_seq0 {A} (f : nat -> A) n k d : (k < n)%nat -> nth k (map f (seq 0 n)) d = f k.
Proof.
  intros H. rewrite (nth_indep _ d (f 0%nat)) by (rewrite map_length, seq_length; exact H).
  rewrite map_nth. rewrite seq_nth by exact H. reflexivity.
Qed.

Lemma upd_len {A} (l : list A) i x : length (upd l i x) = length l.
Proof. revert i; induction l; destruct i; simpl; auto. Qed.
Lemma nth_upd_same {A} (l : list A) i x d : (i < length l)%nat -> nth i (upd l i x) d = x.
Proof. revert i; induction l; intros [|i] H; simpl in *; try lia; auto. apply IHl. lia. Qed.
Lemma nth_upd_other {A} (l : list A) i j x d : i <> j -> nth j (upd l i x) d = nth j l d.
Proof. revert i j; induction l; intros [|i] [|j] H; simpl; auto; try congruence. Qed.

(* ---- float(n) of the model is INR n ---- *)
Lemma ofnat_bin_INR' : forall fuel n, (n <= fuel)%nat -> ofnat_bin Rops fuel n = INR n.
Proof.
  induction fuel as [|f IH]; intros n Hn.
  - assert (n = 0%nat) by lia. subst. reflexivity.
  - cbn [ofnat_bin]. destruct (Nat.eqb_spec n 0) as [->|H0]; [reflexivity|].
    destruct (Nat.eqb_spec n 1) as [->|H1]; [reflexivity|].
    assert (Hd : (Nat.div2 n <= f)%nat).
    { pose proof (Nat.div2_odd n) as E0. destruct (Nat.odd n); cbn [Nat.b2n] in E0; lia. }
    rewrite (IH _ Hd). unfold o2. rsimp.
    pose proof (Nat.div2_odd n) as E.
    destruct (Nat.odd n) eqn:Ho; cbn [Nat.b2n] in E.
    + rewrite E at 2. rewrite plus_INR, mult_INR. simpl. lra.
    + rewrite E at 2. rewrite plus_INR, mult_INR. simpl. lra.
Qed.
Lemma ofnatb_INR' n : ofnatb Rops n = INR n.
Proof. apply ofnat_bin_INR'. lia. Qed.

(* ---- Pascal triangle ---- *)
Lemma binom_pascal k i : binom (S k) (S i) = (binom k i + binom k (S i))%nat.
Proof. reflexivity. Qed.
Lemma binom_n0 k : binom k 0 = 1%nat.
Proof. destruct k; reflexivity. Qed.
Lemma binom_above : forall k i, (k < i)%nat -> binom k i = 0%nat.
Proof. induction k; intros [|i] H; try lia; cbn [binom]; [reflexivity|]. rewrite !IHk by lia. reflexivity. Qed.
Lemma binom_nn k : binom k k = 1%nat.
Proof. induction k; cbn [binom]; [reflexivity|]. rewrite IHk, binom_above by lia. reflexivity. Qed.
Lemma binom_pos : forall k i, (i <= k)%nat -> (0 < binom k i)%nat.
Proof.
  induction k; intros [|i] H; try lia; cbn [binom]; try lia.
  assert (0 < binom k i)%nat by (apply IHk; lia). lia.
Qed.
Lemma binom_INR_pos k i : (i <= k)%nat -> 0 < INR (binom k i).
Proof. intros H. apply lt_0_INR. apply binom_pos. exact H. Qed.

(* factorial form: the formula linalg.binomial_coefficient evaluates *)
Lemma binom_fact : forall k i, (i <= k)%nat -> (binom k i * (fact i * fact (k - i)) = fact k)%nat.
Proof.
  induction k as [|k IH]; intros [|i] H; try lia.
  - reflexivity.
  - rewrite binom_n0, Nat.sub_0_r. change (fact 0) with 1%nat. lia.
  - rewrite binom_pascal. replace (S k - S i)%nat with (k - i)%nat by lia.
    destruct (Nat.eq_dec i k) as [->|Hne].
    + rewrite (binom_above k (S k)) by lia. rewrite Nat.add_0_r. rewrite binom_nn, Nat.sub_diag. change (fact 0) with 1%nat. lia.
    + assert (H1 := IH i ltac:(lia)). assert (H2 := IH (S i) ltac:(lia)).
      replace (k - i)%nat with (S (k - S i)) in * by lia.
      set (m := (k - S i)%nat) in *.
      assert (Hk : (S k = S i + S m)%nat) by (unfold m; lia).
      change (fact (S k)) with (S k * fact k)%nat.
      change (fact (S i)) with (S i * fact i)%nat in *.
      change (fact (S m)) with (S m * fact m)%nat in *.
      transitivity (S i * (binom k i * (fact i * (S m * fact m))) + S m * (binom k (S i) * (S i * fact i * fact m)))%nat; [ring|].
      rewrite H1, H2, Hk. ring.
Qed.

Lemma binom_div_fact k i : (i <= k)%nat -> binom k i = (fact k / (fact (k - i) * fact i))%nat.
Proof.
  intros H. rewrite <- (binom_fact k i H). rewrite (Nat.mul_comm (fact i)).
  symmetry. apply Nat.div_mul.
  pose proof (fact_neq_0 i). pose proof (fact_neq_0 (k - i)). lia.
Qed.

Lemma binom_C k i : (i <= k)%nat -> INR (binom k i) = C k i.
Proof.
  intros H. unfold C. pose proof (binom_fact k i H) as E.
  apply (f_equal INR) in E. rewrite !mult_INR in E. rewrite <- E.
  field. split; apply INR_fact_neq_0.
Qed.

(* binomial theorem on the Pascal triangle of the model *)
Lemma binom_theorem x y n : rsum (fun k => INR (binom n k) * x ^ k * y ^ (n - k)) (S n) = (x + y) ^ n.
Proof.
  rewrite binomial, sum_f_R0_rsum. apply rsum_ext. intros i Hi. rewrite binom_C by lia. reflexivity.
Qed.

(* absorption identities *)
Lemma binom_absorb : forall n i, (binom (S n) (S i) * S i = S n * binom n i)%nat.
Proof.
  induction n as [|n IH]; intros i.
  - destruct i as [|i]; [reflexivity|]. cbn [binom]. destruct i; reflexivity.
  - rewrite (binom_pascal (S n) i). destruct i as [|i].
    + rewrite binom_n0. pose proof (IH 0%nat) as E. rewrite binom_n0 in E. lia.
    + pose proof (IH i) as E1. pose proof (IH (S i)) as E2.
      rewrite (binom_pascal n i).
      set (a := binom (S n) (S i)) in *. set (b := binom (S n) (S (S i))) in *.
      set (c := binom n i) in *. set (e := binom n (S i)) in *.
      assert (Ea : a = (c + e)%nat) by reflexivity. nia.
Qed.

Lemma binom_absorb_R n i : INR (binom (S n) (S i)) * INR (S i) = INR (S n) * INR (binom n i).
Proof. rewrite <- !mult_INR. f_equal. apply binom_absorb. Qed.

Lemma binom_absorb_R2 n i : INR (binom (S n) i) * (INR (S n) - INR i) = INR (S n) * INR (binom n i).
Proof.
  destruct i as [|i].
  - rewrite !binom_n0. change (INR 0) with 0. change (INR 1) with 1. lra.
  - pose proof (binom_absorb_R n i) as A. rewrite binom_pascal, plus_INR in *.
    rewrite Rmult_minus_distr_l, A. ring.
Qed.
