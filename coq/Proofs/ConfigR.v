(* C17: results do not depend on configuration choices.
   affine invariance of span search / basis functions / evaluation (normalize_kv on or off),
   binary span search = linear span search, order-preserving chunked map, transparent memoisation. *)
From Coq Require Import List Reals Lra Lia Arith Bool.
From Coq Require String.
From NV Require Import Scalar.Ops Model.Common Model.Basis Model.Knots Model.Eval Model.Config Proofs.BasisR Proofs.KnotsR.
Import ListNotations.
Open Scope R_scope.

(* ================= 1. affine knot range ================= *)
Section Aff.
Variables (a b : R).
Hypothesis Ha : 0 < a.
Notation AU := (aff_kv Rops a b).

Lemma kn_aff U i : (i < length U)%nat -> knR (AU U) i = a * knR U i + b.
Proof.
  intros Hi. unfold kn, aff_kv. cbn [o0 Rops]. rewrite (nth_indep _ 0 (aff1 Rops a b 0)) by (rewrite map_length; exact Hi).
  rewrite (map_nth (aff1 Rops a b)). reflexivity.
Qed.
Lemma aff_length U : length (AU U) = length U. Proof. apply map_length. Qed.

Lemma left_aff U span u k : (span + 1 - k < length U)%nat ->
  Basis.left Rops (AU U) span (a * u + b) k = a * Basis.left Rops U span u k.
Proof. intros H. unfold Basis.left. rsimp. rewrite kn_aff by exact H. lra. Qed.
Lemma right_aff U span u k : (span + k < length U)%nat ->
  Basis.right Rops (AU U) span (a * u + b) k = a * Basis.right Rops U span u k.
Proof. intros H. unfold Basis.right. rsimp. rewrite kn_aff by exact H. lra. Qed.

Lemma scaled_quot r x D : a * r * (x / (a * D)) = r * (x / D).
Proof.
  destruct (Req_dec D 0) as [->|HD].
  - rewrite Rmult_0_r. unfold Rdiv. rewrite Rinv_0. lra.
  - field. split; lra.
Qed.

Lemma inner_aff U span u j : (span + j < length U)%nat -> forall Nold r saved, (r + length Nold = j)%nat ->
  Basis.inner Rops (AU U) span (a * u + b) j r Nold saved = Basis.inner Rops U span u j r Nold saved.
Proof.
  intros HL. induction Nold as [|x rest IH]; intros r saved Hlen; cbn [Basis.inner]; [reflexivity|].
  cbn [length] in Hlen. rewrite IH by lia.
  rewrite !right_aff by lia. rewrite !left_aff by lia. rsimp.
  replace (a * Basis.right Rops U span u (S r) + a * Basis.left Rops U span u (j - r))
     with (a * (Basis.right Rops U span u (S r) + Basis.left Rops U span u (j - r))) by ring.
  rewrite !scaled_quot. reflexivity.
Qed.

Lemma inner_len U span u j : forall l r s, length (Basis.inner Rops U span u j r l s) = S (length l).
Proof. induction l; simpl; intros; auto. Qed.
Lemma bf_len U span u p : length (basis_function Rops p U span u) = S p.
Proof. induction p; simpl; auto. rewrite inner_len, IHp. reflexivity. Qed.

(* basis functions are invariant under an increasing affine change of the knot range, at the same span *)
Theorem bf_aff U span u p : (span + p < length U)%nat ->
  basis_function Rops p (AU U) span (a * u + b) = basis_function Rops p U span u.
Proof.
  induction p as [|q IH]; intros HL; cbn [basis_function]; [reflexivity|].
  rewrite IH by lia. apply inner_aff; [lia|]. rewrite bf_len. lia.
Qed.

Lemma aux_aff U n u fuel : (n <= length U)%nat -> forall span,
  find_span_linear_aux Rops fuel (AU U) n span (a * u + b) = find_span_linear_aux Rops fuel U n span u.
Proof.
  intros Hn. induction fuel as [|f IH]; intros span; cbn [find_span_linear_aux]; [reflexivity|].
  destruct (Nat.ltb_spec span n) as [Hlt|Hge]; cbn [andb]; [|reflexivity].
  rewrite kn_aff by lia. rsimp. unfold Rleb.
  destruct (Rle_dec (a * knR U span + b) (a * u + b)) as [H1|H1]; destruct (Rle_dec (knR U span) u) as [H2|H2]; try (rewrite IH; reflexivity); try reflexivity; exfalso; nra.
Qed.
(* the same span is found *)
Theorem span_aff U p n u : (n <= length U)%nat -> find_span_linear Rops p (AU U) n (a * u + b) = find_span_linear Rops p U n u.
Proof. intros Hn. unfold find_span_linear. rewrite aux_aff by exact Hn. reflexivity. Qed.

Lemma aux_bounds U n u fuel : forall span, (span <= n)%nat -> (span <= find_span_linear_aux Rops fuel U n span u <= n)%nat.
Proof.
  induction fuel as [|f IH]; intros span Hs; cbn [find_span_linear_aux]; [lia|].
  destruct (Nat.ltb_spec span n); cbn [andb]; [|lia].
  destruct (oleb Rops (knR U span) u); [|lia]. specialize (IH (S span) ltac:(lia)). lia.
Qed.
Lemma span_lt U p n u : (p < n)%nat -> (p <= find_span_linear Rops p U n u < n)%nat.
Proof. intros H. unfold find_span_linear. pose proof (aux_bounds U n u n (S p) ltac:(lia)). lia. Qed.

(* the same points at affinely mapped parameters: curves, surfaces, volumes *)
Theorem curve_point_aff dim p U P u : (p < length P)%nat -> (length P + p <= length U)%nat ->
  curve_point Rops dim p (AU U) P (a * u + b) = curve_point Rops dim p U P u.
Proof.
  intros Hn HL. unfold curve_point. rewrite span_aff by lia.
  pose proof (span_lt U p (length P) u Hn). rewrite bf_aff by lia. reflexivity.
Qed.
End Aff.

Theorem surface_point_aff dim pu pv Uu Uv su sv P u v a b a' b' : 0 < a -> 0 < a' ->
  (pu < su)%nat -> (su + pu <= length Uu)%nat -> (pv < sv)%nat -> (sv + pv <= length Uv)%nat ->
  surface_point Rops dim pu pv (aff_kv Rops a b Uu) (aff_kv Rops a' b' Uv) su sv P (a * u + b) (a' * v + b') =
  surface_point Rops dim pu pv Uu Uv su sv P u v.
Proof.
  intros Ha Ha' Hu HLu Hv HLv. unfold surface_point. rewrite !span_aff by (assumption || lia).
  pose proof (span_lt Uu pu su u Hu). pose proof (span_lt Uv pv sv v Hv). rewrite !bf_aff by (assumption || lia). reflexivity.
Qed.

Theorem volume_point_aff dim pu pv pw Uu Uv Uw su sv sw P u v w a b a' b' a'' b'' : 0 < a -> 0 < a' -> 0 < a'' ->
  (pu < su)%nat -> (su + pu <= length Uu)%nat -> (pv < sv)%nat -> (sv + pv <= length Uv)%nat -> (pw < sw)%nat -> (sw + pw <= length Uw)%nat ->
  volume_point Rops dim pu pv pw (aff_kv Rops a b Uu) (aff_kv Rops a' b' Uv) (aff_kv Rops a'' b'' Uw) su sv sw P (a * u + b) (a' * v + b') (a'' * w + b'') =
  volume_point Rops dim pu pv pw Uu Uv Uw su sv sw P u v w.
Proof.
  intros Ha Ha' Ha'' Hu HLu Hv HLv Hw HLw. unfold volume_point. rewrite !span_aff by (assumption || lia).
  pose proof (span_lt Uu pu su u Hu). pose proof (span_lt Uv pv sv v Hv). pose proof (span_lt Uw pw sw w Hw).
  rewrite !bf_aff by (assumption || lia). reflexivity.
Qed.

(* knotvector.normalize is such a map: a = 1/(last - first) > 0, b = -first/(last - first) *)
Theorem normalize_is_affine f U : f < last (f :: U) f ->
  let l := last (f :: U) f in
  normalize Rops (f :: U) = Ok (aff_kv Rops (1 / (l - f)) (- f / (l - f)) (f :: U)) /\ 0 < 1 / (l - f) /\
  forall k, (k - f) / (l - f) = 1 / (l - f) * k + - f / (l - f).
Proof.
  intros Hl l. assert (Hlf : f < l) by exact Hl. split; [|split].
  - rewrite normalize_affine. f_equal. unfold aff_kv. apply map_ext. intros k. unfold aff1. rsimp. fold l. field. lra.
  - apply Rdiv_lt_0_compat; lra.
  - intros k. field. lra.
Qed.

(* ================= 2. binary span search (repaired end test) = linear span search ================= *)
Lemma div2_bounds x y : (x <= y)%nat -> (x <= Nat.div2 (x + y) <= y)%nat /\ ((x < y)%nat -> (Nat.div2 (x + y) < y)%nat).
Proof.
  intros H. rewrite Nat.div2_div.
  pose proof (Nat.div_mod (x + y) 2 ltac:(lia)) as E. pose proof (Nat.mod_upper_bound (x + y) 2 ltac:(lia)) as M.
  split; [split|intros]; lia.
Qed.

Section Bin.
Variables (U : list R) (u : R).
Hypothesis Usorted : sortedR U.

Lemma span_unique k k' : (k + 1 < length U)%nat -> (k' + 1 < length U)%nat ->
  knR U k <= u < knR U (k + 1) -> knR U k' <= u < knR U (k' + 1) -> k = k'.
Proof.
  intros HL HL' [H1 H2] [H3 H4].
  destruct (lt_eq_lt_dec k k') as [[Hlt|He]|Hgt]; [|exact He|].
  - assert (knR U (k + 1) <= knR U k') by (apply Usorted; lia). lra.
  - assert (knR U (k' + 1) <= knR U k) by (apply Usorted; lia). lra.
Qed.

(* the loop keeps U_low <= u < U_high and shrinks the interval; the stated fuel suffices *)
Lemma loop_spec fuel : forall low high mid,
  (low < high)%nat -> (low <= mid <= high)%nat -> (low < mid \/ high = S low)%nat -> (high < length U)%nat ->
  knR U low <= u < knR U high ->
  (high - low + (if Nat.eqb mid high then 1 else 0) < fuel)%nat ->
  exists k, binsearch_loop Rops fuel U u low high mid = Some k /\ (low <= k < high)%nat /\ knR U k <= u < knR U (k + 1).
Proof.
  induction fuel as [|f IH]; intros low high mid Hlh Hm Hinv HL [Hlo Hhi] Hf; [lia|].
  cbn [binsearch_loop]. rsimp. unfold Rltb, Rleb.
  destruct (Rlt_dec u (knR U mid)) as [Hlt|Hge]; cbn [orb].
  - assert (Hlm : (low < mid)%nat).
    { destruct (Nat.eq_dec low mid) as [E|E]; [subst; lra|lia]. }
    destruct (div2_bounds low mid ltac:(lia)) as [Hb1 Hb2]. specialize (Hb2 Hlm).
    destruct (IH low mid (Nat.div2 (low + mid))) as [k [E [Hk Hi]]]; try lia; try (split; lra).
    + destruct (Nat.eq_dec mid (S low)) as [E|E]; [right; exact E|left].
      rewrite Nat.div2_div. pose proof (Nat.div_mod (low + mid) 2 ltac:(lia)). pose proof (Nat.mod_upper_bound (low + mid) 2 ltac:(lia)). lia.
    + destruct (Nat.eqb_spec (Nat.div2 (low + mid)) mid); [lia|].
      destruct (Nat.eqb_spec mid high); lia.
    + exists k. split; [exact E|]. split; [lia|exact Hi].
  - destruct (Rle_dec (knR U (S mid)) u) as [Hle|Hgt].
    + assert (Hmh : (S mid < high)%nat).
      { assert (mid <> high) by (intros ->; lra).
        destruct (le_lt_dec high (S mid)) as [E|E]; [|exact E].
        assert (knR U high <= knR U (S mid)) by (apply Usorted; lia). lra. }
      assert (Hlm : (low < mid)%nat) by lia.
      destruct (div2_bounds mid high ltac:(lia)) as [Hb1 Hb2]. specialize (Hb2 ltac:(lia)).
      destruct (IH mid high (Nat.div2 (mid + high))) as [k [E [Hk Hi]]]; try lia; try (split; lra).
      * left. rewrite Nat.div2_div. pose proof (Nat.div_mod (mid + high) 2 ltac:(lia)). pose proof (Nat.mod_upper_bound (mid + high) 2 ltac:(lia)). lia.
      * destruct (Nat.eqb_spec (Nat.div2 (mid + high)) high); [lia|]. destruct (Nat.eqb_spec mid high); lia.
      * exists k. split; [exact E|]. split; [lia|exact Hi].
    + exists mid. split; [reflexivity|]. split.
      * split; [lia|]. destruct (Nat.eq_dec mid high) as [E|E]; [subst; lra|lia].
      * replace (mid + 1)%nat with (S mid) by lia. split; lra.
Qed.

(* for EVERY parameter u >= U_p (inside the domain, at its end, or beyond it) *)
Theorem binsearch_fix_eq_linear (p num : nat) : (p < num)%nat -> (num < length U)%nat -> knR U p <= u ->
  find_span_binsearch_fix Rops p U num u = Some (find_span_linear Rops p U num u).
Proof.
  intros Hp HL Hu. unfold find_span_binsearch_fix. replace (S (Nat.pred num)) with num by lia.
  destruct (find_span_linear_spec U u p num Hp HL Hu) as [Hk [H1 H2]].
  set (k := find_span_linear Rops p U num u) in *.
  rsimp. unfold Rleb. destruct (Rle_dec (knR U num) u) as [Hend|Hin].
  - f_equal. destruct H2 as [H2|[H2 _]]; [|lia]. exfalso.
    assert (knR U (S k) <= knR U num) by (apply Usorted; lia). lra.
  - assert (Hlt : u < knR U num) by lra.
    assert (Hmid : (p < Nat.div2 (S (p + num)) <= num)%nat).
    { rewrite Nat.div2_div. pose proof (Nat.div_mod (S (p + num)) 2 ltac:(lia)). pose proof (Nat.mod_upper_bound (S (p + num)) 2 ltac:(lia)). lia. }
    destruct (loop_spec (S (S (length U))) p num (Nat.div2 (S (p + num)))) as [k' [E [Hk' Hi]]]; try lia; try (split; lra).
    + destruct (Nat.eqb_spec (Nat.div2 (S (p + num))) num); lia.
    + rewrite E. f_equal. destruct H2 as [H2|[_ H2]]; [|lra].
      apply span_unique; try lia; try assumption. replace (k + 1)%nat with (S k) by lia. split; lra.
Qed.
End Bin.

(* the shared model of helpers.find_span_binsearch (Model.Basis, repaired) is this function: its tol argument is unused *)
Lemma shared_binsearch_is_fix tol p (U : list R) num u : find_span_binsearch Rops tol p U num u = find_span_binsearch_fix Rops p U num u.
Proof. reflexivity. Qed.

(* hence evaluation does not depend on the find_span_func choice *)
Theorem curve_point_sp_independent dim p U P u : sortedR U -> (p < length P)%nat -> (length P < length U)%nat -> knR U p <= u ->
  curve_point_sp Rops (find_span_binsearch_fix Rops) dim p U P u = curve_point_sp Rops (span_linear_opt Rops) dim p U P u /\
  curve_point_sp Rops (span_linear_opt Rops) dim p U P u = Ok (curve_point Rops dim p U P u).
Proof.
  intros Hs Hp HL Hu. unfold curve_point_sp, span_linear_opt. rewrite (binsearch_fix_eq_linear U u Hs p (length P) Hp HL Hu). split; reflexivity.
Qed.
Theorem surface_point_sp_independent dim pu pv Uu Uv su sv P u v :
  sortedR Uu -> sortedR Uv -> (pu < su)%nat -> (su < length Uu)%nat -> (pv < sv)%nat -> (sv < length Uv)%nat -> knR Uu pu <= u -> knR Uv pv <= v ->
  surface_point_sp Rops (find_span_binsearch_fix Rops) dim pu pv Uu Uv su sv P u v = surface_point_sp Rops (span_linear_opt Rops) dim pu pv Uu Uv su sv P u v /\
  surface_point_sp Rops (span_linear_opt Rops) dim pu pv Uu Uv su sv P u v = Ok (surface_point Rops dim pu pv Uu Uv su sv P u v).
Proof.
  intros Hsu Hsv Hpu HLu Hpv HLv Hu Hv. unfold surface_point_sp, span_linear_opt.
  rewrite (binsearch_fix_eq_linear Uu u Hsu pu su Hpu HLu Hu), (binsearch_fix_eq_linear Uv v Hsv pv sv Hpv HLv Hv). split; reflexivity.
Qed.

(* the unrepaired tolerance shortcut of the pinned tree (tol = 10e-6) is refuted by a knot inside the tolerance *)
Theorem binsearch_tolerance_refuted : exists (U : list R) (u : R),
  let tol := 1 / 100000 in
  sortedR U /\ knR U 1 <= u <= knR U 3 /\
  find_span_binsearch_pinned Rops tol 1 U 3 u <> Some (find_span_linear Rops 1 U 3 u).
Proof.
  exists [0; 0; 1 - 1 / 524288; 1; 1], (1 - 3 / 1048576). cbv zeta.
  split; [|split].
  - intros i j [Hij Hj]. cbn in Hj. unfold kn. cbn [o0 Rops].
    do 5 (destruct i as [|i]; [do 5 (destruct j as [|j]; [try lia; cbn; lra|]); lia|]). lia.
  - unfold kn. cbn. lra.
  - assert (E : oleb Rops (oabs Rops (osub Rops (kn Rops [0; 0; 1 - 1 / 524288; 1; 1] 3) (1 - 3 / 1048576))) (1 / 100000) = true).
    { unfold oabs, oneg, kn. cbn [nth]. rsimp. unfold Rleb.
      destruct (Rle_dec 0 (1 - (1 - 3 / 1048576))) as [H|H]; [|exfalso; lra].
      destruct (Rle_dec (1 - (1 - 3 / 1048576)) (1 / 100000)) as [H2|H2]; [reflexivity|exfalso; lra]. }
    assert (L : find_span_linear Rops 1 [0; 0; 1 - 1 / 524288; 1; 1] 3 (1 - 3 / 1048576) = 1%nat).
    { unfold find_span_linear. cbn [find_span_linear_aux Nat.ltb Nat.leb andb kn nth]. rsimp. unfold Rleb.
      destruct (Rle_dec (1 - 1 / 524288) (1 - 3 / 1048576)) as [H|H]; [exfalso; lra|reflexivity]. }
    unfold find_span_binsearch_pinned. cbn [Nat.pred]. rewrite E, L. discriminate.
Qed.

(* ================= 3. Pool.map = order-preserving map, for every chunking ================= *)
Theorem chunked_map_eq_map {A B} (f : A -> B) (chunks : list (list A)) : chunked_map f chunks = map f (concat chunks).
Proof. unfold chunked_map. symmetry. apply concat_map. Qed.

Lemma chunk_aux_concat {A} n : (1 <= n)%nat -> forall fuel (l : list A), (length l <= fuel)%nat -> concat (chunk_aux fuel n l) = l.
Proof.
  intros Hn. induction fuel as [|f IH]; intros l Hl; cbn [chunk_aux].
  - destruct l; [reflexivity|cbn in Hl; lia].
  - destruct l as [|x r]; [reflexivity|]. cbn [concat]. rewrite IH.
    + apply firstn_skipn.
    + rewrite skipn_length. cbn [length] in *. lia.
Qed.
Theorem pool_map_eq_map {A B} (procs : nat) (f : A -> B) (l : list A) : pool_map procs f l = map f l.
Proof. unfold pool_map, chunk. rewrite chunked_map_eq_map, chunk_aux_concat; auto; lia. Qed.
Theorem find_inouts_procs_independent procs procs' tol grid pts : find_inouts Rops procs tol grid pts = find_inouts Rops procs' tol grid pts.
Proof. unfold find_inouts. destruct (Nat.ltb 1 procs), (Nat.ltb 1 procs'); rewrite ?pool_map_eq_map; reflexivity. Qed.

(* ================= 4. lru_cache is transparent for every capacity and every call sequence ================= *)
Section MemoP.
Context {A B : Type} (eqb : A -> A -> bool) (f : A -> B).
Hypothesis eqb_sound : forall x y, eqb x y = true -> x = y.
Definition cache_ok (c : @cache A B) : Prop := forall x y, In (x, y) c -> y = f x.

Lemma c_find_ok (c : @cache A B) x y : cache_ok c -> c_find eqb c x = Some y -> y = f x.
Proof.
  induction c as [|[k v] r IH]; intros Hc H; [discriminate|]. cbn [c_find] in H.
  destruct (eqb x k) eqn:E.
  - injection H as <-. apply eqb_sound in E. subst k. apply Hc. auto with datatypes.
  - apply IH; [|exact H]. intros a b Hab. apply Hc. auto with datatypes.
Qed.
Lemma c_remove_sub (c : @cache A B) x : forall e, In e (c_remove eqb c x) -> In e c.
Proof.
  induction c as [|[k v] r IH]; intros e He; [exact He|]. cbn [c_remove] in He.
  destruct (eqb x k); [auto with datatypes|]. destruct He as [<-|He]; auto with datatypes.
Qed.
Lemma c_trunc_sub cap (c : @cache A B) : forall e, In e (c_trunc cap c) -> In e c.
Proof. destruct cap as [k|]; cbn [c_trunc]; intros e He; [|exact He]. rewrite <- (firstn_skipn k c). apply in_or_app. auto. Qed.

Lemma memo_call_ok cap (c : @cache A B) x : cache_ok c -> cache_ok (fst (memo_call eqb cap f c x)) /\ snd (memo_call eqb cap f c x) = f x.
Proof.
  intros Hc. unfold memo_call.
  assert (G : cache_ok (fst (match c_find eqb c x with Some y => ((x, y) :: c_remove eqb c x, y) | None => (c_trunc cap ((x, f x) :: c), f x) end)) /\
              snd (match c_find eqb c x with Some y => ((x, y) :: c_remove eqb c x, y) | None => (c_trunc cap ((x, f x) :: c), f x) end) = f x).
  { destruct (c_find eqb c x) as [y|] eqn:E; cbn [fst snd].
    - pose proof (c_find_ok c x y Hc E) as ->. split; [|reflexivity].
      intros a b [H|H]; [injection H as <- <-; reflexivity|apply Hc, (c_remove_sub c x), H].
    - split; [|reflexivity]. intros a b H. apply c_trunc_sub in H. destruct H as [H|H]; [injection H as <- <-; reflexivity|apply Hc, H]. }
  destruct cap as [[|k]|]; [cbn [fst snd]; auto|exact G|exact G].
Qed.

Theorem memo_run_from_transparent cap calls : forall c : @cache A B, cache_ok c -> memo_run_from eqb cap f c calls = map f calls.
Proof.
  induction calls as [|x r IH]; intros c Hc; [reflexivity|]. cbn [memo_run_from map].
  destruct (memo_call_ok cap c x Hc) as [H1 H2]. destruct (memo_call eqb cap f c x) as [c' y]. cbn [fst snd] in *. subst y. f_equal. apply IH, H1.
Qed.
Theorem memo_transparent cap calls : memo_run eqb cap f calls = map f calls.
Proof. apply memo_run_from_transparent. intros x y []. Qed.
End MemoP.

Import String.
(* ================= 5. the environment variable is parsed (repaired import) ================= *)
Lemma pair_eqb_sound x y : pair_eqb x y = true -> x = y.
Proof. destruct x, y. unfold pair_eqb. cbn. intros H. apply andb_prop in H. destruct H as [H1 H2]. apply Nat.eqb_eq in H1, H2. congruence. Qed.

Theorem cache_size_env_accepted : forall env, In env [None; Some "1"%string; Some "16"%string; Some "1024"%string] -> forall default,
  exists cap, cache_size_env env default = Ok cap /\
    (forall calls, memo_run pair_eqb cap binomial calls = map binomial calls) /\
    (forall calls, memo_run Nat.eqb cap identity_matrix calls = map identity_matrix calls).
Proof.
  intros env Henv default.
  assert (E : exists cap, cache_size_env env default = Ok cap).
  { destruct Henv as [<-|[<-|[<-|[<-|[]]]]]; eexists; reflexivity. }
  destruct E as [cap E]. exists cap. split; [exact E|]. split; intros calls.
  - apply memo_transparent. exact pair_eqb_sound.
  - apply memo_transparent. intros x y H. apply Nat.eqb_eq. exact H.
Qed.

(* ================= 6. sample size -> delta -> sample size (repaired setter) ================= *)
Lemma ofnat_INR n : ofnat Rops n = INR n.
Proof. induction n as [|n IH]; [reflexivity|]. cbn [ofnat]. rewrite IH, S_INR. rsimp. reflexivity. Qed.

Lemma floor_search_half v : forall fuel n, (n <= v)%nat -> (v - n <= fuel)%nat -> floor_search Rops fuel (INR v + 1 / 2) n = v.
Proof.
  induction fuel as [|f IH]; intros n Hn Hf; cbn [floor_search]; [lia|].
  rewrite ofnat_INR. rsimp. unfold Rleb. destruct (Rle_dec (INR (S n)) (INR v + 1 / 2)) as [H|H].
  - assert (S n <= v)%nat. { apply INR_le. rewrite S_INR in *. destruct (le_lt_dec (S n) v) as [L|L]; [apply le_INR in L; rewrite S_INR in L; lra|].
      assert (v <= n)%nat by lia. apply le_INR in H0. lra. }
    apply IH; lia.
  - assert (n = v); [|assumption]. destruct (Nat.eq_dec n v); [assumption|]. exfalso. apply H.
    assert (S n <= v)%nat by lia. apply le_INR in H0. lra.
Qed.

Theorem sample_size_round_trip : forall value fuel, (2 <= value)%nat -> (value <= fuel)%nat ->
  exists d, delta_of_sample_size Rops value = Ok d /\ sample_size_of_delta Rops fuel d = value.
Proof.
  intros value fuel Hv Hf. exists (1 / INR value).
  assert (Hpos : 2 <= INR value) by (apply le_INR in Hv; cbn in Hv; lra).
  split.
  - unfold delta_of_sample_size. rewrite ofnat_INR. rsimp. unfold Rleb.
    assert (0 < 1 / INR value) by (apply Rdiv_lt_0_compat; lra).
    assert (1 / INR value < 1). { apply Rmult_lt_reg_r with (INR value); [lra|]. unfold Rdiv. rewrite Rmult_assoc, Rinv_l by lra. lra. }
    destruct (Rle_dec (1 / INR value) 0); [lra|]. destruct (Rle_dec 1 (1 / INR value)); [lra|]. reflexivity.
  - unfold sample_size_of_delta, o2. rsimp. replace (1 / (1 / INR value) + 1 / (1 + 1)) with (INR value + 1 / 2) by (field; lra).
    apply floor_search_half; lia.
Qed.
