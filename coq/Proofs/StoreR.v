(* C10: copy / in-place semantics of the operations on the object store with provenance ids. *)
From Coq Require Import List Lia Arith Bool.
From NV Require Import Scalar.Ops Model.Common Model.Transform.
Import ListNotations.

Section P.
Context {S : Type}.
Notation Store := (Transform.store S). Notation Obj := (Transform.obj S).
Variable f : S -> S.

Definition lk (h : Store) (i : nat) : option Obj := lookup (st_objs h) i.
(* every stored id is below the allocation counter *)
Definition wf (h : Store) : Prop := forall i, st_next h <= i -> lk h i = None.

Lemma lk_alloc h o j : lk (fst (alloc h o)) j = if Nat.eqb j (st_next h) then Some o else lk h j.
Proof. unfold lk, alloc. cbn. reflexivity. Qed.
Lemma next_alloc (h : Store) (o : Obj) : st_next (fst (alloc h o)) = Datatypes.S (st_next h). Proof. reflexivity. Qed.
Lemma wf_alloc h o : wf h -> wf (fst (alloc h o)).
Proof. intros H i Hi. rewrite lk_alloc. rewrite next_alloc in Hi. destruct (Nat.eqb_spec i (st_next h)); [lia|]. apply H. lia. Qed.

Lemma lookup_write (l : list (nat * Obj)) i (o : Obj) j : lookup (write l i o) j =
  if Nat.eqb j i then (match lookup l i with Some _ => Some o | None => None end) else lookup l j.
Proof.
  induction l as [|[k o'] l IH]; cbn [write lookup].
  - destruct (Nat.eqb j i); reflexivity.
  - destruct (Nat.eqb_spec i k) as [E|E]; cbn [lookup].
    + subst k. destruct (Nat.eqb_spec j i); reflexivity.
    + destruct (Nat.eqb_spec j k) as [E2|E2].
      * subst k. destruct (Nat.eqb_spec j i); [congruence|reflexivity].
      * exact IH.
Qed.

Definition fobj (o : option Obj) : option Obj := match o with Some (Single s) => Some (Single (f s)) | x => x end.

Lemma lk_upd1 h e j : lk (upd1 f h e) j = if Nat.eqb j e then fobj (lk h e) else lk h j.
Proof.
  unfold upd1, lk. destruct (lookup (st_objs h) e) as [[s|es]|] eqn:E; cbn [st_objs fobj].
  - rewrite lookup_write, E. reflexivity.
  - destruct (Nat.eqb_spec j e); [subst; exact E|reflexivity].
  - destruct (Nat.eqb_spec j e); [subst; exact E|reflexivity].
Qed.
Lemma next_upd1 (h : Store) e : st_next (upd1 f h e) = st_next h.
Proof. unfold upd1. destruct (lookup (st_objs h) e) as [[s|es]|]; reflexivity. Qed.

Lemma lk_update_list es : forall h j, NoDup es ->
  lk (update_list f h es) j = if in_dec Nat.eq_dec j es then fobj (lk h j) else lk h j.
Proof.
  induction es as [|e es IH]; intros h j Hnd; [reflexivity|]. inversion Hnd as [|? ? Hne Hnd']; subst.
  cbn [update_list]. rewrite IH by exact Hnd'. rewrite lk_upd1.
  destruct (in_dec Nat.eq_dec j es) as [Hin|Hin]; destruct (in_dec Nat.eq_dec j (e :: es)) as [Hin2|Hin2]; destruct (Nat.eqb_spec j e) as [E|E]; subst;
    try reflexivity; try contradiction; try (exfalso; apply Hin2; auto with datatypes; fail).
  - exfalso. destruct Hin2 as [E2|E2]; [congruence|contradiction].
Qed.
Lemma next_update_list es : forall h : Store, st_next (update_list f h es) = st_next h.
Proof. induction es as [|e es IH]; intros h; [reflexivity|]. cbn [update_list]. rewrite IH. apply next_upd1. Qed.

(* ============ in place: the same object is returned and updated ============ *)
Theorem inplace_spec (h : Store) i h' r : apply_op true f h i = Some (h', r) -> NoDup (elems_of h i) ->
  r = i /\ st_next h' = st_next h /\
  (forall j, ~ In j (elems_of h i) -> lk h' j = lk h j) /\
  (forall e, In e (elems_of h i) -> lk h' e = fobj (lk h e)).
Proof.
  intros H Hnd. unfold apply_op in H. injection H as <- <-. unfold update_elems.
  split; [reflexivity|]. split; [apply next_update_list|]. split.
  - intros j Hj. rewrite lk_update_list by exact Hnd. destruct (in_dec Nat.eq_dec j (elems_of h i)); [contradiction|reflexivity].
  - intros e He. rewrite lk_update_list by exact Hnd. destruct (in_dec Nat.eq_dec e (elems_of h i)); [reflexivity|contradiction].
Qed.

(* element objects are single shapes, distinct, and different from the container itself *)
Definition elems_single (h : Store) (i : nat) : Prop := forall e, In e (elems_of h i) -> exists s, lk h e = Some (Single s).

Lemma content_map (h h' : Store) i : elems_of h' i = elems_of h i -> (forall e, In e (elems_of h i) -> lk h' e = fobj (lk h e)) ->
  elems_single h i -> content h' i = map f (content h i).
Proof.
  intros Ee Hl Hs. unfold content. rewrite Ee. unfold elems_single in Hs. clear Ee. revert Hl Hs.
  generalize (elems_of h i) as l. induction l as [|e es IH]; intros Hl Hs; [reflexivity|]. cbn [flat_map]. rewrite map_app. f_equal.
  - fold (lk h' e). fold (lk h e). rewrite Hl by auto with datatypes. destruct (Hs e ltac:(auto with datatypes)) as [s ->]. reflexivity.
  - apply IH; intros; [apply Hl|apply Hs]; auto with datatypes.
Qed.

Theorem inplace_content (h : Store) i h' r : apply_op true f h i = Some (h', r) -> NoDup (elems_of h i) -> elems_single h i ->
  r = i /\ elems_of h' i = elems_of h i /\ content h' i = map f (content h i).
Proof.
  intros H Hnd Hs. destruct (inplace_spec h i h' r H Hnd) as [-> [_ [Hout Hin]]]. split; [reflexivity|].
  assert (Ee : elems_of h' i = elems_of h i).
  { unfold elems_of. fold (lk h' i) (lk h i). destruct (in_dec Nat.eq_dec i (elems_of h i)) as [Hi|Hi].
    - rewrite (Hin i Hi). destruct (Hs i Hi) as [s ->]. reflexivity.
    - rewrite (Hout i Hi). reflexivity. }
  split; [exact Ee|]. apply content_map; assumption.
Qed.

(* ============ copy: fresh objects, the input is untouched ============ *)
Lemma copy_elems_spec es : forall (h h' : Store) ids, copy_elems h es = (h', ids) -> wf h ->
  (forall e, In e es -> exists o, lk h e = Some o) ->
  wf h' /\ st_next h <= st_next h' /\ (forall j, j < st_next h -> lk h' j = lk h j) /\
  length ids = length es /\ (forall j, In j ids -> st_next h <= j < st_next h') /\ NoDup ids /\
  (forall t, t < length es -> lk h' (nth t ids 0) = lk h (nth t es 0)).
Proof.
  induction es as [|e es IH]; intros h h' ids H Hwf Hex; cbn [copy_elems] in H.
  - injection H as <- <-. split; [exact Hwf|]. split; [lia|]. split; [auto|]. split; [reflexivity|]. split; [intros j []|]. split; [constructor|]. intros t Ht. cbn in Ht. lia.
  - destruct (Hex e ltac:(auto with datatypes)) as [o Ho]. unfold lk in Ho. rewrite Ho in H.
    destruct (alloc h o) as [h1 j] eqn:Ea. destruct (copy_elems h1 es) as [h2 ids'] eqn:Ec. injection H as <- <-.
    assert (E1 : h1 = fst (alloc h o)) by (rewrite Ea; reflexivity). assert (Ej : j = st_next h) by (unfold alloc in Ea; congruence).
    assert (Hwf1 : wf h1) by (rewrite E1; apply wf_alloc; exact Hwf).
    assert (Hn1 : st_next h1 = Datatypes.S (st_next h)) by (rewrite E1; reflexivity).
    assert (Hl1 : forall k, lk h1 k = if Nat.eqb k (st_next h) then Some o else lk h k) by (intros k; rewrite E1; apply lk_alloc).
    assert (Hex1 : forall e', In e' es -> exists o', lk h1 e' = Some o').
    { intros e' He'. destruct (Hex e' ltac:(auto with datatypes)) as [o' Ho']. exists o'. rewrite Hl1.
      destruct (Nat.eqb_spec e' (st_next h)) as [E|E]; [|exact Ho']. rewrite Hwf in Ho' by lia. discriminate. }
    destruct (IH h1 h2 ids' Ec Hwf1 Hex1) as [W2 [N2 [L2 [Len [Rng [Nd Nth]]]]]].
    split; [exact W2|]. split; [lia|]. split.
    { intros k Hk. rewrite L2 by lia. rewrite Hl1. destruct (Nat.eqb_spec k (st_next h)); [lia|reflexivity]. }
    split; [cbn; lia|]. split.
    { intros k [Hk|Hk]; [subst; lia|]. specialize (Rng k Hk). lia. }
    split.
    { constructor; [|exact Nd]. intro Hin. specialize (Rng j Hin). lia. }
    intros t Ht. destruct t as [|t]; cbn [nth].
    + rewrite L2 by lia. rewrite Hl1, Ej, Nat.eqb_refl. symmetry. exact Ho.
    + cbn [length] in Ht. rewrite Nth by lia. rewrite Hl1.
      destruct (Nat.eqb_spec (nth t es 0) (st_next h)) as [E|E]; [|reflexivity].
      destruct (Hex (nth t es 0) ltac:(right; apply nth_In; lia)) as [o' Ho']. rewrite Hwf in Ho' by lia. discriminate.
Qed.

Definition sel (h : Store) (e : nat) : list S := match lk h e with Some (Single s) => [s] | _ => [] end.
Lemma content_pairs (H h : Store) : forall es ids, length ids = length es ->
  (forall t, t < length es -> lk H (nth t ids 0) = fobj (lk h (nth t es 0))) ->
  (forall e, In e es -> exists s, lk h e = Some (Single s)) ->
  flat_map (sel H) ids = map f (flat_map (sel h) es).
Proof.
  induction es as [|e es IH]; intros [|j ids] Len G Hs; cbn [length] in Len; try discriminate; [reflexivity|].
  cbn [flat_map]. rewrite map_app. f_equal.
  - pose proof (G 0 ltac:(cbn; lia)) as G0. cbn [nth] in G0. unfold sel. rewrite G0.
    destruct (Hs e ltac:(auto with datatypes)) as [s ->]. reflexivity.
  - apply IH; [lia| |auto with datatypes]. intros t Ht. apply (G (Datatypes.S t)). cbn. lia.
Qed.

Theorem copy_spec (h : Store) i h' r : apply_op false f h i = Some (h', r) -> wf h ->
  (forall e, In e (elems_of h i) -> exists s, lk h e = Some (Single s)) ->
  (* a new object (and new element objects) *)
  st_next h <= r /\ (forall e, In e (elems_of h' r) -> st_next h <= e) /\
  (* every object that existed before, in particular the input and its elements, is unchanged *)
  (forall j, j < st_next h -> lk h' j = lk h j) /\
  (* the new object holds the transformed contents *)
  content h' r = map f (content h i).
Proof.
  intros H Hwf Hs. unfold apply_op, deepcopy in H. fold (lk h i) in H.
  destruct (lk h i) as [[s|es]|] eqn:Ei; try discriminate.
  - (* single shape *)
    injection H as <- <-. set (h1 := fst (alloc h (Single s))). cbn [snd fst alloc].
    change (fst (mkStore ((st_next h, Single s) :: st_objs h) (Datatypes.S (st_next h)), st_next h)) with h1 in *.
    assert (Hl1 : forall k, lk h1 k = if Nat.eqb k (st_next h) then Some (Single s) else lk h k) by (intros; apply lk_alloc).
    assert (Ee : elems_of h1 (st_next h) = [st_next h]).
    { unfold elems_of. fold (lk h1 (st_next h)). rewrite Hl1, Nat.eqb_refl. reflexivity. }
    unfold update_elems. change (mkStore ((st_next h, Single s) :: st_objs h) (Datatypes.S (st_next h))) with h1. rewrite Ee.
    assert (Hnd : NoDup [st_next h]) by (constructor; [intros []|constructor]).
    assert (Eel : elems_of (update_list f h1 [st_next h]) (st_next h) = [st_next h]).
    { unfold elems_of. fold (lk (update_list f h1 [st_next h]) (st_next h)). rewrite lk_update_list by exact Hnd.
      destruct (in_dec Nat.eq_dec (st_next h) [st_next h]) as [_|Hn]; [|exfalso; apply Hn; auto with datatypes].
      rewrite Hl1, Nat.eqb_refl. reflexivity. }
    split; [lia|]. split; [rewrite Eel; intros e [<-|[]]; lia|]. split.
    + intros j Hj. rewrite lk_update_list by exact Hnd. destruct (in_dec Nat.eq_dec j [st_next h]) as [[E|[]]|_]; [lia|].
      rewrite Hl1. destruct (Nat.eqb_spec j (st_next h)); [lia|reflexivity].
    + unfold content. rewrite Eel. cbn [flat_map]. fold (lk (update_list f h1 [st_next h]) (st_next h)).
      rewrite lk_update_list by exact Hnd. destruct (in_dec Nat.eq_dec (st_next h) [st_next h]) as [_|Hn]; [|exfalso; apply Hn; auto with datatypes].
      rewrite Hl1, Nat.eqb_refl. cbn [fobj app]. unfold elems_of. fold (lk h i). rewrite Ei. cbn [flat_map]. fold (lk h i). rewrite Ei. reflexivity.
  - (* container *)
    assert (Ees : elems_of h i = es) by (unfold elems_of; fold (lk h i); rewrite Ei; reflexivity). rewrite Ees in Hs.
    destruct (copy_elems h es) as [h1 ids] eqn:Ec. injection H as <- <-.
    destruct (copy_elems_spec es h h1 ids Ec Hwf) as [W1 [N1 [L1 [Len [Rng [Nd Nth]]]]]].
    { intros e He. destruct (Hs e He) as [s Hs']. exists (Single s). exact Hs'. }
    set (h2 := fst (alloc h1 (Multi ids))). cbn [fst snd alloc].
    change (mkStore ((st_next h1, Multi ids) :: st_objs h1) (Datatypes.S (st_next h1))) with h2.
    assert (Hl2 : forall k, lk h2 k = if Nat.eqb k (st_next h1) then Some (Multi ids) else lk h1 k) by (intros; apply lk_alloc).
    assert (Ee : elems_of h2 (st_next h1) = ids).
    { unfold elems_of. fold (lk h2 (st_next h1)). rewrite Hl2, Nat.eqb_refl. reflexivity. }
    unfold update_elems. rewrite Ee.
    assert (Hself : ~ In (st_next h1) ids) by (intro Hin; specialize (Rng _ Hin); lia).
    assert (Eel : elems_of (update_list f h2 ids) (st_next h1) = ids).
    { unfold elems_of. fold (lk (update_list f h2 ids) (st_next h1)). rewrite lk_update_list by exact Nd.
      destruct (in_dec Nat.eq_dec (st_next h1) ids); [contradiction|]. rewrite Hl2, Nat.eqb_refl. reflexivity. }
    split; [lia|]. split; [rewrite Eel; intros e He; specialize (Rng e He); lia|]. split.
    + intros j Hj. rewrite lk_update_list by exact Nd. destruct (in_dec Nat.eq_dec j ids) as [Hin|_]; [specialize (Rng j Hin); lia|].
      rewrite Hl2. destruct (Nat.eqb_spec j (st_next h1)); [lia|]. apply L1. exact Hj.
    + unfold content. rewrite Eel, Ees.
      assert (G : forall t, t < length es -> lk (update_list f h2 ids) (nth t ids 0) = fobj (lk h (nth t es 0))).
      { intros t Ht. rewrite lk_update_list by exact Nd.
        assert (Hin : In (nth t ids 0) ids) by (apply nth_In; lia).
        destruct (in_dec Nat.eq_dec (nth t ids 0) ids); [|contradiction]. rewrite Hl2.
        destruct (Nat.eqb_spec (nth t ids 0) (st_next h1)) as [E|E]; [rewrite E in Hin; contradiction|]. rewrite Nth by exact Ht. reflexivity. }
      apply (content_pairs (update_list f h2 ids) h es ids Len G Hs).
Qed.
End P.
