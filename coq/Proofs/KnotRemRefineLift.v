(* C06: refine-then-remove for SURFACES and VOLUMES.
   operations.refine_knotvector (A5.4 column- / row- / fibre-wise, any list X admissible for RefineGeneral, or the default lists of
   the densities) followed by operations.remove_knot of every refined knot with its count, the knots of ALL directions taken in
   ANY order (one copy per call, all copies in one call, or anything in between; u-, v-, w-calls arbitrarily interleaved):
   the calls never raise, the original object record comes back (degrees, knot vectors, sizes, control net), and after every
   prefix of the removal schedule the object has the points of the original one.
   Method: the refined object is fibre-wise A5.4; by KnotRemMoreOrder.refined_as_chain every fibre is the insertion chain of any
   schedule that rearranges X; the insertion stage of insert_knot on a surface / volume is fibre-wise the curve stage, and an
   object is determined by its fibres; so the refined object IS an insertion chain of stages, which the removal stages undo one
   by one (KnotRemMultiDir.rstep_*_inverts / vrstep_*_inverts); stages of different directions st_commute (KnotRemMore).
   Details: Proofs/KnotRemRefineLift.README. *)
From Coq Require Import List Reals Lra Lia Arith Bool ZArith Permutation Sorted.
From NV Require Import Scalar.Ops Model.Common Model.Basis Model.KnotIns Model.InsertKnot Model.KnotRem Model.KnotRefine
  Proofs.Boehm Proofs.BasisR Proofs.KnotInsR Proofs.KnotInsN Proofs.InsertKnotR Proofs.InsertNR Proofs.InsertDirR Proofs.InsertVolR
  Proofs.InsertOpR Proofs.InsertOpSurf Proofs.KnotRemR Proofs.KnotRemGeneral Proofs.KnotRemGeneralDir Proofs.KnotRemGeneralVol
  Proofs.KnotRemMultiDir Proofs.KnotRefineR Proofs.RefineR Proofs.RefineGenS Proofs.RefineGenI Proofs.RefineGeneral Proofs.RefineDefault
  Proofs.RefineOp Proofs.RefineParam Proofs.RefineLiftG Proofs.RefineLift Proofs.RefineLiftV Proofs.KnotRemRefine Proofs.KnotRemMore
  Proofs.KnotRemMoreRefine Proofs.KnotRemMoreOrder Proofs.RefineExamples Proofs.KnotRemMoreExamples.
Import ListNotations.
Local Open Scope nat_scope.

(* ================================================================== 1. stage algebra on an abstract object type *)
(* A "stage" = one parametric direction of insert_knot / remove_knot with a parameter x and a count n:
   st_ins = insertion stage, st_rem = removal stage (object afterwards, exception flag), st_par = the parameter is admissible. *)
Section Stage.
Variable O : Type.
Variables (ok : O -> Prop) (same : O -> O -> Prop).
Hypothesis same_refl : forall g, same g g.
Hypothesis same_trans : forall a b c, same a b -> same b c -> same a c.

Record stage : Type := mkStage {
  st_ins : O -> R -> nat -> O * bool;
  st_rem : O -> R -> nat -> O * bool;
  st_par : O -> R -> Prop }.

Record stage_ok (s : stage) : Prop := mkStageOk {
  so_I0 : forall g x, st_ins s g x 0 = (g, false);
  so_R0 : forall g x, st_rem s g x 0 = (g, false);
  so_I : forall g x n, ok g -> st_par s g x -> snd (st_ins s g x n) = false -> ok (fst (st_ins s g x n)) /\ same (fst (st_ins s g x n)) g;
  so_R : forall g x n, ok g -> st_par s g x -> snd (st_ins s g x n) = false -> st_rem s (fst (st_ins s g x n)) x n = (g, false) }.

Definition oins (s : stage) (g : O) (e : R * nat) : O := fst (st_ins s g (fst e) (snd e)).
Definition orem (s : stage) (g : O) (e : R * nat) : O := fst (st_rem s g (fst e) (snd e)).
Definition ogood (s : stage) (g : O) (e : R * nat) : Prop := 1 <= snd e -> st_par s g (fst e) /\ snd (st_ins s g (fst e) (snd e)) = false.
Fixpoint ochain (s : stage) (g : O) (l : list (R * nat)) : Prop :=
  match l with [] => True | e :: l' => ogood s g e /\ ochain s (oins s g e) l' end.

Section One.
Variable s : stage.
Hypothesis Hs : stage_ok s.

Lemma oins_zero g x : oins s g (x, 0) = g.
Proof. unfold oins. cbn [fst snd]. rewrite (so_I0 s Hs). reflexivity. Qed.

Lemma oins_ok g e : ok g -> ogood s g e -> ok (oins s g e) /\ same (oins s g e) g.
Proof.
  intros Hok G. destruct e as [x n]. destruct (Nat.eq_dec n 0) as [->|Hn].
  - rewrite oins_zero. split; [exact Hok|apply same_refl].
  - destruct (G ltac:(cbn; lia)) as [Hp Hf]. cbn [fst snd] in *. apply (so_I s Hs); assumption.
Qed.

Lemma ochain_app : forall l1 g l2, ochain s g (l1 ++ l2) <-> ochain s g l1 /\ ochain s (fold_left (oins s) l1 g) l2.
Proof. induction l1 as [|e l1 IH]; intros g l2; cbn [app ochain fold_left]; [tauto|]. rewrite IH. tauto. Qed.

Lemma ochain_ok : forall l g, ok g -> ochain s g l -> ok (fold_left (oins s) l g) /\ same (fold_left (oins s) l g) g.
Proof.
  induction l as [|e l IH]; intros g Hok H; cbn [fold_left]; [split; [exact Hok|apply same_refl]|].
  destruct H as [G H]. destruct (oins_ok g e Hok G) as [Hok1 Hs1]. destruct (IH _ Hok1 H) as [A B].
  split; [exact A|]. eapply same_trans; eassumption.
Qed.

(* one removal stage undoes the last insertion stage *)
Lemma orem_oins g e : ok g -> ogood s g e -> st_rem s (oins s g e) (fst e) (snd e) = (g, false).
Proof.
  intros Hok G. destruct e as [x n]. cbn [fst snd]. destruct (Nat.eq_dec n 0) as [->|Hn].
  - rewrite oins_zero. apply (so_R0 s Hs).
  - destruct (G ltac:(cbn; lia)) as [Hp Hf]. cbn [fst snd] in *. unfold oins. cbn [fst snd]. apply (so_R s Hs); assumption.
Qed.

(* removing along a prefix of the schedule: what remains is the insertion chain of the rest *)
Lemma orem_prefix : forall s1 s2 g, ok g -> ochain s g (rev (s1 ++ s2)) ->
  fold_left (orem s) s1 (fold_left (oins s) (rev (s1 ++ s2)) g) = fold_left (oins s) (rev s2) g.
Proof.
  induction s1 as [|e s1 IH]; intros s2 g Hok H; [reflexivity|].
  cbn [app rev] in *. rewrite fold_left_app in *. cbn [fold_left].
  apply ochain_app in H. destruct H as [H1 H2]. cbn [ochain] in H2. destruct H2 as [G _].
  destruct (ochain_ok _ g Hok H1) as [Hok1 _].
  unfold orem at 2. rewrite (orem_oins _ e Hok1 G). cbn [fst]. apply IH; assumption.
Qed.

Lemma orem_flag s1 e s2 g : ok g -> ochain s g (rev (s1 ++ e :: s2)) ->
  snd (st_rem s (fold_left (orem s) s1 (fold_left (oins s) (rev (s1 ++ e :: s2)) g)) (fst e) (snd e)) = false.
Proof.
  intros Hok H. rewrite (orem_prefix s1 (e :: s2) g Hok H). cbn [rev]. rewrite fold_left_app. cbn [fold_left].
  rewrite rev_app_distr in H. cbn [rev] in H. rewrite <- app_assoc in H. apply ochain_app in H. destruct H as [H0 H].
  cbn [app ochain] in H. destruct H as [G _]. destruct (ochain_ok _ g Hok H0) as [Hok1 _].
  rewrite (orem_oins _ e Hok1 G). reflexivity.
Qed.

Lemma orem_all sched g : ok g -> ochain s g (rev sched) -> fold_left (orem s) sched (fold_left (oins s) (rev sched) g) = g.
Proof. intros Hok H. pose proof (orem_prefix sched [] g Hok) as E. rewrite app_nil_r in E. apply E. exact H. Qed.
End One.

(* ---------- the trivial stage (used for "no third direction") ---------- *)
Definition triv_stage : stage := mkStage (fun g _ _ => (g, false)) (fun g _ _ => (g, false)) (fun _ _ => True).
Lemma triv_ok : stage_ok triv_stage.
Proof. split; cbn; intros; try reflexivity. split; [assumption|apply same_refl]. Qed.
Lemma triv_oins g e : oins triv_stage g e = g. Proof. reflexivity. Qed.
Lemma triv_fold : forall l g, fold_left (oins triv_stage) l g = g.
Proof. induction l as [|e l IH]; intros g; cbn [fold_left]; [reflexivity|]. rewrite triv_oins. apply IH. Qed.
Lemma triv_chain : forall l g, ochain triv_stage g l.
Proof. induction l as [|e l IH]; intros g; cbn [ochain]; [exact I|]. split; [intros _; split; [exact I|reflexivity]|apply IH]. Qed.

(* ---------- two stages (different directions) that st_commute ---------- *)
Record st_commute (a b : stage) : Prop := mkStCommute {
  cm_eq : forall g x n y m, ok g -> st_par a g x -> st_par b g y -> snd (st_ins a g x n) = false -> snd (st_ins b g y m) = false ->
          fst (st_ins b (fst (st_ins a g x n)) y m) = fst (st_ins a (fst (st_ins b g y m)) x n);
  cm_ab : forall g x n y m, ok g -> st_par a g x -> snd (st_ins a g x n) = false ->
          (st_par b (fst (st_ins a g x n)) y <-> st_par b g y) /\ snd (st_ins b (fst (st_ins a g x n)) y m) = snd (st_ins b g y m);
  cm_ba : forall g x n y m, ok g -> st_par b g y -> snd (st_ins b g y m) = false ->
          (st_par a (fst (st_ins b g y m)) x <-> st_par a g x) /\ snd (st_ins a (fst (st_ins b g y m)) x n) = snd (st_ins a g x n) }.

Lemma commute_triv a : st_commute a triv_stage.
Proof. split; cbn; intros; [reflexivity|split; [tauto|reflexivity]|split; [tauto|reflexivity]]. Qed.

(* an insertion stage of direction a, done BEFORE a chain of direction b, can be moved behind it *)
Lemma past_chain (a b : stage) : stage_ok a -> stage_ok b -> st_commute a b ->
  forall e l g, ok g -> ogood a g e -> ochain b (oins a g e) l ->
  ochain b g l /\ fold_left (oins b) l (oins a g e) = oins a (fold_left (oins b) l g) e /\ ogood a (fold_left (oins b) l g) e.
Proof.
  intros Ha Hb C [x n]. destruct (Nat.eq_dec n 0) as [->|Hn].
  { intros l g Hok _ H. rewrite !(oins_zero a Ha) in *. split; [exact H|]. split; [reflexivity|]. intros Hc. cbn in Hc. lia. }
  induction l as [|[y m] l IH]; intros g Hok G H.
  { cbn [fold_left]. split; [exact I|]. split; [reflexivity|exact G]. }
  destruct (G ltac:(cbn; lia)) as [Px Fx]. cbn [fst snd] in Px, Fx.
  cbn [ochain fold_left] in *. destruct H as [Gf H].
  destruct (Nat.eq_dec m 0) as [->|Hm].
  { rewrite !(oins_zero b Hb) in *. destruct (IH g Hok G H) as (A1 & A2 & A3).
    split; [split; [intros Hc; cbn in Hc; lia|exact A1]|]. split; assumption. }
  destruct (Gf ltac:(cbn; lia)) as [Py Fy]. cbn [fst snd] in Py, Fy. unfold oins in Py, Fy. cbn [fst snd] in Py, Fy.
  destruct (cm_ab a b C g x n y m Hok Px Fx) as [K1 K2]. rewrite K2 in Fy. apply K1 in Py.
  assert (Gb : ogood b g (y, m)) by (intros _; split; assumption).
  destruct (oins_ok b Hb g (y, m) Hok Gb) as [Hok' _].
  destruct (cm_ba a b C g x n y m Hok Py Fy) as [K3 K4].
  assert (Ga' : ogood a (oins b g (y, m)) (x, n)).
  { intros _. unfold oins. cbn [fst snd]. split; [apply K3; exact Px|rewrite K4; exact Fx]. }
  assert (E : oins b (oins a g (x, n)) (y, m) = oins a (oins b g (y, m)) (x, n)).
  { unfold oins. cbn [fst snd]. apply (cm_eq a b C); assumption. }
  rewrite E in H |- *. destruct (IH _ Hok' Ga' H) as (A1 & A2 & A3).
  split; [split; assumption|]. split; assumption.
Qed.

(* ---------- three directions, removal calls arbitrarily interleaved ---------- *)
Inductive D3 : Set := D3a | D3b | D3c.
Definition D3_eqb (d e : D3) : bool :=
  match d, e with D3a, D3a => true | D3b, D3b => true | D3c, D3c => true | _, _ => false end.
Definition proj3 (d : D3) (T : list (D3 * (R * nat))) : list (R * nat) := map snd (filter (fun t => D3_eqb (fst t) d) T).

Section Three.
Variables a b c : stage.
Hypothesis Ha : stage_ok a.
Hypothesis Hb : stage_ok b.
Hypothesis Hc : stage_ok c.
Hypothesis Cab : st_commute a b.
Hypothesis Cac : st_commute a c.
Hypothesis Cbc : st_commute b c.

Definition st3 (d : D3) : stage := match d with D3a => a | D3b => b | D3c => c end.
Definition rem3 (g : O) (t : D3 * (R * nat)) : O * bool := st_rem (st3 (fst t)) g (fst (snd t)) (snd (snd t)).
Definition ins3 (T : list (D3 * (R * nat))) (g : O) : O :=
  fold_left (oins c) (rev (proj3 D3c T)) (fold_left (oins b) (rev (proj3 D3b T)) (fold_left (oins a) (rev (proj3 D3a T)) g)).
Definition chain3 (T : list (D3 * (R * nat))) (g : O) : Prop :=
  ochain a g (rev (proj3 D3a T)) /\
  ochain b (fold_left (oins a) (rev (proj3 D3a T)) g) (rev (proj3 D3b T)) /\
  ochain c (fold_left (oins b) (rev (proj3 D3b T)) (fold_left (oins a) (rev (proj3 D3a T)) g)) (rev (proj3 D3c T)).

Lemma chain3_ok T g : ok g -> chain3 T g -> ok (ins3 T g) /\ same (ins3 T g) g.
Proof.
  intros Hok (C1 & C2 & C3). unfold ins3.
  destruct (ochain_ok a Ha _ g Hok C1) as [O1 S1]. destruct (ochain_ok b Hb _ _ O1 C2) as [O2 S2].
  destruct (ochain_ok c Hc _ _ O2 C3) as [O3 S3]. split; [exact O3|].
  eapply same_trans; [exact S3|]. eapply same_trans; eassumption.
Qed.

(* the first call of an interleaved schedule undoes a stage, whatever its direction *)
Lemma step3 t T g : ok g -> chain3 (t :: T) g -> rem3 (ins3 (t :: T) g) t = (ins3 T g, false) /\ chain3 T g.
Proof.
  intros Hok (C1 & C2 & C3). destruct t as [d e]. unfold rem3, ins3, chain3 in *. cbn [fst snd].
  destruct d; unfold proj3 in *; cbn [filter fst D3_eqb map snd rev] in *; fold (proj3 D3a T) (proj3 D3b T) (proj3 D3c T) in *.
  - (* direction a: move the stage behind the b-chain and the c-chain *)
    rewrite fold_left_app in *. cbn [fold_left] in *. apply (ochain_app a) in C1. destruct C1 as [C1 G]. cbn [ochain] in G. destruct G as [G _].
    set (G0 := fold_left (oins a) (rev (proj3 D3a T)) g) in *.
    destruct (ochain_ok a Ha _ g Hok C1) as [O0 _]. fold G0 in O0.
    destruct (past_chain a b Ha Hb Cab e _ G0 O0 G C2) as (B1 & B2 & B3). rewrite B2 in *.
    set (G1 := fold_left (oins b) (rev (proj3 D3b T)) G0) in *.
    destruct (ochain_ok b Hb _ G0 O0 B1) as [O1 _]. fold G1 in O1.
    destruct (past_chain a c Ha Hc Cac e _ G1 O1 B3 C3) as (E1 & E2 & E3). rewrite E2.
    set (G2 := fold_left (oins c) (rev (proj3 D3c T)) G1) in *.
    destruct (ochain_ok c Hc _ G1 O1 E1) as [O2 _]. fold G2 in O2.
    split; [apply (orem_oins a Ha); assumption|]. split; [exact C1|]. split; assumption.
  - (* direction b: behind the c-chain *)
    rewrite fold_left_app in *. cbn [fold_left] in *. apply (ochain_app b) in C2. destruct C2 as [C2 G]. cbn [ochain] in G. destruct G as [G _].
    set (G0 := fold_left (oins a) (rev (proj3 D3a T)) g) in *.
    destruct (ochain_ok a Ha _ g Hok C1) as [O0 _]. fold G0 in O0.
    set (G1 := fold_left (oins b) (rev (proj3 D3b T)) G0) in *.
    destruct (ochain_ok b Hb _ G0 O0 C2) as [O1 _]. fold G1 in O1.
    destruct (past_chain b c Hb Hc Cbc e _ G1 O1 G C3) as (E1 & E2 & E3). rewrite E2.
    set (G2 := fold_left (oins c) (rev (proj3 D3c T)) G1) in *.
    destruct (ochain_ok c Hc _ G1 O1 E1) as [O2 _]. fold G2 in O2.
    split; [apply (orem_oins b Hb); assumption|]. split; [exact C1|]. split; assumption.
  - (* direction c: the last stage *)
    rewrite fold_left_app in *. cbn [fold_left] in *. apply (ochain_app c) in C3. destruct C3 as [C3 G]. cbn [ochain] in G. destruct G as [G _].
    set (G0 := fold_left (oins a) (rev (proj3 D3a T)) g) in *.
    destruct (ochain_ok a Ha _ g Hok C1) as [O0 _]. fold G0 in O0.
    set (G1 := fold_left (oins b) (rev (proj3 D3b T)) G0) in *.
    destruct (ochain_ok b Hb _ G0 O0 C2) as [O1 _]. fold G1 in O1.
    set (G2 := fold_left (oins c) (rev (proj3 D3c T)) G1) in *.
    destruct (ochain_ok c Hc _ G1 O1 C3) as [O2 _]. fold G2 in O2.
    split; [apply (orem_oins c Hc); assumption|]. split; [exact C1|]. split; assumption.
Qed.

Lemma inter3_prefix : forall T1 T2 g, ok g -> chain3 (T1 ++ T2) g ->
  fold_left (fun h t => fst (rem3 h t)) T1 (ins3 (T1 ++ T2) g) = ins3 T2 g /\ chain3 T2 g.
Proof.
  induction T1 as [|t T1 IH]; intros T2 g Hok H; [split; [reflexivity|exact H]|].
  cbn [app fold_left] in *. destruct (step3 t (T1 ++ T2) g Hok H) as [E H']. rewrite E. cbn [fst]. apply IH; assumption.
Qed.

Lemma ins3_nil g : ins3 [] g = g.
Proof. reflexivity. Qed.

(* [G] the interleaved statement: (a) the original object comes back, (b) no call raises, (c) after every prefix the object is the
   insertion chain of the remaining calls, is complete, and has the points of the original object *)
Theorem inter3 T g : ok g -> chain3 T g ->
  fold_left (fun h t => fst (rem3 h t)) T (ins3 T g) = g /\
  (forall T1 t T2, T = T1 ++ t :: T2 -> snd (rem3 (fold_left (fun h t => fst (rem3 h t)) T1 (ins3 T g)) t) = false) /\
  (forall T1 T2, T = T1 ++ T2 ->
     fold_left (fun h t => fst (rem3 h t)) T1 (ins3 T g) = ins3 T2 g /\ ok (ins3 T2 g) /\ same (ins3 T2 g) g).
Proof.
  intros Hok H. split; [|split].
  - pose proof (inter3_prefix T [] g Hok) as E. rewrite app_nil_r in E. destruct (E H) as [E1 _]. rewrite E1. apply ins3_nil.
  - intros T1 t T2 ->. destruct (inter3_prefix T1 (t :: T2) g Hok H) as [E1 H1]. rewrite E1.
    destruct (step3 t T2 g Hok H1) as [E2 _]. rewrite E2. reflexivity.
  - intros T1 T2 ->. destruct (inter3_prefix T1 T2 g Hok H) as [E1 H1]. split; [exact E1|]. apply chain3_ok; assumption.
Qed.
End Three.
End Stage.

(* ================================================================== 2. objects determined by their fibres *)
(* An object g has, in the direction under consideration, degree pD g, knot vector UD g, size nD g, and for every fibre index ix
   in range (inb (frame g) ix; frame g = the data of the other directions) a fibre curve ofib g ix.  The insertion stage is
   fibre-wise the curve stage; two complete objects with the same frame and the same fibres are equal. *)
Section Fibred.
Variables (tolm : R) (dim : nat).
Hypothesis Htm : (0 <= tolm)%R.
Variables (O Ix Fr : Type).
Variables (ok shape : O -> Prop) (same : O -> O -> Prop).
Hypothesis same_refl : forall g, same g g.
Hypothesis same_trans : forall a b c, same a b -> same b c -> same a c.
Variable s : stage O.
Hypothesis Hs : stage_ok O ok same s.
Variables (pD : O -> nat) (UD : O -> list R) (nD : O -> nat).
Variable frame : O -> Fr.
Variable inb : Fr -> Ix -> Prop.
Variable fibP : O -> Ix -> list (list R).

Definition ofib (g : O) (ix : Ix) : curve (T:=R) := mkC (pD g) (UD g) (fibP g ix).

Hypothesis sP_is : forall g x, st_par O s g x <-> par_ok tolm (pD g) (UD g) (nD g) (Some x).
Hypothesis ok_shape : forall g, ok g -> shape g.
Hypothesis fibP_len : forall g ix, length (fibP g ix) = nD g.
Hypothesis fib_wf : forall g ix, ok g -> inb (frame g) ix -> cwf (ofib g ix) dim.
Hypothesis inh : forall g, shape g -> exists ix, inb (frame g) ix.
Hypothesis I_flag : forall g x n ix, snd (st_ins O s g x n) = snd (cstep tolm (ofib g ix) (Some x) n).
Hypothesis I_fib : forall g x n, ok g -> st_par O s g x -> snd (st_ins O s g x n) = false ->
  frame (fst (st_ins O s g x n)) = frame g /\
  (forall ix, inb (frame g) ix -> ofib (fst (st_ins O s g x n)) ix = fst (cstep tolm (ofib g ix) (Some x) n)).
Hypothesis ext : forall g1 g2, shape g1 -> shape g2 -> frame g1 = frame g2 ->
  (forall ix, inb (frame g1) ix -> ofib g1 ix = ofib g2 ix) -> g1 = g2.

Notation oinsS := (oins O s).
Notation ochainS := (ochain O s).

(* the insertion chains of the fibres lift to an insertion chain of the object *)
Lemma lift_chain : forall l g, ok g -> (forall ix, inb (frame g) ix -> chain tolm dim (ofib g ix) l) ->
  ochainS g l /\ frame (fold_left oinsS l g) = frame g /\
  (forall ix, inb (frame g) ix -> ofib (fold_left oinsS l g) ix = fold_left (insS tolm) l (ofib g ix)).
Proof.
  induction l as [|[x n] l IH]; intros g Hok H; cbn [fold_left ochain].
  { split; [exact I|]. split; reflexivity. }
  destruct (Nat.eq_dec n 0) as [->|Hn].
  { rewrite (oins_zero O ok same s Hs). destruct (IH g Hok) as (A1 & A2 & A3).
    - intros ix Hix. destruct (H ix Hix) as [_ H']. exact H'.
    - split; [split; [intros Hc; cbn in Hc; lia|exact A1]|]. split; [exact A2|]. intros ix Hix. rewrite (A3 ix Hix). reflexivity. }
  destruct (inh g (ok_shape g Hok)) as [ix0 Hix0].
  destruct (H ix0 Hix0) as [G0 _]. destruct (G0 ltac:(cbn; lia)) as (_ & P0 & F0). cbn [fst snd ofib c_p c_U c_P] in P0, F0.
  rewrite fibP_len in P0. apply sP_is in P0. rewrite <- (I_flag g x n ix0) in F0.
  destruct (I_fib g x n Hok P0 F0) as [Efr Efib].
  assert (Gg : ogood O s g (x, n)) by (intros _; split; assumption).
  destruct (oins_ok O ok same same_refl s Hs g (x, n) Hok Gg) as [Hok1 _].
  destruct (IH (oinsS g (x, n)) Hok1) as (A1 & A2 & A3).
  - intros ix Hix. unfold oins in Hix |- *. cbn [fst snd] in *. rewrite Efr in Hix. rewrite (Efib ix Hix).
    destruct (H ix Hix) as [_ H']. exact H'.
  - split; [split; assumption|]. unfold oins in A2, A3 |- *. cbn [fst snd] in *. split; [rewrite A2; exact Efr|].
    intros ix Hix. rewrite (A3 ix ltac:(rewrite Efr; exact Hix)), (Efib ix Hix). reflexivity.
Qed.

(* [G] the object gR whose fibres are A5.4 (list X) of the fibres of g IS the insertion chain of any schedule rearranging X *)
Theorem refined_is_chain (tol : R) (g gR : O) (X : list R) (sched : list (R * nat)) :
  ok g -> shape gR -> frame gR = frame g ->
  refine_ok tol (pD g) (UD g) (nD g) X ->
  (forall x y, In x X -> In y (X ++ UD g) -> (Rabs (x - y) <= tolm)%R -> y = x) ->
  (forall ix, inb (frame g) ix ->
     ofib gR ix = mkC (pD g) (snd (refine_pts Rops tol (pD g) (UD g) (fibP g ix) X)) (fst (refine_pts Rops tol (pD g) (UD g) (fibP g ix) X))) ->
  Permutation (expand sched) X ->
  gR = fold_left oinsS (rev sched) g /\ ochainS g (rev sched).
Proof.
  intros Hok HshR Hfr (H1 & H2 & H3 & H4 & H5 & H6 & H7 & H8 & H9 & H10) Hsep HfibR PX.
  assert (HC : forall ix, inb (frame g) ix ->
            chain tolm dim (ofib g ix) (rev sched) /\ ofib gR ix = fold_left (insS tolm) (rev sched) (ofib g ix)).
  { intros ix Hix. destruct (fib_wf g ix Hok Hix) as [_ Wd]. cbn [ofib c_P] in Wd.
    destruct (refined_as_chain tol tolm (pD g) (UD g) (fibP g ix) X dim sched) as [C E]; try assumption;
      try (rewrite fibP_len; assumption).
    split; [exact C|]. rewrite (HfibR ix Hix). exact E. }
  destruct (lift_chain (rev sched) g Hok (fun ix Hix => proj1 (HC ix Hix))) as (A1 & A2 & A3).
  split; [|exact A1].
  destruct (ochain_ok O ok same same_refl same_trans s Hs _ g Hok A1) as [HokC _].
  apply ext; [exact HshR|apply ok_shape; exact HokC|rewrite A2; exact Hfr|].
  intros ix Hix. rewrite Hfr in Hix. rewrite (A3 ix Hix). apply (HC ix Hix).
Qed.
End Fibred.

(* ================================================================== 3. surfaces: the two directions as fibred stages *)
Definition sok (dim : nat) (g : surf (T:=R)) : Prop := swf g dim /\ length (s_P g) = s_sv g * s_su g.
Definition sshape (g : surf (T:=R)) : Prop := length (s_P g) = s_sv g * s_su g /\ 0 < s_sv g /\ 0 < s_su g.
Definition ssame (dim : nat) (g' g : surf (T:=R)) : Prop := forall c tu tv, c < dim -> surf_pt g' c tu tv = surf_pt g c tu tv.

Lemma ssame_refl dim g : ssame dim g g.
Proof. intros c tu tv _. reflexivity. Qed.
Lemma ssame_trans dim a b c : ssame dim a b -> ssame dim b c -> ssame dim a c.
Proof. intros H1 H2 cc tu tv Hc. rewrite (H1 cc tu tv Hc). apply H2. exact Hc. Qed.
Lemma sok_shape dim g : sok dim g -> sshape g.
Proof. intros [((_ & Hu & _) & (_ & Hv & _) & _) HL]. split; [exact HL|]. split; lia. Qed.

Definition stU (tolm tol2 : R) : stage (surf (T:=R)) :=
  mkStage _ (fun g x n => sstep_u tolm g (Some x) n) (fun g x n => rstep_u tolm tol2 g (Some x) n)
            (fun g x => par_ok tolm (s_pu g) (s_Uu g) (s_su g) (Some x)).
Definition stV (tolm tol2 : R) : stage (surf (T:=R)) :=
  mkStage _ (fun g x n => sstep_v tolm g (Some x) n) (fun g x n => rstep_v tolm tol2 g (Some x) n)
            (fun g x => par_ok tolm (s_pv g) (s_Uv g) (s_sv g) (Some x)).

Lemma stU_ok tolm tol2 dim : (0 <= tolm)%R -> (0 <= tol2)%R -> stage_ok _ (sok dim) (ssame dim) (stU tolm tol2).
Proof.
  intros Ht Ht2. split; cbn [stU st_ins st_rem st_par].
  - reflexivity.
  - reflexivity.
  - intros g x n [W HL] Hp _. destruct (sstep_u_spec tolm g dim (Some x) n W Hp) as (_ & _ & U3 & U4 & _). cbv zeta in *.
    split; [split; [exact U3|apply (sstep_u_length tolm g dim); assumption]|exact U4].
  - intros g x n [W HL] Hp Hf. apply (rstep_u_inverts tolm tol2 g dim); assumption.
Qed.
Lemma stV_ok tolm tol2 dim : (0 <= tolm)%R -> (0 <= tol2)%R -> stage_ok _ (sok dim) (ssame dim) (stV tolm tol2).
Proof.
  intros Ht Ht2. split; cbn [stV st_ins st_rem st_par].
  - reflexivity.
  - reflexivity.
  - intros g x n [W HL] Hp _. destruct (sstep_v_spec tolm g dim (Some x) n W Hp) as (_ & _ & U3 & U4 & _). cbv zeta in *.
    split; [split; [exact U3|apply (sstep_v_length tolm g dim); assumption]|exact U4].
  - intros g x n [W HL] Hp Hf. apply (rstep_v_inverts tolm tol2 g dim); assumption.
Qed.

Lemma stUV_commute tolm tol2 dim : (0 <= tolm)%R -> (0 <= tol2)%R -> st_commute _ (sok dim) (stU tolm tol2) (stV tolm tol2).
Proof.
  intros Ht Ht2. split; cbn [stU stV st_ins st_rem st_par].
  - intros g x n y m F Px Py Fx Fy. apply (sUV_commute tolm dim (Some x) (Some y) g n m); assumption.
  - intros g x n y m F Px _. destruct (sU_keeps tolm dim (Some x) (Some y) g n F Px) as (_ & K2 & K3). split; [exact K2|apply K3].
  - intros g x n y m F Py _. destruct (sV_keeps tolm dim (Some x) (Some y) g m F Py) as (_ & K2 & K3). split; [exact K2|apply K3].
Qed.

(* ---------- fibres of a surface ---------- *)
Lemma col_u_nth (g : surf (T:=R)) j i : i < s_su g -> getp (col_u g j) i = getp (s_P g) (j + s_sv g * i).
Proof. intros Hi. unfold col_u, getp at 1. rewrite nth_map_seq by exact Hi. reflexivity. Qed.
Lemma row_v_nth (g : surf (T:=R)) i j : j < s_sv g -> getp (row_v g i) j = getp (s_P g) (j + s_sv g * i).
Proof. intros Hj. unfold row_v, getp at 1. rewrite nth_map_seq by exact Hj. reflexivity. Qed.

Definition frU (g : surf (T:=R)) : nat * list R * nat := (s_pv g, s_Uv g, s_sv g).
Definition frV (g : surf (T:=R)) : nat * list R * nat := (s_pu g, s_Uu g, s_su g).
Definition inb1 (fr : nat * list R * nat) (j : nat) : Prop := j < snd fr.

Lemma su_I_flag tolm (g : surf (T:=R)) x n j :
  snd (sstep_u tolm g (Some x) n) = snd (cstep tolm (mkC (s_pu g) (s_Uu g) (col_u g j)) (Some x) n).
Proof.
  unfold sstep_u, cstep. cbn [c_p c_U c_P]. rewrite col_u_length.
  destruct (dir_prep Rops tolm true (s_pu g) (s_Uu g) (s_su g) (Some x) n) as [[[[[t s] k] kv]|]|]; reflexivity.
Qed.
Lemma sv_I_flag tolm (g : surf (T:=R)) x n i :
  snd (sstep_v tolm g (Some x) n) = snd (cstep tolm (mkC (s_pv g) (s_Uv g) (row_v g i)) (Some x) n).
Proof.
  unfold sstep_v, cstep. cbn [c_p c_U c_P]. rewrite row_v_length.
  destruct (dir_prep Rops tolm true (s_pv g) (s_Uv g) (s_sv g) (Some x) n) as [[[[[t s] k] kv]|]|]; reflexivity.
Qed.

Lemma su_I_fib tolm dim (g : surf (T:=R)) x n : sok dim g -> par_ok tolm (s_pu g) (s_Uu g) (s_su g) (Some x) ->
  snd (sstep_u tolm g (Some x) n) = false ->
  let g1 := fst (sstep_u tolm g (Some x) n) in
  frU g1 = frU g /\
  forall j, inb1 (frU g) j -> mkC (s_pu g1) (s_Uu g1) (col_u g1 j) = fst (cstep tolm (mkC (s_pu g) (s_Uu g) (col_u g j)) (Some x) n).
Proof.
  intros [W HL] Hp Hf. cbv zeta. unfold cstep. cbn [c_p c_U c_P]. unfold sstep_u in *.
  pose proof (dir_prep_spec tolm (s_pu g) (s_Uu g) (s_su g) (Some x) n) as D.
  destruct (dir_prep Rops tolm true (s_pu g) (s_Uu g) (s_su g) (Some x) n) as [[[[[t s] k] kv]|]|] eqn:ED; cbn [fst snd] in *; try discriminate.
  - destruct D as (Eo & H1 & -> & Hn & -> & ->). injection Eo as <-. destruct W as (Wu & _ & _).
    destruct (dir_accept tolm (s_pu g) (s_Uu g) (s_su g) x n Wu Hp H1 Hn) as (A1 & A2 & A3 & _). cbv zeta in *.
    split; [reflexivity|]. intros j Hj. unfold inb1, frU in Hj. cbn [snd] in Hj. rewrite col_u_length, ED. cbn [fst s_pu s_Uu]. f_equal.
    set (k := find_span_linear Rops (s_pu g) (s_Uu g) (s_su g) x) in *. set (s := find_multiplicity Rops tolm x (s_Uu g)) in *.
    destruct (knot_insertion_frame Rops (s_pu g) (s_Uu g) (col_u g j) x n s k A1 A2 ltac:(rewrite col_u_length; exact A3) Hn) as [HLk _].
    rewrite col_u_length in HLk.
    apply (nth_ext _ _ [] []).
    + rewrite col_u_length, HLk. reflexivity.
    + intros i Hi. rewrite col_u_length in Hi. cbn [s_su] in Hi.
      change (getp (col_u (mkS (s_pu g) (s_pv g) (knot_insertion_kv (s_Uu g) x k n) (s_Uv g) (s_su g + n) (s_sv g) (surf_net_u Rops g x n s k)) j) i
              = getp (knot_insertion Rops (s_pu g) (s_Uu g) (col_u g j) x n s k) i).
      rewrite col_u_nth by exact Hi. cbn [s_P s_sv]. apply surf_net_u_col; assumption.
  - split; [reflexivity|]. intros j Hj. rewrite col_u_length, ED. reflexivity.
Qed.

Lemma sv_I_fib tolm dim (g : surf (T:=R)) x n : sok dim g -> par_ok tolm (s_pv g) (s_Uv g) (s_sv g) (Some x) ->
  snd (sstep_v tolm g (Some x) n) = false ->
  let g1 := fst (sstep_v tolm g (Some x) n) in
  frV g1 = frV g /\
  forall i, inb1 (frV g) i -> mkC (s_pv g1) (s_Uv g1) (row_v g1 i) = fst (cstep tolm (mkC (s_pv g) (s_Uv g) (row_v g i)) (Some x) n).
Proof.
  intros [W HL] Hp Hf. cbv zeta. unfold cstep. cbn [c_p c_U c_P]. unfold sstep_v in *.
  pose proof (dir_prep_spec tolm (s_pv g) (s_Uv g) (s_sv g) (Some x) n) as D.
  destruct (dir_prep Rops tolm true (s_pv g) (s_Uv g) (s_sv g) (Some x) n) as [[[[[t s] k] kv]|]|] eqn:ED; cbn [fst snd] in *; try discriminate.
  - destruct D as (Eo & H1 & -> & Hn & -> & ->). injection Eo as <-. destruct W as (_ & Wv & _).
    destruct (dir_accept tolm (s_pv g) (s_Uv g) (s_sv g) x n Wv Hp H1 Hn) as (A1 & A2 & A3 & _). cbv zeta in *.
    split; [reflexivity|]. intros i Hi. unfold inb1, frV in Hi. cbn [snd] in Hi. rewrite row_v_length, ED. cbn [fst s_pv s_Uv]. f_equal.
    set (k := find_span_linear Rops (s_pv g) (s_Uv g) (s_sv g) x) in *. set (s := find_multiplicity Rops tolm x (s_Uv g)) in *.
    destruct (knot_insertion_frame Rops (s_pv g) (s_Uv g) (row_v g i) x n s k A1 A2 ltac:(rewrite row_v_length; exact A3) Hn) as [HLk _].
    rewrite row_v_length in HLk.
    apply (nth_ext _ _ [] []).
    + rewrite row_v_length, HLk. reflexivity.
    + intros j Hj. rewrite row_v_length in Hj. cbn [s_sv] in Hj.
      change (getp (row_v (mkS (s_pu g) (s_pv g) (s_Uu g) (knot_insertion_kv (s_Uv g) x k n) (s_su g) (s_sv g + n) (surf_net_v Rops g x n s k)) i) j
              = getp (knot_insertion Rops (s_pv g) (s_Uv g) (row_v g i) x n s k) j).
      rewrite row_v_nth by exact Hj. cbn [s_P s_sv]. apply surf_net_v_row; assumption.
  - split; [reflexivity|]. intros i Hi. rewrite row_v_length, ED. reflexivity.
Qed.

Lemma su_ext (g1 g2 : surf (T:=R)) : sshape g1 -> sshape g2 -> frU g1 = frU g2 ->
  (forall j, inb1 (frU g1) j -> mkC (s_pu g1) (s_Uu g1) (col_u g1 j) = mkC (s_pu g2) (s_Uu g2) (col_u g2 j)) -> g1 = g2.
Proof.
  intros (L1 & V1 & S1) (L2 & V2 & S2) Efr H. unfold frU, inb1 in *. cbn [snd] in H.
  pose proof (H 0 V1) as H0. injection H0 as Ep EU Hc.
  apply (f_equal (@length _)) in Hc. rewrite !col_u_length in Hc.
  assert (EP : s_P g1 = s_P g2).
  { apply (nth_ext _ _ [] []); [rewrite L1, L2; injection Efr as _ _ ->; rewrite Hc; reflexivity|].
    intros idx Hidx. rewrite L1 in Hidx. destruct (split2 (s_sv g1) (s_su g1) idx Hidx) as (j & i & Hj & Hi & ->).
    specialize (H j Hj). injection H as _ _ Hcj. apply (f_equal (fun c => getp c i)) in Hcj.
    rewrite !col_u_nth in Hcj by lia. injection Efr as _ _ Esv. rewrite <- Esv in Hcj. exact Hcj. }
  destruct g1, g2. cbn in *. injection Efr as -> -> ->. subst. reflexivity.
Qed.

Lemma sv_ext (g1 g2 : surf (T:=R)) : sshape g1 -> sshape g2 -> frV g1 = frV g2 ->
  (forall i, inb1 (frV g1) i -> mkC (s_pv g1) (s_Uv g1) (row_v g1 i) = mkC (s_pv g2) (s_Uv g2) (row_v g2 i)) -> g1 = g2.
Proof.
  intros (L1 & V1 & S1) (L2 & V2 & S2) Efr H. unfold frV, inb1 in *. cbn [snd] in H.
  pose proof (H 0 S1) as H0. injection H0 as Ep EU Hc.
  apply (f_equal (@length _)) in Hc. rewrite !row_v_length in Hc.
  assert (EP : s_P g1 = s_P g2).
  { apply (nth_ext _ _ [] []); [rewrite L1, L2; injection Efr as _ _ ->; rewrite Hc; reflexivity|].
    intros idx Hidx. rewrite L1 in Hidx. destruct (split2 (s_sv g1) (s_su g1) idx Hidx) as (j & i & Hj & Hi & ->).
    specialize (H i Hi). injection H as _ _ Hri. apply (f_equal (fun c => getp c j)) in Hri.
    rewrite !row_v_nth in Hri by lia. rewrite <- Hc in Hri. exact Hri. }
  destruct g1, g2. cbn in *. injection Efr as -> -> ->. subst. reflexivity.
Qed.

Lemma su_fib_wf dim (g : surf (T:=R)) j : sok dim g -> inb1 (frU g) j -> cwf (mkC (s_pu g) (s_Uu g) (col_u g j)) dim.
Proof.
  intros [(Wu & _ & Wd) _] Hj. split; cbn [c_p c_U c_P]; [rewrite col_u_length; exact Wu|]. apply col_u_dims; [exact Wd|exact Hj].
Qed.
Lemma sv_fib_wf dim (g : surf (T:=R)) i : sok dim g -> inb1 (frV g) i -> cwf (mkC (s_pv g) (s_Uv g) (row_v g i)) dim.
Proof.
  intros [(_ & Wv & Wd) _] Hi. split; cbn [c_p c_U c_P]; [rewrite row_v_length; exact Wv|]. apply row_v_dims; [exact Wd|exact Hi].
Qed.

(* ---------- the records operations.refine_knotvector builds from a list X of new knots ---------- *)
Definition surfRU (tol : R) (g : surf (T:=R)) (X : list R) : surf (T:=R) :=
  mkS (s_pu g) (s_pv g) (snd (refine_pts Rops tol (s_pu g) (s_Uu g) (col_u g (Nat.pred (s_sv g))) X)) (s_Uv g)
      (s_su g + length X) (s_sv g)
      (flip_ctrlpts_u (flat_map (fun j => fst (refine_pts Rops tol (s_pu g) (s_Uu g) (col_u g j) X)) (seq 0 (s_sv g)))
                      (s_su g + length X) (s_sv g)).
Definition surfRV (tol : R) (g : surf (T:=R)) (X : list R) : surf (T:=R) :=
  mkS (s_pu g) (s_pv g) (s_Uu g) (snd (refine_pts Rops tol (s_pv g) (s_Uv g) (row_v g (Nat.pred (s_su g))) X))
      (s_su g) (s_sv g + length X)
      (flat_map (fun i => fst (refine_pts Rops tol (s_pv g) (s_Uv g) (row_v g i) X)) (seq 0 (s_su g))).

Lemma refine_surf_u_is tol (g : surf (T:=R)) d X :
  refine_plan Rops tol true (s_pu g) (s_Uu g) None [] d = Ok X -> refine_ok tol (s_pu g) (s_Uu g) (s_su g) X ->
  refine_surf_u Rops tol g d = (surfRU tol g X, false).
Proof.
  intros Hplan HX. unfold refine_surf_u. rewrite Hplan. cbv beta zeta.
  pose proof (refine_pts_length tol (s_pu g) (s_Uu g) (col_u g (Nat.pred (s_sv g))) X ltac:(rewrite col_u_length; exact HX)) as HL.
  rewrite col_u_length in HL. unfold surfRU, col_u in *.
  destruct (refine_pts Rops tol (s_pu g) (s_Uu g) (map (fun u_ => getp (s_P g) (Nat.pred (s_sv g) + s_sv g * u_)) (seq 0 (s_su g))) X) as [Q0 V0].
  cbn [fst snd] in *. rewrite HL. reflexivity.
Qed.
Lemma refine_surf_v_is tol (g : surf (T:=R)) d X :
  refine_plan Rops tol true (s_pv g) (s_Uv g) None [] d = Ok X -> refine_ok tol (s_pv g) (s_Uv g) (s_sv g) X ->
  refine_surf_v Rops tol g d = (surfRV tol g X, false).
Proof.
  intros Hplan HX. unfold refine_surf_v. rewrite Hplan. cbv beta zeta.
  pose proof (refine_pts_length tol (s_pv g) (s_Uv g) (row_v g (Nat.pred (s_su g))) X ltac:(rewrite row_v_length; exact HX)) as HL.
  rewrite row_v_length in HL. unfold surfRV, row_v in *.
  destruct (refine_pts Rops tol (s_pv g) (s_Uv g) (map (fun v => getp (s_P g) (v + s_sv g * Nat.pred (s_su g))) (seq 0 (s_sv g))) X) as [Q0 V0].
  cbn [fst snd] in *. rewrite HL. reflexivity.
Qed.

Lemma surfRU_shape tol dim (g : surf (T:=R)) X : sok dim g -> sshape (surfRU tol g X).
Proof.
  intros F. destruct (sok_shape dim g F) as (_ & Hv & Hu). split; [|cbn [surfRU s_su s_sv]; lia]. cbn [surfRU s_P s_su s_sv].
  unfold flip_ctrlpts_u. apply flat_map_length_const. intros. rewrite map_length, seq_length. reflexivity.
Qed.
Lemma surfRV_shape tol dim (g : surf (T:=R)) X : sok dim g -> refine_ok tol (s_pv g) (s_Uv g) (s_sv g) X -> sshape (surfRV tol g X).
Proof.
  intros F HX. destruct (sok_shape dim g F) as (_ & Hv & Hu). split; [|cbn [surfRV s_su s_sv]; lia]. cbn [surfRV s_P s_su s_sv].
  apply flat_map_length_const. intros i _. apply Fv_length. exact HX.
Qed.

Lemma surfRU_fib tol (g : surf (T:=R)) X j : refine_ok tol (s_pu g) (s_Uu g) (s_su g) X -> j < s_sv g ->
  mkC (s_pu (surfRU tol g X)) (s_Uu (surfRU tol g X)) (col_u (surfRU tol g X) j)
  = mkC (s_pu g) (snd (refine_pts Rops tol (s_pu g) (s_Uu g) (col_u g j) X)) (fst (refine_pts Rops tol (s_pu g) (s_Uu g) (col_u g j) X)).
Proof.
  intros HX Hj. cbn [surfRU s_pu s_Uu]. rewrite <- (V_all tol g X j). f_equal.
  apply (nth_ext _ _ [] []).
  - rewrite col_u_length, F_length by exact HX. reflexivity.
  - intros i Hi. rewrite col_u_length in Hi. cbn [surfRU s_su] in Hi.
    change (getp (col_u (surfRU tol g X) j) i = getp (fst (refine_pts Rops tol (s_pu g) (s_Uu g) (col_u g j) X)) i).
    rewrite col_u_nth by exact Hi. cbn [surfRU s_P s_sv]. apply Pn_col; assumption.
Qed.
Lemma surfRV_fib tol (g : surf (T:=R)) X i : refine_ok tol (s_pv g) (s_Uv g) (s_sv g) X -> i < s_su g ->
  mkC (s_pv (surfRV tol g X)) (s_Uv (surfRV tol g X)) (row_v (surfRV tol g X) i)
  = mkC (s_pv g) (snd (refine_pts Rops tol (s_pv g) (s_Uv g) (row_v g i) X)) (fst (refine_pts Rops tol (s_pv g) (s_Uv g) (row_v g i) X)).
Proof.
  intros HX Hi. cbn [surfRV s_pv s_Uv]. rewrite <- (Vv_all tol g X i). f_equal.
  apply (nth_ext _ _ [] []).
  - rewrite row_v_length, Fv_length by exact HX. reflexivity.
  - intros j Hj. rewrite row_v_length in Hj. cbn [surfRV s_sv] in Hj.
    change (getp (row_v (surfRV tol g X) i) j = getp (fst (refine_pts Rops tol (s_pv g) (s_Uv g) (row_v g i) X)) j).
    rewrite row_v_nth by exact Hj. cbn [surfRV s_P s_sv]. apply Pn_row; assumption.
Qed.

(* [G] surfaces: the refined record IS an insertion chain of stages, for every schedule that rearranges X *)
Theorem surfRU_chain (tol tolm tol2 : R) (dim : nat) (g : surf (T:=R)) (X : list R) (sched : list (R * nat)) :
  (0 <= tolm)%R -> (0 <= tol2)%R -> sok dim g ->
  refine_ok tol (s_pu g) (s_Uu g) (s_su g) X ->
  (forall x y, In x X -> In y (X ++ s_Uu g) -> (Rabs (x - y) <= tolm)%R -> y = x) ->
  Permutation (expand sched) X ->
  surfRU tol g X = fold_left (oins _ (stU tolm tol2)) (rev sched) g /\ ochain _ (stU tolm tol2) g (rev sched).
Proof.
  intros Htm Ht2 F HX Hsep PX.
  apply (refined_is_chain tolm dim Htm (surf (T:=R)) nat (nat * list R * nat) (sok dim) sshape (ssame dim) (ssame_refl dim) (ssame_trans dim)
           (stU tolm tol2) (stU_ok tolm tol2 dim Htm Ht2) (fun g => s_pu g) (fun g => s_Uu g) (fun g => s_su g) frU inb1 (fun g j => col_u g j)) with (tol := tol) (X := X);
    try assumption.
  - intros; cbn; tauto.
  - apply sok_shape.
  - intros; apply col_u_length.
  - intros g0 j. apply su_fib_wf.
  - intros g0 (_ & Hv & _). exists 0. exact Hv.
  - intros g0 x n j. apply su_I_flag.
  - intros g0 x n. apply su_I_fib.
  - apply su_ext.
  - apply (surfRU_shape tol dim); exact F.
  - reflexivity.
  - intros j Hj. apply surfRU_fib; assumption.
Qed.

Theorem surfRV_chain (tol tolm tol2 : R) (dim : nat) (g : surf (T:=R)) (X : list R) (sched : list (R * nat)) :
  (0 <= tolm)%R -> (0 <= tol2)%R -> sok dim g ->
  refine_ok tol (s_pv g) (s_Uv g) (s_sv g) X ->
  (forall x y, In x X -> In y (X ++ s_Uv g) -> (Rabs (x - y) <= tolm)%R -> y = x) ->
  Permutation (expand sched) X ->
  surfRV tol g X = fold_left (oins _ (stV tolm tol2)) (rev sched) g /\ ochain _ (stV tolm tol2) g (rev sched).
Proof.
  intros Htm Ht2 F HX Hsep PX.
  apply (refined_is_chain tolm dim Htm (surf (T:=R)) nat (nat * list R * nat) (sok dim) sshape (ssame dim) (ssame_refl dim) (ssame_trans dim)
           (stV tolm tol2) (stV_ok tolm tol2 dim Htm Ht2) (fun g => s_pv g) (fun g => s_Uv g) (fun g => s_sv g) frV inb1 (fun g i => row_v g i)) with (tol := tol) (X := X);
    try assumption.
  - intros; cbn; tauto.
  - apply sok_shape.
  - intros; apply row_v_length.
  - intros g0 i. apply sv_fib_wf.
  - intros g0 (_ & _ & Hu). exists 0. exact Hu.
  - intros g0 x n i. apply sv_I_flag.
  - intros g0 x n. apply sv_I_fib.
  - apply sv_ext.
  - apply (surfRV_shape tol dim); assumption.
  - reflexivity.
  - intros i Hi. apply surfRV_fib; assumption.
Qed.

(* ================================================================== 4. volumes: the three directions as fibred stages *)
Definition vshape (g : vol (T:=R)) : Prop := length (v_P g) = v_su g * v_sv g * v_sw g /\ 0 < v_su g /\ 0 < v_sv g /\ 0 < v_sw g.
Definition vsame (dim : nat) (g' g : vol (T:=R)) : Prop := forall c tu tv tw, c < dim -> vol_pt g' c tu tv tw = vol_pt g c tu tv tw.

Lemma vsame_refl dim g : vsame dim g g.
Proof. intros c tu tv tw _. reflexivity. Qed.
Lemma vsame_trans dim a b c : vsame dim a b -> vsame dim b c -> vsame dim a c.
Proof. intros H1 H2 cc tu tv tw Hc. rewrite (H1 cc tu tv tw Hc). apply H2. exact Hc. Qed.
Lemma vfull_shape dim g : vfull dim g -> vshape g.
Proof. intros [((_ & Hu & _) & (_ & Hv & _) & (_ & Hw & _) & _) HL]. split; [exact HL|]. repeat split; lia. Qed.

Definition vtU (tolm tol2 : R) : stage (vol (T:=R)) :=
  mkStage _ (fun g x n => vstep_u tolm g (Some x) n) (fun g x n => vrstep_u tolm tol2 g (Some x) n)
            (fun g x => par_ok tolm (v_pu g) (v_Uu g) (v_su g) (Some x)).
Definition vtV (tolm tol2 : R) : stage (vol (T:=R)) :=
  mkStage _ (fun g x n => vstep_v tolm g (Some x) n) (fun g x n => vrstep_v tolm tol2 g (Some x) n)
            (fun g x => par_ok tolm (v_pv g) (v_Uv g) (v_sv g) (Some x)).
Definition vtW (tolm tol2 : R) : stage (vol (T:=R)) :=
  mkStage _ (fun g x n => vstep_w tolm g (Some x) n) (fun g x n => vrstep_w tolm tol2 g (Some x) n)
            (fun g x => par_ok tolm (v_pw g) (v_Uw g) (v_sw g) (Some x)).

Lemma vtU_ok tolm tol2 dim : (0 <= tolm)%R -> (0 <= tol2)%R -> stage_ok _ (vfull dim) (vsame dim) (vtU tolm tol2).
Proof.
  intros Ht Ht2. split; cbn [vtU st_ins st_rem st_par].
  - reflexivity.
  - reflexivity.
  - intros g x n [W HL] Hp _. destruct (vstep_u_spec tolm g dim (Some x) n W Hp) as (_ & _ & U3 & U4 & _). cbv zeta in *.
    split; [split; [exact U3|apply (vstep_u_length tolm g dim); assumption]|exact U4].
  - intros g x n [W HL] Hp Hf. apply (vrstep_u_inverts tolm tol2 g dim); assumption.
Qed.
Lemma vtV_ok tolm tol2 dim : (0 <= tolm)%R -> (0 <= tol2)%R -> stage_ok _ (vfull dim) (vsame dim) (vtV tolm tol2).
Proof.
  intros Ht Ht2. split; cbn [vtV st_ins st_rem st_par].
  - reflexivity.
  - reflexivity.
  - intros g x n [W HL] Hp _. destruct (vstep_v_spec tolm g dim (Some x) n W Hp) as (_ & _ & U3 & U4 & _). cbv zeta in *.
    split; [split; [exact U3|apply (vstep_v_length tolm g dim); assumption]|exact U4].
  - intros g x n [W HL] Hp Hf. apply (vrstep_v_inverts tolm tol2 g dim); assumption.
Qed.
Lemma vtW_ok tolm tol2 dim : (0 <= tolm)%R -> (0 <= tol2)%R -> stage_ok _ (vfull dim) (vsame dim) (vtW tolm tol2).
Proof.
  intros Ht Ht2. split; cbn [vtW st_ins st_rem st_par].
  - reflexivity.
  - reflexivity.
  - intros g x n [W HL] Hp _. destruct (vstep_w_spec tolm g dim (Some x) n W Hp) as (_ & _ & U3 & U4 & _). cbv zeta in *.
    split; [split; [exact U3|apply (vstep_w_length tolm g dim); assumption]|exact U4].
  - intros g x n [W HL] Hp Hf. apply (vrstep_w_inverts tolm tol2 g dim); assumption.
Qed.

Lemma vtUV_commute tolm tol2 dim : st_commute _ (vfull dim) (vtU tolm tol2) (vtV tolm tol2).
Proof.
  split; cbn [vtU vtV st_ins st_rem st_par].
  - intros g x n y m F Px Py Fx Fy. apply (vUV_commute tolm dim (Some x) (Some y) None g n m); assumption.
  - intros g x n y m F Px _. destruct (vU_keeps tolm dim (Some x) (Some y) None g n F Px) as (_ & K2 & _ & K3 & _). split; [exact K2|apply K3].
  - intros g x n y m F Py _. destruct (vV_keeps tolm dim (Some x) (Some y) None g m F Py) as (_ & K2 & _ & K3 & _). split; [exact K2|apply K3].
Qed.
Lemma vtUW_commute tolm tol2 dim : st_commute _ (vfull dim) (vtU tolm tol2) (vtW tolm tol2).
Proof.
  split; cbn [vtU vtW st_ins st_rem st_par].
  - intros g x n y m F Px Py Fx Fy. apply (vUW_commute tolm dim (Some x) None (Some y) g n m); assumption.
  - intros g x n y m F Px _. destruct (vU_keeps tolm dim (Some x) None (Some y) g n F Px) as (_ & _ & K2 & _ & K3). split; [exact K2|apply K3].
  - intros g x n y m F Py _. destruct (vW_keeps tolm dim (Some x) None (Some y) g m F Py) as (_ & K2 & _ & K3 & _). split; [exact K2|apply K3].
Qed.
Lemma vtVW_commute tolm tol2 dim : st_commute _ (vfull dim) (vtV tolm tol2) (vtW tolm tol2).
Proof.
  split; cbn [vtV vtW st_ins st_rem st_par].
  - intros g x n y m F Px Py Fx Fy. apply (vVW_commute tolm dim None (Some x) (Some y) g n m); assumption.
  - intros g x n y m F Px _. destruct (vV_keeps tolm dim None (Some x) (Some y) g n F Px) as (_ & _ & K2 & _ & K3). split; [exact K2|apply K3].
  - intros g x n y m F Py _. destruct (vW_keeps tolm dim None (Some x) (Some y) g m F Py) as (_ & _ & K2 & _ & K3). split; [exact K2|apply K3].
Qed.

(* ---------- fibres of a volume ---------- *)
Lemma fib_u_nth (g : vol (T:=R)) j l i : i < v_su g -> getp (fib_u g j l) i = getp (v_P g) (vidx g i j l).
Proof. intros Hi. unfold fib_u, getp at 1. rewrite nth_map_seq by exact Hi. reflexivity. Qed.
Lemma fib_v_nth (g : vol (T:=R)) i l j : j < v_sv g -> getp (fib_v g i l) j = getp (v_P g) (vidx g i j l).
Proof. intros Hj. unfold fib_v, getp at 1. rewrite nth_map_seq by exact Hj. reflexivity. Qed.
Lemma fib_w_nth (g : vol (T:=R)) i j l : l < v_sw g -> getp (fib_w g i j) l = getp (v_P g) (vidx g i j l).
Proof. intros Hl. unfold fib_w, getp at 1. rewrite nth_map_seq by exact Hl. reflexivity. Qed.

Definition Fr2 : Type := nat * nat * list R * list R * (nat * nat).
Definition frVU (g : vol (T:=R)) : Fr2 := (v_pv g, v_pw g, v_Uv g, v_Uw g, (v_sv g, v_sw g)).
Definition frVV (g : vol (T:=R)) : Fr2 := (v_pu g, v_pw g, v_Uu g, v_Uw g, (v_su g, v_sw g)).
Definition frVW (g : vol (T:=R)) : Fr2 := (v_pu g, v_pv g, v_Uu g, v_Uv g, (v_su g, v_sv g)).
Definition inb2 (fr : Fr2) (ix : nat * nat) : Prop := fst ix < fst (snd fr) /\ snd ix < snd (snd fr).

Lemma vu_I_flag tolm (g : vol (T:=R)) x n ix :
  snd (vstep_u tolm g (Some x) n) = snd (cstep tolm (mkC (v_pu g) (v_Uu g) (fib_u g (fst ix) (snd ix))) (Some x) n).
Proof.
  unfold vstep_u, cstep. cbn [c_p c_U c_P]. rewrite fib_u_length.
  destruct (dir_prep Rops tolm true (v_pu g) (v_Uu g) (v_su g) (Some x) n) as [[[[[t s] k] kv]|]|]; reflexivity.
Qed.
Lemma vv_I_flag tolm (g : vol (T:=R)) x n ix :
  snd (vstep_v tolm g (Some x) n) = snd (cstep tolm (mkC (v_pv g) (v_Uv g) (fib_v g (fst ix) (snd ix))) (Some x) n).
Proof.
  unfold vstep_v, cstep. cbn [c_p c_U c_P]. rewrite fib_v_length.
  destruct (dir_prep Rops tolm true (v_pv g) (v_Uv g) (v_sv g) (Some x) n) as [[[[[t s] k] kv]|]|]; reflexivity.
Qed.
Lemma vw_I_flag tolm (g : vol (T:=R)) x n ix :
  snd (vstep_w tolm g (Some x) n) = snd (cstep tolm (mkC (v_pw g) (v_Uw g) (fib_w g (fst ix) (snd ix))) (Some x) n).
Proof.
  unfold vstep_w, cstep. cbn [c_p c_U c_P]. rewrite fib_w_length.
  destruct (dir_prep Rops tolm true (v_pw g) (v_Uw g) (v_sw g) (Some x) n) as [[[[[t s] k] kv]|]|]; reflexivity.
Qed.

Lemma vu_I_fib tolm dim (g : vol (T:=R)) x n : vfull dim g -> par_ok tolm (v_pu g) (v_Uu g) (v_su g) (Some x) ->
  snd (vstep_u tolm g (Some x) n) = false ->
  let g1 := fst (vstep_u tolm g (Some x) n) in
  frVU g1 = frVU g /\
  forall ix, inb2 (frVU g) ix ->
    mkC (v_pu g1) (v_Uu g1) (fib_u g1 (fst ix) (snd ix)) = fst (cstep tolm (mkC (v_pu g) (v_Uu g) (fib_u g (fst ix) (snd ix))) (Some x) n).
Proof.
  intros [W HL] Hp Hf. cbv zeta. unfold cstep. cbn [c_p c_U c_P]. unfold vstep_u in *.
  pose proof (dir_prep_spec tolm (v_pu g) (v_Uu g) (v_su g) (Some x) n) as D.
  destruct (dir_prep Rops tolm true (v_pu g) (v_Uu g) (v_su g) (Some x) n) as [[[[[t s] k] kv]|]|] eqn:ED; cbn [fst snd] in *; try discriminate.
  - destruct D as (Eo & H1 & -> & Hn & -> & ->). injection Eo as <-. destruct W as (Wu & _ & _ & _).
    destruct (dir_accept tolm (v_pu g) (v_Uu g) (v_su g) x n Wu Hp H1 Hn) as (A1 & A2 & A3 & _). cbv zeta in *.
    split; [reflexivity|]. intros [j l] [Hj Hl]. unfold frVU in Hj, Hl. cbn [fst snd] in *. rewrite fib_u_length, ED. cbn [fst v_pu v_Uu]. f_equal.
    set (k := find_span_linear Rops (v_pu g) (v_Uu g) (v_su g) x) in *. set (s := find_multiplicity Rops tolm x (v_Uu g)) in *.
    destruct (knot_insertion_frame Rops (v_pu g) (v_Uu g) (fib_u g j l) x n s k A1 A2 ltac:(rewrite fib_u_length; exact A3) Hn) as [HLk _].
    rewrite fib_u_length in HLk.
    apply (nth_ext _ _ [] []).
    + rewrite fib_u_length, HLk. reflexivity.
    + intros i Hi. rewrite fib_u_length in Hi. cbn [v_su] in Hi.
      change (getp (fib_u (mkV (v_pu g) (v_pv g) (v_pw g) (knot_insertion_kv (v_Uu g) x k n) (v_Uv g) (v_Uw g) (v_su g + n) (v_sv g) (v_sw g) (vol_net_u Rops g x n s k)) j l) i
              = getp (knot_insertion Rops (v_pu g) (v_Uu g) (fib_u g j l) x n s k) i).
      rewrite fib_u_nth by exact Hi. unfold vidx. cbn [v_P v_su v_sv]. apply vol_net_u_fibre; assumption.
  - split; [reflexivity|]. intros [j l] _. cbn [fst snd]. rewrite fib_u_length, ED. reflexivity.
Qed.

Lemma vv_I_fib tolm dim (g : vol (T:=R)) x n : vfull dim g -> par_ok tolm (v_pv g) (v_Uv g) (v_sv g) (Some x) ->
  snd (vstep_v tolm g (Some x) n) = false ->
  let g1 := fst (vstep_v tolm g (Some x) n) in
  frVV g1 = frVV g /\
  forall ix, inb2 (frVV g) ix ->
    mkC (v_pv g1) (v_Uv g1) (fib_v g1 (fst ix) (snd ix)) = fst (cstep tolm (mkC (v_pv g) (v_Uv g) (fib_v g (fst ix) (snd ix))) (Some x) n).
Proof.
  intros [W HL] Hp Hf. cbv zeta. unfold cstep. cbn [c_p c_U c_P]. unfold vstep_v in *.
  pose proof (dir_prep_spec tolm (v_pv g) (v_Uv g) (v_sv g) (Some x) n) as D.
  destruct (dir_prep Rops tolm true (v_pv g) (v_Uv g) (v_sv g) (Some x) n) as [[[[[t s] k] kv]|]|] eqn:ED; cbn [fst snd] in *; try discriminate.
  - destruct D as (Eo & H1 & -> & Hn & -> & ->). injection Eo as <-. destruct W as (_ & Wv & _ & _).
    destruct (dir_accept tolm (v_pv g) (v_Uv g) (v_sv g) x n Wv Hp H1 Hn) as (A1 & A2 & A3 & _). cbv zeta in *.
    split; [reflexivity|]. intros [i l] [Hi Hl]. unfold frVV in Hi, Hl. cbn [fst snd] in *. rewrite fib_v_length, ED. cbn [fst v_pv v_Uv]. f_equal.
    set (k := find_span_linear Rops (v_pv g) (v_Uv g) (v_sv g) x) in *. set (s := find_multiplicity Rops tolm x (v_Uv g)) in *.
    destruct (knot_insertion_frame Rops (v_pv g) (v_Uv g) (fib_v g i l) x n s k A1 A2 ltac:(rewrite fib_v_length; exact A3) Hn) as [HLk _].
    rewrite fib_v_length in HLk.
    apply (nth_ext _ _ [] []).
    + rewrite fib_v_length, HLk. reflexivity.
    + intros j Hj. rewrite fib_v_length in Hj. cbn [v_sv] in Hj.
      change (getp (fib_v (mkV (v_pu g) (v_pv g) (v_pw g) (v_Uu g) (knot_insertion_kv (v_Uv g) x k n) (v_Uw g) (v_su g) (v_sv g + n) (v_sw g) (vol_net_v Rops g x n s k)) i l) j
              = getp (knot_insertion Rops (v_pv g) (v_Uv g) (fib_v g i l) x n s k) j).
      rewrite fib_v_nth by exact Hj. unfold vidx. cbn [v_P v_su v_sv]. apply vol_net_v_fibre; assumption.
  - split; [reflexivity|]. intros [i l] _. cbn [fst snd]. rewrite fib_v_length, ED. reflexivity.
Qed.

Lemma vw_I_fib tolm dim (g : vol (T:=R)) x n : vfull dim g -> par_ok tolm (v_pw g) (v_Uw g) (v_sw g) (Some x) ->
  snd (vstep_w tolm g (Some x) n) = false ->
  let g1 := fst (vstep_w tolm g (Some x) n) in
  frVW g1 = frVW g /\
  forall ix, inb2 (frVW g) ix ->
    mkC (v_pw g1) (v_Uw g1) (fib_w g1 (fst ix) (snd ix)) = fst (cstep tolm (mkC (v_pw g) (v_Uw g) (fib_w g (fst ix) (snd ix))) (Some x) n).
Proof.
  intros [W HL] Hp Hf. cbv zeta. unfold cstep. cbn [c_p c_U c_P]. unfold vstep_w in *.
  pose proof (dir_prep_spec tolm (v_pw g) (v_Uw g) (v_sw g) (Some x) n) as D.
  destruct (dir_prep Rops tolm true (v_pw g) (v_Uw g) (v_sw g) (Some x) n) as [[[[[t s] k] kv]|]|] eqn:ED; cbn [fst snd] in *; try discriminate.
  - destruct D as (Eo & H1 & -> & Hn & -> & ->). injection Eo as <-. destruct W as (_ & _ & Ww & _).
    destruct (dir_accept tolm (v_pw g) (v_Uw g) (v_sw g) x n Ww Hp H1 Hn) as (A1 & A2 & A3 & _). cbv zeta in *.
    split; [reflexivity|]. intros [i j] [Hi Hj]. unfold frVW in Hi, Hj. cbn [fst snd] in *. rewrite fib_w_length, ED. cbn [fst v_pw v_Uw]. f_equal.
    set (k := find_span_linear Rops (v_pw g) (v_Uw g) (v_sw g) x) in *. set (s := find_multiplicity Rops tolm x (v_Uw g)) in *.
    destruct (knot_insertion_frame Rops (v_pw g) (v_Uw g) (fib_w g i j) x n s k A1 A2 ltac:(rewrite fib_w_length; exact A3) Hn) as [HLk _].
    rewrite fib_w_length in HLk.
    apply (nth_ext _ _ [] []).
    + rewrite fib_w_length, HLk. reflexivity.
    + intros l Hl. rewrite fib_w_length in Hl. cbn [v_sw] in Hl.
      change (getp (fib_w (mkV (v_pu g) (v_pv g) (v_pw g) (v_Uu g) (v_Uv g) (knot_insertion_kv (v_Uw g) x k n) (v_su g) (v_sv g) (v_sw g + n) (vol_net_w Rops g x n s k)) i j) l
              = getp (knot_insertion Rops (v_pw g) (v_Uw g) (fib_w g i j) x n s k) l).
      rewrite fib_w_nth by exact Hl. unfold vidx. cbn [v_P v_su v_sv]. apply vol_net_w_fibre; assumption.
  - split; [reflexivity|]. intros [i j] _. cbn [fst snd]. rewrite fib_w_length, ED. reflexivity.
Qed.

Lemma vol_P_ext (g1 g2 : vol (T:=R)) : vshape g1 -> length (v_P g2) = length (v_P g1) ->
  v_su g2 = v_su g1 -> v_sv g2 = v_sv g1 ->
  (forall i j l, i < v_su g1 -> j < v_sv g1 -> l < v_sw g1 -> getp (v_P g1) (vidx g1 i j l) = getp (v_P g2) (vidx g2 i j l)) ->
  v_P g1 = v_P g2.
Proof.
  intros (L1 & _) L2 Eu Ev H. apply (nth_ext _ _ [] []); [symmetry; exact L2|].
  intros idx Hidx. rewrite L1 in Hidx. destruct (split3 (v_sv g1) (v_su g1) (v_sw g1) idx Hidx) as (j & i & l & Hj & Hi & Hl & ->).
  specialize (H i j l Hi Hj Hl). unfold vidx, getp in H. rewrite Eu, Ev in H. exact H.
Qed.

Lemma vu_ext (g1 g2 : vol (T:=R)) : vshape g1 -> vshape g2 -> frVU g1 = frVU g2 ->
  (forall ix, inb2 (frVU g1) ix -> mkC (v_pu g1) (v_Uu g1) (fib_u g1 (fst ix) (snd ix)) = mkC (v_pu g2) (v_Uu g2) (fib_u g2 (fst ix) (snd ix))) -> g1 = g2.
Proof.
  intros S1 S2 Efr H. pose proof S1 as (L1 & U1 & V1 & W1). pose proof S2 as (L2 & U2 & V2 & W2).
  unfold frVU, inb2 in *. cbn [fst snd] in H. injection Efr as Epv Epw EUv EUw Esv Esw.
  pose proof (H (0, 0) (conj V1 W1)) as H0. cbn [fst snd] in H0. injection H0 as Ep EU Hc.
  apply (f_equal (@length _)) in Hc. rewrite !fib_u_length in Hc.
  assert (EP : v_P g1 = v_P g2).
  { apply (vol_P_ext g1 g2 S1); [rewrite L2, L1; congruence|congruence|congruence|].
    intros i j l Hi Hj Hl. specialize (H (j, l) (conj Hj Hl)). cbn [fst snd] in H. injection H as _ _ Hf.
    apply (f_equal (fun c => getp c i)) in Hf. rewrite !fib_u_nth in Hf by lia. exact Hf. }
  destruct g1, g2. cbn in *. subst. reflexivity.
Qed.
Lemma vv_ext (g1 g2 : vol (T:=R)) : vshape g1 -> vshape g2 -> frVV g1 = frVV g2 ->
  (forall ix, inb2 (frVV g1) ix -> mkC (v_pv g1) (v_Uv g1) (fib_v g1 (fst ix) (snd ix)) = mkC (v_pv g2) (v_Uv g2) (fib_v g2 (fst ix) (snd ix))) -> g1 = g2.
Proof.
  intros S1 S2 Efr H. pose proof S1 as (L1 & U1 & V1 & W1). pose proof S2 as (L2 & U2 & V2 & W2).
  unfold frVV, inb2 in *. cbn [fst snd] in H. injection Efr as Epu Epw EUu EUw Esu Esw.
  pose proof (H (0, 0) (conj U1 W1)) as H0. cbn [fst snd] in H0. injection H0 as Ep EU Hc.
  apply (f_equal (@length _)) in Hc. rewrite !fib_v_length in Hc.
  assert (EP : v_P g1 = v_P g2).
  { apply (vol_P_ext g1 g2 S1); [rewrite L2, L1; congruence|congruence|congruence|].
    intros i j l Hi Hj Hl. specialize (H (i, l) (conj Hi Hl)). cbn [fst snd] in H. injection H as _ _ Hf.
    apply (f_equal (fun c => getp c j)) in Hf. rewrite !fib_v_nth in Hf by lia. exact Hf. }
  destruct g1, g2. cbn in *. subst. reflexivity.
Qed.
Lemma vw_ext (g1 g2 : vol (T:=R)) : vshape g1 -> vshape g2 -> frVW g1 = frVW g2 ->
  (forall ix, inb2 (frVW g1) ix -> mkC (v_pw g1) (v_Uw g1) (fib_w g1 (fst ix) (snd ix)) = mkC (v_pw g2) (v_Uw g2) (fib_w g2 (fst ix) (snd ix))) -> g1 = g2.
Proof.
  intros S1 S2 Efr H. pose proof S1 as (L1 & U1 & V1 & W1). pose proof S2 as (L2 & U2 & V2 & W2).
  unfold frVW, inb2 in *. cbn [fst snd] in H. injection Efr as Epu Epv EUu EUv Esu Esv.
  pose proof (H (0, 0) (conj U1 V1)) as H0. cbn [fst snd] in H0. injection H0 as Ep EU Hc.
  apply (f_equal (@length _)) in Hc. rewrite !fib_w_length in Hc.
  assert (EP : v_P g1 = v_P g2).
  { apply (vol_P_ext g1 g2 S1); [rewrite L2, L1; congruence|congruence|congruence|].
    intros i j l Hi Hj Hl. specialize (H (i, j) (conj Hi Hj)). cbn [fst snd] in H. injection H as _ _ Hf.
    apply (f_equal (fun c => getp c l)) in Hf. rewrite !fib_w_nth in Hf by lia. exact Hf. }
  destruct g1, g2. cbn in *. subst. reflexivity.
Qed.

Lemma vu_fib_wf dim (g : vol (T:=R)) ix : vfull dim g -> inb2 (frVU g) ix -> cwf (mkC (v_pu g) (v_Uu g) (fib_u g (fst ix) (snd ix))) dim.
Proof.
  intros [(Wu & _ & _ & Wd) _] [Hj Hl]. split; cbn [c_p c_U c_P]; [rewrite fib_u_length; exact Wu|]. apply fib_u_dims; assumption.
Qed.
Lemma vv_fib_wf dim (g : vol (T:=R)) ix : vfull dim g -> inb2 (frVV g) ix -> cwf (mkC (v_pv g) (v_Uv g) (fib_v g (fst ix) (snd ix))) dim.
Proof.
  intros [(_ & Wv & _ & Wd) _] [Hi Hl]. split; cbn [c_p c_U c_P]; [rewrite fib_v_length; exact Wv|]. apply fib_v_dims; assumption.
Qed.
Lemma vw_fib_wf dim (g : vol (T:=R)) ix : vfull dim g -> inb2 (frVW g) ix -> cwf (mkC (v_pw g) (v_Uw g) (fib_w g (fst ix) (snd ix))) dim.
Proof.
  intros [(_ & _ & Ww & Wd) _] [Hi Hj]. split; cbn [c_p c_U c_P]; [rewrite fib_w_length; exact Ww|]. apply fib_w_dims; assumption.
Qed.

(* ---------- the records operations.refine_knotvector builds for a volume from a list X of new knots ---------- *)
Definition volCU (g : vol (T:=R)) : list (list (list R)) :=
  map (fun u_ => flat_map (fun w_ => map (fun v_ => getp (v_P g) (vidx g u_ v_ w_)) (seq 0 (v_sv g))) (seq 0 (v_sw g))) (seq 0 (v_su g)).
Definition volCV (g : vol (T:=R)) : list (list (list R)) :=
  map (fun v_ => flat_map (fun w_ => map (fun u_ => getp (v_P g) (vidx g u_ v_ w_)) (seq 0 (v_su g))) (seq 0 (v_sw g))) (seq 0 (v_sv g)).
Definition volCW (g : vol (T:=R)) : list (list (list R)) :=
  map (fun w_ => map (fun i => getp (v_P g) (i + w_ * (v_su g * v_sv g))) (seq 0 (v_su g * v_sv g))) (seq 0 (v_sw g)).

Definition volRU (tol : R) (g : vol (T:=R)) (X : list R) : vol (T:=R) :=
  mkV (v_pu g) (v_pv g) (v_pw g) (snd (refine_rows Rops tol (v_pu g) (v_Uu g) (volCU g) X)) (v_Uv g) (v_Uw g)
      (v_su g + length X) (v_sv g) (v_sw g)
      (flat_map (fun w_ => flat_map (fun u_ => map (fun v_ => getp (nth u_ (fst (refine_rows Rops tol (v_pu g) (v_Uu g) (volCU g) X)) []) (v_ + w_ * v_sv g))
                                                (seq 0 (v_sv g))) (seq 0 (v_su g + length X))) (seq 0 (v_sw g))).
Definition volRV (tol : R) (g : vol (T:=R)) (X : list R) : vol (T:=R) :=
  mkV (v_pu g) (v_pv g) (v_pw g) (v_Uu g) (snd (refine_rows Rops tol (v_pv g) (v_Uv g) (volCV g) X)) (v_Uw g)
      (v_su g) (v_sv g + length X) (v_sw g)
      (flat_map (fun w_ => flat_map (fun u_ => map (fun v_ => getp (nth v_ (fst (refine_rows Rops tol (v_pv g) (v_Uv g) (volCV g) X)) []) (u_ + w_ * v_su g))
                                                (seq 0 (v_sv g + length X))) (seq 0 (v_su g))) (seq 0 (v_sw g))).
Definition volRW (tol : R) (g : vol (T:=R)) (X : list R) : vol (T:=R) :=
  mkV (v_pu g) (v_pv g) (v_pw g) (v_Uu g) (v_Uv g) (snd (refine_rows Rops tol (v_pw g) (v_Uw g) (volCW g) X))
      (v_su g) (v_sv g) (v_sw g + length X)
      (flat_map (fun w_ => nth w_ (fst (refine_rows Rops tol (v_pw g) (v_Uw g) (volCW g) X)) []) (seq 0 (v_sw g + length X))).

Lemma volCU_length g : length (volCU g) = v_su g. Proof. unfold volCU. rewrite map_length, seq_length. reflexivity. Qed.
Lemma volCV_length g : length (volCV g) = v_sv g. Proof. unfold volCV. rewrite map_length, seq_length. reflexivity. Qed.
Lemma volCW_length g : length (volCW g) = v_sw g. Proof. unfold volCW. rewrite map_length, seq_length. reflexivity. Qed.

Lemma refine_vol_u_is tol (g : vol (T:=R)) d X :
  refine_plan Rops tol true (v_pu g) (v_Uu g) None [] d = Ok X -> refine_ok tol (v_pu g) (v_Uu g) (v_su g) X ->
  refine_vol_u Rops tol g d = (volRU tol g X, false).
Proof.
  intros Hplan HX. unfold refine_vol_u. rewrite Hplan. cbv beta zeta.
  pose proof (refine_rows_length tol (v_pu g) (v_Uu g) (volCU g) X ltac:(rewrite volCU_length; exact HX)) as HL. rewrite volCU_length in HL.
  unfold volRU, volCU in *.
  destruct (refine_rows Rops tol (v_pu g) (v_Uu g) _ X) as [tmp V]. cbn [fst snd] in *. rewrite HL. reflexivity.
Qed.
Lemma refine_vol_v_is tol (g : vol (T:=R)) d X :
  refine_plan Rops tol true (v_pv g) (v_Uv g) None [] d = Ok X -> refine_ok tol (v_pv g) (v_Uv g) (v_sv g) X ->
  refine_vol_v Rops tol g d = (volRV tol g X, false).
Proof.
  intros Hplan HX. unfold refine_vol_v. rewrite Hplan. cbv beta zeta.
  pose proof (refine_rows_length tol (v_pv g) (v_Uv g) (volCV g) X ltac:(rewrite volCV_length; exact HX)) as HL. rewrite volCV_length in HL.
  unfold volRV, volCV in *.
  destruct (refine_rows Rops tol (v_pv g) (v_Uv g) _ X) as [tmp V]. cbn [fst snd] in *. rewrite HL. reflexivity.
Qed.
Lemma refine_vol_w_is tol (g : vol (T:=R)) d X :
  refine_plan Rops tol true (v_pw g) (v_Uw g) None [] d = Ok X -> refine_ok tol (v_pw g) (v_Uw g) (v_sw g) X ->
  refine_vol_w Rops tol g d = (volRW tol g X, false).
Proof.
  intros Hplan HX. unfold refine_vol_w. rewrite Hplan. cbv beta zeta.
  pose proof (refine_rows_length tol (v_pw g) (v_Uw g) (volCW g) X ltac:(rewrite volCW_length; exact HX)) as HL. rewrite volCW_length in HL.
  unfold volRW, volCW in *.
  destruct (refine_rows Rops tol (v_pw g) (v_Uw g) _ X) as [tmp V]. cbn [fst snd] in *. rewrite HL. reflexivity.
Qed.

Lemma volRU_shape tol dim (g : vol (T:=R)) X : vfull dim g -> vshape (volRU tol g X).
Proof.
  intros F. destruct (vfull_shape dim g F) as (_ & Hu & Hv & Hw). split; [|cbn [volRU v_su v_sv v_sw]; lia]. cbn [volRU v_P v_su v_sv v_sw].
  rewrite (flat_map_length_const _ (v_sv g * (v_su g + length X))); [ring|].
  intros l _. apply flat_map_length_const. intros. rewrite map_length, seq_length. reflexivity.
Qed.
Lemma volRV_shape tol dim (g : vol (T:=R)) X : vfull dim g -> vshape (volRV tol g X).
Proof.
  intros F. destruct (vfull_shape dim g F) as (_ & Hu & Hv & Hw). split; [|cbn [volRV v_su v_sv v_sw]; lia]. cbn [volRV v_P v_su v_sv v_sw].
  rewrite (flat_map_length_const _ ((v_sv g + length X) * v_su g)); [ring|].
  intros l _. apply flat_map_length_const. intros. rewrite map_length, seq_length. reflexivity.
Qed.
Lemma volRW_shape tol dim (g : vol (T:=R)) X : vfull dim g -> 1 <= dim -> refine_ok tol (v_pw g) (v_Uw g) (v_sw g) X -> vshape (volRW tol g X).
Proof.
  intros F Hd1 HX. destruct (vfull_shape dim g F) as (_ & Hu & Hv & Hw). split; [|cbn [volRW v_su v_sv v_sw]; lia]. cbn [volRW v_P v_su v_sv v_sw].
  rewrite (flat_map_length_const _ (v_su g * v_sv g)); [ring|].
  intros l Hl. destruct F as [(_ & _ & _ & Wd) _]. apply (tmp_rows tol g X dim HX Wd Hd1); [nia|exact Hl].
Qed.

Lemma volRU_fib tol dim (g : vol (T:=R)) X j l : vfull dim g -> refine_ok tol (v_pu g) (v_Uu g) (v_su g) X -> j < v_sv g -> l < v_sw g ->
  mkC (v_pu (volRU tol g X)) (v_Uu (volRU tol g X)) (fib_u (volRU tol g X) j l)
  = mkC (v_pu g) (snd (refine_pts Rops tol (v_pu g) (v_Uu g) (fib_u g j l) X)) (fst (refine_pts Rops tol (v_pu g) (v_Uu g) (fib_u g j l) X)).
Proof.
  intros [(_ & _ & _ & Wd) _] HX Hj Hl. cbn [volRU v_pu v_Uu]. f_equal.
  - pose proof (refine_rows_fibre tol (v_pu g) (v_Uu g) (volCU g) X (v_sv g * v_sw g) (j + v_sv g * l) (CU_rows g X) ltac:(nia)) as H.
    unfold volCU in H at 2. rewrite (CU_fibre g j l Hj Hl) in H.
    destruct (refine_rows Rops tol (v_pu g) (v_Uu g) (volCU g) X) as [Qr Vr]. destruct (refine_pts Rops tol (v_pu g) (v_Uu g) (fib_u g j l) X) as [Qp Vp].
    cbn [snd]. apply H.
  - destruct (VU_spec tol g X dim HX Wd j l Hj Hl) as [HLF _].
    apply (nth_ext _ _ [] []).
    + rewrite fib_u_length, HLF. reflexivity.
    + intros i Hi. rewrite fib_u_length in Hi. cbn [volRU v_su] in Hi.
      change (getp (fib_u (volRU tol g X) j l) i = getp (fst (refine_pts Rops tol (v_pu g) (v_Uu g) (fib_u g j l) X)) i).
      rewrite fib_u_nth by exact Hi. unfold vidx. cbn [volRU v_P v_su v_sv]. apply (VU_net tol g X dim); assumption.
Qed.
Lemma volRV_fib tol dim (g : vol (T:=R)) X i l : vfull dim g -> refine_ok tol (v_pv g) (v_Uv g) (v_sv g) X -> i < v_su g -> l < v_sw g ->
  mkC (v_pv (volRV tol g X)) (v_Uv (volRV tol g X)) (fib_v (volRV tol g X) i l)
  = mkC (v_pv g) (snd (refine_pts Rops tol (v_pv g) (v_Uv g) (fib_v g i l) X)) (fst (refine_pts Rops tol (v_pv g) (v_Uv g) (fib_v g i l) X)).
Proof.
  intros [(_ & _ & _ & Wd) _] HX Hi Hl. cbn [volRV v_pv v_Uv]. f_equal.
  - pose proof (refine_rows_fibre tol (v_pv g) (v_Uv g) (volCV g) X (v_su g * v_sw g) (i + v_su g * l) (CV_rows g X) ltac:(nia)) as H.
    unfold volCV in H at 2. rewrite (CV_fibre g i l Hi Hl) in H.
    destruct (refine_rows Rops tol (v_pv g) (v_Uv g) (volCV g) X) as [Qr Vr]. destruct (refine_pts Rops tol (v_pv g) (v_Uv g) (fib_v g i l) X) as [Qp Vp].
    cbn [snd]. apply H.
  - destruct (VV_spec tol g X dim HX Wd i l Hi Hl) as [HLF _].
    apply (nth_ext _ _ [] []).
    + rewrite fib_v_length, HLF. reflexivity.
    + intros j Hj. rewrite fib_v_length in Hj. cbn [volRV v_sv] in Hj.
      change (getp (fib_v (volRV tol g X) i l) j = getp (fst (refine_pts Rops tol (v_pv g) (v_Uv g) (fib_v g i l) X)) j).
      rewrite fib_v_nth by exact Hj. unfold vidx. cbn [volRV v_P v_su v_sv]. apply (VV_net tol g X dim); assumption.
Qed.
Lemma volRW_fib tol dim (g : vol (T:=R)) X i j : vfull dim g -> 1 <= dim -> refine_ok tol (v_pw g) (v_Uw g) (v_sw g) X -> i < v_su g -> j < v_sv g ->
  mkC (v_pw (volRW tol g X)) (v_Uw (volRW tol g X)) (fib_w (volRW tol g X) i j)
  = mkC (v_pw g) (snd (refine_pts Rops tol (v_pw g) (v_Uw g) (fib_w g i j) X)) (fst (refine_pts Rops tol (v_pw g) (v_Uw g) (fib_w g i j) X)).
Proof.
  intros [(_ & _ & _ & Wd) _] Hd1 HX Hi Hj. cbn [volRW v_pw v_Uw]. f_equal.
  - pose proof (refine_rows_fibre tol (v_pw g) (v_Uw g) (volCW g) X (v_su g * v_sv g) (j + i * v_sv g) (CW_rows g X dim Hd1) ltac:(nia)) as H.
    unfold volCW in H at 2. rewrite (CW_fibre g X dim Hd1 i j Hi Hj) in H.
    destruct (refine_rows Rops tol (v_pw g) (v_Uw g) (volCW g) X) as [Qr Vr]. destruct (refine_pts Rops tol (v_pw g) (v_Uw g) (fib_w g i j) X) as [Qp Vp].
    cbn [snd]. apply H.
  - destruct (VW_spec tol g X dim HX Wd Hd1 i j Hi Hj) as [HLF _].
    apply (nth_ext _ _ [] []).
    + rewrite fib_w_length, HLF. reflexivity.
    + intros l Hl. rewrite fib_w_length in Hl. cbn [volRW v_sw] in Hl.
      change (getp (fib_w (volRW tol g X) i j) l = getp (fst (refine_pts Rops tol (v_pw g) (v_Uw g) (fib_w g i j) X)) l).
      rewrite fib_w_nth by exact Hl. unfold vidx. cbn [volRW v_P v_su v_sv]. apply (VW_net tol g X dim); assumption.
Qed.

(* [G] volumes: the refined record IS an insertion chain of stages, for every schedule that rearranges X *)
Theorem volRU_chain (tol tolm tol2 : R) (dim : nat) (g : vol (T:=R)) (X : list R) (sched : list (R * nat)) :
  (0 <= tolm)%R -> (0 <= tol2)%R -> vfull dim g ->
  refine_ok tol (v_pu g) (v_Uu g) (v_su g) X ->
  (forall x y, In x X -> In y (X ++ v_Uu g) -> (Rabs (x - y) <= tolm)%R -> y = x) ->
  Permutation (expand sched) X ->
  volRU tol g X = fold_left (oins _ (vtU tolm tol2)) (rev sched) g /\ ochain _ (vtU tolm tol2) g (rev sched).
Proof.
  intros Htm Ht2 F HX Hsep PX.
  apply (refined_is_chain tolm dim Htm (vol (T:=R)) (nat * nat)%type Fr2 (vfull dim) vshape (vsame dim) (vsame_refl dim) (vsame_trans dim)
           (vtU tolm tol2) (vtU_ok tolm tol2 dim Htm Ht2) (fun g => v_pu g) (fun g => v_Uu g) (fun g => v_su g) frVU inb2
           (fun g ix => fib_u g (fst ix) (snd ix))) with (tol := tol) (X := X); try assumption.
  - intros; cbn; tauto.
  - apply vfull_shape.
  - intros; apply fib_u_length.
  - intros g0 ix. apply vu_fib_wf.
  - intros g0 (_ & _ & Hv & Hw). exists (0, 0). split; assumption.
  - intros g0 x n ix. apply vu_I_flag.
  - intros g0 x n. apply vu_I_fib.
  - apply vu_ext.
  - apply (volRU_shape tol dim); exact F.
  - reflexivity.
  - intros [j l] [Hj Hl]. apply (volRU_fib tol dim); assumption.
Qed.
Theorem volRV_chain (tol tolm tol2 : R) (dim : nat) (g : vol (T:=R)) (X : list R) (sched : list (R * nat)) :
  (0 <= tolm)%R -> (0 <= tol2)%R -> vfull dim g ->
  refine_ok tol (v_pv g) (v_Uv g) (v_sv g) X ->
  (forall x y, In x X -> In y (X ++ v_Uv g) -> (Rabs (x - y) <= tolm)%R -> y = x) ->
  Permutation (expand sched) X ->
  volRV tol g X = fold_left (oins _ (vtV tolm tol2)) (rev sched) g /\ ochain _ (vtV tolm tol2) g (rev sched).
Proof.
  intros Htm Ht2 F HX Hsep PX.
  apply (refined_is_chain tolm dim Htm (vol (T:=R)) (nat * nat)%type Fr2 (vfull dim) vshape (vsame dim) (vsame_refl dim) (vsame_trans dim)
           (vtV tolm tol2) (vtV_ok tolm tol2 dim Htm Ht2) (fun g => v_pv g) (fun g => v_Uv g) (fun g => v_sv g) frVV inb2
           (fun g ix => fib_v g (fst ix) (snd ix))) with (tol := tol) (X := X); try assumption.
  - intros; cbn; tauto.
  - apply vfull_shape.
  - intros; apply fib_v_length.
  - intros g0 ix. apply vv_fib_wf.
  - intros g0 (_ & Hu & _ & Hw). exists (0, 0). split; assumption.
  - intros g0 x n ix. apply vv_I_flag.
  - intros g0 x n. apply vv_I_fib.
  - apply vv_ext.
  - apply (volRV_shape tol dim); exact F.
  - reflexivity.
  - intros [i l] [Hi Hl]. apply (volRV_fib tol dim); assumption.
Qed.
Theorem volRW_chain (tol tolm tol2 : R) (dim : nat) (g : vol (T:=R)) (X : list R) (sched : list (R * nat)) :
  (0 <= tolm)%R -> (0 <= tol2)%R -> 1 <= dim -> vfull dim g ->
  refine_ok tol (v_pw g) (v_Uw g) (v_sw g) X ->
  (forall x y, In x X -> In y (X ++ v_Uw g) -> (Rabs (x - y) <= tolm)%R -> y = x) ->
  Permutation (expand sched) X ->
  volRW tol g X = fold_left (oins _ (vtW tolm tol2)) (rev sched) g /\ ochain _ (vtW tolm tol2) g (rev sched).
Proof.
  intros Htm Ht2 Hd1 F HX Hsep PX.
  apply (refined_is_chain tolm dim Htm (vol (T:=R)) (nat * nat)%type Fr2 (vfull dim) vshape (vsame dim) (vsame_refl dim) (vsame_trans dim)
           (vtW tolm tol2) (vtW_ok tolm tol2 dim Htm Ht2) (fun g => v_pw g) (fun g => v_Uw g) (fun g => v_sw g) frVW inb2
           (fun g ix => fib_w g (fst ix) (snd ix))) with (tol := tol) (X := X); try assumption.
  - intros; cbn; tauto.
  - apply vfull_shape.
  - intros; apply fib_w_length.
  - intros g0 ix. apply vw_fib_wf.
  - intros g0 (_ & Hu & Hv & _). exists (0, 0). split; assumption.
  - intros g0 x n ix. apply vw_I_flag.
  - intros g0 x n. apply vw_I_fib.
  - apply vw_ext.
  - apply (volRW_shape tol dim); assumption.
  - reflexivity.
  - intros [i j] [Hi Hj]. apply (volRW_fib tol dim); assumption.
Qed.

(* ================================================================== 5. the operations: surfaces *)
(* a removal call in one parametric direction: remove_knot(surf, [x, None], [n, 0]) / remove_knot(surf, [None, x], [0, n]) *)
Inductive sdir : Set := sdU | sdV.
Definition sdir_eqb (d e : sdir) : bool := match d, e with sdU, sdU => true | sdV, sdV => true | _, _ => false end.
Definition srm (tolm tol2 : R) (g : surf (T:=R)) (t : sdir * (R * nat)) : surf (T:=R) * bool :=
  match fst t with
  | sdU => remove_knot_surf Rops tolm tol2 true g [Some (fst (snd t)); None] [Z.of_nat (snd (snd t)); 0%Z]
  | sdV => remove_knot_surf Rops tolm tol2 true g [None; Some (fst (snd t))] [0%Z; Z.of_nat (snd (snd t))]
  end.
(* the calls of a schedule that concern one direction, in their order *)
Definition sproj (d : sdir) (T : list (sdir * (R * nat))) : list (R * nat) := map snd (filter (fun t => sdir_eqb (fst t) d) T).

Lemma rmU_step tolm tol2 (g : surf (T:=R)) x n :
  remove_knot_surf Rops tolm tol2 true g [Some x; None] [Z.of_nat n; 0%Z] = rstep_u tolm tol2 g (Some x) n.
Proof.
  change 0%Z with (Z.of_nat 0). rewrite remove_knot_surf_steps. destruct (rstep_u tolm tol2 g (Some x) n) as [g1 [|]]; reflexivity.
Qed.
Lemma rmV_step tolm tol2 (g : surf (T:=R)) x n :
  remove_knot_surf Rops tolm tol2 true g [None; Some x] [0%Z; Z.of_nat n] = rstep_v tolm tol2 g (Some x) n.
Proof. change 0%Z with (Z.of_nat 0). rewrite remove_knot_surf_steps. reflexivity. Qed.

(* one direction of refine_knotvector: not refined (None, no removal calls), or refined with the list X; L = the removal calls *)
Definition dir_refined (tol tolm : R) (p : nat) (U : list R) (n : nat) (oX : option (list R)) (L : list (R * nat)) : Prop :=
  match oX with
  | None => L = []
  | Some X => refine_ok tol p U n X /\ (forall x y, In x X -> In y (X ++ U) -> (Rabs (x - y) <= tolm)%R -> y = x) /\ Permutation (expand L) X
  end.
Definition surfRUo (tol : R) (g : surf (T:=R)) (oX : option (list R)) : surf (T:=R) := match oX with Some X => surfRU tol g X | None => g end.
Definition surfRVo (tol : R) (g : surf (T:=R)) (oX : option (list R)) : surf (T:=R) := match oX with Some X => surfRV tol g X | None => g end.

Lemma surfRUo_chain tol tolm tol2 dim (g : surf (T:=R)) oX L : (0 <= tolm)%R -> (0 <= tol2)%R -> sok dim g ->
  dir_refined tol tolm (s_pu g) (s_Uu g) (s_su g) oX L ->
  surfRUo tol g oX = fold_left (oins _ (stU tolm tol2)) (rev L) g /\ ochain _ (stU tolm tol2) g (rev L).
Proof.
  intros Htm Ht2 F H. destruct oX as [X|]; cbn [dir_refined surfRUo] in *.
  - destruct H as (HX & Hsep & PX). apply (surfRU_chain tol tolm tol2 dim); assumption.
  - subst L. split; [reflexivity|exact I].
Qed.
Lemma surfRVo_chain tol tolm tol2 dim (g : surf (T:=R)) oX L : (0 <= tolm)%R -> (0 <= tol2)%R -> sok dim g ->
  dir_refined tol tolm (s_pv g) (s_Uv g) (s_sv g) oX L ->
  surfRVo tol g oX = fold_left (oins _ (stV tolm tol2)) (rev L) g /\ ochain _ (stV tolm tol2) g (rev L).
Proof.
  intros Htm Ht2 F H. destruct oX as [X|]; cbn [dir_refined surfRVo] in *.
  - destruct H as (HX & Hsep & PX). apply (surfRV_chain tol tolm tol2 dim); assumption.
  - subst L. split; [reflexivity|exact I].
Qed.

Definition semb (t : sdir * (R * nat)) : D3 * (R * nat) := (match fst t with sdU => D3a | sdV => D3b end, snd t).
Lemma sproj_emb T : proj3 D3a (map semb T) = sproj sdU T /\ proj3 D3b (map semb T) = sproj sdV T /\ proj3 D3c (map semb T) = [].
Proof.
  unfold proj3, sproj. induction T as [|[[|] e] T (IH1 & IH2 & IH3)]; [repeat split| |];
    cbn [map filter semb fst snd D3_eqb sdir_eqb]; rewrite ?IH1, ?IH2, ?IH3; repeat split.
Qed.

Lemma fold_left_map_ext {A B C} (f : A -> B -> A) (h : A -> C -> A) (e : C -> B) :
  (forall a c, h a c = f a (e c)) -> forall l a, fold_left h l a = fold_left f (map e l) a.
Proof. intros H. induction l as [|c l IH]; intros a; cbn [map fold_left]; [reflexivity|]. rewrite H. apply IH. Qed.

(* core: the statement below with the intermediate objects identified as insertion chains of the remaining calls *)
Lemma surf_remove_core (tol tolm tol2 : R) (dim : nat) (g : surf (T:=R)) (oXu oXv : option (list R))
    (T : list (sdir * (R * nat))) :
  (0 <= tolm)%R -> (0 <= tol2)%R -> swf g dim -> length (s_P g) = s_sv g * s_su g ->
  dir_refined tol tolm (s_pu g) (s_Uu g) (s_su g) oXu (sproj sdU T) ->
  dir_refined tol tolm (s_pv g) (s_Uv g) (s_sv g) oXv (sproj sdV T) ->
  let g2 := surfRVo tol (surfRUo tol g oXu) oXv in
  let run := fold_left (fun h t => fst (srm tolm tol2 h t)) in
  run T g2 = g /\
  (forall T1 t T2, T = T1 ++ t :: T2 -> snd (srm tolm tol2 (run T1 g2) t) = false) /\
  (forall T1 T2, T = T1 ++ T2 ->
     run T1 g2 = fold_left (oins _ (stV tolm tol2)) (rev (sproj sdV T2)) (fold_left (oins _ (stU tolm tol2)) (rev (sproj sdU T2)) g) /\
     sok dim (run T1 g2) /\ ssame dim (run T1 g2) g).
Proof.
  intros Htm Ht2 W HL Hu Hv. cbv zeta.
  assert (F : sok dim g) by (split; assumption).
  destruct (surfRUo_chain tol tolm tol2 dim g oXu _ Htm Ht2 F Hu) as [E1 C1].
  destruct (ochain_ok _ (sok dim) (ssame dim) (ssame_refl dim) (ssame_trans dim) _ (stU_ok tolm tol2 dim Htm Ht2) _ g F C1) as [F1 _].
  rewrite <- E1 in F1.
  assert (Hv1 : dir_refined tol tolm (s_pv (surfRUo tol g oXu)) (s_Uv (surfRUo tol g oXu)) (s_sv (surfRUo tol g oXu)) oXv (sproj sdV T))
    by (destruct oXu; exact Hv).
  destruct (surfRVo_chain tol tolm tol2 dim _ oXv _ Htm Ht2 F1 Hv1) as [E2 C2].
  destruct (sproj_emb T) as (P1 & P2 & P3).
  set (a := stU tolm tol2) in *. set (b := stV tolm tol2) in *. set (c := triv_stage (surf (T:=R))).
  assert (Hins : surfRVo tol (surfRUo tol g oXu) oXv = ins3 _ a b c (map semb T) g).
  { unfold ins3. rewrite P1, P2, P3. cbn [rev fold_left]. rewrite E2, E1. reflexivity. }
  assert (Hch : chain3 _ a b c (map semb T) g).
  { unfold chain3. rewrite P1, P2, P3. split; [exact C1|]. split; [rewrite <- E1; exact C2|exact I]. }
  assert (Hrm : forall h t, srm tolm tol2 h t = rem3 _ a b c h (semb t)).
  { intros h [[|] [x n]]; unfold srm, rem3, semb; cbn [fst snd st3 a b stU stV st_rem]; [apply rmU_step|apply rmV_step]. }
  assert (Hrun : forall l h, fold_left (fun h t => fst (srm tolm tol2 h t)) l h = fold_left (fun h t => fst (rem3 _ a b c h t)) (map semb l) h).
  { intros l h. apply fold_left_map_ext. intros h0 t. rewrite Hrm. reflexivity. }
  destruct (inter3 _ (sok dim) (ssame dim) (ssame_refl dim) (ssame_trans dim) a b c
              (stU_ok tolm tol2 dim Htm Ht2) (stV_ok tolm tol2 dim Htm Ht2) (triv_ok _ (sok dim) (ssame dim) (ssame_refl dim))
              (stUV_commute tolm tol2 dim Htm Ht2) (commute_triv _ (sok dim) a) (commute_triv _ (sok dim) b) (map semb T) g F Hch) as (R1 & R2 & R3).
  rewrite Hins. split; [|split].
  - rewrite Hrun. exact R1.
  - intros T1 t T2 ->. rewrite Hrun, Hrm. apply (R2 (map semb T1) (semb t) (map semb T2)). rewrite map_app. reflexivity.
  - intros T1 T2 ->. rewrite Hrun. destruct (R3 (map semb T1) (map semb T2) ltac:(rewrite map_app; reflexivity)) as (E3 & OK3 & S3).
    rewrite E3. split; [|split; assumption].
    unfold ins3. destruct (sproj_emb T2) as (Q1 & Q2 & Q3). rewrite Q1, Q2, Q3. reflexivity.
Qed.

(* [G] THE SURFACE THEOREM (lists of new knots given explicitly; the hypotheses of C05 / RefineGeneral per refined direction).
   g2 = the object refine_knotvector builds: u-direction refined with the list oXu (None = not refined), then the v-direction with
   oXv.  T = ANY schedule of single-direction remove_knot calls whose u-calls expand to a rearrangement of Xu and whose v-calls
   expand to a rearrangement of Xv (u- and v-calls arbitrarily interleaved). *)
Theorem surf_remove_after_refine (tol tolm tol2 : R) (dim : nat) (g : surf (T:=R)) (oXu oXv : option (list R))
    (T : list (sdir * (R * nat))) :
  (0 <= tolm)%R -> (0 <= tol2)%R -> swf g dim -> length (s_P g) = s_sv g * s_su g ->
  dir_refined tol tolm (s_pu g) (s_Uu g) (s_su g) oXu (sproj sdU T) ->
  dir_refined tol tolm (s_pv g) (s_Uv g) (s_sv g) oXv (sproj sdV T) ->
  let g2 := surfRVo tol (surfRUo tol g oXu) oXv in
  let run := fold_left (fun h t => fst (srm tolm tol2 h t)) in
  run T g2 = g /\
  (forall T1 t T2, T = T1 ++ t :: T2 -> snd (srm tolm tol2 (run T1 g2) t) = false) /\
  (forall T1 T2, T = T1 ++ T2 ->
     swf (run T1 g2) dim /\ length (s_P (run T1 g2)) = s_sv (run T1 g2) * s_su (run T1 g2) /\
     forall c tu tv, c < dim -> surf_pt (run T1 g2) c tu tv = surf_pt g c tu tv).
Proof.
  intros Htm Ht2 W HL Hu Hv.
  destruct (surf_remove_core tol tolm tol2 dim g oXu oXv T Htm Ht2 W HL Hu Hv) as (A & B & C). cbv zeta.
  split; [exact A|]. split; [exact B|]. intros T1 T2 E. destruct (C T1 T2 E) as (_ & (W3 & L3) & S3).
  split; [exact W3|]. split; [exact L3|exact S3].
Qed.

(* [G] "... or fewer": removing only SOME of the refined knots (the calls T1, any knots of any direction, any order) while the
   calls T2 are not made leaves EXACTLY the surface refine_knotvector builds from the remaining lists oXu', oXv' (the knots of T2) *)
Theorem surf_remove_some_after_refine (tol tolm tol2 : R) (dim : nat) (g : surf (T:=R)) (oXu oXv oXu' oXv' : option (list R))
    (T1 T2 : list (sdir * (R * nat))) :
  (0 <= tolm)%R -> (0 <= tol2)%R -> swf g dim -> length (s_P g) = s_sv g * s_su g ->
  dir_refined tol tolm (s_pu g) (s_Uu g) (s_su g) oXu (sproj sdU (T1 ++ T2)) ->
  dir_refined tol tolm (s_pv g) (s_Uv g) (s_sv g) oXv (sproj sdV (T1 ++ T2)) ->
  dir_refined tol tolm (s_pu g) (s_Uu g) (s_su g) oXu' (sproj sdU T2) ->
  dir_refined tol tolm (s_pv g) (s_Uv g) (s_sv g) oXv' (sproj sdV T2) ->
  let g2 := surfRVo tol (surfRUo tol g oXu) oXv in
  let run := fold_left (fun h t => fst (srm tolm tol2 h t)) in
  run T1 g2 = surfRVo tol (surfRUo tol g oXu') oXv' /\
  (forall Ta t Tb, T1 = Ta ++ t :: Tb -> snd (srm tolm tol2 (run Ta g2) t) = false).
Proof.
  intros Htm Ht2 W HL Hu Hv Hu' Hv'.
  destruct (surf_remove_core tol tolm tol2 dim g oXu oXv (T1 ++ T2) Htm Ht2 W HL Hu Hv) as (_ & B & C). cbv zeta in *.
  assert (F : sok dim g) by (split; assumption).
  split.
  - destruct (C T1 T2 eq_refl) as (E & _). rewrite E.
    destruct (surfRUo_chain tol tolm tol2 dim g oXu' _ Htm Ht2 F Hu') as [E1 C1].
    destruct (ochain_ok _ (sok dim) (ssame dim) (ssame_refl dim) (ssame_trans dim) _ (stU_ok tolm tol2 dim Htm Ht2) _ g F C1) as [F1 _].
    rewrite <- E1 in F1.
    assert (Hv1 : dir_refined tol tolm (s_pv (surfRUo tol g oXu')) (s_Uv (surfRUo tol g oXu')) (s_sv (surfRUo tol g oXu')) oXv' (sproj sdV T2))
      by (destruct oXu'; exact Hv').
    destruct (surfRVo_chain tol tolm tol2 dim _ oXv' _ Htm Ht2 F1 Hv1) as [E2 _]. rewrite E2, E1. reflexivity.
  - intros Ta t Tb ->. apply (B Ta t (Tb ++ T2)). rewrite <- app_assoc. reflexivity.
Qed.

(* ================================================================== 6. the operations: volumes *)
Inductive vdir : Set := vdU | vdV | vdW.
Definition vdir_eqb (d e : vdir) : bool := match d, e with vdU, vdU => true | vdV, vdV => true | vdW, vdW => true | _, _ => false end.
Definition vrm (tolm tol2 : R) (g : vol (T:=R)) (t : vdir * (R * nat)) : vol (T:=R) * bool :=
  match fst t with
  | vdU => remove_knot_vol Rops tolm tol2 true g [Some (fst (snd t)); None; None] [Z.of_nat (snd (snd t)); 0%Z; 0%Z]
  | vdV => remove_knot_vol Rops tolm tol2 true g [None; Some (fst (snd t)); None] [0%Z; Z.of_nat (snd (snd t)); 0%Z]
  | vdW => remove_knot_vol Rops tolm tol2 true g [None; None; Some (fst (snd t))] [0%Z; 0%Z; Z.of_nat (snd (snd t))]
  end.
Definition vproj (d : vdir) (T : list (vdir * (R * nat))) : list (R * nat) := map snd (filter (fun t => vdir_eqb (fst t) d) T).

Lemma vrmU_step tolm tol2 (g : vol (T:=R)) x n :
  remove_knot_vol Rops tolm tol2 true g [Some x; None; None] [Z.of_nat n; 0%Z; 0%Z] = vrstep_u tolm tol2 g (Some x) n.
Proof.
  change 0%Z with (Z.of_nat 0). rewrite remove_knot_vol_steps. destruct (vrstep_u tolm tol2 g (Some x) n) as [g1 [|]]; reflexivity.
Qed.
Lemma vrmV_step tolm tol2 (g : vol (T:=R)) x n :
  remove_knot_vol Rops tolm tol2 true g [None; Some x; None] [0%Z; Z.of_nat n; 0%Z] = vrstep_v tolm tol2 g (Some x) n.
Proof.
  change 0%Z with (Z.of_nat 0). rewrite remove_knot_vol_steps. cbn [vrstep_u rem_prep].
  destruct (vrstep_v tolm tol2 g (Some x) n) as [g1 [|]]; reflexivity.
Qed.
Lemma vrmW_step tolm tol2 (g : vol (T:=R)) x n :
  remove_knot_vol Rops tolm tol2 true g [None; None; Some x] [0%Z; 0%Z; Z.of_nat n] = vrstep_w tolm tol2 g (Some x) n.
Proof. change 0%Z with (Z.of_nat 0). rewrite remove_knot_vol_steps. reflexivity. Qed.

Definition volRUo (tol : R) (g : vol (T:=R)) (oX : option (list R)) : vol (T:=R) := match oX with Some X => volRU tol g X | None => g end.
Definition volRVo (tol : R) (g : vol (T:=R)) (oX : option (list R)) : vol (T:=R) := match oX with Some X => volRV tol g X | None => g end.
Definition volRWo (tol : R) (g : vol (T:=R)) (oX : option (list R)) : vol (T:=R) := match oX with Some X => volRW tol g X | None => g end.

Lemma volRUo_chain tol tolm tol2 dim (g : vol (T:=R)) oX L : (0 <= tolm)%R -> (0 <= tol2)%R -> vfull dim g ->
  dir_refined tol tolm (v_pu g) (v_Uu g) (v_su g) oX L ->
  volRUo tol g oX = fold_left (oins _ (vtU tolm tol2)) (rev L) g /\ ochain _ (vtU tolm tol2) g (rev L).
Proof.
  intros Htm Ht2 F H. destruct oX as [X|]; cbn [dir_refined volRUo] in *.
  - destruct H as (HX & Hsep & PX). apply (volRU_chain tol tolm tol2 dim); assumption.
  - subst L. split; [reflexivity|exact I].
Qed.
Lemma volRVo_chain tol tolm tol2 dim (g : vol (T:=R)) oX L : (0 <= tolm)%R -> (0 <= tol2)%R -> vfull dim g ->
  dir_refined tol tolm (v_pv g) (v_Uv g) (v_sv g) oX L ->
  volRVo tol g oX = fold_left (oins _ (vtV tolm tol2)) (rev L) g /\ ochain _ (vtV tolm tol2) g (rev L).
Proof.
  intros Htm Ht2 F H. destruct oX as [X|]; cbn [dir_refined volRVo] in *.
  - destruct H as (HX & Hsep & PX). apply (volRV_chain tol tolm tol2 dim); assumption.
  - subst L. split; [reflexivity|exact I].
Qed.
Lemma volRWo_chain tol tolm tol2 dim (g : vol (T:=R)) oX L : (0 <= tolm)%R -> (0 <= tol2)%R -> 1 <= dim -> vfull dim g ->
  dir_refined tol tolm (v_pw g) (v_Uw g) (v_sw g) oX L ->
  volRWo tol g oX = fold_left (oins _ (vtW tolm tol2)) (rev L) g /\ ochain _ (vtW tolm tol2) g (rev L).
Proof.
  intros Htm Ht2 Hd1 F H. destruct oX as [X|]; cbn [dir_refined volRWo] in *.
  - destruct H as (HX & Hsep & PX). apply (volRW_chain tol tolm tol2 dim); assumption.
  - subst L. split; [reflexivity|exact I].
Qed.

Definition vemb (t : vdir * (R * nat)) : D3 * (R * nat) := (match fst t with vdU => D3a | vdV => D3b | vdW => D3c end, snd t).
Lemma vproj_emb T : proj3 D3a (map vemb T) = vproj vdU T /\ proj3 D3b (map vemb T) = vproj vdV T /\ proj3 D3c (map vemb T) = vproj vdW T.
Proof.
  unfold proj3, vproj. induction T as [|[[| |] e] T (IH1 & IH2 & IH3)]; [repeat split| | |];
    cbn [map filter vemb fst snd D3_eqb vdir_eqb]; rewrite ?IH1, ?IH2, ?IH3; repeat split.
Qed.

(* core: the statement below with the intermediate objects identified as insertion chains of the remaining calls *)
Lemma vol_remove_core (tol tolm tol2 : R) (dim : nat) (g : vol (T:=R)) (oXu oXv oXw : option (list R))
    (T : list (vdir * (R * nat))) :
  (0 <= tolm)%R -> (0 <= tol2)%R -> 1 <= dim -> vwf g dim -> length (v_P g) = v_su g * v_sv g * v_sw g ->
  dir_refined tol tolm (v_pu g) (v_Uu g) (v_su g) oXu (vproj vdU T) ->
  dir_refined tol tolm (v_pv g) (v_Uv g) (v_sv g) oXv (vproj vdV T) ->
  dir_refined tol tolm (v_pw g) (v_Uw g) (v_sw g) oXw (vproj vdW T) ->
  let g3 := volRWo tol (volRVo tol (volRUo tol g oXu) oXv) oXw in
  let run := fold_left (fun h t => fst (vrm tolm tol2 h t)) in
  run T g3 = g /\
  (forall T1 t T2, T = T1 ++ t :: T2 -> snd (vrm tolm tol2 (run T1 g3) t) = false) /\
  (forall T1 T2, T = T1 ++ T2 ->
     run T1 g3 = fold_left (oins _ (vtW tolm tol2)) (rev (vproj vdW T2)) (fold_left (oins _ (vtV tolm tol2)) (rev (vproj vdV T2))
                   (fold_left (oins _ (vtU tolm tol2)) (rev (vproj vdU T2)) g)) /\
     vfull dim (run T1 g3) /\ vsame dim (run T1 g3) g).
Proof.
  intros Htm Ht2 Hd1 W HL Hu Hv Hw. cbv zeta.
  assert (F : vfull dim g) by (split; assumption).
  pose proof (vtU_ok tolm tol2 dim Htm Ht2) as OKa. pose proof (vtV_ok tolm tol2 dim Htm Ht2) as OKb. pose proof (vtW_ok tolm tol2 dim Htm Ht2) as OKc.
  destruct (volRUo_chain tol tolm tol2 dim g oXu _ Htm Ht2 F Hu) as [E1 C1].
  destruct (ochain_ok _ (vfull dim) (vsame dim) (vsame_refl dim) (vsame_trans dim) _ OKa _ g F C1) as [F1 _].
  rewrite <- E1 in F1.
  assert (Hv1 : dir_refined tol tolm (v_pv (volRUo tol g oXu)) (v_Uv (volRUo tol g oXu)) (v_sv (volRUo tol g oXu)) oXv (vproj vdV T))
    by (destruct oXu; exact Hv).
  destruct (volRVo_chain tol tolm tol2 dim _ oXv _ Htm Ht2 F1 Hv1) as [E2 C2].
  destruct (ochain_ok _ (vfull dim) (vsame dim) (vsame_refl dim) (vsame_trans dim) _ OKb _ _ F1 C2) as [F2 _].
  rewrite <- E2 in F2.
  set (g2 := volRVo tol (volRUo tol g oXu) oXv) in *.
  assert (Hw2 : dir_refined tol tolm (v_pw g2) (v_Uw g2) (v_sw g2) oXw (vproj vdW T))
    by (unfold g2; destruct oXu, oXv; exact Hw).
  destruct (volRWo_chain tol tolm tol2 dim _ oXw _ Htm Ht2 Hd1 F2 Hw2) as [E3 C3].
  destruct (vproj_emb T) as (P1 & P2 & P3).
  set (a := vtU tolm tol2) in *. set (b := vtV tolm tol2) in *. set (c := vtW tolm tol2) in *.
  assert (Hins : volRWo tol g2 oXw = ins3 _ a b c (map vemb T) g).
  { unfold ins3. rewrite P1, P2, P3. rewrite E3, E2, E1. reflexivity. }
  assert (Hch : chain3 _ a b c (map vemb T) g).
  { unfold chain3. rewrite P1, P2, P3. split; [exact C1|]. rewrite <- E1. split; [exact C2|]. rewrite <- E2. exact C3. }
  assert (Hrm : forall h t, vrm tolm tol2 h t = rem3 _ a b c h (vemb t)).
  { intros h [[| |] [x n]]; unfold vrm, rem3, vemb; cbn [fst snd st3 a b c vtU vtV vtW st_rem]; [apply vrmU_step|apply vrmV_step|apply vrmW_step]. }
  assert (Hrun : forall l h, fold_left (fun h t => fst (vrm tolm tol2 h t)) l h = fold_left (fun h t => fst (rem3 _ a b c h t)) (map vemb l) h).
  { intros l h. apply fold_left_map_ext. intros h0 t. rewrite Hrm. reflexivity. }
  destruct (inter3 _ (vfull dim) (vsame dim) (vsame_refl dim) (vsame_trans dim) a b c OKa OKb OKc
              (vtUV_commute tolm tol2 dim) (vtUW_commute tolm tol2 dim) (vtVW_commute tolm tol2 dim) (map vemb T) g F Hch) as (R1 & R2 & R3).
  rewrite Hins. split; [|split].
  - rewrite Hrun. exact R1.
  - intros T1 t T2 ->. rewrite Hrun, Hrm. apply (R2 (map vemb T1) (vemb t) (map vemb T2)). rewrite map_app. reflexivity.
  - intros T1 T2 ->. rewrite Hrun. destruct (R3 (map vemb T1) (map vemb T2) ltac:(rewrite map_app; reflexivity)) as (E4 & OK3 & S3).
    rewrite E4. split; [|split; assumption].
    unfold ins3. destruct (vproj_emb T2) as (Q1 & Q2 & Q3). rewrite Q1, Q2, Q3. reflexivity.
Qed.

(* [G] THE VOLUME THEOREM (lists of new knots given explicitly).  g3 = the object refine_knotvector builds: u refined with oXu
   (None = not refined), then v with oXv, then w with oXw.  T = ANY schedule of single-direction remove_knot calls whose calls of
   each direction expand to a rearrangement of that direction's list (the three kinds of calls arbitrarily interleaved). *)
Theorem vol_remove_after_refine (tol tolm tol2 : R) (dim : nat) (g : vol (T:=R)) (oXu oXv oXw : option (list R))
    (T : list (vdir * (R * nat))) :
  (0 <= tolm)%R -> (0 <= tol2)%R -> 1 <= dim -> vwf g dim -> length (v_P g) = v_su g * v_sv g * v_sw g ->
  dir_refined tol tolm (v_pu g) (v_Uu g) (v_su g) oXu (vproj vdU T) ->
  dir_refined tol tolm (v_pv g) (v_Uv g) (v_sv g) oXv (vproj vdV T) ->
  dir_refined tol tolm (v_pw g) (v_Uw g) (v_sw g) oXw (vproj vdW T) ->
  let g3 := volRWo tol (volRVo tol (volRUo tol g oXu) oXv) oXw in
  let run := fold_left (fun h t => fst (vrm tolm tol2 h t)) in
  run T g3 = g /\
  (forall T1 t T2, T = T1 ++ t :: T2 -> snd (vrm tolm tol2 (run T1 g3) t) = false) /\
  (forall T1 T2, T = T1 ++ T2 ->
     vwf (run T1 g3) dim /\ length (v_P (run T1 g3)) = v_su (run T1 g3) * v_sv (run T1 g3) * v_sw (run T1 g3) /\
     forall c tu tv tw, c < dim -> vol_pt (run T1 g3) c tu tv tw = vol_pt g c tu tv tw).
Proof.
  intros Htm Ht2 Hd1 W HL Hu Hv Hw.
  destruct (vol_remove_core tol tolm tol2 dim g oXu oXv oXw T Htm Ht2 Hd1 W HL Hu Hv Hw) as (A & B & C). cbv zeta.
  split; [exact A|]. split; [exact B|]. intros T1 T2 E. destruct (C T1 T2 E) as (_ & (W3 & L3) & S3).
  split; [exact W3|]. split; [exact L3|exact S3].
Qed.

(* [G] "... or fewer" for volumes: after the calls T1 only, exactly the volume refine_knotvector builds from the remaining lists *)
Theorem vol_remove_some_after_refine (tol tolm tol2 : R) (dim : nat) (g : vol (T:=R)) (oXu oXv oXw oXu' oXv' oXw' : option (list R))
    (T1 T2 : list (vdir * (R * nat))) :
  (0 <= tolm)%R -> (0 <= tol2)%R -> 1 <= dim -> vwf g dim -> length (v_P g) = v_su g * v_sv g * v_sw g ->
  dir_refined tol tolm (v_pu g) (v_Uu g) (v_su g) oXu (vproj vdU (T1 ++ T2)) ->
  dir_refined tol tolm (v_pv g) (v_Uv g) (v_sv g) oXv (vproj vdV (T1 ++ T2)) ->
  dir_refined tol tolm (v_pw g) (v_Uw g) (v_sw g) oXw (vproj vdW (T1 ++ T2)) ->
  dir_refined tol tolm (v_pu g) (v_Uu g) (v_su g) oXu' (vproj vdU T2) ->
  dir_refined tol tolm (v_pv g) (v_Uv g) (v_sv g) oXv' (vproj vdV T2) ->
  dir_refined tol tolm (v_pw g) (v_Uw g) (v_sw g) oXw' (vproj vdW T2) ->
  let g3 := volRWo tol (volRVo tol (volRUo tol g oXu) oXv) oXw in
  let run := fold_left (fun h t => fst (vrm tolm tol2 h t)) in
  run T1 g3 = volRWo tol (volRVo tol (volRUo tol g oXu') oXv') oXw' /\
  (forall Ta t Tb, T1 = Ta ++ t :: Tb -> snd (vrm tolm tol2 (run Ta g3) t) = false).
Proof.
  intros Htm Ht2 Hd1 W HL Hu Hv Hw Hu' Hv' Hw'.
  destruct (vol_remove_core tol tolm tol2 dim g oXu oXv oXw (T1 ++ T2) Htm Ht2 Hd1 W HL Hu Hv Hw) as (_ & B & C). cbv zeta in *.
  assert (F : vfull dim g) by (split; assumption).
  pose proof (vtU_ok tolm tol2 dim Htm Ht2) as OKa. pose proof (vtV_ok tolm tol2 dim Htm Ht2) as OKb.
  split.
  - destruct (C T1 T2 eq_refl) as (E & _). rewrite E.
    destruct (volRUo_chain tol tolm tol2 dim g oXu' _ Htm Ht2 F Hu') as [E1 C1].
    destruct (ochain_ok _ (vfull dim) (vsame dim) (vsame_refl dim) (vsame_trans dim) _ OKa _ g F C1) as [F1 _].
    rewrite <- E1 in F1.
    assert (Hv1 : dir_refined tol tolm (v_pv (volRUo tol g oXu')) (v_Uv (volRUo tol g oXu')) (v_sv (volRUo tol g oXu')) oXv' (vproj vdV T2))
      by (destruct oXu'; exact Hv').
    destruct (volRVo_chain tol tolm tol2 dim _ oXv' _ Htm Ht2 F1 Hv1) as [E2 C2].
    destruct (ochain_ok _ (vfull dim) (vsame dim) (vsame_refl dim) (vsame_trans dim) _ OKb _ _ F1 C2) as [F2 _].
    rewrite <- E2 in F2.
    set (g2' := volRVo tol (volRUo tol g oXu') oXv') in *.
    assert (Hw2 : dir_refined tol tolm (v_pw g2') (v_Uw g2') (v_sw g2') oXw' (vproj vdW T2))
      by (unfold g2'; destruct oXu', oXv'; exact Hw').
    destruct (volRWo_chain tol tolm tol2 dim _ oXw' _ Htm Ht2 Hd1 F2 Hw2) as [E3 _]. rewrite E3, E2, E1. reflexivity.
  - intros Ta t Tb ->. apply (B Ta t (Tb ++ T2)). rewrite <- app_assoc. reflexivity.
Qed.

(* ================================================================== 7. operations.refine_knotvector with densities (the default lists) *)
(* the removal calls of one direction after refine_knotvector with density d: nothing when d = 0, otherwise every value mk of the
   bisected list refine_L p U d, in any order, with the count p - mult_U(mk) = the number of copies the refinement inserted
   (0 = nothing to do, e.g. the domain ends) *)
Definition default_calls (tol : R) (p : nat) (U : list R) (d : nat) (L : list (R * nat)) : Prop :=
  if Nat.eqb d 0 then L = []
  else exists order, Permutation order (refine_L p U d) /\ L = map (fun mk => (mk, p - find_multiplicity Rops tol mk U)) order.

Lemma default_dir_refined tol p U n d X order :
  default_ok tol p U n d -> refine_plan Rops tol true p U None [] d = Ok X -> Permutation order (refine_L p U d) ->
  dir_refined tol tol p U n (Some X) (map (fun mk => (mk, p - find_multiplicity Rops tol mk U)) order).
Proof.
  intros Hok Hplan PO. pose proof (default_plan_ok tol p U n d Hok) as Hp.
  destruct (plan_refine_ok tol true p U n None [] d X Hp Hplan) as [EX HX]. rewrite app_nil_r in EX.
  pose proof Hp as (_ & _ & _ & _ & Htol & _ & _ & Hsep7). rewrite app_nil_r in Hsep7.
  fold (refine_L p U d) in Hsep7. unfold refine_Xk in EX. fold (refine_L p U d) in EX.
  set (L := refine_L p U d) in *.
  assert (HXL : forall x, In x X -> In x L).
  { intros x Hx. rewrite EX in Hx. unfold refine_X in Hx. apply in_flat_map in Hx. destruct Hx as (mk & Hmk & Hin).
    apply repeat_spec in Hin. subst x. exact Hmk. }
  cbn [dir_refined]. split; [exact HX|]. split.
  - intros x y Hx Hy Habs. destruct (Req_dec x y) as [E|E]; [symmetry; exact E|]. exfalso.
    assert (tol < Rabs (x - y))%R; [|lra]. apply Hsep7; [apply HXL; exact Hx| |exact E].
    apply in_app_or in Hy. apply in_or_app. destruct Hy as [Hy|Hy]; [left; apply HXL; exact Hy|right; exact Hy].
  - rewrite EX. unfold refine_X, expand. rewrite flat_map_concat_map, map_map. rewrite <- flat_map_concat_map.
    apply Permutation_flat_map. exact PO.
Qed.

Lemma default_calls_refined tol p U n d X L :
  d <> 0 -> default_ok tol p U n d -> refine_plan Rops tol true p U None [] d = Ok X -> default_calls tol p U d L ->
  dir_refined tol tol p U n (Some X) L.
Proof.
  intros Hd Hok Hplan HC. unfold default_calls in HC. destruct (Nat.eqb_spec d 0) as [E|_]; [contradiction|].
  destruct HC as (order & PO & ->). apply (default_dir_refined tol p U n d X order); assumption.
Qed.

Lemma refine_surf_u_cases tol (g g1 : surf (T:=R)) d L :
  (d <> 0 -> default_ok tol (s_pu g) (s_Uu g) (s_su g) d) ->
  (if Nat.eqb d 0 then (g, false) else refine_surf_u Rops tol g d) = (g1, false) ->
  default_calls tol (s_pu g) (s_Uu g) d L ->
  exists oX, g1 = surfRUo tol g oX /\ dir_refined tol tol (s_pu g) (s_Uu g) (s_su g) oX L.
Proof.
  intros Hok H HC. destruct (Nat.eqb_spec d 0) as [E|E].
  - injection H as <-. exists None. split; [reflexivity|]. unfold default_calls in HC. rewrite E in HC. exact HC.
  - destruct (refine_plan Rops tol true (s_pu g) (s_Uu g) None [] d) as [X| |] eqn:Hplan;
      try (unfold refine_surf_u in H; rewrite Hplan in H; discriminate).
    destruct (default_refine_ok tol _ _ _ _ X (Hok E) Hplan) as [_ HX].
    rewrite (refine_surf_u_is tol g d X Hplan HX) in H. injection H as <-. exists (Some X). split; [reflexivity|].
    apply (default_calls_refined tol _ _ _ d); auto.
Qed.
Lemma refine_surf_v_cases tol (g g1 : surf (T:=R)) d L :
  (d <> 0 -> default_ok tol (s_pv g) (s_Uv g) (s_sv g) d) ->
  (if Nat.eqb d 0 then (g, false) else refine_surf_v Rops tol g d) = (g1, false) ->
  default_calls tol (s_pv g) (s_Uv g) d L ->
  exists oX, g1 = surfRVo tol g oX /\ dir_refined tol tol (s_pv g) (s_Uv g) (s_sv g) oX L.
Proof.
  intros Hok H HC. destruct (Nat.eqb_spec d 0) as [E|E].
  - injection H as <-. exists None. split; [reflexivity|]. unfold default_calls in HC. rewrite E in HC. exact HC.
  - destruct (refine_plan Rops tol true (s_pv g) (s_Uv g) None [] d) as [X| |] eqn:Hplan;
      try (unfold refine_surf_v in H; rewrite Hplan in H; discriminate).
    destruct (default_refine_ok tol _ _ _ _ X (Hok E) Hplan) as [_ HX].
    rewrite (refine_surf_v_is tol g d X Hplan HX) in H. injection H as <-. exists (Some X). split; [reflexivity|].
    apply (default_calls_refined tol _ _ _ d); auto.
Qed.

(* [G] operations.refine_knotvector(surf, [du, dv]) (any subset of directions: density 0 = not refined; default_ok = the hypotheses of
   C05_refine_surface_correct) followed by remove_knot of every refined knot with its count in its direction, all calls in ANY
   order: (a) the original surface record, (b) no call raises, (c) every intermediate surface is complete and has the points of
   the original surface.  tol = the tolerance of the library (alpha test of A5.4, multiplicity search), tol2 = squared removal
   tolerance. *)
Theorem surf_remove_after_refine_knotvector (tol tol2 : R) check (dim : nat) (g g' : surf (T:=R)) params (T : list (sdir * (R * nat))) :
  (0 <= tol)%R -> (0 <= tol2)%R -> swf g dim -> length (s_P g) = s_sv g * s_su g ->
  (dens params 0 <> 0 -> default_ok tol (s_pu g) (s_Uu g) (s_su g) (dens params 0)) ->
  (dens params 1 <> 0 -> default_ok tol (s_pv g) (s_Uv g) (s_sv g) (dens params 1)) ->
  refine_surf Rops tol check g params = (g', false) ->
  default_calls tol (s_pu g) (s_Uu g) (dens params 0) (sproj sdU T) ->
  default_calls tol (s_pv g) (s_Uv g) (dens params 1) (sproj sdV T) ->
  let run := fold_left (fun h t => fst (srm tol tol2 h t)) in
  run T g' = g /\
  (forall T1 t T2, T = T1 ++ t :: T2 -> snd (srm tol tol2 (run T1 g') t) = false) /\
  (forall T1 T2, T = T1 ++ T2 ->
     swf (run T1 g') dim /\ length (s_P (run T1 g')) = s_sv (run T1 g') * s_su (run T1 g') /\
     forall c tu tv, c < dim -> surf_pt (run T1 g') c tu tv = surf_pt g c tu tv).
Proof.
  intros Ht Ht2 W HL Hu Hv H Cu Cv. unfold refine_surf in H.
  destruct (andb check (negb (Nat.eqb (length params) 2))); [discriminate|].
  destruct (if Nat.eqb (dens params 0) 0 then (g, false) else refine_surf_u Rops tol g (dens params 0)) as [g1 r1] eqn:E1.
  destruct r1; [discriminate|].
  destruct (refine_surf_u_cases tol g g1 _ _ Hu E1 Cu) as (oXu & -> & Du).
  assert (Hv1 : dens params 1 <> 0 -> default_ok tol (s_pv (surfRUo tol g oXu)) (s_Uv (surfRUo tol g oXu)) (s_sv (surfRUo tol g oXu)) (dens params 1))
    by (destruct oXu; exact Hv).
  assert (Cv1 : default_calls tol (s_pv (surfRUo tol g oXu)) (s_Uv (surfRUo tol g oXu)) (dens params 1) (sproj sdV T))
    by (destruct oXu; exact Cv).
  destruct (refine_surf_v_cases tol _ g' _ _ Hv1 H Cv1) as (oXv & -> & Dv).
  apply (surf_remove_after_refine tol tol tol2 dim g oXu oXv T); try assumption.
  destruct oXu; exact Dv.
Qed.

Lemma refine_vol_u_cases tol (g g1 : vol (T:=R)) d L :
  (d <> 0 -> default_ok tol (v_pu g) (v_Uu g) (v_su g) d) ->
  (if Nat.eqb d 0 then (g, false) else refine_vol_u Rops tol g d) = (g1, false) ->
  default_calls tol (v_pu g) (v_Uu g) d L ->
  exists oX, g1 = volRUo tol g oX /\ dir_refined tol tol (v_pu g) (v_Uu g) (v_su g) oX L.
Proof.
  intros Hok H HC. destruct (Nat.eqb_spec d 0) as [E|E].
  - injection H as <-. exists None. split; [reflexivity|]. unfold default_calls in HC. rewrite E in HC. exact HC.
  - destruct (refine_plan Rops tol true (v_pu g) (v_Uu g) None [] d) as [X| |] eqn:Hplan;
      try (unfold refine_vol_u in H; rewrite Hplan in H; discriminate).
    destruct (default_refine_ok tol _ _ _ _ X (Hok E) Hplan) as [_ HX].
    rewrite (refine_vol_u_is tol g d X Hplan HX) in H. injection H as <-. exists (Some X). split; [reflexivity|].
    apply (default_calls_refined tol _ _ _ d); auto.
Qed.
Lemma refine_vol_v_cases tol (g g1 : vol (T:=R)) d L :
  (d <> 0 -> default_ok tol (v_pv g) (v_Uv g) (v_sv g) d) ->
  (if Nat.eqb d 0 then (g, false) else refine_vol_v Rops tol g d) = (g1, false) ->
  default_calls tol (v_pv g) (v_Uv g) d L ->
  exists oX, g1 = volRVo tol g oX /\ dir_refined tol tol (v_pv g) (v_Uv g) (v_sv g) oX L.
Proof.
  intros Hok H HC. destruct (Nat.eqb_spec d 0) as [E|E].
  - injection H as <-. exists None. split; [reflexivity|]. unfold default_calls in HC. rewrite E in HC. exact HC.
  - destruct (refine_plan Rops tol true (v_pv g) (v_Uv g) None [] d) as [X| |] eqn:Hplan;
      try (unfold refine_vol_v in H; rewrite Hplan in H; discriminate).
    destruct (default_refine_ok tol _ _ _ _ X (Hok E) Hplan) as [_ HX].
    rewrite (refine_vol_v_is tol g d X Hplan HX) in H. injection H as <-. exists (Some X). split; [reflexivity|].
    apply (default_calls_refined tol _ _ _ d); auto.
Qed.
Lemma refine_vol_w_cases tol (g g1 : vol (T:=R)) d L :
  (d <> 0 -> default_ok tol (v_pw g) (v_Uw g) (v_sw g) d) ->
  (if Nat.eqb d 0 then (g, false) else refine_vol_w Rops tol g d) = (g1, false) ->
  default_calls tol (v_pw g) (v_Uw g) d L ->
  exists oX, g1 = volRWo tol g oX /\ dir_refined tol tol (v_pw g) (v_Uw g) (v_sw g) oX L.
Proof.
  intros Hok H HC. destruct (Nat.eqb_spec d 0) as [E|E].
  - injection H as <-. exists None. split; [reflexivity|]. unfold default_calls in HC. rewrite E in HC. exact HC.
  - destruct (refine_plan Rops tol true (v_pw g) (v_Uw g) None [] d) as [X| |] eqn:Hplan;
      try (unfold refine_vol_w in H; rewrite Hplan in H; discriminate).
    destruct (default_refine_ok tol _ _ _ _ X (Hok E) Hplan) as [_ HX].
    rewrite (refine_vol_w_is tol g d X Hplan HX) in H. injection H as <-. exists (Some X). split; [reflexivity|].
    apply (default_calls_refined tol _ _ _ d); auto.
Qed.

(* [G] operations.refine_knotvector(vol, [du, dv, dw]) followed by remove_knot of every refined knot with its count in its
   direction, all calls in ANY order (u-, v-, w-calls interleaved) *)
Theorem vol_remove_after_refine_knotvector (tol tol2 : R) check (dim : nat) (g g' : vol (T:=R)) params (T : list (vdir * (R * nat))) :
  (0 <= tol)%R -> (0 <= tol2)%R -> 1 <= dim -> vwf g dim -> length (v_P g) = v_su g * v_sv g * v_sw g ->
  (dens params 0 <> 0 -> default_ok tol (v_pu g) (v_Uu g) (v_su g) (dens params 0)) ->
  (dens params 1 <> 0 -> default_ok tol (v_pv g) (v_Uv g) (v_sv g) (dens params 1)) ->
  (dens params 2 <> 0 -> default_ok tol (v_pw g) (v_Uw g) (v_sw g) (dens params 2)) ->
  refine_vol Rops tol check g params = (g', false) ->
  default_calls tol (v_pu g) (v_Uu g) (dens params 0) (vproj vdU T) ->
  default_calls tol (v_pv g) (v_Uv g) (dens params 1) (vproj vdV T) ->
  default_calls tol (v_pw g) (v_Uw g) (dens params 2) (vproj vdW T) ->
  let run := fold_left (fun h t => fst (vrm tol tol2 h t)) in
  run T g' = g /\
  (forall T1 t T2, T = T1 ++ t :: T2 -> snd (vrm tol tol2 (run T1 g') t) = false) /\
  (forall T1 T2, T = T1 ++ T2 ->
     vwf (run T1 g') dim /\ length (v_P (run T1 g')) = v_su (run T1 g') * v_sv (run T1 g') * v_sw (run T1 g') /\
     forall c tu tv tw, c < dim -> vol_pt (run T1 g') c tu tv tw = vol_pt g c tu tv tw).
Proof.
  intros Ht Ht2 Hd1 W HL Hu Hv Hw H Cu Cv Cw. unfold refine_vol in H.
  destruct (andb check (negb (Nat.eqb (length params) 3))); [discriminate|].
  destruct (if Nat.eqb (dens params 0) 0 then (g, false) else refine_vol_u Rops tol g (dens params 0)) as [g1 r1] eqn:E1.
  destruct r1; [discriminate|].
  destruct (refine_vol_u_cases tol g g1 _ _ Hu E1 Cu) as (oXu & -> & Du).
  set (g1 := volRUo tol g oXu) in *.
  destruct (if Nat.eqb (dens params 1) 0 then (g1, false) else refine_vol_v Rops tol g1 (dens params 1)) as [g2 r2] eqn:E2.
  destruct r2; [discriminate|].
  assert (Hv1 : dens params 1 <> 0 -> default_ok tol (v_pv g1) (v_Uv g1) (v_sv g1) (dens params 1))
    by (unfold g1; destruct oXu; exact Hv).
  assert (Cv1 : default_calls tol (v_pv g1) (v_Uv g1) (dens params 1) (vproj vdV T))
    by (unfold g1; destruct oXu; exact Cv).
  destruct (refine_vol_v_cases tol g1 g2 _ _ Hv1 E2 Cv1) as (oXv & -> & Dv).
  set (g2 := volRVo tol g1 oXv) in *.
  assert (Hw2 : dens params 2 <> 0 -> default_ok tol (v_pw g2) (v_Uw g2) (v_sw g2) (dens params 2))
    by (unfold g2, g1; destruct oXu, oXv; exact Hw).
  assert (Cw2 : default_calls tol (v_pw g2) (v_Uw g2) (dens params 2) (vproj vdW T))
    by (unfold g2, g1; destruct oXu, oXv; exact Cw).
  destruct (refine_vol_w_cases tol g2 g' _ _ Hw2 H Cw2) as (oXw & -> & Dw).
  apply (vol_remove_after_refine tol tol tol2 dim g oXu oXv oXw T); try assumption.
  - unfold g1 in Dv. destruct oXu; exact Dv.
  - unfold g2, g1 in Dw. destruct oXu, oXv; exact Dw.
Qed.

(* ---------- a call with several directions at once is the sequence of the single-direction calls (u, then v, then w; a raise
   stops the processing), so the theorems cover such calls too ---------- *)
Lemma srm_both tolm tol2 (g : surf (T:=R)) x y n m :
  remove_knot_surf Rops tolm tol2 true g [Some x; Some y] [Z.of_nat n; Z.of_nat m]
  = let '(g1, r) := srm tolm tol2 g (sdU, (x, n)) in if r then (g1, true) else srm tolm tol2 g1 (sdV, (y, m)).
Proof. rewrite remove_knot_surf_steps. unfold srm. cbn [fst snd]. rewrite rmU_step. destruct (rstep_u tolm tol2 g (Some x) n) as [g1 [|]]; [reflexivity|]. rewrite rmV_step. reflexivity. Qed.
Lemma vrm_all tolm tol2 (g : vol (T:=R)) x y z n m k :
  remove_knot_vol Rops tolm tol2 true g [Some x; Some y; Some z] [Z.of_nat n; Z.of_nat m; Z.of_nat k]
  = let '(g1, r1) := vrm tolm tol2 g (vdU, (x, n)) in if r1 then (g1, true) else
    let '(g2, r2) := vrm tolm tol2 g1 (vdV, (y, m)) in if r2 then (g2, true) else vrm tolm tol2 g2 (vdW, (z, k)).
Proof.
  rewrite remove_knot_vol_steps. unfold vrm. cbn [fst snd]. rewrite vrmU_step. destruct (vrstep_u tolm tol2 g (Some x) n) as [g1 [|]]; [reflexivity|].
  rewrite vrmV_step. destruct (vrstep_v tolm tol2 g1 (Some y) m) as [g2 [|]]; [reflexivity|]. rewrite vrmW_step. reflexivity.
Qed.

(* ---------- building schedules: the calls of one direction after the calls of another (e.g. all v-calls, then all u-calls) ---------- *)
Lemma sproj_app d T1 T2 : sproj d (T1 ++ T2) = sproj d T1 ++ sproj d T2.
Proof. unfold sproj. rewrite filter_app, map_app. reflexivity. Qed.
Lemma sproj_tag d e (L : list (R * nat)) : sproj d (map (pair e) L) = if sdir_eqb e d then L else [].
Proof.
  unfold sproj. induction L as [|x L IH]; cbn [map filter fst]; [destruct (sdir_eqb e d); reflexivity|].
  destruct (sdir_eqb e d); cbn [map snd]; rewrite IH; reflexivity.
Qed.
Lemma vproj_app d T1 T2 : vproj d (T1 ++ T2) = vproj d T1 ++ vproj d T2.
Proof. unfold vproj. rewrite filter_app, map_app. reflexivity. Qed.
Lemma vproj_tag d e (L : list (R * nat)) : vproj d (map (pair e) L) = if vdir_eqb e d then L else [].
Proof.
  unfold vproj. induction L as [|x L IH]; cbn [map filter fst]; [destruct (vdir_eqb e d); reflexivity|].
  destruct (vdir_eqb e d); cbn [map snd]; rewrite IH; reflexivity.
Qed.


(* ---------- the plainest reading: every refined knot with its count, direction by direction in the reverse order of the
   refinement (w, v, u), the values of a direction in the order of the bisected list ---------- *)
Definition default_sched (tol : R) (p : nat) (U : list R) (d : nat) : list (R * nat) :=
  if Nat.eqb d 0 then [] else map (fun mk => (mk, p - find_multiplicity Rops tol mk U)) (refine_L p U d).
Lemma default_sched_calls tol p U d : default_calls tol p U d (default_sched tol p U d).
Proof.
  unfold default_calls, default_sched. destruct (Nat.eqb d 0); [reflexivity|].
  exists (refine_L p U d). split; [apply Permutation_refl|reflexivity].
Qed.

Corollary surf_remove_after_refine_knotvector_rev (tol tol2 : R) check (dim : nat) (g g' : surf (T:=R)) params :
  (0 <= tol)%R -> (0 <= tol2)%R -> swf g dim -> length (s_P g) = s_sv g * s_su g ->
  (dens params 0 <> 0 -> default_ok tol (s_pu g) (s_Uu g) (s_su g) (dens params 0)) ->
  (dens params 1 <> 0 -> default_ok tol (s_pv g) (s_Uv g) (s_sv g) (dens params 1)) ->
  refine_surf Rops tol check g params = (g', false) ->
  let T := map (pair sdV) (default_sched tol (s_pv g) (s_Uv g) (dens params 1)) ++
           map (pair sdU) (default_sched tol (s_pu g) (s_Uu g) (dens params 0)) in
  fold_left (fun h t => fst (srm tol tol2 h t)) T g' = g /\
  forall c tu tv, c < dim -> surf_pt g' c tu tv = surf_pt g c tu tv.
Proof.
  intros Ht Ht2 W HL Hu Hv H T.
  destruct (surf_remove_after_refine_knotvector tol tol2 check dim g g' params T Ht Ht2 W HL Hu Hv H) as (A & _ & C).
  - unfold T. rewrite sproj_app, !sproj_tag. cbn [sdir_eqb app]. apply default_sched_calls.
  - unfold T. rewrite sproj_app, !sproj_tag. cbn [sdir_eqb]. rewrite app_nil_r. apply default_sched_calls.
  - split; [exact A|]. apply (C [] T eq_refl).
Qed.

Corollary vol_remove_after_refine_knotvector_rev (tol tol2 : R) check (dim : nat) (g g' : vol (T:=R)) params :
  (0 <= tol)%R -> (0 <= tol2)%R -> 1 <= dim -> vwf g dim -> length (v_P g) = v_su g * v_sv g * v_sw g ->
  (dens params 0 <> 0 -> default_ok tol (v_pu g) (v_Uu g) (v_su g) (dens params 0)) ->
  (dens params 1 <> 0 -> default_ok tol (v_pv g) (v_Uv g) (v_sv g) (dens params 1)) ->
  (dens params 2 <> 0 -> default_ok tol (v_pw g) (v_Uw g) (v_sw g) (dens params 2)) ->
  refine_vol Rops tol check g params = (g', false) ->
  let T := map (pair vdW) (default_sched tol (v_pw g) (v_Uw g) (dens params 2)) ++
           map (pair vdV) (default_sched tol (v_pv g) (v_Uv g) (dens params 1)) ++
           map (pair vdU) (default_sched tol (v_pu g) (v_Uu g) (dens params 0)) in
  fold_left (fun h t => fst (vrm tol tol2 h t)) T g' = g /\
  forall c tu tv tw, c < dim -> vol_pt g' c tu tv tw = vol_pt g c tu tv tw.
Proof.
  intros Ht Ht2 Hd1 W HL Hu Hv Hw H T.
  destruct (vol_remove_after_refine_knotvector tol tol2 check dim g g' params T Ht Ht2 Hd1 W HL Hu Hv Hw H) as (A & _ & C).
  - unfold T. rewrite !vproj_app, !vproj_tag. cbn [vdir_eqb app]. apply default_sched_calls.
  - unfold T. rewrite !vproj_app, !vproj_tag. cbn [vdir_eqb app]. rewrite app_nil_r. apply default_sched_calls.
  - unfold T. rewrite !vproj_app, !vproj_tag. cbn [vdir_eqb app]. rewrite app_nil_r. apply default_sched_calls.
  - split; [exact A|]. apply (C [] T eq_refl).
Qed.

(* ================================================================== 8. non-vacuity over the REALS *)
(* The biquadratic 3 x 4 surface exGR and the 3 x 2 x 3 volume exVR (degrees 2, 1, 2) of Proofs/KnotRemMoreExamples.v.
   New knots: [1/3; 1/3; 2/3] in a direction with the knot vector [0,0,0,1,1,1] (degree 2), RefineExamples.exX =
   [1/4; 1/4; 1/2; 3/4; 3/4] in the v direction of exGR (knot vector exU = [0,0,0,1/2,1,1,1]), [1/2] in the v direction of exVR
   (degree 1, knot vector [0,0,1,1]).  Tolerances 1/1000, squared removal tolerance 1/1000000. *)
Local Open Scope R_scope.
Definition exX3 : list R := [1/3; 1/3; 2/3].
Definition exU3 : list R := [0; 0; 0; 1; 1; 1].

Lemma exX3_ok : refine_ok (1/1000) 2 exU3 3 exX3.
Proof.
  unfold refine_ok.
  split; [lia|]. split; [apply StronglySorted_sortedR; unfold exU3; ssorted|]. split; [lia|]. split; [reflexivity|]. split; [discriminate|].
  split; [apply StronglySorted_sortedR; unfold exX3; ssorted|].
  split; [unfold exX3, exU3, kn; cbn; lra|]. split; [unfold exX3, exU3, kn; cbn; lra|].
  split.
  - unfold exX3, exU3. cbn [In app]. intros x y Hx Hy Hlt.
    repeat (destruct Hx as [<-|Hx]); try contradiction;
    repeat (destruct Hy as [<-|Hy]); try contradiction; lra.
  - unfold exX3, exU3. cbn [In app]. intros x Hx.
    repeat (destruct Hx as [<-|Hx]); try contradiction; cnt; lia.
Qed.
Lemma exX3_sep : forall x y, In x exX3 -> In y (exX3 ++ exU3) -> Rabs (x - y) <= 1/1000 -> y = x.
Proof.
  unfold exX3, exU3. cbn [In app]. intros x y Hx Hy.
  repeat (destruct Hx as [<-|Hx]); try contradiction;
  repeat (destruct Hy as [<-|Hy]); try contradiction; unfold Rabs; destruct (Rcase_abs _); lra.
Qed.

Definition exX1 : list R := [1/2].
Definition exU1 : list R := [0; 0; 1; 1].
Lemma exX1_ok : refine_ok (1/1000) 1 exU1 2 exX1.
Proof.
  unfold refine_ok.
  split; [lia|]. split; [apply StronglySorted_sortedR; unfold exU1; ssorted|]. split; [lia|]. split; [reflexivity|]. split; [discriminate|].
  split; [apply StronglySorted_sortedR; unfold exX1; ssorted|].
  split; [unfold exX1, exU1, kn; cbn; lra|]. split; [unfold exX1, exU1, kn; cbn; lra|].
  split.
  - unfold exX1, exU1. cbn [In app]. intros x y Hx Hy Hlt.
    repeat (destruct Hx as [<-|Hx]); try contradiction;
    repeat (destruct Hy as [<-|Hy]); try contradiction; lra.
  - unfold exX1, exU1. cbn [In app]. intros x Hx.
    repeat (destruct Hx as [<-|Hx]); try contradiction; cnt; lia.
Qed.
Lemma exX1_sep : forall x y, In x exX1 -> In y (exX1 ++ exU1) -> Rabs (x - y) <= 1/1000 -> y = x.
Proof.
  unfold exX1, exU1. cbn [In app]. intros x y Hx Hy.
  repeat (destruct Hx as [<-|Hx]); try contradiction;
  repeat (destruct Hy as [<-|Hy]); try contradiction; unfold Rabs; destruct (Rcase_abs _); lra.
Qed.

(* surface: u- and v-calls interleaved, NOT in the order of insertion, one copy per call or several *)
Definition exTS : list (sdir * (R * nat)) :=
  [(sdV, (1/2, 1%nat)); (sdU, (1/3, 1%nat)); (sdV, (3/4, 2%nat)); (sdU, (2/3, 1%nat)); (sdV, (1/4, 1%nat)); (sdU, (1/3, 1%nat)); (sdV, (1/4, 1%nat))].

Example surf_refine_remove_hypotheses_satisfiable :
  0 <= 1/1000 /\ 0 <= 1/1000000 /\ swf exGR 3 /\ length (s_P exGR) = (s_sv exGR * s_su exGR)%nat /\
  dir_refined (1/1000) (1/1000) (s_pu exGR) (s_Uu exGR) (s_su exGR) (Some exX3) (sproj sdU exTS) /\
  dir_refined (1/1000) (1/1000) (s_pv exGR) (s_Uv exGR) (s_sv exGR) (Some exX) (sproj sdV exTS).
Proof.
  split; [lra|]. split; [lra|]. split; [exact exGR_swf|]. split; [reflexivity|]. split.
  - cbn [dir_refined]. split; [exact exX3_ok|]. split; [exact exX3_sep|].
    change (Permutation [1/3; 2/3; 1/3] [1/3; 1/3; 2/3]). apply perm_skip. apply perm_swap.
  - cbn [dir_refined]. split; [exact refine_ok_satisfiable|]. split; [exact exX_sep|exact exSched_perm].
Qed.

Example surf_refine_remove_instance :
  let g2 := surfRV (1/1000) (surfRU (1/1000) exGR exX3) exX in
  let run := fold_left (fun h t => fst (srm (1/1000) (1/1000000) h t)) in
  run exTS g2 = exGR /\
  (forall T1 t T2, exTS = T1 ++ t :: T2 -> snd (srm (1/1000) (1/1000000) (run T1 g2) t) = false) /\
  (forall T1 T2, exTS = T1 ++ T2 -> forall c tu tv, (c < 3)%nat -> surf_pt (run T1 g2) c tu tv = surf_pt exGR c tu tv).
Proof.
  destruct surf_refine_remove_hypotheses_satisfiable as (H1 & H2 & H3 & H4 & H5 & H6).
  destruct (surf_remove_after_refine (1/1000) (1/1000) (1/1000000) 3 exGR (Some exX3) (Some exX) exTS H1 H2 H3 H4 H5 H6) as (A & B & C).
  split; [exact A|]. split; [exact B|]. intros T1 T2 E. apply (C T1 T2 E).
Qed.

(* volume: all three directions refined, the removal calls of the three directions interleaved *)
Definition exTV : list (vdir * (R * nat)) :=
  [(vdW, (2/3, 1%nat)); (vdU, (1/3, 2%nat)); (vdV, (1/2, 1%nat)); (vdW, (1/3, 1%nat)); (vdU, (2/3, 1%nat)); (vdW, (1/3, 1%nat))].

Example vol_refine_remove_hypotheses_satisfiable :
  0 <= 1/1000 /\ 0 <= 1/1000000 /\ (1 <= 3)%nat /\ vwf exVR 3 /\ length (v_P exVR) = (v_su exVR * v_sv exVR * v_sw exVR)%nat /\
  dir_refined (1/1000) (1/1000) (v_pu exVR) (v_Uu exVR) (v_su exVR) (Some exX3) (vproj vdU exTV) /\
  dir_refined (1/1000) (1/1000) (v_pv exVR) (v_Uv exVR) (v_sv exVR) (Some exX1) (vproj vdV exTV) /\
  dir_refined (1/1000) (1/1000) (v_pw exVR) (v_Uw exVR) (v_sw exVR) (Some exX3) (vproj vdW exTV).
Proof.
  split; [lra|]. split; [lra|]. split; [lia|]. split; [exact exVR_vwf|]. split; [reflexivity|]. split; [|split].
  - cbn [dir_refined]. split; [exact exX3_ok|]. split; [exact exX3_sep|]. apply Permutation_refl.
  - cbn [dir_refined]. split; [exact exX1_ok|]. split; [exact exX1_sep|]. apply Permutation_refl.
  - cbn [dir_refined]. split; [exact exX3_ok|]. split; [exact exX3_sep|].
    change (Permutation [2/3; 1/3; 1/3] [1/3; 1/3; 2/3]).
    apply (Permutation_trans (l' := [1/3; 2/3; 1/3])); [apply perm_swap|apply perm_skip; apply perm_swap].
Qed.

Example vol_refine_remove_instance :
  let g3 := volRW (1/1000) (volRV (1/1000) (volRU (1/1000) exVR exX3) exX1) exX3 in
  let run := fold_left (fun h t => fst (vrm (1/1000) (1/1000000) h t)) in
  run exTV g3 = exVR /\
  (forall T1 t T2, exTV = T1 ++ t :: T2 -> snd (vrm (1/1000) (1/1000000) (run T1 g3) t) = false) /\
  (forall T1 T2, exTV = T1 ++ T2 -> forall c tu tv tw, (c < 3)%nat -> vol_pt (run T1 g3) c tu tv tw = vol_pt exVR c tu tv tw).
Proof.
  destruct vol_refine_remove_hypotheses_satisfiable as (H1 & H2 & H3 & H4 & H5 & H6 & H7 & H8).
  destruct (vol_remove_after_refine (1/1000) (1/1000) (1/1000000) 3 exVR (Some exX3) (Some exX1) (Some exX3) exTV H1 H2 H3 H4 H5 H6 H7 H8) as (A & B & C).
  split; [exact A|]. split; [exact B|]. intros T1 T2 E. apply (C T1 T2 E).
Qed.

Print Assumptions inter3.
Print Assumptions surf_remove_after_refine.
Print Assumptions vol_remove_after_refine.
Print Assumptions surf_remove_some_after_refine.
Print Assumptions vol_remove_some_after_refine.
Print Assumptions surf_remove_after_refine_knotvector.
Print Assumptions vol_remove_after_refine_knotvector.
Print Assumptions surf_remove_after_refine_knotvector_rev.
Print Assumptions vol_remove_after_refine_knotvector_rev.
Print Assumptions surf_refine_remove_instance.
Print Assumptions vol_refine_remove_instance.
