(* C02, non-rational surfaces: the array SKL computed by A3.6 (SurfaceEvaluator.derivatives, Model.Derivs.surface_derivs)
   holds the mixed partial derivatives of the tensor-product surface  S(u,v) = sum_ij N_i(u) N_j(v) P_ij  (EvalR.surface_def).

   1. algebra: SKL[k][l] = sum_ij dN^(k)_i(u) dN^(l)_j(v) P_ij  (surface_dkl; Eq. 2.9 in each direction), for every requested
      order, all k, l <= order (zero vectors above the degrees included);
   2. analysis: for fixed v, u |-> SKL[k][l](u,v) has the (two-sided, limit-based) derivative SKL[k+1][l](u,v) inside every
      u-span; for fixed u, v |-> SKL[k][l](u,v) has derivative SKL[k][l+1](u,v) inside every v-span; right derivatives on the
      half-open spans; SKL[0][0] is the evaluated point.  Together: SKL[k][l] = d^(k+l) S / du^k dv^l.

   Written against the abstract link ders_link (Proofs/DerivLinkAbs.v) and instantiated for degrees 1..5 per direction. *)
From Coq Require Import List Reals Lra Lia Arith Bool.
From NV Require Import Scalar.Ops Model.Common Model.Basis Model.Knots Model.Eval Model.Degree Model.Derivs
  Proofs.Boehm Proofs.BasisR Proofs.DerivAnalytic Proofs.EvalR Proofs.DerivLink Proofs.DerivLinkCurve Proofs.DerivsR
  Proofs.LeibnizRule Proofs.DerivLinkAbs.
Import ListNotations.
Open Scope R_scope.

(* ------------------------------------------------------------------------------------------------ *)
(* sums, and term-wise differentiation                                                               *)
Lemma sumf_swap (F : nat -> nat -> R) m n :
  sumf (fun i => sumf (fun j => F i j) n) m = sumf (fun j => sumf (fun i => F i j) m) n.
Proof.
  induction m as [|m IH]; cbn [sumf].
  - symmetry. apply sumf_0.
  - rewrite IH, <- sumf_add. reflexivity.
Qed.

Lemma sumf_dl (F : nat -> R -> R) (F' : nat -> R) x n :
  (forall i, (i < n)%nat -> derivable_pt_lim (F i) x (F' i)) ->
  derivable_pt_lim (fun y => sumf (fun i => F i y) n) x (sumf F' n).
Proof.
  induction n as [|n IH]; intros H; cbn [sumf].
  - apply dl_const.
  - apply (dl_plus (fun y => sumf (fun i => F i y) n) (F n)); [apply IH; intros; apply H; lia|apply H; lia].
Qed.

Lemma rd_eq (f : R -> R) x l l' : l = l' -> right_derivable_pt_lim f x l -> right_derivable_pt_lim f x l'.
Proof. intros ->. exact (fun H => H). Qed.
Lemma rd_scal c f x l : right_derivable_pt_lim f x l -> right_derivable_pt_lim (fun y => c * f y) x (c * l).
Proof.
  intros H. apply rd_eq with (0 * f x + c * l); [ring|].
  apply (rd_mult (fun _ => c) f); [apply rd_const|exact H].
Qed.
Lemma rd_mulc c f x l : right_derivable_pt_lim f x l -> right_derivable_pt_lim (fun y => f y * c) x (l * c).
Proof.
  intros H. apply rd_eq with (l * c + f x * 0); [ring|].
  apply (rd_mult f (fun _ => c)); [exact H|apply rd_const].
Qed.
Lemma sumf_rd (F : nat -> R -> R) (F' : nat -> R) x n :
  (forall i, (i < n)%nat -> right_derivable_pt_lim (F i) x (F' i)) ->
  right_derivable_pt_lim (fun y => sumf (fun i => F i y) n) x (sumf F' n).
Proof.
  induction n as [|n IH]; intros H; cbn [sumf].
  - apply rd_const.
  - apply (rd_plus (fun y => sumf (fun i => F i y) n) (F n)); [apply IH; intros; apply H; lia|apply H; lia].
Qed.

(* ------------------------------------------------------------------------------------------------ *)
(* the (k,l) mixed partial by Eq. 2.9 in both directions: sum over the whole net (flat index j + sv*i) *)
Definition surface_dkl (Uu Uv : list R) (pu pv su sv : nat) (P : list (list R)) (k l d : nat) (u v : R) : R :=
  sumf (fun i => sumf (fun j => dNa (Ufun Uu) k pu i u * dNa (Ufun Uv) l pv j v * coord P (j + sv * i) d) sv) su.

Lemma surface_dkl_00 Uu Uv pu pv su sv P d u v :
  surface_dkl Uu Uv pu pv su sv P 0 0 d u v = surface_def Uu Uv pu pv su sv P d u v.
Proof. reflexivity. Qed.

Lemma surface_dkl_above_degree Uu Uv pu pv su sv P k l d u v : (pu < k \/ pv < l)%nat ->
  surface_dkl Uu Uv pu pv su sv P k l d u v = 0.
Proof.
  intros H. unfold surface_dkl. apply sumf_zero. intros i _. apply sumf_zero. intros j _.
  destruct H as [H|H]; rewrite (dNa_above_degree _ _ _ _ _ H); ring.
Qed.

(* analytic meaning of surface_dkl: all degrees, all sorted knot vectors *)
Section Analytic.
Variables (Uu Uv : list R) (pu pv su sv : nat) (P : list (list R)).
Hypothesis Husorted : sortedR Uu.
Hypothesis Hvsorted : sortedR Uv.
Let Vu := Ufun_sorted Uu Husorted.
Let Vv := Ufun_sorted Uv Hvsorted.

Lemma surface_dkl_du s k l d u v : Ufun Uu s < u < Ufun Uu (S s) ->
  derivable_pt_lim (fun x => surface_dkl Uu Uv pu pv su sv P k l d x v) u (surface_dkl Uu Uv pu pv su sv P (S k) l d u v).
Proof.
  intros Hu. unfold surface_dkl.
  apply (sumf_dl (fun i x => sumf (fun j => dNa (Ufun Uu) k pu i x * dNa (Ufun Uv) l pv j v * coord P (j + sv * i) d) sv)
                 (fun i => sumf (fun j => dNa (Ufun Uu) (S k) pu i u * dNa (Ufun Uv) l pv j v * coord P (j + sv * i) d) sv)).
  intros i _.
  apply (sumf_dl (fun j x => dNa (Ufun Uu) k pu i x * dNa (Ufun Uv) l pv j v * coord P (j + sv * i) d)
                 (fun j => dNa (Ufun Uu) (S k) pu i u * dNa (Ufun Uv) l pv j v * coord P (j + sv * i) d)).
  intros j _. apply dl_mulc, dl_mulc. apply (dN_is_kth_derivative (Ufun Uu) Vu s). exact Hu.
Qed.

Lemma surface_dkl_dv s k l d u v : Ufun Uv s < v < Ufun Uv (S s) ->
  derivable_pt_lim (fun y => surface_dkl Uu Uv pu pv su sv P k l d u y) v (surface_dkl Uu Uv pu pv su sv P k (S l) d u v).
Proof.
  intros Hv. unfold surface_dkl.
  apply (sumf_dl (fun i y => sumf (fun j => dNa (Ufun Uu) k pu i u * dNa (Ufun Uv) l pv j y * coord P (j + sv * i) d) sv)
                 (fun i => sumf (fun j => dNa (Ufun Uu) k pu i u * dNa (Ufun Uv) (S l) pv j v * coord P (j + sv * i) d) sv)).
  intros i _.
  apply (sumf_dl (fun j y => dNa (Ufun Uu) k pu i u * dNa (Ufun Uv) l pv j y * coord P (j + sv * i) d)
                 (fun j => dNa (Ufun Uu) k pu i u * dNa (Ufun Uv) (S l) pv j v * coord P (j + sv * i) d)).
  intros j _. apply dl_mulc, dl_scal. apply (dN_is_kth_derivative (Ufun Uv) Vv s). exact Hv.
Qed.

Lemma surface_dkl_du_right s k l d u v : Ufun Uu s <= u < Ufun Uu (S s) ->
  right_derivable_pt_lim (fun x => surface_dkl Uu Uv pu pv su sv P k l d x v) u (surface_dkl Uu Uv pu pv su sv P (S k) l d u v).
Proof.
  intros Hu. unfold surface_dkl.
  apply (sumf_rd (fun i x => sumf (fun j => dNa (Ufun Uu) k pu i x * dNa (Ufun Uv) l pv j v * coord P (j + sv * i) d) sv)
                 (fun i => sumf (fun j => dNa (Ufun Uu) (S k) pu i u * dNa (Ufun Uv) l pv j v * coord P (j + sv * i) d) sv)).
  intros i _.
  apply (sumf_rd (fun j x => dNa (Ufun Uu) k pu i x * dNa (Ufun Uv) l pv j v * coord P (j + sv * i) d)
                 (fun j => dNa (Ufun Uu) (S k) pu i u * dNa (Ufun Uv) l pv j v * coord P (j + sv * i) d)).
  intros j _. apply rd_mulc, rd_mulc. apply (dN_right_derivative (Ufun Uu) Vu s). exact Hu.
Qed.

Lemma surface_dkl_dv_right s k l d u v : Ufun Uv s <= v < Ufun Uv (S s) ->
  right_derivable_pt_lim (fun y => surface_dkl Uu Uv pu pv su sv P k l d u y) v (surface_dkl Uu Uv pu pv su sv P k (S l) d u v).
Proof.
  intros Hv. unfold surface_dkl.
  apply (sumf_rd (fun i y => sumf (fun j => dNa (Ufun Uu) k pu i u * dNa (Ufun Uv) l pv j y * coord P (j + sv * i) d) sv)
                 (fun i => sumf (fun j => dNa (Ufun Uu) k pu i u * dNa (Ufun Uv) (S l) pv j v * coord P (j + sv * i) d) sv)).
  intros i _.
  apply (sumf_rd (fun j y => dNa (Ufun Uu) k pu i u * dNa (Ufun Uv) l pv j y * coord P (j + sv * i) d)
                 (fun j => dNa (Ufun Uu) k pu i u * dNa (Ufun Uv) (S l) pv j v * coord P (j + sv * i) d)).
  intros j _. apply rd_mulc, rd_scal. apply (dN_right_derivative (Ufun Uv) Vv s). exact Hv.
Qed.
End Analytic.

(* ------------------------------------------------------------------------------------------------ *)
(* the two nested accumulation loops of A3.6, coordinate-wise                                        *)
Lemma surface_tensor_fold dim pu pv su sv (P : list (list R)) iu iv (cu cv : nat -> R) :
  wf_net P dim -> length P = (su * sv)%nat -> (iu + pu < su)%nat -> (iv + pv < sv)%nat ->
  let temp := map (fun s => fold_left (fun acc r => axpy Rops (cu r) (pt_at P (iv + s + sv * (iu + r))) acc)
                                      (seq 0 (S pu)) (vzero Rops dim)) (seq 0 (S pv)) in
  let res := fold_left (fun acc s => axpy Rops (cv s) (nth s temp []) acc) (seq 0 (S pv)) (vzero Rops dim) in
  length res = dim /\
  forall d, (d < dim)%nat ->
    nth d res 0 = sumf (fun s => cv s * sumf (fun r => cu r * coord P (iv + s + sv * (iu + r)) d) (S pu)) (S pv).
Proof.
  intros Hwf HLP Hiu Hiv. cbn zeta.
  set (tempf := fun s => fold_left (fun acc r => axpy Rops (cu r) (pt_at P (iv + s + sv * (iu + r))) acc)
                                   (seq 0 (S pu)) (vzero Rops dim)).
  assert (Htemp : forall s, (s < S pv)%nat -> length (tempf s) = dim /\
            forall d, (d < dim)%nat -> nth d (tempf s) 0 = sumf (fun r => cu r * coord P (iv + s + sv * (iu + r)) d) (S pu)).
  { intros s Hs. unfold tempf, pt_at.
    apply (fold_axpy_lt cu (fun r => nth (iv + s + sv * (iu + r)) P []) dim (S pu)).
    intros r Hr. apply Hwf. rewrite HLP. nia. }
  assert (Hnth : forall s, (s < S pv)%nat -> nth s (map tempf (seq 0 (S pv))) [] = tempf s).
  { intros s Hs. rewrite nth_map_seq by exact Hs. reflexivity. }
  assert (Heq : fold_left (fun acc s => axpy Rops (cv s) (nth s (map tempf (seq 0 (S pv))) []) acc) (seq 0 (S pv)) (vzero Rops dim)
              = fold_left (fun acc s => axpy Rops (cv s) (tempf s) acc) (seq 0 (S pv)) (vzero Rops dim)).
  { apply fold_left_ext_in. intros acc s Hs. apply in_seq in Hs. rewrite Hnth by lia. reflexivity. }
  rewrite Heq.
  destruct (fold_axpy_lt cv tempf dim (S pv) (fun s Hs => proj1 (Htemp s Hs))) as [HL Hn]. cbn zeta in *.
  split; [exact HL|]. intros d Hd. rewrite Hn by exact Hd.
  apply sumf_ext. intros s Hs. f_equal. apply (proj2 (Htemp s Hs)). exact Hd.
Qed.

Lemma span_in_domain (U : list R) (p n t : nat) x : sortedR U -> (p <= t < n)%nat -> (n < length U)%nat ->
  knR U t <= x < knR U (t + 1) -> knR U p <= x < knR U n.
Proof.
  intros Hs Ht HLn Hx. assert (knR U p <= knR U t) by (apply Hs; lia).
  assert (knR U (t + 1) <= knR U n) by (apply Hs; lia). lra.
Qed.

(* ------------------------------------------------------------------------------------------------ *)
Section Surf.
Variables (Uu Uv : list R) (P : list (list R)) (pu pv su sv dim : nat).
Hypothesis Husorted : sortedR Uu.
Hypothesis Hvsorted : sortedR Uv.
Hypothesis Hwf : wf_net P dim.
Hypothesis HLP : length P = (su * sv)%nat.
Hypothesis Hlku : ders_link pu.
Hypothesis Hlkv : ders_link pv.
Hypothesis Hpu : (pu < su)%nat.
Hypothesis Hpv : (pv < sv)%nat.
Hypothesis HLu : length Uu = (su + pu + 1)%nat.
Hypothesis HLv : length Uv = (sv + pv + 1)%nat.

Notation SKL u v order := (surface_derivs Rops dim pu pv Uu Uv su sv P u v order).
Notation dkl k l d u v := (surface_dkl Uu Uv pu pv su sv P k l d u v).

(* 1. [algebra] every entry of the computed square is the tensor product of the Eq. 2.9 derivatives *)
Theorem surface_derivs_is_dN_tensor_of_link u v order k l :
  knR Uu pu <= u < knR Uu su -> knR Uv pv <= v < knR Uv sv -> (k <= order)%nat -> (l <= order)%nat ->
  length (get3 (SKL u v order) k l) = dim /\
  forall d, (d < dim)%nat -> nth d (get3 (SKL u v order) k l) 0 = dkl k l d u v.
Proof.
  intros Hu Hv Hk Hl. unfold get3, surface_derivs. cbv zeta.
  rewrite nth_map_seq by lia. cbn [Nat.add].
  destruct (Nat.leb_spec k (Nat.min pu order)) as [Hkd|Hkd].
  - rewrite nth_map_seq by lia. cbn [Nat.add].
    destruct (Nat.leb_spec l (Nat.min order (Nat.min pv order))) as [Hld|Hld].
    + destruct (span_facts Uu u pu su Hpu ltac:(lia) Hu) as [Hku Hiu].
      destruct (span_facts Uv v pv sv Hpv ltac:(lia) Hv) as [Hkv Hiv].
      set (spu := find_span_linear Rops pu Uu su u) in *. set (spv := find_span_linear Rops pv Uv sv v) in *.
      set (dersu := basis_function_ders Rops pu Uu spu u (Nat.min pu order)).
      set (dersv := basis_function_ders Rops pv Uv spv v (Nat.min pv order)).
      destruct (surface_tensor_fold dim pu pv su sv P (spu - pu) (spv - pv)
                  (fun r => get2 Rops dersu k r) (fun s => get2 Rops dersv l s) Hwf HLP ltac:(lia) ltac:(lia)) as [HLen Hn].
      cbn zeta in HLen, Hn. split; [exact HLen|]. intros d Hd. rewrite (Hn d Hd).
      assert (Ecu : forall r, (r <= pu)%nat -> get2 Rops dersu k r = dNa (Ufun Uu) k pu (spu - pu + r) u).
      { intros r Hr. unfold get2, dersu. apply Hlku; try assumption; lia. }
      assert (Ecv : forall s, (s <= pv)%nat -> get2 Rops dersv l s = dNa (Ufun Uv) l pv (spv - pv + s) v).
      { intros s Hs. unfold get2, dersv. apply Hlkv; try assumption; lia. }
      unfold surface_dkl.
      transitivity (sumf (fun r => sumf (fun s => dNa (Ufun Uu) k pu (spu - pu + r) u * dNa (Ufun Uv) l pv (spv - pv + s) v
                                                 * coord P (spv - pv + s + sv * (spu - pu + r)) d) (S pv)) (S pu)).
      * rewrite (sumf_swap (fun r s => dNa (Ufun Uu) k pu (spu - pu + r) u * dNa (Ufun Uv) l pv (spv - pv + s) v
                                       * coord P (spv - pv + s + sv * (spu - pu + r)) d) (S pu) (S pv)).
        apply sumf_ext. intros s Hs. rewrite <- sumf_scale. apply sumf_ext. intros r Hr.
        rewrite Ecu, Ecv by lia. ring.
      * symmetry. rewrite (sumf_window _ (spu - pu) (S pu) su); try lia.
        -- apply sumf_ext. intros r Hr. rewrite (sumf_window _ (spv - pv) (S pv) sv); try lia.
           ++ reflexivity.
           ++ intros j Hj. rewrite (dNa_outside Uv l pv j v spv Hvsorted ltac:(lia) Hiv) by lia. ring.
           ++ intros j Hj. rewrite (dNa_outside Uv l pv j v spv Hvsorted ltac:(lia) Hiv) by lia. ring.
        -- intros i Hi. apply sumf_zero. intros j _. rewrite (dNa_outside Uu k pu i u spu Husorted ltac:(lia) Hiu) by lia. ring.
        -- intros i Hi. apply sumf_zero. intros j _. rewrite (dNa_outside Uu k pu i u spu Husorted ltac:(lia) Hiu) by lia. ring.
    + split; [apply vzero_length|]. intros d Hd. rewrite vzero_nth. symmetry. apply surface_dkl_above_degree. lia.
  - rewrite (nth_indep _ [] (vzero Rops dim)) by (rewrite repeat_length; lia). rewrite nth_repeat_in by lia.
    split; [apply vzero_length|]. intros d Hd. rewrite vzero_nth. symmetry. apply surface_dkl_above_degree. lia.
Qed.

(* order 0,0 is the evaluated surface point *)
Theorem surface_derivs_order0_is_point_of_link u v order d :
  knR Uu pu <= u < knR Uu su -> knR Uv pv <= v < knR Uv sv -> (d < dim)%nat ->
  nth d (get3 (SKL u v order) 0 0) 0 = nth d (surface_point Rops dim pu pv Uu Uv su sv P u v) 0.
Proof.
  intros Hu Hv Hd.
  rewrite (proj2 (surface_derivs_is_dN_tensor_of_link u v order 0 0 Hu Hv ltac:(lia) ltac:(lia)) d Hd).
  rewrite surface_dkl_00. symmetry.
  apply (surface_point_is_definition Uu Uv P pu pv su sv dim u v Husorted Hvsorted Hwf HLP Hpu Hpv HLu HLv Hu Hv). exact Hd.
Qed.

(* 2. [analysis] partial derivatives, span by span *)
Section SpanU.
Variable tu : nat.                       (* a knot span of the u-domain *)
Hypothesis Htu : (pu <= tu < su)%nat.
Let Eu : Ufun Uu tu = knR Uu tu. Proof. apply Ufun_in. lia. Qed.
Let Eu1 : Ufun Uu (S tu) = knR Uu (tu + 1). Proof. rewrite Ufun_in by lia. f_equal. lia. Qed.
Let domu x : knR Uu tu <= x < knR Uu (tu + 1) -> knR Uu pu <= x < knR Uu su.
Proof. apply span_in_domain; [exact Husorted|exact Htu|lia]. Qed.

(* d/du: v anywhere in the v-domain, u strictly inside a u-span *)
Theorem surface_derivs_partial_u_of_link order k l d u v : (S k <= order)%nat -> (l <= order)%nat -> (d < dim)%nat ->
  knR Uu tu < u < knR Uu (tu + 1) -> knR Uv pv <= v < knR Uv sv ->
  derivable_pt_lim (fun x => nth d (get3 (SKL x v order) k l) 0) u (nth d (get3 (SKL u v order) (S k) l) 0).
Proof.
  intros Hk Hl Hd Hu Hv.
  apply (dl_local (fun x => dkl k l d x v) _ (knR Uu tu) (knR Uu (tu + 1))); [exact Hu| |].
  - intros y Hy. symmetry.
    apply (surface_derivs_is_dN_tensor_of_link y v order k l); [apply domu; lra|exact Hv|lia|exact Hl|exact Hd].
  - rewrite (proj2 (surface_derivs_is_dN_tensor_of_link u v order (S k) l ltac:(apply domu; lra) Hv Hk Hl) d Hd).
    apply (surface_dkl_du Uu Uv pu pv su sv P Husorted tu). rewrite Eu, Eu1. exact Hu.
Qed.

(* right derivatives on the half-open spans (the property's convention at knots) *)
Theorem surface_derivs_partial_u_right_of_link order k l d u v : (S k <= order)%nat -> (l <= order)%nat -> (d < dim)%nat ->
  knR Uu tu <= u < knR Uu (tu + 1) -> knR Uv pv <= v < knR Uv sv ->
  right_derivable_pt_lim (fun x => nth d (get3 (SKL x v order) k l) 0) u (nth d (get3 (SKL u v order) (S k) l) 0).
Proof.
  intros Hk Hl Hd Hu Hv.
  apply (rdl_local (fun x => dkl k l d x v) _ (knR Uu (tu + 1))); [lra| |].
  - intros y Hy. symmetry.
    apply (surface_derivs_is_dN_tensor_of_link y v order k l); [apply domu; lra|exact Hv|lia|exact Hl|exact Hd].
  - rewrite (proj2 (surface_derivs_is_dN_tensor_of_link u v order (S k) l ltac:(apply domu; lra) Hv Hk Hl) d Hd).
    apply (surface_dkl_du_right Uu Uv pu pv su sv P Husorted tu). rewrite Eu, Eu1. exact Hu.
Qed.

End SpanU.

Section SpanV.
Variable tv : nat.                       (* a knot span of the v-domain *)
Hypothesis Htv : (pv <= tv < sv)%nat.
Let Ev : Ufun Uv tv = knR Uv tv. Proof. apply Ufun_in. lia. Qed.
Let Ev1 : Ufun Uv (S tv) = knR Uv (tv + 1). Proof. rewrite Ufun_in by lia. f_equal. lia. Qed.
Let domv y : knR Uv tv <= y < knR Uv (tv + 1) -> knR Uv pv <= y < knR Uv sv.
Proof. apply span_in_domain; [exact Hvsorted|exact Htv|lia]. Qed.

(* d/dv: u anywhere in the u-domain, v strictly inside a v-span *)
Theorem surface_derivs_partial_v_of_link order k l d u v : (k <= order)%nat -> (S l <= order)%nat -> (d < dim)%nat ->
  knR Uu pu <= u < knR Uu su -> knR Uv tv < v < knR Uv (tv + 1) ->
  derivable_pt_lim (fun y => nth d (get3 (SKL u y order) k l) 0) v (nth d (get3 (SKL u v order) k (S l)) 0).
Proof.
  intros Hk Hl Hd Hu Hv.
  apply (dl_local (fun y => dkl k l d u y) _ (knR Uv tv) (knR Uv (tv + 1))); [exact Hv| |].
  - intros y Hy. symmetry.
    apply (surface_derivs_is_dN_tensor_of_link u y order k l); [exact Hu|apply domv; lra|exact Hk|lia|exact Hd].
  - rewrite (proj2 (surface_derivs_is_dN_tensor_of_link u v order k (S l) Hu ltac:(apply domv; lra) Hk Hl) d Hd).
    apply (surface_dkl_dv Uu Uv pu pv su sv P Hvsorted tv). rewrite Ev, Ev1. exact Hv.
Qed.

(* right derivative in v *)
Theorem surface_derivs_partial_v_right_of_link order k l d u v : (k <= order)%nat -> (S l <= order)%nat -> (d < dim)%nat ->
  knR Uu pu <= u < knR Uu su -> knR Uv tv <= v < knR Uv (tv + 1) ->
  right_derivable_pt_lim (fun y => nth d (get3 (SKL u y order) k l) 0) v (nth d (get3 (SKL u v order) k (S l)) 0).
Proof.
  intros Hk Hl Hd Hu Hv.
  apply (rdl_local (fun y => dkl k l d u y) _ (knR Uv (tv + 1))); [lra| |].
  - intros y Hy. symmetry.
    apply (surface_derivs_is_dN_tensor_of_link u y order k l); [exact Hu|apply domv; lra|exact Hk|lia|exact Hd].
  - rewrite (proj2 (surface_derivs_is_dN_tensor_of_link u v order k (S l) Hu ltac:(apply domv; lra) Hk Hl) d Hd).
    apply (surface_dkl_dv_right Uu Uv pu pv su sv P Hvsorted tv). rewrite Ev, Ev1. exact Hv.
Qed.

End SpanV.

Section SpanUV.
Variables tu tv : nat.
Hypothesis Htu : (pu <= tu < su)%nat.
Hypothesis Htv : (pv <= tv < sv)%nat.
Let domu x : knR Uu tu <= x < knR Uu (tu + 1) -> knR Uu pu <= x < knR Uu su.
Proof. apply span_in_domain; [exact Husorted|exact Htu|lia]. Qed.
Let domv y : knR Uv tv <= y < knR Uv (tv + 1) -> knR Uv pv <= y < knR Uv sv.
Proof. apply span_in_domain; [exact Hvsorted|exact Htv|lia]. Qed.

(* iterated form: SKL[k][l] is obtained from the surface by k derivations in u (v fixed) followed by l derivations in v
   (u fixed); by the two theorems above the order of the derivations does not matter *)
Theorem surface_derivs_are_mixed_partials_of_link order k l d : (k <= order)%nat -> (l <= order)%nat -> (d < dim)%nat ->
  (forall v, knR Uv pv <= v < knR Uv sv ->
     kth_deriv_on (knR Uu tu) (knR Uu (tu + 1)) k (fun x => surface_def Uu Uv pu pv su sv P d x v)
                  (fun x => nth d (get3 (SKL x v order) k 0) 0)) /\
  (forall u, knR Uu pu <= u < knR Uu su ->
     kth_deriv_on (knR Uv tv) (knR Uv (tv + 1)) l (fun y => nth d (get3 (SKL u y order) k 0) 0)
                  (fun y => nth d (get3 (SKL u y order) k l) 0)).
Proof.
  intros Hk Hl Hd. split.
  - intros v Hv. clear Hl. induction k as [|k IH]; cbn [kth_deriv_on].
    + intros x Hx.
      rewrite (proj2 (surface_derivs_is_dN_tensor_of_link x v order 0 0 ltac:(apply domu; lra) Hv ltac:(lia) ltac:(lia)) d Hd).
      apply surface_dkl_00.
    + exists (fun x => nth d (get3 (SKL x v order) k 0) 0). split; [apply IH; lia|].
      intros x Hx. apply (surface_derivs_partial_u_of_link tu Htu); try assumption; lia.
  - intros u Hu. induction l as [|l IH]; cbn [kth_deriv_on].
    + intros y _. reflexivity.
    + exists (fun y => nth d (get3 (SKL u y order) k l) 0). split; [apply IH; lia|].
      intros y Hy. apply (surface_derivs_partial_v_of_link tv Htv); try assumption; lia.
Qed.

(* tangents: SKL[1][0] and SKL[0][1] are the partial derivatives of the evaluated point *)
Corollary surface_tangents_are_partials_of_point_of_link order d u v : (1 <= order)%nat -> (d < dim)%nat ->
  knR Uu tu < u < knR Uu (tu + 1) -> knR Uv tv < v < knR Uv (tv + 1) ->
  derivable_pt_lim (fun x => nth d (surface_point Rops dim pu pv Uu Uv su sv P x v) 0) u (nth d (get3 (SKL u v order) 1 0) 0) /\
  derivable_pt_lim (fun y => nth d (surface_point Rops dim pu pv Uu Uv su sv P u y) 0) v (nth d (get3 (SKL u v order) 0 1) 0).
Proof.
  intros Ho Hd Hu Hv. split.
  - apply (dl_local (fun x => nth d (get3 (SKL x v order) 0 0) 0) _ (knR Uu tu) (knR Uu (tu + 1))); [exact Hu| |].
    + intros y Hy. apply surface_derivs_order0_is_point_of_link; [apply domu; lra|apply domv; lra|exact Hd].
    + apply (surface_derivs_partial_u_of_link tu Htu); try assumption; try lia. apply domv; lra.
  - apply (dl_local (fun y => nth d (get3 (SKL u y order) 0 0) 0) _ (knR Uv tv) (knR Uv (tv + 1))); [exact Hv| |].
    + intros y Hy. apply surface_derivs_order0_is_point_of_link; [apply domu; lra|apply domv; lra|exact Hd].
    + apply (surface_derivs_partial_v_of_link tv Htv); try assumption; try lia. apply domu; lra.
Qed.
End SpanUV.
End Surf.

(* ------------------------------------------------------------------------------------------------ *)
(* [B: degrees 1..5 per direction] instances                                                         *)
Section Deg5.
Variables (Uu Uv : list R) (P : list (list R)) (pu pv su sv dim : nat).
Hypothesis Husorted : sortedR Uu.
Hypothesis Hvsorted : sortedR Uv.
Hypothesis Hwf : wf_net P dim.
Hypothesis HLP : length P = (su * sv)%nat.
Hypothesis Hpu5 : (1 <= pu <= 5)%nat.
Hypothesis Hpv5 : (1 <= pv <= 5)%nat.
Hypothesis Hpu : (pu < su)%nat.
Hypothesis Hpv : (pv < sv)%nat.
Hypothesis HLu : length Uu = (su + pu + 1)%nat.
Hypothesis HLv : length Uv = (sv + pv + 1)%nat.
Notation SKL u v order := (surface_derivs Rops dim pu pv Uu Uv su sv P u v order).
Let Hlku := ders_link_deg_le_5 pu Hpu5.
Let Hlkv := ders_link_deg_le_5 pv Hpv5.

Theorem surface_derivs_is_dN_tensor_deg_le_5 u v order k l :
  knR Uu pu <= u < knR Uu su -> knR Uv pv <= v < knR Uv sv -> (k <= order)%nat -> (l <= order)%nat ->
  length (get3 (SKL u v order) k l) = dim /\
  forall d, (d < dim)%nat -> nth d (get3 (SKL u v order) k l) 0 = surface_dkl Uu Uv pu pv su sv P k l d u v.
Proof. exact (surface_derivs_is_dN_tensor_of_link Uu Uv P pu pv su sv dim Husorted Hvsorted Hwf HLP Hlku Hlkv Hpu Hpv HLu HLv u v order k l). Qed.

Theorem surface_derivs_order0_is_point_deg_le_5 u v order d :
  knR Uu pu <= u < knR Uu su -> knR Uv pv <= v < knR Uv sv -> (d < dim)%nat ->
  nth d (get3 (SKL u v order) 0 0) 0 = nth d (surface_point Rops dim pu pv Uu Uv su sv P u v) 0.
Proof. exact (surface_derivs_order0_is_point_of_link Uu Uv P pu pv su sv dim Husorted Hvsorted Hwf HLP Hlku Hlkv Hpu Hpv HLu HLv u v order d). Qed.

Section Spans5.
Variables tu tv : nat.
Hypothesis Htu : (pu <= tu < su)%nat.
Hypothesis Htv : (pv <= tv < sv)%nat.

Theorem surface_derivs_partial_u_deg_le_5 order k l d u v : (S k <= order)%nat -> (l <= order)%nat -> (d < dim)%nat ->
  knR Uu tu < u < knR Uu (tu + 1) -> knR Uv pv <= v < knR Uv sv ->
  derivable_pt_lim (fun x => nth d (get3 (SKL x v order) k l) 0) u (nth d (get3 (SKL u v order) (S k) l) 0).
Proof. exact (surface_derivs_partial_u_of_link Uu Uv P pu pv su sv dim Husorted Hvsorted Hwf HLP Hlku Hlkv Hpu Hpv HLu HLv tu Htu order k l d u v). Qed.

Theorem surface_derivs_partial_v_deg_le_5 order k l d u v : (k <= order)%nat -> (S l <= order)%nat -> (d < dim)%nat ->
  knR Uu pu <= u < knR Uu su -> knR Uv tv < v < knR Uv (tv + 1) ->
  derivable_pt_lim (fun y => nth d (get3 (SKL u y order) k l) 0) v (nth d (get3 (SKL u v order) k (S l)) 0).
Proof. exact (surface_derivs_partial_v_of_link Uu Uv P pu pv su sv dim Husorted Hvsorted Hwf HLP Hlku Hlkv Hpu Hpv HLu HLv tv Htv order k l d u v). Qed.

Theorem surface_derivs_partial_u_right_deg_le_5 order k l d u v : (S k <= order)%nat -> (l <= order)%nat -> (d < dim)%nat ->
  knR Uu tu <= u < knR Uu (tu + 1) -> knR Uv pv <= v < knR Uv sv ->
  right_derivable_pt_lim (fun x => nth d (get3 (SKL x v order) k l) 0) u (nth d (get3 (SKL u v order) (S k) l) 0).
Proof. exact (surface_derivs_partial_u_right_of_link Uu Uv P pu pv su sv dim Husorted Hvsorted Hwf HLP Hlku Hlkv Hpu Hpv HLu HLv tu Htu order k l d u v). Qed.

Theorem surface_derivs_partial_v_right_deg_le_5 order k l d u v : (k <= order)%nat -> (S l <= order)%nat -> (d < dim)%nat ->
  knR Uu pu <= u < knR Uu su -> knR Uv tv <= v < knR Uv (tv + 1) ->
  right_derivable_pt_lim (fun y => nth d (get3 (SKL u y order) k l) 0) v (nth d (get3 (SKL u v order) k (S l)) 0).
Proof. exact (surface_derivs_partial_v_right_of_link Uu Uv P pu pv su sv dim Husorted Hvsorted Hwf HLP Hlku Hlkv Hpu Hpv HLu HLv tv Htv order k l d u v). Qed.

Theorem surface_derivs_are_mixed_partials_deg_le_5 order k l d : (k <= order)%nat -> (l <= order)%nat -> (d < dim)%nat ->
  (forall v, knR Uv pv <= v < knR Uv sv ->
     kth_deriv_on (knR Uu tu) (knR Uu (tu + 1)) k (fun x => surface_def Uu Uv pu pv su sv P d x v)
                  (fun x => nth d (get3 (SKL x v order) k 0) 0)) /\
  (forall u, knR Uu pu <= u < knR Uu su ->
     kth_deriv_on (knR Uv tv) (knR Uv (tv + 1)) l (fun y => nth d (get3 (SKL u y order) k 0) 0)
                  (fun y => nth d (get3 (SKL u y order) k l) 0)).
Proof. exact (surface_derivs_are_mixed_partials_of_link Uu Uv P pu pv su sv dim Husorted Hvsorted Hwf HLP Hlku Hlkv Hpu Hpv HLu HLv tu tv Htu Htv order k l d). Qed.

Theorem surface_tangents_are_partials_of_point_deg_le_5 order d u v : (1 <= order)%nat -> (d < dim)%nat ->
  knR Uu tu < u < knR Uu (tu + 1) -> knR Uv tv < v < knR Uv (tv + 1) ->
  derivable_pt_lim (fun x => nth d (surface_point Rops dim pu pv Uu Uv su sv P x v) 0) u (nth d (get3 (SKL u v order) 1 0) 0) /\
  derivable_pt_lim (fun y => nth d (surface_point Rops dim pu pv Uu Uv su sv P u y) 0) v (nth d (get3 (SKL u v order) 0 1) 0).
Proof. exact (surface_tangents_are_partials_of_point_of_link Uu Uv P pu pv su sv dim Husorted Hvsorted Hwf HLP Hlku Hlkv Hpu Hpv HLu HLv tu tv Htu Htv order d u v). Qed.
End Spans5.
End Deg5.

Check surface_dkl_du.
Check surface_dkl_dv.
Check surface_derivs_is_dN_tensor_deg_le_5.
Check surface_derivs_order0_is_point_deg_le_5.
Check surface_derivs_partial_u_deg_le_5.
Check surface_derivs_partial_v_deg_le_5.
Check surface_derivs_partial_u_right_deg_le_5.
Check surface_derivs_partial_v_right_deg_le_5.
Check surface_derivs_are_mixed_partials_deg_le_5.
Check surface_tangents_are_partials_of_point_deg_le_5.

Print Assumptions surface_derivs_is_dN_tensor_deg_le_5.
Print Assumptions surface_derivs_order0_is_point_deg_le_5.
Print Assumptions surface_derivs_partial_u_deg_le_5.
Print Assumptions surface_derivs_partial_v_deg_le_5.
Print Assumptions surface_derivs_partial_u_right_deg_le_5.
Print Assumptions surface_derivs_partial_v_right_deg_le_5.
Print Assumptions surface_derivs_are_mixed_partials_deg_le_5.
Print Assumptions surface_tangents_are_partials_of_point_deg_le_5.
