(* Positive definite matrices and Gram matrices N^T N: Doolittle (no pivoting) meets no zero pivot.
   - pd_elimination_step: one Gaussian elimination step keeps the trailing block positive definite (x^T M x > 0 for
     x <> 0; symmetry is not needed), the corner is > 0  ==>  pd_pivots_nonzero (via LinAlgSDD.doolittle_pivots_by_invariant);
   - LU_trivial_kernel / doolittle_trivial_kernel: a matrix with non-zero Doolittle pivots has a trivial kernel;
   - gram_pd / gram_pivots_nonzero: if N (any number of rows) has a trivial kernel then N^T N is positive definite, hence
     the Doolittle pivots of N^T N are non-zero. *)
From Coq Require Import List Reals Lra Lia Arith Bool.
From NV Require Import Scalar.Ops Model.Common Model.LinAlg Proofs.LinAlgSums Proofs.LinAlgR Proofs.LinAlgSolve Proofs.LinAlgSDD.
Import ListNotations.
Open Scope R_scope.

(* ------------------------------------------------------------------ sums *)
Lemma sumr_mul a n b m (f g : nat -> R) :
  sumR a n f * sumR b m g = sumR a n (fun i => sumR b m (fun j => f i * g j)).
Proof. rewrite <- sumr_scale_r. apply sumr_ext. intros i _. rewrite <- sumr_scale. reflexivity. Qed.
Lemma sumr_pos_one a n f i0 : (forall i, (a <= i < a + n)%nat -> 0 <= f i) -> (a <= i0 < a + n)%nat -> 0 < f i0 -> 0 < sumR a n f.
Proof.
  intros H Hi Hp. rewrite (sumr_pick a n i0) by exact Hi.
  assert (0 <= sumR a n (fun c => if Nat.eqb c i0 then 0 else f c)); [|lra].
  apply sumr_nonneg. intros c Hc. destruct (Nat.eqb c i0); [lra|apply H, Hc].
Qed.

(* ------------------------------------------------------------------ positive definite trailing blocks *)
Definition quad (n m : nat) (M : nat -> nat -> R) (x : nat -> R) : R :=
  sumR m (n - m) (fun r => sumR m (n - m) (fun c => x r * M r c * x c)).
Definition pd_from (n m : nat) (M : nat -> nat -> R) : Prop :=
  forall x, (exists i, (m <= i < n)%nat /\ x i <> 0) -> 0 < quad n m M x.

Lemma quad_ext n m M M' x x' : (forall r c, (m <= r < n)%nat -> (m <= c < n)%nat -> M r c = M' r c) ->
  (forall r, (m <= r < n)%nat -> x r = x' r) -> quad n m M x = quad n m M' x'.
Proof.
  intros EM Ex. unfold quad. apply sumr_ext. intros r Hr. apply sumr_ext. intros c Hc.
  rewrite EM, (Ex r), (Ex c) by lia. reflexivity.
Qed.
Lemma pd_from_ext n m M M' : (forall r c, (m <= r < n)%nat -> (m <= c < n)%nat -> M r c = M' r c) -> pd_from n m M -> pd_from n m M'.
Proof. intros E H x Hx. rewrite <- (quad_ext n m M M' x x E) by reflexivity. apply H, Hx. Qed.

(* split off row and column m *)
Lemma quad_split n m M x : (m < n)%nat ->
  quad n m M x = x m * M m m * x m + x m * sumR (S m) (n - S m) (fun c => M m c * x c)
                 + sumR (S m) (n - S m) (fun r => x r * M r m) * x m + quad n (S m) M x.
Proof.
  intros Hm. unfold quad. replace (n - m)%nat with (S (n - S m)) by lia.
  rewrite sumr_cons. rewrite sumr_cons.
  rewrite (sumr_ext (S m) (n - S m) (fun r => sumR m (S (n - S m)) (fun c => x r * M r c * x c))
             (fun r => x r * M r m * x m + sumR (S m) (n - S m) (fun c => x r * M r c * x c))).
  2:{ intros r _. rewrite sumr_cons. reflexivity. }
  rewrite sumr_plus.
  rewrite (sumr_ext (S m) (n - S m) (fun c => x m * M m c * x c) (fun c => x m * (M m c * x c))) by (intros; ring).
  rewrite sumr_scale.
  rewrite sumr_scale_r. ring.
Qed.
(* the quadratic form of the Schur complement *)
Lemma quad_schur n m M y : (m < n)%nat -> M m m <> 0 ->
  quad n (S m) (fun r c => M r c - M r m / M m m * M m c) y
  = quad n (S m) M y - sumR (S m) (n - S m) (fun r => y r * M r m) * sumR (S m) (n - S m) (fun c => M m c * y c) / M m m.
Proof.
  intros Hm Hd. unfold quad.
  rewrite (sumr_ext (S m) (n - S m) _ (fun r => sumR (S m) (n - S m) (fun c => y r * M r c * y c)
             - y r * M r m / M m m * sumR (S m) (n - S m) (fun c => M m c * y c))).
  2:{ intros r _. rewrite <- sumr_scale, <- sumr_minus. apply sumr_ext. intros c _. field. exact Hd. }
  rewrite sumr_minus. f_equal. rewrite sumr_scale_r.
  rewrite (sumr_ext (S m) (n - S m) (fun i => y i * M i m / M m m) (fun i => y i * M i m * / M m m)) by reflexivity.
  rewrite sumr_scale_r. unfold Rdiv. ring.
Qed.

(* [G] one elimination step: positive corner, and the trailing block stays positive definite *)
Theorem pd_elimination_step n m M : (m < n)%nat -> pd_from n m M ->
  M m m <> 0 /\ pd_from n (S m) (fun r c => M r c - M r m / M m m * M m c).
Proof.
  intros Hm H.
  assert (Hd : 0 < M m m).
  { pose proof (H (fun i => if Nat.eqb i m then 1 else 0)) as P.
    rewrite quad_split in P by exact Hm. rewrite Nat.eqb_refl in P.
    rewrite (sumr_zero (S m)) in P by (intros c Hc; destruct (Nat.eqb_spec c m); [lia|ring]).
    rewrite (sumr_zero (S m)) in P by (intros c Hc; destruct (Nat.eqb_spec c m); [lia|ring]).
    unfold quad in P. rewrite (sumr_zero (S m)) in P.
    2:{ intros r Hr. apply sumr_zero. intros c Hc. destruct (Nat.eqb_spec r m); [lia|ring]. }
    assert (0 < 1 * M m m * 1 + 1 * 0 + 0 * 1 + 0); [|lra].
    apply P. exists m. split; [lia|]. rewrite Nat.eqb_refl. lra. }
  split; [lra|].
  intros y (i & Hi & Hyi).
  set (a := sumR (S m) (n - S m) (fun c => M m c * y c)).
  set (x := fun r => if Nat.eqb r m then - a / M m m else y r).
  assert (Ex : forall r, (S m <= r < n)%nat -> x r = y r).
  { intros r Hr. unfold x. destruct (Nat.eqb_spec r m); [lia|reflexivity]. }
  pose proof (H x) as P. rewrite quad_split in P by exact Hm.
  rewrite (sumr_ext (S m) (n - S m) (fun c => M m c * x c) (fun c => M m c * y c)) in P by (intros c Hc; rewrite Ex by lia; reflexivity).
  rewrite (sumr_ext (S m) (n - S m) (fun r => x r * M r m) (fun r => y r * M r m)) in P by (intros r Hr; rewrite Ex by lia; reflexivity).
  rewrite (quad_ext n (S m) M M x y) in P by (try reflexivity; exact Ex).
  fold a in P. rewrite quad_schur by (try exact Hm; lra). fold a.
  assert (Exm : x m = - a / M m m) by (unfold x; rewrite Nat.eqb_refl; reflexivity). rewrite Exm in P.
  assert (Pp : 0 < - a / M m m * M m m * (- a / M m m) + - a / M m m * a
            + sumR (S m) (n - S m) (fun r => y r * M r m) * (- a / M m m) + quad n (S m) M y).
  { apply P. exists i. split; [lia|]. rewrite Ex by lia. exact Hyi. }
  replace (quad n (S m) M y - sumR (S m) (n - S m) (fun r => y r * M r m) * a / M m m)
    with (- a / M m m * M m m * (- a / M m m) + - a / M m m * a
            + sumR (S m) (n - S m) (fun r => y r * M r m) * (- a / M m m) + quad n (S m) M y) by (field; lra).
  exact Pp.
Qed.

(* [G] every size: a positive definite (not necessarily symmetric) matrix has only non-zero Doolittle pivots *)
Theorem pd_pivots_nonzero A : pd_from (length A) 0 (g2 A) -> forall i, (i < length A)%nat -> g2 (snd (doolittle Rops A)) i i <> 0.
Proof.
  apply (doolittle_pivots_by_invariant A (pd_from (length A))).
  - intros m M M'. apply pd_from_ext.
  - intros m M. apply pd_elimination_step.
Qed.
Print Assumptions pd_pivots_nonzero.

(* ------------------------------------------------------------------ L U = A with non-zero pivots: trivial kernel *)
Theorem LU_trivial_kernel n (Lf Uf Af : nat -> nat -> R) (x : nat -> R) :
  (forall i j, (i < n)%nat -> (j < n)%nat -> (i < j)%nat -> Lf i j = 0) ->
  (forall i, (i < n)%nat -> Lf i i = 1) ->
  (forall i j, (i < n)%nat -> (j < n)%nat -> (j < i)%nat -> Uf i j = 0) ->
  (forall i, (i < n)%nat -> Uf i i <> 0) ->
  (forall r c, (r < n)%nat -> (c < n)%nat -> sumR 0 n (fun j => Lf r j * Uf j c) = Af r c) ->
  (forall r, (r < n)%nat -> sumR 0 n (fun c => Af r c * x c) = 0) -> forall c, (c < n)%nat -> x c = 0.
Proof.
  intros HL0 HL1 HU0 HUd HLU HK.
  set (y := fun j => sumR 0 n (fun c => Uf j c * x c)).
  assert (EA : forall r, (r < n)%nat -> sumR 0 n (fun c => Af r c * x c) = sumR 0 n (fun j => Lf r j * y j)).
  { intros r Hr. rewrite (sumr_ext 0 n _ (fun c => sumR 0 n (fun j => Lf r j * (Uf j c * x c)))).
    2:{ intros c Hc. rewrite <- (HLU r c) by lia. rewrite <- sumr_scale_r. apply sumr_ext. intros j _. ring. }
    rewrite sumr_swap. apply sumr_ext. intros j _. unfold y. rewrite sumr_scale. reflexivity. }
  (* forward substitution *)
  assert (Y : forall r, (r < n)%nat -> y r = 0).
  { intros r. induction r as [r IH] using lt_wf_ind. intros Hr.
    pose proof (HK r Hr) as E. rewrite (EA r Hr) in E.
    replace n with (r + S (n - S r))%nat in E at 1 by lia. rewrite sumr_split, sumr_cons in E. cbn [Nat.add] in E.
    rewrite (sumr_zero 0 r) in E by (intros j Hj; rewrite IH by lia; ring).
    rewrite (sumr_zero (S r)) in E by (intros j Hj; rewrite HL0 by lia; ring).
    rewrite HL1 in E by exact Hr. lra. }
  (* back substitution *)
  assert (X : forall d c, (c < n)%nat -> (n - 1 - c = d)%nat -> x c = 0).
  { intros d. induction d as [d IH] using lt_wf_ind. intros c Hc Hd.
    pose proof (Y c Hc) as E. unfold y in E.
    replace n with (c + S (n - S c))%nat in E at 1 by lia. rewrite sumr_split, sumr_cons in E. cbn [Nat.add] in E.
    rewrite (sumr_zero 0 c) in E by (intros j Hj; rewrite HU0 by lia; ring).
    rewrite (sumr_zero (S c)) in E by (intros j Hj; rewrite (IH (n - 1 - j)%nat) by lia; ring).
    assert (Uf c c * x c = 0) by lra. destruct (Rmult_integral _ _ H) as [Z|Z]; [exfalso; apply (HUd c Hc Z)|exact Z]. }
  intros c Hc. apply (X (n - 1 - c)%nat c Hc eq_refl).
Qed.

(* [G] on the model: non-zero Doolittle pivots  ==>  A x = 0 only for x = 0 *)
Theorem doolittle_trivial_kernel A (x : nat -> R) : (forall i, (i < length A)%nat -> g2 (snd (doolittle Rops A)) i i <> 0) ->
  (forall r, (r < length A)%nat -> sumR 0 (length A) (fun c => g2 A r c * x c) = 0) -> forall c, (c < length A)%nat -> x c = 0.
Proof.
  intros Hp HK. destruct (doolittle_LU_entries A Hp) as (H1 & H2 & H3 & H4).
  apply (LU_trivial_kernel (length A) (g2 (Lm A)) (g2 (Um A)) (g2 A) x H1 H2 H3 Hp H4 HK).
Qed.
Print Assumptions doolittle_trivial_kernel.

(* ------------------------------------------------------------------ Gram matrices *)
Section Gram.
Variables (rows n : nat) (Nf : nat -> nat -> R).
Definition gram (j k : nat) : R := sumR 0 rows (fun i => Nf i j * Nf i k).

Lemma gram_quad x : quad n 0 gram x = sumR 0 rows (fun i => sumR 0 n (fun j => Nf i j * x j) * sumR 0 n (fun j => Nf i j * x j)).
Proof.
  unfold quad, gram. rewrite Nat.sub_0_r.
  transitivity (sumR 0 n (fun r => sumR 0 n (fun c => sumR 0 rows (fun i => (Nf i r * x r) * (Nf i c * x c))))).
  - apply sumr_ext. intros r _. apply sumr_ext. intros c _.
    rewrite <- sumr_scale, <- sumr_scale_r. apply sumr_ext. intros i _. ring.
  - symmetry.
    transitivity (sumR 0 rows (fun i => sumR 0 n (fun r => sumR 0 n (fun c => (Nf i r * x r) * (Nf i c * x c))))).
    + apply sumr_ext. intros i _. apply sumr_mul.
    + rewrite sumr_swap. apply sumr_ext. intros r _. rewrite sumr_swap. reflexivity.
Qed.

(* [G] trivial kernel of N  ==>  N^T N positive definite *)
Theorem gram_pd : (forall x, (forall i, (i < rows)%nat -> sumR 0 n (fun j => Nf i j * x j) = 0) -> forall j, (j < n)%nat -> x j = 0) ->
  pd_from n 0 gram.
Proof.
  intros HK x (j0 & Hj0 & Hx). rewrite gram_quad.
  destruct (Rlt_dec 0 (sumR 0 rows (fun i => sumR 0 n (fun j => Nf i j * x j) * sumR 0 n (fun j => Nf i j * x j)))) as [Hpos|Hn]; [exact Hpos|].
  exfalso. apply Hx. apply HK; [|lia]. intros i Hi.
  destruct (Req_dec (sumR 0 n (fun j => Nf i j * x j)) 0) as [E|Hne]; [exact E|]. exfalso. apply Hn.
  apply (sumr_pos_one 0 rows _ i); [intros; apply Rle_0_sqr|lia|].
  set (s := sumR 0 n (fun j => Nf i j * x j)) in *.
  destruct (Rlt_dec 0 s); [apply Rmult_lt_0_compat; lra|]. replace (s * s) with ((- s) * (- s)) by ring. apply Rmult_lt_0_compat; lra.
Qed.
End Gram.

(* [G] on the model: for a rows x n matrix Nm with trivial kernel the Doolittle pivots of Nm^T Nm are non-zero *)
Theorem gram_pivots_nonzero (Nm : list (list R)) rows n : rect rows n Nm -> (0 < rows)%nat -> (0 < n)%nat ->
  (forall x, (forall i, (i < rows)%nat -> sumR 0 n (fun j => g2 Nm i j * x j) = 0) -> forall j, (j < n)%nat -> x j = 0) ->
  forall i, (i < n)%nat -> g2 (snd (doolittle Rops (mmul Rops (transpose Rops Nm) Nm))) i i <> 0.
Proof.
  intros HR Hr Hn HK.
  set (G := mmul Rops (transpose Rops Nm) Nm).
  assert (Ht : rect n rows (transpose Rops Nm)) by (apply transpose_rect; assumption).
  assert (LG : length G = n).
  { unfold G. pose proof (mmul_rect (transpose Rops Nm) Nm) as H. destruct Ht as [H1 _]. rewrite H1 in H. apply H. }
  assert (EG : forall j k, (j < n)%nat -> (k < n)%nat -> g2 G j k = gram rows (g2 Nm) j k).
  { intros j k Hj Hk. unfold G, gram. destruct Ht as [H1 H1']. destruct HR as [H2 H2'].
    rewrite mmul_entry by (rewrite ?H1, ?(rect_hd rows n Nm (conj H2 H2')); lia). rewrite H2.
    apply sumr_ext. intros i Hi. rewrite (transpose_entry rows n) by (try exact (conj H2 H2'); lia). reflexivity. }
  rewrite <- LG. apply pd_pivots_nonzero. rewrite LG.
  apply (pd_from_ext n 0 (gram rows (g2 Nm))); [intros r c Hr' Hc'; symmetry; apply EG; lia|].
  apply gram_pd. exact HK.
Qed.
Print Assumptions gram_pivots_nonzero.
