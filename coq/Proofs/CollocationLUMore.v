(* Further consequences of Proofs/CollocationLU.v: the collocation matrix is square; surface interpolation (A9.4)
   with strictly increasing parameter lists in both directions needs no hypothesis on spans or pivots. *)
From Coq Require Import List Reals Lra Lia Arith Bool.
From NV Require Import Scalar.Ops Model.Common Model.Basis Model.Knots Model.Eval Model.LinAlg Model.Fit
  Proofs.Boehm Proofs.BasisR Proofs.KnotsR Proofs.EvalR Proofs.LinAlgSums Proofs.LinAlgR Proofs.LinAlgSolve
  Proofs.FitR Proofs.FitSurfR Proofs.CollocationLU.
Import ListNotations.
Open Scope R_scope.

(* the parameter list of an interpolation: 0 = u_0 < u_1 < .. < u_{n-1} = 1 *)
Definition increasing_params (n : nat) (uk : list R) : Prop :=
  length uk = n /\ nth 0 uk 0 = 0 /\ nth (n - 1) uk 0 = 1 /\ forall i, (S i < n)%nat -> nth i uk 0 < nth (S i) uk 0.

Lemma collocation_spans p n uk : (1 <= p < n)%nat -> increasing_params n uk ->
  forall i, (i < n)%nat -> (p <= find_span_linear Rops p (compute_knot_vector Rops p n uk) n (nth i uk 0%R) < n)%nat.
Proof. intros Hp (HL & H0 & H1 & Hinc) i Hi. exact (proj1 (span_spec p n uk Hp HL H0 H1 Hinc i Hi)). Qed.

Lemma collocation_is_square p n uk : (1 <= p < n)%nat -> increasing_params n uk ->
  is_square (build_coeff_matrix Rops p (compute_knot_vector Rops p n uk) uk n) = true /\
  length (build_coeff_matrix Rops p (compute_knot_vector Rops p n uk) uk n) = n.
Proof.
  intros Hp Hinc.
  assert (LA : length (build_coeff_matrix Rops p (compute_knot_vector Rops p n uk) uk n) = n) by exact (cA_length p n uk).
  split; [|exact LA].
  unfold is_square. apply forallb_forall. intros row Hin. destruct (In_nth _ _ [] Hin) as [i [Hi <-]].
  rewrite LA in *. rewrite A_row by exact Hi. rewrite coeff_row_length by (apply collocation_spans; assumption). apply Nat.eqb_refl.
Qed.

(* [G] surface interpolation core (both passes of A9.4) with averaged knot vectors: no span / pivot hypotheses *)
Theorem interp_surface_core_averaged_conditions :
  forall (pu pv su sv dim : nat) (uk vl : list R) (pts : list (list R)),
  (1 <= pu < su)%nat -> (1 <= pv < sv)%nat -> increasing_params su uk -> increasing_params sv vl ->
  rect (su * sv) dim pts ->
  let kvu := compute_knot_vector Rops pu su uk in let kvv := compute_knot_vector Rops pv sv vl in
  exists P, interp_surface_core Rops pu pv kvu kvv uk vl su sv pts = Ok P /\ length P = (su * sv)%nat /\
    forall u v d, (u < su)%nat -> (v < sv)%nat -> (d < dim)%nat ->
      nth d (surface_point Rops dim pu pv kvu kvv su sv P (nth u uk 0) (nth v vl 0)) 0 = g2 pts (v + sv * u) d.
Proof.
  intros pu pv su sv dim uk vl pts Hpu Hpv Iu Iv Hpts kvu kvv.
  apply interp_surface_core_conditions; try lia; try assumption.
  - apply collocation_spans; assumption.
  - apply collocation_spans; assumption.
  - destruct Iu as (HL & H0 & H1 & Hinc). apply collocation_pivots_nonzero; assumption.
  - destruct Iv as (HL & H0 & H1 & Hinc). apply collocation_pivots_nonzero; assumption.
Qed.
Print Assumptions interp_surface_core_averaged_conditions.

(* [G] interpolate_surface: whenever the averaged surface parameters are strictly increasing in both directions
   (e.g. a grid whose rows and columns have distinct consecutive points), the surface is returned and interpolates *)
Theorem interpolate_surface_interpolates :
  forall (pts : list (list R)) (su sv pu pv dim : nat) (cdsU cdsV : list (list R)) (uk vl : list R),
  (1 <= pu < su)%nat -> (1 <= pv < sv)%nat -> rect (su * sv) dim pts ->
  compute_params_surface Rops su sv cdsU cdsV = Ok (uk, vl) ->
  increasing_params su uk -> increasing_params sv vl ->
  let kvu := compute_knot_vector Rops pu su uk in let kvv := compute_knot_vector Rops pv sv vl in
  exists P, interpolate_surface Rops pts su sv pu pv cdsU cdsV = Ok (P, kvu, kvv) /\ length P = (su * sv)%nat /\
    forall u v d, (u < su)%nat -> (v < sv)%nat -> (d < dim)%nat ->
      nth d (surface_point Rops dim pu pv kvu kvv su sv P (nth u uk 0) (nth v vl 0)) 0 = g2 pts (v + sv * u) d.
Proof.
  intros pts su sv pu pv dim cdsU cdsV uk vl Hpu Hpv Hpts Hpar Iu Iv kvu kvv.
  destruct (interp_surface_core_averaged_conditions pu pv su sv dim uk vl pts Hpu Hpv Iu Iv Hpts) as (P & EP & LP & HP).
  exists P. split; [|split; [exact LP|exact HP]].
  unfold interpolate_surface. rewrite Hpar. cbn [res_bind fst snd]. unfold kvu, kvv. rewrite EP. reflexivity.
Qed.
Print Assumptions interpolate_surface_interpolates.
