(* C02, the tangent / normal queries (operations.tangent, operations.normal; Model.Derivs.tangent_curve, tangent_surface,
   normal_surface) return the TRUE first derivatives of the evaluated point, rational or not:
     - the curve tangent is the derivative of  x |-> evaluate_single(x);
     - the two surface tangents are the partial derivatives of  (x,y) |-> evaluate_single(x,y);
     - the surface normal is the cross product of these two partial-derivative vectors.
   [B: degrees 1..5 (per direction)], default evaluators, u (and v) strictly inside a knot span, positive weights for NURBS. *)
From Coq Require Import List Reals Lra Lia Arith Bool.
From NV Require Import Scalar.Ops Model.Common Model.Basis Model.Knots Model.Eval Model.Degree Model.Derivs
  Proofs.Boehm Proofs.BasisR Proofs.DerivAnalytic Proofs.EvalR Proofs.DerivLink Proofs.DerivLinkCurve Proofs.DerivsR
  Proofs.LeibnizRule Proofs.DerivLinkAbs Proofs.DerivRational Proofs.DerivSurface Proofs.DerivRationalSurface.
Import ListNotations.
Open Scope R_scope.

(* ---- curves ---- *)
Theorem tangent_curve_is_derivative_of_point_deg_le_5 (U : list R) (P : list (list R)) (p dim : nat) :
  sortedR U -> wf_net P dim -> (1 <= p <= 5)%nat -> (p < length P)%nat -> length U = (length P + p + 1)%nat ->
  forall s, (p <= s < length P)%nat -> forall normalize u pt T d,
  tangent_curve Rops normalize false false dim p U P u = Ok (pt, T) -> (d < dim)%nat -> knR U s < u < knR U (s + 1) ->
  derivable_pt_lim (fun x => nth d (obj_curve_point Rops false dim p U P x) 0) u (nth d T 0).
Proof.
  intros Hs Hwf Hp5 Hp HL s Hsp normalize u pt T d E Hd Hu.
  unfold tangent_curve, Curve_derivatives in E. destruct (andb normalize _); [discriminate|]. cbn [res_map] in E.
  injection E as _ <-.
  exact (curve_tangent_is_derivative_deg_le_5 U P p dim Hs Hwf Hp5 Hp HL s Hsp 1 d u ltac:(lia) Hd Hu).
Qed.

Theorem rat_tangent_curve_is_derivative_of_point_deg_le_5 (U : list R) (Pw : list (list R)) (p dim : nat) :
  sortedR U -> wf_net Pw (S dim) -> (1 <= p <= 5)%nat -> (p < length Pw)%nat -> length U = (length Pw + p + 1)%nat ->
  (forall i, (i < length Pw)%nat -> 0 < coord Pw i dim) ->
  forall s, (p <= s < length Pw)%nat -> forall normalize u pt T d,
  tangent_curve Rops normalize true false (S dim) p U Pw u = Ok (pt, T) -> (d < dim)%nat -> knR U s < u < knR U (s + 1) ->
  derivable_pt_lim (fun x => nth d (obj_curve_point Rops true dim p U Pw x) 0) u (nth d T 0).
Proof.
  intros Hs Hwf Hp5 Hp HL Hpos s Hsp normalize u pt T d E Hd Hu.
  unfold tangent_curve, Curve_derivatives in E. destruct (andb normalize _); [discriminate|]. cbn [res_map] in E.
  injection E as _ <-.
  exact (rat_curve_tangent_is_derivative_of_point_deg_le_5 U Pw p dim Hs Hwf Hp5 Hp HL Hpos 1 s Hsp d u ltac:(lia) Hd Hu).
Qed.

(* ---- surfaces ---- *)
Section Surf.
Variables (Uu Uv : list R) (pu pv su sv : nat).
Hypothesis Husorted : sortedR Uu.
Hypothesis Hvsorted : sortedR Uv.
Hypothesis Hpu5 : (1 <= pu <= 5)%nat.
Hypothesis Hpv5 : (1 <= pv <= 5)%nat.
Hypothesis Hpu : (pu < su)%nat.
Hypothesis Hpv : (pv < sv)%nat.
Hypothesis HLu : length Uu = (su + pu + 1)%nat.
Hypothesis HLv : length Uv = (sv + pv + 1)%nat.
Variables tu tv : nat.
Hypothesis Htu : (pu <= tu < su)%nat.
Hypothesis Htv : (pv <= tv < sv)%nat.

Theorem tangent_surface_is_partials_of_point_deg_le_5 (P : list (list R)) (dim : nat) :
  wf_net P dim -> length P = (su * sv)%nat ->
  forall normalize u v pt Su Sv d,
  tangent_surface Rops normalize false false dim pu pv Uu Uv su sv P u v = Ok (pt, Su, Sv) -> (d < dim)%nat ->
  knR Uu tu < u < knR Uu (tu + 1) -> knR Uv tv < v < knR Uv (tv + 1) ->
  derivable_pt_lim (fun x => nth d (obj_surface_point Rops false dim pu pv Uu Uv su sv P (x, v)) 0) u (nth d Su 0) /\
  derivable_pt_lim (fun y => nth d (obj_surface_point Rops false dim pu pv Uu Uv su sv P (u, y)) 0) v (nth d Sv 0).
Proof.
  intros Hwf HLP normalize u v pt Su Sv d E Hd Hu Hv.
  unfold tangent_surface, Surface_derivatives in E. destruct (andb normalize _); [discriminate|]. cbn [res_map] in E.
  injection E as _ <- <-.
  exact (surface_tangents_are_partials_of_point_deg_le_5 Uu Uv P pu pv su sv dim Husorted Hvsorted Hwf HLP Hpu5 Hpv5 Hpu Hpv HLu HLv
           tu tv Htu Htv 1 d u v ltac:(lia) Hd Hu Hv).
Qed.

Theorem rat_tangent_surface_is_partials_of_point_deg_le_5 (Pw : list (list R)) (dim : nat) :
  wf_net Pw (S dim) -> length Pw = (su * sv)%nat -> (forall i, (i < su * sv)%nat -> 0 < coord Pw i dim) ->
  forall normalize u v pt Su Sv d,
  tangent_surface Rops normalize true false (S dim) pu pv Uu Uv su sv Pw u v = Ok (pt, Su, Sv) -> (d < dim)%nat ->
  knR Uu tu < u < knR Uu (tu + 1) -> knR Uv tv < v < knR Uv (tv + 1) ->
  derivable_pt_lim (fun x => nth d (obj_surface_point Rops true dim pu pv Uu Uv su sv Pw (x, v)) 0) u (nth d Su 0) /\
  derivable_pt_lim (fun y => nth d (obj_surface_point Rops true dim pu pv Uu Uv su sv Pw (u, y)) 0) v (nth d Sv 0).
Proof.
  intros Hwf HLP Hpos normalize u v pt Su Sv d E Hd Hu Hv.
  unfold tangent_surface, Surface_derivatives in E. destruct (andb normalize _); [discriminate|]. cbn [res_map] in E.
  injection E as _ <- <-.
  exact (rat_surface_tangents_are_partials_of_point_deg_le_5 Uu Uv Pw pu pv su sv dim Husorted Hvsorted Hwf HLP Hpu5 Hpv5 Hpu Hpv HLu HLv
           Hpos 1 tu tv Htu Htv d u v ltac:(lia) Hd Hu Hv).
Qed.

(* the normal: cross product of the two true partial-derivative vectors (rational = false / true) *)
Theorem normal_surface_is_cross_of_true_partials_deg_le_5 (rational : bool) (Pw : list (list R)) (dim : nat) :
  let D := if rational then S dim else dim in
  wf_net Pw D -> length Pw = (su * sv)%nat -> (rational = true -> forall i, (i < su * sv)%nat -> 0 < coord Pw i dim) ->
  forall normalize u v pt nv,
  normal_surface Rops normalize rational false D pu pv Uu Uv su sv Pw u v = Ok (pt, nv) ->
  knR Uu tu < u < knR Uu (tu + 1) -> knR Uv tv < v < knR Uv (tv + 1) ->
  exists Su Sv, nv = cross Rops Su Sv /\ forall d, (d < dim)%nat ->
    derivable_pt_lim (fun x => nth d (obj_surface_point Rops rational dim pu pv Uu Uv su sv Pw (x, v)) 0) u (nth d Su 0) /\
    derivable_pt_lim (fun y => nth d (obj_surface_point Rops rational dim pu pv Uu Uv su sv Pw (u, y)) 0) v (nth d Sv 0).
Proof.
  intros D Hwf HLP Hpos normalize u v pt nv E Hu Hv.
  destruct (normal_orthogonal_to_tangents normalize rational false D pu pv Uu Uv su sv Pw u v pt nv E) as (Su & Sv & ET & Env & _).
  exists Su, Sv. split; [exact Env|]. intros d Hd. subst D. destruct rational.
  - exact (rat_tangent_surface_is_partials_of_point_deg_le_5 Pw dim Hwf HLP (Hpos eq_refl) normalize u v pt Su Sv d ET Hd Hu Hv).
  - exact (tangent_surface_is_partials_of_point_deg_le_5 Pw dim Hwf HLP normalize u v pt Su Sv d ET Hd Hu Hv).
Qed.
End Surf.

Check tangent_curve_is_derivative_of_point_deg_le_5.
Check rat_tangent_curve_is_derivative_of_point_deg_le_5.
Check tangent_surface_is_partials_of_point_deg_le_5.
Check rat_tangent_surface_is_partials_of_point_deg_le_5.
Check normal_surface_is_cross_of_true_partials_deg_le_5.
Print Assumptions tangent_curve_is_derivative_of_point_deg_le_5.
Print Assumptions rat_tangent_curve_is_derivative_of_point_deg_le_5.
Print Assumptions tangent_surface_is_partials_of_point_deg_le_5.
Print Assumptions rat_tangent_surface_is_partials_of_point_deg_le_5.
Print Assumptions normal_surface_is_cross_of_true_partials_deg_le_5.
