(* Bridges from DersGeneral.v to BasisOneR.v:
   - the two copies of the Eq. 2.9 specification (DerivAnalytic.dN and BasisOneR.dN) are the same function;
   - helpers.basis_function_ders (A2.3, all non-vanishing functions at once) and helpers.basis_function_ders_one
     (A2.5, one function) return the same derivative values: all degrees, sorted knots, orders <= degree. *)
From Coq Require Import List Reals Lra Lia Arith Bool.
From NV Require Import Scalar.Ops Model.Common Model.Basis Proofs.Boehm Proofs.BasisR
                       Proofs.DerivAnalytic Proofs.BasisOneR Proofs.DersGeneral.
Import ListNotations.
Open Scope R_scope.

Lemma dN_bridge (V : nat -> R) k : forall p i u, DerivAnalytic.dN V k p i u = BasisOneR.dN V k p i u.
Proof.
  induction k as [|k IH]; intros p i u; [reflexivity|].
  destruct p as [|q]; [reflexivity|].
  rewrite DerivAnalytic.dN_SS, BasisOneR.dN_SS, !IH. reflexivity.
Qed.

Theorem ders_general_one_spec (U : list R) (span p : nat) u order k r :
  sortedR U -> (p <= span)%nat -> (span + p < length U)%nat -> (span + 1 < length U)%nat ->
  knR U span <= u < knR U (span + 1) -> (order <= p)%nat -> (k <= order)%nat -> (r <= p)%nat ->
  nth r (nth k (basis_function_ders Rops p U span u order) []) 0 = BasisOneR.dN (Ufun U) k p (span - p + r) u.
Proof. intros. rewrite <- dN_bridge. apply ders_general; assumption. Qed.

(* A2.3 = A2.5 *)
Theorem ders_agrees_with_ders_one (U : list R) (span p : nat) u order k r :
  sortedR U -> (p <= span)%nat -> (span + p + 1 < length U)%nat ->
  knR U span <= u < knR U (span + 1) -> (order <= p)%nat -> (k <= order)%nat -> (r <= p)%nat ->
  nth r (nth k (basis_function_ders Rops p U span u order) []) 0
  = nth k (basis_function_ders_one Rops p U (span - p + r) u order) 0.
Proof.
  intros Hs Hp HL Hu Ho Hk Hr.
  rewrite ders_general_one_spec by (try assumption; lia).
  symmetry. apply ders_one_is_dN; try assumption; lia.
Qed.

Print Assumptions ders_agrees_with_ders_one.
