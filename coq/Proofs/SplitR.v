(* Theorems about Model.Split at the real-number instance: rejection at the domain ends, structure of the two
   pieces of a split (knot vectors, nets, sizes, shared junction point, clamping of the new ends), shape of the
   decomposition loop. *)
From Coq Require Import List Reals Lra Lia Arith Bool ZArith.
From NV Require Import Scalar.Ops Model.Common Model.Basis Model.Knots Model.KnotIns Model.InsertKnot Model.Split
  Proofs.BasisR Proofs.KnotsR Proofs.KnotInsR.
Import ListNotations.
Open Scope R_scope.

Lemma last_nth_gen {A} (l : list A) d : last l d = nth (length l - 1) l d.
Proof.
  induction l as [|a l IH]; [reflexivity|]. destruct l as [|b l]; [reflexivity|].
  change (last (a :: b :: l) d) with (last (b :: l) d). rewrite IH. cbn [length].
  rewrite !Nat.sub_succ, !Nat.sub_0_r. reflexivity.
Qed.

Lemma map_repeat_gen {A B} (f : A -> B) (a : A) n : map f (repeat a n) = repeat (f a) n.
Proof. induction n as [|n IH]; cbn; [reflexivity|]. f_equal. exact IH. Qed.

Lemma oeqb_refl (x : R) : oeqb Rops x x = true.
Proof. unfold oeqb. cbn [oleb Rops]. unfold Rleb. destruct (Rle_dec x x); [reflexivity|lra]. Qed.

Lemma oeqb_true (x y : R) : oeqb Rops x y = true <-> x = y.
Proof.
  unfold oeqb. cbn [oleb Rops]. unfold Rleb.
  destruct (Rle_dec x y), (Rle_dec y x); cbn [andb]; split; intros H; try discriminate; try lra; reflexivity.
Qed.

Lemma at_domain_end_spec p U param :
  at_domain_end Rops p U param = true <-> (param = knR U p \/ param = knR U (length U - S p)).
Proof. unfold at_domain_end. rewrite orb_true_iff, !oeqb_true. reflexivity. Qed.

(* ---------------------------------------------------------------- rejection at the domain ends *)
Theorem split_curve_rejects_ends tol (c : curve) param :
  param = knR (c_U c) (c_p c) \/ param = knR (c_U c) (length (c_U c) - S (c_p c)) ->
  split_curve Rops tol c param = Rejected.
Proof. intros H. unfold split_curve. apply at_domain_end_spec in H. rewrite H. reflexivity. Qed.

Theorem split_surface_u_rejects_ends tol (g : surf) param :
  param = knR (s_Uu g) (s_pu g) \/ param = knR (s_Uu g) (length (s_Uu g) - S (s_pu g)) ->
  split_surface_u Rops tol g param = Rejected.
Proof. intros H. unfold split_surface_u. apply at_domain_end_spec in H. rewrite H. reflexivity. Qed.

Theorem split_surface_v_rejects_ends tol (g : surf) param :
  param = knR (s_Uv g) (s_pv g) \/ param = knR (s_Uv g) (length (s_Uv g) - S (s_pv g)) ->
  split_surface_v Rops tol g param = Rejected.
Proof. intros H. unfold split_surface_v. apply at_domain_end_spec in H. rewrite H. reflexivity. Qed.

(* a successful split was not at a domain end *)
Lemma split_curve_ok_interior tol (c : curve) param x :
  split_curve Rops tol c param = Ok x ->
  param <> knR (c_U c) (c_p c) /\ param <> knR (c_U c) (length (c_U c) - S (c_p c)).
Proof.
  intros H. split; intro E; rewrite split_curve_rejects_ends in H by (first [left; exact E | right; exact E]); discriminate.
Qed.

(* ---------------------------------------------------------------- the knot-vector setter of a piece *)
Lemma set_kv_ok p kv n k : set_kv Rops p kv n = Ok k ->
  length kv = S (p + n) /\ (exists f r, kv = f :: r /\ nondecr f r) /\ normalize Rops kv = Ok k.
Proof.
  unfold set_kv. destruct kv as [|f r]; [cbn; discriminate|].
  destruct (check Rops p (f :: r) n) as [[|]| |] eqn:E; try discriminate.
  intros H. apply check_spec in E. destruct E as [E1 E2]. split; [exact E1|]. split; [|exact H].
  exists f, r. split; [reflexivity|exact E2].
Qed.

Lemma normalize_map (kv : list R) k : normalize Rops kv = Ok k ->
  exists f, nth 0 kv 0 = f /\ k = map (fun x => (x - f) / (last kv f - f)) kv.
Proof.
  destruct kv as [|f r]; [cbn; discriminate|]. rewrite normalize_affine. intros H. inversion H. exists f. split; reflexivity.
Qed.

(* ---------------------------------------------------------------- structure of a curve split *)
Section SplitCurve.
Variables (tol : R) (c c1 c2 : @curve R) (param : R).
Hypothesis Hok : split_curve Rops tol c param = Ok (c1, c2).

Let p := c_p c.
Let s := find_multiplicity Rops tol param (c_U c).
Let r := (p - s)%nat.
Let ks := split_ks Rops p (c_U c) (length (c_P c)) param.
(* the refined curve: operations.insert_knot(temp_obj, [param], [r], check_num=False) *)
Let tc := fst (insert_knot_curve Rops tol false c [Some param] [Z.of_nat r]).
Let kspan := S (find_span_linear Rops p (c_U tc) (length (c_P tc)) param).
Let kv1 := firstn kspan (c_U tc) ++ [param].
Let kv2 := repeat param (S p) ++ skipn kspan (c_U tc).

Lemma split_curve_unfold :
  set_kv Rops p kv1 (length (firstn (ks + r) (c_P tc))) = Ok (c_U c1) /\
  set_kv Rops p kv2 (length (skipn (ks + r - 1) (c_P tc))) = Ok (c_U c2) /\
  c1 = mkC p (c_U c1) (firstn (ks + r) (c_P tc)) /\ c2 = mkC p (c_U c2) (skipn (ks + r - 1) (c_P tc)).
Proof.
  pose proof Hok as H. unfold split_curve in H.
  destruct (at_domain_end Rops (c_p c) (c_U c) param); [discriminate|].
  cbv zeta in H. fold p s r ks tc in H.
  unfold split_knots in H. cbn [fst snd] in H. fold kspan kv1 kv2 in H.
  destruct (set_kv Rops p kv1 _) as [k1| |] eqn:E1; cbn [res_bind] in H; try discriminate.
  destruct (set_kv Rops p kv2 _) as [k2| |] eqn:E2; cbn [res_bind] in H; try discriminate.
  inversion H; subst c1 c2. cbn [c_U c_P c_p]. repeat split; reflexivity.
Qed.

(* degrees, nets (prefix of ks+r points / suffix from ks+r-1), knot vectors (normalised slices of the refined knot vector) *)
Theorem split_curve_structure :
  c_p c1 = p /\ c_p c2 = p /\
  c_P c1 = firstn (ks + r) (c_P tc) /\ c_P c2 = skipn (ks + r - 1) (c_P tc) /\
  normalize Rops kv1 = Ok (c_U c1) /\ normalize Rops kv2 = Ok (c_U c2) /\
  length (c_U c1) = S (p + length (c_P c1)) /\ length (c_U c2) = S (p + length (c_P c2)).
Proof.
  destruct split_curve_unfold as (E1 & E2 & H1 & H2).
  apply set_kv_ok in E1. apply set_kv_ok in E2.
  destruct E1 as (L1 & _ & N1). destruct E2 as (L2 & _ & N2).
  rewrite H1, H2 at 1 2 3 4. cbn [c_p c_P c_U].
  repeat split; try assumption.
  - destruct (normalize_map _ _ N1) as (f & _ & ->). rewrite map_length. rewrite H1. cbn [c_P]. exact L1.
  - destruct (normalize_map _ _ N2) as (f & _ & ->). rewrite map_length. rewrite H2. cbn [c_P]. exact L2.
Qed.

(* sizes add up to (refined size) + 1 and the junction control point is shared *)
Theorem split_curve_junction : (1 <= ks + r <= length (c_P tc))%nat ->
  (length (c_P c1) + length (c_P c2) = S (length (c_P tc)))%nat /\
  last (c_P c1) [] = nth 0 (c_P c2) [] /\ last (c_P c1) [] = nth (ks + r - 1) (c_P tc) [].
Proof.
  intros Hr. destruct split_curve_structure as (_ & _ & H1 & H2 & _).
  rewrite H1, H2. rewrite firstn_length, skipn_length. split; [lia|].
  assert (Hl : last (firstn (ks + r) (c_P tc)) [] = nth (ks + r - 1) (c_P tc) []).
  { rewrite last_nth_gen. rewrite firstn_length. replace (Nat.min (ks + r) (length (c_P tc))) with (ks + r)%nat by lia.
    apply nth_firstn_lt. lia. }
  split; [|exact Hl]. rewrite Hl. rewrite nth_skipn_add. f_equal. lia.
Qed.

(* the new ends are clamped: the right piece starts with p+1 zeros, the left piece ends with 1 *)
Theorem split_curve_new_ends :
  firstn (S p) (c_U c2) = repeat 0 (S p) /\
  (nth 0 (c_U tc) 0 <> param -> (1 <= length (c_U tc))%nat -> last (c_U c1) 0 = 1).
Proof.
  destruct split_curve_structure as (_ & _ & _ & _ & N1 & N2 & _).
  split.
  - destruct (normalize_map _ _ N2) as (f & Hf & ->). unfold kv2 in *.
    assert (Hp : f = param) by (rewrite <- Hf; reflexivity). clear Hf. rewrite Hp.
    rewrite map_app, firstn_app, map_length, repeat_length, Nat.sub_diag. rewrite firstn_O, app_nil_r.
    rewrite firstn_all2 by (rewrite map_length, repeat_length; lia).
    rewrite map_repeat_gen. f_equal. unfold Rdiv. ring.
  - intros Hne Hk. destruct (normalize_map _ _ N1) as (f & Hf & ->). unfold kv1 in *.
    assert (Hf' : f = nth 0 (c_U tc) 0).
    { rewrite <- Hf. rewrite app_nth1 by (rewrite firstn_length; unfold kspan; lia).
      apply nth_firstn_lt. unfold kspan. lia. }
    rewrite map_app. cbn [map]. rewrite !last_last. field. rewrite Hf'. lra.
Qed.
End SplitCurve.

(* ---------------------------------------------------------------- the decomposition loop *)
(* l is a chain of splits of c: every piece but the last is the left piece of the split of what was left at
   its first interior knot; the last piece has no interior knot *)
Inductive split_chain (tol : R) : @curve R -> list (@curve R) -> Prop :=
| chain_done c : interior_knots (c_p c) (c_U c) = [] -> split_chain tol c [c]
| chain_step c knot rest c1 c2 l :
    interior_knots (c_p c) (c_U c) = knot :: rest ->
    split_curve Rops tol c knot = Ok (c1, c2) ->
    split_chain tol c2 l -> split_chain tol c (c1 :: l).

Lemma decompose_curve_loop_chain tol : forall fuel c acc l,
  decompose_curve_loop Rops fuel tol c acc = Ok l -> exists l', l = rev acc ++ l' /\ split_chain tol c l'.
Proof.
  induction fuel as [|fuel IH]; intros c acc l H; [discriminate|].
  cbn [decompose_curve_loop] in H.
  destruct (interior_knots (c_p c) (c_U c)) as [|knot rest] eqn:E.
  - inversion H. exists [c]. split; [cbn [rev]; reflexivity|]. apply chain_done. exact E.
  - destruct (split_curve Rops tol c knot) as [[c1 c2]| |] eqn:E2; try discriminate.
    apply IH in H. destruct H as (l' & -> & Hc). exists (c1 :: l'). split.
    + cbn [rev]. rewrite <- app_assoc. reflexivity.
    + eapply chain_step; eassumption.
Qed.

Theorem decompose_curve_is_split_chain tol c l :
  decompose_curve Rops tol c = Ok l -> split_chain tol c l.
Proof.
  intros H. apply decompose_curve_loop_chain in H. destruct H as (l' & -> & Hc). exact Hc.
Qed.

(* consequences of the chain: at least one piece; the last piece has no interior knots; every earlier piece ends
   with knot value 1 ... (see split_curve_new_ends) and every later piece starts with p+1 zeros *)
Lemma split_chain_nonempty tol c l : split_chain tol c l -> l <> [].
Proof. destruct 1; discriminate. Qed.

Lemma split_chain_last tol c l : split_chain tol c l ->
  exists cl, last l c = cl /\ interior_knots (c_p cl) (c_U cl) = [].
Proof.
  induction 1 as [c E|c knot rest c1 c2 l E Hs Hc IH].
  - exists c. split; [reflexivity|exact E].
  - destruct IH as (cl & Hl & Hi). exists cl. split; [|exact Hi].
    destruct l as [|x l]; [exfalso; eapply split_chain_nonempty; eauto|].
    change (last (c1 :: x :: l) c) with (last (x :: l) c).
    rewrite <- Hl. clear. revert x. induction l as [|y l IH]; intros x; [reflexivity|].
    change (last (x :: y :: l) c) with (last (y :: l) c). change (last (x :: y :: l) c2) with (last (y :: l) c2). apply IH.
Qed.

(* all pieces have the degree of the input *)
Lemma split_chain_degrees tol c l : split_chain tol c l -> Forall (fun x => c_p x = c_p c) l.
Proof.
  induction 1 as [c E|c knot rest c1 c2 l E Hs Hc IH].
  - constructor; [reflexivity|constructor].
  - pose proof (split_curve_structure tol c c1 c2 knot Hs) as (D1 & D2 & _).
    constructor; [exact D1|]. rewrite D2 in IH. exact IH.
Qed.

