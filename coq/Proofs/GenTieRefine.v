(* Tie: generated helpers.knot_refinement (Gen/HelpersB.v) = Model/KnotRefine.v knot_refinement (control points = lists of
   coordinates).  The source uses == and < where the model uses < and <= (sorted(set(...))): under order_laws K.
   See the theorem for the well-formedness; where the bisection loop of the source reads its loop variable after an empty
   loop (fewer than two distinct listed knots: UnboundLocalError in Python, Crash in the model) the generated code gives up
   (GErr OutOfFuel). *)
From Coq Require Import List ZArith Arith Bool Lia QArith Reals Lra.
From NV Require Import Scalar.Ops Model.Common Model.Basis Model.KnotIns Model.InsertKnot Model.KnotRefine
  Gen.Prelude Gen.PreludeExt Gen.Helpers Gen.HelpersB
  Proofs.GenTieLib Proofs.GenTieLib2 Proofs.GenTieBasisOne Proofs.GenTieSpan Proofs.GenTieSubst Proofs.GenTieLinAlg Proofs.GenTieHull.
Import ListNotations.
Local Open Scope nat_scope.

Lemma flat_map_map {A B C} (f : B -> list C) (g : A -> B) (l : list A) : flat_map f (map g l) = flat_map (fun x => f (g x)) l.
Proof. induction l; simpl; congruence. Qed.

(* order_laws + (y < x -> not x <= y) *)
Record refine_laws {T : Type} (K : ops T) : Prop := mkRefineLaws {
  rl_order : order_laws K;
  rl_lt_le : forall x y, oltb K y x = true -> oleb K x y = false }.
Lemma Rops_refine_laws : refine_laws Rops.
Proof.
  constructor; [apply Rops_order_laws|]. intros x y. cbn [oltb oleb Rops]. unfold Rltb, Rleb.
  destruct (Rlt_dec y x); destruct (Rle_dec x y); intros; try reflexivity; try discriminate. exfalso. lra.
Qed.
Lemma Qops_refine_laws : refine_laws Qops.
Proof.
  constructor; [apply Qops_order_laws|]. intros x y. cbn [oltb oleb Qops]. destruct (Qle_bool x y); cbn [negb]; auto.
Qed.

Section Plan.
Context {T : Type} (K : ops T) (RL : refine_laws K).
Let OL := rl_order K RL.
Notation "0" := (o0 K).

(* ---- sorted(set(l)) ---- *)
Lemma py_ins_uniq_model x (l : list T) : py_ins_uniq K x l = ins_uniq K x l.
Proof.
  induction l as [|y r IH]; [reflexivity|]. cbn [py_ins_uniq ins_uniq]. rewrite IH.
  destruct (oeqb K x y) eqn:E.
  - destruct (ol_eq_lt K OL x y E) as [-> _]. unfold oeqb in E. apply andb_prop in E. destruct E as [-> _]. reflexivity.
  - destruct (oltb K x y) eqn:E1; [reflexivity|].
    unfold oeqb in E. destruct (oleb K x y) eqn:E2; [|reflexivity].
    (* x <= y, not x == y, not x < y: impossible *)
    exfalso. cbn [andb] in E. assert (H := ol_total K OL x y). unfold oeqb in H. rewrite E2, E in H. cbn [andb] in H.
    specialize (H eq_refl E1). rewrite (rl_lt_le K RL x y H) in E2. discriminate.
Qed.

Lemma py_sorted_uniq_model (l : list T) : py_sorted_uniq K l = sort_uniq K l.
Proof.
  unfold py_sorted_uniq, sort_uniq. generalize (@nil T). induction l as [|x l IH]; intros acc; [reflexivity|].
  cbn [fold_left]. rewrite py_ins_uniq_model. apply IH.
Qed.

(* ---- one density step ---- *)
Definition midpt (l : list T) (i : nat) : T := oadd K (nth i l 0) (odiv K (osub K (nth (S i) l 0) (nth i l 0)) (o2 K)).
Lemma bisect_spec (l : list T) : 1 <= length l ->
  bisect K l = flat_map (fun i => [nth i l 0; midpt l i]) (seq O (length l - 1)) ++ [nth (length l - 1) l 0].
Proof.
  induction l as [|x r IH]; intros H; [simpl in H; lia|].
  destruct r as [|y r']; [reflexivity|].
  change (bisect K (x :: y :: r')) with (x :: oadd K x (odiv K (osub K y x) (o2 K)) :: bisect K (y :: r')).
  rewrite IH by (simpl; lia). cbn [length]. replace (S (S (length r')) - 1) with (S (length r')) by lia.
  replace (S (length r') - 1) with (length r') by lia. cbn [seq flat_map app]. f_equal. f_equal.
  rewrite <- seq_shift, flat_map_map. reflexivity.
Qed.
Lemma bisect_length (l : list T) : 2 <= length l -> 2 <= length (bisect K l).
Proof. destruct l as [|x [|y r]]; simpl; intros; lia. Qed.

Lemma bisect_loop (l : list T) : 2 <= length l ->
  (do rknots <- gfor (zrange 0 (zlen l - 1) 1) (fun i rknots =>
      do v_1 <- znth l i ;; do v_2 <- znth l (i + 1) ;; do v_3 <- znth l i ;;
      let knot_tmp := oadd K v_1 (odiv K (osub K v_2 v_3) (olitz K 2)) in
      do v_4 <- znth l i ;; let rknots := rknots ++ [v_4] in let rknots := rknots ++ [knot_tmp] in GOk rknots) [] ;;
   do i <- range_last 0 (zlen l - 1) ;;
   do v_6 <- znth l (i + 1) ;; let rknots := rknots ++ [v_6] in let knot_list := rknots in GOk knot_list)
  = GOk (bisect K l).
Proof.
  intros Hl. unfold zlen. replace (Z.of_nat (length l) - 1)%Z with (Z.of_nat (length l - 1)) by lia. rewrite zrange_0_nat.
  match goal with |- context [gfor (map Z.of_nat (seq O ?n)) ?ff ?s0] =>
    destruct (gfor_seq_inv (fun i (rk : list T) => rk = flat_map (fun i => [nth i l 0; midpt l i]) (seq O i)) ff n O) with (s := s0)
      as (rk & E & Hrk)
  end.
  - intros i rk Hi ->. cbn [gbind]. replace (Z.of_nat i + 1)%Z with (Z.of_nat (S i)) by lia.
    rewrite !(znth_nat l i 0), (znth_nat l (S i) 0) by lia. cbn [gbind]. eexists. split; [reflexivity|].
    rewrite seq_S, flat_map_app. cbn [flat_map Nat.add app]. rewrite <- app_assoc. reflexivity.
  - reflexivity.
  - rewrite E. cbn [gbind]. unfold range_last. destruct (Z.ltb_spec 0 (Z.of_nat (length l - 1))); [|lia]. cbn [gbind].
    replace (Z.of_nat (length l - 1) - 1 + 1)%Z with (Z.of_nat (length l - 1)) by lia.
    rewrite (znth_nat l (length l - 1) 0) by lia. cbn [gbind]. rewrite Hrk, bisect_spec by lia. reflexivity.
Qed.
End Plan.

Section Refine.
Context {T : Type} (K : ops T).
Notation "0" := (o0 K).
Notation kn := (kn K).

(* `for j in range(s, s+len): dst[f(j)] = src[j]` *)
Lemma copy_loop {A} (dA : A) (src : list A) (fz : Z -> Z) (fn : nat -> nat) :
  (forall j, fz (Z.of_nat j) = Z.of_nat (fn j)) ->
  forall len st (dst : list A), st + len <= length src -> (forall j, st <= j < st + len -> fn j < length dst) ->
  gfor (map Z.of_nat (seq st len)) (fun j dst => do v <- znth src j ;; do dst <- zset dst (fz j) v ;; GOk dst) dst
  = GOk (fold_left (fun dst j => upd dst (fn j) (nth j src dA)) (seq st len) dst).
Proof.
  intros Hf. induction len as [|len IH]; intros st dst Hs Hd; [reflexivity|].
  cbn [seq map gfor fold_left]. rewrite (znth_nat src st dA) by lia. cbn [gbind]. rewrite Hf, zset_nat by (apply Hd; lia). cbn [gbind].
  apply IH; [lia|]. intros j Hj. rewrite upd_length. apply Hd. lia.
Qed.

Lemma fold_upd_length {A} (f : nat -> nat) (g : nat -> A) (l : list nat) (dst : list A) :
  length (fold_left (fun dst j => upd dst (f j) (g j)) l dst) = length dst.
Proof. revert dst; induction l; intros; cbn [fold_left]; auto. rewrite IHl. apply upd_length. Qed.

(* ---- span bounds, for every scalar instance ---- *)
Lemma lin_aux_le (U : list T) (n : nat) (u : T) : forall f span, span <= n -> find_span_linear_aux K f U n span u <= n.
Proof.
  induction f as [|f IH]; intros span H; cbn [find_span_linear_aux]; [exact H|].
  destruct (Nat.ltb_spec span n); cbn [andb]; [|exact H]. destruct (oleb K _ _); [apply IH; lia|exact H].
Qed.
Lemma span_bounds p (U : list T) n u : p < n -> p <= Basis.find_span_linear K p U n u < n.
Proof.
  intros H. unfold Basis.find_span_linear. assert (H1 := lin_aux_ge K U n u n (S p)). assert (H2 := lin_aux_le U n u n (S p) ltac:(lia)). lia.
Qed.

(* the inner while loop of A5.4 (copy control points / knots to the right of X[j]) against refine_shift; cond / body are the
   generated condition and body, characterised by Hc / Hb *)
Lemma shift_tie (p a : nat) (U : list T) (P : list (list T)) (xj : T)
    (cond : list (list T) * list T * Z * Z -> gres bool)
    (body : list (list T) * list T * Z * Z -> gres (list (list T) * list T * Z * Z)) (N1 N2 : nat) :
  (forall nw kv k i, i < length U -> cond (nw, kv, Z.of_nat k, Z.of_nat i) = GOk (andb (oleb K xj (kn U i)) (Nat.ltb a i))) ->
  (forall nw kv k i, a < i -> i < length U -> p + 1 <= i -> i - p - 1 < length P -> i < k -> k < N2 -> k - p - 1 < N1 ->
     length nw = N1 -> length kv = N2 ->
     body (nw, kv, Z.of_nat k, Z.of_nat i) =
     GOk (upd nw (k - p - 1) (getA [] P (i - p - 1)), upd kv k (kn U i), Z.of_nat (Nat.pred k), Z.of_nat (Nat.pred i))) ->
  p <= a ->
  forall d i k fuelG fuelM nw kv, i - a <= d -> d < fuelG -> d < fuelM -> i < length U -> i - p - 1 < length P \/ i <= a ->
    i < k -> k < N2 -> k - p - 1 < N1 -> length nw = N1 -> length kv = N2 ->
    exists nw' kv' i' k', refine_shift K [] fuelM p U P xj a (nw, kv, i, k) = (nw', kv', i', k')
      /\ gwhile fuelG cond body (nw, kv, Z.of_nat k, Z.of_nat i) = GOk (nw', kv', Z.of_nat k', Z.of_nat i')
      /\ i' <= i /\ (a <= i -> a <= i') /\ k' + i = k + i' /\ length nw' = N1 /\ length kv' = N2
      /\ andb (oleb K xj (kn U i')) (Nat.ltb a i') = false.
Proof.
  intros Hc Hb Hpa. induction d as [|d IH]; intros i k fuelG fuelM nw kv Hd HfG HfM HiU HiP Hik HkN2 HkN1 Lnw Lkv;
    (destruct fuelG as [|fuelG]; [lia|]); (destruct fuelM as [|fuelM]; [lia|]);
    rewrite gwhile_unfold, Hc by exact HiU; cbn [gbind refine_shift].
  - assert (Hia : Nat.ltb a i = false) by (apply Nat.ltb_ge; lia). rewrite Hia, andb_false_r.
    exists nw, kv, i, k. repeat split; auto. now rewrite Hia, andb_false_r.
  - destruct (andb (oleb K xj (kn U i)) (Nat.ltb a i)) eqn:Ec.
    + apply andb_prop in Ec. destruct Ec as [_ Ec]. apply Nat.ltb_lt in Ec.
      rewrite Hb by (auto; lia). cbn [gbind].
      destruct (IH (Nat.pred i) (Nat.pred k) fuelG fuelM (upd nw (k - p - 1) (getA [] P (i - p - 1))) (upd kv k (kn U i)))
        as (nw' & kv' & i' & k' & E1 & E2 & H1 & H2 & H3 & H4 & H5 & H6); try rewrite upd_length; try lia.
      exists nw', kv', i', k'. replace (Nat.sub (Nat.sub k p) 1) with (k - p - 1) by lia.
      replace (Nat.sub (Nat.sub i p) 1) with (i - p - 1) by lia. repeat split; auto; lia.
    + exists nw, kv, i, k. repeat split; auto.
Qed.

Lemma firstn_S_nth' {A} (l : list A) i d : i < length l -> firstn (S i) l = firstn i l ++ [nth i l d].
Proof. revert i; induction l as [|x l IH]; intros [|i] H; simpl in *; try lia; [reflexivity|]. f_equal. apply IH. lia. Qed.

(* lerp with its arguments as the source zips them *)
Lemma lerp_zip (alpha : T) (a b : list T) :
  map (fun '(p1, p2) => oadd K (omul K alpha p1) (omul K (osub K (o1 K) alpha) p2)) (combine b a) = lerp K alpha a b.
Proof.
  unfold lerp. revert b; induction a as [|x a IH]; intros [|y b]; try reflexivity. cbn [combine map fst snd]. now rewrite IH.
Qed.
End Refine.

Section Main.
Context {T : Type} (K : ops T) (RL : refine_laws K).
Notation "0" := (o0 K).
Notation kn := (kn K).
Notation tol0 := (Helpers.find_multiplicity__default_tol K).

Theorem knot_refinement_tie (p dn : nat) (U : list T) (P : list (list T)) (kl add : list T) (check : bool) :
  P <> [] -> nth O P [] <> [] -> p < length P -> length U = length P + p + 1 ->
  (forall X, refine_plan K tol0 check p U (Some kl) add dn = Ok X ->
     let n := length P - 1 in let r := length X - 1 in
     let a := Basis.find_span_linear K p U (S n) (nth O X 0) in
     let b := S (Basis.find_span_linear K p U (S n) (nth r X 0)) in
     a < b /\ forall x i, In x X -> b <= i -> i < length U -> oleb K x (kn U i) = true) ->
  HelpersB.knot_refinement K (Z.of_nat p) U P add check (Z.of_nat dn) kl tol0 =
  res_to_gres (fun x => x) GeomdlError OutOfFuel (KnotRefine.knot_refinement K tol0 check p U P (Some kl) add dn).
Proof.
  intros HP HP0 Hp HU Hwf. unfold HelpersB.knot_refinement, KnotRefine.knot_refinement, knot_refinement_g.
  revert Hwf. unfold refine_plan.
  (* density < 1 *)
  assert (Echk : (if check then if (Z.of_nat dn <? 1)%Z then GErr GeomdlError else GOk tt else GOk tt)
                 = if andb check (Nat.eqb dn O) then GErr GeomdlError else GOk tt).
  { destruct check; cbn [andb]; [|reflexivity]. destruct (Z.ltb_spec (Z.of_nat dn) 1); destruct (Nat.eqb_spec dn O); try lia; reflexivity. }
  rewrite Echk. destruct (andb check (Nat.eqb dn O)); [intros _; reflexivity|]. cbn [gbind].
  (* the list of knots *)
  assert (Eadd : (if negb (zlen add =? 0)%Z then GOk (kl ++ add) else GOk kl) = GOk (kl ++ add)).
  { destruct add as [|x add']; [now rewrite app_nil_r|reflexivity]. }
  rewrite Eadd. cbn [gbind]. rewrite (py_sorted_uniq_model K RL). set (kl1 := sort_uniq K (kl ++ add)).
  rewrite zrange_0_nat.
  assert (Ebis : gfor (map Z.of_nat (seq O dn)) (fun (d : Z) (knot_list : list T) =>
       do rknots <- gfor (zrange 0 (zlen knot_list - 1) 1) (fun i rknots =>
          do v_1 <- znth knot_list i ;; do v_2 <- znth knot_list (i + 1) ;; do v_3 <- znth knot_list i ;;
          do v_4 <- znth knot_list i ;; GOk ((rknots ++ [v_4]) ++ [oadd K v_1 (odiv K (osub K v_2 v_3) (olitz K 2))])) [] ;;
       do i <- range_last 0 (zlen knot_list - 1) ;;
       do v_6 <- znth knot_list (i + 1) ;; GOk (rknots ++ [v_6])) kl1
     = if andb (Nat.ltb O dn) (Nat.ltb (length kl1) 2) then GErr OutOfFuel else GOk (iter_bisect K dn kl1)).
  { destruct (Nat.ltb_spec (length kl1) 2) as [Hl|Hl]; rewrite ?andb_false_r, ?andb_true_r.
    - destruct dn as [|dn']; [reflexivity|]. cbn [seq map gfor Nat.ltb Nat.leb].
      unfold zlen. destruct (length kl1) as [|[|l']] eqn:El; try lia; reflexivity.
    - match goal with |- gfor (map Z.of_nat (seq O dn)) ?ff kl1 = _ =>
        assert (Hgen : forall dn' st l, 2 <= length l -> gfor (map Z.of_nat (seq st dn')) ff l = GOk (iter_bisect K dn' l))
      end.
      { induction dn' as [|dn' IH]; intros st l Hl'; [reflexivity|].
        cbn [seq map gfor iter_bisect]. assert (E := bisect_loop K l Hl'). cbv zeta in E. rewrite E. cbn [gbind]. apply IH. now apply bisect_length. }
      now apply Hgen. }
  rewrite Ebis. destruct (andb (Nat.ltb O dn) (Nat.ltb (length kl1) 2)); [intros _; reflexivity|]. cbn [gbind].
  set (kl2 := iter_bisect K dn kl1).
  (* the knots to insert *)
  assert (EX : forall (l : list T) (acc : list T),
     gfor l (fun mk X => do s <- Helpers.find_multiplicity K mk U tol0 ;;
                         GOk (X ++ map (fun _ : Z => mk) (zrange 0 (Z.of_nat p - s) 1))) acc
     = GOk (acc ++ refine_X K tol0 p U l)).
  { induction l as [|mk l IH]; intros acc; [now rewrite app_nil_r|]. cbn [gfor]. rewrite find_multiplicity_tie. cbn [gbind].
    rewrite map_const_zrange. replace (Z.to_nat (Z.of_nat p - Z.of_nat (Basis.find_multiplicity K tol0 mk U))) with (p - Basis.find_multiplicity K tol0 mk U) by lia.
    rewrite IH. unfold refine_X. cbn [flat_map]. now rewrite <- app_assoc. }
  rewrite EX. cbn [gbind app]. set (X := refine_X K tol0 p U kl2).
  destruct X as [|x0 Xr] eqn:EXv; [intros _; reflexivity|]. rewrite <- EXv. intros Hwf.
  assert (HX : 1 <= length X) by (rewrite EXv; simpl; lia).
  destruct (Z.eqb_spec (zlen X) 0) as [Hz|_]; [unfold zlen in Hz; lia|].
  specialize (Hwf X eq_refl). cbn [res_map res_to_gres].
  clear Echk Eadd Ebis EX. clearbody X. clear EXv x0 Xr kl2 kl1.
  set (n := length P - 1) in *. set (r := length X - 1) in *.
  assert (HSn : length P = S n) by (unfold n; destruct P; [congruence|simpl; lia]).
  set (a := Basis.find_span_linear K p U (S n) (nth O X 0)) in *.
  set (bs := Basis.find_span_linear K p U (S n) (nth r X 0)) in *.
  destruct Hwf as [Hab H1].
  assert (Ba : p <= a < S n) by (apply span_bounds; lia). assert (Bb : p <= bs < S n) by (apply span_bounds; lia).
  set (m := n + p + 1). set (N1 := n + r + 2). set (N2 := m + r + 2).
  assert (LU : length U = m + 1) by (unfold m; lia).
  unfold zlen.
  rewrite (znth_lit0 X 0) by lia. cbn [gbind].
  replace (Z.of_nat (length P) - 1 + 1)%Z with (Z.of_nat (S n)) by lia.
  rewrite find_span_linear_tie by lia. cbn [gbind]. fold a.
  replace (Z.of_nat (length X) - 1)%Z with (Z.of_nat r) by (unfold r; lia).
  rewrite (znth_nat X r 0) by (unfold r; lia). cbn [gbind]. rewrite find_span_linear_tie by lia. cbn [gbind]. fold bs.
  rewrite (znth_lit0 P []) by lia. cbn [gbind].
  assert (L0 : 1 <= length (nth O P [])) by (destruct (nth O P []); [congruence|simpl; lia]).
  rewrite (znth_lit0 (nth O P []) 0) by exact L0. cbn [gbind].
  (* the arrays before the main loop *)
  replace (Z.of_nat (length P) - 1 + Z.of_nat r + 2)%Z with (Z.of_nat N1) by (unfold N1; lia).
  replace (Z.of_nat (length P) - 1 + Z.of_nat p + 1 + Z.of_nat r + 2)%Z with (Z.of_nat N2) by (unfold N2, m; lia).
  rewrite !map_const_zrange, !Nat2Z.id.
  replace (Z.of_nat a - Z.of_nat p + 1)%Z with (Z.of_nat (S (a - p))) by lia. rewrite zrange_0_nat.
  rewrite (copy_loop [] P (fun j => j) (fun j => j)) by (try reflexivity; try rewrite repeat_length; unfold N1; lia).
  cbn [gbind]. set (new1 := fold_left _ (seq O (S (a - p))) (repeat [] N1)).
  replace (Z.of_nat bs + 1 - 1)%Z with (Z.of_nat bs) by lia. rewrite zrange_nat.
  rewrite (copy_loop [] P (fun j => (j + Z.of_nat r + 1)%Z) (fun j => j + r + 1))
    by (try (intros j; lia); unfold new1; try rewrite fold_upd_length, repeat_length; unfold N1; lia).
  cbn [gbind]. set (new2 := fold_left _ (seq bs (S n - bs)) new1).
  replace (Z.of_nat a + 1)%Z with (Z.of_nat (S a)) by lia. rewrite zrange_0_nat.
  rewrite (copy_loop 0 U (fun j => j) (fun j => j)) by (try reflexivity; try rewrite repeat_length; unfold N2; lia).
  cbn [gbind]. set (kv1 := fold_left _ (seq O (S a)) (repeat 0 N2)).
  replace (Z.of_nat bs + 1 + Z.of_nat p)%Z with (Z.of_nat (S bs + p)) by lia.
  replace (Z.of_nat (length P) - 1 + Z.of_nat p + 1 + 1)%Z with (Z.of_nat (S m)) by (unfold m; lia). rewrite zrange_nat.
  rewrite (copy_loop 0 U (fun j => (j + Z.of_nat r + 1)%Z) (fun j => j + r + 1))
    by (try (intros j; lia); unfold kv1; try rewrite fold_upd_length, repeat_length; unfold N2; lia).
  cbn [gbind]. set (kv2 := fold_left _ (seq (S bs + p) (S m - (S bs + p))) kv1).
  assert (Lnew2 : length new2 = N1) by (unfold new2, new1; now rewrite !fold_upd_length, repeat_length).
  assert (Lkv2 : length kv2 = N2) by (unfold kv2, kv1; now rewrite !fold_upd_length, repeat_length).
  (* the model, with the same arrays *)
  unfold refine_g. cbv zeta. fold n. fold r. fold a. fold bs. unfold getA at 1 2.
  replace (S bs - 1) with bs by lia. fold N1. fold m. fold N2.
  match goal with |- context [fold_left ?stepM (rev X) ?init] =>
    change init with (new2, kv2, S bs + p - 1, S bs + p + r); set (stepM' := stepM)
  end.
  replace (Z.to_nat (Z.of_nat r + 2)) with (S (S r)) by lia.
  replace (Z.of_nat (S bs + p) + Z.of_nat r)%Z with (Z.of_nat (S bs + p + r)) by lia.
  replace (Z.of_nat (S bs + p) - 1)%Z with (Z.of_nat (S bs + p - 1)) by lia.
  assert (LrevX : length (rev X) = S r) by (rewrite rev_length; unfold r; lia).
  match goal with |- context [gwhile (S (S r)) ?cc ?bb ?s0] =>
    destruct (gwhile_count
       (fun c (x : list (list T) * list T * nat * nat) =>
          let '(nw, kv, i, k) := x in (nw, kv, Z.of_nat k, Z.of_nat i, (Z.of_nat r - Z.of_nat c)%Z))
       (fun c (x : list (list T) * list T * nat * nat) =>
          let '(nw, kv, i, k) := x in
          fold_left stepM' (firstn c (rev X)) (new2, kv2, S bs + p - 1, S bs + p + r) = x
          /\ length nw = N1 /\ length kv = N2 /\ a <= i /\ i <= bs + p /\ k + c = i + r + 1)
       cc bb (S r)) with (fuel := S (S r)) (x0 := (new2, kv2, S bs + p - 1, S bs + p + r)) as ([[[nwF kvF] iF] kF] & EF & HF)
  end.
  - intros c [[[nw kv] i] k] Hc _. f_equal. apply Z.leb_le. lia.
  - intros [[[nw kv] i] k] _. f_equal. apply Z.leb_gt. lia.
  - (* one knot X[j], j = r - c *)
    intros c [[[nw kv] i] k] Hc (Efold & Lnw & Lkv & Hai & Hib & Hk). cbn [gbind].
    replace (Z.of_nat r - Z.of_nat c)%Z with (Z.of_nat (r - c)) by lia.
    set (xj := nth (r - c) X 0).
    assert (Exj : nth c (rev X) 0 = xj) by (rewrite rev_nth by (unfold r; lia); unfold xj, r; f_equal; lia).
    replace (Z.to_nat (Z.abs (Z.of_nat i) + 1)) with (S i) by lia.
    match goal with |- context [gwhile (S i) ?c2 ?b2 (nw, kv, Z.of_nat k, Z.of_nat i)] =>
      destruct (shift_tie K p a U P xj c2 b2 N1 N2) with (d := i - a) (i := i) (k := k) (fuelG := S i) (fuelM := S (length U)) (nw := nw) (kv := kv)
        as (nw1 & kv1' & i1 & k1 & Eshift & Ewhile & Hi1 & Hai1 & Hk1 & Lnw1 & Lkv1 & Hstop)
    end; try lia; try (unfold N1, N2, m in *; lia).
    + intros nw0 kv0 k0 i0 Hi0. rewrite (znth_nat X (r - c) 0) by (unfold r; lia). cbn [gbind].
      rewrite (znth_nat U i0 0) by lia. cbn [gbind]. fold xj. f_equal. f_equal.
      destruct (Z.ltb_spec (Z.of_nat a) (Z.of_nat i0)); destruct (Nat.ltb_spec a i0); try lia; reflexivity.
    + intros nw0 kv0 k0 i0 H1' H2' H3' H4' H5' H6' H7' L1' L2'. cbn [gbind].
      replace (Z.of_nat i0 - Z.of_nat p - 1)%Z with (Z.of_nat (i0 - p - 1)) by lia.
      rewrite (znth_nat P (i0 - p - 1) []) by lia. cbn [gbind].
      replace (Z.of_nat k0 - Z.of_nat p - 1)%Z with (Z.of_nat (k0 - p - 1)) by lia.
      rewrite zset_nat by lia. cbn [gbind]. rewrite (znth_nat U i0 0) by lia. cbn [gbind].
      rewrite zset_nat by lia. cbn [gbind]. unfold getA, Common.kn. f_equal. f_equal; [f_equal|]; lia.
    + (* after the shift *)
      rewrite Ewhile. cbn [gbind].
      assert (Hi1b : i1 <= bs).
      { destruct (Nat.le_gt_cases i1 bs) as [Hle|Hgt]; [exact Hle|]. exfalso.
        rewrite (H1 xj i1) in Hstop by (try (unfold xj; apply nth_In; unfold r; lia); lia).
        destruct (Nat.ltb_spec a i1); [discriminate|lia]. }
      specialize (Hai1 Hai).
      assert (Hk1' : k1 + c = i1 + r + 1) by lia.
      replace (Z.of_nat k1 - Z.of_nat p)%Z with (Z.of_nat (k1 - p)) by lia.
      rewrite (znth_nat nw1 (k1 - p) []) by (unfold N1 in *; lia). cbn [gbind].
      replace (Z.of_nat (k1 - p) - 1)%Z with (Z.of_nat (k1 - p - 1)) by lia.
      rewrite zset_nat by (unfold N1 in *; lia). cbn [gbind].
      replace (Z.of_nat p + 1)%Z with (Z.of_nat (S p)) by lia. rewrite zrange_1_of_nat. replace (S p - 1) with p by lia.
      set (nwA := upd nw1 (k1 - p - 1) (nth (k1 - p) nw1 [])).
      match goal with |- context [gfor (map Z.of_nat (seq 1 p)) ?ff nwA] =>
        destruct (gfor_seq_fold (fun (_ : nat) (x y : list (list T)) => x = y /\ length y = N1) ff
            (fun (nw0 : list (list T)) (l : nat) =>
              if oltb K (oabs K (osub K (kn kv1' (k1 + l)) xj)) tol0
              then upd nw0 (k1 - p + l - 1) (nth (k1 - p + l) nw0 [])
              else upd nw0 (k1 - p + l - 1)
                 (lerp K (odiv K (osub K (kn kv1' (k1 + l)) xj) (osub K (kn kv1' (k1 + l)) (kn U (i1 - p + l))))
                    (nth (k1 - p + l) nw0 []) (getA [] nw0 (k1 - p + l - 1)))) p 1) with (s := nwA) (s' := nwA)
          as (nwB & EnwB & -> & LnwB)
      end.
      * intros l x y Hl (-> & Ly). cbn [gbind].
        replace (Z.of_nat k1 + Z.of_nat l)%Z with (Z.of_nat (k1 + l)) by lia.
        rewrite (znth_nat kv1' (k1 + l) 0) by (unfold N2, m in *; lia). cbn [gbind].
        rewrite (znth_nat X (r - c) 0) by (unfold r; lia). cbn [gbind]. fold xj. fold (kn kv1' (k1 + l)).
        replace (Z.of_nat (k1 - p) + Z.of_nat l)%Z with (Z.of_nat (k1 - p + l)) by lia.
        replace (Z.of_nat (k1 - p + l) - 1)%Z with (Z.of_nat (k1 - p + l - 1)) by lia.
        destruct (oltb K (oabs K (osub K (kn kv1' (k1 + l)) xj)) tol0).
        -- rewrite (znth_nat y (k1 - p + l) []) by (unfold N1 in *; lia). cbn [gbind].
           rewrite zset_nat by (unfold N1 in *; lia). cbn [gbind]. eexists. split; [reflexivity|]. split; [reflexivity|].
           now rewrite upd_length.
        -- cbn [gbind].
           replace (Z.of_nat i1 - Z.of_nat p + Z.of_nat l)%Z with (Z.of_nat (i1 - p + l)) by lia.
           rewrite (znth_nat U (i1 - p + l) 0) by lia. cbn [gbind].
           rewrite (znth_nat y (k1 - p + l - 1) []), (znth_nat y (k1 - p + l) []) by (unfold N1 in *; lia). cbn [gbind].
           rewrite zset_nat by (unfold N1 in *; lia). cbn [gbind]. eexists. split; [reflexivity|]. split; [|now rewrite upd_length].
           f_equal. rewrite lerp_zip. reflexivity.
      * split; [reflexivity|]. unfold nwA. now rewrite upd_length.
      * rewrite EnwB. cbn [gbind]. rewrite (znth_nat X (r - c) 0) by (unfold r; lia). cbn [gbind]. fold xj.
        rewrite zset_nat by (unfold N2, m in *; lia). cbn [gbind].
        exists (fold_left (fun (nw0 : list (list T)) (l : nat) =>
              if oltb K (oabs K (osub K (kn kv1' (k1 + l)) xj)) tol0
              then upd nw0 (k1 - p + l - 1) (nth (k1 - p + l) nw0 [])
              else upd nw0 (k1 - p + l - 1)
                 (lerp K (odiv K (osub K (kn kv1' (k1 + l)) xj) (osub K (kn kv1' (k1 + l)) (kn U (i1 - p + l))))
                    (nth (k1 - p + l) nw0 []) (getA [] nw0 (k1 - p + l - 1)))) (seq 1 p) nwA, upd kv1' k1 xj, i1, Nat.pred k1).
        split.
        { repeat (f_equal; try lia). }
        split.
        { rewrite (firstn_S_nth' (rev X) c 0) by lia. rewrite fold_left_app, Efold. cbn [fold_left]. rewrite Exj.
          unfold stepM'. rewrite Eshift. reflexivity. }
        rewrite upd_length. repeat split; auto; lia.
  - lia.
  - cbn [firstn fold_left]. repeat split; auto; lia.
  - cbn beta iota in EF. replace (Z.of_nat r - Z.of_nat 0)%Z with (Z.of_nat r) in EF by lia.
    rewrite EF. cbn [gbind]. destruct HF as (Efold & _). rewrite <- LrevX, firstn_all in Efold. rewrite Efold. reflexivity.
Qed.
End Main.

Definition knot_refinement_tie_R := @knot_refinement_tie _ Rops Rops_refine_laws.
Definition knot_refinement_tie_Q := @knot_refinement_tie _ Qops Qops_refine_laws.

(* ---- non-vacuity: a cubic with one interior knot; the default knot list kv[3:-3] = [0, 1/2, 1] and an explicit one ---- *)
Local Open Scope Q_scope.
Definition exRU : list Q := [0; 0; 0; 0; 1#2; 1; 1; 1; 1].
Definition exRP : list (list Q) := [[0; 0]; [1#2; 1]; [2; 2]; [7#2; 1]; [4; 0]].
Example knot_refinement_ex :
  HelpersB.knot_refinement Qops 3 exRU exRP [] true 1 [0; 1#2; 1] (Helpers.find_multiplicity__default_tol Qops) =
    GOk ([[0; 0]; [1#4; 1#2]; [9#16; 7#8]; [29#32; 9#8]; [5#4; 11#8]; [13#8; 3#2]; [2; 3#2]; [19#8; 3#2]; [11#4; 11#8]; [99#32; 9#8];
          [55#16; 7#8]; [15#4; 1#2]; [4; 0]],
         [0; 0; 0; 0; 1#4; 1#4; 1#4; 1#2; 1#2; 1#2; 3#4; 3#4; 3#4; 1; 1; 1; 1])
  /\ KnotRefine.knot_refinement Qops (Helpers.find_multiplicity__default_tol Qops) true 3 exRU exRP None [] 1 =
     Ok ([[0; 0]; [1#4; 1#2]; [9#16; 7#8]; [29#32; 9#8]; [5#4; 11#8]; [13#8; 3#2]; [2; 3#2]; [19#8; 3#2]; [11#4; 11#8]; [99#32; 9#8];
          [55#16; 7#8]; [15#4; 1#2]; [4; 0]],
         [0; 0; 0; 0; 1#4; 1#4; 1#4; 1#2; 1#2; 1#2; 3#4; 3#4; 3#4; 1; 1; 1; 1])
  /\ HelpersB.knot_refinement Qops 3 exRU exRP [1#3] true 1 [1#4; 3#4] (Helpers.find_multiplicity__default_tol Qops) =
     res_to_gres (fun x => x) GeomdlError OutOfFuel
       (KnotRefine.knot_refinement Qops (Helpers.find_multiplicity__default_tol Qops) true 3 exRU exRP (Some [1#4; 3#4]) [1#3] 1)
  /\ HelpersB.knot_refinement Qops 3 exRU exRP [] true 0 [0; 1#2; 1] (Helpers.find_multiplicity__default_tol Qops) = GErr GeomdlError
  /\ HelpersB.knot_refinement Qops 3 exRU exRP [] true 1 [1#4] (Helpers.find_multiplicity__default_tol Qops) = GErr OutOfFuel
  /\ KnotRefine.knot_refinement Qops (Helpers.find_multiplicity__default_tol Qops) true 3 exRU exRP (Some [1#4]) [] 1 = Crash.
Proof. repeat split; vm_compute; reflexivity. Qed.
