(* C02 [G]: the order-0 entry of the derivative evaluators is the evaluated point (A3.2 row 0 = A3.1; A4.2 row 0 = the
   projected point), for every degree / knot vector / parameter / requested order.  Uses ders_row0_is_basis_function. *)
From Coq Require Import List Reals Lra Lia Arith Bool.
From NV Require Import Scalar.Ops Model.Common Model.Basis Model.Knots Model.Eval Model.Degree Model.Derivs Proofs.DersRow0.
Import ListNotations.
Open Scope R_scope.

Theorem curve_derivs_order0_is_curve_point dim p U P u order :
  nth 0 (curve_derivs Rops dim p U P u order) [] = curve_point Rops dim p U P u.
Proof.
  unfold curve_derivs, curve_point. cbn [seq map nth Nat.leb].
  rewrite ders_row0_is_basis_function. reflexivity.
Qed.

Lemma fold_app_head {A} (f : list A -> nat -> A) : forall l x CK,
  nth 0 (fold_left (fun CK k => CK ++ [f CK k]) l (x :: CK)) x = x.
Proof. induction l as [|a l IH]; intros x CK; cbn [fold_left]; [reflexivity|]. cbn [app]. apply IH. Qed.

Lemma fold_app_len {A} (f : list A -> nat -> A) : forall l CK,
  (length CK <= length (fold_left (fun CK k => CK ++ [f CK k]) l CK))%nat.
Proof. induction l as [|a l IH]; intros CK; cbn [fold_left]; [lia|]. specialize (IH (CK ++ [f CK a])). rewrite app_length in IH. simpl in IH. lia. Qed.

Theorem rat_curve_derivs_order0_is_projection CKw order :
  nth 0 (rat_curve_derivs Rops CKw order) [] = project Rops (nth 0 CKw []).
Proof.
  unfold rat_curve_derivs. cbn [seq fold_left app].
  set (x := map _ _).
  rewrite (nth_indep _ [] x).
  - rewrite fold_app_head. reflexivity.
  - match goal with |- (_ < length (fold_left ?F _ _))%nat => 
      pose proof (fold_app_len (fun CK k => map (fun t => odiv Rops t (vlast Rops (nth 0 CKw [])))
         (fold_left (fun v i => vsub_scaled Rops (omul Rops (binomial_coefficient Rops k i) (vlast Rops (nth i CKw []))) v (nth (k - i) CK []))
                    (seq 1 k) (removelast (nth k CKw [])))) (seq 1 order) [x]) as HL end.
    cbn [length] in HL. exact HL.
Qed.

(* rational curve object: derivatives(u, order)[0] is the NURBS point (weighted evaluation divided by the weight) *)
Theorem Curve_derivatives_order0 normalize rational dim p U P u order D :
  Curve_derivatives Rops normalize rational false dim p U P u order = Ok D ->
  nth 0 D [] = if rational then project Rops (curve_point Rops dim p U P u) else curve_point Rops dim p U P u.
Proof.
  unfold Curve_derivatives. destruct (andb normalize _); [discriminate|]. destruct rational; intros E; injection E as <-.
  - rewrite rat_curve_derivs_order0_is_projection, curve_derivs_order0_is_curve_point. reflexivity.
  - apply curve_derivs_order0_is_curve_point.
Qed.
