(* Non-vacuity of the surface / rational-surface derivative theorems: a concrete NURBS surface of bi-degree (2,1) with an
   interior u-knot and unequal positive weights satisfies every hypothesis; first span in both directions. *)
From Coq Require Import List Reals Lra Lia Arith Bool.
From NV Require Import Scalar.Ops Model.Common Model.Basis Model.Knots Model.Eval Model.Degree Model.Derivs
  Proofs.BasisR Proofs.DerivAnalytic Proofs.EvalR Proofs.DerivSurface Proofs.DerivRationalSurface.
Import ListNotations.
Open Scope R_scope.

Tactic Notation "sorted_tac" integer(n) :=
  let i := fresh "i" in let j := fresh "j" in let H := fresh "H" in
  intros i j H; cbn [length] in H;
  do n (destruct i as [|i]; [do n (destruct j as [|j]; [first [exfalso; lia | cbn [kn nth]; rsimp; lra]|]); exfalso; lia|]);
  exfalso; lia.

Definition Uu_ex : list R := [0; 0; 0; 1; 2; 2; 2].
Definition Uv_ex : list R := [0; 0; 1; 1].
(* homogeneous net (x*w, y*w, w), flat index j + 2*i, i < 4 (u), j < 2 (v) *)
Definition Pw_ex : list (list R) :=
  [[0; 0; 1]; [0; 1; 1];  [2; 0; 2]; [2; 4; 2];  [3; 1; 1]; [3; 2; 1];  [2; 0; 1/2]; [2; 1; 1/2]].

Lemma Uu_ex_sorted : sortedR Uu_ex. Proof. unfold Uu_ex. sorted_tac 7. Qed.
Lemma Uv_ex_sorted : sortedR Uv_ex. Proof. unfold Uv_ex. sorted_tac 4. Qed.
Lemma Pw_ex_wf : wf_net Pw_ex 3.
Proof. intros i H. cbn [length Pw_ex] in H. do 8 (destruct i as [|i]; [reflexivity|]). lia. Qed.
Lemma Pw_ex_pos : forall i, (i < 4 * 2)%nat -> 0 < coord Pw_ex i 2.
Proof. intros i H. unfold coord, Pw_ex. do 8 (destruct i as [|i]; [cbn [nth]; lra|]). lia. Qed.

(* the NURBS surface: both tangents returned by A4.4 are the partial derivatives of the evaluated point *)
Example rat_surface_tangent_sanity : forall u v, 0 < u < 1 -> 0 < v < 1 ->
  derivable_pt_lim (fun x => nth 0 (obj_surface_point Rops true 2 2 1 Uu_ex Uv_ex 4 2 Pw_ex (x, v)) 0) u
                   (nth 0 (get3 (rat_surface_derivs Rops 3 (surface_derivs Rops 3 2 1 Uu_ex Uv_ex 4 2 Pw_ex u v 1) 1) 1 0) 0) /\
  derivable_pt_lim (fun y => nth 0 (obj_surface_point Rops true 2 2 1 Uu_ex Uv_ex 4 2 Pw_ex (u, y)) 0) v
                   (nth 0 (get3 (rat_surface_derivs Rops 3 (surface_derivs Rops 3 2 1 Uu_ex Uv_ex 4 2 Pw_ex u v 1) 1) 0 1) 0).
Proof.
  intros u v Hu Hv.
  apply (rat_surface_tangents_are_partials_of_point_deg_le_5 Uu_ex Uv_ex Pw_ex 2 1 4 2 2 Uu_ex_sorted Uv_ex_sorted Pw_ex_wf
           eq_refl ltac:(lia) ltac:(lia) ltac:(lia) ltac:(lia) eq_refl eq_refl Pw_ex_pos 1 2 1 ltac:(lia) ltac:(lia) 0 u v
           ltac:(lia) ltac:(lia)).
  - cbn [kn nth Nat.add Uu_ex]. exact Hu.
  - cbn [kn nth Nat.add Uv_ex]. exact Hv.
Qed.

(* the same net read as a non-rational surface in 3-D: mixed partial (1,1) at order 2 *)
Example surface_mixed_partial_sanity : forall u v, 0 < u < 1 -> 0 <= v < 1 ->
  derivable_pt_lim (fun x => nth 0 (get3 (surface_derivs Rops 3 2 1 Uu_ex Uv_ex 4 2 Pw_ex x v 2) 0 1) 0) u
                   (nth 0 (get3 (surface_derivs Rops 3 2 1 Uu_ex Uv_ex 4 2 Pw_ex u v 2) 1 1) 0).
Proof.
  intros u v Hu Hv.
  apply (surface_derivs_partial_u_deg_le_5 Uu_ex Uv_ex Pw_ex 2 1 4 2 3 Uu_ex_sorted Uv_ex_sorted Pw_ex_wf
           eq_refl ltac:(lia) ltac:(lia) ltac:(lia) ltac:(lia) eq_refl eq_refl 2 ltac:(lia) 2 0 1 0 u v
           ltac:(lia) ltac:(lia) ltac:(lia)).
  - cbn [kn nth Nat.add Uu_ex]. exact Hu.
  - cbn [kn nth Uv_ex]. exact Hv.
Qed.
