(* C03: inside an open knot span every non-vanishing basis function is strictly positive. *)
From Coq Require Import List Reals Lra Lia Arith Bool.
From NV Require Import Scalar.Ops Model.Common Model.Basis Proofs.BasisR.
Import ListNotations.
Open Scope R_scope.

Section P.
Variables (U : list R) (u : R) (span : nat).
Hypothesis Usorted : sortedR U.
Hypothesis Hspan : knR U span < u < knR U (span + 1).

Lemma left_pos j : (1 <= j)%nat -> (span + 1 < length U)%nat -> 0 < Basis.left Rops U span u j.
Proof. intros. unfold Basis.left. rsimp. assert (knR U (span + 1 - j) <= knR U span) by (apply Usorted; lia). lra. Qed.
Lemma right_pos' r : (span + S r < length U)%nat -> 0 < Basis.right Rops U span u (S r).
Proof. intros. unfold Basis.right. rsimp. assert (knR U (span + 1) <= knR U (span + S r)) by (apply Usorted; lia). lra. Qed.

Lemma inner_pos j : (1 <= j <= span)%nat -> (span + j < length U)%nat -> forall Nold r saved, (r + length Nold = j)%nat ->
  (0 < saved \/ (saved = 0 /\ Nold <> [])) -> Forall (fun x => 0 < x) Nold ->
  Forall (fun x => 0 < x) (Basis.inner Rops U span u j r Nold saved).
Proof.
  intros Hj HL. induction Nold as [|x rest IH]; intros r saved Hlen Hs HN; cbn [Basis.inner].
  - constructor; [|constructor]. destruct Hs as [H|[_ H]]; [exact H|congruence].
  - cbn [length] in Hlen. apply Forall_cons_iff in HN. destruct HN as [Hx Hrest].
    assert (Hr : 0 < Basis.right Rops U span u (S r)) by (apply right_pos'; lia).
    assert (Hl : 0 < Basis.left Rops U span u (j - r)) by (apply left_pos; lia).
    rsimp.
    assert (Ht : 0 < x / (Basis.right Rops U span u (S r) + Basis.left Rops U span u (j - r))).
    { apply Rmult_lt_0_compat; [exact Hx|]. apply Rinv_0_lt_compat. lra. }
    assert (0 <= saved) by (destruct Hs as [H|[H _]]; lra).
    constructor.
    + assert (0 < Basis.right Rops U span u (S r) * (x / (Basis.right Rops U span u (S r) + Basis.left Rops U span u (j - r)))) by (apply Rmult_lt_0_compat; assumption). lra.
    + apply IH; try lia; auto. left. apply Rmult_lt_0_compat; assumption.
Qed.

Theorem bf_strictly_positive p : (p <= span)%nat -> (span + p < length U)%nat -> (span + 1 < length U)%nat ->
  Forall (fun x => 0 < x) (basis_function Rops p U span u).
Proof.
  induction p; intros Hp HL HL1; cbn [basis_function].
  - constructor; [rsimp; lra|constructor].
  - apply inner_pos; try lia.
    + pose proof (bf_length U u span p). lia.
    + right. split; [reflexivity|]. intros E. pose proof (bf_length U u span p) as H. rewrite E in H. cbn in H. lia.
    + apply IHp; lia.
Qed.
End P.
