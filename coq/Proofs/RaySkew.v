(* C20, 3-D ray-ray intersection, the non-parallel branch of ray._intersect3d (Model/Geom2D.v `intersect3d`):
   the returned parameters are the feet of the common perpendicular (= the least-squares closest points), the
   distance of the two evaluated points is |(p2-p1).(d1 x d2)| / |d1 x d2| (scalar triple product), the status is
   SKEW exactly when that distance is >= tol, INTERSECT exactly when it is < tol, the lines meet exactly when the
   triple product vanishes, and the literal tol = 0 call never reports INTERSECT.
   Only new lemmas; nothing existing is modified. *)
From Coq Require Import List Arith Bool Lia Reals Lra Psatz ZArith.
From NV Require Import Scalar.Ops Model.Common Model.Geom2D Proofs.Geom2DR.
Import ListNotations.
Local Open Scope R_scope.

(* ------------------------------------------------------------------ the quantities of the statement *)
Notation rayR := (list R * list R)%type.
(* d1 x d2 *)
Definition ray_cross (r1 r2 : rayR) : list R := cross3 Rops (ray_d Rops r1) (ray_d Rops r2).
(* |d1 x d2|^2 *)
Definition ray_cc (r1 r2 : rayR) : R := vdot Rops (ray_cross r1 r2) (ray_cross r1 r2).
(* scalar triple product (p2 - p1) . (d1 x d2) *)
Definition ray_triple (r1 r2 : rayR) : R := vdot Rops (vsub Rops (ray_p r2) (ray_p r1)) (ray_cross r1 r2).
(* distance of the two lines: |(p2-p1).(d1 x d2)| / |d1 x d2| *)
Definition line_dist (r1 r2 : rayR) : R := Rabs (ray_triple r1 r2) / sqrt (ray_cc r1 r2).
(* the parameters computed by the code *)
Definition foot1 (r1 r2 : rayR) : R :=
  vdot Rops (cross3 Rops (vsub Rops (ray_p r2) (ray_p r1)) (ray_d Rops r2)) (ray_cross r1 r2) / ray_cc r1 r2.
Definition foot2 (r1 r2 : rayR) : R :=
  vdot Rops (cross3 Rops (vsub Rops (ray_p r2) (ray_p r1)) (ray_d Rops r1)) (ray_cross r1 r2) / ray_cc r1 r2.
(* the two lines meet *)
Definition lines_meet (r1 r2 : rayR) : Prop := exists s1 s2, ray_eval Rops r1 s1 = ray_eval Rops r2 s2.
(* the connecting vector ray2(s2) - ray1(s1) *)
Definition conn (r1 r2 : rayR) (s1 s2 : R) : list R := vsub Rops (ray_eval Rops r2 s2) (ray_eval Rops r1 s1).

Lemma sq_nonneg x : 0 <= x * x.
Proof. nra. Qed.
Lemma sum3_sq_zero a b c : a * a + (b * b + (c * c + 0)) = 0 -> a = 0 /\ b = 0 /\ c = 0.
Proof. intros H. pose proof (sq_nonneg a). pose proof (sq_nonneg b). pose proof (sq_nonneg c). repeat split; nra. Qed.

Ltac unf :=
  unfold conn, foot1, foot2, line_dist, ray_triple, ray_cc, ray_cross, dist2, ray_eval, ray_d, ray_p, cross3, vadd, vsub,
         vdot, cx, cy, cz in *;
  cbn [fst snd combine map List.nth sumT] in *; rsimp.

Section Rays.
Variables p1x p1y p1z p2x p2y p2z q1x q1y q1z q2x q2y q2z : R.
Let r1 : rayR := ([p1x; p1y; p1z], [p2x; p2y; p2z]).
Let r2 : rayR := ([q1x; q1y; q1z], [q2x; q2y; q2z]).

(* |d1 x d2|^2 <> 0 follows from "cross product not below a positive tolerance" *)
Lemma not_colinear_cc tol : 0 < tol ->
  vector_is_zero Rops tol (ray_cross r1 r2) = false -> ray_cc r1 r2 <> 0.
Proof.
  intros Ht Hz H0. subst r1 r2. unf.
  apply sum3_sq_zero in H0. destruct H0 as [Z1 [Z2 Z3]].
  rewrite Z1, Z2, Z3 in Hz.
  assert (E : vector_is_zero Rops tol [0; 0; 0] = true) by (apply vector_is_zero3; rewrite Rabs_R0; lra).
  congruence.
Qed.
Lemma cc_nonneg : 0 <= ray_cc r1 r2.
Proof.
  subst r1 r2. unf.
  match goal with |- 0 <= ?a * ?a + (?b * ?b + (?c * ?c + 0)) =>
    pose proof (sq_nonneg a); pose proof (sq_nonneg b); pose proof (sq_nonneg c) end. lra.
Qed.
Lemma cc_pos : ray_cc r1 r2 <> 0 -> 0 < ray_cc r1 r2.
Proof. pose proof cc_nonneg. lra. Qed.

(* ---------------------------------------------------------------- (a) the returned parameters *)
(* the code's output in the non-parallel branch *)
Lemma intersect3d_nonparallel tol :
  vector_is_zero Rops tol (ray_cross r1 r2) = false ->
  intersect3d Rops tol r1 r2 =
    (foot1 r1 r2, foot2 r1 r2,
     if Rltb (dist2 Rops (ray_eval Rops r1 (foot1 r1 r2)) (ray_eval Rops r2 (foot2 r1 r2))) (tol * tol)
     then INTERSECT else SKEW).
Proof.
  intros Hz. unfold intersect3d. fold (ray_cross r1 r2). rewrite Hz.
  fold (ray_cc r1 r2). fold (foot1 r1 r2). fold (foot2 r1 r2).
  cbn [oltb Rops omul]. destruct (Rltb _ _); reflexivity.
Qed.

(* the connecting vector at the returned parameters is (triple / |c|^2) * (d1 x d2): it is the common perpendicular *)
Theorem conn_at_feet : ray_cc r1 r2 <> 0 ->
  conn r1 r2 (foot1 r1 r2) (foot2 r1 r2) =
  map (fun x => ray_triple r1 r2 / ray_cc r1 r2 * x) (ray_cross r1 r2).
Proof.
  intros Hc. subst r1 r2. unf. f_equal; [|f_equal; [|f_equal]]; field; intro Hx; apply Hc; lra.
Qed.

(* [G] the connecting vector of the returned points is perpendicular to both directions *)
Theorem feet_perpendicular : ray_cc r1 r2 <> 0 ->
  vdot Rops (conn r1 r2 (foot1 r1 r2) (foot2 r1 r2)) (ray_d Rops r1) = 0 /\
  vdot Rops (conn r1 r2 (foot1 r1 r2) (foot2 r1 r2)) (ray_d Rops r2) = 0.
Proof.
  intros Hc. rewrite (conn_at_feet Hc). subst r1 r2. unf. split; field; intro Hx; apply Hc; lra.
Qed.

(* Pythagoras around any pair of perpendicular feet *)
Lemma dist2_pythagoras t1 t2 s1 s2 :
  vdot Rops (conn r1 r2 t1 t2) (ray_d Rops r1) = 0 ->
  vdot Rops (conn r1 r2 t1 t2) (ray_d Rops r2) = 0 ->
  dist2 Rops (ray_eval Rops r1 s1) (ray_eval Rops r2 s2) =
  dist2 Rops (ray_eval Rops r1 t1) (ray_eval Rops r2 t2) +
  let v := vsub Rops (map (fun x => (s2 - t2) * x) (ray_d Rops r2)) (map (fun x => (s1 - t1) * x) (ray_d Rops r1)) in
  vdot Rops v v.
Proof.
  intros H1 H2. subst r1 r2. unf. cbv zeta. cbn [fst snd combine map sumT]. rsimp.
  match goal with |- ?l = ?r =>
    match type of H1 with ?a = 0 => match type of H2 with ?b = 0 =>
      replace l with (r + 2 * ((s2 - t2) * b - (s1 - t1) * a)) by ring end end end.
  rewrite H1, H2. ring.
Qed.

(* [G] least squares: the returned points minimise the distance between a point of line 1 and a point of line 2 *)
Theorem feet_least_squares : ray_cc r1 r2 <> 0 -> forall s1 s2,
  dist2 Rops (ray_eval Rops r1 (foot1 r1 r2)) (ray_eval Rops r2 (foot2 r1 r2)) <=
  dist2 Rops (ray_eval Rops r1 s1) (ray_eval Rops r2 s2).
Proof.
  intros Hc s1 s2. destruct (feet_perpendicular Hc) as [H1 H2].
  rewrite (dist2_pythagoras _ _ s1 s2 H1 H2). cbv zeta.
  match goal with |- _ <= _ + vdot Rops ?v ?v => assert (0 <= vdot Rops v v) end; [|lra].
  clear H1 H2. set (t1 := foot1 r1 r2). set (t2 := foot2 r1 r2). clearbody t1 t2.
  subst r1 r2. unf.
  match goal with |- 0 <= ?a * ?a + (?b * ?b + (?c * ?c + 0)) =>
    pose proof (sq_nonneg a); pose proof (sq_nonneg b); pose proof (sq_nonneg c) end. lra.
Qed.

(* [G] uniqueness: the returned parameters are the only pair whose connecting vector is perpendicular to both lines *)
Theorem feet_unique : ray_cc r1 r2 <> 0 -> forall s1 s2,
  vdot Rops (conn r1 r2 s1 s2) (ray_d Rops r1) = 0 ->
  vdot Rops (conn r1 r2 s1 s2) (ray_d Rops r2) = 0 ->
  s1 = foot1 r1 r2 /\ s2 = foot2 r1 r2.
Proof.
  intros Hc s1 s2 G1 G2. destruct (feet_perpendicular Hc) as [H1 H2].
  pose proof (dist2_pythagoras _ _ s1 s2 H1 H2) as P1.
  pose proof (dist2_pythagoras _ _ (foot1 r1 r2) (foot2 r1 r2) G1 G2) as P2.
  cbv zeta in P1, P2.
  set (t1 := foot1 r1 r2) in *. set (t2 := foot2 r1 r2) in *.
  clearbody t1 t2. clear H1 H2 G1 G2.
  subst r1 r2. unf.
  set (d1x := p2x - p1x) in *. set (d1y := p2y - p1y) in *. set (d1z := p2z - p1z) in *.
  set (d2x := q2x - q1x) in *. set (d2y := q2y - q1y) in *. set (d2z := q2z - q1z) in *.
  set (vx := (s2 - t2) * d2x - (s1 - t1) * d1x) in *.
  set (vy := (s2 - t2) * d2y - (s1 - t1) * d1y) in *.
  set (vz := (s2 - t2) * d2z - (s1 - t1) * d1z) in *.
  assert (V : vx * vx + (vy * vy + (vz * vz + 0)) = 0).
  { assert (E : (t2 - s2) * d2x - (t1 - s1) * d1x = - vx) by (subst vx; ring). rewrite E in P2.
    assert (E2 : (t2 - s2) * d2y - (t1 - s1) * d1y = - vy) by (subst vy; ring). rewrite E2 in P2.
    assert (E3 : (t2 - s2) * d2z - (t1 - s1) * d1z = - vz) by (subst vz; ring). rewrite E3 in P2.
    pose proof (sq_nonneg vx). pose proof (sq_nonneg vy). pose proof (sq_nonneg vz). nra. }
  apply sum3_sq_zero in V. destruct V as [Vx [Vy Vz]].
  set (c1 := d1y * d2z - d1z * d2y) in *. set (c2 := d1z * d2x - d1x * d2z) in *. set (c3 := d1x * d2y - d1y * d2x) in *.
  assert (A2 : (s2 - t2) * (c1 * c1 + (c2 * c2 + (c3 * c3 + 0))) = 0).
  { replace ((s2 - t2) * (c1 * c1 + (c2 * c2 + (c3 * c3 + 0))))
      with (c1 * (d1y * vz - d1z * vy) + c2 * (d1z * vx - d1x * vz) + c3 * (d1x * vy - d1y * vx))
      by (subst vx vy vz c1 c2 c3; ring).
    rewrite Vx, Vy, Vz. ring. }
  assert (A1 : (s1 - t1) * (c1 * c1 + (c2 * c2 + (c3 * c3 + 0))) = 0).
  { replace ((s1 - t1) * (c1 * c1 + (c2 * c2 + (c3 * c3 + 0))))
      with (c1 * (d2y * vz - d2z * vy) + c2 * (d2z * vx - d2x * vz) + c3 * (d2x * vy - d2y * vx))
      by (subst vx vy vz c1 c2 c3; ring).
    rewrite Vx, Vy, Vz. ring. }
  apply Rmult_integral in A1, A2. split; [destruct A1|destruct A2]; try contradiction; lra.
Qed.

(* ---------------------------------------------------------------- the distance of the returned points *)
(* [G] squared distance of the returned points = triple^2 / |d1 x d2|^2 *)
Theorem feet_dist2 : ray_cc r1 r2 <> 0 ->
  dist2 Rops (ray_eval Rops r1 (foot1 r1 r2)) (ray_eval Rops r2 (foot2 r1 r2)) =
  ray_triple r1 r2 * ray_triple r1 r2 / ray_cc r1 r2.
Proof.
  intros Hc. pose proof (conn_at_feet Hc) as E.
  unfold dist2. fold (conn r1 r2 (foot1 r1 r2) (foot2 r1 r2)). rewrite E.
  set (k := ray_triple r1 r2 / ray_cc r1 r2).
  assert (Ek : ray_triple r1 r2 * ray_triple r1 r2 / ray_cc r1 r2 = k * k * ray_cc r1 r2).
  { subst k. field. exact Hc. }
  rewrite Ek. clearbody k. clear E Ek. subst r1 r2. unf. ring.
Qed.

(* [G] ... and the distance itself is line_dist = |triple| / |d1 x d2| *)
Theorem feet_dist_sqr : ray_cc r1 r2 <> 0 ->
  dist2 Rops (ray_eval Rops r1 (foot1 r1 r2)) (ray_eval Rops r2 (foot2 r1 r2)) = line_dist r1 r2 * line_dist r1 r2.
Proof.
  intros Hc. rewrite (feet_dist2 Hc). unfold line_dist.
  pose proof (cc_pos Hc) as Hp. pose proof (sqrt_lt_R0 _ Hp) as Hs.
  assert (Hs2 : sqrt (ray_cc r1 r2) * sqrt (ray_cc r1 r2) = ray_cc r1 r2) by (apply sqrt_sqrt; lra).
  assert (Ha : Rabs (ray_triple r1 r2) * Rabs (ray_triple r1 r2) = ray_triple r1 r2 * ray_triple r1 r2).
  { unfold Rabs. destruct (Rcase_abs _); ring. }
  set (s := sqrt (ray_cc r1 r2)) in *. rewrite <- Hs2, <- Ha. field. lra.
Qed.
Lemma line_dist_nonneg : ray_cc r1 r2 <> 0 -> 0 <= line_dist r1 r2.
Proof.
  intros Hc. unfold line_dist. pose proof (sqrt_lt_R0 _ (cc_pos Hc)). pose proof (Rabs_pos (ray_triple r1 r2)).
  apply Rmult_le_pos; [assumption|]. left. apply Rinv_0_lt_compat. assumption.
Qed.
Lemma sq_le_iff a b : 0 <= a -> 0 <= b -> (a * a <= b * b <-> a <= b).
Proof. intros Ha Hb. split; intros H; nra. Qed.

(* ---------------------------------------------------------------- meeting lines *)
(* [G] non-parallel lines meet iff they are coplanar (triple product zero), iff the returned points coincide *)
Theorem lines_meet_iff_triple_zero : ray_cc r1 r2 <> 0 ->
  (lines_meet r1 r2 <-> ray_triple r1 r2 = 0).
Proof.
  intros Hc. split.
  - intros [s1 [s2 E]]. subst r1 r2. unf. injection E as E1 E2 E3.
    replace (q1x - p1x) with ((p2x - p1x) * s1 - (q2x - q1x) * s2) by lra.
    replace (q1y - p1y) with ((p2y - p1y) * s1 - (q2y - q1y) * s2) by lra.
    replace (q1z - p1z) with ((p2z - p1z) * s1 - (q2z - q1z) * s2) by lra.
    ring.
  - intros Ht. exists (foot1 r1 r2), (foot2 r1 r2).
    pose proof (conn_at_feet Hc) as E. rewrite Ht in E.
    set (t1 := foot1 r1 r2) in *. set (t2 := foot2 r1 r2) in *. clearbody t1 t2.
    subst r1 r2. unf. injection E as E1 E2 E3.
    unfold Rdiv in E1, E2, E3. rewrite !Rmult_0_l in E1, E2, E3.
    f_equal; [lra|f_equal; [lra|f_equal; lra]].
Qed.
Theorem triple_zero_points_coincide : ray_cc r1 r2 <> 0 -> ray_triple r1 r2 = 0 ->
  ray_eval Rops r1 (foot1 r1 r2) = ray_eval Rops r2 (foot2 r1 r2).
Proof.
  intros Hc Ht. pose proof (conn_at_feet Hc) as E. rewrite Ht in E.
  set (t1 := foot1 r1 r2) in *. set (t2 := foot2 r1 r2) in *. clearbody t1 t2.
  subst r1 r2. unf. injection E as E1 E2 E3.
  unfold Rdiv in E1, E2, E3. rewrite !Rmult_0_l in E1, E2, E3.
  f_equal; [lra|f_equal; [lra|f_equal; lra]].
Qed.

(* ---------------------------------------------------------------- (b) the status *)
(* [G] non-parallel branch: parameters = feet of the common perpendicular; SKEW iff the line distance is >= tol,
   INTERSECT iff it is < tol (never COLINEAR) *)
Theorem intersect3d_skew_iff tol : 0 < tol ->
  vector_is_zero Rops tol (ray_cross r1 r2) = false ->
  let '(t1, t2, st) := intersect3d Rops tol r1 r2 in
  t1 = foot1 r1 r2 /\ t2 = foot2 r1 r2 /\
  (st = SKEW <-> tol <= line_dist r1 r2) /\
  (st = INTERSECT <-> line_dist r1 r2 < tol) /\
  (st = SKEW <-> tol * tol <= dist2 Rops (ray_eval Rops r1 t1) (ray_eval Rops r2 t2)) /\
  (st = SKEW <-> tol * tol * ray_cc r1 r2 <= ray_triple r1 r2 * ray_triple r1 r2) /\
  st <> COLINEAR.
Proof.
  intros Ht Hz. pose proof (not_colinear_cc tol Ht Hz) as Hc.
  rewrite (intersect3d_nonparallel tol Hz).
  pose proof (feet_dist_sqr Hc) as Hd. pose proof (feet_dist2 Hc) as Hd2.
  pose proof (line_dist_nonneg Hc) as Hl. pose proof (cc_pos Hc) as Hp.
  set (D := dist2 Rops _ _) in *. set (L := line_dist r1 r2) in *.
  assert (Hq : tol * tol <= D <-> tol * tol * ray_cc r1 r2 <= ray_triple r1 r2 * ray_triple r1 r2).
  { rewrite Hd2. set (c := ray_cc r1 r2) in *. set (tr := ray_triple r1 r2) in *. split; intros H.
    - apply (Rmult_le_compat_r c) in H; [|lra]. replace (tr * tr / c * c) with (tr * tr) in H by (field; lra). exact H.
    - apply (Rmult_le_reg_r c); [exact Hp|]. replace (tr * tr / c * c) with (tr * tr) by (field; lra). exact H. }
  assert (Hle : tol * tol <= D <-> tol <= L). { rewrite Hd. apply sq_le_iff; lra. }
  split; [reflexivity|]. split; [reflexivity|].
  destruct (Rltb D (tol * tol)) eqn:E.
  - apply Rltb_true in E.
    assert (N2 : L < tol).
    { destruct (Rlt_dec L tol); [assumption|]. exfalso. assert (H0 : tol <= L) by lra. apply Hle in H0. lra. }
    refine (conj _ (conj _ (conj _ (conj _ _)))).
    + split; [discriminate|]. intro H. exfalso. apply Hle in H. lra.
    + split; [intros _; exact N2|reflexivity].
    + split; [discriminate|]. intro H. exfalso. lra.
    + split; [discriminate|]. intro H. exfalso. apply Hq in H. lra.
    + discriminate.
  - apply Rltb_false in E.
    refine (conj _ (conj _ (conj _ (conj _ _)))).
    + split; [intros _; apply Hle; exact E|reflexivity].
    + split; [discriminate|]. intro H. exfalso. apply Hle in E. lra.
    + split; [intros _; exact E|reflexivity].
    + split; [intros _; apply Hq; exact E|reflexivity].
    + discriminate.
Qed.

(* [G] if the lines do not meet and tol does not exceed their distance |(p2-p1).(d1 x d2)| / |d1 x d2|, the answer is
   (feet, SKEW) *)
Theorem intersect3d_nonmeeting_skew tol : 0 < tol ->
  vector_is_zero Rops tol (ray_cross r1 r2) = false ->
  ~ lines_meet r1 r2 ->
  tol <= Rabs (ray_triple r1 r2) / sqrt (ray_cc r1 r2) ->
  intersect3d Rops tol r1 r2 = (foot1 r1 r2, foot2 r1 r2, SKEW).
Proof.
  intros Ht Hz _ Hd. pose proof (intersect3d_skew_iff tol Ht Hz) as H.
  destruct (intersect3d Rops tol r1 r2) as [[t1 t2] st].
  destruct H as [-> [-> [Hs _]]]. fold (line_dist r1 r2) in Hd. apply Hs in Hd. rewrite Hd. reflexivity.
Qed.
(* non-meeting lines have a positive distance, so a small enough tolerance exists *)
Theorem nonmeeting_positive_distance : ray_cc r1 r2 <> 0 -> ~ lines_meet r1 r2 -> 0 < line_dist r1 r2.
Proof.
  intros Hc Hn. unfold line_dist. pose proof (sqrt_lt_R0 _ (cc_pos Hc)).
  assert (ray_triple r1 r2 <> 0). { intro E. apply Hn. apply (lines_meet_iff_triple_zero Hc). exact E. }
  apply Rmult_lt_0_compat; [apply Rabs_pos_lt; assumption|apply Rinv_0_lt_compat; assumption].
Qed.

(* [G] conversely: INTERSECT means the evaluated points are within tol, and the true distance of the lines is < tol *)
Theorem intersect3d_intersect_within_tol tol t1 t2 : 0 < tol ->
  vector_is_zero Rops tol (ray_cross r1 r2) = false ->
  intersect3d Rops tol r1 r2 = (t1, t2, INTERSECT) ->
  dist2 Rops (ray_eval Rops r1 t1) (ray_eval Rops r2 t2) < tol * tol /\
  line_dist r1 r2 < tol /\
  (forall s1 s2, dist2 Rops (ray_eval Rops r1 t1) (ray_eval Rops r2 t2) <=
                 dist2 Rops (ray_eval Rops r1 s1) (ray_eval Rops r2 s2)).
Proof.
  intros Ht Hz E. pose proof (intersect3d_skew_iff tol Ht Hz) as H. pose proof (not_colinear_cc tol Ht Hz) as Hc.
  pose proof (intersect3d_status tol r1 r2) as S.
  rewrite E in H, S. destruct H as [-> [-> [_ [Hi _]]]]. destruct S as [_ [S _]].
  split; [apply S; reflexivity|]. split; [apply Hi; reflexivity|]. apply (feet_least_squares Hc).
Qed.

(* ---------------------------------------------------------------- exact arithmetic *)
(* [G] the exact classification (what the status means when the tolerance plays no role): for non-parallel lines and
   EVERY admissible positive tolerance, coplanar lines are reported INTERSECT with coinciding points; non-coplanar lines
   are reported SKEW for every tolerance up to their distance.  So "INTERSECT for all small tol iff the lines meet iff
   the triple product is zero" and "SKEW for all small tol iff the triple product is non-zero". *)
Theorem intersect3d_exact_classification : ray_cc r1 r2 <> 0 ->
  (lines_meet r1 r2 <-> ray_triple r1 r2 = 0) /\
  (ray_triple r1 r2 = 0 -> forall tol, 0 < tol -> vector_is_zero Rops tol (ray_cross r1 r2) = false ->
     intersect3d Rops tol r1 r2 = (foot1 r1 r2, foot2 r1 r2, INTERSECT) /\
     ray_eval Rops r1 (foot1 r1 r2) = ray_eval Rops r2 (foot2 r1 r2)) /\
  (ray_triple r1 r2 <> 0 -> 0 < line_dist r1 r2 /\
     forall tol, 0 < tol <= line_dist r1 r2 -> vector_is_zero Rops tol (ray_cross r1 r2) = false ->
     intersect3d Rops tol r1 r2 = (foot1 r1 r2, foot2 r1 r2, SKEW)).
Proof.
  intros Hc. split; [exact (lines_meet_iff_triple_zero Hc)|]. split.
  - intros T0 tol Ht Hz. split; [|exact (triple_zero_points_coincide Hc T0)].
    pose proof (intersect3d_skew_iff tol Ht Hz) as H.
    destruct (intersect3d Rops tol r1 r2) as [[t1 t2] st]. destruct H as [-> [-> [_ [Hi _]]]].
    assert (L0 : line_dist r1 r2 = 0). { unfold line_dist. rewrite T0, Rabs_R0. unfold Rdiv. ring. }
    rewrite L0 in Hi. rewrite (proj2 Hi Ht). reflexivity.
  - intros Tn.
    assert (Hn : ~ lines_meet r1 r2). { intro M. apply Tn. apply (lines_meet_iff_triple_zero Hc). exact M. }
    split; [exact (nonmeeting_positive_distance Hc Hn)|].
    intros tol [Ht Hl] Hz. apply (intersect3d_nonmeeting_skew tol Ht Hz Hn). exact Hl.
Qed.

(* [G] the literal tol = 0 call: `point_distance < 0` is never true, so the status is SKEW for ALL non-parallel lines,
   also for lines that meet exactly; "tol = 0 => INTERSECT iff the lines meet" is therefore false for the code, the
   exact statement is the limit form above.  (With tol = 0 the colinear test is never taken either.) *)
Theorem intersect3d_tol0_always_skew :
  intersect3d Rops 0 r1 r2 = (foot1 r1 r2, foot2 r1 r2, SKEW).
Proof.
  assert (Hz : vector_is_zero Rops 0 (ray_cross r1 r2) = false).
  { destruct (vector_is_zero Rops 0 (ray_cross r1 r2)) eqn:E; [|reflexivity]. exfalso.
    subst r1 r2. unfold ray_cross, cross3 in E. apply vector_is_zero3 in E. destruct E as [E _].
    pose proof (Rabs_pos (cy Rops (ray_d Rops ([p1x; p1y; p1z], [p2x; p2y; p2z])) * cz Rops (ray_d Rops ([q1x; q1y; q1z], [q2x; q2y; q2z])) -
                          cz Rops (ray_d Rops ([p1x; p1y; p1z], [p2x; p2y; p2z])) * cy Rops (ray_d Rops ([q1x; q1y; q1z], [q2x; q2y; q2z])))).
    rsimp. lra. }
  rewrite (intersect3d_nonparallel 0 Hz).
  match goal with |- context [Rltb ?a ?b] => destruct (Rltb a b) eqn:E end; [|reflexivity].
  exfalso. apply Rltb_true in E.
  assert (0 <= dist2 Rops (ray_eval Rops r1 (foot1 r1 r2)) (ray_eval Rops r2 (foot2 r1 r2))).
  { clear E Hz. set (t1 := foot1 r1 r2). set (t2 := foot2 r1 r2). clearbody t1 t2. subst r1 r2. unf.
    match goal with |- 0 <= ?a * ?a + (?b * ?b + (?c * ?c + 0)) =>
      pose proof (sq_nonneg a); pose proof (sq_nonneg b); pose proof (sq_nonneg c) end. lra. }
  lra.
Qed.
Corollary intersect3d_tol0_meeting_refuted :
  lines_meet r1 r2 -> snd (intersect3d Rops 0 r1 r2) <> INTERSECT.
Proof. intros _. rewrite intersect3d_tol0_always_skew. cbn. discriminate. Qed.
End Rays.

(* ------------------------------------------------------------------ 2-D: the homogeneous embedding is never SKEW *)
(* [G] 2-D rays are embedded in the plane z = 1: the triple product vanishes, so a 2-D call never answers SKEW *)
Theorem intersect_2d_never_skew tol a1 b1 a2 b2 c1 d1 c2 d2 t1 t2 st : 0 < tol ->
  intersect Rops tol ([a1; b1], [a2; b2]) ([c1; d1], [c2; d2]) = Ok (t1, t2, st) -> st <> SKEW.
Proof.
  intros Ht. unfold intersect, ray_dim, hom. cbn [fst snd length Nat.eqb negb app]. rsimp. intros E. injection E as E.
  set (r1 := ([a1; b1; 1], [a2; b2; 1])) in *. set (r2 := ([c1; d1; 1], [c2; d2; 1])) in *.
  destruct (vector_is_zero Rops tol (ray_cross r1 r2)) eqn:Hz.
  - pose proof (intersect3d_status tol r1 r2) as S. rewrite E in S. destruct S as [S _].
    fold (ray_cross r1 r2) in S. rewrite (proj2 S Hz). discriminate.
  - pose proof (not_colinear_cc a1 b1 1 a2 b2 1 c1 d1 1 c2 d2 1 tol Ht Hz) as Hc.
    assert (T0 : ray_triple r1 r2 = 0). { subst r1 r2. unf. ring. }
    destruct (intersect3d_exact_classification a1 b1 1 a2 b2 1 c1 d1 1 c2 d2 1 Hc) as [_ [H _]].
    destruct (H T0 tol Ht Hz) as [H1 _]. fold r1 r2 in H1. rewrite H1 in E. injection E as _ _ <-. discriminate.
Qed.

(* ------------------------------------------------------------------ satisfiability *)
Example ray_skew_example :      (* x-axis and the line {x = 0, z = 1}: distance 1 *)
  ray_triple ([0; 0; 0], [1; 0; 0]) ([0; 1; 1], [0; 2; 1]) = 1 /\
  ray_cc ([0; 0; 0], [1; 0; 0]) ([0; 1; 1], [0; 2; 1]) = 1 /\
  foot1 ([0; 0; 0], [1; 0; 0]) ([0; 1; 1], [0; 2; 1]) = 0 /\
  foot2 ([0; 0; 0], [1; 0; 0]) ([0; 1; 1], [0; 2; 1]) = -1.
Proof. unf. repeat split; try field; lra. Qed.

Print Assumptions intersect3d_skew_iff.
Print Assumptions intersect3d_nonmeeting_skew.
Print Assumptions intersect3d_intersect_within_tol.
Print Assumptions intersect3d_exact_classification.
Print Assumptions intersect3d_tol0_always_skew.
Print Assumptions feet_least_squares.
Print Assumptions feet_unique.
Print Assumptions intersect_2d_never_skew.
