(* Real-number theorems about knot insertion: the executable model of a single insertion (A5.1 with
   num = 1) is Boehm's formula, hence leaves every curve point (Cox-de Boor sum) unchanged. *)
From Coq Require Import List Reals Lra Lia Arith Bool Permutation.
From NV Require Import Scalar.Ops Model.Common Model.Basis Model.KnotIns Model.InsertKnot
  Proofs.Boehm Proofs.BasisR Proofs.KnotInsR.
Import ListNotations.
Open Scope R_scope.

Lemma N_ext (U V : nat -> R) : (forall i, U i = V i) -> forall p i u, N U p i u = N V p i u.
Proof.
  intros H p; induction p as [|q IH]; intros i u; cbn [N].
  - rewrite !H. reflexivity.
  - rewrite !IH, !H. reflexivity.
Qed.

(* ---- the knot vector after one insertion, as a total function, is Boehm's Ub ---- *)
Lemma last_kv (U : list R) t k r : (S k < length U)%nat -> last (knot_insertion_kv U t k r) 0 = last U 0.
Proof.
  intros Hk.
  assert (Hne : U <> []) by (destruct U; cbn in *; [lia|congruence]).
  assert (HneV : knot_insertion_kv U t k r <> []).
  { intro E. apply (f_equal (@length R)) in E. rewrite kv_length in E. cbn in E. lia. }
  rewrite (last_nth _ 0 HneV), (last_nth _ 0 Hne), kv_length.
  rewrite kv_nth by lia.
  destruct (Nat.leb_spec (length U + r - 1) k); try lia.
  destruct (Nat.leb_spec (length U + r - 1) (k + r)); try lia.
  f_equal. lia.
Qed.

Lemma Ufun_kv1 (U : list R) t k i : (S k < length U)%nat ->
  Ufun (knot_insertion_kv U t k 1) i = Ub (Ufun U) k t i.
Proof.
  intros Hk. unfold Ufun at 1. rewrite kv_nth by lia. rewrite last_kv by lia.
  unfold Ub.
  destruct (Nat.leb_spec i k).
  - reflexivity.
  - destruct (Nat.leb_spec i (k + 1)); destruct (Nat.eqb_spec i (S k)); try lia.
    + reflexivity.
    + unfold Ufun. f_equal. lia.
Qed.

(* ---- curve points as Cox-de Boor sums, coordinate-wise ---- *)
Definition coord (c : nat) (P : list (list R)) (i : nat) : R := nth c (getp P i) 0.
Definition curve_pt (p : nat) (U : list R) (P : list (list R)) (c : nat) (t : R) : R :=
  sumf (fun i => N (Ufun U) p i t * coord c P i) (length P).

Section Insert1.
Variables (p : nat) (U : list R) (P : list (list R)) (u : R) (s k dim : nat).
Hypothesis Usorted : sortedR U.
Hypothesis HlenU : length U = (length P + p + 1)%nat.
Hypothesis Hsp : (s < p)%nat.
Hypothesis Hpk : (p <= k)%nat.
Hypothesis Hk : (k < length P)%nat.
Hypothesis Hu : knR U k <= u < knR U (k + 1).
Hypothesis Hmult : forall i, (k - s < i <= k)%nat -> knR U i = u.
Hypothesis Hdim : forall i, (i < length P)%nat -> length (getp P i) = dim.

Let Q := knot_insertion Rops p U P u 1 s k.
Let V := knot_insertion_kv U u k 1.

(* the model's new control points are Boehm's Q_i = alpha_i P_i + (1 - alpha_i) P_{i-1} *)
Lemma insert1_is_boehm c i : (c < dim)%nat -> (i < S (length P))%nat ->
  coord c Q i = alpha (Ufun U) k u p i * coord c P i + (1 - alpha (Ufun U) k u p i) * coord c P (pred i).
Proof.
  intros Hc Hi. unfold coord, Q. rewrite knot_insertion1_nth by assumption.
  replace (pred i) with (i - 1)%nat by lia.
  destruct (Nat.leb_spec i (k - p)).
  - rewrite alpha_one by lia. ring.
  - destruct (Nat.leb_spec i (k - s)).
    + rewrite alpha_frac by lia.
      change 0 with (o0 Rops). rewrite lerp_nth by (rewrite Hdim; lia). rsimp.
      unfold ins_alpha. rsimp.
      replace (k - p + 1 + (i - (k - p + 1)))%nat with i by lia.
      replace (S (i - (k - p + 1) + k)) with (i + p)%nat by lia.
      rewrite !Ufun_in by lia. ring.
    + destruct (le_lt_dec i k).
      * rewrite alpha_frac by lia. rewrite Ufun_in by lia. rewrite Hmult by lia.
        unfold Rdiv. ring.
      * rewrite alpha_zero by lia. ring.
Qed.

Theorem insert1_model_preserves_curve c t : (c < dim)%nat -> curve_pt p V Q c t = curve_pt p U P c t.
Proof.
  intros Hc. unfold curve_pt.
  assert (HlQ : length Q = S (length P)) by (apply knot_insertion1_length; assumption).
  rewrite HlQ.
  assert (Ht : Ufun U k <= u < Ufun U (S k)).
  { rewrite !Ufun_in by lia. replace (S k) with (k + 1)%nat by lia. exact Hu. }
  rewrite (insert1_preserves_curve (Ufun U) (Ufun_sorted U Usorted) k u Ht p (length P) (coord c P) t Hpk Hk).
  apply sumf_ext. intros i Hi.
  rewrite (N_ext (Ufun V) (Ub (Ufun U) k u)) by (intros j; apply Ufun_kv1; lia).
  rewrite insert1_is_boehm by assumption. reflexivity.
Qed.
End Insert1.

(* ---- knot vector specification: sorted, U plus r copies of u ---- *)
Lemma kv_sorted (U : list R) u k r : sortedR U -> (k < length U)%nat -> knR U k <= u ->
  ((S k < length U)%nat -> u <= knR U (S k)) -> sortedR (knot_insertion_kv U u k r).
Proof.
  intros Hs Hk H1 H2 i j Hij. rewrite kv_length in Hij.
  rewrite !knot_insertion_kv_nth by assumption.
  destruct (Nat.leb_spec i k); destruct (Nat.leb_spec j k); try lia.
  - apply Hs. lia.
  - destruct (Nat.leb_spec j (k + r)).
    + assert (knR U i <= knR U k) by (apply Hs; lia). lra.
    + assert (knR U i <= knR U k) by (apply Hs; lia).
      assert (u <= knR U (S k)) by (apply H2; lia).
      assert (knR U (S k) <= knR U (j - r)) by (apply Hs; lia). lra.
  - destruct (Nat.leb_spec i (k + r)); destruct (Nat.leb_spec j (k + r)); try lia.
    + lra.
    + assert (u <= knR U (S k)) by (apply H2; lia).
      assert (knR U (S k) <= knR U (j - r)) by (apply Hs; lia). lra.
    + apply Hs. lia.
Qed.
