(* Closed form of helpers.knot_insertion (A5.1) for a general number of insertions: the new control points are
   entries of the de Boor triangle R^j_i, R^0_i = P_i, R^j_i = lerp (a_{j,i}) R^{j-1}_{i-1} R^{j-1}_i.
   Generic in the scalar type and in the point type. *)
From Coq Require Import List Arith Bool Lia.
From NV Require Import Scalar.Ops Model.Common Model.Basis Model.KnotIns Model.InsertKnot Proofs.KnotInsR.
Import ListNotations.

(* case analysis on every boolean comparison of the goal; contradictory branches are closed at once *)
Ltac bdestr :=
  repeat (match goal with
  | |- context [Nat.leb ?a ?b] => destruct (Nat.leb_spec a b)
  | |- context [Nat.ltb ?a ?b] => destruct (Nat.ltb_spec a b)
  | |- context [Nat.eqb ?a ?b] => destruct (Nat.eqb_spec a b)
  end; try (exfalso; lia)); cbn [andb orb negb]; try lia.

Section Tri.
Context {T : Type} (K : ops T) {A : Type} (lerpA : T -> A -> A -> A) (dA : A).
Variables (p : nat) (U : list T) (P : list A) (u : T) (num s k : nat).
Hypothesis Hsp : s <= p.
Hypothesis Hpk : p <= k.
Hypothesis Hk : k < length P.
Hypothesis Hnum : num <= p - s.
Notation getA := (getA dA).

(* coefficient of step j at control point index i:  (u - U_i) / (U_{i+p-j+1} - U_i) *)
Definition acoef (j i : nat) : T := ins_alpha K U u k (i - (k - p + j)) (k - p + j).
Fixpoint Rtri (j i : nat) : A :=
  match j with
  | O => getA P i
  | S j' => lerpA (acoef (S j') i) (Rtri j' (i - 1)) (Rtri j' i)
  end.

Definition ki_closed (i : nat) : A :=
  if Nat.leb i (k - p) then getA P i
  else if Nat.leb i (k - p + num) then Rtri (i - (k - p)) i
  else if Nat.ltb i (k - s) then Rtri num i
  else if Nat.ltb i (k - s + num) then Rtri (k + num - s - i) (k - s)
  else getA P (i - num).

Theorem knot_insertion_g_closed i : getA (knot_insertion_g K lerpA dA p U P u num s k) i = ki_closed i.
Proof.
  unfold knot_insertion_g.
  set (np := length P).
  set (new0 := repeat dA (np + num)).
  set (new1 := fold_left (fun nw i => upd nw i (getA P i)) (seq 0 (S (k - p))) new0).
  set (new2 := fold_left (fun nw i => upd nw (i + num) (getA P i)) (seq (k - s) (np - (k - s))) new1).
  set (temp0 := map (fun i => getA P (k - p + i)) (seq 0 (S (p - s)))).
  set (body := fun (st : list A * list A) (j : nat) => _).
  assert (Hlen2 : length new2 = np + num).
  { unfold new2, new1, new0. rewrite !fold_upd_length. apply repeat_length. }
  assert (Hn2 : forall idx, nth idx new2 dA =
     if andb (Nat.leb (k - s + num) idx) (Nat.ltb idx (np + num)) then getA P (idx - num)
     else if Nat.leb idx (k - p) then getA P idx else dA).
  { intros idx. unfold new2. rewrite nth_fold_upd_shift. unfold new1. rewrite fold_upd_length, nth_fold_upd_copy.
    unfold new0. rewrite repeat_length.
    destruct (Nat.leb_spec (k - s + num) idx); destruct (Nat.ltb_spec idx (k - s + (np - (k - s)) + num));
    destruct (Nat.ltb_spec idx (np + num)); cbn [andb]; try lia; try reflexivity;
    destruct (Nat.leb_spec 0 idx); destruct (Nat.ltb_spec idx (0 + S (k - p))); destruct (Nat.leb_spec idx (k - p));
    cbn [andb]; try lia; try reflexivity; apply nth_repeat. }
  assert (Hl0 : length temp0 = S (p - s)) by (unfold temp0; rewrite map_length, seq_length; reflexivity).
  assert (Ht0 : forall m, m <= p - s -> nth m temp0 dA = getA P (k - p + m)).
  { intros m Hm. unfold temp0.
    rewrite (nth_indep _ dA (getA P (k - p + 0))) by (rewrite map_length, seq_length; lia).
    rewrite (map_nth (fun i => getA P (k - p + i)) (seq 0 (S (p - s))) 0 m).
    rewrite seq_nth by lia. reflexivity. }
  (* loop invariant after the steps 1..J *)
  set (Inv := fun (J : nat) (st : list A * list A) =>
     length (snd st) = S (p - s) /\ (forall m, m <= p - J - s -> nth m (snd st) dA = Rtri J (k - p + J + m)) /\
     length (fst st) = np + num /\
     (forall idx, nth idx (fst st) dA =
        if andb (Nat.leb (k + num - J - s) idx) (Nat.ltb idx (k + num - s)) then Rtri (k + num - s - idx) (k - s)
        else if andb (Nat.ltb (k - p) idx) (Nat.leb idx (k - p + J)) then Rtri (idx - (k - p)) idx
        else nth idx new2 dA)).
  assert (HI : forall J, J <= num -> Inv J (fold_left body (seq 1 J) (new2, temp0))).
  { induction J as [|J IHJ]; intros HJ.
    - cbn [seq fold_left]. unfold Inv. cbn [fst snd]. repeat split; auto.
      + intros m Hm. rewrite Ht0 by lia. cbn [Rtri]. f_equal. lia.
      + intros idx. bdestr; reflexivity.
    - rewrite seq_S_end, fold_left_app. cbn [fold_left].
      specialize (IHJ ltac:(lia)).
      destruct (fold_left body (seq 1 J) (new2, temp0)) as [nw tp].
      destruct IHJ as [HTl [HT [HNl HN]]]. cbn [fst snd] in *.
      unfold body. replace (1 + J) with (S J) by lia.
      set (L := k - p + S J).
      set (h := fun i x y => lerpA (ins_alpha K U u k i L) x y).
      change (fold_left _ (seq 0 (S (p - S J - s))) tp) with (fold_left (scan_step dA h) (seq 0 (S (p - S J - s))) tp).
      set (tp' := fold_left (scan_step dA h) (seq 0 (S (p - S J - s))) tp).
      assert (Htp' : forall m, m <= p - S J - s -> nth m tp' dA = Rtri (S J) (L + m)).
      { intros m Hm. unfold tp'. rewrite scan_nth by lia.
        destruct (Nat.ltb_spec m (S (p - S J - s))); try lia.
        rewrite !HT by lia. cbn [Rtri]. unfold h, acoef, L.
        replace (k - p + S J + m - (k - p + S J)) with m by lia.
        replace (k - p + S J + m - 1) with (k - p + J + m) by lia.
        replace (k - p + J + S m) with (k - p + S J + m) by lia. reflexivity. }
      unfold Inv. cbn [fst snd]. repeat split.
      + unfold tp'. rewrite scan_length. exact HTl.
      + intros m Hm. rewrite Htp' by lia. unfold L. f_equal.
      + rewrite !upd_length. exact HNl.
      + intros idx. rewrite !nth_upd, upd_length, HNl. unfold InsertKnot.getA. rewrite !Htp' by lia. rewrite HN.
        unfold L.
        destruct (Nat.eqb_spec idx (k + num - S J - s)) as [E1|E1].
        * (* the right write *)
          subst idx. bdestr; try reflexivity; f_equal; lia.
        * destruct (Nat.eqb_spec idx (k - p + S J)) as [E2|E2].
          -- subst idx. bdestr; try reflexivity; f_equal; lia.
          -- bdestr; reflexivity. }
  specialize (HI num ltac:(lia)).
  destruct (fold_left body (seq 1 num) (new2, temp0)) as [new3 temp].
  destruct HI as [HTl [HT [HNl HN]]]. cbn [fst snd] in *.
  unfold InsertKnot.getA at 1. rewrite nth_fold_upd_copy, HNl.
  unfold ki_closed.
  destruct (Nat.leb_spec (S (k - p + num)) i); destruct (Nat.ltb_spec i (S (k - p + num) + (k - s - S (k - p + num))));
  destruct (Nat.ltb_spec i (np + num)); cbn [andb]; try lia.
  - (* remaining points from temp *)
    unfold InsertKnot.getA. rewrite HT by lia. bdestr. f_equal. lia.
  - rewrite HN, Hn2. bdestr; try reflexivity; try (f_equal; lia).
  - rewrite HN, Hn2. unfold InsertKnot.getA. bdestr; try reflexivity; try (f_equal; lia).
    rewrite nth_overflow by (fold np; lia). reflexivity.
  - rewrite HN, Hn2. bdestr; try reflexivity; try (f_equal; lia).
Qed.
End Tri.

(* ---------- (r+1)-fold insertion = r-fold insertion followed by one single insertion ---------- *)
Section Iter.
Context {T : Type} (K : ops T) {A : Type} (lerpA : T -> A -> A -> A) (dA : A).
Variables (p : nat) (U : list T) (P : list A) (u : T) (r s k : nat).
Hypothesis Hsp : s <= p.
Hypothesis Hpk : p <= k.
Hypothesis Hk : k < length P.
Hypothesis HkU : k < length U.
Hypothesis Hnum : S r <= p - s.
Notation getA := (getA dA).
Notation KI := (knot_insertion_g K lerpA dA).
Notation Rt := (Rtri K lerpA dA p U P u k).

Let Pr := KI p U P u r s k.
Let Ur := knot_insertion_kv U u k r.

Lemma Pr_length : length Pr = length P + r.
Proof. unfold Pr. destruct (ki_frame K lerpA dA p U P u r s k) as [HL _]; auto; lia. Qed.

Lemma coef_iter i : k + r - p < i -> i <= k - s ->
  ins_alpha K Ur u (k + r) (i - (k + r - p + 1)) (k + r - p + 1) = acoef K p U u k (S r) i.
Proof.
  intros H1 H2. unfold acoef, ins_alpha.
  replace (k + r - p + 1 + (i - (k + r - p + 1))) with i by lia.
  replace (k - p + S r + (i - (k - p + S r))) with i by lia.
  unfold Ur. rewrite !knot_insertion_kv_nth by exact HkU.
  destruct (Nat.leb_spec i k); try lia.
  destruct (Nat.leb_spec (S (i - (k + r - p + 1) + (k + r))) k); try lia.
  destruct (Nat.leb_spec (S (i - (k + r - p + 1) + (k + r))) (k + r)); try lia.
  replace (S (i - (k + r - p + 1) + (k + r)) - r) with (S (i - (k - p + S r) + k)) by lia. reflexivity.
Qed.

Theorem ki_succ_nth i : getA (KI p U P u (S r) s k) i = getA (KI p Ur Pr u 1 (s + r) (k + r)) i.
Proof.
  rewrite (knot_insertion_g_closed K lerpA dA p U P u (S r) s k) by (auto; lia).
  rewrite (knot_insertion_g1_nth K lerpA dA p Ur Pr u (s + r) (k + r)) by (rewrite ?Pr_length; lia).
  unfold Pr. rewrite !(knot_insertion_g_closed K lerpA dA p U P u r s k) by (auto; lia).
  destruct (Nat.leb_spec i (k + r - p)) as [H1|H1].
  - (* left of the window: unchanged *)
    unfold ki_closed. bdestr; try reflexivity; f_equal; lia.
  - replace (k + r - (s + r)) with (k - s) by lia.
    destruct (Nat.leb_spec i (k - s)) as [H2|H2].
    + (* the window: one more level of the triangle *)
      rewrite coef_iter by lia.
      assert (E : ki_closed K lerpA dA p U P u (S r) s k i = Rt (S r) i).
      { unfold ki_closed. bdestr; f_equal; lia. }
      rewrite E. cbn [Rtri]. f_equal.
      * unfold ki_closed. bdestr; try reflexivity; try (f_equal; lia); try (replace r with 0 by lia; reflexivity).
      * unfold ki_closed. bdestr; try reflexivity; try (f_equal; lia); try (replace r with 0 by lia; cbn [Rtri]; f_equal; lia).
    + (* right of the window: shifted *)
      unfold ki_closed. bdestr; try reflexivity; f_equal; lia.
Qed.

Theorem ki_succ : KI p U P u (S r) s k = KI p Ur Pr u 1 (s + r) (k + r).
Proof.
  apply (nth_ext _ _ dA dA).
  - destruct (ki_frame K lerpA dA p U P u (S r) s k) as [HL _]; auto.
    rewrite HL. rewrite (knot_insertion_g1_length K lerpA dA p Ur Pr u (s + r) (k + r)) by (rewrite ?Pr_length; lia).
    rewrite Pr_length. lia.
  - intros i _. apply ki_succ_nth.
Qed.
End Iter.

(* ---------- rows of points (volumes): the row algorithm is fibre-wise the point algorithm ---------- *)
Section Rows.
Context {T : Type} (K : ops T).
Variables (p : nat) (U : list T) (C : list (list (list T))) (u : T) (num s k m idx : nat).
Hypothesis Hsp : s <= p.
Hypothesis Hpk : p <= k.
Hypothesis Hk : k < length C.
Hypothesis Hnum : num <= p - s.
Hypothesis Hrows : forall i, i < length C -> length (nth i C []) = m.
Hypothesis Hidx : idx < m.

Definition fibre : list (list T) := map (fun row => nth idx row []) C.

Lemma nth_nil_nil {B} (i : nat) : nth i (@nil (list B)) [] = [].
Proof. destruct i; reflexivity. Qed.

Lemma fibre_nth i : getp fibre i = nth idx (nth i C []) [].
Proof.
  unfold getp, fibre.
  rewrite <- (nth_nil_nil (B:=T) idx) at 1.
  apply (map_nth (fun row => nth idx row []) C [] i).
Qed.

Lemma lerp_row_nth alpha (a b : list (list T)) : idx < length a -> idx < length b ->
  nth idx (lerp_row K alpha a b) [] = lerp K alpha (nth idx a []) (nth idx b []).
Proof.
  intros Ha Hb. unfold lerp_row.
  set (f := fun ab : list T * list T => lerp K alpha (fst ab) (snd ab)).
  rewrite (nth_indep _ [] (f ([], []))) by (rewrite map_length, combine_length; lia).
  rewrite (map_nth f). rewrite combine_nth_lt by lia. reflexivity.
Qed.
Lemma lerp_row_length alpha (a b : list (list T)) : length (lerp_row K alpha a b) = Nat.min (length a) (length b).
Proof. unfold lerp_row. rewrite map_length, combine_length. reflexivity. Qed.

Notation RtR := (Rtri K (lerp_row K) [] p U C u k).
Notation RtP := (Rtri K (lerp K) [] p U fibre u k).

Lemma RtR_length : forall j i, j <= i -> i < length C -> length (RtR j i) = m.
Proof.
  induction j as [|j IH]; intros i Hj Hi; cbn [Rtri].
  - apply Hrows. exact Hi.
  - rewrite lerp_row_length, !IH by lia. apply Nat.min_id.
Qed.

Lemma Rtri_fibre : forall j i, j <= i -> i < length C -> nth idx (RtR j i) [] = RtP j i.
Proof.
  induction j as [|j IH]; intros i Hj Hi; cbn [Rtri].
  - unfold getA. symmetry. apply fibre_nth.
  - rewrite lerp_row_nth by (rewrite RtR_length by lia; exact Hidx).
    rewrite !IH by lia. reflexivity.
Qed.

Theorem rows_fibre i : i < length C + num ->
  nth idx (getA [] (knot_insertion_rows K p U C u num s k) i) [] = getp (knot_insertion K p U fibre u num s k) i.
Proof.
  intros Hi. unfold knot_insertion_rows.
  rewrite knot_insertion_g_closed by auto.
  change (getp (knot_insertion K p U fibre u num s k) i) with (getA [] (knot_insertion_g K (lerp K) [] p U fibre u num s k) i).
  assert (HlF : length fibre = length C) by (unfold fibre; apply map_length).
  rewrite knot_insertion_g_closed by (rewrite ?HlF; auto).
  unfold ki_closed.
  bdestr; try (unfold getA; symmetry; apply fibre_nth); apply Rtri_fibre; lia.
Qed.

Theorem rows_length i : i < length C + num -> length (getA [] (knot_insertion_rows K p U C u num s k) i) = m.
Proof.
  intros Hi. unfold knot_insertion_rows. rewrite knot_insertion_g_closed by auto. unfold ki_closed.
  bdestr; try (apply Hrows; lia); apply RtR_length; lia.
Qed.
End Rows.
