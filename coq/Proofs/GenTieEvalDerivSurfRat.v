(* Tie: generated evaluators.SurfaceEvaluatorRational.derivatives (A4.4, as written: the loops run over the full square
   0..order x 0..order)  =  Model/Derivs.v rat_surface_derivs on the derivatives of the weighted surface, for every scalar instance
   with bin_laws (linalg.binomial_coefficient). *)
From Coq Require Import List ZArith Arith Bool Lia QArith.
From NV Require Import Scalar.Ops Model.Common Model.Basis Model.Knots Model.Eval Model.Degree Model.Derivs
  Gen.Prelude Gen.PreludeExt Gen.Linalg Gen.LinalgMat Gen.Helpers Gen.Evaluators
  Proofs.GenTieLib Proofs.GenTieLib2 Proofs.GenTieKnots Proofs.GenTieSpan Proofs.GenTieBasis
  Proofs.GenTieSums Proofs.GenTieDegree Proofs.GenTieBinom
  Proofs.GenTieEvalLib Proofs.GenTieEvalCurve Proofs.GenTieEvalDerivCurve Proofs.GenTieEvalDerivSurf.
Import ListNotations.
Local Open Scope nat_scope.

Section Tie.
Context {T : Type} (K : ops T) (BL : bin_laws K).

Lemma vsub_scaled_firstn (n : nat) (c : T) (v d : list T) : firstn n (vsub_scaled K c v d) = vsub_scaled K c (firstn n v) d.
Proof. unfold vsub_scaled. now rewrite firstn_map, firstn_combine_l. Qed.

(* shape of the table of A3.6 *)
Lemma surface_derivs_shape (dim pu pv : nat) (Uu Uv : list T) (su sv : nat) (P : list (list T)) (u v : T) (order : nat) :
  pu < su -> pv < sv -> su * sv <= length P -> (forall pt, In pt P -> length pt = dim) ->
  let M := surface_derivs K dim pu pv Uu Uv su sv P u v order in
  length M = S order /\ forall k, k <= order -> length (nth k M []) = S order /\
                                   forall l, l <= order -> length (get3 M k l) = dim.
Proof.
  intros Hpu Hpv HP Hdim M. unfold M, surface_derivs. cbv zeta.
  pose proof (find_span_linear_bounds K pu Uu su u Hpu) as Bu. pose proof (find_span_linear_bounds K pv Uv sv v Hpv) as Bv.
  split; [now rewrite map_length, seq_length|].
  intros k Hk. unfold get3. rewrite (nth_map_lt _ _ k 0) by (rewrite seq_length; lia). rewrite seq_nth by lia. cbn [plus].
  destruct (Nat.leb k _).
  - split; [now rewrite map_length, seq_length|]. intros l Hl.
    rewrite (nth_map_lt _ _ l 0) by (rewrite seq_length; lia). rewrite seq_nth by lia. cbn [plus].
    destruct (Nat.leb l _); [|apply repeat_length].
    apply fold_axpy_length; [apply repeat_length|].
    intros s Hs. apply in_seq in Hs.
    rewrite (nth_map_lt _ _ s 0) by (rewrite seq_length; lia). rewrite seq_nth by lia. cbn [plus].
    apply fold_axpy_length; [apply repeat_length|].
    intros r Hr. apply in_seq in Hr. apply Hdim. apply nth_In. nia.
  - split; [apply repeat_length|]. intros l Hl. rewrite nth_repeat_lt by lia. apply repeat_length.
Qed.

Definition shape3 (order : nat) (M : list (list (list T))) : Prop :=
  length M = S order /\ forall k, k <= order -> length (nth k M []) = S order.

Lemma set3_shape order M k l x : shape3 order M -> shape3 order (set3 M k l x).
Proof.
  intros [H1 H2]. unfold set3. split; [now rewrite upd_length|].
  intros k' Hk'. rewrite nth_upd. destruct (Nat.eqb_spec k k') as [->|]; [|now apply H2].
  destruct (Nat.ltb_spec k' (length M)); [|lia]. rewrite upd_length. now apply H2.
Qed.

Lemma znth3 (order : nat) (M : list (list (list T))) (k l : nat) : shape3 order M -> k <= order -> l <= order ->
  znth M (Z.of_nat k) = GOk (nth k M []) /\ znth (nth k M []) (Z.of_nat l) = GOk (get3 M k l).
Proof. intros [H1 H2] Hk Hl. split; apply znth_nat; [|rewrite H2 by auto]; lia. Qed.

(* the loops of A4.4 on any table SKLw of (order + 1)^2 entries of `dimension` >= 1 coordinates each *)
Lemma rat_surface_loop (dimension : Z) (SKLw : list (list (list T))) (order : nat) :
  shape3 order SKLw -> (forall k l, k <= order -> l <= order -> Z.of_nat (length (get3 SKLw k l)) = dimension) -> (1 <= dimension)%Z ->
  gfor (zrange 0 (Z.of_nat order + 1) 1) (fun k SKL =>
    do SKL <- gfor (zrange 0 (Z.of_nat order + 1) 1) (fun l SKL =>
      do v_2 <- znth SKLw k ;;
      do v <- znth v_2 l ;;
      do v <- gfor (zrange 1 (l + 1) 1) (fun j v =>
        do v_4 <- znth SKL k ;;
        do v_5 <- znth v_4 (l - j) ;;
        do v_10 <- gmapM (fun '(tmp, drv) => do v_6 <- LinalgMat.binomial_coefficient K l j ;; do v_7 <- znth SKLw 0 ;; do v_8 <- znth v_7 j ;; do v_9 <- znth v_8 (-1) ;; GOk (osub K tmp (omul K (omul K v_6 v_9) drv))) (combine v v_5) ;;
        GOk v_10) v ;;
      do v <- gfor (zrange 1 (k + 1) 1) (fun i v =>
        do v_11 <- znth SKL (k - i) ;;
        do v_12 <- znth v_11 l ;;
        do v_17 <- gmapM (fun '(tmp, drv) => do v_13 <- LinalgMat.binomial_coefficient K k i ;; do v_14 <- znth SKLw i ;; do v_15 <- znth v_14 0 ;; do v_16 <- znth v_15 (-1) ;; GOk (osub K tmp (omul K (omul K v_13 v_16) drv))) (combine v v_12) ;;
        do v2 <- gfor (zrange 1 (l + 1) 1) (fun j v2 =>
          do v_18 <- znth SKL (k - i) ;;
          do v_19 <- znth v_18 (l - j) ;;
          do v_24 <- gmapM (fun '(tmp, drv) => do v_20 <- LinalgMat.binomial_coefficient K l j ;; do v_21 <- znth SKLw i ;; do v_22 <- znth v_21 j ;; do v_23 <- znth v_22 (-1) ;; GOk (oadd K tmp (omul K (omul K v_20 v_23) drv))) (combine v2 v_19) ;;
          GOk v_24) (map (fun _ => (o0 K)) (zrange 0 (dimension - 1) 1)) ;;
        do v_26 <- gmapM (fun '(tmp, tmp2) => do v_25 <- LinalgMat.binomial_coefficient K k i ;; GOk (osub K tmp (omul K v_25 tmp2))) (combine v_17 v2) ;;
        GOk v_26) v ;;
      do v_30 <- gmapM (fun tmp => do v_27 <- znth SKLw 0 ;; do v_28 <- znth v_27 0 ;; do v_29 <- znth v_28 (-1) ;; GOk (odiv K tmp v_29)) (zslice v 0 (dimension - 1)) ;;
      do v_31 <- znth SKL k ;;
      do v_32 <- zset v_31 l v_30 ;;
      do SKL <- zset SKL k v_32 ;;
      GOk SKL) SKL ;;
    GOk SKL)
    (map (fun _ => (map (fun _ => (map (fun _ => (o0 K)) (zrange 0 dimension 1))) (zrange 0 (Z.of_nat order + 1) 1))) (zrange 0 (Z.of_nat order + 1) 1))
  = GOk (rat_surface_derivs K (Z.to_nat dimension) SKLw order).
Proof.
  intros Hw Hlen Hdim.
  set (dim := Z.to_nat dimension).
  replace (Z.of_nat order + 1)%Z with (Z.of_nat (S order)) by lia.
  rewrite !zeros_vzero, !map_const_zrange, !Nat2Z.id, !zrange_0_nat. fold dim.
  replace (Z.to_nat (dimension - 1)) with (Nat.pred dim) by (unfold dim; lia).
  assert (Hne : forall k l, k <= order -> l <= order -> get3 SKLw k l <> []).
  { intros k l Hk Hl E. specialize (Hlen k l Hk Hl). rewrite E in Hlen. simpl in Hlen. lia. }
  assert (Hlast : forall k l, k <= order -> l <= order -> znth (get3 SKLw k l) (-1) = GOk (vlast K (get3 SKLw k l))).
  { intros k l Hk Hl. apply znth_last. now apply Hne. }
  unfold rat_surface_derivs. cbv zeta.
  rewrite gfor_map.
  match goal with |- gfor ?L ?f ?s = GOk (fold_left ?g _ _) =>
    destruct (gfor_pure_inv (shape3 order) L f g s) as [E _]; [| |exact E] end.
  { split; [apply repeat_length|]. intros k Hk. rewrite nth_repeat_lt by lia. apply repeat_length. }
  intros k SKL0 Hk_ HI0. apply in_seq in Hk_. cbn [plus] in Hk_.
  rewrite gfor_map.
  match goal with |- gbind (gfor ?L ?f ?s) _ = GOk (fold_left ?g _ _) /\ _ =>
    destruct (gfor_pure_inv (shape3 order) L f g s) as [E I]; [exact HI0| |rewrite E; split; [reflexivity|exact I]] end.
  intros l SKL Hl_ HI. apply in_seq in Hl_. cbn [plus] in Hl_.
  split; [|now apply set3_shape].
  destruct (znth3 order SKLw k l Hw) as [Z1 Z2]; try lia. rewrite Z1. cbn [gbind]. rewrite Z2. cbn [gbind].
  replace (Z.of_nat l + 1)%Z with (Z.of_nat (S l)) by lia. replace (Z.of_nat k + 1)%Z with (Z.of_nat (S k)) by lia.
  rewrite !zrange_1_nat, !gfor_map.
  (* the j loop *)
  rewrite (gfor_pure _ _ (fun v j => vsub_scaled K (omul K (Degree.binomial_coefficient K l j) (vlast K (get3 SKLw 0 j))) v
                                       (get3 SKL k (l - j)))).
  2:{ intros j v Hj. apply in_seq in Hj.
      destruct (znth3 order SKL k (l - j) HI) as [Y1 Y2]; try lia. rewrite Y1. cbn [gbind].
      replace (Z.of_nat l - Z.of_nat j)%Z with (Z.of_nat (l - j)) by lia. rewrite Y2. cbn [gbind].
      rewrite <- vsub_scaled_map.
      rewrite (gmapM_ok _ (fun '(tmp, drv) => osub K tmp
                 (omul K (omul K (Degree.binomial_coefficient K l j) (vlast K (get3 SKLw 0 j))) drv))); [reflexivity|].
      intros [tmp drv] _. rewrite (binomial_coefficient_tie K BL). cbn [gbind].
      destruct (znth3 order SKLw 0 j Hw) as [X1 X2]; try lia. cbn [Z.of_nat] in X1. rewrite X1. cbn [gbind]. rewrite X2. cbn [gbind].
      rewrite Hlast by lia. reflexivity. }
  cbn [gbind]. rewrite gfor_map.
  (* the i loop *)
  rewrite (gfor_pure _ _ (fun v i =>
     vsub_scaled K (Degree.binomial_coefficient K k i)
       (vsub_scaled K (omul K (Degree.binomial_coefficient K k i) (vlast K (get3 SKLw i 0))) v (get3 SKL (k - i) l))
       (fold_left (fun a j => axpy K (omul K (Degree.binomial_coefficient K l j) (vlast K (get3 SKLw i j)))
                                 (get3 SKL (k - i) (l - j)) a) (seq 1 l) (vzero K (Nat.pred dim))))).
  2:{ intros i v Hi. apply in_seq in Hi.
      replace (Z.of_nat k - Z.of_nat i)%Z with (Z.of_nat (k - i)) by lia.
      destruct (znth3 order SKL (k - i) l HI) as [Y1 Y2]; try lia. rewrite Y1. cbn [gbind]. rewrite Y2. cbn [gbind].
      rewrite (gmapM_ok _ (fun '(tmp, drv) => osub K tmp
                 (omul K (omul K (Degree.binomial_coefficient K k i) (vlast K (get3 SKLw i 0))) drv))).
      2:{ intros [tmp drv] _. rewrite (binomial_coefficient_tie K BL). cbn [gbind].
          destruct (znth3 order SKLw i 0 Hw) as [X1 X2]; try lia. cbn [Z.of_nat] in X2. rewrite X1. cbn [gbind]. rewrite X2. cbn [gbind].
          rewrite Hlast by lia. reflexivity. }
      cbn [gbind]. rewrite gfor_map.
      rewrite (gfor_pure _ _ (fun a j => axpy K (omul K (Degree.binomial_coefficient K l j) (vlast K (get3 SKLw i j)))
                                 (get3 SKL (k - i) (l - j)) a)).
      2:{ intros j a Hj. apply in_seq in Hj.
          replace (Z.of_nat l - Z.of_nat j)%Z with (Z.of_nat (l - j)) by lia.
          destruct (znth3 order SKL (k - i) (l - j) HI) as [W1 W2]; try lia. rewrite W2. cbn [gbind].
          rewrite <- axpy_map.
          rewrite (gmapM_ok _ (fun '(tmp, drv) => oadd K tmp
                 (omul K (omul K (Degree.binomial_coefficient K l j) (vlast K (get3 SKLw i j))) drv))); [reflexivity|].
          intros [tmp drv] _. rewrite (binomial_coefficient_tie K BL). cbn [gbind].
          destruct (znth3 order SKLw i j Hw) as [X1 X2]; try lia. rewrite X1. cbn [gbind]. rewrite X2. cbn [gbind].
          rewrite Hlast by lia. reflexivity. }
      cbn [gbind].
      rewrite (gmapM_ok _ (fun '(tmp, tmp2) => osub K tmp (omul K (Degree.binomial_coefficient K k i) tmp2))).
      2:{ intros [tmp tmp2] _. rewrite (binomial_coefficient_tie K BL). reflexivity. }
      cbn [gbind]. rewrite !vsub_scaled_map. reflexivity. }
  cbn [gbind].
  rewrite (gmapM_ok _ (fun t => odiv K t (vlast K (get3 SKLw 0 0)))).
  2:{ intros t _. destruct (znth3 order SKLw 0 0 Hw) as [X1 X2]; try lia.
      cbn [Z.of_nat] in X1, X2. rewrite X1. cbn [gbind]. rewrite X2. cbn [gbind]. rewrite Hlast by lia. reflexivity. }
  cbn [gbind].
  destruct (znth3 order SKL k l HI) as [Y1 Y2]; try lia. rewrite Y1. cbn [gbind].
  destruct HI as [I1 I2].
  rewrite zset_nat by (rewrite I2 by lia; lia). cbn [gbind]. rewrite zset_nat by lia. cbn [gbind].
  f_equal. unfold set3. f_equal. f_equal. f_equal.
  rewrite zslice_0 by lia.
  replace (Z.to_nat (dimension - 1)) with (Nat.pred dim) by (unfold dim; lia).
  rewrite fold_left_firstn.
  2:{ intros w i. now rewrite !vsub_scaled_firstn. }
  f_equal. rewrite fold_left_firstn.
  2:{ intros w j. now rewrite vsub_scaled_firstn. }
  f_equal. rewrite removelast_firstn_len. f_equal.
  specialize (Hlen k l ltac:(lia) ltac:(lia)). unfold dim. lia.
Qed.

(* wf: as for derivatives, and every (weighted) control point has exactly `dimension` >= 1 coordinates *)
Theorem SurfaceEvaluatorRational_derivatives_tie_gen (func : Z -> list T -> Z -> T -> gres Z) (dd : geomdata T)
    (pu pv : nat) (Uu Uv : list T) (su sv : nat) (P : list (list T)) (u v : T) (order : nat) :
  surf_dd' dd pu pv Uu Uv su sv P ->
  pu < su -> su + pu <= length Uu -> pv < sv -> sv + pv <= length Uv -> su * sv <= length P ->
  (1 <= eval_dim dd)%Z -> (forall pt, In pt P -> Z.of_nat (length pt) = eval_dim dd) ->
  func (Z.of_nat pu) Uu (Z.of_nat su) u = GOk (Z.of_nat (Basis.find_span_linear K pu Uu su u)) ->
  func (Z.of_nat pv) Uv (Z.of_nat sv) v = GOk (Z.of_nat (Basis.find_span_linear K pv Uv sv v)) ->
  Evaluators.SurfaceEvaluatorRational_derivatives K func dd [u; v] (Z.of_nat order) =
  GOk (rat_surface_derivs K (Z.to_nat (eval_dim dd))
         (surface_derivs K (Z.to_nat (eval_dim dd)) pu pv Uu Uv su sv P u v order) order).
Proof.
  intros Hdd Hpu Hlu Hpv Hlv HP Hdim Hpts Hfu Hfv.
  unfold Evaluators.SurfaceEvaluatorRational_derivatives. cbv zeta. fold (eval_dim dd).
  rewrite (SurfaceEvaluator_derivatives_tie_gen K func dd pu pv Uu Uv su sv P u v order) by auto. cbn [gbind].
  destruct (surface_derivs_shape (Z.to_nat (eval_dim dd)) pu pv Uu Uv su sv P u v order Hpu Hpv HP) as [S1 S2].
  { intros pt Hpt. specialize (Hpts pt Hpt). lia. }
  rewrite rat_surface_loop; auto.
  - split; auto. intros k Hk. now apply S2.
  - intros k l Hk Hl. destruct (S2 k Hk) as [_ S3]. rewrite S3 by auto. lia.
Qed.

Theorem SurfaceEvaluatorRational_derivatives_tie (dd : geomdata T)
    (pu pv : nat) (Uu Uv : list T) (su sv : nat) (P : list (list T)) (u v : T) (order : nat) :
  surf_dd' dd pu pv Uu Uv su sv P ->
  pu < su -> su + pu <= length Uu -> pv < sv -> sv + pv <= length Uv -> su * sv <= length P ->
  (1 <= eval_dim dd)%Z -> (forall pt, In pt P -> Z.of_nat (length pt) = eval_dim dd) ->
  Evaluators.SurfaceEvaluatorRational_derivatives K (Helpers.find_span_linear K) dd [u; v] (Z.of_nat order) =
  GOk (rat_surface_derivs K (Z.to_nat (eval_dim dd))
         (surface_derivs K (Z.to_nat (eval_dim dd)) pu pv Uu Uv su sv P u v order) order).
Proof. intros. apply SurfaceEvaluatorRational_derivatives_tie_gen; auto; apply find_span_linear_tie; lia. Qed.
End Tie.

Definition SurfaceEvaluatorRational_derivatives_tie_R := @SurfaceEvaluatorRational_derivatives_tie _ Rops Rops_bin_laws.
Definition SurfaceEvaluatorRational_derivatives_tie_Q := @SurfaceEvaluatorRational_derivatives_tie _ Qops Qops_bin_laws.

(* ---- non-vacuity: the surface of GenTieEvalDerivSurf.v as a rational surface, (u, v) = (1/4, 3/4), orders 1 (values = geomdl's) and 2 ---- *)
Local Open Scope Q_scope.
Example SurfaceEvaluatorRational_derivatives_ex :
  Evaluators.SurfaceEvaluatorRational_derivatives Qops (Helpers.find_span_linear Qops) (exdds true) [1#4; 3#4] 1 =
    GOk (rat_surface_derivs Qops 4 (surface_derivs Qops 4 2 1 exUu exUv 4 3 exPs (1#4) (3#4) 1) 1)
  /\ rat_surface_derivs Qops 4 (surface_derivs Qops 4 2 1 exUu exUv 4 3 exPs (1#4) (3#4) 1) 1 =
     [[[21#22; 31#22; 29#22]; [18#121; 234#121; -302#121]]; [[312#121; 8#121; 104#121]; [4288#1331; 128#1331; -2560#1331]]]
  /\ Evaluators.SurfaceEvaluatorRational_derivatives Qops (Helpers.find_span_linear Qops) (exdds true) [1#4; 3#4] 2 =
    GOk (rat_surface_derivs Qops 4 (surface_derivs Qops 4 2 1 exUu exUv 4 3 exPs (1#4) (3#4) 2) 2).
Proof. split; [vm_compute; reflexivity|]. split; vm_compute; reflexivity. Qed.
