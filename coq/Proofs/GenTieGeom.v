(* Ties: generated linalg.is_left / wn_poly (Gen/LinalgGeom.v) = Model/Geom2D.v, for every scalar instance (no law is used:
   both sides perform the same scalar operations in the same order). *)
From Coq Require Import List ZArith Arith Bool Lia QArith.
From NV Require Import Scalar.Ops Model.Common Model.Geom2D Gen.Prelude Gen.PreludeExt Gen.LinalgGeom Proofs.GenTieLib Proofs.GenTieLib2.
Import ListNotations.
Local Open Scope nat_scope.

Section Tie.
Context {T : Type} (K : ops T).

(* wf: the three points have (at least) two coordinates; shorter points raise IndexError *)
Theorem is_left_tie (p0 p1 p2 : list T) :
  2 <= length p0 -> 2 <= length p1 -> 2 <= length p2 ->
  LinalgGeom.is_left K p0 p1 p2 = GOk (Geom2D.is_left K p0 p1 p2).
Proof.
  intros H0 H1 H2. unfold LinalgGeom.is_left.
  rewrite !(znth_lit0 p0 (o0 K)), !(znth_lit1 p0 (o0 K)), !(znth_lit0 p1 (o0 K)), !(znth_lit1 p1 (o0 K)),
    !(znth_lit0 p2 (o0 K)), !(znth_lit1 p2 (o0 K)) by lia.
  reflexivity.
Qed.

Lemma wn_count_skipn pt (vs : list (list T)) i :
  i + 1 < length vs ->
  wn_count K pt (skipn i vs) = (wn_edge K pt (nth i vs []) (nth (S i) vs []) + wn_count K pt (skipn (S i) vs))%Z.
Proof.
  revert i; induction vs as [|v0 r IH]; intros i Hi; simpl in Hi; [lia|].
  destruct i.
  - destruct r as [|v1 r']; simpl in Hi; [lia|]. reflexivity.
  - change (skipn (S i) (v0 :: r)) with (skipn i r). change (skipn (S (S i)) (v0 :: r)) with (skipn (S i) r).
    change (nth (S i) (v0 :: r) []) with (nth i r []). change (nth (S (S i)) (v0 :: r) []) with (nth (S i) r []).
    apply IH. lia.
Qed.

(* wf: the point and every vertex have (at least) two coordinates *)
Theorem wn_poly_tie (pt : list T) (vs : list (list T)) :
  2 <= length pt -> (forall v, In v vs -> 2 <= length v) ->
  LinalgGeom.wn_poly K pt vs = GOk (Geom2D.wn_poly K pt vs).
Proof.
  intros Hp Hv. unfold LinalgGeom.wn_poly, Geom2D.wn_poly.
  assert (Hv' : forall i, i < length vs -> 2 <= length (nth i vs [])).
  { intros i Hi. apply Hv. now apply nth_In. }
  unfold zlen. rewrite zrange_0. replace (Z.to_nat (Z.of_nat (length vs) - 1)) with (length vs - 1) by lia.
  match goal with |- context [gfor (map Z.of_nat (seq 0 ?n)) ?ff ?s0] =>
    destruct (gfor_seq_inv (fun i (wn : Z) => (wn + wn_count K pt (skipn i vs))%Z = wn_count K pt vs) ff n 0) with (s := s0)
      as (wn & E & Hwn)
  end.
  - intros i wn Hi Hinv. cbn [gbind].
    rewrite (znth_nat vs i []) by lia. cbn [gbind].
    replace (Z.of_nat i + 1)%Z with (Z.of_nat (S i)) by lia.
    rewrite (znth_nat vs (S i) []) by lia. cbn [gbind].
    assert (L0 := Hv' i ltac:(lia)). assert (L1 := Hv' (S i) ltac:(lia)).
    rewrite !(znth_lit1 (nth i vs []) (o0 K)) by lia.
    rewrite !(znth_lit1 (nth (S i) vs []) (o0 K)) by lia.
    rewrite !(znth_lit1 pt (o0 K)) by lia. cbn [gbind].
    rewrite !is_left_tie by lia. cbn [gbind].
    rewrite wn_count_skipn in Hinv by lia.
    unfold wn_edge in Hinv. fold (cy K (nth i vs [])) (cy K (nth (S i) vs [])) (cy K pt).
    change (ofZ K 0) with (o0 K).
    destruct (oleb K (cy K (nth i vs [])) (cy K pt)).
    + destruct (oltb K (cy K pt) (cy K (nth (S i) vs []))); cbn [gbind]; [|eexists; split; [reflexivity|lia]].
      destruct (oltb K (o0 K) _); cbn [gbind]; eexists; (split; [reflexivity|lia]).
    + destruct (oleb K (cy K (nth (S i) vs [])) (cy K pt)); cbn [gbind]; [|eexists; split; [reflexivity|lia]].
      destruct (oltb K _ (o0 K)); cbn [gbind]; eexists; (split; [reflexivity|lia]).
  - reflexivity.
  - rewrite E. cbn [gbind]. f_equal. f_equal. f_equal.
    assert (Z0 : wn_count K pt (skipn (0 + (length vs - 1)) vs) = 0%Z).
    { destruct vs as [|v0 r]; [reflexivity|]. simpl length. replace (0 + (S (length r) - 1)) with (length r) by lia.
      clear. revert v0; induction r as [|v1 r IH]; intros v0; [reflexivity|]. apply (IH v1). }
    rewrite Z0 in Hwn. lia.
Qed.
End Tie.

Definition is_left_tie_R := @is_left_tie _ Rops.
Definition is_left_tie_Q := @is_left_tie _ Qops.
Definition wn_poly_tie_R := @wn_poly_tie _ Rops.
Definition wn_poly_tie_Q := @wn_poly_tie _ Qops.

(* ---- non-vacuity ---- *)
Local Open Scope Q_scope.
Example geom_ex :
  LinalgGeom.is_left Qops [0; 0] [1; 0] [1#2; 1] = GOk 1 /\ Geom2D.is_left Qops [0; 0] [1; 0] [1#2; 1] = 1
  /\ LinalgGeom.wn_poly Qops [1#2; 1#2] [[0; 0]; [1; 0]; [1; 1]; [0; 1]; [0; 0]] = GOk true
  /\ Geom2D.wn_poly Qops [1#2; 1#2] [[0; 0]; [1; 0]; [1; 1]; [0; 1]; [0; 0]] = true
  /\ LinalgGeom.wn_poly Qops [3#2; 1#2] [[0; 0]; [1; 0]; [1; 1]; [0; 1]; [0; 0]] = GOk false
  /\ LinalgGeom.wn_poly Qops [1#2; 1#2] [[0; 0]; [0; 1]; [1; 1]; [1; 0]; [0; 0]] = GOk true
  /\ LinalgGeom.wn_poly Qops [1#2; 1#2] [[0; 0]; [1]] = GErr IndexError.
Proof. repeat split; vm_compute; reflexivity. Qed.
