(* Tie: generated helpers.knot_removal (Gen/HelpersB.v, AS REPAIRED by fixes/C06-knot-removal.diff) = Model/KnotRem.v knot_removal,
   for every scalar instance (no law of the operations is used).
   linalg.point_distance (a square root) is the uninterpreted parameter `dist` of the generated function; the model decides the
   removability test with squared distances (dist2 <= tol2): the tie holds for EVERY dist that compares with tol as the squared
   distance compares with tol2.  The source runs the two sweeps of Eq. 5.28 interleaved in one while loop on the array temp;
   the model has them as two recursions (lsweep / rsweep): the loop invariant relates the slots of temp to their prefixes. *)
From Coq Require Import List ZArith Arith Bool Lia QArith.
From NV Require Import Scalar.Ops Model.Common Model.Basis Model.KnotIns Model.KnotRem Gen.Prelude Gen.PreludeExt Gen.Helpers Gen.HelpersB
  Proofs.GenTieLib Proofs.GenTieLib2 Proofs.GenTieBasisOne Proofs.GenTieSpan Proofs.GenTieSums Proofs.GenTieSubst Proofs.GenTieDegree.
Import ListNotations.
Local Open Scope nat_scope.

Section Tie.
Context {T : Type} (K : ops T).
Notation kn := (kn K).

(* ---- the alphas ---- *)
Lemma alpha_i_tie (u : T) (p t i : nat) (U : list T) : i + p + 1 + t < length U ->
  HelpersB.knot_removal_alpha_i K u (Z.of_nat p) U (Z.of_nat t) (Z.of_nat i) = GOk (rem_alpha_i K U u p t i).
Proof.
  intros H. unfold HelpersB.knot_removal_alpha_i, rem_alpha_i.
  replace (Z.of_nat i + Z.of_nat p + 1 + Z.of_nat t)%Z with (Z.of_nat (i + p + 1 + t)) by lia.
  rewrite !(znth_nat U _ (o0 K)) by lia. reflexivity.
Qed.
Lemma alpha_j_tie (u : T) (p t j : nat) (U : list T) : t <= j -> j + p + 1 < length U ->
  HelpersB.knot_removal_alpha_j K u (Z.of_nat p) U (Z.of_nat t) (Z.of_nat j) = GOk (rem_alpha_j K U u p t j).
Proof.
  intros Ht H. unfold HelpersB.knot_removal_alpha_j, rem_alpha_j.
  replace (Z.of_nat j - Z.of_nat t)%Z with (Z.of_nat (j - t)) by lia.
  replace (Z.of_nat j + Z.of_nat p + 1)%Z with (Z.of_nat (j + p + 1)) by lia.
  rewrite !(znth_nat U _ (o0 K)) by lia. reflexivity.
Qed.

(* ---- the sweeps of the model, entry by entry ---- *)
Lemma lsweep_length p U u t Pw i prev cnt : length (lsweep K p U u t Pw i prev cnt) = cnt.
Proof. revert i prev; induction cnt; intros; simpl; auto. Qed.
Lemma rsweep_length p U u t Pw j next cnt : length (rsweep K p U u t Pw j next cnt) = cnt.
Proof. revert j next; induction cnt; intros; simpl; auto. Qed.

Lemma lsweep_nth p U u t Pw : forall cnt i prev c, c < cnt ->
  nth c (lsweep K p U u t Pw i prev cnt) [] =
  unlerp_i K (rem_alpha_i K U u p t (i + c)) (getp Pw (i + c))
    (match c with O => prev | S c' => nth c' (lsweep K p U u t Pw i prev cnt) [] end).
Proof.
  induction cnt as [|cnt IH]; intros i prev c Hc; [lia|].
  cbn [lsweep]. destruct c as [|c].
  - now rewrite Nat.add_0_r.
  - cbn [nth]. rewrite IH by lia. replace (S i + c) with (i + S c) by lia. destruct c; reflexivity.
Qed.
Lemma rsweep_nth p U u t Pw : forall cnt j next c, c < cnt -> c <= j ->
  nth c (rsweep K p U u t Pw j next cnt) [] =
  unlerp_j K (rem_alpha_j K U u p t (j - c)) (getp Pw (j - c))
    (match c with O => next | S c' => nth c' (rsweep K p U u t Pw j next cnt) [] end).
Proof.
  induction cnt as [|cnt IH]; intros j next c Hc Hj; [lia|].
  cbn [rsweep]. destruct c as [|c].
  - now rewrite Nat.sub_0_r.
  - cbn [nth]. rewrite IH by lia. replace (Nat.pred j - c) with (j - S c) by lia. destruct c; reflexivity.
Qed.

Lemma sweep_count_lt first lst t c : c < sweep_count first lst t <-> t + 2 * c < lst - first.
Proof.
  unfold sweep_count. set (x := lst - first - t). pose proof (Nat.div2_odd (S x)) as Hd.
  destruct (Nat.odd (S x)); cbn [Nat.b2n] in Hd; lia.
Qed.

(* all points have d coordinates *)
Definition ptsd (d : nat) (l : list (list T)) : Prop := forall x, In x l -> length x = d.
Lemma ptsd_getp d l i : ptsd d l -> i < length l -> length (getp l i) = d.
Proof. intros H Hi. apply H. now apply nth_In. Qed.
Lemma unlerp_i_len a x y : length (unlerp_i K a x y) = Nat.min (length x) (length y).
Proof. unfold unlerp_i. now rewrite map_length, combine_length. Qed.
Lemma unlerp_j_len a x y : length (unlerp_j K a x y) = Nat.min (length x) (length y).
Proof. unfold unlerp_j. now rewrite map_length, combine_length. Qed.

Lemma lsweep_len d p U u t Pw : ptsd d Pw -> forall cnt i prev c, length prev = d -> i + cnt <= length Pw -> c < cnt ->
  length (nth c (lsweep K p U u t Pw i prev cnt) []) = d.
Proof.
  intros HP. induction cnt as [|cnt IH]; intros i prev c Hp Hi Hc; [lia|].
  cbn [lsweep]. assert (Hx : length (unlerp_i K (rem_alpha_i K U u p t i) (getp Pw i) prev) = d)
    by (rewrite unlerp_i_len, (ptsd_getp d) by (auto; lia); lia).
  destruct c as [|c]; [exact Hx|]. cbn [nth]. apply IH; auto; lia.
Qed.
Lemma rsweep_len d p U u t Pw : ptsd d Pw -> forall cnt j next c, length next = d -> j < length Pw -> cnt <= S j -> c < cnt ->
  length (nth c (rsweep K p U u t Pw j next cnt) []) = d.
Proof.
  intros HP. induction cnt as [|cnt IH]; intros j next c Hn Hj Hcj Hc; [lia|].
  cbn [rsweep]. assert (Hx : length (unlerp_j K (rem_alpha_j K U u p t j) (getp Pw j) next) = d)
    by (rewrite unlerp_j_len, (ptsd_getp d) by (auto; lia); lia).
  destruct c as [|c]; [exact Hx|]. cbn [nth]. apply IH; auto; lia.
Qed.

Lemma last_sweep (l : list (list T)) (d0 : list T) : last l d0 = match length l with O => d0 | S k => nth k l [] end.
Proof.
  destruct l as [|a l]; [reflexivity|]. rewrite (last_cons_indep a l d0 []). rewrite last_nth. cbn [length]. replace (S (length l) - 1) with (length l) by lia. reflexivity.
Qed.

Section Main.
Context (p n r s num d : nat) (U : list T) (P : list (list T)) (u tol tol2 : T) (dist : list T -> list T -> gres T).
Context (Hn : length P = n) (HU : n + p + 1 <= length U) (Hnum : 1 <= num) (Hns : num <= s) (Hsp : s <= p)
        (Hr1 : p + num <= r) (Hr2 : r - s + num < n) (Hd : ptsd d P) (Hd1 : 1 <= d)
        (Hdist : forall a b, length a = d -> length b = d ->
                   exists v, dist a b = GOk v /\ oleb K v tol = oleb K (dist2 K a b) tol2).

(* temp: 2p+1 slots; slot 0 / slot m+2 hold the fixed neighbours, slots 1.. the left sweep, slots m+1, m, .. the right sweep *)
Definition Tinv (m : nat) (t0 tN : list T) (L R : list (list T)) (c : nat) (temp : list (list T)) : Prop :=
  length temp = 2 * p + 1 /\ nth 0 temp [] = t0 /\ nth (m + 2) temp [] = tN
  /\ (forall k, k < c -> nth (S k) temp [] = nth k L []) /\ (forall k, k < c -> nth (m + 1 - k) temp [] = nth k R []).

Lemma upd_ptsd l i x : ptsd d l -> length x = d -> ptsd d (upd l i x).
Proof.
  intros Hl Hx y Hy. destruct (In_nth _ _ [] Hy) as (k & Hk & <-). rewrite upd_length in Hk. rewrite nth_upd.
  destruct (Nat.eqb_spec i k); [destruct (Nat.ltb_spec k (length l)); [exact Hx|lia]|]. apply Hl. now apply nth_In.
Qed.

Theorem knot_removal_tie :
  HelpersB.knot_removal K (Z.of_nat p) U P u (Z.of_nat num) (Z.of_nat s) (Z.of_nat r) tol dist =
  GOk (KnotRem.knot_removal K d tol2 p U P u num s r).
Proof.
  unfold HelpersB.knot_removal, KnotRem.knot_removal.
  rewrite find_multiplicity_tie. cbn [gbind]. unfold zlen. rewrite Hn, find_span_linear_tie by lia. cbn [gbind].
  destruct (Z.ltb_spec (Z.of_nat num) 1); [lia|]. destruct (Nat.ltb_spec num 1); [lia|].
  assert (Hn1 : 1 <= n) by lia.
  rewrite (znth_lit0 P []) by lia. cbn [gbind].
  assert (Hd0 : length (nth 0 P []) = d) by (apply Hd, nth_In; lia).
  rewrite (znth_lit0 (nth 0 P []) (o0 K)) by lia. cbn [gbind].
  replace (2 * Z.of_nat p + 1)%Z with (Z.of_nat (2 * p + 1)) by lia. rewrite map_const_zrange, Nat2Z.id, zrange_0_nat.
  replace (Z.of_nat r - Z.of_nat p)%Z with (Z.of_nat (r - p - 0)) by lia.
  replace (Z.of_nat r - Z.of_nat s)%Z with (Z.of_nat (r - s + 0)) by lia.
  (* ---- the passes ---- *)
  match goal with |- context [gfor (map Z.of_nat (seq O num)) ?ff ?s0] =>
    destruct (gfor_seq_fold (fun t (st : list (list T) * list (list T) * Z * Z) (Pm : list (list T)) =>
                let '(temp, Pw, first, lst) := st in
                Pw = Pm /\ first = Z.of_nat (r - p - t) /\ lst = Z.of_nat (r - s + t) /\ length temp = 2 * p + 1
                /\ length Pm = n /\ ptsd d Pm)
              ff (rem_step K d tol2 p U u r s) num O) with (s := s0) (s' := P) as ([[[tempF PwF] firstF] lastF] & EF & HF)
  end.
  - (* one pass *)
    intros t [[[temp Pw0] first0] last0] Pw Ht (-> & -> & -> & Ltemp & LPw & DPw). cbn [gbind].
    set (first := r - p - t). set (lst := r - s + t). set (m := lst - first).
    assert (Hm : m = p - s + 2 * t) by (unfold m, lst, first; lia).
    assert (Hf1 : 1 <= first) by (unfold first; lia). assert (Hl1 : S lst < n) by (unfold lst; lia).
    assert (Hfl : first <= lst) by (unfold first, lst; lia).
    remember (sweep_count first lst t) as cnt eqn:Ecnt.
    set (t0 := getp Pw (first - 1)). set (tN := getp Pw (S lst)).
    set (L := lsweep K p U u t Pw first t0 cnt). set (R := rsweep K p U u t Pw lst tN cnt).
    assert (Hcnt : forall c, c < cnt <-> t + 2 * c < m) by (intros c; rewrite Ecnt; apply sweep_count_lt).
    assert (Hcm : 2 * cnt <= m + 1).
    { destruct (Nat.eq_dec cnt O) as [E0|E0]; [lia|]. assert (Hx := proj1 (Hcnt (cnt - 1)) ltac:(lia)). lia. }
    assert (Lt0 : length t0 = d) by (apply (ptsd_getp d); auto; lia).
    assert (LtN : length tN = d) by (apply (ptsd_getp d); auto; lia).
    assert (LL : forall c, c < cnt -> length (nth c L []) = d) by (intros c Hc; apply (lsweep_len d); auto; lia).
    assert (LR : forall c, c < cnt -> length (nth c R []) = d) by (intros c Hc; apply (rsweep_len d); auto; lia).
    replace (Z.of_nat first - 1)%Z with (Z.of_nat (first - 1)) by lia.
    replace (Z.of_nat lst + 1)%Z with (Z.of_nat (S lst)) by lia.
    replace (Z.of_nat lst - Z.of_nat first + 2)%Z with (Z.of_nat (m + 2)) by (unfold m; lia).
    replace (Z.of_nat lst - Z.of_nat first + 1)%Z with (Z.of_nat (m + 1)) by (unfold m; lia).
    replace (Z.of_nat lst - Z.of_nat first)%Z with (Z.of_nat m) by (unfold m; lia).
    rewrite (znth_nat Pw (first - 1) []) by lia. cbn [gbind]. fold (getp Pw (first - 1)). fold t0.
    change (zset temp 0%Z t0) with (zset temp (Z.of_nat O) t0). rewrite zset_nat by lia. cbn [gbind].
    rewrite (znth_nat Pw (S lst) []) by lia. cbn [gbind]. fold (getp Pw (S lst)). fold tN.
    rewrite zset_nat by (rewrite upd_length; lia). cbn [gbind].
    set (tempA := upd (upd temp O t0) (m + 2) tN).
    assert (TA : Tinv m t0 tN L R O tempA).
    { unfold Tinv, tempA. rewrite !upd_length. split; [exact Ltemp|]. split.
      - rewrite nth_upd_other by lia. apply nth_upd_same. lia.
      - split; [apply nth_upd_same; rewrite upd_length; lia|]. split; intros k Hk; lia. }
    (* the sweeps *)
    replace (Z.to_nat (Z.abs (Z.of_nat m) + 1)) with (S m) by lia.
    match goal with |- context [gwhile (S m) ?cc ?bb (tempA, Z.of_nat first, Z.of_nat lst, 1%Z, Z.of_nat (m + 1))] =>
      destruct (gwhile_count (fun c (x : list (list T)) => (x, Z.of_nat (first + c), Z.of_nat (lst - c), Z.of_nat (1 + c), Z.of_nat (m + 1 - c)))
                  (Tinv m t0 tN L R) cc bb cnt) with (fuel := S m) (x0 := tempA) as (tempB & EB & TB)
    end.
    + intros c x Hc _. f_equal. apply Z.ltb_lt. apply Hcnt in Hc. unfold m in *. lia.
    + intros x _. f_equal. apply Z.ltb_ge. assert (Hx := Hcnt cnt). unfold m in *. lia.
    + intros c x Hc (Tx1 & Tx2 & Tx3 & Tx4 & Tx5). assert (Hc' := proj1 (Hcnt c) Hc). cbn [gbind].
      rewrite alpha_i_tie by (unfold m, lst, first in *; lia).
      rewrite alpha_j_tie by (unfold m, lst, first in *; lia). cbn [gbind].
      rewrite (znth_nat Pw (first + c) []) by (unfold m in *; lia). cbn [gbind].
      replace (Z.of_nat (1 + c) - 1)%Z with (Z.of_nat c) by lia.
      rewrite (znth_nat x c []) by lia. cbn [gbind].
      rewrite zset_nat by lia. cbn [gbind].
      rewrite (znth_nat Pw (lst - c) []) by lia. cbn [gbind].
      replace (Z.of_nat (m + 1 - c) + 1)%Z with (Z.of_nat (m + 2 - c)) by lia.
      rewrite (znth_nat _ (m + 2 - c) []) by (rewrite upd_length; lia). cbn [gbind].
      rewrite zset_nat by (rewrite upd_length; lia). cbn [gbind].
      rewrite nth_upd_other by lia.
      eexists. split.
      { f_equal. f_equal; [f_equal; [f_equal; [f_equal|]|]|]; lia. }
      (* the new slots *)
      assert (EL : nth c L [] = unlerp_i K (rem_alpha_i K U u p t (first + c)) (getp Pw (first + c)) (nth c x [])).
      { unfold L. rewrite lsweep_nth by exact Hc. f_equal. destruct c as [|c']; [now rewrite Tx2|]. symmetry. apply Tx4. lia. }
      assert (ER : nth c R [] = unlerp_j K (rem_alpha_j K U u p t (lst - c)) (getp Pw (lst - c)) (nth (m + 2 - c) x [])).
      { unfold R. rewrite rsweep_nth by (auto; lia). f_equal. destruct c as [|c']; [now rewrite Nat.sub_0_r, Tx3|].
        symmetry. replace (m + 2 - S c') with (m + 1 - c') by lia. apply Tx5. lia. }
      unfold Tinv. rewrite !upd_length. split; [exact Tx1|]. split; [rewrite !nth_upd_other by lia; exact Tx2|].
      split; [rewrite !nth_upd_other by lia; exact Tx3|]. split; intros k Hk.
      * destruct (Nat.eq_dec k c) as [->|Hne].
        -- rewrite nth_upd_other by lia. rewrite nth_upd_same by lia. rewrite EL. unfold unlerp_i, getp.
           apply map_ext. intros [a b]. reflexivity.
        -- rewrite !nth_upd_other by lia. apply Tx4. lia.
      * destruct (Nat.eq_dec k c) as [->|Hne].
        -- rewrite nth_upd_same by (rewrite upd_length; lia). rewrite ER. unfold unlerp_j, getp.
           apply map_ext. intros [a b]. reflexivity.
        -- rewrite !nth_upd_other by lia. apply Tx5. lia.
    + lia.
    + exact TA.
    + rewrite Nat.add_0_r, !Nat.sub_0_r in EB. change (Z.of_nat (1 + 0)) with 1%Z in EB. rewrite EB. cbn [gbind].
      destruct TB as (TB1 & TB2 & TB3 & TB4 & TB5).
      set (lastL := last L t0). set (lastR := last R tN).
      assert (ElastL : nth cnt tempB [] = lastL /\ length lastL = d).
      { unfold lastL. rewrite last_sweep. replace (length L) with cnt by (unfold L; now rewrite lsweep_length).
        destruct cnt as [|c']; [split; [exact TB2|exact Lt0]|]. split; [apply TB4; lia|apply LL; lia]. }
      assert (ElastR : nth (m + 2 - cnt) tempB [] = lastR /\ length lastR = d).
      { unfold lastR. rewrite last_sweep. replace (length R) with cnt by (unfold R; now rewrite rsweep_length).
        destruct cnt as [|c']; [rewrite Nat.sub_0_r; split; [exact TB3|exact LtN]|].
        split; [replace (m + 2 - S c') with (m + 1 - c') by lia; apply TB5; lia|apply LR; lia]. }
      destruct ElastL as [ElastL LlastL]. destruct ElastR as [ElastR LlastR].
      assert (Hend : ~ t + 2 * cnt < m) by (intros Hx; apply Hcnt in Hx; lia).
      (* the removability test *)
      assert (Eflag : exists fl,
        (if (Z.of_nat (lst - cnt) - Z.of_nat (first + cnt) <? Z.of_nat t)%Z
         then do v_13 <- znth tempB (Z.of_nat (1 + cnt) - 1) ;; do v_14 <- znth tempB (Z.of_nat (m + 1 - cnt) + 1) ;;
              do v_15 <- dist v_13 v_14 ;; do remflag <- (if oleb K v_15 tol then GOk true else GOk false) ;; GOk remflag
         else do alpha_i <- knot_removal_alpha_i K u (Z.of_nat p) U (Z.of_nat t) (Z.of_nat (first + cnt)) ;;
              do v_17 <- znth tempB (Z.of_nat (1 + cnt) + Z.of_nat t + 1) ;; do v_18 <- znth tempB (Z.of_nat (1 + cnt) - 1) ;;
              do v_19 <- znth Pw (Z.of_nat (first + cnt)) ;;
              do v_20 <- dist v_19 (map (fun '(t2, t3) => oadd K (omul K alpha_i t2) (omul K (osub K (o1 K) alpha_i) t3)) (combine v_17 v_18)) ;;
              do remflag <- (if oleb K v_20 tol then GOk true else GOk false) ;; GOk remflag) = GOk fl
        /\ fl = oleb K (rem_test K d p U u r s Pw t) tol2).
      { unfold rem_test. fold first lst. rewrite <- Ecnt. fold t0 tN. fold L R. fold lastL lastR.
        replace (Z.of_nat (1 + cnt) - 1)%Z with (Z.of_nat cnt) by lia.
        destruct (Z.ltb_spec (Z.of_nat (lst - cnt) - Z.of_nat (first + cnt)) (Z.of_nat t)) as [Hlt|Hge];
          destruct (Nat.ltb_spec (lst - cnt) (first + cnt + t)) as [Hlt'|Hge']; try (exfalso; unfold m in *; lia).
        - replace (Z.of_nat (m + 1 - cnt) + 1)%Z with (Z.of_nat (m + 2 - cnt)) by lia.
          rewrite (znth_nat tempB cnt []), (znth_nat tempB (m + 2 - cnt) []) by lia. cbn [gbind]. rewrite ElastL, ElastR.
          destruct (Hdist lastL lastR LlastL LlastR) as (v & Ev & Hv). rewrite Ev. cbn [gbind].
          rewrite !firstn_all2 by lia. rewrite <- Hv. destruct (oleb K v tol); cbn [gbind]; eexists; split; reflexivity.
        - assert (Emid : m = t + 2 * cnt) by (unfold m in *; lia).
          rewrite alpha_i_tie by (unfold m, lst, first in *; lia). cbn [gbind].
          replace (Z.of_nat (1 + cnt) + Z.of_nat t + 1)%Z with (Z.of_nat (m + 2 - cnt)) by lia.
          rewrite (znth_nat tempB (m + 2 - cnt) []), (znth_nat tempB cnt []) by lia. cbn [gbind]. rewrite ElastL, ElastR.
          rewrite (znth_nat Pw (first + cnt) []) by (unfold m in *; lia). cbn [gbind]. fold (getp Pw (first + cnt)).
          set (a := rem_alpha_i K U u p t (first + cnt)).
          replace (map (fun '(t2, t3) => oadd K (omul K a t2) (omul K (osub K (o1 K) a) t3)) (combine lastR lastL)) with (mix K a lastR lastL)
            by (unfold mix; apply map_ext; intros [x y]; reflexivity).
          assert (Lg : length (getp Pw (first + cnt)) = d) by (apply (ptsd_getp d); auto; unfold m in *; lia).
          assert (Lmix : length (mix K a lastR lastL) = d) by (unfold mix; rewrite map_length, combine_length; lia).
          destruct (Hdist _ _ Lg Lmix) as (v & Ev & Hv). rewrite Ev. cbn [gbind].
          rewrite !firstn_all2 by lia. rewrite <- Hv. destruct (oleb K v tol); cbn [gbind]; eexists; split; reflexivity. }
      destruct Eflag as (fl & Efl & Hflag). rewrite Efl. cbn [gbind].
      (* the new control points *)
      assert (Ecopy : exists x,
        (if fl then
           do x_ <- gwhile (S m) (fun '(_, i, j) => GOk (Z.of_nat t <? j - i)%Z)
                      (fun '(ctrlpts_new, i, j) =>
                         do v_21 <- znth tempB (i - Z.of_nat first + 1) ;; do ctrlpts_new0 <- zset ctrlpts_new i v_21 ;;
                         do v_22 <- znth tempB (j - Z.of_nat first + 1) ;; do ctrlpts_new1 <- zset ctrlpts_new0 j v_22 ;;
                         GOk (ctrlpts_new1, (i + 1)%Z, (j - 1)%Z)) (Pw, Z.of_nat first, Z.of_nat lst) ;;
           let (p0, j) := x_ in let (ctrlpts_new, i) := p0 in GOk (i, j, ctrlpts_new)
         else GOk (Z.of_nat (first + cnt), Z.of_nat (lst - cnt), Pw)) = GOk x
        /\ snd x = rem_step K d tol2 p U u r s Pw t).
      { unfold rem_step. fold first lst. rewrite <- Ecnt. fold t0 tN. fold L R. rewrite <- Hflag.
        destruct fl; [|eexists; split; reflexivity].
        match goal with |- context [gwhile (S m) ?cc ?bb (Pw, Z.of_nat first, Z.of_nat lst)] =>
          destruct (gwhile_count (fun c (x : list (list T)) => (x, Z.of_nat (first + c), Z.of_nat (lst - c)))
                      (fun c (x : list (list T)) => length x = n /\ forall idx, nth idx x [] =
                         if andb (Nat.leb first idx) (Nat.ltb idx (first + c)) then nth (idx - first) L []
                         else if andb (Nat.ltb (lst - c) idx) (Nat.leb idx lst) then nth (lst - idx) R [] else getp Pw idx)
                      cc bb cnt) with (fuel := S m) (x0 := Pw) as (PwC & EC & LC & HC)
        end.
        - intros c x Hc _. f_equal. apply Z.ltb_lt. apply Hcnt in Hc. unfold m in *. lia.
        - intros x _. f_equal. apply Z.ltb_ge. unfold m in *. lia.
        - intros c x Hc (Lx & Hx). assert (Hc' := proj1 (Hcnt c) Hc). cbn [gbind].
          replace (Z.of_nat (first + c) - Z.of_nat first + 1)%Z with (Z.of_nat (S c)) by lia.
          rewrite (znth_nat tempB (S c) []) by lia. cbn [gbind]. rewrite TB4 by exact Hc.
          rewrite zset_nat by (unfold m in *; lia). cbn [gbind].
          replace (Z.of_nat (lst - c) - Z.of_nat first + 1)%Z with (Z.of_nat (m + 1 - c)) by (unfold m in *; lia).
          rewrite (znth_nat tempB (m + 1 - c) []) by lia. cbn [gbind]. rewrite TB5 by exact Hc.
          rewrite zset_nat by (rewrite upd_length; lia). cbn [gbind].
          eexists. split; [f_equal; f_equal; [f_equal|]; lia|]. rewrite !upd_length. split; [exact Lx|].
          intros idx. rewrite !nth_upd, !upd_length, Lx, Hx.
          unfold m in *. repeat (match goal with
            | |- context [Nat.eqb ?a ?b] => destruct (Nat.eqb_spec a b)
            | |- context [Nat.ltb ?a ?b] => destruct (Nat.ltb_spec a b)
            | |- context [Nat.leb ?a ?b] => destruct (Nat.leb_spec a b)
            end; try (exfalso; lia); cbn [andb]); subst; try reflexivity; try (f_equal; lia).
        - lia.
        - split; [exact LPw|]. intros idx.
          repeat (match goal with
            | |- context [Nat.ltb ?a ?b] => destruct (Nat.ltb_spec a b)
            | |- context [Nat.leb ?a ?b] => destruct (Nat.leb_spec a b)
            end; try (exfalso; lia); cbn [andb]); reflexivity.
        - rewrite Nat.add_0_r, Nat.sub_0_r in EC. rewrite EC. cbn [gbind]. eexists. split; [reflexivity|]. cbn [snd].
          apply nth_ext with (d := []) (d' := []); [now rewrite map_length, seq_length, LC|].
          intros idx Hidx. rewrite LC in Hidx. rewrite HC, LPw, nth_map_seq by lia. reflexivity. }
      destruct Ecopy as ([[ic jc] PwC] & EC & HC). cbn [snd] in HC. rewrite EC. cbn [gbind].
      eexists. split; [reflexivity|]. cbn beta iota.
      assert (LS : length (rem_step K d tol2 p U u r s Pw t) = n /\ ptsd d (rem_step K d tol2 p U u r s Pw t)).
      { unfold rem_step. fold first lst. rewrite <- Ecnt. fold t0 tN. fold L R.
        destruct (oleb K _ tol2); [|split; assumption]. split; [now rewrite map_length, seq_length|].
        intros x Hx. apply in_map_iff in Hx. destruct Hx as (idx & <- & Hidx). apply in_seq in Hidx.
        destruct (Nat.leb_spec first idx); destruct (Nat.ltb_spec idx (first + cnt)); cbn [andb]; try (apply LL; lia);
          destruct (Nat.ltb_spec (lst - cnt) idx); destruct (Nat.leb_spec idx lst); cbn [andb]; try (apply LR; lia);
          apply (ptsd_getp d); auto; lia. }
      split; [exact HC|]. split; [unfold first; lia|]. split; [unfold lst; lia|]. split; [exact TB1|exact LS].
  - (* before the first pass *)
    split; [reflexivity|]. split; [reflexivity|]. split; [reflexivity|]. split; [now rewrite repeat_length|]. split; assumption.
  - rewrite EF. cbn [gbind]. destruct HF as (-> & _ & _ & _ & LF & DF). clear EF.
    set (W := fold_left (rem_step K d tol2 p U u r s) (seq O num) P) in *.
    (* the index of the first control point out *)
    set (x2 := 2 * r - s - p). set (j0 := Nat.div2 x2).
    assert (Ej0 : rtrunc (rdiv (2 * Z.of_nat r - Z.of_nat s - Z.of_nat p) 2) = Z.of_nat j0).
    { replace (2 * Z.of_nat r - Z.of_nat s - Z.of_nat p)%Z with (Z.of_nat x2) by (unfold x2; lia).
      unfold rtrunc, rdiv, Qdiv, Qmult, Qinv, inject_Z. cbn [Qnum Qden Z.mul Pos.mul].
      rewrite Z.mul_1_r, Z.quot_div_nonneg by lia. unfold j0. rewrite Nat.div2_div, Nat2Z.inj_div. reflexivity. }
    rewrite Ej0.
    pose proof (Nat.div2_odd x2) as Dx. pose proof (Nat.div2_odd num) as Dn. pose proof (Nat.div2_odd (num - 1)) as Dn1.
    fold j0 in Dx. set (hn := Nat.div2 num) in *. set (hn1 := Nat.div2 (num - 1)) in *.
    assert (Hh : hn + hn1 = num - 1) by (destruct (Nat.odd num); destruct (Nat.odd (num - 1)); cbn [Nat.b2n] in *; lia).
    assert (Hj0 : num <= j0) by (destruct (Nat.odd x2); cbn [Nat.b2n] in *; unfold x2 in *; lia).
    assert (Hj0' : j0 <= r - s) by (destruct (Nat.odd x2); cbn [Nat.b2n] in *; unfold x2 in *; lia).
    (* i and j *)
    replace (Z.of_nat num - 1 + 1)%Z with (Z.of_nat num) by lia. rewrite zrange_1_of_nat.
    match goal with |- context [gfor (map Z.of_nat (seq 1 (num - 1))) ?ff ?s0] =>
      destruct (gfor_seq_inv (fun kk (st : Z * Z) => fst st = Z.of_nat (j0 + Nat.div2 kk) /\ snd st = (Z.of_nat j0 - Z.of_nat (Nat.div2 (kk - 1)))%Z)
                  ff (num - 1) 1) with (s := s0) as ([iF jF] & Eij & Hi & Hj)
    end.
    { intros kk [i j] Hkk (Hi & Hj). cbn [fst snd] in *. subst i j. cbn [gbind].
      pose proof (Nat.div2_odd kk) as D1. pose proof (Nat.div2_odd (S kk)) as D2. pose proof (Nat.div2_odd (kk - 1)) as D3.
      replace (S kk - 1) with kk by lia.
      assert (Ek : (Z.of_nat kk mod 2 =? 1)%Z = Nat.odd kk).
      { rewrite <- (odd_Z kk). pose proof (Z.mod_pos_bound (Z.of_nat kk) 2 ltac:(lia)).
        destruct (Z.eqb_spec (Z.of_nat kk mod 2) 1); destruct (Z.eqb_spec (Z.of_nat kk mod 2) 0); cbn [negb]; try reflexivity; lia. }
      rewrite Ek.
      destruct (Nat.odd kk); destruct (Nat.odd (S kk)); destruct (Nat.odd (kk - 1)); cbn [Nat.b2n gbind] in *;
        eexists; (split; [reflexivity|]); cbn [fst snd]; lia. }
    { cbn [fst snd]. change (Nat.div2 1) with O. change (Nat.div2 (1 - 1)) with O. lia. }
    rewrite Eij. cbn [gbind fst snd] in *. replace (1 + (num - 1)) with num in * by lia. fold hn in Hi. fold hn1 in Hj. subst iF.
    set (iN := j0 + hn) in *. set (jN := j0 - hn1).
    assert (EjF : jF = Z.of_nat jN) by (unfold jN; lia). rewrite EjF. clear Hj EjF Eij jF.
    assert (HiN : S iN < n) by (unfold iN; destruct (Nat.odd num); cbn [Nat.b2n] in *; lia).
    assert (Hdiff : S iN = jN + num) by (unfold iN, jN; lia).
    (* the shift *)
    replace (Z.of_nat iN + 1)%Z with (Z.of_nat (S iN)) by lia. rewrite zrange_nat.
    match goal with |- context [gfor (map Z.of_nat (seq (S iN) (n - S iN))) ?ff ?s0] =>
      destruct (gfor_seq_inv (fun kk (st : list (list T) * Z) => snd st = Z.of_nat (kk - num) /\ length (fst st) = n
                     /\ forall idx, nth idx (fst st) [] = if andb (Nat.leb jN idx) (Nat.ltb (idx + num) kk) then nth (idx + num) W [] else nth idx W [])
                  ff (n - S iN) (S iN)) with (s := s0) as ([WF jE] & EW & _ & LW & HW)
    end.
    { intros kk [W' j] Hkk (Hj & LW' & HW'). cbn [fst snd] in *. subst j. cbn [gbind].
      rewrite (znth_nat W' kk []) by lia. cbn [gbind]. rewrite zset_nat by lia. cbn [gbind].
      eexists. split; [reflexivity|]. cbn [fst snd]. split; [lia|]. rewrite upd_length. split; [exact LW'|].
      intros idx. rewrite nth_upd, LW', !HW'.
      repeat (match goal with
        | |- context [Nat.eqb ?a ?b] => destruct (Nat.eqb_spec a b)
        | |- context [Nat.ltb ?a ?b] => destruct (Nat.ltb_spec a b)
        | |- context [Nat.leb ?a ?b] => destruct (Nat.leb_spec a b)
        end; try (exfalso; lia); cbn [andb]); subst; try reflexivity; try (f_equal; lia). }
    { cbn [fst snd]. split; [lia|]. split; [exact LF|]. intros idx.
      destruct (Nat.leb_spec jN idx); destruct (Nat.ltb_spec (idx + num) (S iN)); cbn [andb]; try reflexivity. lia. }
    rewrite EW. cbn [gbind fst snd] in *. replace (S iN + (n - S iN)) with n in HW by lia.
    f_equal. unfold zslice, zclamp. rewrite LW.
    destruct (Z.ltb_spec 0 0); [lia|]. destruct (Z.ltb_spec (- Z.of_nat num) 0); [|lia].
    change (Z.to_nat 0) with O. rewrite Nat.min_0_r. change (skipn O WF) with WF.
    replace (Z.to_nat (Z.max 0 (Z.of_nat n + - Z.of_nat num)) - 0) with (n - num) by lia.
    fold x2. fold j0. fold hn hn1. fold iN jN.
    apply nth_ext with (d := []) (d' := []).
    + rewrite firstn_length, app_length, firstn_length, skipn_length, LW, LF. lia.
    + intros idx Hidx. rewrite firstn_length, LW in Hidx. rewrite nth_firstn_lt by lia. rewrite HW.
      destruct (Nat.leb_spec jN idx); destruct (Nat.ltb_spec (idx + num) n); cbn [andb]; try (exfalso; lia).
      * rewrite app_nth2 by (rewrite firstn_length, LF; lia). rewrite firstn_length, LF, nth_skipn_add. f_equal. lia.
      * rewrite app_nth1 by (rewrite firstn_length, LF; lia). rewrite nth_firstn_lt by lia. reflexivity.
Qed.
End Main.
End Tie.

Definition knot_removal_tie_R := @knot_removal_tie _ Rops.
Definition knot_removal_tie_Q := @knot_removal_tie _ Qops.

(* ---- the hypothesis on dist is what the real point_distance satisfies: sqrt(dist2) <= tol  <->  dist2 <= tol * tol ---- *)
From Coq Require Import Reals Lra.
Lemma dist2_nonneg (a b : list R) : (0 <= dist2 Rops a b)%R.
Proof.
  unfold dist2. generalize (combine a b). induction l as [|[x y] l IH]; cbn [map sumT]; rsimp; [lra|].
  assert (H := Rle_0_sqr (y - x)). unfold Rsqr in H. cbn [fst snd]. lra.
Qed.
Lemma sqrt_le_tol (x tol : R) : (0 <= x)%R -> (0 <= tol)%R -> Rleb (sqrt x) tol = Rleb x (tol * tol).
Proof.
  intros Hx Ht. unfold Rleb. destruct (Rle_dec (sqrt x) tol) as [H|H]; destruct (Rle_dec x (tol * tol)) as [H'|H']; try reflexivity; exfalso.
  - apply H'. rewrite <- (sqrt_sqrt x Hx). apply Rmult_le_compat; auto using sqrt_pos.
  - apply H. rewrite <- (sqrt_square tol Ht). now apply sqrt_le_1_alt.
Qed.
(* the generated function run with dist = sqrt of the squared distance, against the model with tol2 = tol * tol *)
Theorem knot_removal_tie_R_sqrt (p n r s num d : nat) (U : list R) (P : list (list R)) (u tol : R) :
  length P = n -> n + p + 1 <= length U -> 1 <= num -> num <= s -> s <= p -> p + num <= r -> r - s + num < n ->
  ptsd d P -> 1 <= d -> (0 <= tol)%R ->
  HelpersB.knot_removal Rops (Z.of_nat p) U P u (Z.of_nat num) (Z.of_nat s) (Z.of_nat r) tol (fun a b => GOk (sqrt (dist2 Rops a b))) =
  GOk (KnotRem.knot_removal Rops d (tol * tol)%R p U P u num s r).
Proof.
  intros. apply (knot_removal_tie Rops p n r s num d); auto.
  intros a b _ _. eexists. split; [reflexivity|]. apply sqrt_le_tol; auto. apply dist2_nonneg.
Qed.

(* ---- non-vacuity: a cubic with the knot 1/2 inserted once / twice, removed again; a knot that is not removable ---- *)
Local Open Scope Q_scope.
Definition exU1 : list Q := [0; 0; 0; 0; 1#2; 1; 1; 1; 1].
Definition exP1 : list (list Q) := [[0; 0]; [1#2; 1]; [2; 2]; [7#2; 1]; [4; 0]].
Definition exU2 : list Q := [0; 0; 0; 0; 1#2; 1#2; 1; 1; 1; 1].
Definition exP2 : list (list Q) := [[0; 0]; [1#2; 1]; [5#4; 3#2]; [11#4; 3#2]; [7#2; 1]; [4; 0]].
Definition d2Q (a b : list Q) : gres Q := GOk (dist2 Qops a b).
Example knot_removal_ex :
  HelpersB.knot_removal Qops 3 exU1 exP1 (1#2) 1 1 4 (1#1000) d2Q = GOk [[0; 0]; [1; 2]; [3; 2]; [4; 0]]
  /\ KnotRem.knot_removal Qops 2 (1#1000) 3 exU1 exP1 (1#2) 1 1 4 = [[0; 0]; [1; 2]; [3; 2]; [4; 0]]
  /\ HelpersB.knot_removal Qops 3 exU2 exP2 (1#2) 2 2 5 (1#1000) d2Q = GOk [[0; 0]; [1; 2]; [3; 2]; [4; 0]]
  /\ HelpersB.knot_removal Qops 3 exU2 exP2 (1#2) 1 2 5 (1#1000) d2Q = GOk exP1
  /\ KnotRem.knot_removal Qops 2 (1#1000) 3 exU2 exP2 (1#2) 1 2 5 = exP1
  /\ HelpersB.knot_removal Qops 3 exU1 [[0; 0]; [1#2; 1]; [2; 5]; [7#2; 1]; [4; 0]] (1#2) 1 1 4 (1#1000) d2Q
     = GOk (KnotRem.knot_removal Qops 2 (1#1000) 3 exU1 [[0; 0]; [1#2; 1]; [2; 5]; [7#2; 1]; [4; 0]] (1#2) 1 1 4)
  /\ HelpersB.knot_removal Qops 3 exU1 exP1 (1#2) 0 1 4 (1#1000) d2Q = GOk exP1.
Proof. repeat split; vm_compute; reflexivity. Qed.
