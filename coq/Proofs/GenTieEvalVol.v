(* Ties: generated evaluators.VolumeEvaluator.evaluate / VolumeEvaluatorRational.evaluate  =  Model/Eval.v
   (volume_evalpts, project), for every scalar instance.  No law of the scalar operations is used. *)
From Coq Require Import List ZArith Arith Bool Lia QArith.
From NV Require Import Scalar.Ops Model.Common Model.Basis Model.Knots Model.Eval
  Gen.Prelude Gen.PreludeExt Gen.Linalg Gen.Helpers Gen.Evaluators
  Proofs.GenTieLib Proofs.GenTieLib2 Proofs.GenTieKnots Proofs.GenTieSpan Proofs.GenTieBasis Proofs.GenTieEvalLib Proofs.GenTieEvalCurve
  Proofs.GenTieEvalSurf.
Import ListNotations.
Local Open Scope nat_scope.

Section Tie.
Context {T : Type} (K : ops T).

(* datadict of a volume (Volume.data): degree = (pu, pv, pw), knotvector = (Uu, Uv, Uw), size = (su, sv, sw), pdimension = 3,
   sample_size = (nu, nv, nw), control_points = P (flat: v fastest, then u, then w) *)
Definition vol_dd (dd : geomdata T) (pu pv pw : nat) (Uu Uv Uw : list T) (su sv sw : nat) (P : list (list T)) (nu nv nw : Z) : Prop :=
  geomdata_degree dd = [Z.of_nat pu; Z.of_nat pv; Z.of_nat pw] /\ geomdata_knotvector dd = [Uu; Uv; Uw] /\
  geomdata_size dd = [Z.of_nat su; Z.of_nat sv; Z.of_nat sw] /\ geomdata_sample_size dd = [nu; nv; nw] /\
  geomdata_pdimension dd = 3%Z /\ geomdata_control_points dd = P.

Lemma vol_index (a b c su sv sw : nat) : a < sv -> b < su -> c < sw -> a + sv * (b + su * c) < su * sv * sw.
Proof.
  intros Ha Hb Hc.
  assert (b + su * c < su * sw) by nia.
  assert (a + sv * (b + su * c) < sv * (su * sw)) by nia. nia.
Qed.

(* wf: per direction degree < size and size + degree <= len(knot vector); size_u * size_v * size_w <= len(control points) *)
Theorem VolumeEvaluator_evaluate_tie_gen (func : Z -> list T -> Z -> T -> gres Z) (dd : geomdata T)
    (pu pv pw : nat) (Uu Uv Uw : list T) (su sv sw : nat) (P : list (list T)) (nu nv nw : Z) (a0 a1 b0 b1 c0 c1 : T) :
  vol_dd dd pu pv pw Uu Uv Uw su sv sw P nu nv nw ->
  pu < su -> su + pu <= length Uu -> pv < sv -> sv + pv <= length Uv -> pw < sw -> sw + pw <= length Uw ->
  su * sv * sw <= length P ->
  (forall u, func (Z.of_nat pu) Uu (Z.of_nat su) u = GOk (Z.of_nat (Basis.find_span_linear K pu Uu su u))) ->
  (forall v, func (Z.of_nat pv) Uv (Z.of_nat sv) v = GOk (Z.of_nat (Basis.find_span_linear K pv Uv sv v))) ->
  (forall w, func (Z.of_nat pw) Uw (Z.of_nat sw) w = GOk (Z.of_nat (Basis.find_span_linear K pw Uw sw w))) ->
  Evaluators.VolumeEvaluator_evaluate K func dd [a0; b0; c0] [a1; b1; c1] =
  GOk (volume_evalpts K (lit_10e_8 K) (Z.to_nat (eval_dim dd)) pu pv pw Uu Uv Uw su sv sw P a0 a1 b0 b1 c0 c1
         (Z.to_nat nu) (Z.to_nat nv) (Z.to_nat nw)).
Proof.
  intros (Hd & Hk & Hs & Hn & Hpd & Hc) Hpu Hlu Hpv Hlv Hpw Hlw HP Hfu Hfv Hfw.
  unfold Evaluators.VolumeEvaluator_evaluate. cbv zeta. fold (eval_dim dd).
  rewrite Hd, Hk, Hs, Hn, Hpd, Hc.
  set (ps := [pu; pv; pw]). set (ns := [su; sv; sw]). set (Us := [Uu; Uv; Uw]).
  set (starts := [a0; b0; c0]). set (stops := [a1; b1; c1]). set (samples := [nu; nv; nw]).
  assert (wf : forall k, k < 3 -> dP ps k < dN ns k /\ dN ns k + dP ps k <= length (dU Us k)).
  { intros [|[|[|k]]] Hk3; try lia; unfold dP, dN, dU; simpl; lia. }
  assert (Hf : forall k u, k < 3 -> func (Z.of_nat (dP ps k)) (dU Us k) (Z.of_nat (dN ns k)) u =
                 GOk (Z.of_nat (Basis.find_span_linear K (dP ps k) (dU Us k) (dN ns k) u))).
  { intros [|[|[|k]]] u Hk3; try lia; unfold dP, dN, dU; simpl; auto. }
  change [Z.of_nat pu; Z.of_nat pv; Z.of_nat pw] with (map Z.of_nat ps).
  change [Z.of_nat su; Z.of_nat sv; Z.of_nat sw] with (map Z.of_nat ns).
  change 3%Z with (Z.of_nat 3).
  change (gfor (zrange 0 (Z.of_nat 3) 1) ?f) with (gfor (zrange 0 (Z.of_nat 3) 1) (dir_body K func starts stops samples (geomdata_precision dd) (map Z.of_nat ps) Us (map Z.of_nat ns))).
  rewrite (dir_loop K func ps ns Us starts stops samples (geomdata_precision dd) 3) by auto.
  cbn [gbind map seq].
  set (SP0 := dSP K ps ns Us starts stops samples 0). set (SP1 := dSP K ps ns Us starts stops samples 1).
  set (SP2 := dSP K ps ns Us starts stops samples 2).
  set (BS0 := dBS K ps ns Us starts stops samples 0). set (BS1 := dBS K ps ns Us starts stops samples 1).
  set (BS2 := dBS K ps ns Us starts stops samples 2).
  set (kn0 := dknots K starts stops samples 0). set (kn1 := dknots K starts stops samples 1). set (kn2 := dknots K starts stops samples 2).
  change (map Z.of_nat ps) with [Z.of_nat pu; Z.of_nat pv; Z.of_nat pw].
  change (map Z.of_nat ns) with [Z.of_nat su; Z.of_nat sv; Z.of_nat sw].
  assert (L0 : length SP0 = length kn0) by apply dSP_length.
  assert (L1 : length SP1 = length kn1) by apply dSP_length.
  assert (L2 : length SP2 = length kn2) by apply dSP_length.
  assert (Z1 : forall A (a b c : A), znth [a; b; c] 1 = GOk b) by reflexivity.
  assert (Z2 : forall A (a b c : A), znth [a; b; c] 2 = GOk c) by reflexivity.
  rewrite !Z1, !Z2, !znth_0. cbn [gbind].
  set (dim := Z.to_nat (eval_dim dd)).
  set (VP := fun i j k : nat =>
    fold_left (fun spt du =>
      let temp2 := fold_left (fun t2 dv =>
         let temp := fold_left (fun t dw =>
             axpy K (nth dw (nth k BS2 []) (o0 K))
               (pt_at P (nth j SP1 0 - pv + dv + sv * (nth i SP0 0 - pu + du + su * (nth k SP2 0 - pw + dw)))) t)
             (seq 0 (S pw)) (vzero K dim) in
         axpy K (nth dv (nth j BS1 []) (o0 K)) temp t2) (seq 0 (S pv)) (vzero K dim) in
      axpy K (nth du (nth i BS0 []) (o0 K)) temp2 spt) (seq 0 (S pu)) (vzero K dim)).
  rewrite zlen_nat, map_length, zrange_0_nat, gfor_map.
  rewrite (gfor_append_nested _ _ (fun i => flat_map (fun j => map (fun k => VP i j k) (seq 0 (length kn2))) (seq 0 (length kn1)))).
  - cbn [gbind app]. f_equal. unfold volume_evalpts.
    change (Knots.linspace K (lit_10e_8 K) a0 a1 (Z.to_nat nu)) with kn0.
    change (Knots.linspace K (lit_10e_8 K) b0 b1 (Z.to_nat nv)) with kn1.
    change (Knots.linspace K (lit_10e_8 K) c0 c1 (Z.to_nat nw)) with kn2.
    rewrite <- (flat_map_nth_seq (fun u => flat_map (fun v => map (fun w =>
        volume_point K dim pu pv pw Uu Uv Uw su sv sw P u v w) kn2) kn1) kn0 (o0 K)).
    rewrite L0. apply flat_map_ext_in. intros i Hi. apply in_seq in Hi.
    rewrite <- (flat_map_nth_seq (fun v => map (fun w =>
        volume_point K dim pu pv pw Uu Uv Uw su sv sw P (nth i kn0 (o0 K)) v w) kn2) kn1 (o0 K)).
    apply flat_map_ext_in. intros j Hj. apply in_seq in Hj.
    rewrite <- (map_nth_seq (fun w => volume_point K dim pu pv pw Uu Uv Uw su sv sw P (nth i kn0 (o0 K)) (nth j kn1 (o0 K)) w) kn2 (o0 K)).
    apply map_seq_ext. intros k Hk_. unfold volume_point, VP. cbv zeta.
    unfold BS0, BS1, BS2. rewrite !dBS_nth by (fold kn0; fold kn1; fold kn2; lia).
    unfold SP0, SP1, SP2. rewrite !dSP_nth by (fold kn0; fold kn1; fold kn2; lia). reflexivity.
  - intros i acc Hi. apply in_seq in Hi.
    rewrite znth_map_nat by lia. cbn [gbind].
    rewrite zlen_nat, map_length, zrange_0_nat, gfor_map, L1.
    rewrite (gfor_append_nested _ _ (fun j => map (fun k => VP i j k) (seq 0 (length kn2)))); [reflexivity|].
    intros j acc2 Hj. apply in_seq in Hj.
    rewrite znth_map_nat by lia. cbn [gbind].
    rewrite zlen_nat, map_length, zrange_0_nat, gfor_map, L2.
    rewrite (gfor_append_gen _ _ (fun k => VP i j k)); [reflexivity|].
    intros k acc3 Hk_. apply in_seq in Hk_.
    rewrite znth_map_nat by lia. cbn [gbind].
    assert (B0 : pu <= nth i SP0 0 < su) by (apply (dSP_bounds K ps ns Us starts stops samples 3 wf 0 i); [lia|fold kn0; lia]).
    assert (B1 : pv <= nth j SP1 0 < sv) by (apply (dSP_bounds K ps ns Us starts stops samples 3 wf 1 j); [lia|fold kn1; lia]).
    assert (B2 : pw <= nth k SP2 0 < sw) by (apply (dSP_bounds K ps ns Us starts stops samples 3 wf 2 k); [lia|fold kn2; lia]).
    assert (R0 : length (nth i BS0 []) = S pu) by (apply (dBS_row_length K ps ns Us starts stops samples 0 i); fold kn0; lia).
    assert (R1 : length (nth j BS1 []) = S pv) by (apply (dBS_row_length K ps ns Us starts stops samples 1 j); fold kn1; lia).
    assert (R2 : length (nth k BS2 []) = S pw) by (apply (dBS_row_length K ps ns Us starts stops samples 2 k); fold kn2; lia).
    assert (LB0 : length BS0 = length kn0) by apply dBS_length.
    assert (LB1 : length BS1 = length kn1) by apply dBS_length.
    assert (LB2 : length BS2 = length kn2) by apply dBS_length.
    replace (Z.of_nat pu + 1)%Z with (Z.of_nat (S pu)) by lia.
    rewrite zrange_0_nat, gfor_map, zeros_vzero. fold dim. unfold VP.
    rewrite (gfor_pure _ _ (fun spt du =>
      axpy K (nth du (nth i BS0 []) (o0 K))
       (fold_left (fun t2 dv =>
         axpy K (nth dv (nth j BS1 []) (o0 K))
          (fold_left (fun t dw =>
             axpy K (nth dw (nth k BS2 []) (o0 K))
               (pt_at P (nth j SP1 0 - pv + dv + sv * (nth i SP0 0 - pu + du + su * (nth k SP2 0 - pw + dw)))) t)
             (seq 0 (S pw)) (vzero K dim)) t2) (seq 0 (S pv)) (vzero K dim)) spt)); [reflexivity|].
    intros du spt Hdu. apply in_seq in Hdu.
    replace (Z.of_nat pv + 1)%Z with (Z.of_nat (S pv)) by lia.
    rewrite zrange_0_nat, gfor_map.
    rewrite (gfor_pure _ _ (fun t2 dv =>
         axpy K (nth dv (nth j BS1 []) (o0 K))
          (fold_left (fun t dw =>
             axpy K (nth dw (nth k BS2 []) (o0 K))
               (pt_at P (nth j SP1 0 - pv + dv + sv * (nth i SP0 0 - pu + du + su * (nth k SP2 0 - pw + dw)))) t)
             (seq 0 (S pw)) (vzero K dim)) t2)).
    + cbn [gbind].
      rewrite (gmapM_axpy2 K BS0 (Z.of_nat i) (Z.of_nat du) (nth i BS0 []) (nth du (nth i BS0 []) (o0 K)));
        [reflexivity|apply znth_nat; lia|apply znth_nat; lia].
    + intros dv t2 Hdv. apply in_seq in Hdv.
      replace (Z.of_nat pw + 1)%Z with (Z.of_nat (S pw)) by lia.
      rewrite zrange_0_nat, gfor_map.
      rewrite (gfor_pure _ _ (fun t dw =>
             axpy K (nth dw (nth k BS2 []) (o0 K))
               (pt_at P (nth j SP1 0 - pv + dv + sv * (nth i SP0 0 - pu + du + su * (nth k SP2 0 - pw + dw)))) t)).
      * cbn [gbind].
        rewrite (gmapM_axpy2 K BS1 (Z.of_nat j) (Z.of_nat dv) (nth j BS1 []) (nth dv (nth j BS1 []) (o0 K)));
          [reflexivity|apply znth_nat; lia|apply znth_nat; lia].
      * intros dw t Hdw. apply in_seq in Hdw.
        replace (Z.of_nat (nth j SP1 0%nat) - Z.of_nat pv + Z.of_nat dv +
                 Z.of_nat sv * (Z.of_nat (nth i SP0 0%nat) - Z.of_nat pu + Z.of_nat du + Z.of_nat su * (Z.of_nat (nth k SP2 0%nat) - Z.of_nat pw + Z.of_nat dw)))%Z
          with (Z.of_nat (nth j SP1 0%nat - pv + dv + sv * (nth i SP0 0%nat - pu + du + su * (nth k SP2 0%nat - pw + dw))))
          by (rewrite !Nat2Z.inj_add, Nat2Z.inj_mul, !Nat2Z.inj_add, Nat2Z.inj_mul, Nat2Z.inj_add, !Nat2Z.inj_sub by lia; reflexivity).
        rewrite (znth_nat P _ []).
        -- cbn [gbind].
           rewrite (gmapM_axpy2 K BS2 (Z.of_nat k) (Z.of_nat dw) (nth k BS2 []) (nth dw (nth k BS2 []) (o0 K)));
             [reflexivity|apply znth_nat; lia|apply znth_nat; lia].
        -- pose proof (vol_index (nth j SP1 0 - pv + dv) (nth i SP0 0 - pu + du) (nth k SP2 0 - pw + dw) su sv sw
                         ltac:(lia) ltac:(lia) ltac:(lia)). lia.
Qed.

Theorem VolumeEvaluator_evaluate_tie (dd : geomdata T)
    (pu pv pw : nat) (Uu Uv Uw : list T) (su sv sw : nat) (P : list (list T)) (nu nv nw : Z) (a0 a1 b0 b1 c0 c1 : T) :
  vol_dd dd pu pv pw Uu Uv Uw su sv sw P nu nv nw ->
  pu < su -> su + pu <= length Uu -> pv < sv -> sv + pv <= length Uv -> pw < sw -> sw + pw <= length Uw ->
  su * sv * sw <= length P ->
  Evaluators.VolumeEvaluator_evaluate K (Helpers.find_span_linear K) dd [a0; b0; c0] [a1; b1; c1] =
  GOk (volume_evalpts K (lit_10e_8 K) (Z.to_nat (eval_dim dd)) pu pv pw Uu Uv Uw su sv sw P a0 a1 b0 b1 c0 c1
         (Z.to_nat nu) (Z.to_nat nv) (Z.to_nat nw)).
Proof.
  intros. apply VolumeEvaluator_evaluate_tie_gen; auto; intros; apply find_span_linear_tie; lia.
Qed.

(* ---- rational volumes ---- *)
Lemma volume_point_length (dim pu pv pw : nat) (Uu Uv Uw : list T) (su sv sw : nat) (P : list (list T)) (u v w : T) :
  pu < su -> pv < sv -> pw < sw -> su * sv * sw <= length P -> (forall pt, In pt P -> length pt = dim) ->
  length (volume_point K dim pu pv pw Uu Uv Uw su sv sw P u v w) = dim.
Proof.
  intros Hpu Hpv Hpw HP Hdim. unfold volume_point. cbv zeta.
  pose proof (find_span_linear_bounds K pu Uu su u Hpu). pose proof (find_span_linear_bounds K pv Uv sv v Hpv).
  pose proof (find_span_linear_bounds K pw Uw sw w Hpw).
  apply (fold_axpy_length K (fun k => nth k (Basis.basis_function K pu Uu (Basis.find_span_linear K pu Uu su u) u) (o0 K))).
  - apply repeat_length.
  - intros du Hdu. apply in_seq in Hdu.
    apply (fold_axpy_length K (fun l => nth l (Basis.basis_function K pv Uv (Basis.find_span_linear K pv Uv sv v) v) (o0 K))).
    + apply repeat_length.
    + intros dv Hdv. apply in_seq in Hdv.
      apply (fold_axpy_length K (fun l => nth l (Basis.basis_function K pw Uw (Basis.find_span_linear K pw Uw sw w) w) (o0 K))).
      * apply repeat_length.
      * intros dw Hdw. apply in_seq in Hdw. apply Hdim. apply nth_In.
        pose proof (vol_index (Basis.find_span_linear K pv Uv sv v - pv + dv) (Basis.find_span_linear K pu Uu su u - pu + du)
                      (Basis.find_span_linear K pw Uw sw w - pw + dw) su sv sw ltac:(lia) ltac:(lia) ltac:(lia)). lia.
Qed.

(* wf in addition: every (weighted) control point has exactly `dimension` >= 1 coordinates *)
Theorem VolumeEvaluatorRational_evaluate_tie_gen (func : Z -> list T -> Z -> T -> gres Z) (dd : geomdata T)
    (pu pv pw : nat) (Uu Uv Uw : list T) (su sv sw : nat) (P : list (list T)) (nu nv nw : Z) (a0 a1 b0 b1 c0 c1 : T) :
  vol_dd dd pu pv pw Uu Uv Uw su sv sw P nu nv nw ->
  pu < su -> su + pu <= length Uu -> pv < sv -> sv + pv <= length Uv -> pw < sw -> sw + pw <= length Uw ->
  su * sv * sw <= length P ->
  (1 <= eval_dim dd)%Z -> (forall pt, In pt P -> Z.of_nat (length pt) = eval_dim dd) ->
  (forall u, func (Z.of_nat pu) Uu (Z.of_nat su) u = GOk (Z.of_nat (Basis.find_span_linear K pu Uu su u))) ->
  (forall v, func (Z.of_nat pv) Uv (Z.of_nat sv) v = GOk (Z.of_nat (Basis.find_span_linear K pv Uv sv v))) ->
  (forall w, func (Z.of_nat pw) Uw (Z.of_nat sw) w = GOk (Z.of_nat (Basis.find_span_linear K pw Uw sw w))) ->
  Evaluators.VolumeEvaluatorRational_evaluate K func dd [a0; b0; c0] [a1; b1; c1] =
  GOk (map (project K)
        (volume_evalpts K (lit_10e_8 K) (Z.to_nat (eval_dim dd)) pu pv pw Uu Uv Uw su sv sw P a0 a1 b0 b1 c0 c1
           (Z.to_nat nu) (Z.to_nat nv) (Z.to_nat nw))).
Proof.
  intros Hdd Hpu Hlu Hpv Hlv Hpw Hlw HP Hdim Hpts Hfu Hfv Hfw.
  unfold Evaluators.VolumeEvaluatorRational_evaluate. cbv zeta.
  rewrite (VolumeEvaluator_evaluate_tie_gen func dd pu pv pw Uu Uv Uw su sv sw P nu nv nw a0 a1 b0 b1 c0 c1) by auto. cbn [gbind].
  fold (eval_dim dd). rewrite project_loop; [reflexivity|].
  intros pt Hin. unfold volume_evalpts in Hin. apply in_flat_map in Hin. destruct Hin as (u & _ & Hin).
  apply in_flat_map in Hin. destruct Hin as (v & _ & Hin).
  apply in_map_iff in Hin. destruct Hin as (w & <- & _).
  assert (L : length (volume_point K (Z.to_nat (eval_dim dd)) pu pv pw Uu Uv Uw su sv sw P u v w) = Z.to_nat (eval_dim dd)).
  { apply volume_point_length; auto. intros pt Hpt. specialize (Hpts pt Hpt). lia. }
  split; [lia|]. intros E. rewrite E in L. simpl in L. lia.
Qed.

Theorem VolumeEvaluatorRational_evaluate_tie (dd : geomdata T)
    (pu pv pw : nat) (Uu Uv Uw : list T) (su sv sw : nat) (P : list (list T)) (nu nv nw : Z) (a0 a1 b0 b1 c0 c1 : T) :
  vol_dd dd pu pv pw Uu Uv Uw su sv sw P nu nv nw ->
  pu < su -> su + pu <= length Uu -> pv < sv -> sv + pv <= length Uv -> pw < sw -> sw + pw <= length Uw ->
  su * sv * sw <= length P ->
  (1 <= eval_dim dd)%Z -> (forall pt, In pt P -> Z.of_nat (length pt) = eval_dim dd) ->
  Evaluators.VolumeEvaluatorRational_evaluate K (Helpers.find_span_linear K) dd [a0; b0; c0] [a1; b1; c1] =
  GOk (map (project K)
        (volume_evalpts K (lit_10e_8 K) (Z.to_nat (eval_dim dd)) pu pv pw Uu Uv Uw su sv sw P a0 a1 b0 b1 c0 c1
           (Z.to_nat nu) (Z.to_nat nv) (Z.to_nat nw))).
Proof.
  intros. apply VolumeEvaluatorRational_evaluate_tie_gen; auto; intros; apply find_span_linear_tie; lia.
Qed.
End Tie.

Definition VolumeEvaluator_evaluate_tie_R := @VolumeEvaluator_evaluate_tie _ Rops.
Definition VolumeEvaluator_evaluate_tie_Q := @VolumeEvaluator_evaluate_tie _ Qops.
Definition VolumeEvaluatorRational_evaluate_tie_R := @VolumeEvaluatorRational_evaluate_tie _ Rops.
Definition VolumeEvaluatorRational_evaluate_tie_Q := @VolumeEvaluatorRational_evaluate_tie _ Qops.

(* ---- non-vacuity: degrees (2, 1, 1), 3 x 3 x 2 weighted control points (v fastest, then u, then w), 2 x 2 x 2 samples; the
   values are what geomdl returns for this volume ---- *)
Local Open Scope Q_scope.
Definition exVu : list Q := [0; 0; 0; 1; 1; 1].
Definition exVv : list Q := [0; 0; 1#2; 1; 1].
Definition exVw : list Q := [0; 0; 1; 1].
Definition exPv : list (list Q) :=
  [[0; 0; 0; 1]; [0; 1; 0; 1]; [0; 2; 0; 1]; [1; 0; 0; 1]; [2; 2; 2; 2]; [1; 2; 2; 1]; [2; 0; 0; 1]; [2; 1; 2; 1]; [2; 2; 4; 1];
   [0; 0; 1; 1]; [0; 1; 1; 1]; [0; 2; 1; 1]; [1; 0; 1; 1]; [2; 2; 4; 2]; [1; 2; 3; 1]; [2; 0; 1; 1]; [2; 1; 3; 1]; [2; 2; 5; 1]].
Definition exddv (rat : bool) : geomdata Q :=
  mk_geomdata rat (if rat then 3 else 4)%Z 3%Z [2%Z; 2%Z; 2%Z] 18%Z [2%Z; 1%Z; 1%Z] [exVu; exVv; exVw] [3%Z; 3%Z; 2%Z] exPv.
Example VolumeEvaluator_evaluate_ex :
  Evaluators.VolumeEvaluator_evaluate Qops (Helpers.find_span_linear Qops) (exddv false) [1#4; 1#4; 0] [3#4; 3#4; 1] =
    GOk (volume_evalpts Qops (lit_10e_8 Qops) 4 2 1 1 exVu exVv exVw 3 3 2 exPv (1#4) (3#4) (1#4) (3#4) 0 1 2 2 2)
  /\ vol_dd (exddv false) 2 1 1 exVu exVv exVw 3 3 2 exPv 2 2 2
  /\ (2 < 3 /\ 3 + 2 <= length exVu /\ 1 < 3 /\ 3 + 1 <= length exVv /\ 1 < 2 /\ 2 + 1 <= length exVw /\ 3 * 3 * 2 <= length exPv)%nat.
Proof.
  split; [vm_compute; reflexivity|]. split; [unfold vol_dd; repeat split|unfold exPv, exVu, exVv, exVw; simpl; lia].
Qed.
Example VolumeEvaluator_evaluate_values :
  volume_evalpts Qops (lit_10e_8 Qops) 4 2 1 1 exVu exVv exVw 3 3 2 exPv (1#4) (3#4) (1#4) (3#4) 0 1 2 2 2 =
  [[11#16; 11#16; 7#16; 19#16]; [11#16; 11#16; 13#8; 19#16]; [11#16; 27#16; 15#16; 19#16]; [11#16; 27#16; 17#8; 19#16];
   [27#16; 11#16; 15#16; 19#16]; [27#16; 11#16; 17#8; 19#16]; [27#16; 27#16; 39#16; 19#16]; [27#16; 27#16; 29#8; 19#16]].
Proof. vm_compute. reflexivity. Qed.
Example VolumeEvaluatorRational_evaluate_ex :
  Evaluators.VolumeEvaluatorRational_evaluate Qops (Helpers.find_span_linear Qops) (exddv true) [1#4; 1#4; 0] [3#4; 3#4; 1] =
    GOk (map (project Qops) (volume_evalpts Qops (lit_10e_8 Qops) 4 2 1 1 exVu exVv exVw 3 3 2 exPv (1#4) (3#4) (1#4) (3#4) 0 1 2 2 2))
  /\ nth 0 (map (project Qops) (volume_evalpts Qops (lit_10e_8 Qops) 4 2 1 1 exVu exVv exVw 3 3 2 exPv (1#4) (3#4) (1#4) (3#4) 0 1 2 2 2)) [] =
     [11#19; 11#19; 7#19]
  /\ eval_dim (exddv true) = 4%Z.
Proof. split; [vm_compute; reflexivity|]. split; vm_compute; reflexivity. Qed.
